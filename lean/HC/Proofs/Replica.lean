import HC.Proofs.Sync
import HC.Proofs.ApplyTotal
import HC.Proofs.UpgradeBytes
/-!
The replica at core level (C03, "replicas converge to the writer's data"): applying the writer's honest
answers with `verify_and_apply_proof` writes every block at the byte offset it has in the writer's log, so
what the replica holds reads back byte-identical.

* `climb_exact`: the node list of an accepted block changeset is exactly leaf, sibling, parent, sibling,
  parent … up to the stored ancestor;
* `scan_path`: `byte_offset_in_changeset` walks that list and adds up the left siblings below the ancestor;
* `Closed`: a sparse replica in which every stored node that is not a root has its sibling and its parent
  stored — what makes the byte-offset walks of `byte_offset_from_nodes` succeed on a *sparse* tree; kept by
  every committed honest answer.
-/
namespace HC.Replica
open HC HC.Codec HC.Flat HC.Tree HC.RefTree HC.RefProof HC.Sound HC.Offsets HC.TreeStore HC.Complete HC.UpgradeSound HC.CreateTotal HC.Oplog

/-- nodes recorded by the climb of `k` levels from `(d, o)`, newest first -/
def upPath (C : Crypto) (bs : Array Bytes) : Nat → Nat → Nat → List Node
  | _, _, 0 => []
  | d, o, k+1 => upPath C bs (d + 1) (o / 2) k ++ [nodeAt C bs (d + 1) (o / 2), nodeAt C bs d (sib o)]

theorem climb_exact (C : Crypto) (bs : Array Bytes) : ∀ (k fuel d o : Nat) (rn : List Node), k < fuel →
    climb C fuel (plainQueue (sibPath C bs d o k)) (iat d o) (nodeAt C bs d o) rn
      = .ok (nodeAt C bs (d + k) (o / 2 ^ k), upPath C bs d o k ++ rn) := by
  intro k
  induction k with
  | zero =>
    intro fuel d o rn hf
    obtain ⟨fuel, rfl⟩ : ∃ f, fuel = f + 1 := ⟨fuel - 1, by omega⟩
    simp [climb, sibPath, plainQueue, upPath]
  | succ k ih =>
    intro fuel d o rn hf
    obtain ⟨fuel, rfl⟩ : ∃ f, fuel = f + 1 := ⟨fuel - 1, by omega⟩
    have hlen : ¬ (plainQueue (nodeAt C bs d (sib o) :: sibPath C bs (d + 1) (o / 2) k)).length = 0 := by simp [plainQueue]
    have hs := shift_plain (nodeAt C bs d (sib o)) (sibPath C bs (d + 1) (o / 2) k) (iat d (sib o)).index rfl
    simp only [climb, sibPath, hlen, ite_false, iat_sibling, hs]
    rw [iat_parent, sib_half]
    have hpar : parentNode C (iat (d + 1) (o / 2)).index (nodeAt C bs d o) (nodeAt C bs d (sib o)) = nodeAt C bs (d + 1) (o / 2) :=
      parentNode_ref C bs d o
    rw [hpar, ih fuel (d + 1) (o / 2) _ (by omega)]
    have e1 : d + 1 + k = d + (k + 1) := by omega
    have e2 : o / 2 / 2 ^ k = o / 2 ^ (k + 1) := div_pow_succ o k
    rw [e1, e2]
    simp [upPath]

/-- membership in the climb's list: the siblings and the parents along the path -/
theorem mem_upPath (C : Crypto) (bs : Array Bytes) (n : Node) : ∀ (k d o : Nat),
    n ∈ upPath C bs d o k ↔ ∃ j, j < k ∧ (n = nodeAt C bs (d + j + 1) (o / 2 ^ (j + 1)) ∨ n = nodeAt C bs (d + j) (sib (o / 2 ^ j))) := by
  intro k
  induction k with
  | zero => intro d o; simp [upPath]
  | succ k ih =>
    intro d o
    simp only [upPath, List.mem_append, List.mem_cons, List.mem_singleton, List.not_mem_nil, or_false, ih]
    constructor
    · rintro (⟨j, hj, h⟩ | h | h)
      · refine ⟨j + 1, by omega, ?_⟩
        have e1 : d + 1 + j + 1 = d + (j + 1) + 1 := by omega
        have e2 : o / 2 / 2 ^ (j + 1) = o / 2 ^ (j + 1 + 1) := div_pow_succ o (j + 1)
        have e3 : d + 1 + j = d + (j + 1) := by omega
        have e4 : o / 2 / 2 ^ j = o / 2 ^ (j + 1) := div_pow_succ o j
        rw [e1, e2, e3, e4] at h
        exact h
      · exact ⟨0, by omega, Or.inl (by simpa using h)⟩
      · exact ⟨0, by omega, Or.inr (by simpa using h)⟩
    · rintro ⟨j, hj, h⟩
      cases j with
      | zero =>
        rcases h with h | h
        · right; left; simpa using h
        · right; right; simpa using h
      | succ j =>
        left
        refine ⟨j, by omega, ?_⟩
        have e1 : d + 1 + j + 1 = d + (j + 1) + 1 := by omega
        have e2 : o / 2 / 2 ^ (j + 1) = o / 2 ^ (j + 1 + 1) := div_pow_succ o (j + 1)
        have e3 : d + 1 + j = d + (j + 1) := by omega
        have e4 : o / 2 / 2 ^ j = o / 2 ^ (j + 1) := div_pow_succ o j
        rw [e1, e2, e3, e4]
        exact h

/-- the accepted block changeset, exactly -/
theorem block_changeset_exact (C : Crypto) (bs : Array Bytes) (t : Tree) (f : File) (pk : Bytes) (i k fork : Nat)
    (hstored : t.node? f (Flat.index k (i / 2 ^ k)) = some (nodeAt C bs k (i / 2 ^ k))) :
    t.verifyProof C f ⟨fork, some ⟨i, bs.getD i [], sibPath C bs 0 i k⟩, none, none, none⟩ pk
      = .ok { t.changeset with rnodes := upPath C bs 0 i k ++ [nodeAt C bs 0 i] } := by
  have hnew : Iter.new (i * 2) = iat 0 i := by rw [Nat.mul_comm]; exact new_even i
  have hleaf : blockNode C (iat 0 i).index (bs.getD i []) = nodeAt C bs 0 i := by
    simp [blockNode, nodeAt, RefTree.node, iat]
  have hc := climb_exact C bs k ((plainQueue (sibPath C bs 0 i k)).length + 1) 0 i
    (nodeAt C bs 0 i :: t.changeset.rnodes) (by simp [plainQueue, sibPath_length])
  simp only [Nat.zero_add] at hc
  have hreq : t.requiredNode f (nodeAt C bs k (i / 2 ^ k)).index = .ok (nodeAt C bs k (i / 2 ^ k)) := by
    simp [Tree.requiredNode, nodeAt_index, hstored]
  unfold verifyProof
  simp only [verifyTree, untrustedOf, noSeekOf, Option.isNone_some, Bool.false_and, Bool.false_eq_true,
    ite_false, seekHalf, andThen, mainHalf, hnew, plainQueue_eq, hleaf, hc, hreq]
  simp [Tree.changeset]

/-! ### the offset walk over the changeset's nodes -/

/-- the climb's list in the order `byte_offset_in_changeset` scans it (oldest first) -/
def downPath (C : Crypto) (bs : Array Bytes) : Nat → Nat → Nat → List Node
  | _, _, 0 => []
  | d, o, k+1 => nodeAt C bs d (sib o) :: nodeAt C bs (d + 1) (o / 2) :: downPath C bs (d + 1) (o / 2) k

theorem upPath_reverse (C : Crypto) (bs : Array Bytes) : ∀ (k d o : Nat), (upPath C bs d o k).reverse = downPath C bs d o k := by
  intro k
  induction k with
  | zero => intro d o; rfl
  | succ k ih => intro d o; simp [upPath, downPath, ih]

theorem len_parent (C : Crypto) (bs : Array Bytes) (d o : Nat) :
    (nodeAt C bs (d + 1) o).length = (nodeAt C bs d (2 * o)).length + (nodeAt C bs d (2 * o + 1)).length := by
  simp [nodeAt, RefTree.node]

theorem nodeAt_len (C : Crypto) (bs : Array Bytes) (d o : Nat) :
    psum bs (o * 2 ^ d) + (nodeAt C bs d o).length = psum bs ((o + 1) * 2 ^ d) := node_size C bs d o

theorem scan_path (C : Crypto) (bs : Array Bytes) : ∀ (k d o off : Nat),
    ∃ r, byteOffsetInChangeset.scan (downPath C bs d o k) (iat (d + 1) (o / 2)) off (decide (o % 2 = 1)) (some (nodeAt C bs d o))
        = (r, some (nodeAt C bs (d + k) (o / 2 ^ k)))
      ∧ r + psum bs (o / 2 ^ k * 2 ^ (d + k)) = off + psum bs (o * 2 ^ d) := by
  intro k
  induction k with
  | zero => intro d o off; exact ⟨off, by simp [downPath, byteOffsetInChangeset.scan], by simp⟩
  | succ k ih =>
    intro d o off
    have hne : (nodeAt C bs d (sib o)).index ≠ (iat (d + 1) (o / 2)).index := by
      intro e
      have := (index_inj d (sib o) (d + 1) (o / 2) e).1
      omega
    have heq : (nodeAt C bs (d + 1) (o / 2)).index = (iat (d + 1) (o / 2)).index := rfl
    simp only [downPath, byteOffsetInChangeset.scan, hne, ite_false, heq, ite_true, iat_parent]
    have hir : (iat (d + 1) (o / 2)).isRight = decide (o / 2 % 2 = 1) := rfl
    rw [hir]
    have e1' : d + 1 + k = d + (k + 1) := by omega
    have e2' : o / 2 / 2 ^ k = o / 2 ^ (k + 1) := div_pow_succ o k
    by_cases ho : o % 2 = 1
    · have e1 : 2 * (o / 2) = o - 1 := by omega
      have e4 : o - 1 + 1 = o := by omega
      have hl := len_parent C bs d (o / 2)
      rw [e1, e4] at hl
      have e3 : o / 2 * 2 ^ (d + 1) = (o - 1) * 2 ^ d := by rw [pow_succ2, ← e1]; ring
      have hsz := nodeAt_len C bs d (o - 1)
      rw [e4] at hsz
      simp only [ho, decide_true]
      obtain ⟨r, h1, h2⟩ := ih (d + 1) (o / 2) (off + ((nodeAt C bs (d + 1) (o / 2)).length - (nodeAt C bs d o).length))
      rw [e1', e2'] at h1 h2
      refine ⟨r, h1, ?_⟩
      rw [e3, hl] at h2
      omega
    · have e3 : o / 2 * 2 ^ (d + 1) = o * 2 ^ d := by
        rw [pow_succ2]
        have : o = 2 * (o / 2) := by omega
        calc o / 2 * (2 * 2 ^ d) = (2 * (o / 2)) * 2 ^ d := by ring
          _ = o * 2 ^ d := by rw [← this]
      simp only [ho, decide_false]
      obtain ⟨r, h1, h2⟩ := ih (d + 1) (o / 2) off
      rw [e1', e2'] at h1 h2
      refine ⟨r, h1, ?_⟩
      rw [e3] at h2
      exact h2

/-! ### byte offsets on a sparse tree -/

/-- the left siblings that the descent to leaf `s` reads are stored (inside a tree of `m` leaves) -/
def LeftStored (C : Crypto) (bs : Array Bytes) (m : Nat) (t : Tree) (f : File) (s : Nat) : Prop :=
  ∀ e q, (2 * q + 1) * 2 ^ e ≤ s → s < (2 * q + 2) * 2 ^ e → (2 * q + 2) * 2 ^ e ≤ m →
    t.node? f (Flat.index e (2 * q)) = some (nodeAt C bs e (2 * q))

theorem offsetDescend_sparse (C : Crypto) (bs : Array Bytes) (m : Nat) (t : Tree) (f : File) (s : Nat)
    (hL : LeftStored C bs m t f s) :
    ∀ (d o acc fuel : Nat), o * 2 ^ d ≤ s → s < (o + 1) * 2 ^ d → (o + 1) * 2 ^ d ≤ m → d < fuel →
      ∃ r, offsetDescend t f (2 * s) fuel (iat d o) acc = .ok r ∧ r + psum bs (o * 2 ^ d) = acc + psum bs s := by
  intro d
  induction d with
  | zero =>
    intro o acc fuel h1 h2 _ hf
    obtain ⟨fuel, rfl⟩ : ∃ k, fuel = k + 1 := ⟨fuel - 1, by omega⟩
    have : o = s := by simp at h1 h2; omega
    subst this
    refine ⟨acc, ?_, by simp⟩
    have : (iat 0 o).index = 2 * o := by simp [iat, Flat.index]; omega
    simp [offsetDescend, this]
  | succ d ih =>
    intro o acc fuel h1 h2 h3 hf
    obtain ⟨fuel, rfl⟩ : ∃ k, fuel = k + 1 := ⟨fuel - 1, by omega⟩
    have hp := pow_pos' d
    have hidx : (iat (d + 1) o).index = 2 * Flat.index d o + 1 := index_succ d o
    have hidx2 : Flat.index d o = o * (2 * 2 ^ d) + (2 ^ d - 1) := index_eq d o
    have e1 : o * 2 ^ (d + 1) = 2 * o * 2 ^ d := by rw [pow_succ2]; ring
    have e2 : (o + 1) * 2 ^ (d + 1) = (2 * o + 1 + 1) * 2 ^ d := by rw [pow_succ2]; ring
    have e3 : (2 * o + 1) * 2 ^ d = 2 * o * 2 ^ d + 2 ^ d := by ring
    have e4 : (2 * o + 1 + 1) * 2 ^ d = 2 * o * 2 ^ d + 2 * 2 ^ d := by ring
    have e5 : o * (2 * 2 ^ d) = 2 * o * 2 ^ d := by ring
    have hne : ¬ ((iat (d + 1) o).index = 2 * s) := by omega
    by_cases hlt : 2 * s < (iat (d + 1) o).index
    · have hin : s < (2 * o + 1) * 2 ^ d := by omega
      obtain ⟨r, hr, hs⟩ := ih (2 * o) acc fuel (by omega) hin (by omega) (by omega)
      refine ⟨r, ?_, by rw [e1]; exact hs⟩
      simp only [offsetDescend, hne, ite_false, hlt, ite_true, iat_leftChild]
      exact hr
    · have hin : (2 * o + 1) * 2 ^ d ≤ s := by omega
      have e7 : (2 * o + 2) * 2 ^ d = (2 * o + 1 + 1) * 2 ^ d := rfl
      have hnode := hL d o hin (by rw [e7]; omega) (by rw [e7]; omega)
      have hreq : t.requiredNode f (iat d (2 * o)).index = .ok (nodeAt C bs d (2 * o)) := by
        simp [requiredNode, iat, hnode]
      have hsib : (iat d (2 * o)).sibling = iat d (2 * o + 1) := iat_sibling_even d (2 * o) (by omega)
      obtain ⟨r, hr, hs⟩ := ih (2 * o + 1) (acc + (nodeAt C bs d (2 * o)).length) fuel hin (by omega) (by omega) (by omega)
      have hsz := node_size C bs d (2 * o)
      refine ⟨r, ?_, ?_⟩
      · simp only [offsetDescend, hne, ite_false, hlt, iat_leftChild, hreq, hsib]
        exact hr
      · simp only [nodeAt] at hs
        rw [e1]; omega

theorem go_sparse (C : Crypto) (bs : Array Bytes) (m : Nat) (t : Tree) (f : File) (s : Nat) (hL : LeftStored C bs m t f s)
    (hm : m < 2 ^ 64) :
    ∀ (l : List (Nat × Nat)) (a b acc : Nat), Cover l a b → a ≤ s → s < b → b ≤ m →
      ∃ r, byteOffsetFromNodes.go t f (2 * s) (l.map fun p => nodeAt C bs p.1 p.2) (2 * a) acc = .ok r
        ∧ r + psum bs a = acc + psum bs s := by
  intro l
  induction l with
  | nil =>
    intro a b acc h h1 h2 _
    cases h; omega
  | cons p rest ih =>
    intro a b acc h h1 h2 h3
    cases h with
    | cons d o _ _ _ ha hrest =>
      have hp := pow_pos' d
      have hb := hrest.le
      have hidx : (nodeAt C bs d o).index = o * (2 * 2 ^ d) + (2 ^ d - 1) := index_eq d o
      have e5 : o * (2 * 2 ^ d) = 2 * (o * 2 ^ d) := by ring
      have e6 : (o + 1) * 2 ^ d = o * 2 ^ d + 2 ^ d := by ring
      have hhead : 2 * a + 2 * ((nodeAt C bs d o).index - 2 * a + 1) = 2 * ((o + 1) * 2 ^ d) := by
        rw [hidx, ha, e5, e6]; omega
      simp only [List.map_cons, byteOffsetFromNodes.go, hhead]
      by_cases hge : 2 * s ≥ 2 * ((o + 1) * 2 ^ d)
      · obtain ⟨r, hr, hs⟩ := ih ((o + 1) * 2 ^ d) b (acc + (nodeAt C bs d o).length) hrest (by omega) h2 h3
        refine ⟨r, ?_, ?_⟩
        · simp only [hge, ite_true]; exact hr
        · have := node_size C bs d o
          simp only [nodeAt] at hs
          rw [ha]; omega
      · have hd : d < 64 := by
          have h4 : 2 ^ d ≤ (o + 1) * 2 ^ d := Nat.le_mul_of_pos_left _ (by omega)
          have h5 : 2 ^ d < 2 ^ 64 := by omega
          exact (Nat.pow_lt_pow_iff_right (by decide)).mp h5
        obtain ⟨r, hr, hs⟩ := offsetDescend_sparse C bs m t f s hL d o acc 70 (by omega) (by omega) (by omega) (by omega)
        refine ⟨r, ?_, by rw [ha]; exact hs⟩
        simp only [hge, ite_false]
        have : Iter.new (nodeAt C bs d o).index = iat d o := new_index d o (by omega)
        rw [this]; exact hr

theorem leftSpan_index (d o : Nat) (hd : d ≤ 64) : leftSpan (Flat.index d o) = 2 * (o * 2 ^ d) := by
  cases d with
  | zero => simp [leftSpan, depth, depthAux, index_zero]
  | succ d =>
    have hdep : depth (Flat.index (d + 1) o) = d + 1 := depthAux_index 64 (d + 1) o hd
    have hnew := new_index (d + 1) o hd
    have hoff : Flat.offset (Flat.index (d + 1) o) = o := by
      have h1 : Flat.index (d + 1) o % 2 = 1 := by have := index_succ d o; omega
      have : (Iter.new (Flat.index (d + 1) o)).offset = o := by rw [hnew]; rfl
      simpa [Iter.new, h1] using this
    simp only [leftSpan, hdep, hoff]
    rw [pow_succ2 (d + 1)]
    simp
    ring

/-- `byte_offset_from_nodes` on a sparse tree holding the reference roots: the start of the node's span -/
theorem byteOffsetFromNodes_sparse (C : Crypto) (bs : Array Bytes) (t : Tree) (f : File) (hm : bs.size < 2 ^ 64)
    (hroots : t.roots = RefTree.roots C bs) (d o : Nat) (hd : d ≤ 64) (hin : (o + 1) * 2 ^ d ≤ bs.size)
    (hL : LeftStored C bs bs.size t f (o * 2 ^ d)) :
    t.byteOffsetFromNodes f (Flat.index d o) = .ok (psum bs (o * 2 ^ d)) := by
  have hp := pow_pos' d
  have hs : o * 2 ^ d < bs.size := by
    have : (o + 1) * 2 ^ d = o * 2 ^ d + 2 ^ d := by ring
    omega
  obtain ⟨r, hr, hsum⟩ := go_sparse C bs bs.size t f (o * 2 ^ d) hL hm (rootsStack bs.size).reverse 0 bs.size 0 (cover_roots bs.size)
    (Nat.zero_le _) hs (Nat.le_refl _)
  have hr0 : r = psum bs (o * 2 ^ d) := by simp [psum] at hsum; omega
  have htarget : (if Flat.index d o % 2 = 1 then leftSpan (Flat.index d o) else Flat.index d o) = 2 * (o * 2 ^ d) := by
    cases d with
    | zero => simp [index_zero]
    | succ d =>
      have h1 : Flat.index (d + 1) o % 2 = 1 := by have := index_succ d o; omega
      simp only [h1, ite_true]
      exact leftSpan_index (d + 1) o hd
  unfold Tree.byteOffsetFromNodes
  simp only [htarget, hroots, RefTree.roots]
  rw [← hr0]
  simpa using hr

/-! ### closed sparse replicas -/

/-- the parent of a root lies outside the tree -/
theorem root_parent_out (n : Nat) : ∀ p ∈ rootsStack n, n < (p.2 / 2 + 1) * 2 ^ (p.1 + 1) := by
  induction n using Nat.strongRecOn with
  | _ n ih =>
    intro p hp
    by_cases h0 : n = 0
    · subst h0; rw [rootsStack_zero] at hp; cases hp
    by_cases hev : n % 2 = 0
    · rw [rootsStack_even n h0 hev] at hp
      simp only [List.mem_map] at hp
      obtain ⟨q, hq, rfl⟩ := hp
      have := ih (n / 2) (by omega) q hq
      simp only [RefProof.lift]
      rw [pow_succ2 (q.1 + 1)]
      have e : (q.2 / 2 + 1) * (2 * 2 ^ (q.1 + 1)) = 2 * ((q.2 / 2 + 1) * 2 ^ (q.1 + 1)) := by ring
      omega
    · rw [rootsStack_odd n (by omega)] at hp
      simp only [List.mem_cons, List.mem_map] at hp
      rcases hp with rfl | ⟨q, hq, rfl⟩
      · simp; omega
      · have := ih (n / 2) (by omega) q hq
        simp only [RefProof.lift]
        rw [pow_succ2 (q.1 + 1)]
        have e : (q.2 / 2 + 1) * (2 * 2 ^ (q.1 + 1)) = 2 * ((q.2 / 2 + 1) * 2 ^ (q.1 + 1)) := by ring
        omega

/-- a sparse replica at the writer's length in which every stored node whose parent lies inside the tree has
    its sibling and its parent stored -/
structure Closed (C : Crypto) (bs : Array Bytes) (t : Tree) (f : File) : Prop where
  sparse : Sparse C bs bs.size t f
  closed : ∀ d o, t.node? f (Flat.index d o) = some (nodeAt C bs d o) → (o / 2 + 1) * 2 ^ (d + 1) ≤ bs.size →
    t.node? f (Flat.index d (sib o)) = some (nodeAt C bs d (sib o))
      ∧ t.node? f (Flat.index (d + 1) (o / 2)) = some (nodeAt C bs (d + 1) (o / 2))

/-- every ancestor inside the tree of a stored node is stored -/
theorem anc_stored (C : Crypto) (bs : Array Bytes) (t : Tree) (f : File) (h : Closed C bs t f) (d o : Nat)
    (hst : t.node? f (Flat.index d o) = some (nodeAt C bs d o)) :
    ∀ j, (o / 2 ^ j + 1) * 2 ^ (d + j) ≤ bs.size → t.node? f (Flat.index (d + j) (o / 2 ^ j)) = some (nodeAt C bs (d + j) (o / 2 ^ j)) := by
  intro j
  induction j with
  | zero => intro _; simpa using hst
  | succ j ih =>
    intro hin
    have hstep := span_le (o / 2 ^ j) (d + j) 1
    have e1 : o / 2 ^ j / 2 ^ 1 = o / 2 ^ (j + 1) := by rw [Nat.pow_one, Nat.div_div_eq_div_mul, ← Nat.pow_succ]
    have e2 : d + j + 1 = d + (j + 1) := by omega
    rw [e1, e2] at hstep
    have hprev := ih (by omega)
    have e3 : o / 2 ^ j / 2 = o / 2 ^ (j + 1) := by rw [Nat.div_div_eq_div_mul, ← Nat.pow_succ]
    have := (h.closed (d + j) (o / 2 ^ j) hprev (by rw [e3, e2]; exact hin)).2
    rw [e3, e2] at this
    exact this

/-- on a closed replica, every left sibling the descent to the start of a stored node's span reads is stored -/
theorem closed_left (C : Crypto) (bs : Array Bytes) (t : Tree) (f : File) (h : Closed C bs t f) (d o : Nat)
    (hst : t.node? f (Flat.index d o) = some (nodeAt C bs d o)) : LeftStored C bs bs.size t f (o * 2 ^ d) := by
  intro e q h1 h2 h3
  have hpe := pow_pos' e
  have hpd := pow_pos' d
  -- `(e, 2q+1)` is the ancestor of `(d, o)` at level `e`
  have hde : d ≤ e := by
    by_contra hlt
    obtain ⟨x, rfl⟩ : ∃ x, d = e + 1 + x := ⟨d - e - 1, by omega⟩
    have e1 : o * 2 ^ (e + 1 + x) = (o * 2 ^ x * 2) * 2 ^ e := by
      rw [show e + 1 + x = x + 1 + e by omega, Nat.pow_add, Nat.pow_succ]; ring
    rw [e1] at h1 h2
    have a1 := Nat.le_of_mul_le_mul_right h1 hpe
    have a2 := Nat.lt_of_mul_lt_mul_right h2
    omega
  obtain ⟨j, rfl⟩ : ∃ j, e = d + j := ⟨e - d, by omega⟩
  have hdiv : o / 2 ^ j = 2 * q + 1 := by
    apply div_eq_of_span
    · have e1 : (2 * q + 1) * 2 ^ (d + j) = ((2 * q + 1) * 2 ^ j) * 2 ^ d := by rw [Nat.pow_add]; ring
      rw [e1] at h1
      exact Nat.le_of_mul_le_mul_right h1 hpd
    · have e1 : (2 * q + 2) * 2 ^ (d + j) = ((2 * q + 1 + 1) * 2 ^ j) * 2 ^ d := by rw [Nat.pow_add]; ring
      rw [e1] at h2
      exact Nat.lt_of_mul_lt_mul_right h2
  have hin : (o / 2 ^ j + 1) * 2 ^ (d + j) ≤ bs.size := by
    rw [hdiv]
    have : (2 * q + 1 + 1) * 2 ^ (d + j) ≤ (2 * q + 2) * 2 ^ (d + j + 1) := by
      rw [pow_succ2 (d + j)]
      have : (2 * q + 2) * (2 * 2 ^ (d + j)) = 2 * ((2 * q + 1 + 1) * 2 ^ (d + j)) := by ring
      omega
    have e2 : (2 * q + 1 + 1) * 2 ^ (d + j) = (2 * q + 2) * 2 ^ (d + j) := rfl
    omega
  have hanc := anc_stored C bs t f h d o hst j hin
  rw [hdiv] at hanc
  have hpar : ((2 * q + 1) / 2 + 1) * 2 ^ (d + j + 1) ≤ bs.size := by
    have : (2 * q + 1) / 2 = q := by omega
    rw [this, pow_succ2]
    have : (q + 1) * (2 * 2 ^ (d + j)) = (2 * q + 2) * 2 ^ (d + j) := by ring
    omega
  have := (h.closed (d + j) (2 * q + 1) hanc hpar).1
  have hs : sib (2 * q + 1) = 2 * q := by unfold sib; split <;> omega
  rw [hs] at this
  exact this

/-! ### where an honest block is written -/

/-- sizes of the roots before a given one add up to the start of its span -/
theorem cover_prefix_sum (C : Crypto) (bs : Array Bytes) : ∀ (l : List (Nat × Nat)) (a b : Nat), Cover l a b →
    ∀ (r : Nat) (p : Nat × Nat), l[r]? = some p →
      (((l.map fun p => nodeAt C bs p.1 p.2).take r).map (·.length)).sum + psum bs a = psum bs (p.2 * 2 ^ p.1) := by
  intro l
  induction l with
  | nil => intro a b _ r p h; simp at h
  | cons q rest ih =>
    intro a b hc r p h
    cases hc with
    | cons d o _ _ _ ha hrest =>
      cases r with
      | zero =>
        simp only [List.getElem?_cons_zero, Option.some.injEq] at h
        subst h
        simp [ha]
      | succ r =>
        simp only [List.getElem?_cons_succ] at h
        have := ih _ _ hrest r p h
        simp only [List.map_cons, List.take_succ_cons, List.sum_cons]
        have hsz := nodeAt_len C bs d o
        rw [ha]
        omega

theorem byteOffsetInChangeset_honest (C : Crypto) (bs : Array Bytes) (t : Tree) (f : File) (h : Closed C bs t f)
    (hm : bs.size < 2 ^ 64) (hroots : t.roots = RefTree.roots C bs) (i k : Nat) (hi : i < bs.size)
    (hstored : t.node? f (Flat.index k (i / 2 ^ k)) = some (nodeAt C bs k (i / 2 ^ k)))
    (hin : (i / 2 ^ k + 1) * 2 ^ k ≤ bs.size) :
    t.byteOffsetInChangeset f i { t.changeset with rnodes := upPath C bs 0 i k ++ [nodeAt C bs 0 i] } = .ok (psum bs i) := by
  have hlen : t.length = bs.size := h.sparse.length
  have hne : ¬ (t.length = i) := by omega
  have hnodes : ({ t.changeset with rnodes := upPath C bs 0 i k ++ [nodeAt C bs 0 i] } : Changeset).nodes
      = nodeAt C bs 0 i :: downPath C bs 0 i k := by
    simp [Changeset.nodes, upPath_reverse]
  obtain ⟨r, hscan, hsum⟩ := scan_path C bs k 0 i 0
  simp only [Nat.zero_add, Nat.pow_zero, Nat.mul_one] at hscan hsum
  have hnew : Iter.new (2 * i) = iat 0 i := new_even i
  have hk64 : k ≤ 64 := by
    have h4 : 2 ^ k ≤ (i / 2 ^ k + 1) * 2 ^ k := Nat.le_mul_of_pos_left _ (Nat.succ_pos _)
    have h5 : 2 ^ k < 2 ^ 64 := by omega
    have := (Nat.pow_lt_pow_iff_right (by decide : 1 < 2)).mp h5
    omega
  have hfirst : byteOffsetInChangeset.scan (nodeAt C bs 0 i :: downPath C bs 0 i k) (iat 0 i) 0 false none
      = (r, some (nodeAt C bs k (i / 2 ^ k))) := by
    have heq : (nodeAt C bs 0 i).index = (iat 0 i).index := rfl
    simp only [byteOffsetInChangeset.scan, heq, ite_true, iat_parent]
    have : (iat 0 i).isRight = decide (i % 2 = 1) := rfl
    rw [this]
    exact hscan
  unfold Tree.byteOffsetInChangeset
  simp only [hne, ite_false, hnodes, hnew, hfirst]
  have hcr : ({ t.changeset with rnodes := upPath C bs 0 i k ++ [nodeAt C bs 0 i] } : Changeset).roots = RefTree.roots C bs := by
    simp [Tree.changeset, hroots]
  rw [hcr]
  cases hfi : (RefTree.roots C bs).findIdx? (fun r => r.index = (nodeAt C bs k (i / 2 ^ k)).index) with
  | some x =>
    simp only []
    obtain ⟨hx, hpx, _⟩ := List.findIdx?_eq_some_iff_getElem.mp hfi
    -- the root found is the ancestor itself
    have hl : (RefTree.roots C bs) = (rootsStack bs.size).reverse.map fun p => nodeAt C bs p.1 p.2 := by simp [RefTree.roots]
    have hx' : x < (rootsStack bs.size).reverse.length := by simpa [RefTree.roots] using hx
    have hget : (rootsStack bs.size).reverse[x]? = some ((rootsStack bs.size).reverse[x]) := List.getElem?_eq_getElem hx'
    have hidx : Flat.index ((rootsStack bs.size).reverse[x]).1 ((rootsStack bs.size).reverse[x]).2 = Flat.index k (i / 2 ^ k) := by
      have : (RefTree.roots C bs)[x] = nodeAt C bs ((rootsStack bs.size).reverse[x]).1 ((rootsStack bs.size).reverse[x]).2 := by
        simp [RefTree.roots]
      rw [this] at hpx
      simpa [nodeAt_index] using hpx
    obtain ⟨e1, e2⟩ := index_inj _ _ _ _ hidx
    have hps := cover_prefix_sum C bs _ 0 bs.size (cover_roots bs.size) x _ hget
    rw [e1, e2] at hps
    simp only [psum, Nat.add_zero] at hps
    rw [hl, hps]
    congr 1
  | none =>
    simp only []
    have hL := closed_left C bs t f h k (i / 2 ^ k) hstored
    rw [nodeAt_index, byteOffsetFromNodes_sparse C bs t f hm hroots k (i / 2 ^ k) hk64 hin hL]
    simp only []
    congr 1
    omega

/-- a held block's byte range on a closed replica -/
theorem byteRange_closed (C : Crypto) (bs : Array Bytes) (t : Tree) (f : File) (h : Closed C bs t f)
    (hm : bs.size < 2 ^ 64) (hroots : t.roots = RefTree.roots C bs) (i : Nat) (hi : i < bs.size)
    (hleaf : t.node? f (Flat.index 0 i) = some (nodeAt C bs 0 i)) :
    t.byteRange f i = .ok (psum bs i, sz bs i) := by
  have hlen : t.length = bs.size := h.sparse.length
  have hv : t.validateIndex i = .ok (2 * i) := by
    simp [Tree.validateIndex, hlen]; omega
  have hL := closed_left C bs t f h 0 i hleaf
  have hoff := byteOffsetFromNodes_sparse C bs t f hm hroots 0 i (by omega) (by simp; omega) hL
  have hidx : Flat.index 0 i = 2 * i := index_zero i
  rw [hidx] at hleaf hoff
  have hreq : t.requiredNode f (2 * i) = .ok (nodeAt C bs 0 i) := by simp [Tree.requiredNode, hleaf]
  simp only [Tree.byteRange, hv, hreq, hoff]
  simp [nodeAt, RefTree.node, sz]

/-! ### committing honest answers keeps the replica closed -/

theorem div_pow_succ' (i j : Nat) : i / 2 ^ j / 2 = i / 2 ^ (j + 1) := by rw [Nat.div_div_eq_div_mul, ← Nat.pow_succ]


theorem nodeAt_inj (C : Crypto) (bs : Array Bytes) (d o d' o' : Nat) (h : nodeAt C bs d o = nodeAt C bs d' o') : d = d' ∧ o = o' :=
  index_inj d o d' o' (by have := congrArg Node.index h; simpa [nodeAt_index] using this)

theorem insert_lookup (C : Crypto) (hC : HashWF C) (bs : Array Bytes) (t t' : Tree) (f : File) (l : List Node)
    (hl : ∀ n ∈ l, ∃ d o, n = nodeAt C bs d o) (hu : t'.unflushed = insertAll t.unflushed l) :
    (∀ d o, nodeAt C bs d o ∈ l → t'.node? f (Flat.index d o) = some (nodeAt C bs d o))
    ∧ (∀ d o, t.node? f (Flat.index d o) = some (nodeAt C bs d o) → t'.node? f (Flat.index d o) = some (nodeAt C bs d o))
    ∧ (∀ d o, t'.node? f (Flat.index d o) = some (nodeAt C bs d o) →
        nodeAt C bs d o ∈ l ∨ t.node? f (Flat.index d o) = some (nodeAt C bs d o)) := by
  have hit : ∀ d o, (∃ n ∈ l, n.index = Flat.index d o) → nodeAt C bs d o ∈ l ∧ t'.node? f (Flat.index d o) = some (nodeAt C bs d o) := by
    intro d o hex
    obtain ⟨y, hy, hyi, hget⟩ := insertAll_hit l t.unflushed _ hex
    obtain ⟨d', o', rfl⟩ := hl y hy
    obtain ⟨rfl, rfl⟩ := index_inj d' o' d o hyi
    exact ⟨hy, node?_of_unflushed t' f _ _ (by rw [hu]; exact hget) (nodeAt_not_blank C hC bs _ _)⟩
  have miss : ∀ d o, ¬ (∃ n ∈ l, n.index = Flat.index d o) → t'.node? f (Flat.index d o) = t.node? f (Flat.index d o) := by
    intro d o hex
    refine node?_congr t t' f _ ?_
    rw [hu]; exact insertAll_miss l t.unflushed _ (fun x hx e => hex ⟨x, hx, e⟩)
  refine ⟨fun d o hm => (hit d o ⟨_, hm, rfl⟩).2, fun d o hold => ?_, fun d o hnew => ?_⟩
  · by_cases hex : ∃ n ∈ l, n.index = Flat.index d o
    · exact (hit d o hex).2
    · rw [miss d o hex]; exact hold
  · by_cases hex : ∃ n ∈ l, n.index = Flat.index d o
    · exact Or.inl (hit d o hex).1
    · rw [miss d o hex] at hnew; exact Or.inr hnew

theorem sib_sib (o : Nat) : sib (sib o) = o := by unfold sib; split <;> split <;> omega

theorem blockNodes_mem (C : Crypto) (bs : Array Bytes) (i k : Nat) (n : Node) :
    n ∈ (nodeAt C bs 0 i :: downPath C bs 0 i k) ↔ n = nodeAt C bs 0 i ∨ n ∈ upPath C bs 0 i k := by
  rw [← upPath_reverse]
  simp

theorem blockNodes_bound (C : Crypto) (bs : Array Bytes) (i k : Nat) (hin : (i / 2 ^ k + 1) * 2 ^ k ≤ bs.size) :
    ∀ n ∈ (nodeAt C bs 0 i :: downPath C bs 0 i k), ∃ d o, n = nodeAt C bs d o ∧ (o + 1) * 2 ^ d ≤ bs.size := by
  intro n hn
  rcases (blockNodes_mem C bs i k n).mp hn with rfl | hn
  · exact ⟨0, i, rfl, Nat.le_trans (by have := span_le i 0 k; simpa using this) hin⟩
  · obtain ⟨j, hj, hc⟩ := (mem_upPath C bs n k 0 i).mp hn
    have hk : i / 2 ^ (j + 1) / 2 ^ (k - (j + 1)) = i / 2 ^ k := by
      rw [Nat.div_div_eq_div_mul, ← Nat.pow_add]; congr 2; omega
    have hsp := span_le (i / 2 ^ (j + 1)) (j + 1) (k - (j + 1))
    rw [hk, show j + 1 + (k - (j + 1)) = k by omega] at hsp
    rcases hc with rfl | rfl
    · exact ⟨0 + j + 1, _, rfl, by simp only [Nat.zero_add]; exact Nat.le_trans hsp hin⟩
    · refine ⟨0 + j, _, rfl, ?_⟩
      simp only [Nat.zero_add]
      have := sib_bound (i / 2 ^ j) j
      rw [div_pow_succ' i j] at this
      exact Nat.le_trans this (Nat.le_trans hsp hin)

/-- changesets made of reference nodes pass the oplog encoder's 32-byte-hash check -/
theorem encodable_of_ref (C : Crypto) (hC : HashWF C) (bs : Array Bytes) (cs : Changeset)
    (h : ∀ n ∈ cs.nodes, ∃ d o, n = nodeAt C bs d o) : Core.encodable cs = true := by
  simp only [Core.encodable, List.all_eq_true, beq_iff_eq]
  intro n hn
  obtain ⟨d, o, rfl⟩ := h n hn
  exact nodeAt_hash_len C hC bs d o

/-- committing an accepted block answer keeps the replica closed and stores the block's leaf -/
theorem block_commit_closed (C : Crypto) (hC : HashWF C) (bs : Array Bytes) (t : Tree) (f : File) (h : Closed C bs t f)
    (i k : Nat) (hstored : t.node? f (Flat.index k (i / 2 ^ k)) = some (nodeAt C bs k (i / 2 ^ k)))
    (hin : (i / 2 ^ k + 1) * 2 ^ k ≤ bs.size) (t' : Tree)
    (hu : t'.unflushed = insertAll t.unflushed (nodeAt C bs 0 i :: downPath C bs 0 i k))
    (hlen : t'.length = t.length) :
    Closed C bs t' f ∧ t'.node? f (Flat.index 0 i) = some (nodeAt C bs 0 i)
      ∧ (∀ d o, t.node? f (Flat.index d o) = some (nodeAt C bs d o) → t'.node? f (Flat.index d o) = some (nodeAt C bs d o)) := by
  have hmem := blockNodes_mem C bs i k
  have hbound := blockNodes_bound C bs i k hin
  obtain ⟨hnew, hold, honly⟩ := insert_lookup C hC bs t t' f _ (fun n hn => by obtain ⟨d, o, e, _⟩ := hbound n hn; exact ⟨d, o, e⟩) hu
  have hS : Sparse C bs bs.size t' f := by
    refine Sync.sparse_insert C hC bs bs.size bs.size t t' f h.sparse (Nat.le_refl _) _ hbound hu (by rw [hlen]; exact h.sparse.length)
      (fun p hp => Or.inr (h.sparse.roots p hp))
  have hleaf : t'.node? f (Flat.index 0 i) = some (nodeAt C bs 0 i) := hnew 0 i (by simp)
  refine ⟨⟨hS, ?_⟩, hleaf, hold⟩
  intro d o hst hpar
  -- path node `(j, i / 2^j)` is stored afterwards, for every `j ≤ k`
  have hpathN : ∀ j, j ≤ k → t'.node? f (Flat.index j (i / 2 ^ j)) = some (nodeAt C bs j (i / 2 ^ j)) := by
    intro j hj
    by_cases hjk : j = k
    · rw [hjk]; exact hold _ _ hstored
    · cases j with
      | zero => simpa using hleaf
      | succ j =>
        apply hnew
        apply (hmem _).mpr
        right
        exact (mem_upPath C bs _ k 0 i).mpr ⟨j, by omega, Or.inl (by simp)⟩
  have hsibN : ∀ j, j < k → t'.node? f (Flat.index j (sib (i / 2 ^ j))) = some (nodeAt C bs j (sib (i / 2 ^ j))) := by
    intro j hj
    apply hnew
    apply (hmem _).mpr
    right
    exact (mem_upPath C bs _ k 0 i).mpr ⟨j, hj, Or.inr (by simp)⟩
  rcases honly d o hst with hin' | hwas
  · rcases (hmem _).mp hin' with e | e
    · -- the leaf
      obtain ⟨hd, ho⟩ := nodeAt_inj C bs _ _ _ _ e
      rw [hd, ho] at hpar ⊢
      by_cases hk0 : k = 0
      · subst hk0
        have := h.closed 0 i (by simpa using hstored) hpar
        exact ⟨hold _ _ this.1, hold _ _ this.2⟩
      · have h1 := hsibN 0 (by omega)
        have h2 := hpathN 1 (by omega)
        simp only [Nat.pow_zero, Nat.div_one, Nat.pow_one] at h1 h2
        exact ⟨h1, h2⟩
    · obtain ⟨j, hj, hc⟩ := (mem_upPath C bs _ k 0 i).mp e
      rcases hc with e | e
      · -- a parent on the path
        obtain ⟨hd, ho⟩ := nodeAt_inj C bs _ _ _ _ e
        rw [hd, ho] at hpar ⊢
        simp only [Nat.zero_add] at hpar ⊢
        by_cases hjk : j + 1 = k
        · subst hjk
          have := h.closed (j + 1) (i / 2 ^ (j + 1)) hstored hpar
          exact ⟨hold _ _ this.1, hold _ _ this.2⟩
        · have h1 := hsibN (j + 1) (by omega)
          have h2 := hpathN (j + 1 + 1) (by omega)
          rw [← div_pow_succ' i (j + 1)] at h2
          exact ⟨h1, h2⟩
      · -- a sibling of the path
        obtain ⟨hd, ho⟩ := nodeAt_inj C bs _ _ _ _ e
        rw [hd, ho] at hpar ⊢
        simp only [Nat.zero_add] at hpar ⊢
        have h1 := hpathN j (by omega)
        have h2 := hpathN (j + 1) (by omega)
        rw [sib_sib, sib_half, div_pow_succ' i j]
        exact ⟨h1, h2⟩
  · have := h.closed d o hwas hpar
    exact ⟨hold _ _ this.1, hold _ _ this.2⟩

/-- committing the accepted first upgrade makes an empty replica a closed one: it stores exactly the roots -/
theorem upgrade_commit_closed (C : Crypto) (hC : HashWF C) (bs : Array Bytes) (t : Tree) (f : File) (hS : Sparse C bs 0 t f) (t' : Tree)
    (hu : t'.unflushed = insertAll t.unflushed (RefTree.roots C bs)) (hlen : t'.length = bs.size) : Closed C bs t' f := by
  have hroots : RefTree.roots C bs = (rootsStack bs.size).reverse.map (fun p => nodeAt C bs p.1 p.2) := by simp [RefTree.roots]
  have hbound : ∀ n ∈ RefTree.roots C bs, ∃ d o, n = nodeAt C bs d o ∧ (o + 1) * 2 ^ d ≤ bs.size := by
    intro n hn
    rw [hroots] at hn
    obtain ⟨p, hp, rfl⟩ := List.mem_map.mp hn
    exact ⟨p.1, p.2, rfl, rootsStack_bound bs.size p (List.mem_reverse.mp hp)⟩
  obtain ⟨hnew, hold, honly⟩ := insert_lookup C hC bs t t' f _ (fun n hn => by obtain ⟨d, o, e, _⟩ := hbound n hn; exact ⟨d, o, e⟩) hu
  refine ⟨Sync.sparse_insert C hC bs 0 bs.size t t' f hS (Nat.zero_le _) _ hbound hu hlen ?_, ?_⟩
  · intro p hp
    refine Or.inl ⟨nodeAt C bs p.1 p.2, ?_, rfl⟩
    rw [hroots]
    exact List.mem_map.mpr ⟨p, List.mem_reverse.mpr hp, rfl⟩
  · intro d o hst hpar
    exfalso
    rcases honly d o hst with hin | hwas
    · rw [hroots] at hin
      obtain ⟨p, hp, e⟩ := List.mem_map.mp hin
      obtain ⟨e1, e2⟩ := nodeAt_inj C bs _ _ _ _ e
      have := root_parent_out bs.size p (List.mem_reverse.mp hp)
      rw [e1, e2] at this
      omega
    · obtain ⟨d', o', _, _, hb⟩ := hS.sound _ _ hwas
      have := pow_pos' d'
      have : 0 < (o' + 1) * 2 ^ d' := Nat.mul_pos (Nat.succ_pos _) this
      omega

/-! ### flushing the tree's nodes keeps every lookup -/

theorem byte_beyond (f : File) (j : Nat) (h : f.size ≤ j) : f.byte j = 0 := by
  unfold File.byte
  simp [Array.getD, File.size] at h ⊢
  omega

theorem writeSlots_zero (ns : List Node) (hw : ∀ n ∈ ns, n.hash.length = 32) : ∀ (f : File) (i : Nat), (∀ n ∈ ns, n.index ≠ i) →
    (∀ k, k < 40 → f.byte (i * 40 + k) = 0) → ∀ k, k < 40 → (writeSlots f ns).byte (i * 40 + k) = 0 := by
  induction ns with
  | nil => intro f i _ h; exact h
  | cons n rest ih =>
    intro f i hne h0
    simp only [writeSlots, List.foldl_cons]
    apply ih (fun x hx => hw x (by simp [hx])) _ i (fun x hx => hne x (by simp [hx]))
    intro k hk
    rw [File.byte_write]
    have hlen : (nodeBytes n).length = 40 := nodeBytes_length n (hw n (by simp))
    have : n.index ≠ i := hne n (by simp)
    have hN : Spec.nodeSize = 40 := rfl
    split
    · rename_i hin
      rw [hlen, hN] at hin
      omega
    · exact h0 k hk

theorem writeSlots_aligned (ns : List Node) (hw : ∀ n ∈ ns, n.hash.length = 32) : ∀ (f : File), f.size % 40 = 0 →
    (writeSlots f ns).size % 40 = 0 := by
  induction ns with
  | nil => intro f h; exact h
  | cons n rest ih =>
    intro f h
    simp only [writeSlots, List.foldl_cons]
    apply ih (fun x hx => hw x (by simp [hx]))
    rw [File.size_write, nodeBytes_length n (hw n (by simp))]
    have hN : Spec.nodeSize = 40 := rfl
    rw [hN]
    have : (n.index * 40 + 40) % 40 = 0 := by omega
    rcases Nat.le_total f.size (n.index * 40 + 40) with hle | hle
    · rw [Nat.max_eq_right hle]; exact this
    · rw [Nat.max_eq_left hle]; exact h

theorem blank_of_zero (i : Nat) (bytes : Bytes) (hl : bytes.length = 40) (hz : ∀ k, k < 40 → bytes.getD k 0 = 0) :
    (nodeOfBytes i bytes).blank = true := by
  unfold nodeOfBytes Codec.Node.blank
  simp only [List.all_eq_true, beq_iff_eq]
  intro x hx
  obtain ⟨k, hk, rfl⟩ := List.getElem_of_mem hx
  have hk' : k < 32 := by simp at hk; omega
  have := hz (8 + k) (by omega)
  rw [List.getD_eq_getElem?_getD, List.getElem?_eq_getElem (by omega)] at this
  simpa using this

/-- the node list `flush_nodes` writes: the map's values, each under its own index, no index twice -/
theorem flush_list (t : Tree) (hwf : MapWF t.unflushed) :
    ∃ L : List Node, t.flush = ({ t with unflushed := {} }, L.map fun n => SOp.write .tree (n.index * Spec.nodeSize) (nodeBytes n))
      ∧ (∀ n, n ∈ L ↔ t.unflushed[n.index]? = some n) ∧ (∀ n ∈ L, n.hash.length = 32)
      ∧ L.Pairwise (fun a b => a.index ≠ b.index) := by
  refine ⟨(t.unflushed.toList.map (·.2)).mergeSort (fun a b => a.index ≤ b.index), rfl, ?_⟩
  generalize hL : (t.unflushed.toList.map (·.2)).mergeSort (fun a b => a.index ≤ b.index) = L
  have hmem : ∀ n, n ∈ L ↔ t.unflushed[n.index]? = some n := by
    intro n
    rw [← hL, List.mem_mergeSort, List.mem_map]
    constructor
    · rintro ⟨⟨k, v⟩, hkv, rfl⟩
      have := Std.HashMap.mem_toList_iff_getElem?_eq_some.mp hkv
      have hk := (hwf k v this).1
      simp only at hk ⊢
      rw [hk]; exact this
    · intro h
      exact ⟨(n.index, n), Std.HashMap.mem_toList_iff_getElem?_eq_some.mpr h, rfl⟩
  refine ⟨hmem, fun n hn => (hwf _ _ ((hmem n).mp hn)).2.1, ?_⟩
  have hperm : L.Perm (t.unflushed.toList.map (·.2)) := by rw [← hL]; exact List.mergeSort_perm _ _
  have hsym : ∀ {a b : Node}, a.index ≠ b.index → b.index ≠ a.index := fun h e => h e.symm
  apply hperm.pairwise_iff (fun h => hsym h) |>.mpr
  rw [List.pairwise_map]
  have := Std.HashMap.distinct_keys_toList (m := t.unflushed)
  apply this.imp_of_mem
  intro a b ha hb hab
  have ka := (hwf a.1 a.2 (Std.HashMap.mem_toList_iff_getElem?_eq_some.mp ha)).1
  have kb := (hwf b.1 b.2 (Std.HashMap.mem_toList_iff_getElem?_eq_some.mp hb)).1
  simp only [beq_eq_false_iff_ne, ne_eq] at hab
  omega

/-- `flush_nodes` moves the unflushed nodes to their slots: every lookup answers as before (the store's size is
    a multiple of the slot size, so no half slot can surface) -/
theorem flush_lookup (t : Tree) (f : File) (hwf : MapWF t.unflushed) (hal : f.size % 40 = 0) :
    ∃ L : List Node, t.flush = ({ t with unflushed := {} }, L.map fun n => SOp.write .tree (n.index * Spec.nodeSize) (nodeBytes n))
      ∧ (∀ i, ({ t with unflushed := {} } : Tree).node? (writeSlots f L) i = t.node? f i)
      ∧ (writeSlots f L).size % 40 = 0 := by
  obtain ⟨L, hfl, hmem, hwfL, hdist⟩ := flush_list t hwf
  refine ⟨L, hfl, ?_, writeSlots_aligned L hwfL f hal⟩
  obtain ⟨r1, r2⟩ := writeSlots_read L f hwfL hdist
  intro i
  simp only [Tree.node?, Std.HashMap.getElem?_empty]
  have hN : Spec.nodeSize = 40 := rfl
  cases hu : t.unflushed[i]? with
  | some n =>
    have hidx := (hwf _ _ hu).1
    have hn : n ∈ L := (hmem n).mpr (by rw [hidx]; exact hu)
    have := r1 n hn
    rw [hidx] at this
    rw [this]
    have hrt := nodeOfBytes_nodeBytes n (hwf _ _ hu).2.2
    rw [hidx] at hrt
    simp only [hrt]
  | none =>
    have hmiss : ∀ n ∈ L, n.index ≠ i := by
      intro n hn e
      have := (hmem n).mp hn
      rw [e, hu] at this; cases this
    cases hr : f.read (i * Spec.nodeSize) Spec.nodeSize with
    | some bytes => rw [r2 _ _ hmiss hr]
    | none =>
      simp only []
      -- the slot lies beyond the end of the old store: whatever is there now is zero
      have hbeyond : f.size ≤ i * 40 := by
        by_contra hlt
        have hsz : i * 40 + 40 ≤ f.size := by omega
        have : (f.read (i * Spec.nodeSize) Spec.nodeSize).isSome := by
          rw [hN]
          unfold File.read
          simp [File.size] at hsz ⊢
          omega
        rw [hr] at this; cases this
      have hz0 : ∀ k, k < 40 → f.byte (i * 40 + k) = 0 := fun k _ => byte_beyond f _ (by omega)
      have hz := writeSlots_zero L hwfL f i hmiss hz0
      cases hr2 : (writeSlots f L).read (i * Spec.nodeSize) Spec.nodeSize with
      | none => rfl
      | some bytes =>
        simp only []
        have hl := File.read_length _ _ _ _ hr2
        have hb : (nodeOfBytes i bytes).blank = true := by
          apply blank_of_zero i bytes (by rw [hl, hN])
          intro k hk
          have := File.read_byte _ _ _ _ hr2 k (by rw [hN]; exact hk)
          rw [hN] at this
          rw [this]; exact hz k hk
        simp [hb]

/-! ### the replica at core level -/

/-- representation invariant of a replica that has upgraded to the writer's log `bs` and holds the blocks `held` -/
structure RepR (C : Crypto) (bs : Array Bytes) (c : Core) (d : Disk) (held : Nat → Bool) : Prop where
  closed : Closed C bs c.tree d.tree
  roots : c.tree.roots = RefTree.roots C bs
  bytes : c.tree.byteLength = psum bs bs.size
  mapwf : MapWF c.tree.unflushed
  aligned : d.tree.size % 40 = 0
  bits : ∀ i, c.bitfield.get i = held i
  heldLt : ∀ i, held i = true → i < bs.size
  leaf : ∀ i, held i = true → c.tree.node? d.tree (Flat.index 0 i) = some (nodeAt C bs 0 i)
  data : ∀ i, held i = true → ∀ k, k < sz bs i →
    psum bs i + k < d.data.size ∧ d.data.byte (psum bs i + k) = (bs.getD i []).getD k 0
  contig : Core.FirstMissing c.bitfield c.header.contiguous
  small : bs.size < 2 ^ 64 ∧ psum bs bs.size < 2 ^ 64

/-- **what the replica holds reads back byte-identical** -/
theorem get_held (C : Crypto) (bs : Array Bytes) (c : Core) (d : Disk) (held : Nat → Bool) (h : RepR C bs c d held) (i : Nat)
    (hi : held i = true) : (c.getBlock d i).result = .ok (some (bs.getD i [])) := by
  have hb := h.bits i
  have hlt := h.heldLt i hi
  have hr := byteRange_closed C bs c.tree d.tree h.closed h.small.1 h.roots i hlt (h.leaf i hi)
  unfold Core.getBlock
  simp only [hb, hi, Bool.not_true, Bool.false_eq_true, ite_false, hr]
  by_cases hz : sz bs i = 0
  · have : bs.getD i [] = [] := List.eq_nil_of_length_eq_zero hz
    simp [hz, this]
  · have hd := h.data i hi
    have hread : d.data.read (psum bs i) (sz bs i) = some (bs.getD i []) := by
      apply File.read_of_bytes d.data (psum bs i) (bs.getD i [])
      · have := (hd (sz bs i - 1) (by omega)).1
        simp only [sz] at this ⊢
        omega
      · intro k hk
        exact (hd k hk).2
    simp only [hz, ite_false, hread]

/-- and what it does not hold is not served -/
theorem get_missing (C : Crypto) (bs : Array Bytes) (c : Core) (d : Disk) (held : Nat → Bool) (h : RepR C bs c d held) (i : Nat)
    (hi : held i = false) : (c.getBlock d i).result = .ok none := by
  unfold Core.getBlock
  simp [h.bits i, hi]

theorem closed_congr (C : Crypto) (bs : Array Bytes) (t t' : Tree) (f f' : File) (h : Closed C bs t f)
    (hn : ∀ i, t'.node? f' i = t.node? f i) (hl : t'.length = t.length) : Closed C bs t' f' := by
  refine ⟨⟨by rw [hl]; exact h.sparse.length, fun i n hi => h.sparse.sound i n (by rw [← hn]; exact hi),
    fun p hp => by rw [hn]; exact h.sparse.roots p hp⟩, fun d o hst hpar => ?_⟩
  rw [hn] at hst
  have := h.closed d o hst hpar
  rw [hn, hn]; exact this

/-- the periodic flush keeps the invariant -/
theorem maybeFlush_repr (C : Crypto) (bs : Array Bytes) (c : Core) (d : Disk) (held : Nat → Bool) (h : RepR C bs c d held) :
    RepR C bs c.maybeFlush.1 (d.applyAll c.maybeFlush.2) held := by
  rw [LiveRefine.maybeFlush_eq]
  split
  · simp only [Core.flushAll]
    obtain ⟨L, hfl, hlook, hal⟩ := flush_lookup c.tree d.tree h.mapwf h.aligned
    have e1 : d.applyAll (c.bitfield.flush.2 ++ c.tree.flush.2 ++ (Oplog.flush c.oplog c.header false).2)
        = ((d.applyAll c.bitfield.flush.2).applyAll c.tree.flush.2).applyAll (Oplog.flush c.oplog c.header false).2 := by
      rw [Journal.applyAll_append, Journal.applyAll_append]
    have htree : (d.applyAll (c.bitfield.flush.2 ++ c.tree.flush.2 ++ (Oplog.flush c.oplog c.header false).2)).tree = writeSlots d.tree L := by
      rw [e1, LiveRefine.tree_of_applyAll _ _ (fun op hop => by rw [Journal.oplogFlush_store _ _ _ op hop]; decide), hfl]
      simp only []
      rw [applyAll_tree_writes]
      simp only []
      rw [LiveRefine.tree_of_applyAll _ _ (fun op hop => by rw [Journal.bitfieldFlush_store _ op hop]; decide)]
    have hdata : (d.applyAll (c.bitfield.flush.2 ++ c.tree.flush.2 ++ (Oplog.flush c.oplog c.header false).2)).data = d.data := by
      rw [e1, LiveRefine.data_of_applyAll _ _ (fun op hop => by rw [Journal.oplogFlush_store _ _ _ op hop]; decide), hfl]
      simp only []
      rw [applyAll_tree_writes]
      simp only []
      rw [LiveRefine.data_of_applyAll _ _ (fun op hop => by rw [Journal.bitfieldFlush_store _ op hop]; decide)]
    have htf : c.tree.flush.1 = { c.tree with unflushed := {} } := by rw [hfl]
    refine ⟨?_, ?_, ?_, ?_, ?_, ?_, h.heldLt, ?_, ?_, ?_, h.small⟩
    · show Closed C bs c.tree.flush.1 _
      rw [htf, htree]
      exact closed_congr C bs c.tree _ d.tree _ h.closed hlook rfl
    · show c.tree.flush.1.roots = _
      rw [htf]; exact h.roots
    · show c.tree.flush.1.byteLength = _
      rw [htf]; exact h.bytes
    · show MapWF c.tree.flush.1.unflushed
      rw [htf]; intro k n hk; simp at hk
    · rw [htree]; exact hal
    · intro i
      show c.bitfield.flush.1.get i = held i
      rw [← h.bits i]; simp [Bitfield.flush, Bitfield.get]
    · intro i hi
      show c.tree.flush.1.node? _ _ = _
      rw [htf, htree, hlook]; exact h.leaf i hi
    · intro i hi k hk
      rw [hdata]; exact h.data i hi k hk
    · have := h.contig
      unfold Core.FirstMissing at this ⊢
      have hb : ∀ i, c.bitfield.flush.1.get i = c.bitfield.get i := fun i => by simp [Bitfield.flush, Bitfield.get]
      exact ⟨fun i hi => by show c.bitfield.flush.1.get i = true; rw [hb]; exact this.1 i hi,
        by show c.bitfield.flush.1.get _ = false; rw [hb]; exact this.2⟩
  · simp only [Disk.applyAll, List.foldl_nil]
    exact ⟨h.closed, h.roots, h.bytes, h.mapwf, h.aligned, h.bits, h.heldLt, h.leaf, h.data, h.contig, h.small⟩

/-- the honest answer to "block `i`, as many nodes as I am missing" -/
def honestBlock (C : Crypto) (bs : Array Bytes) (c : Core) (d : Disk) (i : Nat) : Proof :=
  ⟨c.tree.fork, some ⟨i, bs.getD i [], sibPath C bs 0 i (c.tree.missingNodes d.tree (2 * i))⟩, none, none, none⟩

/-- the state after the entry has been logged and the tree committed, before the periodic flush -/
def afterBlock (C : Crypto) (bs : Array Bytes) (c : Core) (d : Disk) (i : Nat) : Core :=
  let k := c.tree.missingNodes d.tree (2 * i)
  let nodes := nodeAt C bs 0 i :: downPath C bs 0 i k
  let entry : Entry := { treeNodes := nodes, treeUpgrade := none, bitfield := some ⟨false, i, 1⟩ }
  let bf := c.bitfield.setRange i 1 true
  { c with oplog := (Oplog.appendEntry c.oplog entry).1, header := Core.updateContiguous c.header bf ⟨false, i, 1⟩, bitfield := bf, tree := { c.tree with unflushed := insertAll c.tree.unflushed nodes } }

def blockJournal (C : Crypto) (bs : Array Bytes) (c : Core) (d : Disk) (i : Nat) : List SOp :=
  let k := c.tree.missingNodes d.tree (2 * i)
  let nodes := nodeAt C bs 0 i :: downPath C bs 0 i k
  let entry : Entry := { treeNodes := nodes, treeUpgrade := none, bitfield := some ⟨false, i, 1⟩ }
  [.write .data (psum bs i) (bs.getD i [])] ++ (Oplog.appendEntry c.oplog entry).2

/-- what `verify_and_apply_proof` does with the honest block answer -/
theorem apply_block_shape (C : Crypto) (hC : HashWF C) (bs : Array Bytes) (c : Core) (d : Disk) (held : Nat → Bool) (h : RepR C bs c d held)
    (i : Nat) (hi : i < bs.size) :
    c.verifyAndApply C d (honestBlock C bs c d i)
      = { core := (afterBlock C bs c d i).maybeFlush.1, result := .ok true,
          journal := blockJournal C bs c d i ++ (afterBlock C bs c d i).maybeFlush.2,
          events := Core.appliedEvents (honestBlock C bs c d i) (some ⟨false, i, 1⟩) } := by
  obtain ⟨hstored, hin⟩ := missingNodes_spec C bs bs.size c.tree d.tree h.closed.sparse h.small.1 i hi
  have hv := block_changeset_exact C bs c.tree d.tree c.publicKey i (c.tree.missingNodes d.tree (2 * i)) c.tree.fork hstored
  generalize hk : c.tree.missingNodes d.tree (2 * i) = k at hstored hin hv
  generalize hcs : ({ c.tree.changeset with rnodes := upPath C bs 0 i k ++ [nodeAt C bs 0 i] } : Changeset) = cs at hv
  have hup : cs.upgraded = false := by rw [← hcs]; rfl
  have hnodes : cs.nodes = nodeAt C bs 0 i :: downPath C bs 0 i k := by rw [← hcs]; simp [Changeset.nodes, upPath_reverse]
  have hcmt : c.tree.commitable cs = true := by rw [← hcs]; simp [Tree.commitable, Tree.changeset]
  have hoff := byteOffsetInChangeset_honest C bs c.tree d.tree h.closed h.small.1 h.roots i k hi hstored hin
  rw [hcs] at hoff
  have hds : Core.dataStep c d (honestBlock C bs c d i) cs = .ok ([.write .data (psum bs i) (bs.getD i [])], some ⟨false, i, 1⟩) := by
    simp [Core.dataStep, honestBlock, hoff]
  have hcommit : c.tree.commit cs = .ok { c.tree with unflushed := insertAll c.tree.unflushed (nodeAt C bs 0 i :: downPath C bs 0 i k) } := by
    simp only [Tree.commit, hcmt, hup, Bool.not_true, Bool.false_eq_true, ite_false, Bool.false_and, hnodes, insertAll]
  have hp : (honestBlock C bs c d i).fork = c.tree.fork := rfl
  have hvv : verifyProof C c.tree d.tree (honestBlock C bs c d i) c.publicKey = .ok cs := by
    simp only [honestBlock, hk]; exact hv
  have henc : Core.encodable cs = true := encodable_of_ref C hC bs cs (fun n hn => by
    rw [hnodes] at hn
    obtain ⟨dd, o, e, _⟩ := blockNodes_bound C bs i k hin n hn
    exact ⟨dd, o, e⟩)
  unfold Core.verifyAndApply
  simp only [hp, ne_eq, not_true_eq_false, ite_false, hvv, hcmt, Bool.not_true, Bool.false_eq_true, hds, henc, ite_true]
  unfold Core.applyVerified
  simp only [Core.entryOf, hup, Bool.false_eq_true, ite_false, hcommit, Core.finishApply, hnodes]
  simp only [afterBlock, blockJournal, hk]

theorem psum_succ_le (bs : Array Bytes) {i j : Nat} (h : i < j) : psum bs i + sz bs i ≤ psum bs j := by
  have : psum bs (i + 1) = psum bs i + sz bs i := rfl
  rw [← this]; exact psum_mono bs h

/-- the invariant after the entry is logged and the tree committed: the block is held -/
theorem afterBlock_repr (C : Crypto) (hC : HashWF C) (bs : Array Bytes) (c : Core) (d : Disk) (held : Nat → Bool) (h : RepR C bs c d held)
    (i : Nat) (hi : i < bs.size) :
    RepR C bs (afterBlock C bs c d i) (d.applyAll (blockJournal C bs c d i)) (fun j => held j || j == i) := by
  obtain ⟨hstored, hin⟩ := missingNodes_spec C bs bs.size c.tree d.tree h.closed.sparse h.small.1 i hi
  generalize hk : c.tree.missingNodes d.tree (2 * i) = k at hstored hin
  -- the stores after the journal
  have hj : blockJournal C bs c d i = [.write .data (psum bs i) (bs.getD i [])]
      ++ (Oplog.appendEntry c.oplog { treeNodes := nodeAt C bs 0 i :: downPath C bs 0 i k, treeUpgrade := none, bitfield := some ⟨false, i, 1⟩ }).2 := by
    simp only [blockJournal, hk]
  have htree : (d.applyAll (blockJournal C bs c d i)).tree = d.tree := by
    rw [hj]
    apply LiveRefine.tree_of_applyAll
    intro op hop
    rcases List.mem_append.mp hop with h1 | h1
    · simp at h1; subst h1; simp [SOp.store]
    · rw [Journal.appendEntry_store _ _ op h1]; decide
  have hdata : (d.applyAll (blockJournal C bs c d i)).data = d.data.write (psum bs i) (bs.getD i []) := by
    rw [hj, Journal.applyAll_append]
    rw [LiveRefine.data_of_applyAll _ _ (fun op hop => by rw [Journal.appendEntry_store _ _ op hop]; decide)]
    simp [Disk.applyAll, Disk.apply, Disk.set, Disk.get]
  have htr : (afterBlock C bs c d i).tree = { c.tree with unflushed := insertAll c.tree.unflushed (nodeAt C bs 0 i :: downPath C bs 0 i k) } := by
    simp only [afterBlock, hk]
  have hbf : (afterBlock C bs c d i).bitfield = c.bitfield.setRange i 1 true := rfl
  have hhd : (afterBlock C bs c d i).header = Core.updateContiguous c.header (c.bitfield.setRange i 1 true) ⟨false, i, 1⟩ := rfl
  obtain ⟨hcl, hleaf, hold⟩ := block_commit_closed C hC bs c.tree d.tree h.closed i k hstored hin
    { c.tree with unflushed := insertAll c.tree.unflushed (nodeAt C bs 0 i :: downPath C bs 0 i k) } rfl rfl
  refine ⟨?_, ?_, ?_, ?_, ?_, ?_, ?_, ?_, ?_, ?_, h.small⟩
  · rw [htr, htree]; exact hcl
  · rw [htr]; exact h.roots
  · rw [htr]; exact h.bytes
  · rw [htr]
    apply mapWF_insertAll _ _ h.mapwf
    intro n hn
    obtain ⟨dd, o, rfl, hb⟩ := blockNodes_bound C bs i k hin n hn
    refine ⟨nodeAt_hash_len C hC bs dd o, ?_⟩
    have h1 := nodeAt_length_le C bs dd o
    have h2 := psum_mono bs hb
    have := h.small.2
    omega
  · rw [htree]; exact h.aligned
  · intro j
    rw [hbf, Bitfield.get_setRange, h.bits j]
    by_cases hji : j = i
    · subst hji; simp
    · have : ¬ (i ≤ j ∧ j < i + 1) := by omega
      simp [this, hji]
  · intro j hj'
    simp only [Bool.or_eq_true, beq_iff_eq] at hj'
    rcases hj' with hj' | rfl
    · exact h.heldLt j hj'
    · exact hi
  · intro j hj'
    simp only [Bool.or_eq_true, beq_iff_eq] at hj'
    rw [htr, htree]
    rcases hj' with hj' | rfl
    · exact hold _ _ (h.leaf j hj')
    · exact hleaf
  · intro j hj' k' hk'
    simp only [Bool.or_eq_true, beq_iff_eq] at hj'
    rw [hdata, File.size_write, File.byte_write]
    have hlen : (bs.getD i []).length = sz bs i := rfl
    by_cases hji : j = i
    · subst hji
      have hin' : psum bs j ≤ psum bs j + k' ∧ psum bs j + k' < psum bs j + (bs.getD j []).length := by
        rw [hlen]; omega
      simp only [hin', and_self, ite_true]
      refine ⟨by rw [hlen]; have := Nat.le_max_right d.data.size (psum bs j + sz bs j); omega, ?_⟩
      congr 1; omega
    · have hheld : held j = true := by
        rcases hj' with hj' | hj'
        · exact hj'
        · exact absurd hj' hji
      obtain ⟨d1, d2⟩ := h.data j hheld k' hk'
      have hout : ¬ (psum bs i ≤ psum bs j + k' ∧ psum bs j + k' < psum bs i + (bs.getD i []).length) := by
        rw [hlen]
        rcases Nat.lt_or_gt_of_ne hji with hlt | hgt
        · have := psum_succ_le bs hlt; omega
        · have := psum_succ_le bs hgt; omega
      simp only [hout, ite_false]
      exact ⟨by have := Nat.le_max_left d.data.size (psum bs i + (bs.getD i []).length); omega, d2⟩
  · rw [hbf, hhd]
    exact Core.updateContiguous_spec c.header c.bitfield ⟨false, i, 1⟩ h.contig (by simp)

/-- **one honest block exchange at core level**: `verify_and_apply_proof` answers `true`, and afterwards the
    replica holds block `i` as well — the invariant holds again -/
theorem apply_block (C : Crypto) (hC : HashWF C) (bs : Array Bytes) (c : Core) (d : Disk) (held : Nat → Bool) (h : RepR C bs c d held)
    (i : Nat) (hi : i < bs.size) :
    (c.verifyAndApply C d (honestBlock C bs c d i)).result = .ok true
      ∧ RepR C bs (c.verifyAndApply C d (honestBlock C bs c d i)).core
          (d.applyAll (c.verifyAndApply C d (honestBlock C bs c d i)).journal) (fun j => held j || j == i) := by
  rw [apply_block_shape C hC bs c d held h i hi]
  refine ⟨rfl, ?_⟩
  simp only []
  rw [Journal.applyAll_append]
  exact maybeFlush_repr C bs _ _ _ (afterBlock_repr C hC bs c d held h i hi)

/-! ### first contact at core level -/

/-- a replica that knows nothing yet -/
structure FreshR (C : Crypto) (bs : Array Bytes) (c : Core) (d : Disk) : Prop where
  empty : Sparse C bs 0 c.tree d.tree
  roots : c.tree.roots = []
  bytes0 : c.tree.byteLength = 0
  mapwf : MapWF c.tree.unflushed
  aligned : d.tree.size % 40 = 0
  bits : ∀ i, c.bitfield.get i = false
  contig : Core.FirstMissing c.bitfield c.header.contiguous
  small : bs.size < 2 ^ 64 ∧ psum bs bs.size < 2 ^ 64

/-- the writer's answer to "upgrade from 0 to your length" -/
def honestUpgrade (C : Crypto) (bs : Array Bytes) (fork : Nat) (sig : Bytes) : Proof :=
  ⟨fork, none, none, none, some ⟨0, bs.size, RefTree.roots C bs, [], sig⟩⟩

/-- the core right after an upgrade has been logged and committed, before the periodic flush -/
def growCore (c : Core) (cs : Changeset) : Core :=
  { c with oplog := (Oplog.appendEntry c.oplog (Core.entryOf cs none c.header).1).1, header := (Core.entryOf cs none c.header).2, bitfield := c.bitfield, tree := { c.tree with roots := cs.roots, length := cs.length, byteLength := cs.byteLength, fork := cs.fork, signature := cs.signature, unflushed := insertAll c.tree.unflushed cs.nodes } }

theorem first_shape (C : Crypto) (hC : HashWF C) (bs : Array Bytes) (c : Core) (d : Disk) (h : FreshR C bs c d)
    (h0 : 0 < bs.size) (sig : Bytes) (hsl : sig.length = 64)
    (hver : C.verify c.publicKey (RefTree.signableOf C bs c.tree.fork) sig = true) :
    ∃ cs : Changeset, cs.roots = RefTree.roots C bs ∧ cs.length = bs.size ∧ cs.fork = c.tree.fork ∧ cs.signature = some sig
      ∧ cs.nodes = RefTree.roots C bs ∧ cs.upgraded = true ∧ cs.ancestors = c.tree.length ∧ cs.byteLength = psum bs bs.size
      ∧ cs.hash = some (rootsHash C cs.roots)
      ∧ c.verifyAndApply C d (honestUpgrade C bs c.tree.fork sig)
        = { core := (growCore c cs).maybeFlush.1, result := .ok true,
            journal := (Oplog.appendEntry c.oplog (Core.entryOf cs none c.header).1).2 ++ (growCore c cs).maybeFlush.2,
            events := Core.appliedEvents (honestUpgrade C bs c.tree.fork sig) none } := by
  obtain ⟨cs, h1, h2, h3, h4, h5, h6, h7, h8, h9, h10, h11⟩ := UpgradeComplete.fresh_upgrade_accepted C bs h.small.1 h0 c.tree.fork c.publicKey sig
    c.tree.changeset (by simp [Tree.changeset, h.roots]) (by simp [Tree.changeset, h.empty.length]) hsl hver
  have hvv : verifyProof C c.tree d.tree (honestUpgrade C bs c.tree.fork sig) c.publicKey = .ok cs := by
    simp [honestUpgrade, Tree.verifyProof, verifyTree, untrustedOf, noSeekOf, h1]
  have hrn : cs.rnodes = (RefTree.roots C bs).reverse := by simpa [Tree.changeset] using h6
  have hnodes : cs.nodes = RefTree.roots C bs := by simp [Changeset.nodes, hrn]
  have ho1 : cs.origLength = c.tree.length := by simpa [Tree.changeset] using h8
  have ho2 : cs.origFork = c.tree.fork := by simpa [Tree.changeset] using h9
  have ha : cs.ancestors = c.tree.length := by simpa [Tree.changeset] using h10
  have hcmt : c.tree.commitable cs = true := by simp [Tree.commitable, h7, ho1, ho2]
  have hnl : ¬ (cs.ancestors < cs.origLength) := by omega
  generalize htr : ({ c.tree with roots := cs.roots, length := cs.length, byteLength := cs.byteLength, fork := cs.fork, signature := cs.signature, unflushed := insertAll c.tree.unflushed (RefTree.roots C bs) } : Tree) = tr
  have hcommit : c.tree.commit cs = .ok tr := by
    rw [← htr]
    simp only [Tree.commit, hcmt, h7, Bool.not_true, Bool.false_eq_true, ite_false, Bool.true_and, decide_eq_true_eq, hnl, ite_true, insertAll, hnodes]
  have hds : Core.dataStep c d (honestUpgrade C bs c.tree.fork sig) cs = .ok ([], none) := by
    simp [Core.dataStep, honestUpgrade]
  have hp : (honestUpgrade C bs c.tree.fork sig).fork = c.tree.fork := rfl
  have henc : Core.encodable cs = true := encodable_of_ref C hC bs cs (fun n hn => by
    rw [hnodes, RefTree.roots] at hn
    obtain ⟨p, _, rfl⟩ := List.mem_map.mp hn
    exact ⟨p.1, p.2, rfl⟩)
  -- the state before the periodic flush
  generalize hc1 : ({ c with oplog := (Oplog.appendEntry c.oplog (Core.entryOf cs none c.header).1).1, header := (Core.entryOf cs none c.header).2, bitfield := c.bitfield, tree := tr } : Core) = c1
  have hshape : c.verifyAndApply C d (honestUpgrade C bs c.tree.fork sig)
      = { core := c1.maybeFlush.1, result := .ok true,
          journal := (Oplog.appendEntry c.oplog (Core.entryOf cs none c.header).1).2 ++ c1.maybeFlush.2,
          events := Core.appliedEvents (honestUpgrade C bs c.tree.fork sig) none } := by
    unfold Core.verifyAndApply
    simp only [hp, ne_eq, not_true_eq_false, ite_false, hvv, hcmt, Bool.not_true, Bool.false_eq_true, hds, henc, ite_true]
    unfold Core.applyVerified
    simp only [hcommit, Core.finishApply, List.nil_append, ← hc1]
  have hsum : UpgradeBytes.SumOK cs := by
    apply UpgradeBytes.verifyUpgrade_sum C _ _ _ _ _ _ _ h1
    simp [UpgradeBytes.SumOK, Tree.changeset, h.roots, h.bytes0]
  have hbytes : cs.byteLength = psum bs bs.size := by
    rw [hsum, h2, UpgradeBytes.roots_eq, Reopen.refRoots_sum, LiveRefine.psum_total]
  refine ⟨cs, h2, h3, h4, h5, hnodes, h7, ha, hbytes, h11, ?_⟩
  rw [hshape, ← hc1, ← htr, ← hnodes]
  rfl

theorem firstCore_repr (C : Crypto) (hC : HashWF C) (bs : Array Bytes) (c : Core) (d : Disk) (h : FreshR C bs c d)
    (h0 : 0 < bs.size) (sig : Bytes) (hsl : sig.length = 64)
    (hver : C.verify c.publicKey (RefTree.signableOf C bs c.tree.fork) sig = true) :
    ∃ cs : Changeset, cs.roots = RefTree.roots C bs ∧ cs.length = bs.size ∧ cs.fork = c.tree.fork ∧ cs.signature = some sig
      ∧ cs.nodes = RefTree.roots C bs ∧ cs.upgraded = true ∧ cs.ancestors = c.tree.length ∧ cs.byteLength = psum bs bs.size
      ∧ cs.hash = some (rootsHash C cs.roots)
      ∧ c.verifyAndApply C d (honestUpgrade C bs c.tree.fork sig)
        = { core := (growCore c cs).maybeFlush.1, result := .ok true,
            journal := (Oplog.appendEntry c.oplog (Core.entryOf cs none c.header).1).2 ++ (growCore c cs).maybeFlush.2,
            events := Core.appliedEvents (honestUpgrade C bs c.tree.fork sig) none }
      ∧ RepR C bs (growCore c cs) (d.applyAll (Oplog.appendEntry c.oplog (Core.entryOf cs none c.header).1).2) (fun _ => false) := by
  obtain ⟨cs, h1, h2, h3, h4, h5, h6, h7, h8, h9, h10, h11⟩ := UpgradeComplete.fresh_upgrade_accepted C bs h.small.1 h0 c.tree.fork c.publicKey sig
    c.tree.changeset (by simp [Tree.changeset, h.roots]) (by simp [Tree.changeset, h.empty.length]) hsl hver
  have hvv : verifyProof C c.tree d.tree (honestUpgrade C bs c.tree.fork sig) c.publicKey = .ok cs := by
    simp [honestUpgrade, Tree.verifyProof, verifyTree, untrustedOf, noSeekOf, h1]
  have hrn : cs.rnodes = (RefTree.roots C bs).reverse := by simpa [Tree.changeset] using h6
  have hnodes : cs.nodes = RefTree.roots C bs := by simp [Changeset.nodes, hrn]
  have ho1 : cs.origLength = c.tree.length := by simpa [Tree.changeset] using h8
  have ho2 : cs.origFork = c.tree.fork := by simpa [Tree.changeset] using h9
  have ha : cs.ancestors = c.tree.length := by simpa [Tree.changeset] using h10
  have hcmt : c.tree.commitable cs = true := by simp [Tree.commitable, h7, ho1, ho2]
  have hnl : ¬ (cs.ancestors < cs.origLength) := by omega
  generalize htr : ({ c.tree with roots := cs.roots, length := cs.length, byteLength := cs.byteLength, fork := cs.fork, signature := cs.signature, unflushed := insertAll c.tree.unflushed (RefTree.roots C bs) } : Tree) = tr
  have hcommit : c.tree.commit cs = .ok tr := by
    rw [← htr]
    simp only [Tree.commit, hcmt, h7, Bool.not_true, Bool.false_eq_true, ite_false, Bool.true_and, decide_eq_true_eq, hnl, ite_true, insertAll, hnodes]
  have hds : Core.dataStep c d (honestUpgrade C bs c.tree.fork sig) cs = .ok ([], none) := by
    simp [Core.dataStep, honestUpgrade]
  have hp : (honestUpgrade C bs c.tree.fork sig).fork = c.tree.fork := rfl
  have henc : Core.encodable cs = true := encodable_of_ref C hC bs cs (fun n hn => by
    rw [hnodes, RefTree.roots] at hn
    obtain ⟨p, _, rfl⟩ := List.mem_map.mp hn
    exact ⟨p.1, p.2, rfl⟩)
  -- the state before the periodic flush
  generalize hc1 : ({ c with oplog := (Oplog.appendEntry c.oplog (Core.entryOf cs none c.header).1).1, header := (Core.entryOf cs none c.header).2, bitfield := c.bitfield, tree := tr } : Core) = c1
  have hshape : c.verifyAndApply C d (honestUpgrade C bs c.tree.fork sig)
      = { core := c1.maybeFlush.1, result := .ok true,
          journal := (Oplog.appendEntry c.oplog (Core.entryOf cs none c.header).1).2 ++ c1.maybeFlush.2,
          events := Core.appliedEvents (honestUpgrade C bs c.tree.fork sig) none } := by
    unfold Core.verifyAndApply
    simp only [hp, ne_eq, not_true_eq_false, ite_false, hvv, hcmt, Bool.not_true, Bool.false_eq_true, hds, henc, ite_true]
    unfold Core.applyVerified
    simp only [hcommit, Core.finishApply, List.nil_append, ← hc1]
  have hj1 : ∀ op ∈ (Oplog.appendEntry c.oplog (Core.entryOf cs none c.header).1).2, op.store = .oplog := Journal.appendEntry_store _ _
  have htree : (d.applyAll (Oplog.appendEntry c.oplog (Core.entryOf cs none c.header).1).2).tree = d.tree :=
    LiveRefine.tree_of_applyAll _ _ (fun op hop => by rw [hj1 op hop]; decide)
  have hc1t : c1.tree = tr := by rw [← hc1]
  have hc1b : c1.bitfield = c.bitfield := by rw [← hc1]
  have hc1h : c1.header.contiguous = c.header.contiguous := by
    rw [← hc1]; simp only [Core.entryOf, h7, ite_true]
  have hrep1 : RepR C bs c1 (d.applyAll (Oplog.appendEntry c.oplog (Core.entryOf cs none c.header).1).2) (fun _ => false) := by
    have hcl := upgrade_commit_closed C hC bs c.tree d.tree h.empty tr (by rw [← htr]) (by rw [← htr]; exact h3)
    have hsum : UpgradeBytes.SumOK cs := by
      apply UpgradeBytes.verifyUpgrade_sum C _ _ _ _ _ _ _ h1
      simp [UpgradeBytes.SumOK, Tree.changeset, h.roots, h.bytes0]
    have hbytes : cs.byteLength = psum bs bs.size := by
      rw [hsum, h2, UpgradeBytes.roots_eq, Reopen.refRoots_sum, LiveRefine.psum_total]
    refine ⟨(by rw [hc1t, htree]; exact hcl), (by rw [hc1t, ← htr]; exact h2), (by rw [hc1t, ← htr]; exact hbytes), ?_, (by rw [htree]; exact h.aligned),
      (by intro i; rw [hc1b]; exact h.bits i), (fun i hi => by cases hi), (fun i hi => by cases hi), (fun i hi => by cases hi),
      (by rw [hc1b, hc1h]; exact h.contig), h.small⟩
    rw [hc1t, ← htr]
    apply mapWF_insertAll _ _ h.mapwf
    intro n hn
    have hroots : RefTree.roots C bs = (rootsStack bs.size).reverse.map (fun p => nodeAt C bs p.1 p.2) := by simp [RefTree.roots]
    rw [hroots] at hn
    obtain ⟨p, hp', rfl⟩ := List.mem_map.mp hn
    have hb := rootsStack_bound bs.size p (List.mem_reverse.mp hp')
    refine ⟨nodeAt_hash_len C hC bs p.1 p.2, ?_⟩
    have a1 := nodeAt_length_le C bs p.1 p.2
    have a2 := psum_mono bs hb
    have := h.small.2
    omega
  have hsum' : UpgradeBytes.SumOK cs := by
    apply UpgradeBytes.verifyUpgrade_sum C _ _ _ _ _ _ _ h1
    simp [UpgradeBytes.SumOK, Tree.changeset, h.roots, h.bytes0]
  have hbytes' : cs.byteLength = psum bs bs.size := by
    rw [hsum', h2, UpgradeBytes.roots_eq, Reopen.refRoots_sum, LiveRefine.psum_total]
  refine ⟨cs, h2, h3, h4, h5, hnodes, h7, ha, hbytes', h11, ?_, ?_⟩
  · rw [hshape, ← hc1, ← htr, ← hnodes]
    rfl
  · rw [← hc1, ← htr, ← hnodes] at hrep1
    exact hrep1

/-- **first contact at core level**: the replica applies the writer's upgrade answer and then represents the
    writer's log with no block held -/
theorem apply_first_upgrade (C : Crypto) (hC : HashWF C) (bs : Array Bytes) (c : Core) (d : Disk) (h : FreshR C bs c d)
    (h0 : 0 < bs.size) (sig : Bytes) (hsl : sig.length = 64)
    (hver : C.verify c.publicKey (RefTree.signableOf C bs c.tree.fork) sig = true) :
    (c.verifyAndApply C d (honestUpgrade C bs c.tree.fork sig)).result = .ok true
      ∧ RepR C bs (c.verifyAndApply C d (honestUpgrade C bs c.tree.fork sig)).core
          (d.applyAll (c.verifyAndApply C d (honestUpgrade C bs c.tree.fork sig)).journal) (fun _ => false)
      ∧ (c.verifyAndApply C d (honestUpgrade C bs c.tree.fork sig)).core.tree.fork = c.tree.fork
      ∧ (c.verifyAndApply C d (honestUpgrade C bs c.tree.fork sig)).core.publicKey = c.publicKey := by
  obtain ⟨cs, h1, h2, h3, h4, h5, h6, h7, h8, h9, h10, h11⟩ := UpgradeComplete.fresh_upgrade_accepted C bs h.small.1 h0 c.tree.fork c.publicKey sig
    c.tree.changeset (by simp [Tree.changeset, h.roots]) (by simp [Tree.changeset, h.empty.length]) hsl hver
  have hvv : verifyProof C c.tree d.tree (honestUpgrade C bs c.tree.fork sig) c.publicKey = .ok cs := by
    simp [honestUpgrade, Tree.verifyProof, verifyTree, untrustedOf, noSeekOf, h1]
  have hrn : cs.rnodes = (RefTree.roots C bs).reverse := by simpa [Tree.changeset] using h6
  have hnodes : cs.nodes = RefTree.roots C bs := by simp [Changeset.nodes, hrn]
  have ho1 : cs.origLength = c.tree.length := by simpa [Tree.changeset] using h8
  have ho2 : cs.origFork = c.tree.fork := by simpa [Tree.changeset] using h9
  have ha : cs.ancestors = c.tree.length := by simpa [Tree.changeset] using h10
  have hcmt : c.tree.commitable cs = true := by simp [Tree.commitable, h7, ho1, ho2]
  have hnl : ¬ (cs.ancestors < cs.origLength) := by omega
  generalize htr : ({ c.tree with roots := cs.roots, length := cs.length, byteLength := cs.byteLength, fork := cs.fork, signature := cs.signature, unflushed := insertAll c.tree.unflushed (RefTree.roots C bs) } : Tree) = tr
  have hcommit : c.tree.commit cs = .ok tr := by
    rw [← htr]
    simp only [Tree.commit, hcmt, h7, Bool.not_true, Bool.false_eq_true, ite_false, Bool.true_and, decide_eq_true_eq, hnl, ite_true, insertAll, hnodes]
  have hds : Core.dataStep c d (honestUpgrade C bs c.tree.fork sig) cs = .ok ([], none) := by
    simp [Core.dataStep, honestUpgrade]
  have hp : (honestUpgrade C bs c.tree.fork sig).fork = c.tree.fork := rfl
  have henc : Core.encodable cs = true := encodable_of_ref C hC bs cs (fun n hn => by
    rw [hnodes, RefTree.roots] at hn
    obtain ⟨p, _, rfl⟩ := List.mem_map.mp hn
    exact ⟨p.1, p.2, rfl⟩)
  -- the state before the periodic flush
  generalize hc1 : ({ c with oplog := (Oplog.appendEntry c.oplog (Core.entryOf cs none c.header).1).1, header := (Core.entryOf cs none c.header).2, bitfield := c.bitfield, tree := tr } : Core) = c1
  have hshape : c.verifyAndApply C d (honestUpgrade C bs c.tree.fork sig)
      = { core := c1.maybeFlush.1, result := .ok true,
          journal := (Oplog.appendEntry c.oplog (Core.entryOf cs none c.header).1).2 ++ c1.maybeFlush.2,
          events := Core.appliedEvents (honestUpgrade C bs c.tree.fork sig) none } := by
    unfold Core.verifyAndApply
    simp only [hp, ne_eq, not_true_eq_false, ite_false, hvv, hcmt, Bool.not_true, Bool.false_eq_true, hds, henc, ite_true]
    unfold Core.applyVerified
    simp only [hcommit, Core.finishApply, List.nil_append, ← hc1]
  have hj1 : ∀ op ∈ (Oplog.appendEntry c.oplog (Core.entryOf cs none c.header).1).2, op.store = .oplog := Journal.appendEntry_store _ _
  have htree : (d.applyAll (Oplog.appendEntry c.oplog (Core.entryOf cs none c.header).1).2).tree = d.tree :=
    LiveRefine.tree_of_applyAll _ _ (fun op hop => by rw [hj1 op hop]; decide)
  have hc1t : c1.tree = tr := by rw [← hc1]
  have hc1b : c1.bitfield = c.bitfield := by rw [← hc1]
  have hc1h : c1.header.contiguous = c.header.contiguous := by
    rw [← hc1]; simp only [Core.entryOf, h7, ite_true]
  have hrep1 : RepR C bs c1 (d.applyAll (Oplog.appendEntry c.oplog (Core.entryOf cs none c.header).1).2) (fun _ => false) := by
    have hcl := upgrade_commit_closed C hC bs c.tree d.tree h.empty tr (by rw [← htr]) (by rw [← htr]; exact h3)
    have hsum : UpgradeBytes.SumOK cs := by
      apply UpgradeBytes.verifyUpgrade_sum C _ _ _ _ _ _ _ h1
      simp [UpgradeBytes.SumOK, Tree.changeset, h.roots, h.bytes0]
    have hbytes : cs.byteLength = psum bs bs.size := by
      rw [hsum, h2, UpgradeBytes.roots_eq, Reopen.refRoots_sum, LiveRefine.psum_total]
    refine ⟨(by rw [hc1t, htree]; exact hcl), (by rw [hc1t, ← htr]; exact h2), (by rw [hc1t, ← htr]; exact hbytes), ?_, (by rw [htree]; exact h.aligned),
      (by intro i; rw [hc1b]; exact h.bits i), (fun i hi => by cases hi), (fun i hi => by cases hi), (fun i hi => by cases hi),
      (by rw [hc1b, hc1h]; exact h.contig), h.small⟩
    rw [hc1t, ← htr]
    apply mapWF_insertAll _ _ h.mapwf
    intro n hn
    have hroots : RefTree.roots C bs = (rootsStack bs.size).reverse.map (fun p => nodeAt C bs p.1 p.2) := by simp [RefTree.roots]
    rw [hroots] at hn
    obtain ⟨p, hp', rfl⟩ := List.mem_map.mp hn
    have hb := rootsStack_bound bs.size p (List.mem_reverse.mp hp')
    refine ⟨nodeAt_hash_len C hC bs p.1 p.2, ?_⟩
    have a1 := nodeAt_length_le C bs p.1 p.2
    have a2 := psum_mono bs hb
    have := h.small.2
    omega
  rw [hshape]
  refine ⟨rfl, ?_, ?_, ?_⟩
  · simp only []
    rw [Journal.applyAll_append]
    exact maybeFlush_repr C bs _ _ _ hrep1
  · simp only []
    rw [LiveRefine.maybeFlush_eq]
    split
    · simp only [Core.flushAll, Tree.flush]; rw [hc1t, ← htr]; exact h4
    · show c1.tree.fork = _; rw [hc1t, ← htr]; exact h4
  · simp only []
    rw [LiveRefine.maybeFlush_eq]
    split
    · simp only [Core.flushAll]; rw [← hc1]
    · show c1.publicKey = _; rw [← hc1]

/-! ### any order of block requests -/

/-- the replica after fetching the blocks `is`, in that order, each with the writer's honest answer -/
def fetch (C : Crypto) (bs : Array Bytes) : Core × Disk → List Nat → Core × Disk
  | s, [] => s
  | (c, d), i :: is =>
    fetch C bs ((c.verifyAndApply C d (honestBlock C bs c d i)).core, d.applyAll (c.verifyAndApply C d (honestBlock C bs c d i)).journal) is

/-- the answers of `verify_and_apply_proof` along the way -/
def fetchResults (C : Crypto) (bs : Array Bytes) : Core × Disk → List Nat → List (R Bool)
  | _, [] => []
  | (c, d), i :: is =>
    (c.verifyAndApply C d (honestBlock C bs c d i)).result ::
      fetchResults C bs ((c.verifyAndApply C d (honestBlock C bs c d i)).core, d.applyAll (c.verifyAndApply C d (honestBlock C bs c d i)).journal) is

theorem fetch_repr (C : Crypto) (hC : HashWF C) (bs : Array Bytes) : ∀ (is : List Nat) (c : Core) (d : Disk) (held : Nat → Bool),
    RepR C bs c d held → (∀ i ∈ is, i < bs.size) →
      RepR C bs (fetch C bs (c, d) is).1 (fetch C bs (c, d) is).2 (fun j => held j || is.contains j)
      ∧ fetchResults C bs (c, d) is = is.map (fun _ => .ok true) := by
  intro is
  induction is with
  | nil =>
    intro c d held h _
    refine ⟨?_, rfl⟩
    have : (fun j => held j || ([] : List Nat).contains j) = held := by funext j; simp
    rw [this]; exact h
  | cons i is ih =>
    intro c d held h hlt
    obtain ⟨r1, r2⟩ := apply_block C hC bs c d held h i (hlt i (by simp))
    obtain ⟨r3, r4⟩ := ih _ _ _ r2 (fun j hj => hlt j (by simp [hj]))
    refine ⟨?_, by simp only [fetchResults, r1, r4, List.map_cons]⟩
    have : (fun j => held j || (i :: is).contains j) = (fun j => (held j || j == i) || is.contains j) := by
      funext j
      simp only [List.contains_cons, Bool.or_assoc]
    rw [this]
    exact r3

end HC.Replica
