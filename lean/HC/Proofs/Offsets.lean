import HC.Proofs.RefTree
/-!
Byte offsets computed from the tree are prefix sums of the block sizes.

`byte_offset_from_nodes` walks the roots left to right and then descends inside one root, adding the
sizes of the left siblings it passes.  Against the reference tree (`RefTree.node`) that is exactly
`psum bs i`, the number of bytes in the blocks before `i`.
-/
namespace HC.Offsets
open HC HC.Codec HC.Flat HC.Tree HC.RefTree HC.RefProof

/-- size of block `i` (0 beyond the end, like the reference tree's leaves) -/
def sz (bs : Array Bytes) (i : Nat) : Nat := (bs.getD i []).length

/-- bytes in the blocks before `n` -/
def psum (bs : Array Bytes) : Nat → Nat
  | 0 => 0
  | n+1 => psum bs n + sz bs n

theorem psum_mono (bs : Array Bytes) {a b : Nat} (h : a ≤ b) : psum bs a ≤ psum bs b := by
  induction b with
  | zero => have : a = 0 := by omega
            subst this; exact Nat.le_refl _
  | succ n ih =>
    by_cases hab : a = n + 1
    · subst hab; exact Nat.le_refl _
    · have := ih (by omega); simp only [psum]; omega

/-- the reference node at (d, o) spans the leaves `[o 2^d, (o+1) 2^d)`: its size is their total -/
theorem node_size (C : Crypto) (bs : Array Bytes) (d o : Nat) :
    psum bs (o * 2 ^ d) + (RefTree.node C bs d o).1 = psum bs ((o + 1) * 2 ^ d) := by
  induction d generalizing o with
  | zero => simp [RefTree.node, psum, sz]
  | succ d ih =>
    have h1 := ih (2 * o)
    have h2 := ih (2 * o + 1)
    have e1 : o * 2 ^ (d + 1) = 2 * o * 2 ^ d := by rw [pow_succ2]; ring
    have e2 : (o + 1) * 2 ^ (d + 1) = (2 * o + 1 + 1) * 2 ^ d := by rw [pow_succ2]; ring
    simp only [RefTree.node]
    rw [e1, e2]
    omega

/-! ### iterator facts -/

theorem index_succ (d o : Nat) : Flat.index (d + 1) o = 2 * Flat.index d o + 1 := by
  simp only [index_eq, pow_succ2]
  have hp := pow_pos' d
  have : o * (2 * (2 * 2 ^ d)) = 2 * (o * (2 * 2 ^ d)) := by ring
  omega

theorem depthAux_index (fuel d o : Nat) (h : d ≤ fuel) : depthAux fuel (Flat.index d o) = d := by
  induction d generalizing fuel with
  | zero =>
    have : Flat.index 0 o % 2 = 0 := by simp [Flat.index] <;> omega
    cases fuel with
    | zero => rfl
    | succ f => simp [depthAux, this]
  | succ d ih =>
    obtain ⟨f, rfl⟩ : ∃ f, fuel = f + 1 := ⟨fuel - 1, by omega⟩
    have e := index_succ d o
    have h1 : Flat.index (d + 1) o % 2 = 1 := by omega
    have h2 : Flat.index (d + 1) o / 2 = Flat.index d o := by omega
    simp [depthAux, h1, h2, ih f (by omega)]

theorem new_index (d o : Nat) (hd : d ≤ 64) : Iter.new (Flat.index d o) = iat d o := by
  cases d with
  | zero =>
    have : Flat.index 0 o = 2 * o := by simp [Flat.index]; omega
    rw [this]; exact new_even o
  | succ d =>
    have e := index_succ d o
    have h1 : Flat.index (d + 1) o % 2 = 1 := by omega
    have hdep : depth (Flat.index (d + 1) o) = d + 1 := depthAux_index 64 (d + 1) o hd
    have hne : ¬ (Flat.index (d + 1) o % 2 = 0) := by omega
    have hoff : Flat.offset (Flat.index (d + 1) o) = o := by
      simp only [Flat.offset, hne, ite_false, hdep]
      rw [index_eq]
      have hp := pow_pos' (d + 1)
      rw [pow_succ2 (d + 1)]
      have : o * (2 * 2 ^ (d + 1)) + (2 ^ (d + 1) - 1) = (2 ^ (d + 1) - 1) + (2 * 2 ^ (d + 1)) * o := by ring
      rw [this, Nat.add_mul_div_left _ _ (by omega)]
      have : (2 ^ (d + 1) - 1) / (2 * 2 ^ (d + 1)) = 0 := Nat.div_eq_of_lt (by omega)
      omega
    simp [Iter.new, h1, hdep, hoff, iat]

theorem iat_leftChild (d o : Nat) : (iat (d + 1) o).leftChild = iat d (2 * o) := by
  have hp := pow_pos' d
  have hf : ¬ (2 ^ (d + 1 + 1) = 2) := by rw [pow_succ2 (d + 1), pow_succ2 d]; omega
  simp only [Iter.leftChild, iat, hf, ite_false, Iter.mk.injEq]
  refine ⟨?_, by ring, ?_⟩
  · rw [index_eq, index_eq, pow_succ2 (d + 1), pow_succ2 d]
    have e1 : 2 * (2 * 2 ^ d) / 2 / 2 = 2 ^ d := by omega
    have e2 : o * (2 * (2 * 2 ^ d)) = 4 * (o * 2 ^ d) := by ring
    have e3 : 2 * o * (2 * 2 ^ d) = 4 * (o * 2 ^ d) := by ring
    rw [e1, e2, e3]; omega
  · rw [pow_succ2 (d + 1)]; omega

/-! ### the descent inside one root -/

/-- the lookup `t.node? f` agrees with the reference tree on every full node of an `n`-leaf tree -/
def NodesOK (C : Crypto) (bs : Array Bytes) (t : Tree) (f : File) : Prop :=
  ∀ d o, (o + 1) * 2 ^ d ≤ bs.size → t.node? f (Flat.index d o) = some (nodeAt C bs d o)

theorem offsetDescend_ok (C : Crypto) (bs : Array Bytes) (t : Tree) (f : File) (hN : NodesOK C bs t f) (i : Nat) :
    ∀ (d o acc fuel : Nat), o * 2 ^ d ≤ i → i < (o + 1) * 2 ^ d → (o + 1) * 2 ^ d ≤ bs.size → d < fuel →
      ∃ r, offsetDescend t f (2 * i) fuel (iat d o) acc = .ok r ∧ r + psum bs (o * 2 ^ d) = acc + psum bs i := by
  intro d
  induction d with
  | zero =>
    intro o acc fuel h1 h2 _ hf
    obtain ⟨fuel, rfl⟩ : ∃ k, fuel = k + 1 := ⟨fuel - 1, by omega⟩
    have : o = i := by simp at h1 h2; omega
    subst this
    refine ⟨acc, ?_, by simp⟩
    have : (iat 0 o).index = 2 * o := by simp [iat, Flat.index]; omega
    simp [offsetDescend, this]
  | succ d ih =>
    intro o acc fuel h1 h2 h3 hf
    obtain ⟨fuel, rfl⟩ : ∃ k, fuel = k + 1 := ⟨fuel - 1, by omega⟩
    have hp := pow_pos' d
    have hidx : (iat (d + 1) o).index = 2 * Flat.index d o + 1 := index_succ d o
    have hidx2 : Flat.index d o = o * (2 * 2 ^ d) + (2 ^ d - 1) := index_eq d o
    have e1 : o * 2 ^ (d + 1) = 2 * o * 2 ^ d := by rw [pow_succ2]; ring
    have e2 : (o + 1) * 2 ^ (d + 1) = (2 * o + 1 + 1) * 2 ^ d := by rw [pow_succ2]; ring
    have e3 : (2 * o + 1) * 2 ^ d = 2 * o * 2 ^ d + 2 ^ d := by ring
    have e4 : (2 * o + 1 + 1) * 2 ^ d = 2 * o * 2 ^ d + 2 * 2 ^ d := by ring
    have e5 : o * (2 * 2 ^ d) = 2 * o * 2 ^ d := by ring
    have hne : ¬ ((iat (d + 1) o).index = 2 * i) := by omega
    by_cases hlt : 2 * i < (iat (d + 1) o).index
    · -- target in the left half
      have hin : i < (2 * o + 1) * 2 ^ d := by omega
      obtain ⟨r, hr, hs⟩ := ih (2 * o) acc fuel (by omega) hin (by omega) (by omega)
      refine ⟨r, ?_, by rw [e1]; exact hs⟩
      simp only [offsetDescend, hne, ite_false, hlt, ite_true, iat_leftChild]
      exact hr
    · -- target in the right half: add the size of the left child
      have hin : (2 * o + 1) * 2 ^ d ≤ i := by omega
      have hnode := hN d (2 * o) (by omega)
      have hreq : t.requiredNode f (iat d (2 * o)).index = .ok (nodeAt C bs d (2 * o)) := by
        simp [requiredNode, iat, hnode]
      have hsib : (iat d (2 * o)).sibling = iat d (2 * o + 1) := iat_sibling_even d (2 * o) (by omega)
      obtain ⟨r, hr, hs⟩ := ih (2 * o + 1) (acc + (nodeAt C bs d (2 * o)).length) fuel hin (by omega) (by omega) (by omega)
      have hsz := node_size C bs d (2 * o)
      refine ⟨r, ?_, ?_⟩
      · simp only [offsetDescend, hne, ite_false, hlt, iat_leftChild, hreq, hsib]
        exact hr
      · simp only [nodeAt] at hs
        rw [e1]; omega

/-! ### the walk over the roots -/

/-- consecutive root positions covering the leaves `[a, b)`, left to right -/
inductive Cover : List (Nat × Nat) → Nat → Nat → Prop
  | nil (a : Nat) : Cover [] a a
  | cons (d o a b : Nat) (rest : List (Nat × Nat)) : a = o * 2 ^ d → Cover rest ((o + 1) * 2 ^ d) b → Cover ((d, o) :: rest) a b

theorem Cover.le {l : List (Nat × Nat)} {a b : Nat} (h : Cover l a b) : a ≤ b := by
  induction h with
  | nil a => exact Nat.le_refl _
  | cons d o a b rest ha _ ih =>
    have : o * 2 ^ d ≤ (o + 1) * 2 ^ d := Nat.mul_le_mul_right _ (by omega)
    omega

theorem Cover.append {l l' : List (Nat × Nat)} {a b c : Nat} (h : Cover l a b) (h' : Cover l' b c) : Cover (l ++ l') a c := by
  induction h with
  | nil a => simpa using h'
  | cons d o a b rest ha _ ih => exact Cover.cons d o a c (rest ++ l') ha (ih h')

theorem Cover.lift {l : List (Nat × Nat)} {a b : Nat} (h : Cover l a b) : Cover (l.map RefProof.lift) (2 * a) (2 * b) := by
  induction h with
  | nil a => exact Cover.nil _
  | cons d o a b rest ha _ ih =>
    simp only [List.map_cons, RefProof.lift]
    refine Cover.cons (d + 1) o (2 * a) (2 * b) _ (by rw [ha, pow_succ2]; ring) ?_
    have : (o + 1) * 2 ^ (d + 1) = 2 * ((o + 1) * 2 ^ d) := by rw [pow_succ2]; ring
    rw [this]; exact ih

/-- the roots of an `n`-leaf tree, left to right, cover `[0, n)` -/
theorem cover_roots (n : Nat) : Cover (rootsStack n).reverse 0 n := by
  induction n using Nat.strongRecOn with
  | _ n ih =>
    by_cases h0 : n = 0
    · subst h0; rw [rootsStack_zero]; exact Cover.nil 0
    by_cases hev : n % 2 = 0
    · rw [rootsStack_even n h0 hev, ← List.map_reverse]
      have := (ih (n / 2) (by omega)).lift
      have e : 2 * (n / 2) = n := by omega
      simpa [e] using this
    · rw [rootsStack_odd n (by omega), List.reverse_cons, ← List.map_reverse]
      have h1 := (ih (n / 2) (by omega)).lift
      have e : 2 * (n / 2) = n - 1 := by omega
      rw [e] at h1
      simp only [Nat.mul_zero] at h1
      refine h1.append (Cover.cons 0 (n - 1) (n - 1) n [] (by simp) ?_)
      have : (n - 1 + 1) * 2 ^ 0 = n := by simp; omega
      rw [this]; exact Cover.nil n

theorem Cover.bound {l : List (Nat × Nat)} {a b : Nat} (h : Cover l a b) : ∀ p ∈ l, (p.2 + 1) * 2 ^ p.1 ≤ b := by
  induction h with
  | nil a => intro p hp; cases hp
  | cons d o a b rest ha hrest ih =>
    intro p hp
    rcases List.mem_cons.mp hp with rfl | hp
    · exact hrest.le
    · exact ih p hp

theorem go_ok (C : Crypto) (bs : Array Bytes) (t : Tree) (f : File) (hN : NodesOK C bs t f) (i : Nat)
    (hsize : bs.size < 2 ^ 64) :
    ∀ (l : List (Nat × Nat)) (a b acc : Nat), Cover l a b → a ≤ i → i < b → b ≤ bs.size →
      ∃ r, byteOffsetFromNodes.go t f (2 * i) (l.map fun p => nodeAt C bs p.1 p.2) (2 * a) acc = .ok r
        ∧ r + psum bs a = acc + psum bs i := by
  intro l
  induction l with
  | nil =>
    intro a b acc h h1 h2 _
    cases h; omega
  | cons p rest ih =>
    intro a b acc h h1 h2 h3
    cases h with
    | cons d o _ _ _ ha hrest =>
      have hp := pow_pos' d
      have hb := hrest.le
      have hidx : (nodeAt C bs d o).index = o * (2 * 2 ^ d) + (2 ^ d - 1) := index_eq d o
      have e5 : o * (2 * 2 ^ d) = 2 * (o * 2 ^ d) := by ring
      have e6 : (o + 1) * 2 ^ d = o * 2 ^ d + 2 ^ d := by ring
      have hhead : 2 * a + 2 * ((nodeAt C bs d o).index - 2 * a + 1) = 2 * ((o + 1) * 2 ^ d) := by
        rw [hidx, ha, e5, e6]; omega
      simp only [List.map_cons, byteOffsetFromNodes.go, hhead]
      by_cases hge : 2 * i ≥ 2 * ((o + 1) * 2 ^ d)
      · obtain ⟨r, hr, hs⟩ := ih ((o + 1) * 2 ^ d) b (acc + (nodeAt C bs d o).length) hrest (by omega) h2 h3
        refine ⟨r, ?_, ?_⟩
        · simp only [hge, ite_true]; exact hr
        · have := node_size C bs d o
          simp only [nodeAt] at hs
          rw [ha]; omega
      · have hd : d < 64 := by
          have h4 : 2 ^ d ≤ (o + 1) * 2 ^ d := Nat.le_mul_of_pos_left _ (by omega)
          have h5 : 2 ^ d < 2 ^ 64 := by omega
          exact (Nat.pow_lt_pow_iff_right (by decide)).mp h5
        obtain ⟨r, hr, hs⟩ := offsetDescend_ok C bs t f hN i d o acc 70 (by omega) (by omega) (by omega) (by omega)
        refine ⟨r, ?_, by rw [ha]; exact hs⟩
        simp only [hge, ite_false]
        have : Iter.new (nodeAt C bs d o).index = iat d o := new_index d o (by omega)
        rw [this]; exact hr

end HC.Offsets
