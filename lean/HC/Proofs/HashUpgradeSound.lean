import HC.Proofs.SeekSound
import HC.Proofs.UpgradeSound
/-!
**hash section + upgrade in one proof** (C04).  `verify_tree` hashes the hash section up to its root; the root then
waits in `verify_upgrade`'s queue as the extra node.  Either the upgrade consumes it — then it is one of the nodes that
hash up to the signed roots (`upgrade_extra_auth`, factored out of `UpgradeSound.block_upgrade_sound`) — or it is
compared with a stored node.  In both cases its hash is the writer's, and `climb_sound` carries that down the section.
-/
namespace HC.HashUpgradeSound
open HC HC.Codec HC.Flat HC.Tree HC.RefTree HC.RefProof HC.Sound HC.TreeStore HC.UpgradeSound HC.SeekSound HC.CreateTotal

/-- an extra node that `verify_upgrade` reports as consumed carries the hash the signed tree has at its position -/
theorem upgrade_extra_auth (C : Crypto) (bs : Array Bytes) (wfork : Nat) (Signed : Bytes → Prop)
    (fork : Nat) (u : DataUpgrade) (root : Node) (pk : Bytes) (cs1 cs2 : Changeset)
    (hcanon : ∀ l, cs1.roots.getLast? = some l → ∃ d o, l.index = Flat.index d o ∧ d ≤ 64)
    (hunf : ∀ m sig, C.verify pk m sig = true → Signed m)
    (hsig : ∀ m, Signed m → ∃ n, n ≤ bs.size ∧ m = RefTree.signableOf C (bs.extract 0 n) wfork)
    (hlen : ∀ x, (C.tree x).length = 32) (hsize : bs.size < 2 ^ 64) (hwf : wfork < 2 ^ 64)
    (hb1 : cs2.length < 2 ^ 64) (hb2 : fork < 2 ^ 64) (hT : u.start + u.length < 2 ^ 64)
    (hvu : verifyUpgrade C fork u (some root) pk cs1 = .ok (true, cs2)) :
    Collision C ∨ TreeCollision C ∨ ∀ d o, root.index = Flat.index d o → root.hash = (RefTree.node C (bs.extract 0 cs2.length) d o).2 := by
  have hvu0 := hvu
  have hup := upgrade_sound C bs wfork Signed fork u (some root) pk cs1 cs2 true hunf hsig hlen hsize hwf
  rcases hup hb1 hb2 hvu0 with hcol | ⟨hL, _, hroots⟩
  · exact Or.inr (Or.inl hcol)
  · have hA2 := roots_auth C (bs.extract 0 cs2.length) cs2.roots hroots
    unfold verifyUpgrade at hvu
    simp only [andThen] at hvu
    cases hur : upgradeRoots C (2 * (u.start + u.length)) (2 * (u.start + u.length) + 2)
        ⟨cs1, Iter.new 0, NodeQueue.new u.nodes (some root), 0, !cs1.roots.isEmpty⟩ with
    | error e => rw [hur] at hvu; simp at hvu
    | ok st =>
      rw [hur] at hvu
      simp only [] at hvu
      cases hlast : st.cs.roots.getLast? with
      | none => rw [hlast] at hvu; simp at hvu
      | some last =>
        rw [hlast] at hvu
        simp only [] at hvu
        have hgrown0 : Grown cs1 ⟨cs1, Iter.new 0, NodeQueue.new u.nodes (some root), 0, !cs1.roots.isEmpty⟩ 0 (u.start + u.length) :=
          ⟨by show Iter.new 0 = iat 0 0; exact new_even 0, align_zero _, fun _ => rfl, fun hc r hr => by
            exfalso
            have hr' : cs1.roots.getLast? = some r := hr
            have hne : cs1.roots ≠ [] := by intro e; rw [e] at hr'; cases hr'
            rcases hc with hc | hc
            · have hc' : (!cs1.roots.isEmpty) = false := hc
              apply hne; simpa using hc'
            · have hc' : cs1.roots.length ≤ 0 := hc
              apply hne; exact List.eq_nil_of_length_eq_zero (by omega)⟩
        obtain ⟨hlastpos, hbackU⟩ := upgradeRoots_back C (bs.extract 0 cs2.length) (u.start + u.length) hT cs1
          (fun l hl => hcanon l hl) _ _ st 0 hgrown0 hur
        obtain ⟨m, o, hli, hm64⟩ := hlastpos last hlast
        have hnewlast : Iter.new last.index = iat m o := by rw [hli]; exact Offsets.new_index m o hm64
        rw [hnewlast] at hvu
        obtain ⟨⟨d', o', hcan⟩, hbackS⟩ := extraSiblings_back C (bs.extract 0 cs2.length) (u.additionalNodes.length + 1) st.cs m o u.additionalNodes
        generalize hes : extraSiblings C (u.additionalNodes.length + 1) st.cs (iat m o) u.additionalNodes = es at hvu hcan hbackS
        obtain ⟨csS, itS, exS⟩ := es
        simp only at hvu hcan hbackS
        cases her : extraRest C csS itS exS with
        | error e => rw [her] at hvu; simp at hvu
        | ok x =>
          rw [her] at hvu
          simp only [checkSignature] at hvu
          split at hvu
          · cases hvu
          · split at hvu
            · cases hvu
            · simp only [Except.ok.injEq, Prod.mk.injEq] at hvu
              obtain ⟨hcons, hcs2⟩ := hvu
              have hAx : ∀ y ∈ x.1.roots, AuthH C (bs.extract 0 cs2.length) y := by
                intro y hy; apply hA2; rw [← hcs2]; exact hy
              rw [hcan] at her
              rcases extraRest_back C (bs.extract 0 cs2.length) exS csS d' o' x her hAx with hcol | hAS
              · exact Or.inl hcol
              · rcases hbackS hAS with hcol | hAst
                · exact Or.inl hcol
                · rcases hbackU hAst with hcol | ⟨_, hE⟩
                  · exact Or.inl hcol
                  exact Or.inr (Or.inr (fun d o hidx => hE root rfl (by simpa using hcons) d o hidx))

/-- **hash section + upgrade**: the requested node carries the writer's hash (in the writer's log, or in its signed prefix
    of the adopted length when the upgrade consumed the section's root); if its size is the writer's, every other node of
    the section is the writer's node -/
theorem hash_upgrade_sound (C : Crypto) (bs : Array Bytes) (wfork : Nat) (Signed : Bytes → Prop)
    (t : Tree) (f : File) (pk : Bytes) (p : Proof) (hsec : DataHash) (u : DataUpgrade) (cs' : Changeset)
    (hb : p.block = none) (hh : p.hash = some hsec) (hs : p.seek = none) (hu : p.upgrade = some u) (hcan : Canon hsec.index)
    (hcanon : ∀ l, t.changeset.roots.getLast? = some l → ∃ d o, l.index = Flat.index d o ∧ d ≤ 64)
    (hunf : ∀ m sig, C.verify pk m sig = true → Signed m)
    (hsig : ∀ m, Signed m → ∃ n, n ≤ bs.size ∧ m = RefTree.signableOf C (bs.extract 0 n) wfork)
    (hlen : ∀ x, (C.tree x).length = 32) (hsize : bs.size < 2 ^ 64) (hwf : wfork < 2 ^ 64)
    (hb1 : cs'.length < 2 ^ 64) (hb2 : p.fork < 2 ^ 64) (hT : u.start + u.length < 2 ^ 64)
    (hauth : StoreAuthentic C bs t f)
    (hv : t.verifyProof C f p pk = .ok cs') :
    Collision C ∨ TreeCollision C ∨ ∃ n0 rest d o, hsec.nodes = n0 :: rest ∧ hsec.index = Flat.index d o ∧ n0.index = hsec.index
      ∧ ((n0.hash = (RefTree.node C bs d o).2
          ∧ (n0.length = (RefTree.node C bs d o).1 → ∀ n ∈ rest, ∃ dn on, n = nodeAt C bs dn on))
        ∨ (n0.hash = (RefTree.node C (bs.extract 0 cs'.length) d o).2
          ∧ (n0.length = (RefTree.node C (bs.extract 0 cs'.length) d o).1 → ∀ n ∈ rest, ∃ dn on, n = nodeAt C (bs.extract 0 cs'.length) dn on))) := by
  obtain ⟨d, o, _, hidx, hnew⟩ := canon_new hsec.index hcan
  unfold verifyProof at hv
  simp only [hb, hh, hs, hu, verifyTree, untrustedOf, noSeekOf, Option.isNone_some, Bool.false_and, Bool.false_eq_true,
    ite_false, seekHalf, andThen, mainHalf, hnew, plainQueue_eq] at hv
  cases hn : hsec.nodes with
  | nil => rw [hn] at hv; simp [NodeQueue.shift, plainQueue] at hv
  | cons n0 rest =>
    rw [hn] at hv
    by_cases hi : n0.index = (iat d o).index
    · rw [shift_plain n0 rest _ hi] at hv
      simp only [] at hv
      cases hc : climb C ((plainQueue rest).length + 1) (plainQueue rest) (iat d o) n0 (n0 :: t.changeset.rnodes) with
      | error e => rw [hc] at hv; simp at hv
      | ok pr =>
        obtain ⟨root, rn'⟩ := pr
        rw [hc] at hv
        simp only [] at hv
        have hi' : n0.index = Flat.index d o := hi
        generalize hcs1 : ({ t.changeset with rnodes := rn' } : Changeset) = cs1 at hv
        have hcs1r : cs1.roots = t.changeset.roots := by rw [← hcs1]
        cases hvu : verifyUpgrade C p.fork u (some root) pk cs1 with
        | error e => rw [hvu] at hv; simp at hv
        | ok pr2 =>
          obtain ⟨consumed, cs2⟩ := pr2
          rw [hvu] at hv
          simp only [] at hv
          cases hcon : consumed with
          | false =>
            rw [hcon] at hv
            simp only [Bool.false_eq_true, ite_false] at hv
            cases hreq : t.requiredNode f root.index with
            | error e => rw [hreq] at hv; simp at hv
            | ok v =>
              rw [hreq] at hv
              simp only [] at hv
              by_cases hne : v.hash ≠ root.hash
              · simp [hne] at hv
              · have heq : v.hash = root.hash := by simpa using hne
                obtain ⟨hridx, hsound⟩ := climb_sound C bs rest _ d o n0 _ root rn' hc hi'
                have hnode := requiredNode_node? t f _ v hreq
                rw [hridx] at hnode
                have hrh : root.hash = (RefTree.node C bs (d + rest.length) (o / 2 ^ rest.length)).2 := by
                  rw [← heq]; exact hauth _ _ _ hnode
                rcases hsound hrh with hcol | ⟨h1, h2⟩
                · exact Or.inl hcol
                · exact Or.inr (Or.inr ⟨n0, rest, d, o, rfl, hidx, by rw [hi', hidx], Or.inl ⟨h1, fun hl => (h2 hl).2⟩⟩)
          | true =>
            rw [hcon] at hv hvu
            simp only [ite_true, Except.ok.injEq] at hv
            subst hv
            rcases upgrade_extra_auth C bs wfork Signed p.fork u root pk cs1 cs2 (fun l hl => hcanon l (by rw [← hcs1r]; exact hl))
              hunf hsig hlen hsize hwf hb1 hb2 hT hvu with hcol | hcol | hrA
            · exact Or.inl hcol
            · exact Or.inr (Or.inl hcol)
            · obtain ⟨hridx, hsound⟩ := climb_sound C (bs.extract 0 cs2.length) rest _ d o n0 _ root rn' hc hi'
              rcases hsound (hrA _ _ hridx) with hcol | ⟨h1, h2⟩
              · exact Or.inl hcol
              · exact Or.inr (Or.inr ⟨n0, rest, d, o, rfl, hidx, by rw [hi', hidx], Or.inr ⟨h1, fun hl => (h2 hl).2⟩⟩)
    · rw [shift_plain_ne n0 rest _ hi] at hv
      simp at hv

end HC.HashUpgradeSound
