import HC.Proofs.SeekSound
import HC.Proofs.UpgradeSound
/-!
**hash section + upgrade in one proof** (C04).  `verify_tree` hashes the hash section up to its root; the root then
waits in `verify_upgrade`'s queue as the extra node.  Either the upgrade consumes it — then it is one of the nodes that
hash up to the signed roots (`upgrade_extra_auth`, factored out of `UpgradeSound.block_upgrade_sound`) — or it is
compared with a stored node.  In both cases its hash is the writer's, and `climb_sound` carries that down the section.
-/
namespace HC.HashUpgradeSound
open HC HC.Codec HC.Flat HC.Tree HC.RefTree HC.RefProof HC.Sound HC.TreeStore HC.UpgradeSound HC.SeekSound HC.CreateTotal

/-- an extra node that `verify_upgrade` reports as consumed carries the hash the signed tree has at its position -/
theorem upgrade_extra_auth (C : Crypto) (bs : Array Bytes) (wfork : Nat) (Signed : Bytes → Prop)
    (fork : Nat) (u : DataUpgrade) (root : Node) (pk : Bytes) (cs1 cs2 : Changeset)
    (hcanon : ∀ l, cs1.roots.getLast? = some l → ∃ d o, l.index = Flat.index d o ∧ d ≤ 64)
    (hunf : ∀ m sig, C.verify pk m sig = true → Signed m)
    (hsig : ∀ m, Signed m → ∃ n, n ≤ bs.size ∧ m = RefTree.signableOf C (bs.extract 0 n) wfork)
    (hlen : ∀ x, (C.tree x).length = 32) (hsize : bs.size < 2 ^ 64) (hwf : wfork < 2 ^ 64)
    (hb1 : cs2.length < 2 ^ 64) (hb2 : fork < 2 ^ 64) (hT : u.start + u.length < 2 ^ 64)
    (hvu : verifyUpgrade C fork u (some root) pk cs1 = .ok (true, cs2)) :
    Collision C ∨ TreeCollision C ∨ ∀ d o, root.index = Flat.index d o → root.hash = (RefTree.node C (bs.extract 0 cs2.length) d o).2 := by
  have hvu0 := hvu
  have hup := upgrade_sound C bs wfork Signed fork u (some root) pk cs1 cs2 true hunf hsig hlen hsize hwf
  rcases hup hb1 hb2 hvu0 with hcol | ⟨hL, _, hroots⟩
  · exact Or.inr (Or.inl hcol)
  · have hA2 := roots_auth C (bs.extract 0 cs2.length) cs2.roots hroots
    unfold verifyUpgrade at hvu
    simp only [andThen] at hvu
    cases hur : upgradeRoots C (2 * (u.start + u.length)) (2 * (u.start + u.length) + 2)
        ⟨cs1, Iter.new 0, NodeQueue.new u.nodes (some root), 0, !cs1.roots.isEmpty⟩ with
    | error e => rw [hur] at hvu; simp at hvu
    | ok st =>
      rw [hur] at hvu
      simp only [] at hvu
      cases hlast : st.cs.roots.getLast? with
      | none => rw [hlast] at hvu; simp at hvu
      | some last =>
        rw [hlast] at hvu
        simp only [] at hvu
        have hgrown0 : Grown cs1 ⟨cs1, Iter.new 0, NodeQueue.new u.nodes (some root), 0, !cs1.roots.isEmpty⟩ 0 (u.start + u.length) :=
          ⟨by show Iter.new 0 = iat 0 0; exact new_even 0, align_zero _, fun _ => rfl, fun hc r hr => by
            exfalso
            have hr' : cs1.roots.getLast? = some r := hr
            have hne : cs1.roots ≠ [] := by intro e; rw [e] at hr'; cases hr'
            rcases hc with hc | hc
            · have hc' : (!cs1.roots.isEmpty) = false := hc
              apply hne; simpa using hc'
            · have hc' : cs1.roots.length ≤ 0 := hc
              apply hne; exact List.eq_nil_of_length_eq_zero (by omega)⟩
        obtain ⟨hlastpos, hbackU⟩ := upgradeRoots_back C (bs.extract 0 cs2.length) (u.start + u.length) hT cs1
          (fun l hl => hcanon l hl) _ _ st 0 hgrown0 hur
        obtain ⟨m, o, hli, hm64⟩ := hlastpos last hlast
        have hnewlast : Iter.new last.index = iat m o := by rw [hli]; exact Offsets.new_index m o hm64
        rw [hnewlast] at hvu
        obtain ⟨⟨d', o', hcan⟩, hbackS⟩ := extraSiblings_back C (bs.extract 0 cs2.length) (u.additionalNodes.length + 1) st.cs m o u.additionalNodes
        generalize hes : extraSiblings C (u.additionalNodes.length + 1) st.cs (iat m o) u.additionalNodes = es at hvu hcan hbackS
        obtain ⟨csS, itS, exS⟩ := es
        simp only at hvu hcan hbackS
        cases her : extraRest C csS itS exS with
        | error e => rw [her] at hvu; simp at hvu
        | ok x =>
          rw [her] at hvu
          simp only [checkSignature] at hvu
          split at hvu
          · cases hvu
          · split at hvu
            · cases hvu
            · simp only [Except.ok.injEq, Prod.mk.injEq] at hvu
              obtain ⟨hcons, hcs2⟩ := hvu
              have hAx : ∀ y ∈ x.1.roots, AuthH C (bs.extract 0 cs2.length) y := by
                intro y hy; apply hA2; rw [← hcs2]; exact hy
              rw [hcan] at her
              rcases extraRest_back C (bs.extract 0 cs2.length) exS csS d' o' x her hAx with hcol | hAS
              · exact Or.inl hcol
              · rcases hbackS hAS with hcol | hAst
                · exact Or.inl hcol
                · rcases hbackU hAst with hcol | ⟨_, hE⟩
                  · exact Or.inl hcol
                  exact Or.inr (Or.inr (fun d o hidx => hE root rfl (by simpa using hcons) d o hidx))

/-- **hash section + upgrade**: the requested node carries the writer's hash (in the writer's log, or in its signed prefix
    of the adopted length when the upgrade consumed the section's root); if its size is the writer's, every other node of
    the section is the writer's node -/
theorem hash_upgrade_sound (C : Crypto) (bs : Array Bytes) (wfork : Nat) (Signed : Bytes → Prop)
    (t : Tree) (f : File) (pk : Bytes) (p : Proof) (hsec : DataHash) (u : DataUpgrade) (cs' : Changeset)
    (hb : p.block = none) (hh : p.hash = some hsec) (hs : p.seek = none) (hu : p.upgrade = some u) (hcan : Canon hsec.index)
    (hcanon : ∀ l, t.changeset.roots.getLast? = some l → ∃ d o, l.index = Flat.index d o ∧ d ≤ 64)
    (hunf : ∀ m sig, C.verify pk m sig = true → Signed m)
    (hsig : ∀ m, Signed m → ∃ n, n ≤ bs.size ∧ m = RefTree.signableOf C (bs.extract 0 n) wfork)
    (hlen : ∀ x, (C.tree x).length = 32) (hsize : bs.size < 2 ^ 64) (hwf : wfork < 2 ^ 64)
    (hb1 : cs'.length < 2 ^ 64) (hb2 : p.fork < 2 ^ 64) (hT : u.start + u.length < 2 ^ 64)
    (hauth : StoreAuthentic C bs t f)
    (hv : t.verifyProof C f p pk = .ok cs') :
    Collision C ∨ TreeCollision C ∨ ∃ n0 rest d o, hsec.nodes = n0 :: rest ∧ hsec.index = Flat.index d o ∧ n0.index = hsec.index
      ∧ ((n0.hash = (RefTree.node C bs d o).2
          ∧ (n0.length = (RefTree.node C bs d o).1 → ∀ n ∈ rest, ∃ dn on, n = nodeAt C bs dn on))
        ∨ (n0.hash = (RefTree.node C (bs.extract 0 cs'.length) d o).2
          ∧ (n0.length = (RefTree.node C (bs.extract 0 cs'.length) d o).1 → ∀ n ∈ rest, ∃ dn on, n = nodeAt C (bs.extract 0 cs'.length) dn on))) := by
  obtain ⟨d, o, _, hidx, hnew⟩ := canon_new hsec.index hcan
  unfold verifyProof at hv
  simp only [hb, hh, hs, hu, verifyTree, untrustedOf, noSeekOf, Option.isNone_some, Bool.false_and, Bool.false_eq_true,
    ite_false, seekHalf, andThen, mainHalf, hnew, plainQueue_eq] at hv
  cases hn : hsec.nodes with
  | nil => rw [hn] at hv; simp [NodeQueue.shift, plainQueue] at hv
  | cons n0 rest =>
    rw [hn] at hv
    by_cases hi : n0.index = (iat d o).index
    · rw [shift_plain n0 rest _ hi] at hv
      simp only [] at hv
      cases hc : climb C ((plainQueue rest).length + 1) (plainQueue rest) (iat d o) n0 (n0 :: t.changeset.rnodes) with
      | error e => rw [hc] at hv; simp at hv
      | ok pr =>
        obtain ⟨root, rn'⟩ := pr
        rw [hc] at hv
        simp only [] at hv
        have hi' : n0.index = Flat.index d o := hi
        generalize hcs1 : ({ t.changeset with rnodes := rn' } : Changeset) = cs1 at hv
        have hcs1r : cs1.roots = t.changeset.roots := by rw [← hcs1]
        cases hvu : verifyUpgrade C p.fork u (some root) pk cs1 with
        | error e => rw [hvu] at hv; simp at hv
        | ok pr2 =>
          obtain ⟨consumed, cs2⟩ := pr2
          rw [hvu] at hv
          simp only [] at hv
          cases hcon : consumed with
          | false =>
            rw [hcon] at hv
            simp only [Bool.false_eq_true, ite_false] at hv
            cases hreq : t.requiredNode f root.index with
            | error e => rw [hreq] at hv; simp at hv
            | ok v =>
              rw [hreq] at hv
              simp only [] at hv
              by_cases hne : v.hash ≠ root.hash
              · simp [hne] at hv
              · have heq : v.hash = root.hash := by simpa using hne
                obtain ⟨hridx, hsound⟩ := climb_sound C bs rest _ d o n0 _ root rn' hc hi'
                have hnode := requiredNode_node? t f _ v hreq
                rw [hridx] at hnode
                have hrh : root.hash = (RefTree.node C bs (d + rest.length) (o / 2 ^ rest.length)).2 := by
                  rw [← heq]; exact hauth _ _ _ hnode
                rcases hsound hrh with hcol | ⟨h1, h2⟩
                · exact Or.inl hcol
                · exact Or.inr (Or.inr ⟨n0, rest, d, o, rfl, hidx, by rw [hi', hidx], Or.inl ⟨h1, fun hl => (h2 hl).2⟩⟩)
          | true =>
            rw [hcon] at hv hvu
            simp only [ite_true, Except.ok.injEq] at hv
            subst hv
            rcases upgrade_extra_auth C bs wfork Signed p.fork u root pk cs1 cs2 (fun l hl => hcanon l (by rw [← hcs1r]; exact hl))
              hunf hsig hlen hsize hwf hb1 hb2 hT hvu with hcol | hcol | hrA
            · exact Or.inl hcol
            · exact Or.inr (Or.inl hcol)
            · obtain ⟨hridx, hsound⟩ := climb_sound C (bs.extract 0 cs2.length) rest _ d o n0 _ root rn' hc hi'
              rcases hsound (hrA _ _ hridx) with hcol | ⟨h1, h2⟩
              · exact Or.inl hcol
              · exact Or.inr (Or.inr ⟨n0, rest, d, o, rfl, hidx, by rw [hi', hidx], Or.inr ⟨h1, fun hl => (h2 hl).2⟩⟩)
    · rw [shift_plain_ne n0 rest _ hi] at hv
      simp at hv

/-- **seek section + upgrade** (no block, no hash section): the seek root is `verify_upgrade`'s extra node -/
theorem seek_upgrade_sound (C : Crypto) (bs : Array Bytes) (wfork : Nat) (Signed : Bytes → Prop)
    (t : Tree) (f : File) (pk : Bytes) (p : Proof) (s : DataSeek) (n0 : Node) (srest : List Node) (u : DataUpgrade) (cs' : Changeset)
    (hb : p.block = none) (hh : p.hash = none) (hs : p.seek = some s) (hsn : s.nodes = n0 :: srest) (hu : p.upgrade = some u) (hcan : Canon n0.index)
    (hcanon : ∀ l, t.changeset.roots.getLast? = some l → ∃ d o, l.index = Flat.index d o ∧ d ≤ 64)
    (hunf : ∀ m sig, C.verify pk m sig = true → Signed m)
    (hsig : ∀ m, Signed m → ∃ n, n ≤ bs.size ∧ m = RefTree.signableOf C (bs.extract 0 n) wfork)
    (hlen : ∀ x, (C.tree x).length = 32) (hsize : bs.size < 2 ^ 64) (hwf : wfork < 2 ^ 64)
    (hb1 : cs'.length < 2 ^ 64) (hb2 : p.fork < 2 ^ 64) (hT : u.start + u.length < 2 ^ 64)
    (hauth : StoreAuthentic C bs t f)
    (hv : t.verifyProof C f p pk = .ok cs') :
    Collision C ∨ TreeCollision C ∨ ∃ d o, n0.index = Flat.index d o
      ∧ ((n0.hash = (RefTree.node C bs d o).2
          ∧ (n0.length = (RefTree.node C bs d o).1 → ∀ n ∈ srest, ∃ dn on, n = nodeAt C bs dn on))
        ∨ (n0.hash = (RefTree.node C (bs.extract 0 cs'.length) d o).2
          ∧ (n0.length = (RefTree.node C (bs.extract 0 cs'.length) d o).1 → ∀ n ∈ srest, ∃ dn on, n = nodeAt C (bs.extract 0 cs'.length) dn on))) := by
  obtain ⟨d, o, _, hidx, hnew⟩ := canon_new n0.index hcan
  unfold verifyProof at hv
  simp only [hb, hh, hs, hu, verifyTree, untrustedOf, noSeekOf, hsn, List.isEmpty_cons, Option.isNone_none, Bool.true_and,
    Bool.false_eq_true, ite_false, seekHalf, andThen, hnew, plainQueue_eq] at hv
  have hi : n0.index = (iat d o).index := hidx
  rw [shift_plain n0 srest _ hi] at hv
  simp only [] at hv
  cases hc : climb C ((plainQueue srest).length + 1) (plainQueue srest) (iat d o) n0 (n0 :: t.changeset.rnodes) with
  | error e => rw [hc] at hv; simp at hv
  | ok pr =>
    obtain ⟨root, rn'⟩ := pr
    rw [hc] at hv
    simp only [] at hv
    generalize hcs1 : ({ t.changeset with rnodes := rn' } : Changeset) = cs1 at hv
    have hcs1r : cs1.roots = t.changeset.roots := by rw [← hcs1]
    cases hvu : verifyUpgrade C p.fork u (some root) pk cs1 with
    | error e => rw [hvu] at hv; simp at hv
    | ok pr2 =>
      obtain ⟨consumed, cs2⟩ := pr2
      rw [hvu] at hv
      simp only [] at hv
      cases hcon : consumed with
      | false =>
        rw [hcon] at hv
        simp only [Bool.false_eq_true, ite_false] at hv
        cases hreq : t.requiredNode f root.index with
        | error e => rw [hreq] at hv; simp at hv
        | ok v =>
          rw [hreq] at hv
          simp only [] at hv
          by_cases hne : v.hash ≠ root.hash
          · simp [hne] at hv
          · have heq : v.hash = root.hash := by simpa using hne
            obtain ⟨hridx, hsound⟩ := climb_sound C bs srest _ d o n0 _ root rn' hc hidx
            have hnode := requiredNode_node? t f _ v hreq
            rw [hridx] at hnode
            have hrh : root.hash = (RefTree.node C bs (d + srest.length) (o / 2 ^ srest.length)).2 := by
              rw [← heq]; exact hauth _ _ _ hnode
            rcases hsound hrh with hcol | ⟨h1, h2⟩
            · exact Or.inl hcol
            · exact Or.inr (Or.inr ⟨d, o, hidx, Or.inl ⟨h1, fun hl => (h2 hl).2⟩⟩)
      | true =>
        rw [hcon] at hv hvu
        simp only [ite_true, Except.ok.injEq] at hv
        subst hv
        rcases upgrade_extra_auth C bs wfork Signed p.fork u root pk cs1 cs2 (fun l hl => hcanon l (by rw [← hcs1r]; exact hl))
          hunf hsig hlen hsize hwf hb1 hb2 hT hvu with hcol | hcol | hrA
        · exact Or.inl hcol
        · exact Or.inr (Or.inl hcol)
        · obtain ⟨hridx, hsound⟩ := climb_sound C (bs.extract 0 cs2.length) srest _ d o n0 _ root rn' hc hidx
          rcases hsound (hrA _ _ hridx) with hcol | ⟨h1, h2⟩
          · exact Or.inl hcol
          · exact Or.inr (Or.inr ⟨d, o, hidx, Or.inr ⟨h1, fun hl => (h2 hl).2⟩⟩)

/-- what a block + seek proof establishes about a log `B` -/
def SecOK (C : Crypto) (B : Array Bytes) (b : DataBlock) (n0 : Node) (srest : List Node) : Prop :=
  b.value = B.getD b.index [] ∧ (∀ n ∈ b.nodes, ∃ dn on, n = nodeAt C B dn on)
    ∧ ∃ d o, n0.index = Flat.index d o ∧ n0.hash = (RefTree.node C B d o).2
      ∧ (n0.length = (RefTree.node C B d o).1 → ∀ n ∈ srest, ∃ dn on, n = nodeAt C B dn on)

/-- the tail of `SeekSound.block_seek_sound`, for any log in which the root of the block climb is authentic -/
theorem block_seek_tail (C : Crypto) (B : Array Bytes) (b : DataBlock) (n0 : Node) (srest : List Node) (d o : Nat) (hidx : n0.index = Flat.index d o)
    (rn0 rn1 rn2 : List Node) (sroot root : Node) (fs fb : Nat)
    (hcs : climb C fs (plainQueue srest) (iat d o) n0 rn0 = .ok (sroot, rn1))
    (hcb : climb C fb ⟨b.nodes, some sroot, b.nodes.length + 1⟩ (iat 0 b.index) (blockNode C (iat 0 b.index).index b.value)
      (blockNode C (iat 0 b.index).index b.value :: rn1) = .ok (root, rn2))
    (hroot : ∀ dd oo, root.index = Flat.index dd oo → root.hash = (RefTree.node C B dd oo).2) :
    Collision C ∨ SecOK C B b n0 srest := by
  obtain ⟨j, hj, hplain⟩ := climb_extra C sroot b.nodes _ _ _ _ root rn2 hcb
  generalize hL : b.nodes.take j ++ sroot :: b.nodes.drop j = L at hplain
  obtain ⟨hridx, _⟩ := climb_sound C B L _ 0 b.index _ _ root rn2 hplain rfl
  simp only [Nat.zero_add] at hridx
  have hrh : root.hash = (RefTree.node C B L.length (b.index / 2 ^ L.length)).2 := hroot _ _ hridx
  have hix : (iat 0 b.index).index = Flat.index 0 b.index := rfl
  rw [hix] at hplain
  rcases block_sound C B b.index b.value L _ _ root rn2 hplain hrh with hcol | ⟨h1, _, h3⟩
  · exact Or.inl hcol
  · have hsin : sroot ∈ L := by rw [← hL]; simp
    obtain ⟨dn, on, hsr⟩ := h3 sroot hsin
    obtain ⟨hsidx, hssound⟩ := climb_sound C B srest _ d o n0 _ sroot rn1 hcs hidx
    have hpos : Flat.index dn on = Flat.index (d + srest.length) (o / 2 ^ srest.length) := by
      rw [← hsidx, hsr]; rfl
    obtain ⟨e1, e2⟩ := index_inj _ _ _ _ hpos
    have hsh : sroot.hash = (RefTree.node C B (d + srest.length) (o / 2 ^ srest.length)).2 := by
      rw [hsr, e1, e2]; rfl
    have hbn : ∀ n ∈ b.nodes, ∃ dn on, n = nodeAt C B dn on := by
      intro n hn
      apply h3 n
      rw [← hL]
      have := List.take_append_drop j b.nodes
      rw [← this] at hn
      rcases List.mem_append.mp hn with h | h
      · exact List.mem_append.mpr (Or.inl h)
      · exact List.mem_append.mpr (Or.inr (List.mem_cons_of_mem _ h))
    rcases hssound hsh with hcol | ⟨g1, g2⟩
    · exact Or.inl hcol
    · exact Or.inr ⟨h1, hbn, d, o, hidx, g1, fun hl => (g2 hl).2⟩

/-- **block + seek + upgrade in one proof**: the seek root waits in the block climb's queue, the block's root in
    `verify_upgrade`'s; the block, every node of the block section and the seek section are the writer's — of its log,
    or of its signed prefix of the adopted length when the upgrade consumed the block's root -/
theorem block_seek_upgrade_sound (C : Crypto) (bs : Array Bytes) (wfork : Nat) (Signed : Bytes → Prop)
    (t : Tree) (f : File) (pk : Bytes) (p : Proof) (b : DataBlock) (s : DataSeek) (n0 : Node) (srest : List Node) (u : DataUpgrade) (cs' : Changeset)
    (hb : p.block = some b) (hs : p.seek = some s) (hsn : s.nodes = n0 :: srest) (hu : p.upgrade = some u) (hcan : Canon n0.index)
    (hcanon : ∀ l, t.changeset.roots.getLast? = some l → ∃ d o, l.index = Flat.index d o ∧ d ≤ 64)
    (hunf : ∀ m sig, C.verify pk m sig = true → Signed m)
    (hsig : ∀ m, Signed m → ∃ n, n ≤ bs.size ∧ m = RefTree.signableOf C (bs.extract 0 n) wfork)
    (hlen : ∀ x, (C.tree x).length = 32) (hsize : bs.size < 2 ^ 64) (hwf : wfork < 2 ^ 64)
    (hb1 : cs'.length < 2 ^ 64) (hb2 : p.fork < 2 ^ 64) (hT : u.start + u.length < 2 ^ 64)
    (hauth : StoreAuthentic C bs t f)
    (hv : t.verifyProof C f p pk = .ok cs') :
    Collision C ∨ TreeCollision C ∨ SecOK C bs b n0 srest ∨ SecOK C (bs.extract 0 cs'.length) b n0 srest := by
  obtain ⟨d, o, _, hidx, hnew⟩ := canon_new n0.index hcan
  have hnewb : Iter.new (b.index * 2) = iat 0 b.index := by rw [Nat.mul_comm]; exact new_even b.index
  unfold verifyProof at hv
  simp only [hb, hs, hu, verifyTree, untrustedOf, noSeekOf, hsn, List.isEmpty_cons, Option.isNone_some, Bool.false_and,
    Bool.false_eq_true, ite_false, seekHalf, andThen, hnew, plainQueue_eq] at hv
  have hi : n0.index = (iat d o).index := hidx
  rw [shift_plain n0 srest _ hi] at hv
  simp only [] at hv
  cases hcs : climb C ((plainQueue srest).length + 1) (plainQueue srest) (iat d o) n0 (n0 :: t.changeset.rnodes) with
  | error e => rw [hcs] at hv; simp at hv
  | ok pr =>
    obtain ⟨sroot, rn1⟩ := pr
    rw [hcs] at hv
    simp only [mainHalf, hnewb, andThen] at hv
    have hq : NodeQueue.new b.nodes (some sroot) = ⟨b.nodes, some sroot, b.nodes.length + 1⟩ := by simp [NodeQueue.new]
    rw [hq] at hv
    simp only [] at hv
    cases hcb : climb C (b.nodes.length + 1 + 1) ⟨b.nodes, some sroot, b.nodes.length + 1⟩ (iat 0 b.index)
        (blockNode C (iat 0 b.index).index b.value) (blockNode C (iat 0 b.index).index b.value :: rn1) with
    | error e => rw [hcb] at hv; simp at hv
    | ok pr2 =>
      obtain ⟨root, rn2⟩ := pr2
      rw [hcb] at hv
      simp only [] at hv
      generalize hcs1 : ({ t.changeset with rnodes := rn2 } : Changeset) = cs1 at hv
      have hcs1r : cs1.roots = t.changeset.roots := by rw [← hcs1]
      cases hvu : verifyUpgrade C p.fork u (some root) pk cs1 with
      | error e => rw [hvu] at hv; simp at hv
      | ok pr3 =>
        obtain ⟨consumed, cs2⟩ := pr3
        rw [hvu] at hv
        simp only [] at hv
        cases hcon : consumed with
        | false =>
          rw [hcon] at hv
          simp only [Bool.false_eq_true, ite_false] at hv
          cases hreq : t.requiredNode f root.index with
          | error e => rw [hreq] at hv; simp at hv
          | ok v =>
            rw [hreq] at hv
            simp only [] at hv
            by_cases hne : v.hash ≠ root.hash
            · simp [hne] at hv
            · have heq : v.hash = root.hash := by simpa using hne
              have hnode := requiredNode_node? t f _ v hreq
              rcases block_seek_tail C bs b n0 srest d o hidx _ rn1 rn2 sroot root _ _ hcs hcb
                (fun dd oo hio => by rw [← heq]; exact hauth dd oo v (by rw [← hio]; exact hnode)) with hcol | hok
              · exact Or.inl hcol
              · exact Or.inr (Or.inr (Or.inl hok))
        | true =>
          rw [hcon] at hv hvu
          simp only [ite_true, Except.ok.injEq] at hv
          subst hv
          rcases upgrade_extra_auth C bs wfork Signed p.fork u root pk cs1 cs2 (fun l hl => hcanon l (by rw [← hcs1r]; exact hl))
            hunf hsig hlen hsize hwf hb1 hb2 hT hvu with hcol | hcol | hrA
          · exact Or.inl hcol
          · exact Or.inr (Or.inl hcol)
          · rcases block_seek_tail C (bs.extract 0 cs2.length) b n0 srest d o hidx _ rn1 rn2 sroot root _ _ hcs hcb hrA with hcol | hok
            · exact Or.inl hcol
            · exact Or.inr (Or.inr (Or.inr hok))

/-- what a hash + seek proof establishes about a log `B` (the conclusion of `SeekSound.hash_seek_sound`) -/
def HSOK (C : Crypto) (B : Array Bytes) (hsec : DataHash) (m0 : Node) (hrest : List Node) (n0 : Node) (srest : List Node) : Prop :=
  ∃ dh oh d o, hsec.index = Flat.index dh oh ∧ n0.index = Flat.index d o ∧
    ((∃ sroot : Node, sroot.index = hsec.index ∧ sroot.hash = (RefTree.node C B dh oh).2 ∧ n0.hash = (RefTree.node C B d o).2
        ∧ (n0.length = (RefTree.node C B d o).1 → ∀ n ∈ srest, ∃ dn on, n = nodeAt C B dn on))
      ∨ (m0.index = hsec.index ∧ m0.hash = (RefTree.node C B dh oh).2
        ∧ (m0.length = (RefTree.node C B dh oh).1 → (∀ n ∈ hrest, ∃ dn on, n = nodeAt C B dn on)
            ∧ (Collision C ∨ (n0.hash = (RefTree.node C B d o).2
              ∧ (n0.length = (RefTree.node C B d o).1 → ∀ n ∈ srest, ∃ dn on, n = nodeAt C B dn on))))))

/-- tail of `hash_seek_sound` when the seek root is the requested node itself -/
theorem hash_seek_tail1 (C : Crypto) (B : Array Bytes) (hsec : DataHash) (m0 : Node) (hrest : List Node) (n0 : Node) (srest : List Node)
    (dh oh d o : Nat) (hidxh : hsec.index = Flat.index dh oh) (hidx : n0.index = Flat.index d o)
    (rn0 rn1 rn2 : List Node) (sroot root : Node) (fs fb : Nat)
    (hcs : climb C fs (plainQueue srest) (iat d o) n0 rn0 = .ok (sroot, rn1))
    (hx' : sroot.index = Flat.index dh oh)
    (hcb : climb C fb (plainQueue (m0 :: hrest)) (iat dh oh) sroot (sroot :: rn1) = .ok (root, rn2))
    (hroot : ∀ dd oo, root.index = Flat.index dd oo → root.hash = (RefTree.node C B dd oo).2) :
    Collision C ∨ HSOK C B hsec m0 hrest n0 srest := by
  obtain ⟨hsidx, hssound⟩ := climb_sound C B srest _ d o n0 _ sroot rn1 hcs hidx
  obtain ⟨hridx, hsound⟩ := climb_sound C B (m0 :: hrest) _ dh oh sroot _ root rn2 hcb hx'
  rcases hsound (hroot _ _ hridx) with hcol | ⟨h1, _⟩
  · exact Or.inl hcol
  · have hpos : Flat.index dh oh = Flat.index (d + srest.length) (o / 2 ^ srest.length) := by rw [← hsidx, hx']
    obtain ⟨e1, e2⟩ := index_inj _ _ _ _ hpos
    have hsh : sroot.hash = (RefTree.node C B (d + srest.length) (o / 2 ^ srest.length)).2 := by rw [← e1, ← e2]; exact h1
    rcases hssound hsh with hcol | ⟨g1, g2⟩
    · exact Or.inl hcol
    · exact Or.inr ⟨dh, oh, d, o, hidxh, hidx, Or.inl ⟨sroot, by rw [hx', hidxh], h1, g1, fun hl => (g2 hl).2⟩⟩

/-- tail of `hash_seek_sound` when the hash section starts with the requested node -/
theorem hash_seek_tail2 (C : Crypto) (B : Array Bytes) (hsec : DataHash) (m0 : Node) (hrest : List Node) (n0 : Node) (srest : List Node)
    (dh oh d o : Nat) (hidxh : hsec.index = Flat.index dh oh) (hidx : n0.index = Flat.index d o)
    (rn0 rn1 rn2 : List Node) (sroot root : Node) (fs fb : Nat)
    (hcs : climb C fs (plainQueue srest) (iat d o) n0 rn0 = .ok (sroot, rn1))
    (hm' : m0.index = Flat.index dh oh)
    (hcb : climb C fb ⟨hrest, some sroot, hrest.length + 1⟩ (iat dh oh) m0 (m0 :: rn1) = .ok (root, rn2))
    (hroot : ∀ dd oo, root.index = Flat.index dd oo → root.hash = (RefTree.node C B dd oo).2) :
    Collision C ∨ HSOK C B hsec m0 hrest n0 srest := by
  obtain ⟨hsidx, hssound⟩ := climb_sound C B srest _ d o n0 _ sroot rn1 hcs hidx
  obtain ⟨j, hj, hplain⟩ := climb_extra C sroot hrest _ _ _ _ root rn2 hcb
  generalize hL : hrest.take j ++ sroot :: hrest.drop j = L at hplain
  obtain ⟨hridx, hsound⟩ := climb_sound C B L _ dh oh m0 _ root rn2 hplain hm'
  rcases hsound (hroot _ _ hridx) with hcol | ⟨h1, h2⟩
  · exact Or.inl hcol
  · refine Or.inr ⟨dh, oh, d, o, hidxh, hidx, Or.inr ⟨by rw [hm', hidxh], h1, fun hl => ?_⟩⟩
    obtain ⟨_, h3⟩ := h2 hl
    have hsin : sroot ∈ L := by rw [← hL]; simp
    obtain ⟨dn, on, hsr⟩ := h3 sroot hsin
    have hpos : Flat.index dn on = Flat.index (d + srest.length) (o / 2 ^ srest.length) := by rw [← hsidx, hsr]; rfl
    obtain ⟨e1, e2⟩ := index_inj _ _ _ _ hpos
    have hsh : sroot.hash = (RefTree.node C B (d + srest.length) (o / 2 ^ srest.length)).2 := by rw [hsr, e1, e2]; rfl
    refine ⟨fun n hn => ?_, ?_⟩
    · apply h3 n
      rw [← hL]
      have := List.take_append_drop j hrest
      rw [← this] at hn
      rcases List.mem_append.mp hn with h | h
      · exact List.mem_append.mpr (Or.inl h)
      · exact List.mem_append.mpr (Or.inr (List.mem_cons_of_mem _ h))
    · rcases hssound hsh with hcol | ⟨g1, g2⟩
      · exact Or.inl hcol
      · exact Or.inr ⟨g1, fun hl2 => (g2 hl2).2⟩

/-- the comparison with a stored node or the consumption by the upgrade authenticates the root of `verify_tree` -/
theorem verifyProof_root_auth (C : Crypto) (bs : Array Bytes) (wfork : Nat) (Signed : Bytes → Prop)
    (t : Tree) (f : File) (pk : Bytes) (p : Proof) (u : DataUpgrade) (root : Node) (cs1 cs' : Changeset)
    (hvt : verifyTree C p.block p.hash p.seek t.changeset = .ok (some root, cs1)) (hroots : cs1.roots = t.changeset.roots)
    (hu : p.upgrade = some u)
    (hcanon : ∀ l, t.changeset.roots.getLast? = some l → ∃ d o, l.index = Flat.index d o ∧ d ≤ 64)
    (hunf : ∀ m sig, C.verify pk m sig = true → Signed m)
    (hsig : ∀ m, Signed m → ∃ n, n ≤ bs.size ∧ m = RefTree.signableOf C (bs.extract 0 n) wfork)
    (hlen : ∀ x, (C.tree x).length = 32) (hsize : bs.size < 2 ^ 64) (hwf : wfork < 2 ^ 64)
    (hb1 : cs'.length < 2 ^ 64) (hb2 : p.fork < 2 ^ 64) (hT : u.start + u.length < 2 ^ 64)
    (hauth : StoreAuthentic C bs t f)
    (hv : t.verifyProof C f p pk = .ok cs') :
    Collision C ∨ TreeCollision C ∨ (∀ dd oo, root.index = Flat.index dd oo → root.hash = (RefTree.node C bs dd oo).2)
      ∨ (∀ dd oo, root.index = Flat.index dd oo → root.hash = (RefTree.node C (bs.extract 0 cs'.length) dd oo).2) := by
  unfold verifyProof at hv
  rw [hvt] at hv
  simp only [hu] at hv
  cases hvu : verifyUpgrade C p.fork u (some root) pk cs1 with
  | error e => rw [hvu] at hv; simp at hv
  | ok pr3 =>
    obtain ⟨consumed, cs2⟩ := pr3
    rw [hvu] at hv
    simp only [] at hv
    cases hcon : consumed with
    | false =>
      rw [hcon] at hv
      simp only [Bool.false_eq_true, ite_false] at hv
      cases hreq : t.requiredNode f root.index with
      | error e => rw [hreq] at hv; simp at hv
      | ok v =>
        rw [hreq] at hv
        simp only [] at hv
        by_cases hne : v.hash ≠ root.hash
        · simp [hne] at hv
        · have heq : v.hash = root.hash := by simpa using hne
          have hnode := requiredNode_node? t f _ v hreq
          exact Or.inr (Or.inr (Or.inl (fun dd oo hio => by rw [← heq]; exact hauth dd oo v (by rw [← hio]; exact hnode))))
    | true =>
      rw [hcon] at hv hvu
      simp only [ite_true, Except.ok.injEq] at hv
      subst hv
      rcases upgrade_extra_auth C bs wfork Signed p.fork u root pk cs1 cs2 (fun l hl => hcanon l (by rw [← hroots]; exact hl))
        hunf hsig hlen hsize hwf hb1 hb2 hT hvu with hcol | hcol | hrA
      · exact Or.inl hcol
      · exact Or.inr (Or.inl hcol)
      · exact Or.inr (Or.inr (Or.inr hrA))

/-- **hash + seek + upgrade in one proof** -/
theorem hash_seek_upgrade_sound (C : Crypto) (bs : Array Bytes) (wfork : Nat) (Signed : Bytes → Prop)
    (t : Tree) (f : File) (pk : Bytes) (p : Proof) (hsec : DataHash) (s : DataSeek) (m0 : Node) (hrest : List Node) (n0 : Node) (srest : List Node)
    (u : DataUpgrade) (cs' : Changeset)
    (hb : p.block = none) (hh : p.hash = some hsec) (hhn : hsec.nodes = m0 :: hrest) (hs : p.seek = some s) (hsn : s.nodes = n0 :: srest)
    (hu : p.upgrade = some u) (hcan : Canon n0.index) (hcanh : Canon hsec.index)
    (hcanon : ∀ l, t.changeset.roots.getLast? = some l → ∃ d o, l.index = Flat.index d o ∧ d ≤ 64)
    (hunf : ∀ m sig, C.verify pk m sig = true → Signed m)
    (hsig : ∀ m, Signed m → ∃ n, n ≤ bs.size ∧ m = RefTree.signableOf C (bs.extract 0 n) wfork)
    (hlen : ∀ x, (C.tree x).length = 32) (hsize : bs.size < 2 ^ 64) (hwf : wfork < 2 ^ 64)
    (hb1 : cs'.length < 2 ^ 64) (hb2 : p.fork < 2 ^ 64) (hT : u.start + u.length < 2 ^ 64)
    (hauth : StoreAuthentic C bs t f)
    (hv : t.verifyProof C f p pk = .ok cs') :
    Collision C ∨ TreeCollision C ∨ HSOK C bs hsec m0 hrest n0 srest ∨ HSOK C (bs.extract 0 cs'.length) hsec m0 hrest n0 srest := by
  obtain ⟨d, o, _, hidx, hnew⟩ := canon_new n0.index hcan
  obtain ⟨dh, oh, _, hidxh, hnewh⟩ := canon_new hsec.index hcanh
  cases hvt0 : verifyTree C p.block p.hash p.seek t.changeset with
  | error e => unfold verifyProof at hv; rw [hvt0] at hv; cases hv
  | ok prt =>
    have hvt := hvt0
    simp only [hb, hh, hs, verifyTree, untrustedOf, noSeekOf, hsn, List.isEmpty_cons, Option.isNone_some, Bool.false_and,
      Bool.false_eq_true, ite_false, seekHalf, andThen, hnew, plainQueue_eq] at hvt
    have hi : n0.index = (iat d o).index := hidx
    rw [shift_plain n0 srest _ hi] at hvt
    simp only [] at hvt
    cases hcs : climb C ((plainQueue srest).length + 1) (plainQueue srest) (iat d o) n0 (n0 :: t.changeset.rnodes) with
    | error e => rw [hcs] at hvt; simp at hvt
    | ok pr =>
      obtain ⟨sroot, rn1⟩ := pr
      rw [hcs] at hvt
      simp only [mainHalf, hnewh, andThen, hhn] at hvt
      have hq : NodeQueue.new (m0 :: hrest) (some sroot) = ⟨m0 :: hrest, some sroot, (m0 :: hrest).length + 1⟩ := by simp [NodeQueue.new]
      rw [hq] at hvt
      simp only [NodeQueue.shift] at hvt
      by_cases hx : sroot.index = (iat dh oh).index
      · simp only [hx, ite_true] at hvt
        have hq2 : (⟨m0 :: hrest, none, (m0 :: hrest).length + 1 - 1⟩ : NodeQueue) = plainQueue (m0 :: hrest) := by simp [plainQueue]
        rw [hq2] at hvt
        cases hcb : climb C ((m0 :: hrest).length + 1 - 1 + 1) (plainQueue (m0 :: hrest)) (iat dh oh) sroot (sroot :: rn1) with
        | error e => rw [hcb] at hvt; simp at hvt
        | ok pr2 =>
          obtain ⟨root, rn2⟩ := pr2
          rw [hcb] at hvt
          simp only [Except.ok.injEq] at hvt
          subst hvt
          rcases verifyProof_root_auth C bs wfork Signed t f pk p u root _ cs' hvt0 rfl hu hcanon hunf hsig hlen hsize hwf hb1 hb2 hT hauth hv
            with hcol | hcol | hA | hA
          · exact Or.inl hcol
          · exact Or.inr (Or.inl hcol)
          · rcases hash_seek_tail1 C bs hsec m0 hrest n0 srest dh oh d o hidxh hidx _ rn1 rn2 sroot root _ _ hcs hx hcb hA with hcol | hok
            · exact Or.inl hcol
            · exact Or.inr (Or.inr (Or.inl hok))
          · rcases hash_seek_tail1 C (bs.extract 0 cs'.length) hsec m0 hrest n0 srest dh oh d o hidxh hidx _ rn1 rn2 sroot root _ _ hcs hx hcb hA with hcol | hok
            · exact Or.inl hcol
            · exact Or.inr (Or.inr (Or.inr hok))
      · simp only [hx, ite_false] at hvt
        by_cases hm : m0.index = (iat dh oh).index
        · simp only [hm, ne_eq, not_true_eq_false, ite_false] at hvt
          have hq3 : (⟨hrest, some sroot, (m0 :: hrest).length + 1 - 1⟩ : NodeQueue) = ⟨hrest, some sroot, hrest.length + 1⟩ := by simp
          rw [hq3] at hvt
          cases hcb : climb C ((m0 :: hrest).length + 1 - 1 + 1) ⟨hrest, some sroot, hrest.length + 1⟩ (iat dh oh) m0 (m0 :: rn1) with
          | error e => rw [hcb] at hvt; simp at hvt
          | ok pr2 =>
            obtain ⟨root, rn2⟩ := pr2
            rw [hcb] at hvt
            simp only [Except.ok.injEq] at hvt
            subst hvt
            rcases verifyProof_root_auth C bs wfork Signed t f pk p u root _ cs' hvt0 rfl hu hcanon hunf hsig hlen hsize hwf hb1 hb2 hT hauth hv
              with hcol | hcol | hA | hA
            · exact Or.inl hcol
            · exact Or.inr (Or.inl hcol)
            · rcases hash_seek_tail2 C bs hsec m0 hrest n0 srest dh oh d o hidxh hidx _ rn1 rn2 sroot root _ _ hcs hm hcb hA with hcol | hok
              · exact Or.inl hcol
              · exact Or.inr (Or.inr (Or.inl hok))
            · rcases hash_seek_tail2 C (bs.extract 0 cs'.length) hsec m0 hrest n0 srest dh oh d o hidxh hidx _ rn1 rn2 sroot root _ _ hcs hm hcb hA with hcol | hok
              · exact Or.inl hcol
              · exact Or.inr (Or.inr (Or.inr hok))
        · simp [hm] at hvt

/-- **seek-only proofs** (no block, no hash section, no upgrade): the seek root is compared with a stored node -/
theorem seek_only_sound (C : Crypto) (bs : Array Bytes) (t : Tree) (f : File) (pk : Bytes) (p : Proof) (s : DataSeek) (n0 : Node) (srest : List Node)
    (cs' : Changeset) (hb : p.block = none) (hh : p.hash = none) (hs : p.seek = some s) (hsn : s.nodes = n0 :: srest) (hu : p.upgrade = none)
    (hcan : Canon n0.index) (hauth : StoreAuthentic C bs t f) (hv : t.verifyProof C f p pk = .ok cs') :
    Collision C ∨ ∃ d o, n0.index = Flat.index d o ∧ n0.hash = (RefTree.node C bs d o).2
      ∧ (n0.length = (RefTree.node C bs d o).1 → ∀ n ∈ srest, ∃ dn on, n = nodeAt C bs dn on) := by
  obtain ⟨d, o, _, hidx, hnew⟩ := canon_new n0.index hcan
  unfold verifyProof at hv
  simp only [hb, hh, hs, hu, verifyTree, untrustedOf, noSeekOf, hsn, List.isEmpty_cons, Option.isNone_none, Bool.true_and,
    Bool.false_eq_true, ite_false, seekHalf, andThen, hnew, plainQueue_eq] at hv
  have hi : n0.index = (iat d o).index := hidx
  rw [shift_plain n0 srest _ hi] at hv
  simp only [] at hv
  cases hc : climb C ((plainQueue srest).length + 1) (plainQueue srest) (iat d o) n0 (n0 :: t.changeset.rnodes) with
  | error e => rw [hc] at hv; simp at hv
  | ok pr =>
    obtain ⟨root, rn'⟩ := pr
    rw [hc] at hv
    simp only [] at hv
    cases hreq : t.requiredNode f root.index with
    | error e => rw [hreq] at hv; simp at hv
    | ok v =>
      rw [hreq] at hv
      simp only [] at hv
      by_cases hne : v.hash ≠ root.hash
      · simp [hne] at hv
      · have heq : v.hash = root.hash := by simpa using hne
        obtain ⟨hridx, hsound⟩ := climb_sound C bs srest _ d o n0 _ root rn' hc hidx
        have hnode := requiredNode_node? t f _ v hreq
        rw [hridx] at hnode
        have hrh : root.hash = (RefTree.node C bs (d + srest.length) (o / 2 ^ srest.length)).2 := by
          rw [← heq]; exact hauth _ _ _ hnode
        rcases hsound hrh with hcol | ⟨h1, h2⟩
        · exact Or.inl hcol
        · exact Or.inr ⟨d, o, hidx, h1, fun hl => (h2 hl).2⟩

/-- a seek section without nodes is no seek section -/
theorem verifyTree_empty_seek (C : Crypto) (block : Option DataBlock) (hash : Option DataHash) (s : DataSeek) (hs : s.nodes = []) (cs : Changeset) :
    verifyTree C block hash (some s) cs = verifyTree C block hash none cs := by
  obtain ⟨bytes, nodes⟩ := s
  simp only at hs
  subst hs
  rfl

theorem verifyProof_empty_seek (C : Crypto) (t : Tree) (f : File) (p : Proof) (pk : Bytes) (s : DataSeek) (hp : p.seek = some s) (hs : s.nodes = []) :
    t.verifyProof C f p pk = t.verifyProof C f { p with seek := none } pk := by
  unfold verifyProof
  simp only [hp, verifyTree_empty_seek C p.block p.hash s hs]

end HC.HashUpgradeSound
