import HC.Proofs.Sound
import HC.Proofs.VerifyTotal
import HC.Proofs.TreeStore
/-!
First-contact proofs (C04): a replica that knows nothing yet receives a block together with an upgrade
from length 0.  `verify_upgrade` then walks the full roots of the claimed length with its own iterator —
positions that depend on the claimed length only, not on the supplied nodes — and every supplied node,
**and the root the block section climbed to**, becomes one of the roots whose hash the signature covers.
`fullRoot_canon` is the arithmetic: starting from leaf `s` with "the rest is shorter than the alignment of
`s`", `full_root` stops at the canonical iterator of the largest aligned tree that fits, and the next leaf is
again so aligned.  `upgradeRoots_fresh`: the consumed block root is one of the final roots.
-/
namespace HC.UpgradeSound
open HC HC.Codec HC.Flat HC.Tree HC.RefTree HC.RefProof HC.Sound HC.TreeStore

/-! ### canonical iterators -/

theorem sib_sib (o : Nat) : sib (sib o) = o := by
  unfold sib
  split <;> split <;> omega

theorem iat_sibling_sibling (d o : Nat) : (iat d o).sibling.sibling = iat d o := by
  rw [iat_sibling, iat_sibling, sib_sib]

theorem two_pow_succ (j : Nat) : 2 ^ (j + 1) = 2 * 2 ^ j := by rw [Nat.pow_succ]; omega

/-- the flat index of the aligned tree of height `j` that starts at leaf `s` -/
theorem index_aligned (j s : Nat) (h : 2 ^ j ∣ s) : Flat.index j (s / 2 ^ j) = 2 * s + 2 ^ j - 1 := by
  rw [index_eq]
  have hp := pow_pos' j
  have e : s / 2 ^ j * (2 * 2 ^ j) = 2 * (s / 2 ^ j * 2 ^ j) := by ring
  rw [e, Nat.div_mul_cancel h]
  omega

theorem iat_nextTree (j s : Nat) (h : 2 ^ j ∣ s) : (iat j (s / 2 ^ j)).nextTree = iat 0 (s + 2 ^ j) := by
  have hp := pow_pos' j
  have hi := index_aligned j s h
  simp only [Iter.nextTree, iat, hi, two_pow_succ, Iter.mk.injEq]
  have e1 : 2 * 2 ^ j / 2 = 2 ^ j := by omega
  rw [e1]
  have e2 : 2 * s + 2 ^ j - 1 + 2 ^ j + 1 = 2 * (s + 2 ^ j) := by omega
  rw [e2]
  refine ⟨?_, by omega, by simp⟩
  rw [index_eq]; simp; omega

/-- "the rest is shorter than the alignment of `s`" -/
def Align (s T : Nat) : Prop := ∃ m, 2 ^ m ∣ s ∧ T < s + 2 ^ m

theorem align_zero (T : Nat) : Align 0 T := ⟨T, Nat.dvd_zero _, by have := Nat.lt_two_pow_self (n := T); omega⟩

/-- under `Align`, a tree of height `j + 1` that still fits is aligned -/
theorem align_dvd (s T j : Nat) (hal : Align s T) (hfit : s + 2 ^ (j + 1) ≤ T) : 2 ^ (j + 1) ∣ s := by
  obtain ⟨m, hd, hlt⟩ := hal
  have h1 : 2 ^ (j + 1) < 2 ^ m := by omega
  have h2 : j + 1 < m := (Nat.pow_lt_pow_iff_right (by decide)).mp h1
  exact Nat.dvd_trans (Nat.pow_dvd_pow 2 (Nat.le_of_lt h2)) hd

theorem fullRootLoop_canon (s T : Nat) (hal : Align s T) : ∀ (fuel j : Nat), 2 ^ j ∣ s → s + 2 ^ j ≤ T →
    ∃ J, j ≤ J ∧ Iter.fullRootLoop fuel (iat j (s / 2 ^ j)) (2 * T) = iat J (s / 2 ^ J) ∧ 2 ^ J ∣ s ∧ s + 2 ^ J ≤ T
      ∧ (J < j + fuel → T < s + 2 ^ (J + 1)) := by
  intro fuel
  induction fuel with
  | zero => intro j hd hfit; exact ⟨j, Nat.le_refl _, rfl, hd, hfit, fun h => by omega⟩
  | succ fuel ih =>
    intro j hd hfit
    have hp := pow_pos' j
    have hi := index_aligned j s hd
    unfold Iter.fullRootLoop
    have hfac : (iat j (s / 2 ^ j)).factor = 2 * 2 ^ j := by simp [iat, two_pow_succ]
    have hidx : (iat j (s / 2 ^ j)).index = 2 * s + 2 ^ j - 1 := hi
    by_cases hc : 2 * T > (iat j (s / 2 ^ j)).index + (iat j (s / 2 ^ j)).factor + (iat j (s / 2 ^ j)).factor / 2
    · simp only [hc, ite_true]
      have hfit' : s + 2 ^ (j + 1) ≤ T := by rw [hidx, hfac] at hc; rw [two_pow_succ]; omega
      have hd' := align_dvd s T j hal hfit'
      have hnext : (⟨(iat j (s / 2 ^ j)).index + (iat j (s / 2 ^ j)).factor / 2, (iat j (s / 2 ^ j)).offset / 2,
          (iat j (s / 2 ^ j)).factor * 2⟩ : Iter) = iat (j + 1) (s / 2 ^ (j + 1)) := by
        have hi' := index_aligned (j + 1) s hd'
        simp only [iat, Iter.mk.injEq]
        refine ⟨?_, ?_, ?_⟩
        · show Flat.index j (s / 2 ^ j) + 2 ^ (j + 1) / 2 = Flat.index (j + 1) (s / 2 ^ (j + 1))
          rw [hi, hi', two_pow_succ]; omega
        · rw [Nat.div_div_eq_div_mul, two_pow_succ, Nat.mul_comm]
        · rw [two_pow_succ (j + 1), two_pow_succ j]; ring
      rw [hnext]
      obtain ⟨J, h1, h2, h3, h4, h5⟩ := ih (j + 1) hd' hfit'
      exact ⟨J, by omega, h2, h3, h4, fun h => h5 (by omega)⟩
    · simp only [hc, ite_false]
      refine ⟨j, Nat.le_refl _, rfl, hd, hfit, fun _ => ?_⟩
      rw [hidx, hfac] at hc
      rw [two_pow_succ]; omega

/-- `full_root` from an aligned leaf: the canonical iterator of the largest aligned tree that fits, and the
    leaf after it is aligned again -/
theorem fullRoot_canon (s T : Nat) (hal : Align s T) (hs : s < T) (hT : T < 2 ^ 64) :
    ∃ J, (iat 0 s).fullRoot (2 * T) = (true, iat J (s / 2 ^ J)) ∧ 2 ^ J ∣ s ∧ s + 2 ^ J ≤ T ∧ Align (s + 2 ^ J) T
      ∧ T < s + 2 ^ J + 2 ^ J := by
  have h0 : (iat 0 s).index = 2 * s := by simp [iat, index_eq]; omega
  have hcond : ¬ (2 * T ≤ (iat 0 s).index || decide ((iat 0 s).index % 2 = 1)) = true := by
    rw [h0]; simp; omega
  obtain ⟨J, _, h2, h3, h4, h5⟩ := fullRootLoop_canon s T hal 70 0 (by simp) (by simp; omega)
  have hs0 : s / 2 ^ 0 = s := by simp
  rw [hs0] at h2
  have hJ : J < 70 := by
    by_cases hlt : J < 70
    · exact hlt
    · exfalso
      have : 2 ^ 64 ≤ 2 ^ J := Nat.pow_le_pow_right (by decide) (by omega)
      omega
  have hmax : T < s + 2 ^ J + 2 ^ J := by have := h5 (by omega); rw [two_pow_succ] at this; omega
  refine ⟨J, ?_, h3, h4, ?_, hmax⟩
  · unfold Iter.fullRoot
    simp only [hcond, Bool.false_eq_true, ite_false, h2]
  · exact ⟨J, Nat.dvd_add h3 (Nat.dvd_refl _), hmax⟩

theorem fullRoot_done (s T : Nat) (hs : T ≤ s) : (iat 0 s).fullRoot (2 * T) = (false, iat 0 s) := by
  have h0 : (iat 0 s).index = 2 * s := by simp [iat, index_eq]; omega
  unfold Iter.fullRoot
  have : (2 * T ≤ (iat 0 s).index || decide ((iat 0 s).index % 2 = 1)) = true := by rw [h0]; simp; omega
  simp only [this, ite_true]

/-! ### the queue -/

theorem shift_cases (q : NodeQueue) (i : Nat) (n : Node) (q' : NodeQueue) (h : q.shift i = .ok (n, q')) :
    n.index = i ∧ ((q'.extra = q.extra) ∨ (q.extra = some n ∧ q'.extra = none)) := by
  unfold NodeQueue.shift at h
  split at h
  · rename_i e he
    split at h
    · rename_i hi
      cases h
      exact ⟨hi, Or.inr ⟨he, rfl⟩⟩
    · split at h
      · cases h
      · split at h
        · cases h
        · rename_i hn
          cases h
          exact ⟨by simpa using hn, Or.inl rfl⟩
  · split at h
    · cases h
    · split at h
      · cases h
      · rename_i hn
        cases h
        exact ⟨by simpa using hn, Or.inl rfl⟩

/-! ### `append_root` when nothing merges -/

theorem appendRoot_nomerge (C : Crypto) (cs : Changeset) (n : Node) (it : Iter)
    (h : ∀ b, cs.roots.getLast? = some b → it.sibling.index ≠ b.index) :
    (appendRoot C cs n it).1.roots = cs.roots ++ [n]
      ∧ ((appendRoot C cs n it).2 = it ∨ (appendRoot C cs n it).2 = it.sibling.sibling)
      ∧ (appendRoot C cs n it).1.rnodes = n :: cs.rnodes := by
  unfold appendRoot
  cases hr : cs.roots.reverse with
  | nil =>
    have : cs.roots = [] := by simpa using hr
    simp [mergeLoop, this]
  | cons b rest =>
    have hlast : cs.roots.getLast? = some b := by
      have := congrArg List.reverse hr
      simp only [List.reverse_reverse, List.reverse_cons] at this
      rw [this]; simp
    have hne := h b hlast
    have hroots : cs.roots = rest.reverse ++ [b] := by
      have := congrArg List.reverse hr
      simpa using this
    simp only [mergeLoop, hne, ne_eq, not_false_eq_true, ite_true]
    refine ⟨?_, by simp, by simp⟩
    simp [hroots]

/-! ### the root loop of `verify_upgrade` on a replica without roots -/

structure Fresh (st : UpState) (s T : Nat) : Prop where
  it : st.it = iat 0 s
  al : Align s T
  grow : st.grow = false
  last : ∀ r, st.cs.roots.getLast? = some r → ∃ m o, r.index = Flat.index m o ∧ T < s + 2 ^ m ∧ m ≤ 64

theorem upgradeRoots_fresh (C : Crypto) (T : Nat) (hT : T < 2 ^ 64) : ∀ (fuel : Nat) (st st' : UpState) (s : Nat),
    Fresh st s T → upgradeRoots C (2 * T) fuel st = .ok st' →
      (∀ r ∈ st.cs.roots, r ∈ st'.cs.roots) ∧ (∀ e, st.q.extra = some e → st'.q.extra = none → e ∈ st'.cs.roots)
        ∧ (∀ r, st'.cs.roots.getLast? = some r → ∃ m o, r.index = Flat.index m o ∧ m ≤ 64) := by
  intro fuel
  induction fuel with
  | zero => intro st st' s _ h; simp [upgradeRoots] at h
  | succ fuel ih =>
    intro st st' s hf h
    unfold upgradeRoots at h
    rw [hf.it] at h
    by_cases hs : s < T
    · obtain ⟨J, hfr, hd, hfit, hal', hmax⟩ := fullRoot_canon s T hf.al hs hT
      rw [hfr] at h
      simp only [Bool.not_true, Bool.false_eq_true, ite_false, hf.grow, false_and] at h
      have hnext : (iat J (s / 2 ^ J)).nextTree = iat 0 (s + 2 ^ J) := iat_nextTree J s hd
      split at h
      · -- an existing root at this position
        have hf' : Fresh { st with i := st.i + 1, it := (iat J (s / 2 ^ J)).nextTree, grow := false } (s + 2 ^ J) T :=
          ⟨hnext, hal', rfl, fun r hr => by
            obtain ⟨m, o, h1, h2, h3⟩ := hf.last r hr
            exact ⟨m, o, h1, by omega, h3⟩⟩
        exact ih { st with i := st.i + 1, it := (iat J (s / 2 ^ J)).nextTree, grow := false } st' _ hf' h
      · -- the next supplied node becomes a root
        cases hsh : st.q.shift (iat J (s / 2 ^ J)).index with
        | error e => rw [hsh] at h; simp at h
        | ok pr =>
          obtain ⟨n, q1⟩ := pr
          rw [hsh] at h
          simp only [] at h
          obtain ⟨hni, hex⟩ := shift_cases st.q _ n q1 hsh
          have hnm : ∀ b, st.cs.roots.getLast? = some b → (iat J (s / 2 ^ J)).sibling.index ≠ b.index := by
            intro b hb hcon
            obtain ⟨m, o, h1, h2, _⟩ := hf.last b hb
            rw [iat_sibling, h1] at hcon
            have := (index_inj _ _ _ _ hcon).1
            have hlt : 2 ^ J < 2 ^ m := by omega
            have := (Nat.pow_lt_pow_iff_right (by decide : 1 < 2)).mp hlt
            omega
          obtain ⟨hroots, hit, _⟩ := appendRoot_nomerge C st.cs n (iat J (s / 2 ^ J)) hnm
          have hit' : (appendRoot C st.cs n (iat J (s / 2 ^ J))).2 = iat J (s / 2 ^ J) := by
            rcases hit with e | e
            · exact e
            · rw [e, iat_sibling_sibling]
          generalize har : appendRoot C st.cs n (iat J (s / 2 ^ J)) = ar at h hroots hit'
          obtain ⟨cs1, it1⟩ := ar
          simp only at h hroots hit'
          have hf' : Fresh { st with cs := cs1, it := it1.nextTree, q := q1, grow := false } (s + 2 ^ J) T :=
            ⟨by show it1.nextTree = _; rw [hit', hnext], hal', rfl, fun r hr => by
              have hr' : cs1.roots.getLast? = some r := hr
              rw [hroots] at hr'
              simp at hr'
              subst hr'
              have hJ64 : J ≤ 64 := by
                by_cases hle : J ≤ 64
                · exact hle
                · exfalso
                  have : 2 ^ 64 ≤ 2 ^ J := Nat.pow_le_pow_right (by decide) (by omega)
                  omega
              exact ⟨J, s / 2 ^ J, hni, hmax, hJ64⟩⟩
          obtain ⟨i1, i2, i3⟩ := ih { st with cs := cs1, it := it1.nextTree, q := q1, grow := false } st' _ hf' h
          refine ⟨fun r hr => i1 r (by show r ∈ cs1.roots; rw [hroots]; simp [hr]), fun e he hn => ?_, i3⟩
          rcases hex with hx | ⟨hx1, hx2⟩
          · exact i2 e (by show q1.extra = some e; rw [hx, he]) hn
          · have : e = n := by rw [he] at hx1; exact Option.some.inj hx1
            subst this
            exact i1 e (by show e ∈ cs1.roots; rw [hroots]; simp)
    · rw [fullRoot_done s T (by omega)] at h
      simp only [Bool.not_false, ite_true, Except.ok.injEq] at h
      subst h
      refine ⟨fun r hr => hr, (fun e he hn => by simp only at hn; rw [he] at hn; cases hn), fun r hr => ?_⟩
      obtain ⟨m, o, h1, _, h3⟩ := hf.last r hr
      exact ⟨m, o, h1, h3⟩

/-! ### authenticity flows backwards through `append_root` -/

/-- the node carries the authentic hash for its position -/
def AuthH (C : Crypto) (bs : Array Bytes) (n : Node) : Prop :=
  ∀ d o, n.index = Flat.index d o → n.hash = (RefTree.node C bs d o).2

theorem authH_at (C : Crypto) (bs : Array Bytes) (n : Node) (d o : Nat) (hi : n.index = Flat.index d o)
    (hh : n.hash = (RefTree.node C bs d o).2) : AuthH C bs n := by
  intro d' o' h'
  rw [hi] at h'
  obtain ⟨rfl, rfl⟩ := index_inj _ _ _ _ h'
  exact hh

/-- `mergeLoop`, read backwards: if every root it leaves is authentic then — absent a collision — so was every
    root it started from (in particular the node just appended); the iterator it returns is canonical and
    sits on the last root -/
theorem mergeLoop_back (C : Crypto) (bs : Array Bytes) : ∀ (fuel : Nat) (a : Node) (rest nodes : List Node) (d o : Nat),
    a.index = Flat.index d o →
      (∃ d' o', (mergeLoop C fuel (a :: rest) nodes (iat d o)).2.2 = iat d' o'
        ∧ ∃ a' rest', (mergeLoop C fuel (a :: rest) nodes (iat d o)).1 = a' :: rest' ∧ a'.index = Flat.index d' o')
      ∧ ((∀ x ∈ (mergeLoop C fuel (a :: rest) nodes (iat d o)).1, AuthH C bs x) → Collision C ∨ ∀ x ∈ a :: rest, AuthH C bs x) := by
  intro fuel
  induction fuel with
  | zero =>
    intro a rest nodes d o ha
    simp only [mergeLoop]
    exact ⟨⟨d, o, rfl, a, rest, rfl, ha⟩, fun h => Or.inr h⟩
  | succ fuel ih =>
    intro a rest nodes d o ha
    cases rest with
    | nil =>
      simp only [mergeLoop]
      exact ⟨⟨d, o, rfl, a, [], rfl, ha⟩, fun h => Or.inr h⟩
    | cons b rest =>
      simp only [mergeLoop]
      by_cases hne : (iat d o).sibling.index ≠ b.index
      · simp only [hne, ne_eq, not_false_eq_true, ite_true]
        exact ⟨⟨d, o, iat_sibling_sibling d o, a, b :: rest, rfl, ha⟩, fun h => Or.inr h⟩
      · have hb : b.index = Flat.index d (sib o) := by
          have : (iat d o).sibling.index = b.index := by simpa using hne
          rw [iat_sibling] at this; exact this.symm
        simp only [hne, ite_false]
        rw [iat_sibling, iat_parent, sib_half]
        generalize hn : (⟨(iat (d + 1) (o / 2)).index, a.length + b.length, parentHash C a b⟩ : Node) = n
        have hni : n.index = Flat.index (d + 1) (o / 2) := by rw [← hn]; rfl
        obtain ⟨hc, hback⟩ := ih n rest (n :: nodes) (d + 1) (o / 2) hni
        refine ⟨hc, fun hall => ?_⟩
        rcases hback hall with hcol | hprev
        · exact Or.inl hcol
        · have hnA := hprev n (by simp)
          have hnh : parentHash C a b = (RefTree.node C bs (d + 1) (o / 2)).2 := by
            have := hnA (d + 1) (o / 2) hni
            rw [← hn] at this; exact this
          rcases parent_step C bs d o a b ha hb hnh with hcol | ⟨h1, h2, _⟩
          · exact Or.inl hcol
          · refine Or.inr fun x hx => ?_
            rcases List.mem_cons.mp hx with rfl | hx
            · exact authH_at C bs _ d o ha h1
            · rcases List.mem_cons.mp hx with rfl | hx
              · exact authH_at C bs _ d (sib o) hb h2
              · exact hprev x (by simp [hx])

/-- `append_root`, read backwards -/
theorem appendRoot_back (C : Crypto) (bs : Array Bytes) (cs : Changeset) (n : Node) (d o : Nat) (hn : n.index = Flat.index d o) :
    (∃ d' o', (appendRoot C cs n (iat d o)).2 = iat d' o'
        ∧ ∃ last, (appendRoot C cs n (iat d o)).1.roots.getLast? = some last ∧ last.index = Flat.index d' o')
      ∧ ((∀ x ∈ (appendRoot C cs n (iat d o)).1.roots, AuthH C bs x) → Collision C ∨ ((∀ x ∈ cs.roots, AuthH C bs x) ∧ AuthH C bs n)) := by
  obtain ⟨⟨d', o', h1, a', rest', h2, h3⟩, hback⟩ := mergeLoop_back C bs (cs.roots.length + 1) n cs.roots.reverse (n :: cs.rnodes) d o hn
  unfold appendRoot
  generalize hm : mergeLoop C (cs.roots.length + 1) (n :: cs.roots.reverse) (n :: cs.rnodes) (iat d o) = m at h1 h2 hback
  obtain ⟨rr, rn, it'⟩ := m
  simp only at h1 h2 hback ⊢
  refine ⟨⟨d', o', h1, a', ?_, h3⟩, fun hall => ?_⟩
  · rw [h2]; simp
  · rcases hback (fun x hx => hall x (by simpa using hx)) with hcol | hprev
    · exact Or.inl hcol
    · exact Or.inr ⟨fun x hx => hprev x (by simp [hx]), hprev n (by simp)⟩

/-! ### additional nodes, read backwards -/

theorem extraSiblings_back (C : Crypto) (bs : Array Bytes) : ∀ (fuel : Nat) (cs : Changeset) (d o : Nat) (ex : List Node),
    (∃ d' o', (extraSiblings C fuel cs (iat d o) ex).2.1 = iat d' o')
      ∧ ((∀ x ∈ (extraSiblings C fuel cs (iat d o) ex).1.roots, AuthH C bs x) → Collision C ∨ ∀ x ∈ cs.roots, AuthH C bs x) := by
  intro fuel
  induction fuel with
  | zero => intro cs d o ex; simp only [extraSiblings]; exact ⟨⟨d, o, rfl⟩, fun h => Or.inr h⟩
  | succ fuel ih =>
    intro cs d o ex
    cases ex with
    | nil => simp only [extraSiblings]; exact ⟨⟨d, o, rfl⟩, fun h => Or.inr h⟩
    | cons n ex =>
      simp only [extraSiblings]
      rw [iat_sibling]
      by_cases hn : n.index = (iat d (sib o)).index
      · simp only [hn, ite_true]
        obtain ⟨⟨d', o', h1, _⟩, hback⟩ := appendRoot_back C bs cs n d (sib o) hn
        generalize har : appendRoot C cs n (iat d (sib o)) = ar at h1 hback
        obtain ⟨cs1, it1⟩ := ar
        simp only at h1 hback ⊢
        rw [h1]
        obtain ⟨hc, hb2⟩ := ih cs1 d' o' ex
        refine ⟨hc, fun hall => ?_⟩
        rcases hb2 hall with hcol | hprev
        · exact Or.inl hcol
        · rcases hback hprev with hcol | ⟨h2, _⟩
          · exact Or.inl hcol
          · exact Or.inr h2
      · simp only [hn, ite_false]
        exact ⟨⟨d, sib o, rfl⟩, fun h => Or.inr h⟩

theorem descendTo_canon (target : Nat) : ∀ (fuel d o : Nat) (it1 : Iter), descendTo target fuel (iat d o) = .ok it1 →
    ∃ d' o', it1 = iat d' o' ∧ Flat.index d' o' = target := by
  intro fuel
  induction fuel with
  | zero => intro d o it1 h; simp [descendTo] at h
  | succ fuel ih =>
    intro d o it1 h
    unfold descendTo at h
    split at h
    · rename_i hidx
      cases h
      exact ⟨d, o, rfl, hidx⟩
    · split at h
      · cases h
      · rename_i hf2
        cases d with
        | zero => exfalso; apply hf2; simp [iat]
        | succ d =>
          rw [Offsets.iat_leftChild] at h
          exact ih d (2 * o) it1 h

theorem extraRest_back (C : Crypto) (bs : Array Bytes) : ∀ (ex : List Node) (cs : Changeset) (d o : Nat) (res : Changeset × Iter),
    extraRest C cs (iat d o) ex = .ok res →
      (∀ x ∈ res.1.roots, AuthH C bs x) → Collision C ∨ ∀ x ∈ cs.roots, AuthH C bs x := by
  intro ex
  induction ex with
  | nil =>
    intro cs d o res h hall
    simp only [extraRest, Except.ok.injEq] at h
    subst h
    exact Or.inr hall
  | cons n ex ih =>
    intro cs d o res h hall
    simp only [extraRest] at h
    cases hd : descendTo n.index ((iat d o).factor + 1) (iat d o) with
    | error e => rw [hd] at h; simp at h
    | ok it1 =>
      rw [hd] at h
      simp only [] at h
      obtain ⟨d1, o1, rfl, hidx⟩ := descendTo_canon n.index _ d o it1 hd
      obtain ⟨⟨d', o', h1, _⟩, hback⟩ := appendRoot_back C bs cs n d1 o1 hidx.symm
      generalize har : appendRoot C cs n (iat d1 o1) = ar at h h1 hback
      obtain ⟨cs1, it2⟩ := ar
      simp only at h h1 hback
      rw [h1, iat_sibling] at h
      rcases ih cs1 d' (sib o') res h hall with hcol | hprev
      · exact Or.inl hcol
      · rcases hback hprev with hcol | ⟨h2, _⟩
        · exact Or.inl hcol
        · exact Or.inr h2

/-! ### first contact: block + upgrade on a replica without roots -/

theorem lt_succ_div_mul (i k : Nat) (hk : 0 < k) : i < (i / k + 1) * k := by
  have := Nat.div_add_mod i k
  have hm := Nat.mod_lt i hk
  have e : (i / k + 1) * k = k * (i / k) + k := by ring
  omega

theorem extract_getD (bs : Array Bytes) (L i : Nat) (hL : L ≤ bs.size) (hi : i < L) : (bs.extract 0 L).getD i [] = bs.getD i [] := by
  have : i < bs.size := by omega
  simp [Array.getD_eq_getD_getElem?, Array.getElem?_extract, hi, this]

/-- **First-contact proofs.**  A replica without roots receives a block together with an upgrade (no seek
    section, no additional nodes) and `verify_proof` accepts.  Under "the key verifies only what the writer
    signed" and "the writer signs only (reference roots of a prefix of its log, that length, its fork)", the
    block is the writer's block — unless the run exhibits a collision of `leaf`, `parent` or the root-list
    hash.  (`hauth` is only used when the upgrade did not consume the block's root; it then is compared with
    a stored node.) -/
theorem first_contact_sound (C : Crypto) (bs : Array Bytes) (wfork : Nat) (Signed : Bytes → Prop)
    (t : Tree) (f : File) (pk : Bytes) (p : Proof) (b : DataBlock) (u : DataUpgrade) (cs' : Changeset)
    (hb : p.block = some b) (hs : p.seek = none) (hu : p.upgrade = some u) (hadd : u.additionalNodes = [])
    (hfresh : t.changeset.roots = [])
    (hunf : ∀ m sig, C.verify pk m sig = true → Signed m)
    (hsig : ∀ m, Signed m → ∃ n, n ≤ bs.size ∧ m = RefTree.signableOf C (bs.extract 0 n) wfork)
    (hlen : ∀ x, (C.tree x).length = 32) (hsize : bs.size < 2 ^ 64) (hwf : wfork < 2 ^ 64)
    (hb1 : cs'.length < 2 ^ 64) (hb2 : p.fork < 2 ^ 64) (hT : u.start + u.length < 2 ^ 64)
    (hauth : StoreAuthentic C bs t f)
    (hv : t.verifyProof C f p pk = .ok cs') :
    Collision C ∨ TreeCollision C ∨ b.value = bs.getD b.index [] := by
  unfold verifyProof at hv
  simp only [hb, hs, hu, verifyTree, untrustedOf, noSeekOf, Option.isNone_some, Bool.false_and, Bool.false_eq_true,
    ite_false, seekHalf, andThen, mainHalf] at hv
  have hnew : Iter.new (b.index * 2) = iat 0 b.index := by rw [Nat.mul_comm]; exact new_even b.index
  rw [hnew, plainQueue_eq] at hv
  cases hc : climb C ((plainQueue b.nodes).length + 1) (plainQueue b.nodes) (iat 0 b.index)
      (blockNode C (iat 0 b.index).index b.value) (blockNode C (iat 0 b.index).index b.value :: t.changeset.rnodes) with
  | error e => rw [hc] at hv; simp at hv
  | ok pr =>
    obtain ⟨root, rn'⟩ := pr
    rw [hc] at hv
    simp only [] at hv
    obtain ⟨hidx, _⟩ := climb_sound C bs b.nodes _ 0 b.index _ _ root rn' hc rfl
    simp only [Nat.zero_add] at hidx
    have hix : (iat 0 b.index).index = Flat.index 0 b.index := rfl
    rw [hix] at hc
    generalize hcs1 : ({ t.changeset with rnodes := rn' } : Changeset) = cs1 at hv
    have hcs1r : cs1.roots = [] := by rw [← hcs1]; exact hfresh
    cases hvu : verifyUpgrade C p.fork u (some root) pk cs1 with
    | error e => rw [hvu] at hv; simp at hv
    | ok pr2 =>
      obtain ⟨consumed, cs2⟩ := pr2
      rw [hvu] at hv
      simp only [] at hv
      -- what the upgrade adopted is signed
      have hup := upgrade_sound C bs wfork Signed p.fork u (some root) pk cs1 cs2 consumed hunf hsig hlen hsize hwf
      cases hcon : consumed with
      | false =>
        -- the block's root was not consumed: it is compared with a stored node
        rw [hcon] at hv
        simp only [Bool.false_eq_true, ite_false] at hv
        cases hreq : t.requiredNode f root.index with
        | error e => rw [hreq] at hv; simp at hv
        | ok v =>
          rw [hreq] at hv
          simp only [] at hv
          by_cases hne : v.hash ≠ root.hash
          · simp [hne] at hv
          · have heq : v.hash = root.hash := by simpa using hne
            have hnode : t.node? f root.index = some v := by
              unfold requiredNode at hreq
              cases hn : t.node? f root.index with
              | none => simp [hn] at hreq
              | some w => simp [hn] at hreq; rw [hreq]
            rw [hidx] at hnode
            have hrh : root.hash = (RefTree.node C bs b.nodes.length (b.index / 2 ^ b.nodes.length)).2 := by
              rw [← heq]; exact hauth _ _ _ hnode
            rcases block_sound C bs b.index b.value b.nodes _ _ root rn' hc hrh with h | ⟨h1, _, _⟩
            · exact Or.inl h
            · exact Or.inr (Or.inr h1)
      | true =>
        have hvu0 := hvu
        rw [hcon] at hv hvu
        simp only [ite_true, Except.ok.injEq] at hv
        subst hv
        rcases hup hb1 hb2 hvu0 with hcol | ⟨hL, _, hroots⟩
        · exact Or.inr (Or.inl hcol)
        · -- the consumed root is one of the adopted roots
          unfold verifyUpgrade at hvu
          simp only [andThen] at hvu
          cases hur : upgradeRoots C (2 * (u.start + u.length)) (2 * (u.start + u.length) + 2)
              ⟨cs1, Iter.new 0, NodeQueue.new u.nodes (some root), 0, !cs1.roots.isEmpty⟩ with
          | error e => rw [hur] at hvu; simp at hvu
          | ok st =>
            rw [hur] at hvu
            simp only [] at hvu
            cases hlast : st.cs.roots.getLast? with
            | none => rw [hlast] at hvu; simp at hvu
            | some last =>
              rw [hlast] at hvu
              simp only [hadd, extraSiblings, extraRest, checkSignature] at hvu
              split at hvu
              · cases hvu
              · split at hvu
                · cases hvu
                · simp only [Except.ok.injEq, Prod.mk.injEq] at hvu
                  obtain ⟨hcons, hcs2⟩ := hvu
                  have hfresh0 : Fresh ⟨cs1, Iter.new 0, NodeQueue.new u.nodes (some root), 0, !cs1.roots.isEmpty⟩ 0 (u.start + u.length) :=
                    ⟨by show Iter.new 0 = iat 0 0; exact new_even 0, align_zero _, by simp [hcs1r], fun r hr => by
                      have : cs1.roots.getLast? = some r := hr
                      rw [hcs1r] at this; cases this⟩
                  obtain ⟨_, hext, _⟩ := upgradeRoots_fresh C (u.start + u.length) hT _ _ st 0 hfresh0 hur
                  have hrin : root ∈ st.cs.roots := hext root rfl (by simpa using hcons)
                  have hrin2 : root ∈ cs2.roots := by rw [← hcs2]; exact hrin
                  -- … hence a reference root
                  have hmem : (root.hash, root.index, root.length) ∈ cs2.roots.map (fun n => (n.hash, n.index, n.length)) :=
                    List.mem_map.mpr ⟨root, hrin2, rfl⟩
                  rw [hroots] at hmem
                  obtain ⟨ρ, hρ, hρe⟩ := List.mem_map.mp hmem
                  simp only [RefTree.roots, List.mem_map, List.mem_reverse] at hρ
                  obtain ⟨pos, hpos, rfl⟩ := hρ
                  simp only [Prod.mk.injEq] at hρe
                  obtain ⟨e1, e2, _⟩ := hρe
                  have hbound := rootsStack_bound _ pos hpos
                  have hszL : (bs.extract 0 cs2.length).size = cs2.length := by simp; omega
                  rw [hszL] at hbound
                  -- the position of the climbed root is that root position
                  have hposeq : Flat.index pos.1 pos.2 = Flat.index b.nodes.length (b.index / 2 ^ b.nodes.length) := by
                    have : (nodeAt C (bs.extract 0 cs2.length) pos.1 pos.2).index = Flat.index pos.1 pos.2 := rfl
                    rw [← this, e2, hidx]
                  obtain ⟨hd, ho⟩ := index_inj _ _ _ _ hposeq
                  have hrh : root.hash = (RefTree.node C (bs.extract 0 cs2.length) b.nodes.length (b.index / 2 ^ b.nodes.length)).2 := by
                    rw [← e1]
                    show (RefTree.node C (bs.extract 0 cs2.length) pos.1 pos.2).2 = _
                    rw [hd, ho]
                  have hilt : b.index < cs2.length := by
                    have h1 := lt_succ_div_mul b.index (2 ^ b.nodes.length) (pow_pos' _)
                    rw [hd, ho] at hbound
                    omega
                  rcases block_sound C (bs.extract 0 cs2.length) b.index b.value b.nodes _ _ root rn' hc hrh with h | ⟨h1, _, _⟩
                  · exact Or.inl h
                  · exact Or.inr (Or.inr (by rw [h1]; exact extract_getD bs _ _ hL hilt))

/-- the adopted roots are authentic (what `upgrade_sound` says, as a statement about each root) -/
theorem roots_auth (C : Crypto) (bsL : Array Bytes) (roots : List Node)
    (h : roots.map (fun n => (n.hash, n.index, n.length)) = (RefTree.roots C bsL).map (fun n => (n.hash, n.index, n.length))) :
    ∀ x ∈ roots, AuthH C bsL x := by
  intro x hx
  have hmem : (x.hash, x.index, x.length) ∈ roots.map (fun n => (n.hash, n.index, n.length)) := List.mem_map.mpr ⟨x, hx, rfl⟩
  rw [h] at hmem
  obtain ⟨ρ, hρ, hρe⟩ := List.mem_map.mp hmem
  simp only [RefTree.roots, List.mem_map, List.mem_reverse] at hρ
  obtain ⟨pos, _, rfl⟩ := hρ
  simp only [Prod.mk.injEq] at hρe
  obtain ⟨e1, e2, _⟩ := hρe
  exact authH_at C bsL x pos.1 pos.2 e2.symm e1.symm

/-- **First-contact proofs, with additional nodes** (a partial upgrade from 0: the writer completes the roots up
    to its own length, which is what its signature covers).  As `first_contact_sound`, without the restriction on
    `additional_nodes`: the block is the writer's block at that index within the adopted length. -/
theorem first_contact_sound_extra (C : Crypto) (bs : Array Bytes) (wfork : Nat) (Signed : Bytes → Prop)
    (t : Tree) (f : File) (pk : Bytes) (p : Proof) (b : DataBlock) (u : DataUpgrade) (cs' : Changeset)
    (hb : p.block = some b) (hs : p.seek = none) (hu : p.upgrade = some u)
    (hfresh : t.changeset.roots = [])
    (hunf : ∀ m sig, C.verify pk m sig = true → Signed m)
    (hsig : ∀ m, Signed m → ∃ n, n ≤ bs.size ∧ m = RefTree.signableOf C (bs.extract 0 n) wfork)
    (hlen : ∀ x, (C.tree x).length = 32) (hsize : bs.size < 2 ^ 64) (hwf : wfork < 2 ^ 64)
    (hb1 : cs'.length < 2 ^ 64) (hb2 : p.fork < 2 ^ 64) (hT : u.start + u.length < 2 ^ 64)
    (hauth : StoreAuthentic C bs t f)
    (hv : t.verifyProof C f p pk = .ok cs') :
    Collision C ∨ TreeCollision C ∨ b.value = bs.getD b.index [] ∨ b.value = (bs.extract 0 cs'.length).getD b.index [] := by
  unfold verifyProof at hv
  simp only [hb, hs, hu, verifyTree, untrustedOf, noSeekOf, Option.isNone_some, Bool.false_and, Bool.false_eq_true,
    ite_false, seekHalf, andThen, mainHalf] at hv
  have hnew : Iter.new (b.index * 2) = iat 0 b.index := by rw [Nat.mul_comm]; exact new_even b.index
  rw [hnew, plainQueue_eq] at hv
  cases hc : climb C ((plainQueue b.nodes).length + 1) (plainQueue b.nodes) (iat 0 b.index)
      (blockNode C (iat 0 b.index).index b.value) (blockNode C (iat 0 b.index).index b.value :: t.changeset.rnodes) with
  | error e => rw [hc] at hv; simp at hv
  | ok pr =>
    obtain ⟨root, rn'⟩ := pr
    rw [hc] at hv
    simp only [] at hv
    obtain ⟨hidx, _⟩ := climb_sound C bs b.nodes _ 0 b.index _ _ root rn' hc rfl
    simp only [Nat.zero_add] at hidx
    have hix : (iat 0 b.index).index = Flat.index 0 b.index := rfl
    rw [hix] at hc
    generalize hcs1 : ({ t.changeset with rnodes := rn' } : Changeset) = cs1 at hv
    have hcs1r : cs1.roots = [] := by rw [← hcs1]; exact hfresh
    cases hvu : verifyUpgrade C p.fork u (some root) pk cs1 with
    | error e => rw [hvu] at hv; simp at hv
    | ok pr2 =>
      obtain ⟨consumed, cs2⟩ := pr2
      rw [hvu] at hv
      simp only [] at hv
      have hup := upgrade_sound C bs wfork Signed p.fork u (some root) pk cs1 cs2 consumed hunf hsig hlen hsize hwf
      cases hcon : consumed with
      | false =>
        rw [hcon] at hv
        simp only [Bool.false_eq_true, ite_false] at hv
        cases hreq : t.requiredNode f root.index with
        | error e => rw [hreq] at hv; simp at hv
        | ok v =>
          rw [hreq] at hv
          simp only [] at hv
          by_cases hne : v.hash ≠ root.hash
          · simp [hne] at hv
          · have heq : v.hash = root.hash := by simpa using hne
            have hnode : t.node? f root.index = some v := by
              unfold requiredNode at hreq
              cases hn : t.node? f root.index with
              | none => simp [hn] at hreq
              | some w => simp [hn] at hreq; rw [hreq]
            rw [hidx] at hnode
            have hrh : root.hash = (RefTree.node C bs b.nodes.length (b.index / 2 ^ b.nodes.length)).2 := by
              rw [← heq]; exact hauth _ _ _ hnode
            rcases block_sound C bs b.index b.value b.nodes _ _ root rn' hc hrh with h | ⟨h1, _, _⟩
            · exact Or.inl h
            · exact Or.inr (Or.inr (Or.inl h1))
      | true =>
        have hvu0 := hvu
        rw [hcon] at hv hvu
        simp only [ite_true, Except.ok.injEq] at hv
        subst hv
        rcases hup hb1 hb2 hvu0 with hcol | ⟨hL, _, hroots⟩
        · exact Or.inr (Or.inl hcol)
        · have hA2 := roots_auth C (bs.extract 0 cs2.length) cs2.roots hroots
          unfold verifyUpgrade at hvu
          simp only [andThen] at hvu
          cases hur : upgradeRoots C (2 * (u.start + u.length)) (2 * (u.start + u.length) + 2)
              ⟨cs1, Iter.new 0, NodeQueue.new u.nodes (some root), 0, !cs1.roots.isEmpty⟩ with
          | error e => rw [hur] at hvu; simp at hvu
          | ok st =>
            rw [hur] at hvu
            simp only [] at hvu
            cases hlast : st.cs.roots.getLast? with
            | none => rw [hlast] at hvu; simp at hvu
            | some last =>
              rw [hlast] at hvu
              simp only [] at hvu
              have hfresh0 : Fresh ⟨cs1, Iter.new 0, NodeQueue.new u.nodes (some root), 0, !cs1.roots.isEmpty⟩ 0 (u.start + u.length) :=
                ⟨by show Iter.new 0 = iat 0 0; exact new_even 0, align_zero _, by simp [hcs1r], fun r hr => by
                  have : cs1.roots.getLast? = some r := hr
                  rw [hcs1r] at this; cases this⟩
              obtain ⟨_, hext, hlastpos⟩ := upgradeRoots_fresh C (u.start + u.length) hT _ _ st 0 hfresh0 hur
              obtain ⟨m, o, hli, hm64⟩ := hlastpos last hlast
              have hnewlast : Iter.new last.index = iat m o := by rw [hli]; exact Offsets.new_index m o hm64
              rw [hnewlast] at hvu
              obtain ⟨⟨d', o', hcan⟩, hbackS⟩ := extraSiblings_back C (bs.extract 0 cs2.length) (u.additionalNodes.length + 1) st.cs m o u.additionalNodes
              generalize hes : extraSiblings C (u.additionalNodes.length + 1) st.cs (iat m o) u.additionalNodes = es at hvu hcan hbackS
              obtain ⟨csS, itS, exS⟩ := es
              simp only at hvu hcan hbackS
              cases her : extraRest C csS itS exS with
              | error e => rw [her] at hvu; simp at hvu
              | ok x =>
                rw [her] at hvu
                simp only [checkSignature] at hvu
                split at hvu
                · cases hvu
                · split at hvu
                  · cases hvu
                  · simp only [Except.ok.injEq, Prod.mk.injEq] at hvu
                    obtain ⟨hcons, hcs2⟩ := hvu
                    have hAx : ∀ y ∈ x.1.roots, AuthH C (bs.extract 0 cs2.length) y := by
                      intro y hy; apply hA2; rw [← hcs2]; exact hy
                    rw [hcan] at her
                    rcases extraRest_back C (bs.extract 0 cs2.length) exS csS d' o' x her hAx with hcol | hAS
                    · exact Or.inl hcol
                    · rcases hbackS hAS with hcol | hAst
                      · exact Or.inl hcol
                      · have hrin : root ∈ st.cs.roots := hext root rfl (by simpa using hcons)
                        have hrh := hAst root hrin _ _ hidx
                        rcases block_sound C (bs.extract 0 cs2.length) b.index b.value b.nodes _ _ root rn' hc hrh with h | ⟨h1, _, _⟩
                        · exact Or.inl h
                        · exact Or.inr (Or.inr (Or.inr h1))

/-! ### the general case: a replica that already has roots (the `grow` branch) -/

/-- the queue's extra node is only ever removed -/
theorem growLoop_extra (C : Crypto) (rootIndex : Nat) : ∀ (fuel : Nat) (cs : Changeset) (it : Iter) (q : NodeQueue)
    (res : Changeset × Iter × NodeQueue), growLoop C rootIndex fuel cs it q = .ok res →
      ∀ e, res.2.2.extra = some e → q.extra = some e := by
  intro fuel
  induction fuel with
  | zero => intro cs it q res h; simp [growLoop] at h
  | succ fuel ih =>
    intro cs it q res h e he
    unfold growLoop at h
    split at h
    · simp only [Except.ok.injEq] at h; subst h; exact he
    · dsimp only at h
      cases hsh : q.shift it.sibling.index with
      | error x => rw [hsh] at h; simp at h
      | ok pr =>
        obtain ⟨n, q1⟩ := pr
        rw [hsh] at h
        simp only [] at h
        have := ih _ _ q1 res h e he
        obtain ⟨_, hex⟩ := shift_cases q _ n q1 hsh
        rcases hex with hx | ⟨_, hx2⟩
        · rw [← hx]; exact this
        · rw [hx2] at this; cases this

theorem growLoop_back (C : Crypto) (bs : Array Bytes) (rootIndex : Nat) : ∀ (fuel : Nat) (cs : Changeset) (d o : Nat) (q : NodeQueue)
    (res : Changeset × Iter × NodeQueue),
    growLoop C rootIndex fuel cs (iat d o) q = .ok res →
    (∀ l, cs.roots.getLast? = some l → l.index = Flat.index d o) →
      (∃ d' o', res.2.1 = iat d' o' ∧ Flat.index d' o' = rootIndex)
      ∧ (∀ l, res.1.roots.getLast? = some l → l.index = rootIndex)
      ∧ ((∀ x ∈ res.1.roots, AuthH C bs x) →
          Collision C ∨ ((∀ x ∈ cs.roots, AuthH C bs x) ∧ ∀ e, q.extra = some e → res.2.2.extra = none → AuthH C bs e)) := by
  intro fuel
  induction fuel with
  | zero => intro cs d o q res h; simp [growLoop] at h
  | succ fuel ih =>
    intro cs d o q res h hlast
    unfold growLoop at h
    split at h
    · rename_i hidx
      simp only [Except.ok.injEq] at h
      subst h
      have hidx' : Flat.index d o = rootIndex := hidx
      refine ⟨⟨d, o, rfl, hidx'⟩, fun l hl => by rw [hlast l hl, hidx'], fun hall => Or.inr ⟨hall, fun e he hn => ?_⟩⟩
      simp only at hn; rw [he] at hn; cases hn
    · rw [iat_sibling] at h
      dsimp only at h
      cases hsh : q.shift (iat d (sib o)).index with
      | error e => rw [hsh] at h; simp at h
      | ok pr =>
        obtain ⟨n, q1⟩ := pr
        rw [hsh] at h
        simp only [] at h
        obtain ⟨hni, hex⟩ := shift_cases q _ n q1 hsh
        obtain ⟨⟨d1, o1, h1, l1, hl1, hl1i⟩, hback⟩ := appendRoot_back C bs cs n d (sib o) hni
        generalize har : appendRoot C cs n (iat d (sib o)) = ar at h h1 hl1 hback
        obtain ⟨cs1, it1⟩ := ar
        simp only at h h1 hl1 hback
        rw [h1] at h
        obtain ⟨hc, hl, hb2⟩ := ih cs1 d1 o1 q1 res h (fun l hl => by rw [hl1] at hl; cases hl; exact hl1i)
        refine ⟨hc, hl, fun hall => ?_⟩
        rcases hb2 hall with hcol | ⟨hA1, hE1⟩
        · exact Or.inl hcol
        · rcases hback hA1 with hcol | ⟨hA0, hAn⟩
          · exact Or.inl hcol
          · refine Or.inr ⟨hA0, fun e he hn => ?_⟩
            rcases hex with hx | ⟨hx1, hx2⟩
            · exact hE1 e (by rw [hx, he]) hn
            · have : e = n := by rw [he] at hx1; exact Option.some.inj hx1
              subst this; exact hAn

/-- the invariant of `verify_upgrade`'s root loop on an honest replica: aligned leaf iterator; until the first
    node is consumed the roots are the replica's own; once all of them are matched, or a node was consumed, the
    last root is deep enough that the next full root cannot merge with it -/
structure Grown (cs0 : Changeset) (st : UpState) (s T : Nat) : Prop where
  it : st.it = iat 0 s
  al : Align s T
  own : st.grow = true → st.cs = cs0
  last : (st.grow = false ∨ st.cs.roots.length ≤ st.i) → ∀ r, st.cs.roots.getLast? = some r → ∃ m o, r.index = Flat.index m o ∧ T < s + 2 ^ m ∧ m ≤ 64

theorem upgradeRoots_back (C : Crypto) (bs : Array Bytes) (T : Nat) (hT : T < 2 ^ 64) (cs0 : Changeset)
    (hcanon : ∀ l, cs0.roots.getLast? = some l → ∃ d o, l.index = Flat.index d o ∧ d ≤ 64) :
    ∀ (fuel : Nat) (st st' : UpState) (s : Nat), Grown cs0 st s T → upgradeRoots C (2 * T) fuel st = .ok st' →
      (∀ r, st'.cs.roots.getLast? = some r → ∃ m o, r.index = Flat.index m o ∧ m ≤ 64)
      ∧ ((∀ x ∈ st'.cs.roots, AuthH C bs x) →
        Collision C ∨ ((∀ x ∈ st.cs.roots, AuthH C bs x) ∧ ∀ e, st.q.extra = some e → st'.q.extra = none → AuthH C bs e)) := by
  intro fuel
  induction fuel with
  | zero => intro st st' s _ h; simp [upgradeRoots] at h
  | succ fuel ih =>
    intro st st' s hg h
    unfold upgradeRoots at h
    rw [hg.it] at h
    by_cases hs : s < T
    · obtain ⟨J, hfr, hd, hfit, hal', hmax⟩ := fullRoot_canon s T hg.al hs hT
      rw [hfr] at h
      simp only [Bool.not_true, Bool.false_eq_true, ite_false] at h
      have hnext : (iat J (s / 2 ^ J)).nextTree = iat 0 (s + 2 ^ J) := iat_nextTree J s hd
      have hJ64 : J ≤ 64 := by
        by_cases hle : J ≤ 64
        · exact hle
        · exfalso
          have : 2 ^ 64 ≤ 2 ^ J := Nat.pow_le_pow_right (by decide) (by omega)
          omega
      split at h
      · -- an existing root at this position
        rename_i hmatch
        have hg' : Grown cs0 { st with i := st.i + 1, it := (iat J (s / 2 ^ J)).nextTree } (s + 2 ^ J) T :=
          ⟨hnext, hal', hg.own, fun hc r hr => by
            rcases hc with hc | hc
            · obtain ⟨m, o, h1, h2, h3⟩ := hg.last (Or.inl hc) r hr
              exact ⟨m, o, h1, by omega, h3⟩
            · -- all roots matched now: the one just matched is the last
              have hi : st.i = st.cs.roots.length - 1 := by have := hmatch.1; simp only at hc; omega
              have hr' : st.cs.roots.getLast? = some r := hr
              have hget : st.cs.roots.getD st.i default = r := by
                rw [List.getLast?_eq_getElem?] at hr'
                rw [hi, List.getD_eq_getElem?_getD, hr']; rfl
              refine ⟨J, s / 2 ^ J, ?_, hmax, hJ64⟩
              rw [← hget]; exact hmatch.2⟩
        exact ih { st with i := st.i + 1, it := (iat J (s / 2 ^ J)).nextTree } st' _ hg' h
      · rename_i hnomatch
        split at h
        · -- grow: the replica's last roots are merged upwards into this full root
          rename_i hgrow
          have hown := hg.own hgrow.1
          cases hlastq : st.cs.roots.getLast? with
          | none =>
            exfalso
            have := hgrow.2
            have hne : st.cs.roots ≠ [] := by intro e; rw [e] at this; simp at this
            rw [List.getLast?_eq_none_iff] at hlastq; exact hne hlastq
          | some l =>
            obtain ⟨dl, ol, hli, hdl⟩ := hcanon l (by rw [← hown]; exact hlastq)
            have hnewl : Iter.new (st.cs.roots.getLast?.getD default).index = iat dl ol := by
              rw [hlastq]; simp only [Option.getD_some]; rw [hli]; exact Offsets.new_index dl ol hdl
            rw [hnewl] at h
            cases hgl : growLoop C (iat J (s / 2 ^ J)).index (st.q.nodes.length + 3) st.cs (iat dl ol) st.q with
            | error e => rw [hgl] at h; simp at h
            | ok res =>
              rw [hgl] at h
              obtain ⟨cs1, it1, q1⟩ := res
              simp only [] at h
              obtain ⟨⟨d1, o1, hit1, hidx1⟩, hl1, hbackG⟩ := growLoop_back C bs _ _ st.cs dl ol st.q (cs1, it1, q1) hgl
                (fun l' hl' => by rw [hlastq] at hl'; cases hl'; exact hli)
              simp only at hit1 hl1 hbackG
              have hit1' : it1 = iat J (s / 2 ^ J) := by
                rw [hit1]
                have : Flat.index d1 o1 = Flat.index J (s / 2 ^ J) := hidx1
                obtain ⟨rfl, rfl⟩ := index_inj _ _ _ _ this
                rfl
              have hg' : Grown cs0 { st with cs := cs1, it := it1.nextTree, q := q1, grow := false } (s + 2 ^ J) T :=
                ⟨by show it1.nextTree = _; rw [hit1', hnext], hal', (fun hc => by cases hc), fun _ r hr => by
                  have := hl1 r hr
                  exact ⟨J, s / 2 ^ J, this, hmax, hJ64⟩⟩
              obtain ⟨ihl, ihb⟩ := ih { st with cs := cs1, it := it1.nextTree, q := q1, grow := false } st' _ hg' h
              refine ⟨ihl, fun hall => ?_⟩
              rcases ihb hall with hcol | ⟨hA1, hE1⟩
              · exact Or.inl hcol
              · rcases hbackG hA1 with hcol | ⟨hA0, hE0⟩
                · exact Or.inl hcol
                · refine Or.inr ⟨hA0, fun e he hn => ?_⟩
                  by_cases hq1 : q1.extra = none
                  · exact hE0 e he hq1
                  · -- not consumed while growing: consumed later
                    have hsame : q1.extra = some e := by
                      -- the queue only ever loses its extra node
                      cases hq : q1.extra with
                      | none => exact absurd hq hq1
                      | some e' =>
                        have := growLoop_extra C _ _ st.cs (iat dl ol) st.q (cs1, it1, q1) hgl e' hq
                        rw [he] at this; rw [Option.some.inj this]
                    exact hE1 e hsame hn
        · -- the next supplied node becomes a root
          rename_i hnogrow
          cases hsh : st.q.shift (iat J (s / 2 ^ J)).index with
          | error e => rw [hsh] at h; simp at h
          | ok pr =>
            obtain ⟨n, q1⟩ := pr
            rw [hsh] at h
            simp only [] at h
            obtain ⟨hni, hex⟩ := shift_cases st.q _ n q1 hsh
            have hcond : st.grow = false ∨ st.cs.roots.length ≤ st.i := by
              by_cases hgr : st.grow = true
              · right
                by_cases hle : st.cs.roots.length ≤ st.i
                · exact hle
                · exact absurd ⟨hgr, by omega⟩ hnogrow
              · left; simpa using hgr
            have hnm : ∀ b, st.cs.roots.getLast? = some b → (iat J (s / 2 ^ J)).sibling.index ≠ b.index := by
              intro b hb hcon
              obtain ⟨m, o, h1, h2, _⟩ := hg.last hcond b hb
              rw [iat_sibling, h1] at hcon
              have := (index_inj _ _ _ _ hcon).1
              have hlt : 2 ^ J < 2 ^ m := by omega
              have := (Nat.pow_lt_pow_iff_right (by decide : 1 < 2)).mp hlt
              omega
            obtain ⟨hroots, hit, _⟩ := appendRoot_nomerge C st.cs n (iat J (s / 2 ^ J)) hnm
            have hit' : (appendRoot C st.cs n (iat J (s / 2 ^ J))).2 = iat J (s / 2 ^ J) := by
              rcases hit with e | e
              · exact e
              · rw [e, iat_sibling_sibling]
            generalize har : appendRoot C st.cs n (iat J (s / 2 ^ J)) = ar at h hroots hit'
            obtain ⟨cs1, it1⟩ := ar
            simp only at h hroots hit'
            have hg' : Grown cs0 { st with cs := cs1, it := it1.nextTree, q := q1, grow := false } (s + 2 ^ J) T :=
              ⟨by show it1.nextTree = _; rw [hit', hnext], hal', (fun hc => by cases hc), fun _ r hr => by
                have hr' : cs1.roots.getLast? = some r := hr
                rw [hroots] at hr'
                simp at hr'
                subst hr'
                exact ⟨J, s / 2 ^ J, hni, hmax, hJ64⟩⟩
            obtain ⟨ihl, ihb⟩ := ih { st with cs := cs1, it := it1.nextTree, q := q1, grow := false } st' _ hg' h
            refine ⟨ihl, fun hall => ?_⟩
            rcases ihb hall with hcol | ⟨hA1, hE1⟩
            · exact Or.inl hcol
            · have hA1' : ∀ x ∈ cs1.roots, AuthH C bs x := hA1
              rw [hroots] at hA1'
              refine Or.inr ⟨fun x hx => hA1' x (by simp [hx]), fun e he hn => ?_⟩
              rcases hex with hx | ⟨hx1, hx2⟩
              · exact hE1 e (by show q1.extra = some e; rw [hx, he]) hn
              · have : e = n := by rw [he] at hx1; exact Option.some.inj hx1
                subst this
                exact hA1' e (by simp)
    · rw [fullRoot_done s T (by omega)] at h
      simp only [Bool.not_false, ite_true, Except.ok.injEq] at h
      subst h
      refine ⟨fun r hr => ?_, fun hall => Or.inr ⟨hall, fun e he hn => by simp only at hn; rw [he] at hn; cases hn⟩⟩
      have hr' : st.cs.roots.getLast? = some r := hr
      by_cases hcond : st.grow = false ∨ st.cs.roots.length ≤ st.i
      · obtain ⟨m, o, h1, _, h3⟩ := hg.last hcond r hr'
        exact ⟨m, o, h1, h3⟩
      · have hgr : st.grow = true := by
          cases hgv : st.grow with
          | true => rfl
          | false => exact absurd (Or.inl hgv) hcond
        have hown := hg.own hgr
        exact hcanon r (by rw [← hown]; exact hr')

/-- **Block + upgrade on any honest replica** (C04).  The replica's own roots sit at tree positions (`hcanon`:
    the last one at depth ≤ 64 — true of the reference roots of any log shorter than 2^64); the proof carries a
    block and an upgrade (no seek section).  If `verify_proof` accepts, the block is the writer's block at that
    index (within the adopted length when the upgrade consumed the block's root) — unless a collision of `leaf`,
    `parent` or the root-list hash is exhibited.  The `grow` branch (the replica's last roots merged upwards
    into a larger signed root) is covered: authenticity flows backwards from the signed roots through every
    merge (`mergeLoop_back`), because all iterators involved are canonical and depend on the claimed length only. -/
theorem block_upgrade_sound (C : Crypto) (bs : Array Bytes) (wfork : Nat) (Signed : Bytes → Prop)
    (t : Tree) (f : File) (pk : Bytes) (p : Proof) (b : DataBlock) (u : DataUpgrade) (cs' : Changeset)
    (hb : p.block = some b) (hs : p.seek = none) (hu : p.upgrade = some u)
    (hcanon : ∀ l, t.changeset.roots.getLast? = some l → ∃ d o, l.index = Flat.index d o ∧ d ≤ 64)
    (hunf : ∀ m sig, C.verify pk m sig = true → Signed m)
    (hsig : ∀ m, Signed m → ∃ n, n ≤ bs.size ∧ m = RefTree.signableOf C (bs.extract 0 n) wfork)
    (hlen : ∀ x, (C.tree x).length = 32) (hsize : bs.size < 2 ^ 64) (hwf : wfork < 2 ^ 64)
    (hb1 : cs'.length < 2 ^ 64) (hb2 : p.fork < 2 ^ 64) (hT : u.start + u.length < 2 ^ 64)
    (hauth : StoreAuthentic C bs t f)
    (hv : t.verifyProof C f p pk = .ok cs') :
    Collision C ∨ TreeCollision C ∨ b.value = bs.getD b.index [] ∨ b.value = (bs.extract 0 cs'.length).getD b.index [] := by
  unfold verifyProof at hv
  simp only [hb, hs, hu, verifyTree, untrustedOf, noSeekOf, Option.isNone_some, Bool.false_and, Bool.false_eq_true,
    ite_false, seekHalf, andThen, mainHalf] at hv
  have hnew : Iter.new (b.index * 2) = iat 0 b.index := by rw [Nat.mul_comm]; exact new_even b.index
  rw [hnew, plainQueue_eq] at hv
  cases hc : climb C ((plainQueue b.nodes).length + 1) (plainQueue b.nodes) (iat 0 b.index)
      (blockNode C (iat 0 b.index).index b.value) (blockNode C (iat 0 b.index).index b.value :: t.changeset.rnodes) with
  | error e => rw [hc] at hv; simp at hv
  | ok pr =>
    obtain ⟨root, rn'⟩ := pr
    rw [hc] at hv
    simp only [] at hv
    obtain ⟨hidx, _⟩ := climb_sound C bs b.nodes _ 0 b.index _ _ root rn' hc rfl
    simp only [Nat.zero_add] at hidx
    have hix : (iat 0 b.index).index = Flat.index 0 b.index := rfl
    rw [hix] at hc
    generalize hcs1 : ({ t.changeset with rnodes := rn' } : Changeset) = cs1 at hv
    have hcs1r : cs1.roots = t.changeset.roots := by rw [← hcs1]
    cases hvu : verifyUpgrade C p.fork u (some root) pk cs1 with
    | error e => rw [hvu] at hv; simp at hv
    | ok pr2 =>
      obtain ⟨consumed, cs2⟩ := pr2
      rw [hvu] at hv
      simp only [] at hv
      have hup := upgrade_sound C bs wfork Signed p.fork u (some root) pk cs1 cs2 consumed hunf hsig hlen hsize hwf
      cases hcon : consumed with
      | false =>
        rw [hcon] at hv
        simp only [Bool.false_eq_true, ite_false] at hv
        cases hreq : t.requiredNode f root.index with
        | error e => rw [hreq] at hv; simp at hv
        | ok v =>
          rw [hreq] at hv
          simp only [] at hv
          by_cases hne : v.hash ≠ root.hash
          · simp [hne] at hv
          · have heq : v.hash = root.hash := by simpa using hne
            have hnode : t.node? f root.index = some v := by
              unfold requiredNode at hreq
              cases hn : t.node? f root.index with
              | none => simp [hn] at hreq
              | some w => simp [hn] at hreq; rw [hreq]
            rw [hidx] at hnode
            have hrh : root.hash = (RefTree.node C bs b.nodes.length (b.index / 2 ^ b.nodes.length)).2 := by
              rw [← heq]; exact hauth _ _ _ hnode
            rcases block_sound C bs b.index b.value b.nodes _ _ root rn' hc hrh with h | ⟨h1, _, _⟩
            · exact Or.inl h
            · exact Or.inr (Or.inr (Or.inl h1))
      | true =>
        have hvu0 := hvu
        rw [hcon] at hv hvu
        simp only [ite_true, Except.ok.injEq] at hv
        subst hv
        rcases hup hb1 hb2 hvu0 with hcol | ⟨hL, _, hroots⟩
        · exact Or.inr (Or.inl hcol)
        · have hA2 := roots_auth C (bs.extract 0 cs2.length) cs2.roots hroots
          unfold verifyUpgrade at hvu
          simp only [andThen] at hvu
          cases hur : upgradeRoots C (2 * (u.start + u.length)) (2 * (u.start + u.length) + 2)
              ⟨cs1, Iter.new 0, NodeQueue.new u.nodes (some root), 0, !cs1.roots.isEmpty⟩ with
          | error e => rw [hur] at hvu; simp at hvu
          | ok st =>
            rw [hur] at hvu
            simp only [] at hvu
            cases hlast : st.cs.roots.getLast? with
            | none => rw [hlast] at hvu; simp at hvu
            | some last =>
              rw [hlast] at hvu
              simp only [] at hvu
              have hgrown0 : Grown cs1 ⟨cs1, Iter.new 0, NodeQueue.new u.nodes (some root), 0, !cs1.roots.isEmpty⟩ 0 (u.start + u.length) :=
                ⟨by show Iter.new 0 = iat 0 0; exact new_even 0, align_zero _, fun _ => rfl, fun hc r hr => by
                  exfalso
                  have hr' : cs1.roots.getLast? = some r := hr
                  have hne : cs1.roots ≠ [] := by intro e; rw [e] at hr'; cases hr'
                  rcases hc with hc | hc
                  · have hc' : (!cs1.roots.isEmpty) = false := hc
                    apply hne; simpa using hc'
                  · have hc' : cs1.roots.length ≤ 0 := hc
                    apply hne; exact List.eq_nil_of_length_eq_zero (by omega)⟩
              obtain ⟨hlastpos, hbackU⟩ := upgradeRoots_back C (bs.extract 0 cs2.length) (u.start + u.length) hT cs1
                (fun l hl => hcanon l (by rw [← hcs1r]; exact hl)) _ _ st 0 hgrown0 hur
              obtain ⟨m, o, hli, hm64⟩ := hlastpos last hlast
              have hnewlast : Iter.new last.index = iat m o := by rw [hli]; exact Offsets.new_index m o hm64
              rw [hnewlast] at hvu
              obtain ⟨⟨d', o', hcan⟩, hbackS⟩ := extraSiblings_back C (bs.extract 0 cs2.length) (u.additionalNodes.length + 1) st.cs m o u.additionalNodes
              generalize hes : extraSiblings C (u.additionalNodes.length + 1) st.cs (iat m o) u.additionalNodes = es at hvu hcan hbackS
              obtain ⟨csS, itS, exS⟩ := es
              simp only at hvu hcan hbackS
              cases her : extraRest C csS itS exS with
              | error e => rw [her] at hvu; simp at hvu
              | ok x =>
                rw [her] at hvu
                simp only [checkSignature] at hvu
                split at hvu
                · cases hvu
                · split at hvu
                  · cases hvu
                  · simp only [Except.ok.injEq, Prod.mk.injEq] at hvu
                    obtain ⟨hcons, hcs2⟩ := hvu
                    have hAx : ∀ y ∈ x.1.roots, AuthH C (bs.extract 0 cs2.length) y := by
                      intro y hy; apply hA2; rw [← hcs2]; exact hy
                    rw [hcan] at her
                    rcases extraRest_back C (bs.extract 0 cs2.length) exS csS d' o' x her hAx with hcol | hAS
                    · exact Or.inl hcol
                    · rcases hbackS hAS with hcol | hAst
                      · exact Or.inl hcol
                      · rcases hbackU hAst with hcol | ⟨_, hE⟩
                        · exact Or.inl hcol
                        have hrA := hE root rfl (by simpa using hcons)
                        have hrh := hrA _ _ hidx
                        rcases block_sound C (bs.extract 0 cs2.length) b.index b.value b.nodes _ _ root rn' hc hrh with h | ⟨h1, _, _⟩
                        · exact Or.inl h
                        · exact Or.inr (Or.inr (Or.inr h1))


end HC.UpgradeSound
