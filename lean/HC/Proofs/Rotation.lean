import HC.Spec.Consts
/-!
The two-slot header rotation of the oplog as an abstract protocol (headers `H` and entries `E`
abstract; a slot is `none` when `validate_leader` rejects it).  `Log.open` is the reader's rule
(the same case analysis as `Oplog::open` / `HC.Oplog.openLog`), `Bits.next` is
`get_next_header_oplog_slot_and_bit_value` (`HC.Spec.nextSlot`).
-/
namespace HC.Rotation

variable {H E : Type}

structure Frame (E : Type) where
  bit : Bool
  partial_ : Bool
  entry : E

structure Log (H E : Type) where
  s0 : Option (Bool × H)
  s1 : Option (Bool × H)
  entries : List (Frame E)

structure Bits where
  b0 : Bool
  b1 : Bool
deriving DecidableEq, Repr

def Bits.cur (b : Bits) : Bool := Spec.currentBit b.b0 b.b1

/-- after writing the next header: the new bits -/
def Bits.next (b : Bits) : Bits :=
  let (second, bit) := Spec.nextSlot b.b0 b.b1
  if second then { b with b1 := bit } else { b with b0 := bit }

/-- the log after the next header has been written (first step of a flush) -/
def Log.writeNext (l : Log H E) (b : Bits) (h : H) : Log H E :=
  let (second, bit) := Spec.nextSlot b.b0 b.b1
  if second then { l with s1 := some (bit, h) } else { l with s0 := some (bit, h) }

/-- the same write torn: the slot being written no longer validates -/
def Log.tearNext (l : Log H E) (b : Bits) : Log H E :=
  let (second, _) := Spec.nextSlot b.b0 b.b1
  if second then { l with s1 := none } else { l with s0 := none }

def dropTrailingPartial : List (Frame E) → List (Frame E)
  | [] => []
  | f :: fs => match dropTrailingPartial fs with
    | [] => if f.partial_ then [] else [f]
    | r => f :: r

def takeBit (b : Bool) : List (Frame E) → List (Frame E)
  | [] => []
  | f :: fs => if f.bit == b then f :: takeBit b fs else []

def seen (c : Bool) (fs : List (Frame E)) : List E := (dropTrailingPartial (takeBit c fs)).map (·.entry)

/-- the reader's rule: newest header = slot 1 iff the two header bits differ; entries count only
    while they carry the current header bit -/
def Log.open (l : Log H E) : Option (Bits × H × List E) :=
  match l.s0, l.s1 with
  | none, none => none
  | some (b, h), none => some (⟨b, b⟩, h, seen (Spec.currentBit b b) l.entries)
  | none, some (b, h) => some (⟨!b, b⟩, h, seen (Spec.currentBit (!b) b) l.entries)
  | some (b0, h0), some (b1, h1) =>
    some (⟨b0, b1⟩, (if b0 == b1 then h0 else h1), seen (Spec.currentBit b0 b1) l.entries)

def mk (c : Bool) (e : E) : Frame E := ⟨c, false, e⟩

/-- invariant tying the in-memory bits to the file: the newest slot is valid and holds `h`; the other
    slot is missing or carries its bit; all entries are complete and carry the current bit -/
structure Inv (bits : Bits) (h : H) (es : List E) (l : Log H E) : Prop where
  newest : (if bits.b0 == bits.b1 then l.s0 = some (bits.b0, h) else l.s1 = some (bits.b1, h))
  older0 : (bits.b0 != bits.b1) = true → (l.s0 = none ∨ ∃ h', l.s0 = some (bits.b0, h'))
  older1 : (bits.b0 == bits.b1) = true → (l.s1 = none ∨ ∃ h', l.s1 = some (bits.b1, h'))
  ents : l.entries = es.map (mk bits.cur)

/-- what a reader learns: header, entries, and the bits up to the equivalence that matters
    (same current bit, same next slot and bit) -/
def Sees (l : Log H E) (bits : Bits) (h : H) (es : List E) : Prop :=
  ∃ b', l.open = some (b', h, es) ∧ b'.cur = bits.cur
    ∧ Spec.nextSlot b'.b0 b'.b1 = Spec.nextSlot bits.b0 bits.b1

theorem takeBit_all (b : Bool) (es : List E) : takeBit b (es.map (mk b)) = es.map (mk b) := by
  induction es with
  | nil => rfl
  | cons e es ih => simp [takeBit, mk]; exact ih

theorem takeBit_none (b c : Bool) (hne : c ≠ b) (es : List E) : takeBit c (es.map (mk b)) = [] := by
  cases es with
  | nil => rfl
  | cons e es => cases b <;> cases c <;> simp_all [takeBit, mk]

theorem dropTP_nonpartial (es : List E) (b : Bool) :
    dropTrailingPartial (es.map (mk b)) = es.map (mk b) := by
  induction es with
  | nil => rfl
  | cons e es ih =>
    simp only [List.map, dropTrailingPartial, ih]
    cases es <;> simp [mk]

theorem seen_same (c : Bool) (es : List E) : seen c (es.map (mk c)) = es := by
  simp [seen, takeBit_all, dropTP_nonpartial, List.map_map, Function.comp_def, mk]

theorem seen_diff (b c : Bool) (hne : c ≠ b) (es : List E) : seen c (es.map (mk b)) = [] := by
  simp [seen, takeBit_none b c hne, dropTrailingPartial]

theorem open_both (l : Log H E) {b0 b1 : Bool} {h0 h1 : H} (e0 : l.s0 = some (b0, h0)) (e1 : l.s1 = some (b1, h1)) :
    l.open = some (⟨b0, b1⟩, (if b0 == b1 then h0 else h1), seen (Spec.currentBit b0 b1) l.entries) := by
  simp [Log.open, e0, e1]
theorem open_only0 (l : Log H E) {b : Bool} {h : H} (e0 : l.s0 = some (b, h)) (e1 : l.s1 = none) :
    l.open = some (⟨b, b⟩, h, seen (Spec.currentBit b b) l.entries) := by
  simp [Log.open, e0, e1]
theorem open_only1 (l : Log H E) {b : Bool} {h : H} (e0 : l.s0 = none) (e1 : l.s1 = some (b, h)) :
    l.open = some (⟨!b, b⟩, h, seen (Spec.currentBit (!b) b) l.entries) := by
  simp [Log.open, e0, e1]

/-- a clean reopen sees exactly the header and the entries -/
theorem open_of_inv {bits : Bits} {h : H} {es : List E} {l : Log H E} (inv : Inv bits h es l) :
    Sees l bits h es := by
  obtain ⟨hn, ho0, ho1, he⟩ := inv
  rcases bits with ⟨b0, b1⟩
  cases b0 <;> cases b1 <;> simp [Bits.cur, Spec.currentBit] at hn ho0 ho1 he
  · -- (false,false): newest = slot 0
    rcases ho1 with h1 | ⟨h', h1⟩
    · exact ⟨_, by rw [open_only0 l hn h1, he]; simp [Spec.currentBit, seen_same], rfl, rfl⟩
    · exact ⟨_, by rw [open_both l hn h1, he]; simp [Spec.currentBit, seen_same], rfl, rfl⟩
  · -- (false,true): newest = slot 1
    rcases ho0 with h1 | ⟨h', h1⟩
    · exact ⟨_, by rw [open_only1 l h1 hn, he]; simp [Spec.currentBit, seen_same], rfl, rfl⟩
    · exact ⟨_, by rw [open_both l h1 hn, he]; simp [Spec.currentBit, seen_same], rfl, rfl⟩
  · -- (true,false): newest = slot 1
    rcases ho0 with h1 | ⟨h', h1⟩
    · exact ⟨_, by rw [open_only1 l h1 hn, he]; simp [Spec.currentBit, seen_same], rfl, rfl⟩
    · exact ⟨_, by rw [open_both l h1 hn, he]; simp [Spec.currentBit, seen_same], rfl, rfl⟩
  · -- (true,true): newest = slot 0
    rcases ho1 with h1 | ⟨h', h1⟩
    · exact ⟨_, by rw [open_only0 l hn h1, he]; simp [Spec.currentBit, seen_same], rfl, rfl⟩
    · exact ⟨_, by rw [open_both l hn h1, he]; simp [Spec.currentBit, seen_same], rfl, rfl⟩

/-- crash between the header write and the truncate: the reader sees the *new* header and no
    entries (the old ones carry the other bit); after the truncate the invariant holds again -/
theorem switch_atomic {bits : Bits} {h h' : H} {es : List E} {l : Log H E} (inv : Inv bits h es l) :
    Sees (l.writeNext bits h') bits.next h' ([] : List E)
      ∧ Inv bits.next h' ([] : List E) { (l.writeNext bits h') with entries := [] } := by
  obtain ⟨hn, ho0, ho1, he⟩ := inv
  rcases bits with ⟨b0, b1⟩
  cases b0 <;> cases b1 <;> simp [Bits.cur, Spec.currentBit] at hn ho0 ho1 he
  · -- (false,false) → write slot 1 with bit true → (false,true)
    have w1 : (l.writeNext ⟨false, false⟩ h').s1 = some (true, h') := by simp [Log.writeNext, Spec.nextSlot]
    have w0 : (l.writeNext ⟨false, false⟩ h').s0 = some (false, h) := by simp [Log.writeNext, Spec.nextSlot, hn]
    have we : (l.writeNext ⟨false, false⟩ h').entries = es.map (mk false) := by simp [Log.writeNext, Spec.nextSlot, he]
    refine ⟨⟨_, by rw [open_both _ w0 w1, we]; simp [Spec.currentBit, seen_diff]; try rfl, rfl, rfl⟩, ?_⟩
    constructor <;> simp [Bits.next, Spec.nextSlot, w0, w1, Bits.cur, Spec.currentBit, mk]
  · -- (false,true) → write slot 0 with bit true → (true,true)
    have w0 : (l.writeNext ⟨false, true⟩ h').s0 = some (true, h') := by simp [Log.writeNext, Spec.nextSlot]
    have w1 : (l.writeNext ⟨false, true⟩ h').s1 = some (true, h) := by simp [Log.writeNext, Spec.nextSlot, hn]
    have we : (l.writeNext ⟨false, true⟩ h').entries = es.map (mk true) := by simp [Log.writeNext, Spec.nextSlot, he]
    refine ⟨⟨_, by rw [open_both _ w0 w1, we]; simp [Spec.currentBit, seen_diff]; try rfl, rfl, rfl⟩, ?_⟩
    constructor <;> simp [Bits.next, Spec.nextSlot, w0, w1, Bits.cur, Spec.currentBit, mk]
  · -- (true,false) → write slot 0 with bit false → (false,false)
    have w0 : (l.writeNext ⟨true, false⟩ h').s0 = some (false, h') := by simp [Log.writeNext, Spec.nextSlot]
    have w1 : (l.writeNext ⟨true, false⟩ h').s1 = some (false, h) := by simp [Log.writeNext, Spec.nextSlot, hn]
    have we : (l.writeNext ⟨true, false⟩ h').entries = es.map (mk true) := by simp [Log.writeNext, Spec.nextSlot, he]
    refine ⟨⟨_, by rw [open_both _ w0 w1, we]; simp [Spec.currentBit, seen_diff]; try rfl, rfl, rfl⟩, ?_⟩
    constructor <;> simp [Bits.next, Spec.nextSlot, w0, w1, Bits.cur, Spec.currentBit, mk]
  · -- (true,true) → write slot 1 with bit false → (true,false)
    have w1 : (l.writeNext ⟨true, true⟩ h').s1 = some (false, h') := by simp [Log.writeNext, Spec.nextSlot]
    have w0 : (l.writeNext ⟨true, true⟩ h').s0 = some (true, h) := by simp [Log.writeNext, Spec.nextSlot, hn]
    have we : (l.writeNext ⟨true, true⟩ h').entries = es.map (mk false) := by simp [Log.writeNext, Spec.nextSlot, he]
    refine ⟨⟨_, by rw [open_both _ w0 w1, we]; simp [Spec.currentBit, seen_diff]; try rfl, rfl, rfl⟩, ?_⟩
    constructor <;> simp [Bits.next, Spec.nextSlot, w0, w1, Bits.cur, Spec.currentBit, mk]

/-- the header write torn (the slot being written no longer validates): the reader still sees
    the old header and all entries -/
theorem torn_header_falls_back {bits : Bits} {h : H} {es : List E} {l : Log H E} (inv : Inv bits h es l) :
    Sees (l.tearNext bits) bits h es := by
  obtain ⟨hn, ho0, ho1, he⟩ := inv
  rcases bits with ⟨b0, b1⟩
  cases b0 <;> cases b1 <;> simp [Bits.cur, Spec.currentBit] at hn ho0 ho1 he
  · have w1 : (l.tearNext ⟨false, false⟩).s1 = none := by simp [Log.tearNext, Spec.nextSlot]
    have w0 : (l.tearNext ⟨false, false⟩).s0 = some (false, h) := by simp [Log.tearNext, Spec.nextSlot, hn]
    have we : (l.tearNext ⟨false, false⟩).entries = es.map (mk false) := by simp [Log.tearNext, Spec.nextSlot, he]
    exact ⟨_, by rw [open_only0 _ w0 w1, we]; simp [Spec.currentBit, seen_same], rfl, rfl⟩
  · have w0 : (l.tearNext ⟨false, true⟩).s0 = none := by simp [Log.tearNext, Spec.nextSlot]
    have w1 : (l.tearNext ⟨false, true⟩).s1 = some (true, h) := by simp [Log.tearNext, Spec.nextSlot, hn]
    have we : (l.tearNext ⟨false, true⟩).entries = es.map (mk true) := by simp [Log.tearNext, Spec.nextSlot, he]
    exact ⟨_, by rw [open_only1 _ w0 w1, we]; simp [Spec.currentBit, seen_same], rfl, rfl⟩
  · have w0 : (l.tearNext ⟨true, false⟩).s0 = none := by simp [Log.tearNext, Spec.nextSlot]
    have w1 : (l.tearNext ⟨true, false⟩).s1 = some (false, h) := by simp [Log.tearNext, Spec.nextSlot, hn]
    have we : (l.tearNext ⟨true, false⟩).entries = es.map (mk true) := by simp [Log.tearNext, Spec.nextSlot, he]
    exact ⟨_, by rw [open_only1 _ w0 w1, we]; simp [Spec.currentBit, seen_same], rfl, rfl⟩
  · have w1 : (l.tearNext ⟨true, true⟩).s1 = none := by simp [Log.tearNext, Spec.nextSlot]
    have w0 : (l.tearNext ⟨true, true⟩).s0 = some (true, h) := by simp [Log.tearNext, Spec.nextSlot, hn]
    have we : (l.tearNext ⟨true, true⟩).entries = es.map (mk false) := by simp [Log.tearNext, Spec.nextSlot, he]
    exact ⟨_, by rw [open_only0 _ w0 w1, we]; simp [Spec.currentBit, seen_same], rfl, rfl⟩

/-- the header write torn: the invariant still holds for the same bits, header and entries (the slot being
    written is the older one, and an older slot may be invalid) -/
theorem tear_inv {bits : Bits} {h : H} {es : List E} {l : Log H E} (inv : Inv bits h es l) :
    Inv bits h es (l.tearNext bits) := by
  obtain ⟨hn, ho0, ho1, he⟩ := inv
  rcases bits with ⟨b0, b1⟩
  cases b0 <;> cases b1 <;> simp [Bits.cur, Spec.currentBit] at hn ho0 ho1 he
  · constructor <;> simp [Log.tearNext, Spec.nextSlot, hn, he, Bits.cur, Spec.currentBit]
  · constructor <;> simp [Log.tearNext, Spec.nextSlot, hn, he, Bits.cur, Spec.currentBit]
  · constructor <;> simp [Log.tearNext, Spec.nextSlot, hn, he, Bits.cur, Spec.currentBit]
  · constructor <;> simp [Log.tearNext, Spec.nextSlot, hn, he, Bits.cur, Spec.currentBit]

/-- appending an entry (a complete frame with the current bit) keeps the invariant -/
theorem append_inv {bits : Bits} {h : H} {es : List E} {l : Log H E} (inv : Inv bits h es l) (e : E) :
    Inv bits h (es ++ [e]) { l with entries := l.entries ++ [mk bits.cur e] } := by
  obtain ⟨hn, ho0, ho1, he⟩ := inv
  exact ⟨hn, ho0, ho1, by simp [he]⟩

/-- a freshly created log -/
theorem fresh_inv (h : H) :
    Inv (E := E) (Bits.next ⟨Spec.initialBits.1, Spec.initialBits.2⟩) h []
      (({ s0 := none, s1 := none, entries := [] } : Log H E).writeNext ⟨Spec.initialBits.1, Spec.initialBits.2⟩ h) := by
  constructor <;> simp [Bits.next, Spec.nextSlot, Spec.initialBits, Log.writeNext, Bits.cur]

end HC.Rotation
