import HC.Proofs.Bitfield
import HC.Proofs.Journal
/-!
Bitfield pages on disk: `flush` writes every dirty page as 4096 bytes (bit `i` of the bitfield is bit
`i % 8` of byte `i / 8`), `open` reads the store back bit by bit.  If every bit that differs from the
store lies on a dirty page, the store after a flush decodes to exactly the bits in memory.
-/
namespace HC.BitfieldPages
open HC HC.Bitfield

/-! ### one byte -/

theorem byte_bit8 : ∀ (b0 b1 b2 b3 b4 b5 b6 b7 : Bool) (j : Fin 8),
    decide ((UInt8.ofNat (0 + (if b0 then 2 ^ 0 else 0) + (if b1 then 2 ^ 1 else 0) + (if b2 then 2 ^ 2 else 0)
      + (if b3 then 2 ^ 3 else 0) + (if b4 then 2 ^ 4 else 0) + (if b5 then 2 ^ 5 else 0) + (if b6 then 2 ^ 6 else 0)
      + (if b7 then 2 ^ 7 else 0))).toNat / 2 ^ j.val % 2 = 1) = [b0, b1, b2, b3, b4, b5, b6, b7].getD j.val false := by
  decide

theorem bitsToByte_bit (bits : Array Bool) (base j : Nat) (hj : j < 8) :
    decide ((bitsToByte bits base).toNat / 2 ^ j % 2 = 1) = bits.getD (base + j) false := by
  have hr : List.range 8 = [0, 1, 2, 3, 4, 5, 6, 7] := by decide
  have := byte_bit8 (bits.getD (base + 0) false) (bits.getD (base + 1) false) (bits.getD (base + 2) false)
    (bits.getD (base + 3) false) (bits.getD (base + 4) false) (bits.getD (base + 5) false) (bits.getD (base + 6) false)
    (bits.getD (base + 7) false) ⟨j, hj⟩
  simp only [bitsToByte, hr, List.foldl_cons, List.foldl_nil]
  rw [this]
  have hcases : j = 0 ∨ j = 1 ∨ j = 2 ∨ j = 3 ∨ j = 4 ∨ j = 5 ∨ j = 6 ∨ j = 7 := by omega
  rcases hcases with rfl | rfl | rfl | rfl | rfl | rfl | rfl | rfl <;> rfl

/-! ### reading the store -/

theorem ofFile_get (f : File) (i : Nat) :
    (Bitfield.ofFile f).get i = (decide (i < (f.size - f.size % 4) * 8) && decide ((f.byte (i / 8)).toNat / 2 ^ (i % 8) % 2 = 1)) := by
  simp only [Bitfield.ofFile, Bitfield.get, File.byte]
  by_cases h : i < (f.size - f.size % 4) * 8
  · simp [Array.getD_eq_getD_getElem?, h]
  · have : (Array.ofFn (n := (f.size - f.size % 4) * 8) fun i => decide ((f.data.getD (i.val / 8) 0).toNat / 2 ^ (i.val % 8) % 2 = 1))[i]? = none := by
      simp; omega
    simp [Array.getD_eq_getD_getElem?, this, h]

/-! ### writing pages -/

def writePages (b : Bitfield) (f : File) (ps : List Nat) : File :=
  ps.foldl (fun f p => f.write (p * Spec.pageBytes) (b.pageBytes p)) f

theorem pageBytes_length (b : Bitfield) (p : Nat) : (b.pageBytes p).length = Spec.pageBytes := by
  simp [Bitfield.pageBytes]

theorem pageBytes_getD (b : Bitfield) (p k : Nat) (hk : k < Spec.pageBytes) :
    (b.pageBytes p).getD k 0 = bitsToByte b.bits ((p * Spec.pageBytes + k) * 8) := by
  simp [Bitfield.pageBytes, List.getD_eq_getElem?_getD, hk]

theorem writePages_spec (b : Bitfield) (ps : List Nat) : ∀ (f : File), f.size % Spec.pageBytes = 0 →
    (writePages b f ps).size % Spec.pageBytes = 0 ∧ f.size ≤ (writePages b f ps).size
      ∧ (∀ p ∈ ps, (p + 1) * Spec.pageBytes ≤ (writePages b f ps).size)
      ∧ (∀ k, (writePages b f ps).byte k = if k / Spec.pageBytes ∈ ps then bitsToByte b.bits (k * 8) else f.byte k) := by
  induction ps with
  | nil => intro f hf; exact ⟨hf, Nat.le_refl _, fun p hp => (by cases hp), fun k => (by simp [writePages])⟩
  | cons p ps ih =>
    intro f hf
    have hP : Spec.pageBytes = 4096 := rfl
    have hsz : (f.write (p * Spec.pageBytes) (b.pageBytes p)).size = max f.size (p * Spec.pageBytes + Spec.pageBytes) := by
      rw [File.size_write, pageBytes_length]
    have hmod : (f.write (p * Spec.pageBytes) (b.pageBytes p)).size % Spec.pageBytes = 0 := by
      rw [hsz, hP] at *
      rcases Nat.le_total f.size (p * 4096 + 4096) with h | h
      · rw [Nat.max_eq_right h]; omega
      · rw [Nat.max_eq_left h]; exact hf
    obtain ⟨i1, i2, i3, i4⟩ := ih (f.write (p * Spec.pageBytes) (b.pageBytes p)) hmod
    simp only [writePages, List.foldl_cons] at i1 i2 i3 i4 ⊢
    refine ⟨i1, ?_, ?_, ?_⟩
    · have : f.size ≤ (f.write (p * Spec.pageBytes) (b.pageBytes p)).size := by rw [hsz]; exact Nat.le_max_left _ _
      omega
    · intro q hq
      rcases List.mem_cons.mp hq with rfl | hq
      · have : q * Spec.pageBytes + Spec.pageBytes ≤ (f.write (q * Spec.pageBytes) (b.pageBytes q)).size := by
          rw [hsz]; exact Nat.le_max_right _ _
        have e : (q + 1) * Spec.pageBytes = q * Spec.pageBytes + Spec.pageBytes := by rw [hP]; omega
        omega
      · exact i3 q hq
    · intro k
      rw [i4 k]
      by_cases hin : k / Spec.pageBytes ∈ ps
      · simp [hin]
      · rw [if_neg hin, File.byte_write, pageBytes_length]
        by_cases hkp : k / Spec.pageBytes = p
        · have h1 : p * Spec.pageBytes ≤ k ∧ k < p * Spec.pageBytes + Spec.pageBytes := by
            simp only [hP] at hkp ⊢; omega
          have h2 : k - p * Spec.pageBytes < Spec.pageBytes := by
            simp only [hP] at hkp ⊢; omega
          have e : p * Spec.pageBytes + (k - p * Spec.pageBytes) = k := by omega
          rw [if_pos h1, pageBytes_getD b p _ h2, e, if_pos (List.mem_cons.mpr (Or.inl hkp))]
        · have h1 : ¬ (p * Spec.pageBytes ≤ k ∧ k < p * Spec.pageBytes + Spec.pageBytes) := by
            simp only [hP] at hkp ⊢; omega
          have h3 : ¬ (k / Spec.pageBytes ∈ p :: ps) := by
            intro hm; rcases List.mem_cons.mp hm with hm | hm
            · exact hkp hm
            · exact hin hm
          rw [if_neg h1, if_neg h3]

/-- the store after a flush decodes to the bits in memory -/
theorem flush_bits (b : Bitfield) (f : File) (hf : f.size % Spec.pageBytes = 0)
    (hdirty : ∀ i, b.get i ≠ (Bitfield.ofFile f).get i → i / Spec.pageBits ∈ b.dirty) :
    (∀ i, (Bitfield.ofFile (writePages b f b.dirty)).get i = b.get i)
      ∧ (writePages b f b.dirty).size % Spec.pageBytes = 0 := by
  obtain ⟨s1, s2, s3, s4⟩ := writePages_spec b b.dirty f hf
  refine ⟨fun i => ?_, s1⟩
  have hP : Spec.pageBytes = 4096 := rfl
  have hB : Spec.pageBits = 32768 := rfl
  have hpage : i / 8 / Spec.pageBytes = i / Spec.pageBits := by rw [hP, hB]; omega
  have hmod4 : ∀ g : File, g.size % Spec.pageBytes = 0 → g.size - g.size % 4 = g.size := by
    intro g hg; rw [hP] at hg; omega
  rw [ofFile_get, hmod4 _ s1, s4 (i / 8), hpage]
  by_cases hd : i / Spec.pageBits ∈ b.dirty
  · have hsz := s3 _ hd
    have hlt : i < (writePages b f b.dirty).size * 8 := by
      rw [hP, hB] at *; omega
    simp only [hd, ite_true, hlt, decide_true, Bool.true_and]
    have := bitsToByte_bit b.bits (i / 8 * 8) (i % 8) (Nat.mod_lt _ (by decide))
    have e : i / 8 * 8 + i % 8 = i := by omega
    rw [e] at this
    simpa [Bitfield.get] using this
  · have hsame : b.get i = (Bitfield.ofFile f).get i := by
      cases hcmp : decide (b.get i = (Bitfield.ofFile f).get i) with
      | true => exact of_decide_eq_true hcmp
      | false => exact absurd (hdirty i (of_decide_eq_false hcmp)) hd
    simp only [hd, ite_false]
    rw [hsame, ofFile_get, hmod4 f hf]
    by_cases h1 : i < f.size * 8
    · have : i < (writePages b f b.dirty).size * 8 := by omega
      simp [h1, this]
    · have hz : f.byte (i / 8) = 0 := by
        simp only [File.byte]
        exact File.getD_of_le _ _ (by simp only [File.size] at h1; omega)
      simp [h1, hz]

/-- the store after writing any list of pages: those pages hold the bits in memory, the others are
    untouched (the states a crash inside a flush can leave) -/
theorem writePages_bits (b : Bitfield) (f : File) (hf : f.size % Spec.pageBytes = 0) (ps : List Nat) :
    (∀ i, (Bitfield.ofFile (writePages b f ps)).get i = if i / Spec.pageBits ∈ ps then b.get i else (Bitfield.ofFile f).get i)
      ∧ (writePages b f ps).size % Spec.pageBytes = 0 := by
  obtain ⟨s1, s2, s3, s4⟩ := writePages_spec b ps f hf
  refine ⟨fun i => ?_, s1⟩
  have hP : Spec.pageBytes = 4096 := rfl
  have hB : Spec.pageBits = 32768 := rfl
  have hpage : i / 8 / Spec.pageBytes = i / Spec.pageBits := by rw [hP, hB]; omega
  have hmod4 : ∀ g : File, g.size % Spec.pageBytes = 0 → g.size - g.size % 4 = g.size := by
    intro g hg; rw [hP] at hg; omega
  rw [ofFile_get, hmod4 _ s1, s4 (i / 8), hpage]
  by_cases hd : i / Spec.pageBits ∈ ps
  · have hsz := s3 _ hd
    have hlt : i < (writePages b f ps).size * 8 := by
      rw [hP, hB] at *; omega
    simp only [hd, ite_true, hlt, decide_true, Bool.true_and]
    have := bitsToByte_bit b.bits (i / 8 * 8) (i % 8) (Nat.mod_lt _ (by decide))
    have e : i / 8 * 8 + i % 8 = i := by omega
    rw [e] at this
    simpa [Bitfield.get] using this
  · simp only [hd, ite_false]
    rw [ofFile_get, hmod4 f hf]
    by_cases h1 : i < f.size * 8
    · have : i < (writePages b f ps).size * 8 := by omega
      simp [h1, this]
    · have hz : f.byte (i / 8) = 0 := by
        simp only [File.byte]
        exact File.getD_of_le _ _ (by simp only [File.size] at h1; omega)
      simp [h1, hz]

/-- a torn page write (only the first `t` bytes of the page arrive): every bit the store then decodes to is
    the bit it held before or the bit in memory -/
theorem tornPage_bits (b : Bitfield) (g : File) (hg : g.size % Spec.pageBytes = 0) (p t i : Nat) :
    (Bitfield.ofFile (g.write (p * Spec.pageBytes) ((b.pageBytes p).take t))).get i = (Bitfield.ofFile g).get i
      ∨ (Bitfield.ofFile (g.write (p * Spec.pageBytes) ((b.pageBytes p).take t))).get i = b.get i := by
  have hP : Spec.pageBytes = 4096 := rfl
  have hlen : ((b.pageBytes p).take t).length = min t 4096 := by rw [List.length_take, pageBytes_length, hP]
  have hsz : (g.write (p * Spec.pageBytes) ((b.pageBytes p).take t)).size = max g.size (p * Spec.pageBytes + min t 4096) := by
    rw [File.size_write, hlen]
  have hmod4 : g.size - g.size % 4 = g.size := by rw [hP] at hg; omega
  rw [ofFile_get, ofFile_get, hmod4, File.byte_write, hlen, hsz]
  by_cases hin : p * Spec.pageBytes ≤ i / 8 ∧ i / 8 < p * Spec.pageBytes + min t 4096
  · simp only [hin, and_self, ite_true]
    have hj : i / 8 - p * Spec.pageBytes < t := by omega
    have hin' := hin
    rw [hP] at hin'
    have hj2 : i / 8 - p * Spec.pageBytes < Spec.pageBytes := by rw [hP]; omega
    have hbyte : ((b.pageBytes p).take t).getD (i / 8 - p * Spec.pageBytes) 0 = bitsToByte b.bits (i / 8 * 8) := by
      rw [List.getD_eq_getElem?_getD, List.getElem?_take, if_pos hj, ← List.getD_eq_getElem?_getD, pageBytes_getD b p _ hj2]
      congr 2; omega
    rw [hbyte]
    have hbit := bitsToByte_bit b.bits (i / 8 * 8) (i % 8) (Nat.mod_lt _ (by decide))
    have e : i / 8 * 8 + i % 8 = i := by omega
    rw [e] at hbit
    by_cases hlt : i < (max g.size (p * Spec.pageBytes + min t 4096) - max g.size (p * Spec.pageBytes + min t 4096) % 4) * 8
    · right
      simp only [hlt, decide_true, Bool.true_and]
      simpa [Bitfield.get] using hbit
    · left
      have hge : ¬ i < g.size * 8 := by
        intro hcon
        apply hlt
        have h1 : p * Spec.pageBytes < g.size := by omega
        have h2 : p * Spec.pageBytes + 4096 ≤ g.size := by rw [hP] at hg h1 ⊢; omega
        have h3 : max g.size (p * Spec.pageBytes + min t 4096) = g.size := by
          apply Nat.max_eq_left; omega
        rw [h3, hmod4]; exact hcon
      simp [hlt, hge]
  · left
    simp only [hin, ite_false]
    by_cases hk : i / 8 < g.size
    · have h1 : i < g.size * 8 := by omega
      have h2 : i < (max g.size (p * Spec.pageBytes + min t 4096) - max g.size (p * Spec.pageBytes + min t 4096) % 4) * 8 := by
        have := Nat.le_max_left g.size (p * Spec.pageBytes + min t 4096)
        rw [hP] at hg
        omega
      simp [h1, h2]
    · have hz : g.byte (i / 8) = 0 := by
        simp only [File.byte]
        exact File.getD_of_le _ _ (by simp only [File.size] at hk; omega)
      simp [hz]

/-! ### dirty pages -/

theorem rangeDiffers_true (bits : Array Bool) (v : Bool) : ∀ (n start i : Nat), start ≤ i → i < start + n →
    bits.getD i false ≠ v → Bitfield.rangeDiffers bits v start n = true := by
  intro n
  induction n with
  | zero => intro start i h1 h2; omega
  | succ n ih =>
    intro start i h1 h2 hne
    simp only [Bitfield.rangeDiffers, Bool.or_eq_true, bne_iff_ne, ne_eq]
    by_cases hi : i = start
    · subst hi; exact Or.inl hne
    · exact Or.inr (ih (start + 1) i (by omega) (by omega) hne)

theorem setRange_dirty (b : Bitfield) (start len : Nat) (v : Bool) :
    (∀ p ∈ b.dirty, p ∈ (b.setRange start len v).dirty)
      ∧ (∀ i, (b.setRange start len v).get i ≠ b.get i → i / Spec.pageBits ∈ (b.setRange start len v).dirty) := by
  have hdirty : (b.setRange start len v).dirty
      = b.dirty ++ (Bitfield.changedPages b.bits v start len).filter fun p => !b.dirty.contains p := rfl
  refine ⟨fun p hp => by rw [hdirty]; exact List.mem_append.mpr (Or.inl hp), fun i hne => ?_⟩
  rw [Bitfield.get_setRange] at hne
  have hB : Spec.pageBits = 32768 := rfl
  by_cases hin : start ≤ i ∧ i < start + len
  · simp only [hin, and_self, ite_true] at hne
    have hbit : b.bits.getD i false ≠ v := fun e => hne (by simp only [Bitfield.get]; exact e.symm)
    have hlen : len ≠ 0 := by omega
    have hmem : i / Spec.pageBits ∈ Bitfield.changedPages b.bits v start len := by
      simp only [Bitfield.changedPages, hlen, ite_false]
      apply List.mem_filterMap.mpr
      refine ⟨i / Spec.pageBits - start / Spec.pageBits, ?_, ?_⟩
      · apply List.mem_range.mpr
        rw [hB]; omega
      · have hp : start / Spec.pageBits + (i / Spec.pageBits - start / Spec.pageBits) = i / Spec.pageBits := by
          rw [hB]; omega
        rw [hp]
        have hr := rangeDiffers_true b.bits v
          (min (start + len) ((i / Spec.pageBits + 1) * Spec.pageBits) - max start (i / Spec.pageBits * Spec.pageBits))
          (max start (i / Spec.pageBits * Spec.pageBits)) i (by rw [hB]; omega) (by rw [hB]; omega) hbit
        simp only [hr, ite_true]
    rw [hdirty]
    by_cases hc : b.dirty.contains (i / Spec.pageBits) = true
    · exact List.mem_append.mpr (Or.inl (by simpa using hc))
    · exact List.mem_append.mpr (Or.inr (List.mem_filter.mpr ⟨hmem, by simpa using hc⟩))
  · simp only [hin, ite_false] at hne
    exact absurd rfl hne

/-- the dirty invariant survives a range update -/
theorem dirty_setRange (b : Bitfield) (f : File) (start len : Nat) (v : Bool)
    (h : ∀ i, b.get i ≠ (Bitfield.ofFile f).get i → i / Spec.pageBits ∈ b.dirty) :
    ∀ i, (b.setRange start len v).get i ≠ (Bitfield.ofFile f).get i → i / Spec.pageBits ∈ (b.setRange start len v).dirty := by
  obtain ⟨m1, m2⟩ := setRange_dirty b start len v
  intro i hne
  by_cases hsame : (b.setRange start len v).get i = b.get i
  · exact m1 _ (h i (by rw [← hsame]; exact hne))
  · exact m2 i hsame


end HC.BitfieldPages
