import HC.Proofs.Codec
import HC.Model.Oplog
/-! Round trips for the oplog's header and entry encodings and for the checksummed leader. -/
namespace HC.Oplog
open HC.Codec

/-! ### strings (arrays of buffers) -/
def StringsWF (l : List Bytes) : Prop := U64 l.length ∧ ∀ b ∈ l, U64 b.length

theorem decStrings_enc (l : List Bytes) (h : StringsWF l) (rest : Bytes) :
    decStrings (encStrings l ++ rest) = some (l, rest) :=
  decArr_encArr encBuf decBuf l h.1 (fun b hb r => decBuf_encBuf b (h.2 b hb) r) rest

/-! ### header tree -/
def HeaderTree.WF (t : HeaderTree) : Prop :=
  U64 t.fork ∧ U64 t.length ∧ U64 t.rootHash.length ∧ U64 t.signature.length

theorem decHeaderTree_enc (t : HeaderTree) (h : t.WF) (rest : Bytes) :
    decHeaderTree (encHeaderTree t ++ rest) = some (t, rest) := by
  obtain ⟨h1, h2, h3, h4⟩ := h
  simp [decHeaderTree, encHeaderTree, List.append_assoc, decUint_encUint _ h1, decUint_encUint _ h2,
    decBuf_encBuf _ h3, decBuf_encBuf _ h4]

/-! ### key pair -/
theorem decKeyPair_enc (pk : Bytes) (sk : Option Bytes) (hpk : pk.length = 32)
    (hsk : ∀ s, sk = some s → s.length = 32) (rest : Bytes) :
    decKeyPair (encKeyPair pk sk ++ rest) = some ((pk, sk), rest) := by
  have e32 : ∀ r, decUint (encUint 32 ++ r) = some (32, r) := fun r => decUint_encUint 32 (by decide) r
  cases sk with
  | none =>
    have e0 : ∀ r, decUint ((0 : UInt8) :: r) = some (0, r) := by intro r; simp [decUint]
    simp [encKeyPair, encBuf, List.append_assoc, decKeyPair, e32, hpk,
      takeN_append _ _ _ hpk, e0]
  | some s =>
    have hs := hsk s rfl
    have hl : (s ++ pk).length = 64 := by simp [hs, hpk]
    have h64 : U64 (s ++ pk).length := by rw [hl]; decide
    have e1 : ∀ r, decUint (encUint 64 ++ r) = some (64, r) := fun r => decUint_encUint 64 (by decide) r
    have e2 : ∀ r, takeN 64 (s ++ (pk ++ r)) = some (s ++ pk, r) := by
      intro r; rw [← List.append_assoc]; exact takeN_append _ _ _ hl
    simp [encKeyPair, encBuf, List.append_assoc, decKeyPair, e32, hpk, hs,
      takeN_append _ _ _ hpk, e1, e2]

/-! ### manifest -/
theorem decManifest_enc (ns pk : Bytes) (hns : ns.length = 32) (hpk : pk.length = 32) (rest : Bytes) :
    decManifest (encManifest ns pk ++ rest) = .ok ((ns, pk), rest) := by
  simp [decManifest, encManifest, List.append_assoc, takeN_append _ _ _ hns, takeN_append _ _ _ hpk]

/-! ### header -/
structure Header.WF (h : Header) : Prop where
  key : h.key.length = 32
  ns : h.manifestNamespace.length = 32
  mkey : h.manifestKey.length = 32
  pk : h.publicKey.length = 32
  sk : ∀ s, h.secret = some s → s.length = 32
  ud : StringsWF h.userData
  tree : h.tree.WF
  reorgs : StringsWF h.reorgs
  contig : U64 h.contiguous

theorem decHeader_enc (h : Header) (wf : h.WF) (rest : Bytes) :
    decHeader (encHeader h ++ rest) = .ok (h, rest) := by
  have hv : versionFlags.length = 2 := by decide
  simp only [encHeader, List.append_assoc, decHeader]
  rw [takeN_append _ _ _ hv]
  simp only []
  rw [takeN_append _ _ _ wf.key]
  simp only []
  rw [decManifest_enc _ _ wf.ns wf.mkey]
  simp only []
  rw [decKeyPair_enc _ _ wf.pk wf.sk]
  simp only []
  rw [decStrings_enc _ wf.ud]
  simp only []
  rw [decHeaderTree_enc _ wf.tree]
  simp only []
  rw [decStrings_enc _ wf.reorgs]
  simp only []
  rw [decUint_encUint _ wf.contig]

/-! ### entries -/
def TreeUpgrade.WF (u : TreeUpgrade) : Prop :=
  U64 u.fork ∧ U64 u.ancestors ∧ U64 u.length ∧ U64 u.signature.length

theorem decTreeUpgrade_enc (u : TreeUpgrade) (h : u.WF) (rest : Bytes) :
    decTreeUpgrade (encTreeUpgrade u ++ rest) = some (u, rest) := by
  obtain ⟨h1, h2, h3, h4⟩ := h
  simp [decTreeUpgrade, encTreeUpgrade, List.append_assoc, decUint_encUint _ h1, decUint_encUint _ h2,
    decUint_encUint _ h3, decBuf_encBuf _ h4]

def BitfieldUpdate.WF (b : BitfieldUpdate) : Prop := U64 b.start ∧ U64 b.length

theorem decBitfieldUpdate_enc (b : BitfieldUpdate) (h : b.WF) (rest : Bytes) :
    decBitfieldUpdate (encBitfieldUpdate b ++ rest) = some (b, rest) := by
  obtain ⟨h1, h2⟩ := h
  cases hd : b.drop <;>
    simp [decBitfieldUpdate, encBitfieldUpdate, List.append_assoc, decUint_encUint _ h1, decUint_encUint _ h2, hd] <;>
    (cases b; simp_all)

structure Entry.WF (e : Entry) : Prop where
  ud : StringsWF e.userData
  nodes : NodesWF e.treeNodes
  up : ∀ u, e.treeUpgrade = some u → u.WF
  bf : ∀ b, e.bitfield = some b → b.WF

theorem decEntry_enc (e : Entry) (wf : e.WF) (rest : Bytes) :
    decEntry (encEntry e ++ rest) = some (e, rest) := by
  obtain ⟨ud, nodes, up, bf⟩ := e
  have hud : ∀ r, decStrings (encStrings ud ++ r) = some (ud, r) := decStrings_enc ud wf.ud
  have hn : ∀ r, decNodes (encNodes nodes ++ r) = some (nodes, r) := decNodes_encNodes nodes wf.nodes
  have hup : ∀ u, up = some u → ∀ r, decTreeUpgrade (encTreeUpgrade u ++ r) = some (u, r) :=
    fun u hu r => decTreeUpgrade_enc u (wf.up u hu) r
  have hbf : ∀ b, bf = some b → ∀ r, decBitfieldUpdate (encBitfieldUpdate b ++ r) = some (b, r) :=
    fun b hb r => decBitfieldUpdate_enc b (wf.bf b hb) r
  rcases ud with _ | ⟨u0, us⟩ <;> rcases nodes with _ | ⟨n0, ns⟩ <;> rcases up with _ | u <;> rcases bf with _ | b <;>
    simp [encEntry, decEntry, entryFlagsOf, hasFlag, flagUserData, flagTreeNodes, flagTreeUpgrade, flagBitfield,
      Spec.entryFlags, List.append_assoc, hud, hn, hup, hbf]

end HC.Oplog
