import HC.Proofs.Journal
/-! Files as byte lists: what `write` / `truncate` do to `File.toList`. -/
namespace HC.File

theorem toList_length (f : File) : f.toList.length = f.size := by simp [toList, size]

theorem toList_getD (f : File) (i : Nat) : f.toList.getD i 0 = f.byte i := by
  simp [toList, byte, Array.getD_eq_getD_getElem?, List.getD_eq_getElem?_getD]

theorem ext_bytes (l l' : Bytes) (hl : l.length = l'.length) (h : ∀ i, l.getD i 0 = l'.getD i 0) : l = l' := by
  apply List.ext_getElem hl
  intro i h1 h2
  have := h i
  simp only [List.getD_eq_getElem?_getD, List.getElem?_eq_getElem h1, List.getElem?_eq_getElem h2, Option.getD_some] at this
  exact this

theorem getD_append_left (a b : Bytes) (i : Nat) (h : i < a.length) : (a ++ b).getD i 0 = a.getD i 0 := by
  simp [List.getD_eq_getElem?_getD, List.getElem?_append_left h]

theorem getD_append_right (a b : Bytes) (i : Nat) (h : a.length ≤ i) : (a ++ b).getD i 0 = b.getD (i - a.length) 0 := by
  simp [List.getD_eq_getElem?_getD, List.getElem?_append_right h]

theorem getD_take (a : Bytes) (n i : Nat) (h : i < n) : (a.take n).getD i 0 = a.getD i 0 := by
  simp [List.getD_eq_getElem?_getD, List.getElem?_take, h]

theorem getD_drop (a : Bytes) (n i : Nat) : (a.drop n).getD i 0 = a.getD (n + i) 0 := by
  simp [List.getD_eq_getElem?_getD, List.getElem?_drop]

theorem getD_ge (a : Bytes) (i : Nat) (h : a.length ≤ i) : a.getD i 0 = 0 := by
  simp [List.getD_eq_getElem?_getD, List.getElem?_eq_none h]

/-- a write that starts inside (or at the end of) the file -/
theorem toList_write (f : File) (off : Nat) (bs : Bytes) (h : off ≤ f.size) :
    (f.write off bs).toList = f.toList.take off ++ bs ++ f.toList.drop (off + bs.length) := by
  apply ext_bytes
  · rw [toList_length, size_write]
    simp only [List.length_append, List.length_take, List.length_drop, toList_length]
    omega
  · intro i
    rw [toList_getD, byte_write]
    have hl1 : (f.toList.take off).length = off := by rw [List.length_take, toList_length]; omega
    by_cases h1 : i < off
    · have : ¬ (off ≤ i ∧ i < off + bs.length) := by omega
      simp only [this, ite_false]
      rw [List.append_assoc, getD_append_left _ _ i (by omega), getD_take _ _ _ h1, toList_getD]
    · by_cases h2 : i < off + bs.length
      · have : off ≤ i ∧ i < off + bs.length := by omega
        simp only [this, and_self, ite_true]
        rw [getD_append_left _ _ i (by simp [hl1]; omega), getD_append_right _ _ i (by omega), hl1]
      · have : ¬ (off ≤ i ∧ i < off + bs.length) := by omega
        simp only [this, ite_false]
        rw [getD_append_right _ _ i (by simp [hl1]; omega), getD_drop, toList_getD]
        simp only [List.length_append, hl1]
        congr 1; omega

theorem toList_truncate_le (f : File) (n : Nat) (h : n ≤ f.size) : (f.truncate n).toList = f.toList.take n := by
  apply ext_bytes
  · rw [toList_length, size_truncate, List.length_take, toList_length]; omega
  · intro i
    rw [toList_getD, byte_truncate]
    by_cases hi : i < n
    · simp only [hi, ite_true]; rw [getD_take _ _ _ hi, toList_getD]
    · simp only [hi, ite_false]
      exact (getD_ge _ _ (by rw [List.length_take, toList_length]; omega)).symm

theorem toList_truncate_ge (f : File) (n : Nat) (h : f.size ≤ n) :
    (f.truncate n).toList = f.toList ++ List.replicate (n - f.size) 0 := by
  apply ext_bytes
  · rw [toList_length, size_truncate]; simp [toList_length]; omega
  · intro i
    rw [toList_getD, byte_truncate]
    by_cases hi : i < f.size
    · have : i < n := by omega
      simp only [this, ite_true]
      rw [getD_append_left _ _ i (by rw [toList_length]; exact hi), toList_getD]
    · rw [getD_append_right _ _ i (by rw [toList_length]; omega)]
      have hz : f.byte i = 0 := by simp only [byte]; exact getD_of_le _ _ (by simp only [size] at hi; omega)
      by_cases hin : i < n
      · simp only [hin, ite_true, hz, List.getD_eq_getElem?_getD, List.getElem?_replicate]
        split <;> rfl
      · simp only [hin, ite_false]
        exact (getD_ge _ _ (by simp [toList_length]; omega)).symm

end HC.File
