import HC.Proofs.Sound
import HC.Proofs.LiveRefine
/-!
Completeness of block proofs (C03): the honest answer to a block request — the block's bytes and the
reference siblings along the path, as many levels as the replica asked for — passes `verify_proof` on
every replica that stores the reference node at the top of that path.  And the writer's
`create_valueless_proof` produces exactly that answer.
-/
namespace HC.Complete
open HC HC.Codec HC.Flat HC.Tree HC.RefTree HC.RefProof HC.Sound HC.Offsets HC.TreeStore

/-- the reference siblings along the path from (d, o) upwards, `k` levels -/
def sibPath (C : Crypto) (bs : Array Bytes) : Nat → Nat → Nat → List Node
  | _, _, 0 => []
  | d, o, k+1 => nodeAt C bs d (sib o) :: sibPath C bs (d + 1) (o / 2) k

theorem sibPath_length (C : Crypto) (bs : Array Bytes) (d o k : Nat) : (sibPath C bs d o k).length = k := by
  induction k generalizing d o with
  | zero => rfl
  | succ k ih => simp [sibPath, ih]

/-- hashing a reference node with its reference sibling gives the reference parent -/
theorem parentNode_ref (C : Crypto) (bs : Array Bytes) (d o : Nat) :
    parentNode C (Flat.index (d + 1) (o / 2)) (nodeAt C bs d o) (nodeAt C bs d (sib o)) = nodeAt C bs (d + 1) (o / 2) := by
  have hr := ref_parent C bs d o
  by_cases he : o % 2 = 0
  · have hlt : Flat.index d o ≤ Flat.index d (sib o) := by
      unfold sib; simp only [he, ite_true]
      exact Nat.le_of_lt (index_lt_of_offset_lt d o (o + 1) (by omega))
    simp only [he, ite_true] at hr
    simp only [parentNode, parentHash, nodeAt, hlt, ite_true, hr]
  · have hgt : ¬ Flat.index d o ≤ Flat.index d (sib o) := by
      unfold sib; simp only [he, ite_false]
      have := index_lt_of_offset_lt d (o - 1) o (by omega)
      omega
    simp only [he, ite_false] at hr
    simp only [parentNode, parentHash, nodeAt, hgt, ite_false, hr]
    simp only [Node.mk.injEq, true_and]
    exact ⟨Nat.add_comm _ _, by rw [Nat.add_comm]⟩

theorem sib_bound (o j : Nat) : (sib o + 1) * 2 ^ j ≤ (o / 2 + 1) * 2 ^ (j + 1) := by
  rw [pow_succ2]
  have h : sib o + 1 ≤ 2 * (o / 2 + 1) := by unfold sib; split <;> omega
  calc (sib o + 1) * 2 ^ j ≤ (2 * (o / 2 + 1)) * 2 ^ j := Nat.mul_le_mul_right _ h
    _ = (o / 2 + 1) * (2 * 2 ^ j) := by ring

/-- the span of a node lies inside the span of each of its ancestors -/
theorem span_le (o d : Nat) : ∀ k, (o + 1) * 2 ^ d ≤ (o / 2 ^ k + 1) * 2 ^ (d + k) := by
  intro k
  induction k generalizing o d with
  | zero => simp
  | succ k ih =>
    have h1 : (o + 1) * 2 ^ d ≤ (o / 2 + 1) * 2 ^ (d + 1) := by
      rw [Nat.pow_succ]
      have : o + 1 ≤ (o / 2 + 1) * 2 := by omega
      calc (o + 1) * 2 ^ d ≤ ((o / 2 + 1) * 2) * 2 ^ d := Nat.mul_le_mul_right _ this
        _ = (o / 2 + 1) * (2 ^ d * 2) := by ring
    have h2 := ih (o / 2) (d + 1)
    have e1 : o / 2 / 2 ^ k = o / 2 ^ (k + 1) := by rw [Nat.div_div_eq_div_mul, Nat.pow_succ, Nat.mul_comm]
    have e2 : d + 1 + k = d + (k + 1) := by omega
    rw [e1, e2] at h2
    exact Nat.le_trans h1 h2

/-- the climb of `verify_tree` over the honest sibling path reaches the reference ancestor; every node it
    records is a reference node inside that ancestor's span -/
theorem climb_complete (C : Crypto) (bs : Array Bytes) : ∀ (k fuel d o : Nat) (rn : List Node), k < fuel →
    ∃ rn', climb C fuel (plainQueue (sibPath C bs d o k)) (iat d o) (nodeAt C bs d o) rn
        = .ok (nodeAt C bs (d + k) (o / 2 ^ k), rn')
      ∧ (∀ n ∈ rn', n ∈ rn ∨ ∃ dn on, n = nodeAt C bs dn on ∧ (on + 1) * 2 ^ dn ≤ (o / 2 ^ k + 1) * 2 ^ (d + k)) := by
  intro k
  induction k with
  | zero =>
    intro fuel d o rn hf
    obtain ⟨fuel, rfl⟩ : ∃ f, fuel = f + 1 := ⟨fuel - 1, by omega⟩
    refine ⟨rn, ?_, fun n hn => Or.inl hn⟩
    simp [climb, sibPath, plainQueue]
  | succ k ih =>
    intro fuel d o rn hf
    obtain ⟨fuel, rfl⟩ : ∃ f, fuel = f + 1 := ⟨fuel - 1, by omega⟩
    have hlen : ¬ (plainQueue (nodeAt C bs d (sib o) :: sibPath C bs (d + 1) (o / 2) k)).length = 0 := by simp [plainQueue]
    have hs := shift_plain (nodeAt C bs d (sib o)) (sibPath C bs (d + 1) (o / 2) k) (iat d (sib o)).index rfl
    simp only [climb, sibPath, hlen, ite_false, iat_sibling, hs]
    rw [iat_parent, sib_half]
    have hpar : parentNode C (iat (d + 1) (o / 2)).index (nodeAt C bs d o) (nodeAt C bs d (sib o)) = nodeAt C bs (d + 1) (o / 2) :=
      parentNode_ref C bs d o
    rw [hpar]
    obtain ⟨rn', h1, h2⟩ := ih fuel (d + 1) (o / 2) (nodeAt C bs (d + 1) (o / 2) :: nodeAt C bs d (sib o) :: rn) (by omega)
    have e1 : d + 1 + k = d + (k + 1) := by omega
    have e2 : o / 2 / 2 ^ k = o / 2 ^ (k + 1) := by
      rw [Nat.div_div_eq_div_mul, Nat.pow_succ, Nat.mul_comm]
    rw [e1, e2] at h1
    rw [e1, e2] at h2
    refine ⟨rn', h1, fun n hn => ?_⟩
    have hsp := span_le (o / 2) (d + 1) k
    rw [e1, e2] at hsp
    rcases h2 n hn with h | h
    · simp only [List.mem_cons] at h
      rcases h with rfl | rfl | h
      · exact Or.inr ⟨_, _, rfl, hsp⟩
      · exact Or.inr ⟨_, _, rfl, Nat.le_trans (sib_bound o d) hsp⟩
      · exact Or.inl h
    · exact Or.inr h

/-- **C03, block proofs are accepted.**  On any replica that stores the reference node `k` levels above
    leaf `i`, the honest block proof (the block's bytes, `k` reference siblings, no seek, no upgrade)
    passes `verify_proof`; the resulting changeset is not an upgrade and all its new nodes are reference
    nodes. -/
theorem block_proof_complete (C : Crypto) (bs : Array Bytes) (t : Tree) (f : File) (pk : Bytes) (i k fork : Nat)
    (hstored : t.node? f (Flat.index k (i / 2 ^ k)) = some (nodeAt C bs k (i / 2 ^ k))) :
    ∃ cs, t.verifyProof C f ⟨fork, some ⟨i, bs.getD i [], sibPath C bs 0 i k⟩, none, none, none⟩ pk = .ok cs
      ∧ cs.upgraded = t.changeset.upgraded ∧ cs.length = t.length
      ∧ (∀ n ∈ cs.rnodes, ∃ dn on, n = nodeAt C bs dn on ∧ (on + 1) * 2 ^ dn ≤ (i / 2 ^ k + 1) * 2 ^ k)
      ∧ cs.origLength = t.length ∧ cs.origFork = t.fork := by
  have hnew : Iter.new (i * 2) = iat 0 i := by rw [Nat.mul_comm]; exact new_even i
  have hleaf : blockNode C (iat 0 i).index (bs.getD i []) = nodeAt C bs 0 i := by
    simp [blockNode, nodeAt, RefTree.node, iat]
  obtain ⟨rn', hc, hall⟩ := climb_complete C bs k ((plainQueue (sibPath C bs 0 i k)).length + 1) 0 i
    (nodeAt C bs 0 i :: t.changeset.rnodes) (by simp [plainQueue, sibPath_length])
  simp only [Nat.zero_add] at hc
  have hreq : t.requiredNode f (nodeAt C bs k (i / 2 ^ k)).index = .ok (nodeAt C bs k (i / 2 ^ k)) := by
    simp [Tree.requiredNode, nodeAt_index, hstored]
  refine ⟨{ t.changeset with rnodes := rn' }, ?_, rfl, rfl, ?_, rfl, rfl⟩
  · unfold verifyProof
    simp only [verifyTree, untrustedOf, noSeekOf, Option.isNone_some, Bool.false_and, Bool.false_eq_true,
      ite_false, seekHalf, andThen, mainHalf, hnew, plainQueue_eq, hleaf, hc, hreq]
    simp
  · intro n hn
    rcases hall n hn with h | h
    · simp only [List.mem_cons] at h
      rcases h with rfl | h
      · exact ⟨_, _, rfl, by have := span_le i 0 k; simpa using this⟩
      · simp [Tree.changeset] at h
    · simpa using h

/-! ### the writer's side: `create_valueless_proof` for a block request -/

theorem iat_contains (d o i : Nat) :
    (iat d o).contains i = (decide (o * 2 ^ (d + 1) ≤ i) && decide (i + 2 ≤ (o + 1) * 2 ^ (d + 1))) := by
  have hp := pow_pos' d
  have e1 : o * 2 ^ (d + 1) = 2 * (o * 2 ^ d) := by rw [pow_succ2]; ring
  have e2 : (o + 1) * 2 ^ (d + 1) = 2 * (o * 2 ^ d) + 2 * 2 ^ d := by rw [pow_succ2]; ring
  have hidx : (iat d o).index = 2 * (o * 2 ^ d) + (2 ^ d - 1) := by
    simp only [iat, index_eq]; ring_nf
  have hfac : (iat d o).factor / 2 = 2 ^ d := by simp only [iat, pow_succ2]; omega
  rw [e1, e2]
  generalize o * 2 ^ d = X at *
  generalize 2 ^ d = P at *
  unfold Iter.contains
  rw [hidx, hfac]
  by_cases h1 : i > 2 * X + (P - 1)
  · simp only [h1, ite_true]
    by_cases h2 : i < 2 * X + (P - 1) + P
    · have : 2 * X ≤ i ∧ i + 2 ≤ 2 * X + 2 * P := by omega
      simp [h2, this.1, this.2]
    · have : ¬ (i + 2 ≤ 2 * X + 2 * P) := by omega
      simp [h2, this]
  · simp only [h1, ite_false]
    by_cases h3 : i < 2 * X + (P - 1)
    · simp only [h3, ite_true]
      by_cases h4 : 2 * X + (P - 1) < P
      · have : 2 * X ≤ i ∧ i + 2 ≤ 2 * X + 2 * P := by omega
        simp [h4, this.1, this.2]
      · by_cases h5 : i > 2 * X + (P - 1) - P
        · have : 2 * X ≤ i ∧ i + 2 ≤ 2 * X + 2 * P := by omega
          simp [h4, h5, this.1, this.2]
        · have : ¬ (2 * X ≤ i) := by omega
          simp [h4, h5, this]
    · have : 2 * X ≤ i ∧ i + 2 ≤ 2 * X + 2 * P := by omega
      simp [h3, this.1, this.2]

theorem anc_step (i j : Nat) : (i / 2 ^ j + 1) * 2 ^ j ≤ (i / 2 ^ (j + 1) + 1) * 2 ^ (j + 1) := by
  have e : i / 2 ^ (j + 1) = i / 2 ^ j / 2 := by rw [Nat.pow_succ, Nat.div_div_eq_div_mul]
  rw [e, pow_succ2]
  generalize i / 2 ^ j = a
  have h : a + 1 ≤ 2 * (a / 2 + 1) := by omega
  calc (a + 1) * 2 ^ j ≤ (2 * (a / 2 + 1)) * 2 ^ j := Nat.mul_le_mul_right _ h
    _ = (a / 2 + 1) * (2 * 2 ^ j) := by ring

theorem anc_le (i : Nat) : ∀ (m j : Nat), (i / 2 ^ j + 1) * 2 ^ j ≤ (i / 2 ^ (j + m) + 1) * 2 ^ (j + m) := by
  intro m
  induction m with
  | zero => intro j; exact Nat.le_refl _
  | succ m ih => intro j; exact Nat.le_trans (ih j) (anc_step i (j + m))

theorem div_pow_succ (o k : Nat) : o / 2 / 2 ^ k = o / 2 ^ (k + 1) := by
  rw [Nat.div_div_eq_div_mul, Nat.pow_succ, Nat.mul_comm]

/-- `nodes_to_root`: climbing `k` levels inside the tree -/
theorem nodesToRoot_go (n : Nat) : ∀ (k fuel j o : Nat), k ≤ fuel → (o / 2 ^ k + 1) * 2 ^ (j + k) ≤ n →
    nodesToRoot.go (2 * n) fuel k (iat j o) = .ok (Flat.index (j + k) (o / 2 ^ k)) := by
  intro k
  induction k with
  | zero => intro fuel j o _ _; cases fuel <;> simp [nodesToRoot.go, iat]
  | succ k ih =>
    intro fuel j o hf hb
    obtain ⟨fuel, rfl⟩ : ∃ f, fuel = f + 1 := ⟨fuel - 1, by omega⟩
    have hb' : (o / 2 / 2 ^ k + 1) * 2 ^ (j + 1 + k) ≤ n := by
      rw [div_pow_succ]; have : j + 1 + k = j + (k + 1) := by omega
      rw [this]; exact hb
    have hanc := anc_le (o / 2) k 0
    simp only [Nat.pow_zero, Nat.div_one, Nat.mul_one, Nat.zero_add] at hanc
    have hp1 : (o / 2 + 1) * 2 ^ (j + 1) ≤ n := by
      have h1 : (o / 2 + 1) * 2 ^ (j + 1) ≤ ((o / 2 / 2 ^ k + 1) * 2 ^ k) * 2 ^ (j + 1) := Nat.mul_le_mul_right _ hanc
      have h2 : ((o / 2 / 2 ^ k + 1) * 2 ^ k) * 2 ^ (j + 1) = (o / 2 / 2 ^ k + 1) * 2 ^ (j + 1 + k) := by
        rw [Nat.pow_add (2) (j + 1) k]; ring
      omega
    have hnc : (iat (j + 1) (o / 2)).contains (2 * n) = false := by
      rw [iat_contains]
      have : ¬ (2 * n + 2 ≤ (o / 2 + 1) * 2 ^ (j + 1 + 1)) := by
        rw [pow_succ2 (j + 1)]
        have : (o / 2 + 1) * (2 * 2 ^ (j + 1)) = 2 * ((o / 2 + 1) * 2 ^ (j + 1)) := by ring
        omega
      simp [this]
    simp only [nodesToRoot.go, iat_parent, hnc, Bool.false_eq_true, ite_false]
    rw [ih fuel (j + 1) (o / 2) (by omega) hb', div_pow_succ]
    have : j + 1 + k = j + (k + 1) := by omega
    rw [this]

/-- the sibling-collecting climb of `block_and_seek_proof` (no seek) -/
theorem blockProof_go (C : Crypto) (bs : Array Bytes) (t : Tree) (f : File) (hN : NodesOK C bs t f) (seekRoot : Nat)
    (p : LocalProof) : ∀ (k fuel j o : Nat) (acc : List Node), k < fuel → (o / 2 ^ k + 1) * 2 ^ (j + k) ≤ bs.size →
      blockAndSeekProof.go t f false seekRoot (Flat.index (j + k) (o / 2 ^ k)) fuel (iat j o) acc p
        = .ok (acc ++ sibPath C bs j o k, p) := by
  intro k
  induction k with
  | zero =>
    intro fuel j o acc hf _
    obtain ⟨fuel, rfl⟩ : ∃ f, fuel = f + 1 := ⟨fuel - 1, by omega⟩
    simp [blockAndSeekProof.go, iat, sibPath]
  | succ k ih =>
    intro fuel j o acc hf hb
    obtain ⟨fuel, rfl⟩ : ∃ f, fuel = f + 1 := ⟨fuel - 1, by omega⟩
    have hne : ¬ ((iat j o).index = Flat.index (j + (k + 1)) (o / 2 ^ (k + 1))) := by
      intro e
      have := (index_inj j o _ _ e).1
      omega
    have hb' : (o / 2 / 2 ^ k + 1) * 2 ^ (j + 1 + k) ≤ bs.size := by
      rw [div_pow_succ]; have : j + 1 + k = j + (k + 1) := by omega
      rw [this]; exact hb
    have hanc := anc_le (o / 2) k 0
    simp only [Nat.pow_zero, Nat.div_one, Nat.mul_one, Nat.zero_add] at hanc
    have hp1 : (o / 2 + 1) * 2 ^ (j + 1) ≤ bs.size := by
      have h1 : (o / 2 + 1) * 2 ^ (j + 1) ≤ ((o / 2 / 2 ^ k + 1) * 2 ^ k) * 2 ^ (j + 1) := Nat.mul_le_mul_right _ hanc
      have h2 : ((o / 2 / 2 ^ k + 1) * 2 ^ k) * 2 ^ (j + 1) = (o / 2 / 2 ^ k + 1) * 2 ^ (j + 1 + k) := by
        rw [Nat.pow_add (2) (j + 1) k]; ring
      omega
    have hsib : t.requiredNode f (iat j (sib o)).index = .ok (nodeAt C bs j (sib o)) := by
      have := hN j (sib o) (Nat.le_trans (sib_bound o j) hp1)
      simp [Tree.requiredNode, iat, this]
    simp only [blockAndSeekProof.go, hne, ite_false, iat_sibling, Bool.false_and, Bool.false_eq_true, hsib, iat_parent,
      sib_half]
    have e1 : j + (k + 1) = j + 1 + k := by omega
    rw [e1, ← div_pow_succ, ih fuel (j + 1) (o / 2) _ (by omega) hb']
    simp [sibPath, List.append_assoc]

/-- **C03, the writer's answer.**  For a block `i` below the length and a node count `k` such that the
    ancestor `k` levels up is a full node of the tree, `create_valueless_proof` returns the reference
    siblings along the path — exactly the proof `block_proof_complete` is about. -/
theorem create_block_proof (C : Crypto) (bs : Array Bytes) (t : Tree) (f : File) (hT : RootsOK C bs t.changeset)
    (hN : NodesOK C bs t f) (hs : bs.size < 2 ^ 64) (i k : Nat) (hi : i < bs.size)
    (hk : (i / 2 ^ k + 1) * 2 ^ k ≤ bs.size) :
    t.createValuelessProof f (some ⟨i, k⟩) none none none
      = .ok ⟨t.fork, some ⟨i, sibPath C bs 0 i k⟩, none, none, none⟩ := by
  have hlen : t.length = bs.size := hT.length
  have hk64 : k < 64 := by
    have h1 : 2 ^ k ≤ (i / 2 ^ k + 1) * 2 ^ k := Nat.le_mul_of_pos_left _ (Nat.succ_pos _)
    have h2 : 2 ^ k < 2 ^ 64 := Nat.lt_of_le_of_lt (Nat.le_trans h1 hk) hs
    exact (Nat.pow_lt_pow_iff_right (by decide)).mp h2
  have hnew : Iter.new (i * 2) = iat 0 i := by rw [Nat.mul_comm]; exact new_even i
  have hroot := nodesToRoot_go bs.size k 80 0 i (by omega) (by simpa using hk)
  simp only [Nat.zero_add] at hroot
  have hnewroot : Iter.new (Flat.index k (i / 2 ^ k)) = iat k (i / 2 ^ k) := new_index k _ (by omega)
  have hcont : (iat k (i / 2 ^ k)).contains (i * 2) = true := by
    rw [iat_contains]
    have h1 : i / 2 ^ k * 2 ^ k ≤ i := Nat.div_mul_le_self i (2 ^ k)
    have h2 : i < (i / 2 ^ k + 1) * 2 ^ k := by
      have := Nat.lt_succ_iff.mpr (Nat.le_refl (i / 2 ^ k))
      exact (Nat.div_lt_iff_lt_mul (pow_pos' k)).mp this
    have e1 : i / 2 ^ k * 2 ^ (k + 1) = 2 * (i / 2 ^ k * 2 ^ k) := by rw [pow_succ2]; ring
    have e2 : (i / 2 ^ k + 1) * 2 ^ (k + 1) = 2 * ((i / 2 ^ k + 1) * 2 ^ k) := by rw [pow_succ2]; ring
    rw [e1, e2]
    have : 2 * (i / 2 ^ k * 2 ^ k) ≤ i * 2 ∧ i * 2 + 2 ≤ 2 * ((i / 2 ^ k + 1) * 2 ^ k) := by omega
    simp [this.1, this.2]
  have hgo := blockProof_go C bs t f hN (2 * t.length) {} k 80 0 i [] (by omega) (by simpa using hk)
  simp only [Nat.zero_add, List.nil_append] at hgo
  have hpos : 0 < t.length := by rw [hlen]; omega
  have h0 : ¬ (0 ≥ 2 * t.length ∨ 2 * t.length > 2 * t.length) := by omega
  have hntr : nodesToRoot (i * 2) k (2 * t.length) = .ok (Flat.index k (i / 2 ^ k)) := by
    simp only [nodesToRoot, hnew, hlen, hroot]
  have hbsp : t.blockAndSeekProof f (some ⟨true, i * 2, k, i⟩) false (2 * t.length) (Flat.index k (i / 2 ^ k)) {}
      = .ok { nodes := some (sibPath C bs 0 i k) } := by
    simp only [Tree.blockAndSeekProof, hnewroot, hcont, Bool.not_true, Bool.false_eq_true, ite_false, hnew, hgo]
  unfold Tree.createValuelessProof
  simp only [h0, ite_false, Option.isSome_none, Bool.false_and, Bool.false_eq_true, ite_true, hntr, hbsp, Bool.not_true]

/-! ### the replica's side: how many nodes it asks for -/

/-- a sparse replica of the log `bs`, upgraded to length `m`: what it stores are reference nodes inside
    the first `m` blocks, and it stores its roots -/
structure Sparse (C : Crypto) (bs : Array Bytes) (m : Nat) (t : Tree) (f : File) : Prop where
  length : t.length = m
  sound : ∀ i n, t.node? f i = some n → ∃ d o, i = Flat.index d o ∧ n = nodeAt C bs d o ∧ (o + 1) * 2 ^ d ≤ m
  roots : ∀ p ∈ rootsStack m, t.node? f (Flat.index p.1 p.2) = some (nodeAt C bs p.1 p.2)

theorem cover_find {l : List (Nat × Nat)} {a b : Nat} (h : Cover l a b) (i : Nat) (h1 : a ≤ i) (h2 : i < b) :
    ∃ p ∈ l, p.2 * 2 ^ p.1 ≤ i ∧ i < (p.2 + 1) * 2 ^ p.1 := by
  induction h with
  | nil a => omega
  | cons d o a b rest ha _ ih =>
    by_cases hlt : i < (o + 1) * 2 ^ d
    · exact ⟨(d, o), by simp, by simp only; omega, hlt⟩
    · obtain ⟨p, hp, hp1, hp2⟩ := ih (by omega) h2
      exact ⟨p, by simp [hp], hp1, hp2⟩

theorem div_eq_of_span (i d o : Nat) (h1 : o * 2 ^ d ≤ i) (h2 : i < (o + 1) * 2 ^ d) : i / 2 ^ d = o := by
  have hp := pow_pos' d
  apply Nat.le_antisymm
  · exact Nat.lt_succ_iff.mp ((Nat.div_lt_iff_lt_mul hp).mpr h2)
  · exact (Nat.le_div_iff_mul_le hp).mpr h1

/-- the climb of `missing_nodes`: from level `j` it stops at the first stored ancestor, at the latest
    at the root `(dr, or)` above leaf `i` -/
theorem missingNodes_go (C : Crypto) (bs : Array Bytes) (m : Nat) (t : Tree) (f : File) (hS : Sparse C bs m t f)
    (i dr : Nat) (hroot : t.node? f (Flat.index dr (i / 2 ^ dr)) = some (nodeAt C bs dr (i / 2 ^ dr)))
    (hin : (i / 2 ^ dr + 1) * 2 ^ dr ≤ m) :
    ∀ (gap j fuel c : Nat), j + gap = dr → gap < fuel →
      ∃ k, missingNodes.go t f (2 * m) fuel (iat j (i / 2 ^ j)) c = c + k ∧ j + k ≤ dr
        ∧ t.node? f (Flat.index (j + k) (i / 2 ^ (j + k))) = some (nodeAt C bs (j + k) (i / 2 ^ (j + k))) := by
  intro gap
  induction gap with
  | zero =>
    intro j fuel c hj hf
    obtain ⟨fuel, rfl⟩ : ∃ x, fuel = x + 1 := ⟨fuel - 1, by omega⟩
    have : j = dr := by omega
    subst this
    have hnc : (iat j (i / 2 ^ j)).contains (2 * m) = false := by
      rw [iat_contains]
      have : ¬ (2 * m + 2 ≤ (i / 2 ^ j + 1) * 2 ^ (j + 1)) := by
        rw [pow_succ2]
        have : (i / 2 ^ j + 1) * (2 * 2 ^ j) = 2 * ((i / 2 ^ j + 1) * 2 ^ j) := by ring
        omega
      simp [this]
    refine ⟨0, ?_, by omega, by simpa using hroot⟩
    have hidx : (iat j (i / 2 ^ j)).index = Flat.index j (i / 2 ^ j) := rfl
    simp only [missingNodes.go, hnc, Bool.false_eq_true, ite_false, hidx, hroot, Nat.add_zero]
  | succ gap ih =>
    intro j fuel c hj hf
    obtain ⟨fuel, rfl⟩ : ∃ x, fuel = x + 1 := ⟨fuel - 1, by omega⟩
    have hle := anc_le i (dr - j) j
    have hjd : j + (dr - j) = dr := by omega
    rw [hjd] at hle
    have hnc : (iat j (i / 2 ^ j)).contains (2 * m) = false := by
      rw [iat_contains]
      have : ¬ (2 * m + 2 ≤ (i / 2 ^ j + 1) * 2 ^ (j + 1)) := by
        rw [pow_succ2]
        have : (i / 2 ^ j + 1) * (2 * 2 ^ j) = 2 * ((i / 2 ^ j + 1) * 2 ^ j) := by ring
        omega
      simp [this]
    simp only [missingNodes.go, hnc, Bool.false_eq_true, ite_false]
    have hidx0 : (iat j (i / 2 ^ j)).index = Flat.index j (i / 2 ^ j) := rfl
    rw [hidx0]
    cases hnode : t.node? f (Flat.index j (i / 2 ^ j)) with
    | some n =>
      refine ⟨0, by simp, by omega, ?_⟩
      obtain ⟨d, o, hidx, hn, _⟩ := hS.sound _ _ hnode
      obtain ⟨rfl, rfl⟩ := index_inj j (i / 2 ^ j) d o hidx
      simp only [Nat.add_zero]
      rw [hnode, hn]
    | none =>
      simp only []
      rw [iat_parent]
      have e : i / 2 ^ j / 2 = i / 2 ^ (j + 1) := by rw [Nat.div_div_eq_div_mul, Nat.pow_succ]
      rw [e]
      obtain ⟨k, h1, h2, h3⟩ := ih (j + 1) fuel (c + 1) (by omega) (by omega)
      refine ⟨k + 1, by rw [h1]; omega, by omega, ?_⟩
      have e2 : j + (k + 1) = j + 1 + k := by omega
      rw [e2]; exact h3

/-- the node count a replica asks for leads to a stored ancestor inside its tree -/
theorem missingNodes_spec (C : Crypto) (bs : Array Bytes) (m : Nat) (t : Tree) (f : File) (hS : Sparse C bs m t f)
    (hm : m < 2 ^ 64) (i : Nat) (hi : i < m) :
    t.node? f (Flat.index (t.missingNodes f (2 * i)) (i / 2 ^ t.missingNodes f (2 * i)))
        = some (nodeAt C bs (t.missingNodes f (2 * i)) (i / 2 ^ t.missingNodes f (2 * i)))
      ∧ (i / 2 ^ t.missingNodes f (2 * i) + 1) * 2 ^ t.missingNodes f (2 * i) ≤ m := by
  obtain ⟨p, hp, hp1, hp2⟩ := cover_find (cover_roots m) i (Nat.zero_le _) hi
  have hmem : p ∈ rootsStack m := List.mem_reverse.mp hp
  have hbound := rootsStack_bound m p hmem
  have hdiv : i / 2 ^ p.1 = p.2 := div_eq_of_span i p.1 p.2 hp1 hp2
  have hd64 : p.1 < 64 := by
    have h1 : 2 ^ p.1 ≤ (p.2 + 1) * 2 ^ p.1 := Nat.le_mul_of_pos_left _ (Nat.succ_pos _)
    have h2 : 2 ^ p.1 < 2 ^ 64 := Nat.lt_of_le_of_lt (Nat.le_trans h1 hbound) hm
    exact (Nat.pow_lt_pow_iff_right (by decide)).mp h2
  have hroot : t.node? f (Flat.index p.1 (i / 2 ^ p.1)) = some (nodeAt C bs p.1 (i / 2 ^ p.1)) := by
    rw [hdiv]; exact hS.roots p hmem
  obtain ⟨k, h1, h2, h3⟩ := missingNodes_go C bs m t f hS i p.1 hroot (by rw [hdiv]; exact hbound) p.1 0 70 0
    (by omega) (by omega)
  have hnew : Iter.new (2 * i) = iat 0 i := new_even i
  have hfirst : ¬ ((iat 0 i).index + (iat 0 i).factor / 2 - 1 ≥ 2 * m) := by
    simp only [iat, index_zero]; omega
  have hmn : t.missingNodes f (2 * i) = k := by
    simp only [Tree.missingNodes, hS.length, hnew, hfirst, ite_false]
    simp only [Nat.pow_zero, Nat.div_one, Nat.zero_add] at h1
    exact h1
  rw [hmn]
  simp only [Nat.zero_add] at h3
  refine ⟨h3, ?_⟩
  obtain ⟨d, o, hidx, _, hb⟩ := hS.sound _ _ h3
  obtain ⟨rfl, rfl⟩ := index_inj k (i / 2 ^ k) d o hidx
  exact hb

/-- **C03, one honest block exchange.**  The replica asks for block `i` with the node count from its own
    `missing_nodes`; the writer answers with `create_valueless_proof` and the block's bytes; the replica's
    `verify_proof` accepts the answer. -/
theorem honest_block_accepted (C : Crypto) (bs : Array Bytes) (tw : Tree) (fw : File) (tr : Tree) (fr : File) (m : Nat)
    (hT : RootsOK C bs tw.changeset) (hN : NodesOK C bs tw fw) (hs : bs.size < 2 ^ 64)
    (hS : Sparse C bs m tr fr) (hm : m ≤ bs.size) (i : Nat) (hi : i < m) (pk : Bytes) :
    ∃ nodes cs, tw.createValuelessProof fw (some ⟨i, tr.missingNodes fr (2 * i)⟩) none none none
        = .ok ⟨tw.fork, some ⟨i, nodes⟩, none, none, none⟩
      ∧ tr.verifyProof C fr ⟨tw.fork, some ⟨i, bs.getD i [], nodes⟩, none, none, none⟩ pk = .ok cs
      ∧ (∀ n ∈ cs.rnodes, ∃ dn on, n = nodeAt C bs dn on ∧ (on + 1) * 2 ^ dn ≤ m)
      ∧ cs.upgraded = false ∧ cs.origLength = tr.length ∧ cs.origFork = tr.fork := by
  obtain ⟨h1, h2⟩ := missingNodes_spec C bs m tr fr hS (by omega) i hi
  have hc := create_block_proof C bs tw fw hT hN hs i (tr.missingNodes fr (2 * i)) (by omega) (by omega)
  obtain ⟨cs, hv, hu, _, hall, ho1, ho2⟩ := block_proof_complete C bs tr fr pk i (tr.missingNodes fr (2 * i)) tw.fork h1
  refine ⟨_, cs, hc, hv, fun n hn => ?_, hu, ho1, ho2⟩
  obtain ⟨dn, on, e, hb⟩ := hall n hn
  exact ⟨dn, on, e, Nat.le_trans hb h2⟩

end HC.Complete
