import HC.Proofs.Offsets
import HC.Proofs.File
/-!
The node lookup of the tree (`Tree.node?`: unflushed map first, then the tree store) agrees with the
reference tree — and stays so across `commit` (new nodes enter the unflushed map) and `flush` (they
move to their 40-byte slots in the store).
-/
namespace HC.TreeStore
open HC HC.Codec HC.Flat HC.Tree HC.RefTree HC.RefProof HC.Offsets

/-- what reading nodes back needs from the hash functions: 32-byte digests, never all zero (a node
    whose hash is all zero is indistinguishable from an unwritten slot — the crate's "blank" node) -/
structure HashWF (C : Crypto) : Prop where
  leaf_len : ∀ x, (C.leaf x).length = 32
  parent_len : ∀ n a b, (C.parent n a b).length = 32
  leaf_nz : ∀ x, (C.leaf x).all (· == 0) = false
  parent_nz : ∀ n a b, (C.parent n a b).all (· == 0) = false

/-- digests of root lists are 32 bytes -/
def TreeWF (C : Crypto) : Prop := ∀ l, (C.tree l).length = 32

theorem nodeAt_hash_len (C : Crypto) (hC : HashWF C) (bs : Array Bytes) (d o : Nat) : (nodeAt C bs d o).hash.length = 32 := by
  cases d with
  | zero => simp [nodeAt, RefTree.node, hC.leaf_len]
  | succ d => simp [nodeAt, RefTree.node, hC.parent_len]

theorem nodeAt_not_blank (C : Crypto) (hC : HashWF C) (bs : Array Bytes) (d o : Nat) : (nodeAt C bs d o).blank = false := by
  cases d with
  | zero => simp [nodeAt, RefTree.node, Codec.Node.blank, hC.leaf_nz]
  | succ d => simp [nodeAt, RefTree.node, Codec.Node.blank, hC.parent_nz]

theorem nodeAt_index (C : Crypto) (bs : Array Bytes) (d o : Nat) : (nodeAt C bs d o).index = Flat.index d o := rfl

theorem nodeAt_length_le (C : Crypto) (bs : Array Bytes) (d o : Nat) : (nodeAt C bs d o).length ≤ psum bs ((o + 1) * 2 ^ d) := by
  have := node_size C bs d o
  simp only [nodeAt]; omega

theorem nodeAt_append (C : Crypto) (bs : Array Bytes) (l : List Bytes) (d o : Nat) (h : (o + 1) * 2 ^ d ≤ bs.size) :
    nodeAt C (bs ++ l.toArray) d o = nodeAt C bs d o := by
  induction l generalizing bs with
  | nil => simp
  | cons x xs ih =>
    have e : bs ++ (x :: xs).toArray = bs.push x ++ xs.toArray := by
      apply Array.ext'; simp
    rw [e, ih (bs.push x) (by simp; omega), nodeAt_push C bs x d o h]

/-! ### flat indices determine the position -/

theorem index_zero (o : Nat) : Flat.index 0 o = 2 * o := by simp [Flat.index] <;> omega

theorem index_inj : ∀ (d o d' o' : Nat), Flat.index d o = Flat.index d' o' → d = d' ∧ o = o' := by
  intro d
  induction d with
  | zero =>
    intro o d' o' h
    cases d' with
    | zero => rw [index_zero, index_zero] at h; exact ⟨rfl, by omega⟩
    | succ d' =>
      have := index_succ d' o'
      rw [index_zero] at h
      omega
  | succ d ih =>
    intro o d' o' h
    cases d' with
    | zero =>
      have := index_succ d o
      rw [index_zero] at h
      omega
    | succ d' =>
      have h1 := index_succ d o
      have h2 := index_succ d' o'
      obtain ⟨rfl, rfl⟩ := ih o d' o' (by omega)
      exact ⟨rfl, rfl⟩

/-! ### inserting a list of nodes into the unflushed map -/

abbrev NMap := Std.HashMap Nat Node

def insertAll (m : NMap) (l : List Node) : NMap := l.foldl (fun m n => m.insert n.index n) m

theorem insertAll_miss (l : List Node) (m : NMap) (i : Nat) (h : ∀ n ∈ l, n.index ≠ i) : (insertAll m l)[i]? = m[i]? := by
  induction l generalizing m with
  | nil => rfl
  | cons n ns ih =>
    simp only [insertAll, List.foldl_cons]
    have := ih (m.insert n.index n) (fun x hx => h x (by simp [hx]))
    simp only [insertAll] at this
    rw [this, Std.HashMap.getElem?_insert]
    have : n.index ≠ i := h n (by simp)
    simp [this]

theorem insertAll_hit (l : List Node) (m : NMap) (i : Nat) (h : ∃ n ∈ l, n.index = i) :
    ∃ n ∈ l, n.index = i ∧ (insertAll m l)[i]? = some n := by
  induction l generalizing m with
  | nil => obtain ⟨n, hn, _⟩ := h; cases hn
  | cons n ns ih =>
    simp only [insertAll, List.foldl_cons]
    by_cases hrest : ∃ x ∈ ns, x.index = i
    · obtain ⟨x, hx, hxi, hget⟩ := ih (m.insert n.index n) hrest
      exact ⟨x, by simp [hx], hxi, hget⟩
    · have hmiss : ∀ x ∈ ns, x.index ≠ i := fun x hx e => hrest ⟨x, hx, e⟩
      have := insertAll_miss ns (m.insert n.index n) i hmiss
      simp only [insertAll] at this
      obtain ⟨x, hx, hxi⟩ := h
      have hn : n.index = i := by
        rcases List.mem_cons.mp hx with rfl | hx'
        · exact hxi
        · exact absurd hxi (hmiss x hx')
      refine ⟨n, by simp, hn, ?_⟩
      rw [this, Std.HashMap.getElem?_insert]
      simp [hn]

/-- every entry of the map sits under its own index and has the on-disk shape -/
def MapWF (m : NMap) : Prop := ∀ (k : Nat) (n : Node), m[k]? = some n → n.index = k ∧ n.hash.length = 32 ∧ n.length < 2 ^ 64

theorem mapWF_insertAll (l : List Node) (m : NMap) (hm : MapWF m) (hl : ∀ n ∈ l, n.hash.length = 32 ∧ n.length < 2 ^ 64) :
    MapWF (insertAll m l) := by
  intro k n hk
  by_cases h : ∃ x ∈ l, x.index = k
  · obtain ⟨x, hx, hxi, hget⟩ := insertAll_hit l m k h
    rw [hget] at hk
    have hxn : x = n := Option.some.inj hk
    rw [← hxn]
    exact ⟨hxi, hl x hx⟩
  · rw [insertAll_miss l m k (fun x hx e => h ⟨x, hx, e⟩)] at hk
    exact hm k n hk

/-! ### all nodes created by a batch -/

theorem appendMany_nodes (C : Crypto) (batch : List Bytes) (bs : Array Bytes) (cs : Changeset) (h : RootsOK C bs cs) :
    ∃ added, (batch.foldl (Tree.append C) cs).rnodes = added ++ cs.rnodes
      ∧ (∀ n ∈ added, ∃ d o, n = nodeAt C (bs ++ batch.toArray) d o ∧ (o + 1) * 2 ^ d ≤ bs.size + batch.length)
      ∧ (∀ d o, bs.size < (o + 1) * 2 ^ d → (o + 1) * 2 ^ d ≤ bs.size + batch.length →
           nodeAt C (bs ++ batch.toArray) d o ∈ added) := by
  induction batch generalizing bs cs with
  | nil => exact ⟨[], by simp, by simp, fun d o h1 h2 => by simp at h2; omega⟩
  | cons b rest ih =>
    obtain ⟨h1, a1, e1, s1, c1⟩ := append_ref C bs cs b h
    obtain ⟨a2, e2, s2, c2⟩ := ih (bs.push b) (Tree.append C cs b) h1
    have e : bs ++ (b :: rest).toArray = bs.push b ++ rest.toArray := by
      apply Array.ext'; simp
    refine ⟨a2 ++ a1, ?_, ?_, ?_⟩
    · simp only [List.foldl_cons]; rw [e2, e1, List.append_assoc]
    · intro n hn
      rcases List.mem_append.mp hn with hn | hn
      · obtain ⟨d, o, rfl, hb⟩ := s2 n hn
        exact ⟨d, o, by rw [e], by simp at hb ⊢; omega⟩
      · obtain ⟨d, o, rfl, hb⟩ := s1 n hn
        refine ⟨d, o, ?_, by simp; omega⟩
        rw [e, nodeAt_append C (bs.push b) rest d o (by simpa using hb)]
    · intro d o h3 h4
      rw [e]
      by_cases heq : (o + 1) * 2 ^ d = bs.size + 1
      · have := c1 d o heq
        rw [nodeAt_append C (bs.push b) rest d o (by simp; omega)]
        exact List.mem_append.mpr (Or.inr this)
      · have := c2 d o (by simp; omega) (by simp at h4 ⊢; omega)
        exact List.mem_append.mpr (Or.inl this)

/-! ### how many nodes a batch creates -/

theorem mergeLoop_count (C : Crypto) (fuel : Nat) : ∀ (rroots nodes : List Node) (it : Iter),
    (mergeLoop C fuel rroots nodes it).1.length + (mergeLoop C fuel rroots nodes it).2.1.length
      = rroots.length + nodes.length := by
  induction fuel with
  | zero => intro rroots nodes it; rfl
  | succ fuel ih =>
    intro rroots nodes it
    match rroots with
    | [] => rfl
    | [a] => rfl
    | a :: b :: rest =>
      simp only [mergeLoop]
      split
      · rfl
      · rw [ih]; simp only [List.length_cons]; omega

theorem append_count (C : Crypto) (cs : Changeset) (b : Bytes) :
    (Tree.append C cs b).roots.length + (Tree.append C cs b).rnodes.length = cs.roots.length + cs.rnodes.length + 2 := by
  have := mergeLoop_count C (cs.roots.length + 1) (⟨cs.length * 2, b.length, C.leaf b⟩ :: cs.roots.reverse)
    (⟨cs.length * 2, b.length, C.leaf b⟩ :: cs.rnodes) (Iter.new (cs.length * 2))
  simp only [List.length_cons, List.length_reverse] at this
  simp only [Tree.append, appendRoot]
  generalize mergeLoop C (cs.roots.length + 1) (⟨cs.length * 2, b.length, C.leaf b⟩ :: cs.roots.reverse)
    (⟨cs.length * 2, b.length, C.leaf b⟩ :: cs.rnodes) (Iter.new (cs.length * 2)) = r at this ⊢
  obtain ⟨x, y, z⟩ := r
  simp only [List.length_reverse] at this ⊢
  omega

theorem appendMany_count (C : Crypto) (batch : List Bytes) (cs : Changeset) :
    (batch.foldl (Tree.append C) cs).roots.length + (batch.foldl (Tree.append C) cs).rnodes.length
      = cs.roots.length + cs.rnodes.length + 2 * batch.length := by
  induction batch generalizing cs with
  | nil => simp
  | cons b rest ih =>
    simp only [List.foldl_cons, ih, append_count, List.length_cons]; omega

theorem rootsStack_length_log (k : Nat) : ∀ n, n < 2 ^ k → (rootsStack n).length ≤ k := by
  induction k with
  | zero => intro n hn; have : n = 0 := by simpa using hn
            subst this; simp [rootsStack_zero]
  | succ k ih =>
    intro n hn
    by_cases h0 : n = 0
    · subst h0; simp [rootsStack_zero]
    have hhalf : n / 2 < 2 ^ k := by rw [Nat.pow_succ] at hn; omega
    by_cases hev : n % 2 = 0
    · rw [rootsStack_even n h0 hev, List.length_map]; exact Nat.le_trans (ih _ hhalf) (Nat.le_succ _)
    · rw [rootsStack_odd n (by omega)]
      simp only [List.length_cons, List.length_map]
      exact Nat.succ_le_succ (ih _ hhalf)

/-! ### `commit` keeps the lookup exact -/

theorem node?_congr (t t' : Tree) (f : File) (i : Nat) (h : t'.unflushed[i]? = t.unflushed[i]?) : t'.node? f i = t.node? f i := by
  simp [Tree.node?, h]

theorem node?_of_unflushed (t : Tree) (f : File) (i : Nat) (n : Node) (h : t.unflushed[i]? = some n) (hb : n.blank = false) :
    t.node? f i = some n := by
  simp [Tree.node?, h, hb]

/-- NodesOK after the nodes of a batch have been inserted into the unflushed map -/
theorem nodesOK_insert (C : Crypto) (hC : HashWF C) (bs : Array Bytes) (batch : List Bytes) (t t' : Tree) (f : File)
    (cs : Changeset) (hcs : RootsOK C bs cs) (hrn : cs.rnodes = [])
    (ht' : t'.unflushed = insertAll t.unflushed (batch.foldl (Tree.append C) cs).nodes)
    (hN : NodesOK C bs t f) : NodesOK C (bs ++ batch.toArray) t' f := by
  obtain ⟨added, eadd, sound, compl⟩ := appendMany_nodes C batch bs cs hcs
  rw [hrn, List.append_nil] at eadd
  have hnodes : ∀ n, n ∈ (batch.foldl (Tree.append C) cs).nodes ↔ n ∈ added := by
    intro n; simp [Changeset.nodes, eadd]
  intro d o hb
  have hb' : (o + 1) * 2 ^ d ≤ bs.size + batch.length := by simpa using hb
  by_cases hex : ∃ n ∈ (batch.foldl (Tree.append C) cs).nodes, n.index = Flat.index d o
  · obtain ⟨n, hn, hni, hget⟩ := insertAll_hit _ t.unflushed _ hex
    obtain ⟨d', o', rfl, _⟩ := sound n ((hnodes n).mp hn)
    obtain ⟨rfl, rfl⟩ := index_inj d' o' d o hni
    apply node?_of_unflushed
    · rw [ht']; exact hget
    · exact nodeAt_not_blank C hC _ _ _
  · have hmiss : ∀ n ∈ (batch.foldl (Tree.append C) cs).nodes, n.index ≠ Flat.index d o := fun n hn e => hex ⟨n, hn, e⟩
    have hold : (o + 1) * 2 ^ d ≤ bs.size := by
      by_cases hle : (o + 1) * 2 ^ d ≤ bs.size
      · exact hle
      · exfalso
        have := compl d o (by omega) hb'
        exact hmiss _ ((hnodes _).mpr this) rfl
    rw [node?_congr t t' f _ (by rw [ht']; exact insertAll_miss _ _ _ hmiss), hN d o hold, nodeAt_append C bs batch d o hold]

/-- the general form: inserting any node list that is sound and complete for the step `bs → bs'` -/
theorem nodesOK_insert_gen (C : Crypto) (hC : HashWF C) (bs : Array Bytes) (more : List Bytes) (t t' : Tree) (f : File)
    (nodes : List Node) (ht' : t'.unflushed = insertAll t.unflushed nodes)
    (sound : ∀ n ∈ nodes, ∃ d o, n = nodeAt C (bs ++ more.toArray) d o ∧ (o + 1) * 2 ^ d ≤ bs.size + more.length)
    (compl : ∀ d o, bs.size < (o + 1) * 2 ^ d → (o + 1) * 2 ^ d ≤ bs.size + more.length → nodeAt C (bs ++ more.toArray) d o ∈ nodes)
    (hN : NodesOK C bs t f) : NodesOK C (bs ++ more.toArray) t' f := by
  intro d o hb
  have hb' : (o + 1) * 2 ^ d ≤ bs.size + more.length := by simpa using hb
  by_cases hex : ∃ n ∈ nodes, n.index = Flat.index d o
  · obtain ⟨n, hn, hni, hget⟩ := insertAll_hit _ t.unflushed _ hex
    obtain ⟨d', o', rfl, _⟩ := sound n hn
    obtain ⟨rfl, rfl⟩ := index_inj d' o' d o hni
    apply node?_of_unflushed
    · rw [ht']; exact hget
    · exact nodeAt_not_blank C hC _ _ _
  · have hmiss : ∀ n ∈ nodes, n.index ≠ Flat.index d o := fun n hn e => hex ⟨n, hn, e⟩
    have hold : (o + 1) * 2 ^ d ≤ bs.size := by
      by_cases hle : (o + 1) * 2 ^ d ≤ bs.size
      · exact hle
      · exfalso
        exact hmiss _ (compl d o (by omega) hb') rfl
    rw [node?_congr t t' f _ (by rw [ht']; exact insertAll_miss _ _ _ hmiss), hN d o hold, nodeAt_append C bs more d o hold]

/-! ### `flush` keeps the lookup exact -/

theorem nodeBytes_length (n : Node) (h : n.hash.length = 32) : (nodeBytes n).length = 40 := by
  simp [nodeBytes, le8, leBytes_length, h]

theorem nodeOfBytes_nodeBytes (n : Node) (h : n.length < 2 ^ 64) : nodeOfBytes n.index (nodeBytes n) = n := by
  have h8 : (le8 n.length).length = 8 := by simp [le8, leBytes_length]
  have : leVal (le8 n.length) = n.length := leVal_leBytes 8 n.length (by simpa using h)
  simp [nodeOfBytes, nodeBytes, List.take_append_of_le_length, List.drop_append_of_le_length, h8, this]

def writeSlots (f : File) (ns : List Node) : File := ns.foldl (fun f n => f.write (n.index * Spec.nodeSize) (nodeBytes n)) f

theorem writeSlots_read (ns : List Node) (f : File) (hwf : ∀ n ∈ ns, n.hash.length = 32)
    (hd : ns.Pairwise (fun a b => a.index ≠ b.index)) :
    (∀ n ∈ ns, (writeSlots f ns).read (n.index * Spec.nodeSize) Spec.nodeSize = some (nodeBytes n))
      ∧ (∀ i bs, (∀ n ∈ ns, n.index ≠ i) → f.read (i * Spec.nodeSize) Spec.nodeSize = some bs →
           (writeSlots f ns).read (i * Spec.nodeSize) Spec.nodeSize = some bs) := by
  induction ns generalizing f with
  | nil => exact ⟨fun n hn => (by cases hn), fun i bs _ h => h⟩
  | cons n rest ih =>
    obtain ⟨hd1, hd2⟩ := List.pairwise_cons.mp hd
    obtain ⟨ih1, ih2⟩ := ih (f.write (n.index * Spec.nodeSize) (nodeBytes n)) (fun x hx => hwf x (by simp [hx])) hd2
    have hlen : (nodeBytes n).length = 40 := nodeBytes_length n (hwf n (by simp))
    constructor
    · intro x hx
      rcases List.mem_cons.mp hx with rfl | hx
      · simp only [writeSlots, List.foldl_cons]
        apply ih2 x.index (nodeBytes x) (fun y hy => (hd1 y hy).symm)
        have := File.read_write_same f (x.index * Spec.nodeSize) (nodeBytes x)
        rw [hlen] at this
        exact this
      · exact ih1 x hx
    · intro i bs hi hr
      simp only [writeSlots, List.foldl_cons]
      apply ih2 i bs (fun y hy => hi y (by simp [hy]))
      apply File.read_write_disjoint f _ _ _ _ _ hr
      have : n.index ≠ i := hi n (by simp)
      rw [hlen]
      simp only [Spec.nodeSize]
      omega

theorem leBytes_leVal (l : Bytes) : leBytes (leVal l) l.length = l := by
  induction l with
  | nil => rfl
  | cons b l ih =>
    simp only [leVal, List.length_cons, leBytes]
    have hb : b.toNat < 256 := b.toNat_lt
    have h1 : (b.toNat + 256 * leVal l) % 256 = b.toNat := by omega
    have h2 : (b.toNat + 256 * leVal l) / 256 = leVal l := by omega
    rw [h1, h2, ih]
    simp

/-- a 40-byte slot is the encoding of the node it decodes to -/
theorem nodeBytes_nodeOfBytes (i : Nat) (bs : Bytes) (h : bs.length = 40) : nodeBytes (nodeOfBytes i bs) = bs := by
  have h8 : (bs.take 8).length = 8 := by rw [List.length_take]; omega
  have := leBytes_leVal (bs.take 8)
  rw [h8] at this
  simp only [nodeBytes, nodeOfBytes, le8, this, List.take_append_drop]

/-- a torn write of a node that the slot already holds changes nothing; a torn write elsewhere leaves other
    slots alone -/
theorem tornSlot_read (f : File) (n : Node) (hw : n.hash.length = 32) (t : Nat) (i : Nat) (bs : Bytes)
    (hr : f.read (i * Spec.nodeSize) Spec.nodeSize = some bs)
    (hsame : n.index = i → nodeBytes n = bs) :
    (f.write (n.index * Spec.nodeSize) ((nodeBytes n).take t)).read (i * Spec.nodeSize) Spec.nodeSize = some bs := by
  have hN : Spec.nodeSize = 40 := rfl
  have hlen := File.read_length _ _ _ _ hr
  have hsz := File.read_size _ _ _ _ hr
  have hl : ((nodeBytes n).take t).length ≤ 40 := by rw [List.length_take, nodeBytes_length n hw]; omega
  by_cases hi : n.index = i
  · have hnb := hsame hi
    rw [hi]
    have key : (f.write (i * Spec.nodeSize) ((nodeBytes n).take t)).read (i * Spec.nodeSize) bs.length = some bs := by
      apply File.read_of_bytes
      · rw [File.size_write]; have := Nat.le_max_left f.size (i * Spec.nodeSize + ((nodeBytes n).take t).length); omega
      · intro k hk
        rw [File.byte_write]
        split
        · rename_i hin
          have hk2 : i * Spec.nodeSize + k - i * Spec.nodeSize = k := by omega
          rw [hk2, hnb, List.getD_eq_getElem?_getD, List.getElem?_take]
          have : k < t := by rw [hnb, List.length_take] at hin; omega
          rw [if_pos this, ← List.getD_eq_getElem?_getD]
        · exact (File.read_byte _ _ _ _ hr k (by omega)).symm
    rw [hlen] at key
    exact key
  · apply File.read_write_disjoint f _ _ _ _ _ hr
    rw [hN]; omega

/-- the tree-store part of a flush journal applied to a disk -/
theorem applyAll_tree_writes (d : Disk) (ns : List Node) :
    d.applyAll (ns.map fun n => SOp.write .tree (n.index * Spec.nodeSize) (nodeBytes n))
      = { d with tree := writeSlots d.tree ns } := by
  induction ns generalizing d with
  | nil => simp [Disk.applyAll, writeSlots]
  | cons n rest ih =>
    simp only [List.map_cons, Disk.applyAll, List.foldl_cons]
    have := ih (d.apply (SOp.write .tree (n.index * Spec.nodeSize) (nodeBytes n)))
    simp only [Disk.applyAll] at this
    rw [this]
    obtain ⟨t, da, b, o⟩ := d
    simp [Disk.apply, writeSlots]

/-- NodesOK survives `Tree.flush` (the nodes move from the map to their slots) -/
theorem nodesOK_flush (C : Crypto) (hC : HashWF C) (bs : Array Bytes) (t : Tree) (d : Disk)
    (hwf : MapWF t.unflushed) (hN : NodesOK C bs t d.tree) :
    NodesOK C bs (t.flush).1 (d.applyAll (t.flush).2).tree ∧ MapWF (t.flush).1.unflushed
      ∧ (d.applyAll (t.flush).2).data = d.data := by
  -- the sorted node list
  have hflush : t.flush = ({ t with unflushed := {} },
      ((t.unflushed.toList.map (·.2)).mergeSort (fun a b => a.index ≤ b.index)).map
        fun n => SOp.write .tree (n.index * Spec.nodeSize) (nodeBytes n)) := rfl
  rw [hflush]
  simp only
  rw [applyAll_tree_writes]
  generalize hL : (t.unflushed.toList.map (·.2)).mergeSort (fun a b => a.index ≤ b.index) = L
  have hmem : ∀ n, n ∈ L ↔ t.unflushed[n.index]? = some n := by
    intro n
    rw [← hL, List.mem_mergeSort, List.mem_map]
    constructor
    · rintro ⟨⟨k, v⟩, hkv, rfl⟩
      have := Std.HashMap.mem_toList_iff_getElem?_eq_some.mp hkv
      have hk := (hwf k v this).1
      simp only at hk ⊢
      rw [hk]; exact this
    · intro h
      exact ⟨(n.index, n), Std.HashMap.mem_toList_iff_getElem?_eq_some.mpr h, rfl⟩
  have hdist : L.Pairwise (fun a b => a.index ≠ b.index) := by
    have hperm : L.Perm (t.unflushed.toList.map (·.2)) := by rw [← hL]; exact List.mergeSort_perm _ _
    have hsym : ∀ {a b : Node}, a.index ≠ b.index → b.index ≠ a.index := fun h e => h e.symm
    apply hperm.pairwise_iff (fun h => hsym h) |>.mpr
    rw [List.pairwise_map]
    have := Std.HashMap.distinct_keys_toList (m := t.unflushed)
    apply this.imp_of_mem
    intro a b ha hb hab
    have ka := (hwf a.1 a.2 (Std.HashMap.mem_toList_iff_getElem?_eq_some.mp ha)).1
    have kb := (hwf b.1 b.2 (Std.HashMap.mem_toList_iff_getElem?_eq_some.mp hb)).1
    simp only [beq_eq_false_iff_ne, ne_eq] at hab
    omega
  have hwfL : ∀ n ∈ L, n.hash.length = 32 := fun n hn => (hwf _ _ ((hmem n).mp hn)).2.1
  obtain ⟨r1, r2⟩ := writeSlots_read L d.tree hwfL hdist
  refine ⟨?_, ?_, rfl⟩
  · intro dd o hb
    have hold := hN dd o hb
    simp only [Tree.node?, Std.HashMap.getElem?_empty]
    cases hu : t.unflushed[Flat.index dd o]? with
    | some n =>
      simp only [Tree.node?, hu] at hold
      have hidx := (hwf _ _ hu).1
      have hn : n ∈ L := (hmem n).mpr (by rw [hidx]; exact hu)
      have := r1 n hn
      rw [hidx] at this
      rw [this]
      have hnb : n.blank = false := by
        cases hbk : n.blank with
        | true => simp [hbk] at hold
        | false => rfl
      have hrt := nodeOfBytes_nodeBytes n (hwf _ _ hu).2.2
      rw [hidx] at hrt
      simp only [hrt, hnb]
      simpa [hnb] using hold
    | none =>
      simp only [Tree.node?, hu] at hold
      cases hr : d.tree.read (Flat.index dd o * Spec.nodeSize) Spec.nodeSize with
      | none => simp [hr] at hold
      | some bytes =>
        have hmiss : ∀ n ∈ L, n.index ≠ Flat.index dd o := by
          intro n hn e
          have := (hmem n).mp hn
          rw [e, hu] at this; cases this
        rw [r2 _ _ hmiss hr]
        simpa [hr] using hold
  · intro k n h
    simp at h

end HC.TreeStore
