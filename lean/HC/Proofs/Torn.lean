import HC.Proofs.Crash
/-!
Torn writes (C07).  `torn_step`: for every call, every storage operation `k` of it that is a write, and every
number `t` of bytes of that write that arrive, the stores are `Durable0` for the log before the call or the
log after it — so `Hypercore::new` succeeds on them and yields a core representing one of the two logs
(`Crash.durable_open`).  Torn data, bitfield-page, tree-node and log-entry writes need no assumption (a
strict prefix of an entry frame is rejected by its length field; a half-written page holds, bit by bit, the
old or the new value; a half-written node slot is shadowed by the entry that carries the node, or holds a
node that was already there).  For a torn header write the theorem assumes what the format relies on: the
checksum rejects the half-written slot (`hcrc`).
-/
namespace HC.Torn
open HC HC.Codec HC.Flat HC.Tree HC.RefTree HC.RefProof HC.Offsets HC.TreeStore HC.LogSpec HC.Core HC.Oplog HC.LiveRefine
  HC.BitfieldPages HC.OplogBytes HC.FormatLimits HC.Touch HC.Persist HC.Crash

/-! ### `tornApply` on concatenated journals -/

theorem tornApply_right (d : Disk) (pre rest : List SOp) (k t : Nat) (h : pre.length ≤ k) :
    tornApply d (pre ++ rest) k t = tornApply (d.applyAll pre) rest (k - pre.length) t := by
  unfold tornApply
  rw [List.getElem?_append_right h, take_beyond pre rest k h, Journal.applyAll_append]

theorem tornApply_left (d : Disk) (pre rest : List SOp) (k t : Nat) (h : k < pre.length) :
    tornApply d (pre ++ rest) k t = tornApply d pre k t := by
  unfold tornApply
  rw [List.getElem?_append_left h]
  have : (pre ++ rest).take k = pre.take k := by
    rw [List.take_append]
    have : k - pre.length = 0 := by omega
    simp [this]
  rw [this]

/-- where the journal has no write at `k`, a torn crash is a plain crash -/
theorem tornApply_notWrite (d : Disk) (j : List SOp) (k t : Nat) (h : ∀ st off bs, j[k]? ≠ some (.write st off bs)) :
    tornApply d j k t = d.applyAll (j.take k) := by
  unfold tornApply
  split
  · rename_i st off bs heq; exact absurd heq (h st off bs)
  · rfl

/-! ### the single torn writes -/

/-- replacing the oplog store by another image of the same header and entries -/
theorem durable_oplog (C : Crypto) (d d' : Disk) (hf : Header) (a0 : Abs) (es : List Entry) (a : Abs)
    (h : Durable0 C d hf a0 es a) (ht : d'.tree = d.tree) (hb : d'.bitfield = d.bitfield) (hd : d'.data = d.data)
    (ho : OpImage d'.oplog hf es) : Durable0 C d' hf a0 es a :=
  { oplog := ho
    hfLen := h.hfLen
    hfSig := h.hfSig
    hfSecret := h.hfSecret
    hfShape := h.hfShape
    oks := h.oks
    fileNodes := by rw [ht]; exact h.fileNodes
    stable := by rw [hb]; exact h.stable
    kept := by rw [hb]; exact h.kept
    low := by rw [hb]; exact h.low
    below := by rw [hb]; exact h.below
    held0Lt := h.held0Lt
    contig := h.contig
    small0 := h.small0
    trace := h.trace
    data := by rw [hd]; exact h.data }

/-- a bitfield page half written -/
theorem durable_tornPage (C : Crypto) (d d' : Disk) (hf : Header) (a0 : Abs) (es : List Entry) (a : Abs) (b : Bitfield) (p t : Nat)
    (h : Durable C d hf a0 es a) (hb : ∀ i, b.get i = a.held i)
    (ht : d'.tree = d.tree) (hbf : d'.bitfield = d.bitfield.write (p * Spec.pageBytes) ((b.pageBytes p).take t))
    (ho : d'.oplog = d.oplog) (hd : d'.data = d.data) : Durable0 C d' hf a0 es a := by
  have hbits := tornPage_bits b d.bitfield h.fileSize p t
  have hlt := trace_heldLt C a0 a es h.trace h.held0Lt
  exact {
    oplog := by rw [ho]; exact h.oplog
    hfLen := h.hfLen
    hfSig := h.hfSig
    hfSecret := h.hfSecret
    hfShape := h.hfShape
    oks := h.oks
    fileNodes := by rw [ht]; exact h.fileNodes
    stable := by
      intro i hu
      rw [hbf]
      rcases hbits i with e | e
      · rw [e]; exact h.stable i hu
      · rw [e, hb]; exact trace_untouched C a0 a es h.trace i hu
    kept := by
      intro i hh
      rw [hbf]
      rcases hbits i with e | e
      · rw [e]; exact h.kept i hh
      · rw [e, hb]; exact trace_kept C a0 a es h.trace i hh
    low := by
      intro i hi hh
      rw [hbf]
      rcases hbits i with e | e
      · rw [e]; exact h.low i hi hh
      · rw [e, hb]; exact trace_low C a0 a es h.trace i hi hh
    below := by
      intro i hi
      rw [hbf] at hi
      rcases hbits i with e | e
      · rw [e] at hi; exact h.below i hi
      · rw [e, hb] at hi; exact hlt i hi
    held0Lt := h.held0Lt
    contig := h.contig
    small0 := h.small0
    trace := h.trace
    data := by rw [hd]; exact h.data }

/-- a tree node half written: the nodes of the last flush are still there -/
theorem durable_tornSlot (C : Crypto) (d d' : Disk) (hf : Header) (a0 : Abs) (es : List Entry) (a : Abs) (t : Tree) (n : Node) (tt : Nat)
    (h : Durable0 C d hf a0 es a) (hwf : MapWF t.unflushed) (hN : ∀ dd o, (o + 1) * 2 ^ dd ≤ a.blocks.size →
      t.unflushed[Flat.index dd o]? = some n → n = nodeAt C a.blocks dd o)
    (hn : t.unflushed[n.index]? = some n)
    (ht : d'.tree = d.tree.write (n.index * Spec.nodeSize) ((nodeBytes n).take tt)) (hbf : d'.bitfield = d.bitfield)
    (ho : d'.oplog = d.oplog) (hd : d'.data = d.data) : Durable0 C d' hf a0 es a := by
  obtain ⟨l, hl⟩ := trace_blocks C a0 a es h.trace
  have hsz := trace_size_le C a0 a es h.trace
  have hw : n.hash.length = 32 := (hwf _ _ hn).2.1
  have hnodes : NodesOK C a0.blocks {} d'.tree := by
    rw [ht]
    intro dd o hb
    have hold0 := h.fileNodes dd o hb
    simp only [Tree.node?, Std.HashMap.getElem?_empty] at hold0 ⊢
    cases hr : d.tree.read (Flat.index dd o * Spec.nodeSize) Spec.nodeSize with
    | none => simp [hr] at hold0
    | some bytes =>
      have hblen : bytes.length = 40 := File.read_length _ _ _ _ hr
      have hdec : nodeOfBytes (Flat.index dd o) bytes = nodeAt C a0.blocks dd o := by
        simp only [hr] at hold0
        split at hold0
        · cases hold0
        · exact Option.some.inj hold0
      rw [tornSlot_read d.tree n hw tt (Flat.index dd o) bytes hr (by
        intro hidx
        have hu : t.unflushed[Flat.index dd o]? = some n := by rw [← hidx]; exact hn
        have e1 := hN dd o (Nat.le_trans hb hsz) hu
        have e2 : nodeAt C a.blocks dd o = nodeAt C a0.blocks dd o := by rw [hl]; exact nodeAt_append C a0.blocks l dd o hb
        rw [e1, e2, ← hdec]
        exact nodeBytes_nodeOfBytes _ bytes hblen)]
      simpa [hr] using hold0
  exact {
    oplog := by rw [ho]; exact h.oplog
    hfLen := h.hfLen
    hfSig := h.hfSig
    hfSecret := h.hfSecret
    hfShape := h.hfShape
    oks := h.oks
    fileNodes := hnodes
    stable := by rw [hbf]; exact h.stable
    kept := by rw [hbf]; exact h.kept
    low := by rw [hbf]; exact h.low
    below := by rw [hbf]; exact h.below
    held0Lt := h.held0Lt
    contig := h.contig
    small0 := h.small0
    trace := h.trace
    data := by rw [hd]; exact h.data }

/-! ### one write on the disk record -/

theorem apply_write_bitfield (d : Disk) (off : Nat) (bs : Bytes) :
    (d.apply (.write .bitfield off bs)).tree = d.tree ∧ (d.apply (.write .bitfield off bs)).bitfield = d.bitfield.write off bs
      ∧ (d.apply (.write .bitfield off bs)).oplog = d.oplog ∧ (d.apply (.write .bitfield off bs)).data = d.data := by
  obtain ⟨t, da, b, o⟩ := d; exact ⟨rfl, rfl, rfl, rfl⟩

theorem apply_write_tree (d : Disk) (off : Nat) (bs : Bytes) :
    (d.apply (.write .tree off bs)).tree = d.tree.write off bs ∧ (d.apply (.write .tree off bs)).bitfield = d.bitfield
      ∧ (d.apply (.write .tree off bs)).oplog = d.oplog ∧ (d.apply (.write .tree off bs)).data = d.data := by
  obtain ⟨t, da, b, o⟩ := d; exact ⟨rfl, rfl, rfl, rfl⟩

theorem apply_write_oplog (d : Disk) (off : Nat) (bs : Bytes) :
    (d.apply (.write .oplog off bs)).tree = d.tree ∧ (d.apply (.write .oplog off bs)).bitfield = d.bitfield
      ∧ (d.apply (.write .oplog off bs)).oplog = d.oplog.write off bs ∧ (d.apply (.write .oplog off bs)).data = d.data := by
  obtain ⟨t, da, b, o⟩ := d; exact ⟨rfl, rfl, rfl, rfl⟩

theorem apply_write_data (d : Disk) (off : Nat) (bs : Bytes) :
    (d.apply (.write .data off bs)).tree = d.tree ∧ (d.apply (.write .data off bs)).bitfield = d.bitfield
      ∧ (d.apply (.write .data off bs)).oplog = d.oplog ∧ (d.apply (.write .data off bs)).data = d.data.write off bs := by
  obtain ⟨t, da, b, o⟩ := d; exact ⟨rfl, rfl, rfl, rfl⟩

/-! ### a flush, with one of its writes torn -/

theorem torn_flush (C : Crypto) (hC : HashWF C) (c : Core) (d : Disk) (hf : Header) (a0 a : Abs) (es : List Entry)
    (hrep : Rep C c d a) (hp : Persist C c d hf a0 es a) (k t : Nat)
    (hcrc : ∀ off bs, c.maybeFlush.2[k]? = some (.write .oplog off bs) →
      validateLeader (((tornApply d c.maybeFlush.2 k t).oplog.toList.drop off).take Spec.headerSize) = none) :
    ∃ hf' a0' es', Durable0 C (tornApply d c.maybeFlush.2 k t) hf' a0' es' a := by
  have hdur := persist_durable C c d hf a0 es a hrep hp
  -- where the journal has no write at `k`, this is a plain crash
  have hplain : (∀ st off bs, c.maybeFlush.2[k]? ≠ some (.write st off bs)) →
      ∃ hf' a0' es', Durable0 C (tornApply d c.maybeFlush.2 k t) hf' a0' es' a := by
    intro hnw
    rw [tornApply_notWrite _ _ _ _ hnw]
    obtain ⟨hf', a0', es', hd⟩ := crash_flush C hC c d hf a0 a es hrep hp k
    exact ⟨hf', a0', es', hd.toDurable0⟩
  rw [maybeFlush_eq] at hcrc hplain ⊢
  by_cases hcond : c.skipFlush = 0 ∨ c.oplog.entriesByteLength ≥ Spec.maxEntriesBytes
  · simp only [hcond, ite_true, Core.flushAll] at hcrc hplain ⊢
    have hj1 := Journal.bitfieldFlush_store c.bitfield
    have hj2 := Journal.treeFlush_store c.tree
    have hj3 := Journal.oplogFlush_store c.oplog c.header false
    have hOhead : ∃ off bs tr, (Oplog.flush c.oplog c.header false).2 = [SOp.write .oplog off bs, tr] ∧ (∀ st o b, tr ≠ SOp.write st o b) := by
      simp only [Oplog.flush, Bool.false_eq_true, ite_false, Oplog.insertHeader]
      exact ⟨_, _, _, rfl, fun st o b hh => by cases hh⟩
    generalize hP : c.bitfield.flush.2 = P at hj1 hcrc hplain
    generalize hT : c.tree.flush.2 = T at hj2 hcrc hplain
    generalize hO : (Oplog.flush c.oplog c.header false).2 = O at hj3 hcrc hplain hOhead
    have hPdef : P = c.bitfield.dirty.map fun p => SOp.write .bitfield (p * Spec.pageBytes) (c.bitfield.pageBytes p) := by
      rw [← hP]; rfl
    have hTdef : T = (flushList c.tree).map fun n => SOp.write .tree (n.index * Spec.nodeSize) (nodeBytes n) := by
      rw [← hT]; exact flush_journal c.tree
    -- the disk after a list of page writes
    have hdP : ∀ ps : List Nat, (d.applyAll (ps.map fun p => SOp.write .bitfield (p * Spec.pageBytes) (c.bitfield.pageBytes p)))
        = { d with bitfield := writePages c.bitfield d.bitfield ps } := by
      intro ps
      have hs : ∀ op ∈ (ps.map fun p => SOp.write .bitfield (p * Spec.pageBytes) (c.bitfield.pageBytes p)), op.store = .bitfield := by
        intro op hop; obtain ⟨p, _, rfl⟩ := List.mem_map.mp hop; rfl
      have e1 := applyAll_bitfield_writes c.bitfield d ps
      have e2 := Journal.applyAll_other d _ .tree (fun op hop => by rw [hs op hop]; decide)
      have e3 := Journal.applyAll_other d _ .data (fun op hop => by rw [hs op hop]; decide)
      have e4 := Journal.applyAll_other d _ .oplog (fun op hop => by rw [hs op hop]; decide)
      simp only [Disk.get] at e2 e3 e4
      generalize d.applyAll (ps.map fun p => SOp.write .bitfield (p * Spec.pageBytes) (c.bitfield.pageBytes p)) = dd at *
      obtain ⟨t1, da1, b1, o1⟩ := dd
      obtain ⟨t0, da0, b0, o0⟩ := d
      simp only at e1 e2 e3 e4
      rw [e1, e2, e3, e4]
    -- all pages written
    have hdurP : Durable C { d with bitfield := writePages c.bitfield d.bitfield c.bitfield.dirty } hf a0 es a :=
      durable_pages C d _ hf a0 es a c.bitfield c.bitfield.dirty hdur hrep.bits rfl rfl rfl rfl
    have hunf : ∀ dd o, (o + 1) * 2 ^ dd ≤ a.blocks.size → ∀ n, c.tree.unflushed[Flat.index dd o]? = some n → n = nodeAt C a.blocks dd o := by
      intro dd o hb n hu
      have hold := hrep.nodes dd o hb
      simp only [Tree.node?, hu] at hold
      cases hbk : n.blank with
      | true => simp [hbk] at hold
      | false => simpa [hbk] using hold
    by_cases hk1 : k < P.length
    · -- a page write torn
      rw [tornApply_left _ _ _ _ _ (by simp only [List.length_append]; omega), tornApply_left _ _ _ _ _ hk1]
      have hkd : k < c.bitfield.dirty.length := by rw [hPdef, List.length_map] at hk1; exact hk1
      have hget : P[k]? = some (SOp.write .bitfield (c.bitfield.dirty[k] * Spec.pageBytes) (c.bitfield.pageBytes c.bitfield.dirty[k])) := by
        rw [hPdef, List.getElem?_map, List.getElem?_eq_getElem hkd]; rfl
      unfold tornApply
      simp only [hget]
      rw [hPdef, ← List.map_take, hdP]
      obtain ⟨e1, e2, e3, e4⟩ := apply_write_bitfield { d with bitfield := writePages c.bitfield d.bitfield (c.bitfield.dirty.take k) }
        (c.bitfield.dirty[k] * Spec.pageBytes) ((c.bitfield.pageBytes c.bitfield.dirty[k]).take t)
      have hd1 := durable_pages C d { d with bitfield := writePages c.bitfield d.bitfield (c.bitfield.dirty.take k) } hf a0 es a
        c.bitfield (c.bitfield.dirty.take k) hdur hrep.bits rfl rfl rfl rfl
      exact ⟨hf, a0, es, durable_tornPage C _ _ hf a0 es a c.bitfield _ t hd1 hrep.bits e1 e2 e3 e4⟩
    · by_cases hk2 : k < P.length + T.length
      · -- a node write torn
        rw [tornApply_left _ _ _ _ _ (by simp only [List.length_append]; omega), tornApply_right _ _ _ _ _ (by omega)]
        generalize hm : k - P.length = m
        have hmL : m < (flushList c.tree).length := by rw [hTdef, List.length_map] at hk2; omega
        have hget : T[m]? = some (SOp.write .tree ((flushList c.tree)[m].index * Spec.nodeSize) (nodeBytes (flushList c.tree)[m])) := by
          rw [hTdef, List.getElem?_map, List.getElem?_eq_getElem hmL]; rfl
        unfold tornApply
        simp only [hget]
        rw [hPdef, hdP, hTdef, ← List.map_take, applyAll_tree_writes]
        have hd2 := durable_slots C _ { d with bitfield := writePages c.bitfield d.bitfield c.bitfield.dirty, tree := writeSlots d.tree ((flushList c.tree).take m) } hf a0 es a c.tree m hdurP hrep.mapwf hrep.nodes rfl rfl rfl rfl
        obtain ⟨e1, e2, e3, e4⟩ := apply_write_tree { d with bitfield := writePages c.bitfield d.bitfield c.bitfield.dirty, tree := writeSlots d.tree ((flushList c.tree).take m) } ((flushList c.tree)[m].index * Spec.nodeSize) ((nodeBytes (flushList c.tree)[m]).take t)
        have hnmem := flushList_mem c.tree hrep.mapwf (flushList c.tree)[m] (List.getElem_mem hmL)
        exact ⟨hf, a0, es, durable_tornSlot C _ _ hf a0 es a c.tree (flushList c.tree)[m] t hd2.toDurable0 hrep.mapwf
          (fun dd o hb hu => hunf dd o hb _ hu) hnmem e1 e2 e3 e4⟩
      · obtain ⟨off, bs, tr, hOdef, htr⟩ := hOhead
        by_cases hk3 : k = P.length + T.length
        · -- the header write torn
          have hkO : (P ++ T ++ O)[k]? = some (SOp.write .oplog off bs) := by
            rw [List.getElem?_append_right (by simp only [List.length_append]; omega), hOdef]
            have : k - (P ++ T).length = 0 := by simp only [List.length_append]; omega
            rw [this]; rfl
          have hcrc' := hcrc off bs hkO
          rw [tornApply_right _ _ _ _ _ (by simp only [List.length_append]; omega)] at hcrc' ⊢
          have hz : k - (P ++ T).length = 0 := by simp only [List.length_append]; omega
          rw [hz] at hcrc' ⊢
          have hO0 : O[0]? = some (SOp.write .oplog off bs) := by rw [hOdef]; rfl
          unfold tornApply at hcrc' ⊢
          simp only [hO0, List.take_zero, applyAll_nil] at hcrc' ⊢
          -- the stores after all pages and all nodes
          have hd3eq : d.applyAll (P ++ T) = { d with bitfield := writePages c.bitfield d.bitfield c.bitfield.dirty, tree := writeSlots d.tree (flushList c.tree) } := by
            rw [Journal.applyAll_append, hPdef, hdP, hTdef, applyAll_tree_writes]
          rw [hd3eq] at hcrc' ⊢
          have hd3 := durable_slots C _ { d with bitfield := writePages c.bitfield d.bitfield c.bitfield.dirty, tree := writeSlots d.tree ((flushList c.tree).take (flushList c.tree).length) } hf a0 es a c.tree _ hdurP hrep.mapwf hrep.nodes rfl rfl rfl rfl
          rw [List.take_length] at hd3
          obtain ⟨e1, e2, e3, e4⟩ := apply_write_oplog { d with bitfield := writePages c.bitfield d.bitfield c.bitfield.dirty, tree := writeSlots d.tree (flushList c.tree) } off (bs.take t)
          rw [e3] at hcrc'
          have hop : (Oplog.flush c.oplog c.header false).2.head? = some (SOp.write .oplog off bs) := by rw [hO, hOdef]; rfl
          have hinv := opinv_torn_header c.oplog d.oplog hf es c.header t hp.oplog (headerOK_of_shape _ hp.shape) off bs hop hcrc'
          exact ⟨hf, a0, es, durable_oplog C _ _ hf a0 es a hd3.toDurable0 e1 e2 e4 (by rw [e3]; exact opimage_of_inv c.oplog _ hf es hinv)⟩
        · -- the truncate, or beyond the journal: no write there
          apply hplain
          intro st o b hget
          rw [List.getElem?_append_right (by simp only [List.length_append]; omega), hOdef] at hget
          have hge : 1 ≤ k - (P ++ T).length := by simp only [List.length_append]; omega
          obtain ⟨m, hm⟩ : ∃ m, k - (P ++ T).length = m + 1 := ⟨k - (P ++ T).length - 1, by omega⟩
          rw [hm] at hget
          cases m with
          | zero => simp at hget; exact htr st o b hget
          | succ m => simp at hget
  · -- no flush: nothing to tear
    simp only [hcond, ite_false] at hplain ⊢
    exact hplain (fun st o b hh => by simp at hh)

/-- an oplog write inside a flush is its header write: it starts inside the two header slots -/
theorem maybeFlush_oplog_off (c : Core) (m off : Nat) (bs : Bytes) (h : c.maybeFlush.2[m]? = some (.write .oplog off bs)) :
    off < Spec.entriesOffset := by
  rw [maybeFlush_eq] at h
  split at h
  · simp only [Core.flushAll] at h
    have hmem := List.mem_of_getElem? h
    rcases List.mem_append.mp hmem with h1 | h3
    · rcases List.mem_append.mp h1 with h1 | h2
      · have := Journal.bitfieldFlush_store c.bitfield _ h1; simp [SOp.store] at this
      · have := Journal.treeFlush_store c.tree _ h2; simp [SOp.store] at this
    · simp only [Oplog.flush, Bool.false_eq_true, ite_false, Oplog.insertHeader, List.mem_cons, SOp.write.injEq, true_and,
        List.not_mem_nil, or_false, reduceCtorEq] at h3
      obtain ⟨h4, _⟩ := h3
      rw [h4]
      split <;> decide
  · simp at h

/-- the data store after a (possibly partial) write behind everything the log holds -/
theorem data_behind (C : Crypto) (c : Core) (d : Disk) (a : Abs) (hrep : Rep C c d a) (bs : Bytes) :
    ∀ i, a.held i = true → ∀ k, k < sz a.blocks i →
      psum a.blocks i + k < (d.data.write (totalBytes a.blocks) bs).size
        ∧ (d.data.write (totalBytes a.blocks) bs).byte (psum a.blocks i + k) = (a.blocks.getD i []).getD k 0 := by
  intro i hi kk hkk
  obtain ⟨o1, o2⟩ := hrep.data i hi kk hkk
  have hin := hrep.heldLt i hi
  have h1 := psum_succ_gt a.blocks i kk hkk
  have h2 := psum_mono a.blocks (show i + 1 ≤ a.blocks.size by omega)
  have h3 := psum_total a.blocks
  rw [File.size_write, File.byte_write]
  have : ¬ (totalBytes a.blocks ≤ psum a.blocks i + kk ∧ psum a.blocks i + kk < totalBytes a.blocks + bs.length) := by omega
  simp only [this, ite_false]
  exact ⟨by omega, o2⟩

/-- **C07 on the model, one call.**  Whatever prefix of the call's storage operations reached the stores, with
    the next write torn after any number of bytes: the stores are durable for the log before the call or for
    the log after it.  `hcrc`: if the torn write is a header write, the half-written slot fails the checksum. -/
theorem torn_step (C : Crypto) (hC : HashWF C) (hS : SignWF C) (hTw : TreeWF C) (c : Core) (d : Disk) (hf : Header) (a0 a : Abs)
    (es : List Entry) (hrep : Rep C c d a) (hp : Persist C c d hf a0 es a) (op : Op) (hv : Valid a op) (hl : Limits a op) (k t : Nat)
    (hcrc : ∀ off bs, (journalC C (c, d) op)[k]? = some (.write .oplog off bs) → off < Spec.entriesOffset →
      validateLeader (((tornDisk C (c, d) op k t).oplog.toList.drop off).take Spec.headerSize) = none) :
    (∃ hf' a0' es', Durable0 C (tornDisk C (c, d) op k t) hf' a0' es' a)
      ∨ (∃ hf' a0' es', Durable0 C (tornDisk C (c, d) op k t) hf' a0' es' (a.step op).1) := by
  have hdur := persist_durable C c d hf a0 es a hrep hp
  -- a call without storage operations
  have hnone : journalC C (c, d) op = [] → (∃ hf' a0' es', Durable0 C (tornDisk C (c, d) op k t) hf' a0' es' a) := by
    intro hj
    refine ⟨hf, a0, es, ?_⟩
    unfold tornDisk
    rw [hj, tornApply_notWrite _ _ _ _ (fun st o b hh => by simp at hh)]
    simpa [Disk.applyAll] using hdur.toDurable0
  cases op with
  | has i => exact Or.inl (hnone rfl)
  | info => exact Or.inl (hnone rfl)
  | get i =>
    have hj : (c.getBlock d i).journal = [] := by
      unfold Core.getBlock
      split
      · rfl
      · split
        · rfl
        · split
          · rfl
          · split <;> rfl
    exact Or.inl (hnone hj)
  | append batch =>
    by_cases hemp : batch.isEmpty = true
    · obtain ⟨seed, hseed⟩ : ∃ seed, c.secret = some seed := Option.isSome_iff_exists.mp hrep.writer
      have hj : (c.appendBatch C batch).journal = [] := by simp [Core.appendBatch, hseed, hemp]
      exact Or.inl (hnone hj)
    · have hne : batch ≠ [] := by intro e; apply hemp; simp [e]
      obtain ⟨c1, entry, ow, how, hentOK, hjournal, hrep1, hp1⟩ := append_mid C hC hS hTw c d hf a0 a es hrep hp batch hne hv hl
      have hjc : journalC C (c, d) (.append batch) = [SOp.write .data (totalBytes a.blocks) batch.flatten, ow] ++ c1.maybeFlush.2 := hjournal
      unfold tornDisk at hcrc ⊢
      rw [hjc] at hcrc ⊢
      by_cases hk2 : 2 ≤ k
      · -- inside the flush
        right
        rw [tornApply_right _ _ _ _ _ (by simpa using hk2)] at hcrc ⊢
        apply torn_flush C hC c1 _ hf a0 _ _ hrep1 hp1
        intro off bs hget
        apply hcrc off bs
        · rw [List.getElem?_append_right (by simpa using hk2)]; exact hget
        · exact maybeFlush_oplog_off c1 _ off bs hget
      · by_cases hk0 : k = 0
        · -- the data write torn
          left
          subst hk0
          refine ⟨hf, a0, es, ?_⟩
          unfold tornApply
          simp only [List.cons_append, List.getElem?_cons_zero, List.take_zero, applyAll_nil]
          obtain ⟨e1, e2, e3, e4⟩ := apply_write_data d (totalBytes a.blocks) (batch.flatten.take t)
          exact (durable_congr C d _ hf a0 es a hdur e1 e2 e3 (by rw [e4]; exact data_behind C c d a hrep _)).toDurable0
        · -- the entry write torn
          have hk1 : k = 1 := by omega
          subst hk1
          unfold tornApply
          simp only [List.cons_append, List.getElem?_cons_succ, List.getElem?_cons_zero, List.take_succ_cons, List.take_zero, how,
            applyAll_one]
          obtain ⟨e1, e2, e3, e4⟩ := apply_write_data d (totalBytes a.blocks) batch.flatten
          obtain ⟨g1, g2, g3, g4⟩ := apply_write_oplog (d.apply (SOp.write .data (totalBytes a.blocks) batch.flatten))
            (Spec.entriesOffset + c.oplog.entriesByteLength) ((frame (encEntry entry) c.oplog.currentBit false).take t)
          by_cases htl : t < (frame (encEntry entry) c.oplog.currentBit false).length
          · left
            refine ⟨hf, a0, es, ?_⟩
            have hd1 := (durable_congr C d _ hf a0 es a hdur e1 e2 e3 (by rw [e4]; exact data_behind C c d a hrep _)).toDurable0
            exact durable_oplog C _ _ hf a0 es a hd1 g1 g2 g4 (by rw [g3, e3]; exact opimage_torn_entry c.oplog d.oplog hf es entry t hp.oplog hentOK htl)
          · -- all bytes arrived: the entry is logged
            right
            rw [List.take_of_length_le (by omega)]
            have := persist_durable C c1 _ hf a0 _ _ hrep1 hp1
            rw [how] at this
            exact ⟨hf, a0, _, this.toDurable0⟩
  | clear s e =>
    by_cases hge : s ≥ e
    · have hj : (c.clear d s e).journal = [] := by simp [Core.clear, hge]
      exact Or.inl (hnone hj)
    · obtain ⟨c1, ow, j2, how, hentOK, hjournal, hows, hj2s, hj2l, hj2w, hrep1, hp1⟩ := clear_mid C c d hf a0 a es hrep hp s e (by omega) hv hl
      have hjc : journalC C (c, d) (.clear s e) = (ow :: j2) ++ c1.maybeFlush.2 := hjournal
      unfold tornDisk at hcrc ⊢
      rw [hjc] at hcrc ⊢
      by_cases hkj : (ow :: j2).length ≤ k
      · right
        rw [tornApply_right _ _ _ _ _ hkj] at hcrc ⊢
        apply torn_flush C hC c1 _ hf a0 _ _ hrep1 hp1
        intro off bs hget
        apply hcrc off bs
        · rw [List.getElem?_append_right hkj]; exact hget
        · exact maybeFlush_oplog_off c1 _ off bs hget
      · have hklt : k < (ow :: j2).length := by omega
        rw [tornApply_left _ _ _ _ _ hklt]
        have hlogged := clear_logged C c c1 d hf a0 a es s e hge ow j2 hows hj2s hrep hrep1 hp1
        by_cases hk0 : k = 0
        · -- the entry write torn
          subst hk0
          unfold tornApply
          simp only [List.getElem?_cons_zero, List.take_zero, applyAll_nil, how]
          obtain ⟨g1, g2, g3, g4⟩ := apply_write_oplog d (Spec.entriesOffset + c.oplog.entriesByteLength)
            ((frame (encEntry { bitfield := some ⟨true, s, e - s⟩ }) c.oplog.currentBit false).take t)
          by_cases htl : t < (frame (encEntry { bitfield := some ⟨true, s, e - s⟩ }) c.oplog.currentBit false).length
          · left
            exact ⟨hf, a0, es, durable_oplog C _ _ hf a0 es a hdur.toDurable0 g1 g2 g4
              (by rw [g3]; exact opimage_torn_entry c.oplog d.oplog hf es _ t hp.oplog hentOK htl)⟩
          · -- all bytes arrived: the entry is logged
            right
            rw [List.take_of_length_le (by omega)]
            rw [how] at hlogged
            exact ⟨hf, a0, _, hlogged.toDurable0⟩
        · -- the data deletion is no write: the stores are those after the entry write
          have hnw : ∀ st o b, (ow :: j2)[k]? ≠ some (SOp.write st o b) := by
            intro st o b hget
            obtain ⟨m, rfl⟩ : ∃ m, k = m + 1 := ⟨k - 1, by omega⟩
            rw [List.getElem?_cons_succ] at hget
            exact hj2w _ (List.mem_of_getElem? hget) st o b rfl
          rw [tornApply_notWrite _ _ _ _ hnw]
          have hk1 : k = 1 := by simp only [List.length_cons] at hklt; omega
          subst hk1
          right
          simp only [List.take_succ_cons, List.take_zero, applyAll_one]
          exact ⟨hf, a0, _, hlogged.toDurable0⟩

end HC.Torn
