import HC.Proofs.Crash
/-!
Torn writes (C07).  `torn_step`: for every call, every storage operation `k` of it that is a write, and every
number `t` of bytes of that write that arrive, the stores are `Durable0` for the log before the call or the
log after it — so `Hypercore::new` succeeds on them and yields a core representing one of the two logs
(`Crash.durable_open`).  Torn data, bitfield-page, tree-node and log-entry writes need no assumption (a
strict prefix of an entry frame is rejected by its length field; a half-written page holds, bit by bit, the
old or the new value; a half-written node slot is shadowed by the entry that carries the node, or holds a
node that was already there).  For a torn header write the theorem assumes what the format relies on: the
checksum rejects the half-written slot (`hcrc`).
-/
namespace HC.Torn
open HC HC.Codec HC.Flat HC.Tree HC.RefTree HC.RefProof HC.Offsets HC.TreeStore HC.LogSpec HC.Core HC.Oplog HC.LiveRefine
  HC.BitfieldPages HC.OplogBytes HC.FormatLimits HC.Touch HC.Persist HC.Crash

/-! ### `tornApply` on concatenated journals -/

theorem tornApply_right (d : Disk) (pre rest : List SOp) (k t : Nat) (h : pre.length ≤ k) :
    tornApply d (pre ++ rest) k t = tornApply (d.applyAll pre) rest (k - pre.length) t := by
  unfold tornApply
  rw [List.getElem?_append_right h, take_beyond pre rest k h, Journal.applyAll_append]

theorem tornApply_left (d : Disk) (pre rest : List SOp) (k t : Nat) (h : k < pre.length) :
    tornApply d (pre ++ rest) k t = tornApply d pre k t := by
  unfold tornApply
  rw [List.getElem?_append_left h]
  have : (pre ++ rest).take k = pre.take k := by
    rw [List.take_append]
    have : k - pre.length = 0 := by omega
    simp [this]
  rw [this]

/-- where the journal has no write at `k`, a torn crash is a plain crash -/
theorem tornApply_notWrite (d : Disk) (j : List SOp) (k t : Nat) (h : ∀ st off bs, j[k]? ≠ some (.write st off bs)) :
    tornApply d j k t = d.applyAll (j.take k) := by
  unfold tornApply
  split
  · rename_i st off bs heq; exact absurd heq (h st off bs)
  · rfl

/-! ### the single torn writes -/

/-- replacing the oplog store by another image of the same header and entries -/
theorem durable_oplog (C : Crypto) (d d' : Disk) (hf : Header) (a0 : Abs) (es : List Entry) (a : Abs)
    (h : Durable0 C d hf a0 es a) (ht : d'.tree = d.tree) (hb : d'.bitfield = d.bitfield) (hd : d'.data = d.data)
    (ho : OpImage d'.oplog hf es) : Durable0 C d' hf a0 es a :=
  { oplog := ho
    hfLen := h.hfLen
    hfSig := h.hfSig
    hfSecret := h.hfSecret
    hfShape := h.hfShape
    oks := h.oks
    fileNodes := by rw [ht]; exact h.fileNodes
    stable := by rw [hb]; exact h.stable
    kept := by rw [hb]; exact h.kept
    low := by rw [hb]; exact h.low
    below := by rw [hb]; exact h.below
    held0Lt := h.held0Lt
    contig := h.contig
    small0 := h.small0
    trace := h.trace
    data := by rw [hd]; exact h.data }

/-- a bitfield page half written -/
theorem durable_tornPage (C : Crypto) (d d' : Disk) (hf : Header) (a0 : Abs) (es : List Entry) (a : Abs) (b : Bitfield) (p t : Nat)
    (h : Durable C d hf a0 es a) (hb : ∀ i, b.get i = a.held i)
    (ht : d'.tree = d.tree) (hbf : d'.bitfield = d.bitfield.write (p * Spec.pageBytes) ((b.pageBytes p).take t))
    (ho : d'.oplog = d.oplog) (hd : d'.data = d.data) : Durable0 C d' hf a0 es a := by
  have hbits := tornPage_bits b d.bitfield h.fileSize p t
  have hlt := trace_heldLt C a0 a es h.trace h.held0Lt
  exact {
    oplog := by rw [ho]; exact h.oplog
    hfLen := h.hfLen
    hfSig := h.hfSig
    hfSecret := h.hfSecret
    hfShape := h.hfShape
    oks := h.oks
    fileNodes := by rw [ht]; exact h.fileNodes
    stable := by
      intro i hu
      rw [hbf]
      rcases hbits i with e | e
      · rw [e]; exact h.stable i hu
      · rw [e, hb]; exact trace_untouched C a0 a es h.trace i hu
    kept := by
      intro i hh
      rw [hbf]
      rcases hbits i with e | e
      · rw [e]; exact h.kept i hh
      · rw [e, hb]; exact trace_kept C a0 a es h.trace i hh
    low := by
      intro i hi hh
      rw [hbf]
      rcases hbits i with e | e
      · rw [e]; exact h.low i hi hh
      · rw [e, hb]; exact trace_low C a0 a es h.trace i hi hh
    below := by
      intro i hi
      rw [hbf] at hi
      rcases hbits i with e | e
      · rw [e] at hi; exact h.below i hi
      · rw [e, hb] at hi; exact hlt i hi
    held0Lt := h.held0Lt
    contig := h.contig
    small0 := h.small0
    trace := h.trace
    data := by rw [hd]; exact h.data }

/-- a tree node half written: the nodes of the last flush are still there -/
theorem durable_tornSlot (C : Crypto) (d d' : Disk) (hf : Header) (a0 : Abs) (es : List Entry) (a : Abs) (t : Tree) (n : Node) (tt : Nat)
    (h : Durable0 C d hf a0 es a) (hwf : MapWF t.unflushed) (hN : ∀ dd o, (o + 1) * 2 ^ dd ≤ a.blocks.size →
      t.unflushed[Flat.index dd o]? = some n → n = nodeAt C a.blocks dd o)
    (hn : t.unflushed[n.index]? = some n)
    (ht : d'.tree = d.tree.write (n.index * Spec.nodeSize) ((nodeBytes n).take tt)) (hbf : d'.bitfield = d.bitfield)
    (ho : d'.oplog = d.oplog) (hd : d'.data = d.data) : Durable0 C d' hf a0 es a := by
  obtain ⟨l, hl⟩ := trace_blocks C a0 a es h.trace
  have hsz := trace_size_le C a0 a es h.trace
  have hw : n.hash.length = 32 := (hwf _ _ hn).2.1
  have hnodes : NodesOK C a0.blocks {} d'.tree := by
    rw [ht]
    intro dd o hb
    have hold0 := h.fileNodes dd o hb
    simp only [Tree.node?, Std.HashMap.getElem?_empty] at hold0 ⊢
    cases hr : d.tree.read (Flat.index dd o * Spec.nodeSize) Spec.nodeSize with
    | none => simp [hr] at hold0
    | some bytes =>
      have hblen : bytes.length = 40 := File.read_length _ _ _ _ hr
      have hdec : nodeOfBytes (Flat.index dd o) bytes = nodeAt C a0.blocks dd o := by
        simp only [hr] at hold0
        split at hold0
        · cases hold0
        · exact Option.some.inj hold0
      rw [tornSlot_read d.tree n hw tt (Flat.index dd o) bytes hr (by
        intro hidx
        have hu : t.unflushed[Flat.index dd o]? = some n := by rw [← hidx]; exact hn
        have e1 := hN dd o (Nat.le_trans hb hsz) hu
        have e2 : nodeAt C a.blocks dd o = nodeAt C a0.blocks dd o := by rw [hl]; exact nodeAt_append C a0.blocks l dd o hb
        rw [e1, e2, ← hdec]
        exact nodeBytes_nodeOfBytes _ bytes hblen)]
      simpa [hr] using hold0
  exact {
    oplog := by rw [ho]; exact h.oplog
    hfLen := h.hfLen
    hfSig := h.hfSig
    hfSecret := h.hfSecret
    hfShape := h.hfShape
    oks := h.oks
    fileNodes := hnodes
    stable := by rw [hbf]; exact h.stable
    kept := by rw [hbf]; exact h.kept
    low := by rw [hbf]; exact h.low
    below := by rw [hbf]; exact h.below
    held0Lt := h.held0Lt
    contig := h.contig
    small0 := h.small0
    trace := h.trace
    data := by rw [hd]; exact h.data }

/-! ### one write on the disk record -/

theorem apply_write_bitfield (d : Disk) (off : Nat) (bs : Bytes) :
    (d.apply (.write .bitfield off bs)).tree = d.tree ∧ (d.apply (.write .bitfield off bs)).bitfield = d.bitfield.write off bs
      ∧ (d.apply (.write .bitfield off bs)).oplog = d.oplog ∧ (d.apply (.write .bitfield off bs)).data = d.data := by
  obtain ⟨t, da, b, o⟩ := d; exact ⟨rfl, rfl, rfl, rfl⟩

theorem apply_write_tree (d : Disk) (off : Nat) (bs : Bytes) :
    (d.apply (.write .tree off bs)).tree = d.tree.write off bs ∧ (d.apply (.write .tree off bs)).bitfield = d.bitfield
      ∧ (d.apply (.write .tree off bs)).oplog = d.oplog ∧ (d.apply (.write .tree off bs)).data = d.data := by
  obtain ⟨t, da, b, o⟩ := d; exact ⟨rfl, rfl, rfl, rfl⟩

theorem apply_write_oplog (d : Disk) (off : Nat) (bs : Bytes) :
    (d.apply (.write .oplog off bs)).tree = d.tree ∧ (d.apply (.write .oplog off bs)).bitfield = d.bitfield
      ∧ (d.apply (.write .oplog off bs)).oplog = d.oplog.write off bs ∧ (d.apply (.write .oplog off bs)).data = d.data := by
  obtain ⟨t, da, b, o⟩ := d; exact ⟨rfl, rfl, rfl, rfl⟩

theorem apply_write_data (d : Disk) (off : Nat) (bs : Bytes) :
    (d.apply (.write .data off bs)).tree = d.tree ∧ (d.apply (.write .data off bs)).bitfield = d.bitfield
      ∧ (d.apply (.write .data off bs)).oplog = d.oplog ∧ (d.apply (.write .data off bs)).data = d.data.write off bs := by
  obtain ⟨t, da, b, o⟩ := d; exact ⟨rfl, rfl, rfl, rfl⟩

/-! ### a flush, with one of its writes torn -/

theorem torn_flush (C : Crypto) (hC : HashWF C) (c : Core) (d : Disk) (hf : Header) (a0 a : Abs) (es : List Entry)
    (hrep : Rep C c d a) (hp : Persist C c d hf a0 es a) (k t : Nat)
    (hcrc : ∀ off bs, c.maybeFlush.2[k]? = some (.write .oplog off bs) →
      validateLeader (((tornApply d c.maybeFlush.2 k t).oplog.toList.drop off).take Spec.headerSize) = none) :
    ∃ hf' a0' es', Durable0 C (tornApply d c.maybeFlush.2 k t) hf' a0' es' a := by
  have hdur := persist_durable C c d hf a0 es a hrep hp
  -- where the journal has no write at `k`, this is a plain crash
  have hplain : (∀ st off bs, c.maybeFlush.2[k]? ≠ some (.write st off bs)) →
      ∃ hf' a0' es', Durable0 C (tornApply d c.maybeFlush.2 k t) hf' a0' es' a := by
    intro hnw
    rw [tornApply_notWrite _ _ _ _ hnw]
    obtain ⟨hf', a0', es', hd⟩ := crash_flush C hC c d hf a0 a es hrep hp k
    exact ⟨hf', a0', es', hd.toDurable0⟩
  rw [maybeFlush_eq] at hcrc hplain ⊢
  by_cases hcond : c.skipFlush = 0 ∨ c.oplog.entriesByteLength ≥ Spec.maxEntriesBytes
  · simp only [hcond, ite_true, Core.flushAll] at hcrc hplain ⊢
    have hj1 := Journal.bitfieldFlush_store c.bitfield
    have hj2 := Journal.treeFlush_store c.tree
    have hj3 := Journal.oplogFlush_store c.oplog c.header false
    have hOhead : ∃ off bs tr, (Oplog.flush c.oplog c.header false).2 = [SOp.write .oplog off bs, tr] ∧ (∀ st o b, tr ≠ SOp.write st o b) := by
      simp only [Oplog.flush, Bool.false_eq_true, ite_false, Oplog.insertHeader]
      exact ⟨_, _, _, rfl, fun st o b hh => by cases hh⟩
    generalize hP : c.bitfield.flush.2 = P at hj1 hcrc hplain
    generalize hT : c.tree.flush.2 = T at hj2 hcrc hplain
    generalize hO : (Oplog.flush c.oplog c.header false).2 = O at hj3 hcrc hplain hOhead
    have hPdef : P = c.bitfield.dirty.map fun p => SOp.write .bitfield (p * Spec.pageBytes) (c.bitfield.pageBytes p) := by
      rw [← hP]; rfl
    have hTdef : T = (flushList c.tree).map fun n => SOp.write .tree (n.index * Spec.nodeSize) (nodeBytes n) := by
      rw [← hT]; exact flush_journal c.tree
    -- the disk after a list of page writes
    have hdP : ∀ ps : List Nat, (d.applyAll (ps.map fun p => SOp.write .bitfield (p * Spec.pageBytes) (c.bitfield.pageBytes p)))
        = { d with bitfield := writePages c.bitfield d.bitfield ps } := by
      intro ps
      have hs : ∀ op ∈ (ps.map fun p => SOp.write .bitfield (p * Spec.pageBytes) (c.bitfield.pageBytes p)), op.store = .bitfield := by
        intro op hop; obtain ⟨p, _, rfl⟩ := List.mem_map.mp hop; rfl
      have e1 := applyAll_bitfield_writes c.bitfield d ps
      have e2 := Journal.applyAll_other d _ .tree (fun op hop => by rw [hs op hop]; decide)
      have e3 := Journal.applyAll_other d _ .data (fun op hop => by rw [hs op hop]; decide)
      have e4 := Journal.applyAll_other d _ .oplog (fun op hop => by rw [hs op hop]; decide)
      simp only [Disk.get] at e2 e3 e4
      generalize d.applyAll (ps.map fun p => SOp.write .bitfield (p * Spec.pageBytes) (c.bitfield.pageBytes p)) = dd at *
      obtain ⟨t1, da1, b1, o1⟩ := dd
      obtain ⟨t0, da0, b0, o0⟩ := d
      simp only at e1 e2 e3 e4
      rw [e1, e2, e3, e4]
    -- all pages written
    have hdurP : Durable C { d with bitfield := writePages c.bitfield d.bitfield c.bitfield.dirty } hf a0 es a :=
      durable_pages C d _ hf a0 es a c.bitfield c.bitfield.dirty hdur hrep.bits rfl rfl rfl rfl
    have hunf : ∀ dd o, (o + 1) * 2 ^ dd ≤ a.blocks.size → ∀ n, c.tree.unflushed[Flat.index dd o]? = some n → n = nodeAt C a.blocks dd o := by
      intro dd o hb n hu
      have hold := hrep.nodes dd o hb
      simp only [Tree.node?, hu] at hold
      cases hbk : n.blank with
      | true => simp [hbk] at hold
      | false => simpa [hbk] using hold
    by_cases hk1 : k < P.length
    · -- a page write torn
      rw [tornApply_left _ _ _ _ _ (by simp only [List.length_append]; omega), tornApply_left _ _ _ _ _ hk1]
      have hkd : k < c.bitfield.dirty.length := by rw [hPdef, List.length_map] at hk1; exact hk1
      have hget : P[k]? = some (SOp.write .bitfield (c.bitfield.dirty[k] * Spec.pageBytes) (c.bitfield.pageBytes c.bitfield.dirty[k])) := by
        rw [hPdef, List.getElem?_map, List.getElem?_eq_getElem hkd]; rfl
      unfold tornApply
      simp only [hget]
      rw [hPdef, ← List.map_take, hdP]
      obtain ⟨e1, e2, e3, e4⟩ := apply_write_bitfield { d with bitfield := writePages c.bitfield d.bitfield (c.bitfield.dirty.take k) }
        (c.bitfield.dirty[k] * Spec.pageBytes) ((c.bitfield.pageBytes c.bitfield.dirty[k]).take t)
      have hd1 := durable_pages C d { d with bitfield := writePages c.bitfield d.bitfield (c.bitfield.dirty.take k) } hf a0 es a
        c.bitfield (c.bitfield.dirty.take k) hdur hrep.bits rfl rfl rfl rfl
      exact ⟨hf, a0, es, durable_tornPage C _ _ hf a0 es a c.bitfield _ t hd1 hrep.bits e1 e2 e3 e4⟩
    · by_cases hk2 : k < P.length + T.length
      · -- a node write torn
        rw [tornApply_left _ _ _ _ _ (by simp only [List.length_append]; omega), tornApply_right _ _ _ _ _ (by omega)]
        generalize hm : k - P.length = m
        have hmL : m < (flushList c.tree).length := by rw [hTdef, List.length_map] at hk2; omega
        have hget : T[m]? = some (SOp.write .tree ((flushList c.tree)[m].index * Spec.nodeSize) (nodeBytes (flushList c.tree)[m])) := by
          rw [hTdef, List.getElem?_map, List.getElem?_eq_getElem hmL]; rfl
        unfold tornApply
        simp only [hget]
        rw [hPdef, hdP, hTdef, ← List.map_take, applyAll_tree_writes]
        have hd2 := durable_slots C _ { d with bitfield := writePages c.bitfield d.bitfield c.bitfield.dirty, tree := writeSlots d.tree ((flushList c.tree).take m) } hf a0 es a c.tree m hdurP hrep.mapwf hrep.nodes rfl rfl rfl rfl
        obtain ⟨e1, e2, e3, e4⟩ := apply_write_tree { d with bitfield := writePages c.bitfield d.bitfield c.bitfield.dirty, tree := writeSlots d.tree ((flushList c.tree).take m) } ((flushList c.tree)[m].index * Spec.nodeSize) ((nodeBytes (flushList c.tree)[m]).take t)
        have hnmem := flushList_mem c.tree hrep.mapwf (flushList c.tree)[m] (List.getElem_mem hmL)
        exact ⟨hf, a0, es, durable_tornSlot C _ _ hf a0 es a c.tree (flushList c.tree)[m] t hd2.toDurable0 hrep.mapwf
          (fun dd o hb hu => hunf dd o hb _ hu) hnmem e1 e2 e3 e4⟩
      · obtain ⟨off, bs, tr, hOdef, htr⟩ := hOhead
        by_cases hk3 : k = P.length + T.length
        · -- the header write torn
          have hkO : (P ++ T ++ O)[k]? = some (SOp.write .oplog off bs) := by
            rw [List.getElem?_append_right (by simp only [List.length_append]; omega), hOdef]
            have : k - (P ++ T).length = 0 := by simp only [List.length_append]; omega
            rw [this]; rfl
          have hcrc' := hcrc off bs hkO
          rw [tornApply_right _ _ _ _ _ (by simp only [List.length_append]; omega)] at hcrc' ⊢
          have hz : k - (P ++ T).length = 0 := by simp only [List.length_append]; omega
          rw [hz] at hcrc' ⊢
          have hO0 : O[0]? = some (SOp.write .oplog off bs) := by rw [hOdef]; rfl
          unfold tornApply at hcrc' ⊢
          simp only [hO0, List.take_zero, applyAll_nil] at hcrc' ⊢
          -- the stores after all pages and all nodes
          have hd3eq : d.applyAll (P ++ T) = { d with bitfield := writePages c.bitfield d.bitfield c.bitfield.dirty, tree := writeSlots d.tree (flushList c.tree) } := by
            rw [Journal.applyAll_append, hPdef, hdP, hTdef, applyAll_tree_writes]
          rw [hd3eq] at hcrc' ⊢
          have hd3 := durable_slots C _ { d with bitfield := writePages c.bitfield d.bitfield c.bitfield.dirty, tree := writeSlots d.tree ((flushList c.tree).take (flushList c.tree).length) } hf a0 es a c.tree _ hdurP hrep.mapwf hrep.nodes rfl rfl rfl rfl
          rw [List.take_length] at hd3
          obtain ⟨e1, e2, e3, e4⟩ := apply_write_oplog { d with bitfield := writePages c.bitfield d.bitfield c.bitfield.dirty, tree := writeSlots d.tree (flushList c.tree) } off (bs.take t)
          rw [e3] at hcrc'
          have hop : (Oplog.insertHeader c.header 0 c.oplog.bits false).2.head? = some (SOp.write .oplog off bs) := by
            have : (Oplog.insertHeader c.header 0 c.oplog.bits false).2 = O := by rw [← hO]; simp [Oplog.flush]
            rw [this, hOdef]; rfl
          have hinv := opinv_torn_header c.oplog d.oplog hf es c.header false t hp.oplog (headerOK_of_shape _ hp.shape) off bs hop hcrc'
          exact ⟨hf, a0, es, durable_oplog C _ _ hf a0 es a hd3.toDurable0 e1 e2 e4 (by rw [e3]; exact opimage_of_inv c.oplog _ hf es hinv)⟩
        · -- the truncate, or beyond the journal: no write there
          apply hplain
          intro st o b hget
          rw [List.getElem?_append_right (by simp only [List.length_append]; omega), hOdef] at hget
          have hge : 1 ≤ k - (P ++ T).length := by simp only [List.length_append]; omega
          obtain ⟨m, hm⟩ : ∃ m, k - (P ++ T).length = m + 1 := ⟨k - (P ++ T).length - 1, by omega⟩
          rw [hm] at hget
          cases m with
          | zero => simp at hget; exact htr st o b hget
          | succ m => simp at hget
  · -- no flush: nothing to tear
    simp only [hcond, ite_false] at hplain ⊢
    exact hplain (fun st o b hh => by simp at hh)

/-- all dirty pages and all unflushed nodes written, the oplog untouched: durable for the same ghosts -/
theorem durable_sides (C : Crypto) (c : Core) (d : Disk) (hf : Header) (a0 a : Abs) (es : List Entry)
    (hrep : Rep C c d a) (hp : Persist C c d hf a0 es a) :
    Durable C (d.applyAll (c.bitfield.flush.2 ++ c.tree.flush.2)) hf a0 es a := by
  have hdur := persist_durable C c d hf a0 es a hrep hp
  have hj1 := Journal.bitfieldFlush_store c.bitfield
  rw [Journal.applyAll_append]
  have hP : c.bitfield.flush.2 = c.bitfield.dirty.map fun p => SOp.write .bitfield (p * Spec.pageBytes) (c.bitfield.pageBytes p) := rfl
  have ht1 : (d.applyAll c.bitfield.flush.2).tree = d.tree := tree_of_applyAll _ _ (fun op hop => by rw [hj1 op hop]; decide)
  have hd1 : (d.applyAll c.bitfield.flush.2).data = d.data := data_of_applyAll _ _ (fun op hop => by rw [hj1 op hop]; decide)
  have ho1 : (d.applyAll c.bitfield.flush.2).oplog = d.oplog := by
    have := Journal.applyAll_other d c.bitfield.flush.2 .oplog (fun op hop => by rw [hj1 op hop]; decide)
    simpa [Disk.get] using this
  have hb1 : (d.applyAll c.bitfield.flush.2).bitfield = writePages c.bitfield d.bitfield c.bitfield.dirty := by
    rw [hP]; exact applyAll_bitfield_writes c.bitfield d c.bitfield.dirty
  have hdP := durable_pages C d (d.applyAll c.bitfield.flush.2) hf a0 es a c.bitfield c.bitfield.dirty hdur hrep.bits ht1 hb1 ho1 hd1
  rw [flush_journal, applyAll_tree_writes]
  have hN : NodesOK C a.blocks c.tree (d.applyAll c.bitfield.flush.2).tree := by rw [ht1]; exact hrep.nodes
  have := durable_slots C (d.applyAll c.bitfield.flush.2) { (d.applyAll c.bitfield.flush.2) with tree := writeSlots (d.applyAll c.bitfield.flush.2).tree ((flushList c.tree).take (flushList c.tree).length) } hf a0 es a c.tree _ hdP hrep.mapwf hN rfl rfl rfl rfl
  rw [List.take_length] at this
  exact this

/-- an oplog write inside a flush is its header write: it starts inside the two header slots -/
theorem maybeFlush_oplog_off (c : Core) (m off : Nat) (bs : Bytes) (h : c.maybeFlush.2[m]? = some (.write .oplog off bs)) :
    off < Spec.entriesOffset := by
  rw [maybeFlush_eq] at h
  split at h
  · simp only [Core.flushAll] at h
    have hmem := List.mem_of_getElem? h
    rcases List.mem_append.mp hmem with h1 | h3
    · rcases List.mem_append.mp h1 with h1 | h2
      · have := Journal.bitfieldFlush_store c.bitfield _ h1; simp [SOp.store] at this
      · have := Journal.treeFlush_store c.tree _ h2; simp [SOp.store] at this
    · simp only [Oplog.flush, Bool.false_eq_true, ite_false, Oplog.insertHeader, List.mem_cons, SOp.write.injEq, true_and,
        List.not_mem_nil, or_false, reduceCtorEq] at h3
      obtain ⟨h4, _⟩ := h3
      rw [h4]
      split <;> decide
  · simp at h

/-- the data store after a (possibly partial) write behind everything the log holds -/
theorem data_behind (C : Crypto) (c : Core) (d : Disk) (a : Abs) (hrep : Rep C c d a) (bs : Bytes) :
    ∀ i, a.held i = true → ∀ k, k < sz a.blocks i →
      psum a.blocks i + k < (d.data.write (totalBytes a.blocks) bs).size
        ∧ (d.data.write (totalBytes a.blocks) bs).byte (psum a.blocks i + k) = (a.blocks.getD i []).getD k 0 := by
  intro i hi kk hkk
  obtain ⟨o1, o2⟩ := hrep.data i hi kk hkk
  have hin := hrep.heldLt i hi
  have h1 := psum_succ_gt a.blocks i kk hkk
  have h2 := psum_mono a.blocks (show i + 1 ≤ a.blocks.size by omega)
  have h3 := psum_total a.blocks
  rw [File.size_write, File.byte_write]
  have : ¬ (totalBytes a.blocks ≤ psum a.blocks i + kk ∧ psum a.blocks i + kk < totalBytes a.blocks + bs.length) := by omega
  simp only [this, ite_false]
  exact ⟨by omega, o2⟩

/-- `make_read_only` with one of its writes torn -/
theorem torn_ro (C : Crypto) (hC : HashWF C) (c : Core) (d : Disk) (hf : Header) (a0 a : Abs) (es : List Entry)
    (hrep : Rep C c d a) (hp : Persist C c d hf a0 es a) (hw : a.writable = true) (k t : Nat)
    (hcrc : ∀ off bs, c.makeReadOnly.journal[k]? = some (.write .oplog off bs) →
      validateLeader (((tornApply d c.makeReadOnly.journal k t).oplog.toList.drop off).take Spec.headerSize) = none) :
    (∃ hf' a0' es', Durable0 C (tornApply d c.makeReadOnly.journal k t) hf' a0' es' a)
      ∨ (∃ hf' a0' es', Durable0 C (tornApply d c.makeReadOnly.journal k t) hf' a0' es' { a with writable := false }) := by
  -- where the journal has no write at `k`, this is a plain crash
  have hplain : (∀ st off bs, c.makeReadOnly.journal[k]? ≠ some (.write st off bs)) →
      (∃ hf' a0' es', Durable0 C (tornApply d c.makeReadOnly.journal k t) hf' a0' es' a)
        ∨ (∃ hf' a0' es', Durable0 C (tornApply d c.makeReadOnly.journal k t) hf' a0' es' { a with writable := false }) := by
    intro hnw
    rw [tornApply_notWrite _ _ _ _ hnw]
    rcases crash_ro C hC c d hf a0 a es hrep hp hw k with ⟨x, y, z, hd⟩ | ⟨x, y, z, hd⟩
    · exact Or.inl ⟨x, y, z, hd.toDurable0⟩
    · exact Or.inr ⟨x, y, z, hd.toDurable0⟩
  have hsome : c.secret.isSome = true := by rw [hrep.writer]; exact hw
  have hrep1 := rep_drop_secret C c d a hrep
  generalize hc1 : ({ c with secret := none, header := { c.header with secret := none } } : Core) = c1 at hrep1
  have hj : c.makeReadOnly.journal = (c1.flushAll true).2 := by simp only [Core.makeReadOnly, hsome, ite_true, hc1]
  have c1b : c1.bitfield = c.bitfield := by rw [← hc1]
  have c1t : c1.tree = c.tree := by rw [← hc1]
  have c1o : c1.oplog = c.oplog := by rw [← hc1]
  have c1h : c1.header = { c.header with secret := none } := by rw [← hc1]
  have c1s : c1.header.secret = c1.secret := by rw [← hc1]
  have hokh : HeaderOK c1.header := headerOK_of_shape _ (by rw [c1h]; exact hdrShape_nosecret _ hp.shape)
  -- the complete call
  have hPf := flushAll_persist C hC c1 d hf _ es true hrep1 (by rw [c1o]; exact hp.oplog) hp.fileSize (by rw [c1b]; exact hp.dirty)
    (by rw [c1h]; exact hdrShape_nosecret _ hp.shape) (by rw [c1h]; exact hp.hdrLen) (by rw [c1h]; exact hp.hdrSig) c1s
    (by rw [c1t]; exact hp.forkU)
  obtain ⟨k1, k2, k3, k4, k5, k6, k7⟩ := flushAll_keeps C hC a.blocks c1 d true (by rw [c1t]; exact hrep.nodes) (by rw [c1t]; exact hrep.mapwf)
  have hRf : Rep C (c1.flushAll true).1 (d.applyAll (c1.flushAll true).2) { a with writable := false } := {
    writer := by rw [k6]; exact hrep1.writer
    tree := by show RootsOK C a.blocks _; rw [k1]; exact hrep1.tree
    nodes := k2
    mapwf := k3
    bits := by intro i; rw [k4]; exact hrep1.bits i
    heldLt := hrep.heldLt
    contig := by rw [k5]; exact ⟨fun i hi => by rw [k4]; exact hrep1.contig.1 i hi, by rw [k4]; exact hrep1.contig.2⟩
    data := by rw [k7]; exact hrep.data
    small := hrep.small }
  have hDf := persist_durable C _ _ _ _ _ _ hRf hPf
  have hDs := durable_sides C c d hf a0 a es hrep hp
  rw [hj] at hcrc hplain ⊢
  simp only [Core.flushAll] at hDf hcrc hplain ⊢
  rw [c1b, c1t, c1o] at hDf hcrc hplain ⊢
  have hj1 := Journal.bitfieldFlush_store c.bitfield
  have hj2 := Journal.treeFlush_store c.tree
  generalize hP : c.bitfield.flush.2 = P at hj1 hDf hDs hcrc hplain
  generalize hT : c.tree.flush.2 = T at hj2 hDf hDs hcrc hplain
  have hO3 : (Oplog.flush c.oplog c1.header true).2
      = (Oplog.insertHeader c1.header 0 c.oplog.bits true).2 ++ ((Oplog.insertHeader c1.header 0 (Oplog.insertHeader c1.header 0 c.oplog.bits true).1 true).2.take 1) := by
    simp [Oplog.flush]
  have hI : ∃ off bs tr, (Oplog.insertHeader c1.header 0 c.oplog.bits true).2 = [SOp.write .oplog off bs, tr] ∧ (∀ st o b, tr ≠ SOp.write st o b) := by
    simp only [Oplog.insertHeader]; exact ⟨_, _, _, rfl, fun st o b hh => by cases hh⟩
  have hI2 : ∃ off2 bs2, (Oplog.insertHeader c1.header 0 (Oplog.insertHeader c1.header 0 c.oplog.bits true).1 true).2.head? = some (SOp.write .oplog off2 bs2)
      ∧ ((Oplog.insertHeader c1.header 0 (Oplog.insertHeader c1.header 0 c.oplog.bits true).1 true).2.take 1) = [SOp.write .oplog off2 bs2] := by
    simp only [Oplog.insertHeader]; exact ⟨_, _, rfl, rfl⟩
  obtain ⟨off, bs, tr, hIe, htr⟩ := hI
  obtain ⟨off2, bs2, hI2h, hI2e⟩ := hI2
  have hOs : ∀ op ∈ (Oplog.flush c.oplog c1.header true).2, op.store = .oplog := Journal.oplogFlush_store c.oplog c1.header true
  generalize hO : (Oplog.flush c.oplog c1.header true).2 = O at hDf hO3 hOs hcrc hplain
  have hOe : O = [SOp.write .oplog off bs, tr, SOp.write .oplog off2 bs2] := by rw [hO3, hIe, hI2e]; rfl
  have hside : ∀ (m : Nat) (st : Store), st ≠ Store.oplog → ((d.applyAll (P ++ T)).applyAll (O.take m)).get st = (d.applyAll (P ++ T)).get st := by
    intro m st hst
    exact Journal.applyAll_other _ (O.take m) st (fun op hop => by rw [hOs op (List.mem_of_mem_take hop)]; exact fun e => hst e.symm)
  have hsideF : ∀ (st : Store), st ≠ Store.oplog → (d.applyAll (P ++ T ++ O)).get st = (d.applyAll (P ++ T)).get st := by
    intro st hst
    rw [Journal.applyAll_append d (P ++ T) O]
    exact Journal.applyAll_other _ O st (fun op hop => by rw [hOs op hop]; exact fun e => hst e.symm)
  have hopl0 : (d.applyAll (P ++ T)).oplog = d.oplog := by
    have h2 := Journal.applyAll_other d (P ++ T) .oplog (fun op hop => by
      rcases List.mem_append.mp hop with h | h
      · rw [hj1 op h]; decide
      · rw [hj2 op h]; decide)
    simpa [Disk.get] using h2
  by_cases hk : k < (P ++ T).length
  · -- a page or node write torn: the same stores as a flush of the writable core with that write torn
    left
    have hcc : Rep C { c with skipFlush := 0 } d a := ⟨hrep.writer, hrep.tree, hrep.nodes, hrep.mapwf, hrep.bits, hrep.heldLt, hrep.contig, hrep.data, hrep.small⟩
    have hpc : Persist C { c with skipFlush := 0 } d hf a0 es a := { hp with }
    have hflush : ({ c with skipFlush := 0 } : Core).maybeFlush.2 = P ++ T ++ (Oplog.flush c.oplog c.header false).2 := by
      rw [maybeFlush_eq]; simp only [true_or, ite_true, Core.flushAll, hP, hT]
    have := torn_flush C hC { c with skipFlush := 0 } d hf a0 a es hcc hpc k t (by
      intro off' bs' hget
      exfalso
      rw [hflush, List.getElem?_append_left hk] at hget
      have hmem := List.mem_of_getElem? hget
      rcases List.mem_append.mp hmem with h | h
      · have := hj1 _ h; simp [SOp.store] at this
      · have := hj2 _ h; simp [SOp.store] at this)
    rw [hflush, tornApply_left _ _ _ _ _ hk] at this
    rw [tornApply_left _ _ _ _ _ hk]
    exact this
  · by_cases hk0 : k = (P ++ T).length
    · -- the first header write torn: the old header is still the newest
      left
      have hget : (P ++ T ++ O)[k]? = some (SOp.write .oplog off bs) := by
        rw [List.getElem?_append_right (by omega), hOe]
        have : k - (P ++ T).length = 0 := by omega
        rw [this]; rfl
      have hcrc' := hcrc off bs hget
      rw [tornApply_right _ _ _ _ _ (by omega)] at hcrc' ⊢
      have hz : k - (P ++ T).length = 0 := by omega
      rw [hz] at hcrc' ⊢
      have hO0 : O[0]? = some (SOp.write .oplog off bs) := by rw [hOe]; rfl
      unfold tornApply at hcrc' ⊢
      simp only [hO0, List.take_zero, applyAll_nil] at hcrc' ⊢
      obtain ⟨e1, e2, e3, e4⟩ := apply_write_oplog (d.applyAll (P ++ T)) off (bs.take t)
      rw [e3, hopl0] at hcrc'
      have hop : (Oplog.insertHeader c1.header 0 c.oplog.bits true).2.head? = some (SOp.write .oplog off bs) := by rw [hIe]; rfl
      have hinv := opinv_torn_header c.oplog d.oplog hf es c1.header true t hp.oplog hokh off bs hop hcrc'
      exact ⟨hf, a0, es, durable_oplog C _ _ hf a0 es a hDs.toDurable0 e1 e2 e4 (by rw [e3, hopl0]; exact opimage_of_inv c.oplog _ hf es hinv)⟩
    · by_cases hk2 : k = (P ++ T).length + 2
      · -- the second header write torn: the new header is in the other slot
        right
        have hget : (P ++ T ++ O)[k]? = some (SOp.write .oplog off2 bs2) := by
          rw [List.getElem?_append_right (by omega), hOe]
          have : k - (P ++ T).length = 2 := by omega
          rw [this]; rfl
        have hcrc' := hcrc off2 bs2 hget
        rw [tornApply_right _ _ _ _ _ (by omega)] at hcrc' ⊢
        have hz : k - (P ++ T).length = 2 := by omega
        rw [hz] at hcrc' ⊢
        have hO2 : O[2]? = some (SOp.write .oplog off2 bs2) := by rw [hOe]; rfl
        unfold tornApply at hcrc' ⊢
        simp only [hO2] at hcrc' ⊢
        -- the stores after header write and truncate
        have hst1 := opinv_insert c.oplog d.oplog hf es c1.header true hp.oplog hokh
        have hO2e : O.take 2 = (Oplog.insertHeader c1.header 0 c.oplog.bits true).2 := by rw [hOe, hIe]; rfl
        have hopl2 : ((d.applyAll (P ++ T)).applyAll (O.take 2)).oplog = (Oplog.insertHeader c1.header 0 c.oplog.bits true).2.foldl (fun g op => op.onFile g) d.oplog := by
          have h1 := applyAll_last_only (d.applyAll (P ++ T)) [] (O.take 2) .oplog (fun op hop => by cases hop)
            (fun op hop => hOs op (List.mem_of_mem_take hop))
          simp only [List.nil_append, Disk.get] at h1
          rw [h1, hopl0, hO2e]
        obtain ⟨e1, e2, e3, e4⟩ := apply_write_oplog ((d.applyAll (P ++ T)).applyAll (O.take 2)) off2 (bs2.take t)
        rw [e3, hopl2] at hcrc'
        have hinv := opinv_torn_header _ _ c1.header [] c1.header true t hst1 hokh off2 bs2 hI2h hcrc'
        refine ⟨c1.header, { a with writable := false }, [], ?_⟩
        apply durable_oplog C _ _ c1.header _ [] _ hDf.toDurable0
        · rw [e1]
          have h1 := hside 2 .tree (by decide); have h2 := hsideF .tree (by decide)
          simp only [Disk.get] at h1 h2; rw [h1, h2]
        · rw [e2]
          have h1 := hside 2 .bitfield (by decide); have h2 := hsideF .bitfield (by decide)
          simp only [Disk.get] at h1 h2; rw [h1, h2]
        · rw [e4]
          have h1 := hside 2 .data (by decide); have h2 := hsideF .data (by decide)
          simp only [Disk.get] at h1 h2; rw [h1, h2]
        · rw [e3, hopl2]; exact opimage_of_inv _ _ _ _ hinv
      · -- the truncate, or beyond the journal: no write there
        apply hplain
        intro st o b hget
        rw [List.getElem?_append_right (by omega), hOe] at hget
        obtain ⟨m, hm⟩ : ∃ m, k - (P ++ T).length = m + 1 := ⟨k - (P ++ T).length - 1, by omega⟩
        rw [hm] at hget
        cases m with
        | zero => simp at hget; exact htr st o b hget
        | succ m =>
          cases m with
          | zero => exfalso; omega
          | succ m => simp at hget

/-- **C07 on the model, one call.**  Whatever prefix of the call's storage operations reached the stores, with
    the next write torn after any number of bytes: the stores are durable for the log before the call or for
    the log after it.  `hcrc`: if the torn write is a header write, the half-written slot fails the checksum. -/
theorem torn_step (C : Crypto) (hC : HashWF C) (hS : SignWF C) (hTw : TreeWF C) (c : Core) (d : Disk) (hf : Header) (a0 a : Abs)
    (es : List Entry) (hrep : Rep C c d a) (hp : Persist C c d hf a0 es a) (op : Op) (hv : Valid a op) (hl : Limits a op) (k t : Nat)
    (hcrc : ∀ off bs, (journalC C (c, d) op)[k]? = some (.write .oplog off bs) → off < Spec.entriesOffset →
      validateLeader (((tornDisk C (c, d) op k t).oplog.toList.drop off).take Spec.headerSize) = none) :
    (∃ hf' a0' es', Durable0 C (tornDisk C (c, d) op k t) hf' a0' es' a)
      ∨ (∃ hf' a0' es', Durable0 C (tornDisk C (c, d) op k t) hf' a0' es' (a.step op).1) := by
  have hdur := persist_durable C c d hf a0 es a hrep hp
  -- a call without storage operations
  have hnone : journalC C (c, d) op = [] → (∃ hf' a0' es', Durable0 C (tornDisk C (c, d) op k t) hf' a0' es' a) := by
    intro hj
    refine ⟨hf, a0, es, ?_⟩
    unfold tornDisk
    rw [hj, tornApply_notWrite _ _ _ _ (fun st o b hh => by simp at hh)]
    simpa [Disk.applyAll] using hdur.toDurable0
  cases op with
  | has i => exact Or.inl (hnone rfl)
  | info => exact Or.inl (hnone rfl)
  | makeReadOnly =>
    by_cases hw : a.writable = true
    · have habs : (a.step .makeReadOnly).1 = { a with writable := false } := by simp [Abs.step, hw]
      rw [habs]
      exact torn_ro C hC c d hf a0 a es hrep hp hw k t (fun off bs hget => by
        have hoff : off < Spec.entriesOffset := by
          have hsome : c.secret.isSome = true := by rw [hrep.writer]; exact hw
          have hmem := List.mem_of_getElem? hget
          simp only [Core.makeReadOnly, hsome, ite_true, Core.flushAll] at hmem
          rcases List.mem_append.mp hmem with h1 | h3
          · rcases List.mem_append.mp h1 with h1 | h2
            · have := Journal.bitfieldFlush_store _ _ h1; simp [SOp.store] at this
            · have := Journal.treeFlush_store _ _ h2; simp [SOp.store] at this
          · simp only [Oplog.flush, ite_true, Oplog.insertHeader, List.take_succ_cons, List.take_zero, List.cons_append, List.nil_append,
              List.mem_cons, SOp.write.injEq, true_and, List.not_mem_nil, or_false, reduceCtorEq, false_or] at h3
            have hb : ∀ b : Bool, (if b = true then Spec.headerSize else 0) < Spec.entriesOffset := by
              intro b; cases b <;> decide
            rcases h3 with ⟨h4, _⟩ | ⟨h4, _⟩
            · rw [h4]; exact hb _
            · rw [h4]; exact hb _
        exact hcrc off bs hget hoff)
    · have hwf : a.writable = false := by simpa using hw
      have hnone' : c.secret.isSome = false := by rw [hrep.writer]; exact hwf
      have hj : c.makeReadOnly.journal = [] := by simp [Core.makeReadOnly, hnone']
      exact Or.inl (hnone hj)
  | get i =>
    have hj : (c.getBlock d i).journal = [] := by
      unfold Core.getBlock
      split
      · rfl
      · split
        · rfl
        · split
          · rfl
          · split <;> rfl
    exact Or.inl (hnone hj)
  | append batch =>
    by_cases hw : a.writable = true
    swap
    · have hwf : a.writable = false := by simpa using hw
      have hsec : c.secret = none := by
        have := hrep.writer; rw [hwf] at this
        cases hs : c.secret with
        | none => rfl
        | some x => rw [hs] at this; simp at this
      have hj : (c.appendBatch C batch).journal = [] := by simp [Core.appendBatch, hsec]
      exact Or.inl (hnone hj)
    by_cases hemp : batch.isEmpty = true
    · obtain ⟨seed, hseed⟩ : ∃ seed, c.secret = some seed := Option.isSome_iff_exists.mp (by rw [hrep.writer]; exact hw)
      have hj : (c.appendBatch C batch).journal = [] := by simp [Core.appendBatch, hseed, hemp]
      exact Or.inl (hnone hj)
    · have hne : batch ≠ [] := by intro e; apply hemp; simp [e]
      obtain ⟨c1, entry, ow, how, hentOK, hjournal, hrep1, hp1⟩ := append_mid C hC hS hTw c d hf a0 a es hrep hp batch hne hv hl hw
      have hjc : journalC C (c, d) (.append batch) = [SOp.write .data (totalBytes a.blocks) batch.flatten, ow] ++ c1.maybeFlush.2 := hjournal
      unfold tornDisk at hcrc ⊢
      rw [hjc] at hcrc ⊢
      by_cases hk2 : 2 ≤ k
      · -- inside the flush
        right
        rw [tornApply_right _ _ _ _ _ (by simpa using hk2)] at hcrc ⊢
        apply torn_flush C hC c1 _ hf a0 _ _ hrep1 hp1
        intro off bs hget
        apply hcrc off bs
        · rw [List.getElem?_append_right (by simpa using hk2)]; exact hget
        · exact maybeFlush_oplog_off c1 _ off bs hget
      · by_cases hk0 : k = 0
        · -- the data write torn
          left
          subst hk0
          refine ⟨hf, a0, es, ?_⟩
          unfold tornApply
          simp only [List.cons_append, List.getElem?_cons_zero, List.take_zero, applyAll_nil]
          obtain ⟨e1, e2, e3, e4⟩ := apply_write_data d (totalBytes a.blocks) (batch.flatten.take t)
          exact (durable_congr C d _ hf a0 es a hdur e1 e2 e3 (by rw [e4]; exact data_behind C c d a hrep _)).toDurable0
        · -- the entry write torn
          have hk1 : k = 1 := by omega
          subst hk1
          unfold tornApply
          simp only [List.cons_append, List.getElem?_cons_succ, List.getElem?_cons_zero, List.take_succ_cons, List.take_zero, how,
            applyAll_one]
          obtain ⟨e1, e2, e3, e4⟩ := apply_write_data d (totalBytes a.blocks) batch.flatten
          obtain ⟨g1, g2, g3, g4⟩ := apply_write_oplog (d.apply (SOp.write .data (totalBytes a.blocks) batch.flatten))
            (Spec.entriesOffset + c.oplog.entriesByteLength) ((frame (encEntry entry) c.oplog.currentBit false).take t)
          by_cases htl : t < (frame (encEntry entry) c.oplog.currentBit false).length
          · left
            refine ⟨hf, a0, es, ?_⟩
            have hd1 := (durable_congr C d _ hf a0 es a hdur e1 e2 e3 (by rw [e4]; exact data_behind C c d a hrep _)).toDurable0
            exact durable_oplog C _ _ hf a0 es a hd1 g1 g2 g4 (by rw [g3, e3]; exact opimage_torn_entry c.oplog d.oplog hf es entry t hp.oplog hentOK htl)
          · -- all bytes arrived: the entry is logged
            right
            rw [List.take_of_length_le (by omega)]
            have := persist_durable C c1 _ hf a0 _ _ hrep1 hp1
            rw [how] at this
            exact ⟨hf, a0, _, this.toDurable0⟩
  | clear s e =>
    by_cases hge : s ≥ e
    · have hj : (c.clear d s e).journal = [] := by simp [Core.clear, hge]
      exact Or.inl (hnone hj)
    · obtain ⟨c1, ow, j2, how, hentOK, hjournal, hows, hj2s, hj2l, hj2w, hrep1, hp1⟩ := clear_mid C c d hf a0 a es hrep hp s e (by omega) hv hl
      have hjc : journalC C (c, d) (.clear s e) = (ow :: j2) ++ c1.maybeFlush.2 := hjournal
      unfold tornDisk at hcrc ⊢
      rw [hjc] at hcrc ⊢
      by_cases hkj : (ow :: j2).length ≤ k
      · right
        rw [tornApply_right _ _ _ _ _ hkj] at hcrc ⊢
        apply torn_flush C hC c1 _ hf a0 _ _ hrep1 hp1
        intro off bs hget
        apply hcrc off bs
        · rw [List.getElem?_append_right hkj]; exact hget
        · exact maybeFlush_oplog_off c1 _ off bs hget
      · have hklt : k < (ow :: j2).length := by omega
        rw [tornApply_left _ _ _ _ _ hklt]
        have hlogged := clear_logged C c c1 d hf a0 a es s e hge ow j2 hows hj2s hrep hrep1 hp1
        by_cases hk0 : k = 0
        · -- the entry write torn
          subst hk0
          unfold tornApply
          simp only [List.getElem?_cons_zero, List.take_zero, applyAll_nil, how]
          obtain ⟨g1, g2, g3, g4⟩ := apply_write_oplog d (Spec.entriesOffset + c.oplog.entriesByteLength)
            ((frame (encEntry { bitfield := some ⟨true, s, e - s⟩ }) c.oplog.currentBit false).take t)
          by_cases htl : t < (frame (encEntry { bitfield := some ⟨true, s, e - s⟩ }) c.oplog.currentBit false).length
          · left
            exact ⟨hf, a0, es, durable_oplog C _ _ hf a0 es a hdur.toDurable0 g1 g2 g4
              (by rw [g3]; exact opimage_torn_entry c.oplog d.oplog hf es _ t hp.oplog hentOK htl)⟩
          · -- all bytes arrived: the entry is logged
            right
            rw [List.take_of_length_le (by omega)]
            rw [how] at hlogged
            exact ⟨hf, a0, _, hlogged.toDurable0⟩
        · -- the data deletion is no write: the stores are those after the entry write
          have hnw : ∀ st o b, (ow :: j2)[k]? ≠ some (SOp.write st o b) := by
            intro st o b hget
            obtain ⟨m, rfl⟩ : ∃ m, k = m + 1 := ⟨k - 1, by omega⟩
            rw [List.getElem?_cons_succ] at hget
            exact hj2w _ (List.mem_of_getElem? hget) st o b rfl
          rw [tornApply_notWrite _ _ _ _ hnw]
          have hk1 : k = 1 := by simp only [List.length_cons] at hklt; omega
          subst hk1
          right
          simp only [List.take_succ_cons, List.take_zero, applyAll_one]
          exact ⟨hf, a0, _, hlogged.toDurable0⟩

end HC.Torn
