import HC.Proofs.BlockGrowWriter
import HC.Proofs.BlockGrowGen
/-!
The reference proof of `BlockNew` / `BlockGrowGen` — block of the new part + upgrade — is the **writer's own answer** (C03):
`create_valueless_proof` for the request "block `i` (any node count) and an upgrade from `m`" on a writer whose log has
`n > m` blocks, `m ≤ i < n`.  The sub tree is the block's leaf; in `upgrade_proof` the first root of the loop — or the first
right sibling of the "connect existing tree" walk — that contains it is not sent but handed to `block_and_seek_proof`,
which climbs from the leaf to that node; from then on the local proof has its block section and the rest runs like a
plain upgrade.  `loop_root_step` and `walk_step` are single rounds of the two loops with the iterator arithmetic of the
honest run; `tail_sub`, `walk_none`, `walk_sub` and `upgradeLoop_up_sub` follow the honest position list.
-/
namespace HC.NewBlockWriter
open HC HC.Codec HC.Flat HC.Tree HC.RefTree HC.RefProof HC.Sound HC.Offsets HC.TreeStore HC.Complete HC.UpgradeSound HC.CreateTotal
  HC.Replica HC.Growth HC.HashReq HC.FullRoots

/-- one round of the root loop of `upgrade_proof` once the upgrade has started (`hasUp = true`): the root `(d, o)` at leaf `s`
    is sent, or — if the local proof has no block section yet and the root contains the sub tree — handed over to
    `block_and_seek_proof` -/
theorem loop_root_step (C : Crypto) (bs : Array Bytes) (t : Tree) (f : File) (hNodes : NodesOK C bs t f) (hN : bs.size < 2 ^ 64)
    (frm : Nat) (ix : Option Indexed) (sub : Nat) (p : LocalProof) (d o : Nat) (rest : List (Nat × Nat)) (fuel s : Nat) (acc : List Node) (hasUp : Bool)
    (hc : Cover ((d, o) :: rest) s bs.size) (hdec : DecDepth ((d, o) :: rest)) (hal : Align s bs.size) (hfrm : frm ≤ 2 * s)
    (hnc : (!hasUp && (iat d o).contains (frm - 2)) = false) :
    t.upgradeLoop f true ix false frm (2 * bs.size) sub (fuel + 1) (iat 0 s) hasUp acc p
      = (if (p.nodes.isNone && p.seek.isNone && (iat d o).contains sub) = true then
          (match t.blockAndSeekProof f ix false sub (Flat.index d o) p with
           | .error e => .error e
           | .ok p' => t.upgradeLoop f true ix false frm (2 * bs.size) sub fuel (iat 0 (s + 2 ^ d)) true acc p')
        else t.upgradeLoop f true ix false frm (2 * bs.size) sub fuel (iat 0 (s + 2 ^ d)) true (acc ++ [nodeAt C bs d o]) p)
      ∧ Cover rest (s + 2 ^ d) bs.size ∧ Align (s + 2 ^ d) bs.size ∧ (o + 1) * 2 ^ d ≤ bs.size ∧ s = o * 2 ^ d := by
  obtain ⟨c1, c2, c3⟩ := cover_lt _ s bs.size d o rest rfl hc hdec
  have hs : s < bs.size := by have := pow_pos' d; omega
  obtain ⟨J, hfr, hd, hfit, hal', hmax⟩ := fullRoot_canon s bs.size hal hs hN
  have hJ : J = d := by
    have h1 : 2 ^ J < 2 ^ (d + 1) := by omega
    have h2 : 2 ^ d < 2 ^ (J + 1) := by rw [two_pow_succ]; omega
    have := (Nat.pow_lt_pow_iff_right (by decide : 1 < 2)).mp h1
    have := (Nat.pow_lt_pow_iff_right (by decide : 1 < 2)).mp h2
    omega
  subst hJ
  have ho : s / 2 ^ J = o := by rw [c3]; exact Nat.mul_div_cancel _ (pow_pos' J)
  rw [ho] at hfr
  have hnext : (iat J o).nextTree = iat 0 (s + 2 ^ J) := by rw [← ho]; exact iat_nextTree J s hd
  have hspan : (o + 1) * 2 ^ J ≤ bs.size := by
    have : (o + 1) * 2 ^ J = s + 2 ^ J := by rw [c3]; ring
    omega
  have hnoskip : ¬ ((iat J o).index + (iat J o).factor / 2 < frm) := by
    have hidx : (iat J o).index = 2 * s + 2 ^ J - 1 := by rw [← ho]; exact index_aligned J s hd
    have hfac : (iat J o).factor / 2 = 2 ^ J := by simp only [iat, two_pow_succ]; omega
    have := pow_pos' J
    omega
  have hrest' : Cover rest (s + 2 ^ J) bs.size := by
    cases hc with
    | cons _ _ _ _ _ _ hr =>
      have : (o + 1) * 2 ^ J = s + 2 ^ J := by rw [c3]; ring
      rw [this] at hr; exact hr
  refine ⟨?_, hrest', hal', hspan, c3⟩
  rw [Tree.upgradeLoop.eq_def]
  simp only []
  rw [hfr]
  simp only [Bool.not_true, Bool.false_eq_true, ite_false, hnoskip, hnc, Bool.true_and]
  by_cases hcnd : (p.nodes.isNone && p.seek.isNone && (iat J o).contains sub) = true
  · simp only [hcnd, ite_true, hnext]
    rfl
  · simp only [hcnd, Bool.false_eq_true, ite_false]
    rw [show (iat J o).index = Flat.index J o from rfl, UpgradeComplete.requiredNode_ok C bs t f hNodes J o hspan]
    simp only [hnext]

/-- `block_and_seek_proof` for block `i` up to the node `(k, i / 2^k)`: the reference sibling path -/
theorem bsp_at (C : Crypto) (bs : Array Bytes) (t : Tree) (f : File) (hNodes : NodesOK C bs t f) (hN : bs.size < 2 ^ 64) (i k nn sr : Nat) (p : LocalProof)
    (hk : (i / 2 ^ k + 1) * 2 ^ k ≤ bs.size) :
    t.blockAndSeekProof f (some ⟨true, i * 2, nn, i⟩) false sr (Flat.index k (i / 2 ^ k)) p = .ok { p with nodes := some (sibPath C bs 0 i k) } := by
  have hk64 : k < 64 := by
    have h1 : 2 ^ k ≤ (i / 2 ^ k + 1) * 2 ^ k := Nat.le_mul_of_pos_left _ (Nat.succ_pos _)
    have h2 : 2 ^ k < 2 ^ 64 := Nat.lt_of_le_of_lt (Nat.le_trans h1 hk) hN
    exact (Nat.pow_lt_pow_iff_right (by decide)).mp h2
  have hnew : Iter.new (i * 2) = iat 0 i := by rw [Nat.mul_comm]; exact new_even i
  have hnewroot : Iter.new (Flat.index k (i / 2 ^ k)) = iat k (i / 2 ^ k) := new_index k _ (by omega)
  have hcont : (iat k (i / 2 ^ k)).contains (i * 2) = true := by
    rw [iat_contains]
    have h1 : i / 2 ^ k * 2 ^ k ≤ i := Nat.div_mul_le_self i (2 ^ k)
    have h2 : i < (i / 2 ^ k + 1) * 2 ^ k := by
      have := Nat.lt_succ_iff.mpr (Nat.le_refl (i / 2 ^ k))
      exact (Nat.div_lt_iff_lt_mul (pow_pos' k)).mp this
    have e1 : i / 2 ^ k * 2 ^ (k + 1) = 2 * (i / 2 ^ k * 2 ^ k) := by rw [pow_succ2]; ring
    have e2 : (i / 2 ^ k + 1) * 2 ^ (k + 1) = 2 * ((i / 2 ^ k + 1) * 2 ^ k) := by rw [pow_succ2]; ring
    rw [e1, e2]
    have : 2 * (i / 2 ^ k * 2 ^ k) ≤ i * 2 ∧ i * 2 + 2 ≤ 2 * ((i / 2 ^ k + 1) * 2 ^ k) := by omega
    simp [this.1, this.2]
  have hgo := blockProof_go C bs t f hNodes sr p k 80 0 i [] (by omega) (by simpa using hk)
  simp only [Nat.zero_add, List.nil_append] at hgo
  simp only [Tree.blockAndSeekProof, hnewroot, hcont, Bool.not_true, Bool.false_eq_true, ite_false, hnew, hgo]

/-- once the local proof has its block section, the rest of the root loop is the plain one -/
theorem tail_after (C : Crypto) (bs : Array Bytes) (t : Tree) (f : File) (hNodes : NodesOK C bs t f) (hN : bs.size < 2 ^ 64)
    (frm : Nat) (ix : Option Indexed) (sub : Nat) (p : LocalProof) (hp : p.nodes.isNone = false)
    (rest : List (Nat × Nat)) (fuel s : Nat) (acc : List Node) (hc : Cover rest s bs.size) (hdec : DecDepth rest) (hal : Align s bs.size)
    (hfrm : frm ≤ 2 * s) (hfuel : rest.length < fuel) :
    t.upgradeLoop f true ix false frm (2 * bs.size) sub fuel (iat 0 s) true acc p
      = .ok (true, acc ++ rest.map (fun q => nodeAt C bs q.1 q.2), p) := by
  rw [BlockGrowWriter.upgradeLoop_nosub t f ix false frm (2 * bs.size) sub p hp,
    ← BlockGrowWriter.upgradeLoop_nosub t f none false frm (2 * bs.size) (2 * bs.size) p hp]
  exact upgradeLoop_tail C bs t f hNodes hN frm (2 * bs.size) (Nat.le_refl _) p rest fuel s acc hc hdec hal hfrm hfuel

/-- the tail of the root loop when one of the remaining roots contains the requested block: that root goes to the block
    section, all others are sent -/
theorem tail_sub (C : Crypto) (bs : Array Bytes) (t : Tree) (f : File) (hNodes : NodesOK C bs t f) (hN : bs.size < 2 ^ 64)
    (frm i k nn : Nat) (b : List (Nat × Nat)) :
    ∀ (a : List (Nat × Nat)) (fuel s : Nat) (acc : List Node) (hasUp : Bool), Cover (a ++ (k, i / 2 ^ k) :: b) s bs.size → DecDepth (a ++ (k, i / 2 ^ k) :: b) →
      Align s bs.size → frm ≤ 2 * s → (a ++ (k, i / 2 ^ k) :: b).length < fuel →
      (∀ d o rest', a ++ (k, i / 2 ^ k) :: b = (d, o) :: rest' → (!hasUp && (iat d o).contains (frm - 2)) = false) →
      t.upgradeLoop f true (some ⟨true, i * 2, nn, i⟩) false frm (2 * bs.size) (i * 2) fuel (iat 0 s) hasUp acc {}
        = .ok (true, acc ++ (a ++ b).map (fun q => nodeAt C bs q.1 q.2), { nodes := some (sibPath C bs 0 i k) }) := by
  intro a
  induction a with
  | nil =>
    intro fuel s acc hasUp hc hdec hal hfrm hfuel H
    obtain ⟨fuel, rfl⟩ : ∃ x, fuel = x + 1 := ⟨fuel - 1, by simp at hfuel; omega⟩
    simp only [List.nil_append] at hc hdec hfuel ⊢
    obtain ⟨hstep, hrest, hal', hspan, _⟩ := loop_root_step C bs t f hNodes hN frm (some ⟨true, i * 2, nn, i⟩) (i * 2) {} k (i / 2 ^ k) b fuel s acc hasUp
      hc hdec hal hfrm (H k (i / 2 ^ k) b rfl)
    have hcont : (iat k (i / 2 ^ k)).contains (i * 2) = true := by
      rw [iat_contains]
      have h1 : i / 2 ^ k * 2 ^ k ≤ i := Nat.div_mul_le_self i (2 ^ k)
      have h2 : i < (i / 2 ^ k + 1) * 2 ^ k := by
        have := Nat.lt_succ_iff.mpr (Nat.le_refl (i / 2 ^ k))
        exact (Nat.div_lt_iff_lt_mul (pow_pos' k)).mp this
      have e1 : i / 2 ^ k * 2 ^ (k + 1) = 2 * (i / 2 ^ k * 2 ^ k) := by rw [pow_succ2]; ring
      have e2 : (i / 2 ^ k + 1) * 2 ^ (k + 1) = 2 * ((i / 2 ^ k + 1) * 2 ^ k) := by rw [pow_succ2]; ring
      rw [e1, e2]
      have : 2 * (i / 2 ^ k * 2 ^ k) ≤ i * 2 ∧ i * 2 + 2 ≤ 2 * ((i / 2 ^ k + 1) * 2 ^ k) := by omega
      simp [this.1, this.2]
    rw [hstep]
    have hcnd : (({} : LocalProof).nodes.isNone && ({} : LocalProof).seek.isNone && (iat k (i / 2 ^ k)).contains (i * 2)) = true := by
      rw [hcont]; rfl
    rw [if_pos hcnd, bsp_at C bs t f hNodes hN i k nn (i * 2) {} hspan]
    simp only []
    have hpk := pow_pos' k
    exact tail_after C bs t f hNodes hN frm _ _ _ rfl b fuel _ acc hrest (List.pairwise_cons.mp hdec).2 hal' (by omega) (by simp at hfuel; omega)
  | cons q a ih =>
    intro fuel s acc hasUp hc hdec hal hfrm hfuel H
    obtain ⟨d, o⟩ := q
    obtain ⟨fuel, rfl⟩ : ∃ x, fuel = x + 1 := ⟨fuel - 1, by simp at hfuel; omega⟩
    simp only [List.cons_append] at hc hdec hfuel ⊢
    obtain ⟨hstep, hrest, hal', hspan, hs⟩ := loop_root_step C bs t f hNodes hN frm (some ⟨true, i * 2, nn, i⟩) (i * 2) {} d o (a ++ (k, i / 2 ^ k) :: b) fuel s acc hasUp
      hc hdec hal hfrm (H d o _ rfl)
    -- this root ends before the one that holds the block
    have hbefore := BlockNew.cover_before ((d, o) :: a) (k, i / 2 ^ k) b s bs.size (by simpa using hc) (d, o) (by simp)
    simp only at hbefore
    have hcont : (iat d o).contains (i * 2) = false := by
      rw [iat_contains]
      have h1 : i / 2 ^ k * 2 ^ k ≤ i := Nat.div_mul_le_self i (2 ^ k)
      have e2 : (o + 1) * 2 ^ (d + 1) = 2 * ((o + 1) * 2 ^ d) := by rw [pow_succ2]; ring
      have : ¬ (i * 2 + 2 ≤ (o + 1) * 2 ^ (d + 1)) := by rw [e2]; omega
      simp [this]
    rw [hstep]
    have hcnd : ¬ ((({} : LocalProof).nodes.isNone && ({} : LocalProof).seek.isNone && (iat d o).contains (i * 2)) = true) := by
      rw [hcont]; simp
    rw [if_neg hcnd]
    have hpd := pow_pos' d
    rw [ih fuel (s + 2 ^ d) (acc ++ [nodeAt C bs d o]) true hrest (List.pairwise_cons.mp hdec).2 hal' (by omega) (by simp at hfuel ⊢; omega) (fun _ _ _ _ => by simp)]
    simp

/-- one level of the "connect existing tree" walk from leaf `m − 1` towards the root `(D, O)` -/
theorem walk_step (C : Crypto) (bs : Array Bytes) (t : Tree) (f : File) (hN : NodesOK C bs t f) (m : Nat)
    (ix : Option Indexed) (sub : Nat) (p : LocalProof) (D O : Nat) (hR : (O + 1) * 2 ^ D ≤ bs.size)
    (gap j fuel : Nat) (acc : List Node) (hj : j + (gap + 1) = D) (hO : (m - 1) / 2 ^ (j + (gap + 1)) = O) :
    t.connectWalk f true ix false sub (Flat.index D O) (2 * (m - 1)) (fuel + 1) (iat j ((m - 1) / 2 ^ j)) acc p
      = (if (m - 1) / 2 ^ j % 2 = 0 then
          (if (p.nodes.isNone && p.seek.isNone && (iat j ((m - 1) / 2 ^ j + 1)).contains sub) = true then
            (match t.blockAndSeekProof f ix false sub (Flat.index j ((m - 1) / 2 ^ j + 1)) p with
             | .error e => .error e
             | .ok p' => t.connectWalk f true ix false sub (Flat.index D O) (2 * (m - 1)) fuel (iat (j + 1) ((m - 1) / 2 ^ (j + 1))) acc p')
          else t.connectWalk f true ix false sub (Flat.index D O) (2 * (m - 1)) fuel (iat (j + 1) ((m - 1) / 2 ^ (j + 1)))
                (acc ++ [nodeAt C bs j ((m - 1) / 2 ^ j + 1)]) p)
        else t.connectWalk f true ix false sub (Flat.index D O) (2 * (m - 1)) fuel (iat (j + 1) ((m - 1) / 2 ^ (j + 1))) acc p)
      ∧ ((m - 1) / 2 ^ j % 2 = 0 → ((m - 1) / 2 ^ j + 1 + 1) * 2 ^ j ≤ (O + 1) * 2 ^ D) := by
  have hpj := pow_pos' j
  generalize hq : (m - 1) / 2 ^ j = q
  have hq1 : q * 2 ^ j ≤ m - 1 := by rw [← hq]; exact Nat.div_mul_le_self _ _
  have hq2 : m - 1 < (q + 1) * 2 ^ j := by
    rw [← hq]
    exact (Nat.div_lt_iff_lt_mul hpj).mp (Nat.lt_succ_self _)
  have hne : ¬ ((iat j q).index = Flat.index D O) := by
    intro e
    have := (index_inj j q D O e).1
    omega
  have hhalf : q / 2 = (m - 1) / 2 ^ (j + 1) := by rw [← hq, div_pow_succ']
  have hspanR : (q / 2 + 1) * 2 ^ (j + 1) ≤ (O + 1) * 2 ^ D := by
    have := span_le (q / 2) (j + 1) gap
    rw [hhalf, Nat.div_div_eq_div_mul, ← Nat.pow_add, show j + 1 + gap = j + (gap + 1) by omega, hO] at this
    rw [hhalf]
    rw [hj] at this
    exact this
  constructor
  · rw [Tree.connectWalk.eq_def]
    simp only [hne, ite_false, iat_sibling, iat_parent, sib_half]
    rw [hhalf]
    by_cases hev : q % 2 = 0
    · have hs : sib q = q + 1 := by unfold sib; simp [hev]
      have hgt : (iat j (sib q)).index > 2 * (m - 1) := by
        rw [hs]
        have : (iat j (q + 1)).index = (q + 1) * (2 * 2 ^ j) + (2 ^ j - 1) := index_eq j (q + 1)
        have e : (q + 1) * (2 * 2 ^ j) = 2 * ((q + 1) * 2 ^ j) := by ring
        omega
      have hsb : (sib q + 1) * 2 ^ j ≤ bs.size := by
        have := sib_bound q j
        omega
      have hreq : t.requiredNode f (iat j (sib q)).index = .ok (nodeAt C bs j (sib q)) := UpgradeComplete.requiredNode_ok C bs t f hN j (sib q) hsb
      simp only [hgt, ite_true, hev, Bool.true_and]
      rw [hs] at hreq ⊢
      by_cases hcnd : (p.nodes.isNone && p.seek.isNone && (iat j (q + 1)).contains sub) = true
      · simp only [hcnd, ite_true]
        rfl
      · simp only [hcnd, Bool.false_eq_true, ite_false, hreq]
    · have hs : sib q = q - 1 := by unfold sib; simp [hev]
      have hle : ¬ ((iat j (sib q)).index > 2 * (m - 1)) := by
        rw [hs]
        have : (iat j (q - 1)).index = (q - 1) * (2 * 2 ^ j) + (2 ^ j - 1) := index_eq j (q - 1)
        have e : (q - 1) * (2 * 2 ^ j) + 2 * 2 ^ j = 2 * (q * 2 ^ j) := by
          have : q = (q - 1) + 1 := by omega
          calc (q - 1) * (2 * 2 ^ j) + 2 * 2 ^ j = ((q - 1) + 1) * (2 * 2 ^ j) := by ring
            _ = q * (2 * 2 ^ j) := by rw [← this]
            _ = 2 * (q * 2 ^ j) := by ring
        omega
      simp only [hle, ite_false, hev]
  · intro hev
    have := sib_bound q j
    have hs : sib q = q + 1 := by unfold sib; simp [hev]
    rw [hs] at this
    omega

/-- the walk when no right sibling on the way contains the sub tree: all of them are sent -/
theorem walk_none (C : Crypto) (bs : Array Bytes) (t : Tree) (f : File) (hN : NodesOK C bs t f) (m : Nat)
    (ix : Option Indexed) (sub : Nat) (p : LocalProof) (D O : Nat) (hR : (O + 1) * 2 ^ D ≤ bs.size) :
    ∀ (gap j fuel : Nat) (acc : List Node), j + gap = D → (m - 1) / 2 ^ (j + gap) = O → gap < fuel →
      (∀ x ∈ rightSibs gap j ((m - 1) / 2 ^ j), (iat x.1 x.2).contains sub = false) →
      t.connectWalk f true ix false sub (Flat.index D O) (2 * (m - 1)) fuel (iat j ((m - 1) / 2 ^ j)) acc p
        = .ok (acc ++ (rightSibs gap j ((m - 1) / 2 ^ j)).map (fun q => nodeAt C bs q.1 q.2), p) := by
  intro gap
  induction gap with
  | zero =>
    intro j fuel acc hj hO hf _
    obtain ⟨fuel, rfl⟩ : ∃ x, fuel = x + 1 := ⟨fuel - 1, by omega⟩
    have : j = D := by omega
    subst this
    simp only [Nat.add_zero] at hO
    have : (iat j ((m - 1) / 2 ^ j)).index = Flat.index j O := by rw [hO]; rfl
    simp [connectWalk, this, rightSibs]
  | succ gap ih =>
    intro j fuel acc hj hO hf hnc
    obtain ⟨fuel, rfl⟩ : ∃ x, fuel = x + 1 := ⟨fuel - 1, by omega⟩
    obtain ⟨hstep, _⟩ := walk_step C bs t f hN m ix sub p D O hR gap j fuel acc hj hO
    rw [hstep]
    have hhalf : (m - 1) / 2 ^ j / 2 = (m - 1) / 2 ^ (j + 1) := div_pow_succ' (m - 1) j
    by_cases hev : (m - 1) / 2 ^ j % 2 = 0
    · have hc : (iat j ((m - 1) / 2 ^ j + 1)).contains sub = false := hnc (j, (m - 1) / 2 ^ j + 1) (by simp [rightSibs, hev])
      have hcnd : ¬ ((p.nodes.isNone && p.seek.isNone && (iat j ((m - 1) / 2 ^ j + 1)).contains sub) = true) := by rw [hc]; simp
      rw [if_pos hev, if_neg hcnd]
      rw [ih (j + 1) fuel _ (by omega) (by rw [show j + 1 + gap = j + (gap + 1) by omega]; exact hO) (by omega)
        (fun x hx => hnc x (by simp only [rightSibs, hev, ite_true, hhalf]; exact List.mem_append.mpr (Or.inr hx)))]
      simp only [rightSibs, hev, ite_true, hhalf]
      simp
    · rw [if_neg hev]
      rw [ih (j + 1) fuel _ (by omega) (by rw [show j + 1 + gap = j + (gap + 1) by omega]; exact hO) (by omega)
        (fun x hx => hnc x (by simp only [rightSibs, hev, ite_false, hhalf]; simpa using hx))]
      simp only [rightSibs, hev, ite_false, hhalf]
      simp

/-- the walk when one right sibling on the way contains the requested block: it goes to the block section -/
theorem walk_sub (C : Crypto) (bs : Array Bytes) (t : Tree) (f : File) (hN : NodesOK C bs t f) (hsz : bs.size < 2 ^ 64) (m : Nat) (hm0 : 0 < m)
    (i k nn : Nat) (D O : Nat) (hR : (O + 1) * 2 ^ D ≤ bs.size) (c : List (Nat × Nat)) :
    ∀ (gap j fuel : Nat) (acc : List Node) (a : List (Nat × Nat)), j + gap = D → (m - 1) / 2 ^ (j + gap) = O → gap < fuel →
      rightSibs gap j ((m - 1) / 2 ^ j) = a ++ (k, i / 2 ^ k) :: c → (∀ x ∈ a, (iat x.1 x.2).contains (i * 2) = false) →
      t.connectWalk f true (some ⟨true, i * 2, nn, i⟩) false (i * 2) (Flat.index D O) (2 * (m - 1)) fuel (iat j ((m - 1) / 2 ^ j)) acc {}
        = .ok (acc ++ (a ++ c).map (fun q => nodeAt C bs q.1 q.2), { nodes := some (sibPath C bs 0 i k) }) := by
  intro gap
  induction gap with
  | zero =>
    intro j fuel acc a _ _ _ hsplit _
    simp [rightSibs] at hsplit
  | succ gap ih =>
    intro j fuel acc a hj hO hf hsplit ha
    obtain ⟨fuel, rfl⟩ : ∃ x, fuel = x + 1 := ⟨fuel - 1, by omega⟩
    obtain ⟨hstep, hin⟩ := walk_step C bs t f hN m (some ⟨true, i * 2, nn, i⟩) (i * 2) {} D O hR gap j fuel acc hj hO
    rw [hstep]
    have hhalf : (m - 1) / 2 ^ j / 2 = (m - 1) / 2 ^ (j + 1) := div_pow_succ' (m - 1) j
    by_cases hev : (m - 1) / 2 ^ j % 2 = 0
    · simp only [rightSibs, hev, ite_true, hhalf, List.singleton_append] at hsplit
      rw [if_pos hev]
      cases a with
      | nil =>
        -- this sibling holds the block
        simp only [List.nil_append, List.cons.injEq, Prod.mk.injEq] at hsplit
        obtain ⟨⟨rfl, hoe⟩, hrest⟩ := hsplit
        have hcont : (iat j ((m - 1) / 2 ^ j + 1)).contains (i * 2) = true := by
          rw [hoe, iat_contains]
          have h1 : i / 2 ^ j * 2 ^ j ≤ i := Nat.div_mul_le_self i (2 ^ j)
          have h2 : i < (i / 2 ^ j + 1) * 2 ^ j := by
            have := Nat.lt_succ_iff.mpr (Nat.le_refl (i / 2 ^ j))
            exact (Nat.div_lt_iff_lt_mul (pow_pos' j)).mp this
          have e1 : i / 2 ^ j * 2 ^ (j + 1) = 2 * (i / 2 ^ j * 2 ^ j) := by rw [pow_succ2]; ring
          have e2 : (i / 2 ^ j + 1) * 2 ^ (j + 1) = 2 * ((i / 2 ^ j + 1) * 2 ^ j) := by rw [pow_succ2]; ring
          rw [e1, e2]
          have : 2 * (i / 2 ^ j * 2 ^ j) ≤ i * 2 ∧ i * 2 + 2 ≤ 2 * ((i / 2 ^ j + 1) * 2 ^ j) := by omega
          simp [this.1, this.2]
        have hcnd : (({} : LocalProof).nodes.isNone && ({} : LocalProof).seek.isNone && (iat j ((m - 1) / 2 ^ j + 1)).contains (i * 2)) = true := by
          rw [hcont]; rfl
        rw [if_pos hcnd, hoe]
        have hbound : (i / 2 ^ j + 1) * 2 ^ j ≤ bs.size := by
          have := hin hev
          rw [hoe] at this
          have hp := pow_pos' j
          have e : (i / 2 ^ j + 1) * 2 ^ j ≤ (i / 2 ^ j + 1 + 1) * 2 ^ j := Nat.mul_le_mul_right _ (by omega)
          omega
        rw [bsp_at C bs t f hN hsz i j nn (i * 2) {} hbound]
        simp only []
        rw [BlockGrowWriter.connectWalk_nosub t f _ false (i * 2) _ _ _ rfl,
          ← BlockGrowWriter.connectWalk_nosub t f none false (2 * bs.size) _ _ { nodes := some (sibPath C bs 0 i j) } rfl]
        rw [connectWalk_honest C bs t f hN m hm0 (2 * bs.size) (Nat.le_refl _) _ D O hR gap (j + 1) fuel acc (by omega)
          (by rw [show j + 1 + gap = j + (gap + 1) by omega]; exact hO) (by omega)]
        rw [hrest]
        simp
      | cons x a' =>
        simp only [List.cons_append, List.cons.injEq] at hsplit
        obtain ⟨hx, hrest⟩ := hsplit
        have hc : (iat j ((m - 1) / 2 ^ j + 1)).contains (i * 2) = false := by
          have := ha x (by simp)
          rw [← hx] at this
          exact this
        have hcnd : ¬ ((({} : LocalProof).nodes.isNone && ({} : LocalProof).seek.isNone && (iat j ((m - 1) / 2 ^ j + 1)).contains (i * 2)) = true) := by
          rw [hc]; simp
        rw [if_neg hcnd]
        rw [ih (j + 1) fuel _ a' (by omega) (by rw [show j + 1 + gap = j + (gap + 1) by omega]; exact hO) (by omega) hrest
          (fun y hy => ha y (List.mem_cons_of_mem _ hy))]
        rw [← hx]
        simp
    · simp only [rightSibs, hev, ite_false, hhalf, List.nil_append] at hsplit
      rw [if_neg hev]
      exact ih (j + 1) fuel acc a (by omega) (by rw [show j + 1 + gap = j + (gap + 1) by omega]; exact hO) (by omega) hsplit ha

/-- the root loop of `upgrade_proof` for "block `i` of the new part and an upgrade from `m`": the honest position list without
    the node that holds the block, and the block's sibling path up to that node as block section -/
theorem upgradeLoop_up_sub (C : Crypto) (bs : Array Bytes) (t : Tree) (f : File) (hNodes : NodesOK C bs t f) (hN : bs.size < 2 ^ 64)
    (m : Nat) (hm0 : 0 < m) (hmn : m < bs.size) (i k nn : Nat) :
    ∀ (ln : List (Nat × Nat)) (fuel s : Nat) (acc : List Node) (us a b : List (Nat × Nat)), Cover ln s bs.size → DecDepth ln → Align s bs.size →
      Up m s ln us → us = a ++ (k, i / 2 ^ k) :: b → ln.length < fuel →
      t.upgradeLoop f true (some ⟨true, i * 2, nn, i⟩) false (2 * m) (2 * bs.size) (i * 2) fuel (iat 0 s) false acc {}
        = .ok (true, acc ++ (a ++ b).map (fun q => nodeAt C bs q.1 q.2), { nodes := some (sibPath C bs 0 i k) }) := by
  intro ln
  induction ln with
  | nil =>
    intro fuel s acc us a b hc _ _ hup hsplit _
    exfalso
    have hs := UpgradeComplete.cover_nil_eq _ _ hc
    cases hup with
    | plain => simp at hsplit
  | cons q ln ih =>
    intro fuel s acc us a b hc hdec hal hup hsplit hfuel
    obtain ⟨d, o⟩ := q
    obtain ⟨fuel, rfl⟩ : ∃ x, fuel = x + 1 := ⟨fuel - 1, by simp at hfuel; omega⟩
    obtain ⟨c1, c2, c3⟩ := cover_lt _ s bs.size d o ln rfl hc hdec
    have hpd := pow_pos' d
    have hs : s < bs.size := by omega
    obtain ⟨J, hfr, hd, hfit, hal', hmax⟩ := fullRoot_canon s bs.size hal hs hN
    have hJ : J = d := by
      have h1 : 2 ^ J < 2 ^ (d + 1) := by omega
      have h2 : 2 ^ d < 2 ^ (J + 1) := by rw [two_pow_succ]; omega
      have := (Nat.pow_lt_pow_iff_right (by decide : 1 < 2)).mp h1
      have := (Nat.pow_lt_pow_iff_right (by decide : 1 < 2)).mp h2
      omega
    subst hJ
    have ho : s / 2 ^ J = o := by rw [c3]; exact Nat.mul_div_cancel _ (pow_pos' J)
    rw [ho] at hfr
    have hnext : (iat J o).nextTree = iat 0 (s + 2 ^ J) := by rw [← ho]; exact iat_nextTree J s hd
    have hE : (o + 1) * 2 ^ J = s + 2 ^ J := by rw [c3]; ring
    have hspan : (o + 1) * 2 ^ J ≤ bs.size := by omega
    have hidx : (iat J o).index = 2 * s + 2 ^ J - 1 := by rw [← ho]; exact index_aligned J s hd
    have hfac : (iat J o).factor / 2 = 2 ^ J := by simp only [iat, two_pow_succ]; omega
    have hrest' : Cover ln (s + 2 ^ J) bs.size := by
      cases hc with
      | cons _ _ _ _ _ _ hr => rw [hE] at hr; exact hr
    rcases hup.inv with ⟨hend, _, hup'⟩ | ⟨hsm, husq⟩ | ⟨gs, _, hlt, hgt, hg, husq⟩
    · -- the replica has this root: skipped
      have hskip : (iat J o).index + (iat J o).factor / 2 < 2 * m := by rw [hidx, hfac]; omega
      rw [Tree.upgradeLoop.eq_def]
      simp only []
      rw [hfr]
      simp only [Bool.not_true, Bool.false_eq_true, ite_false, hskip, ite_true, hnext]
      rw [hE] at hup'
      exact ih fuel (s + 2 ^ J) acc us a b hrest' (List.pairwise_cons.mp hdec).2 hal' hup' hsplit (by simp at hfuel; omega)
    · -- the replica's length is a root boundary of the writer: the remaining roots are sent, except the one with the block
      subst hsm
      subst husq
      have hnocont : (iat J o).contains (2 * s - 2) = false := by
        rw [iat_contains]
        have e : o * 2 ^ (J + 1) = 2 * (o * 2 ^ J) := by rw [two_pow_succ]; ring
        have : ¬ (o * 2 ^ (J + 1) ≤ 2 * s - 2) := by rw [e, ← c3]; omega
        simp [this]
      rw [hsplit] at hc hdec hfuel
      exact tail_sub C bs t f hNodes hN (2 * s) i k nn b a (fuel + 1) s acc false hc hdec hal (Nat.le_refl _) hfuel
        (fun d' o' rest' e => by
          rw [← hsplit] at e
          simp only [List.cons.injEq, Prod.mk.injEq] at e
          obtain ⟨⟨rfl, rfl⟩, _⟩ := e
          simp [hnocont])
    · -- the first new root: connect the replica's tree to it
      subst husq
      rw [← c3] at hlt
      have hnoskip : ¬ ((iat J o).index + (iat J o).factor / 2 < 2 * m) := by rw [hidx, hfac]; omega
      have hcontm : (iat J o).contains (2 * m - 2) = true := by
        rw [iat_contains]
        have e1 : o * 2 ^ (J + 1) = 2 * (o * 2 ^ J) := by rw [two_pow_succ]; ring
        have e2 : (o + 1) * 2 ^ (J + 1) = 2 * ((o + 1) * 2 ^ J) := by rw [two_pow_succ]; ring
        have h1 : o * 2 ^ (J + 1) ≤ 2 * m - 2 := by rw [e1, ← c3]; omega
        have h2 : 2 * m - 2 + 2 ≤ (o + 1) * 2 ^ (J + 1) := by rw [e2]; omega
        simp [h1, h2]
      have hleaf : 2 * m - 2 = 2 * (m - 1) := by omega
      have hnew : Iter.new (2 * (m - 1)) = iat 0 (m - 1) := new_even (m - 1)
      have hanc : (m - 1) / 2 ^ J = o := by
        apply div_eq_of_span
        · rw [← c3]; omega
        · omega
      have hgs := grow_rightSibs J o gs m _ hg rfl (by rw [← c3]; exact hlt)
      have hJ64 : J < 80 := by
        have h4 : 2 ^ J ≤ (o + 1) * 2 ^ J := Nat.le_mul_of_pos_left _ (Nat.succ_pos _)
        have h5 : 2 ^ J < 2 ^ 64 := by omega
        have := (Nat.pow_lt_pow_iff_right (by decide : 1 < 2)).mp h5
        omega
      -- the cover of the upgrade's list, to know what lies before the node with the block
      have hcovus : Cover (gs ++ ln) m bs.size := BlockNew.cover_append (BlockNew.cover_of_grow gs _ _ hg) (by rw [hE]; exact hrest')
      rw [Tree.upgradeLoop.eq_def]
      simp only []
      rw [hfr]
      rw [hleaf] at hcontm
      simp only [Bool.not_true, Bool.false_eq_true, ite_false, hnoskip, Bool.not_false, Bool.true_and, hleaf, hcontm, ite_true, hnew]
      rw [show (iat J o).index = Flat.index J o from rfl]
      -- where is the node with the block: among the walk's siblings or among the later roots
      rcases List.append_eq_append_iff.mp hsplit with ⟨c', e1, e2⟩ | ⟨c', e1, e2⟩
      · -- a = gs ++ c', ln = c' ++ x :: b: the walk sends all its siblings
        have hwn := walk_none C bs t f hNodes m (some ⟨true, i * 2, nn, i⟩) (i * 2) {} J o hspan J 0 80 acc (by omega) (by simpa using hanc) hJ64
          (fun x hx => by
            simp only [Nat.pow_zero, Nat.div_one] at hx
            rw [← hgs] at hx
            have hbef := BlockNew.cover_before (gs ++ c') (k, i / 2 ^ k) b m bs.size (by rw [List.append_assoc, ← e2]; exact hcovus) x
              (List.mem_append.mpr (Or.inl hx))
            simp only at hbef
            rw [iat_contains]
            have h1 : i / 2 ^ k * 2 ^ k ≤ i := Nat.div_mul_le_self i (2 ^ k)
            have e2' : (x.2 + 1) * 2 ^ (x.1 + 1) = 2 * ((x.2 + 1) * 2 ^ x.1) := by rw [pow_succ2]; ring
            have : ¬ (i * 2 + 2 ≤ (x.2 + 1) * 2 ^ (x.1 + 1)) := by rw [e2']; omega
            simp [this])
        simp only [Nat.pow_zero, Nat.div_one] at hwn
        rw [hwn]
        simp only [hnext]
        rw [← hgs]
        rw [e2] at hrest' hdec hfuel
        have hd2 : DecDepth (c' ++ (k, i / 2 ^ k) :: b) := (List.pairwise_cons.mp hdec).2
        rw [tail_sub C bs t f hNodes hN (2 * m) i k nn b c' fuel (s + 2 ^ J) _ true hrest' hd2 hal' (by omega) (by simp at hfuel ⊢; omega)
          (fun _ _ _ _ => by simp)]
        rw [e1]
        simp
      · -- gs = a ++ c', c' ++ ln = x :: b
        cases c' with
        | nil =>
          -- the node is the first of the later roots
          simp only [List.nil_append] at e2
          simp only [List.append_nil] at e1
          have hwn := walk_none C bs t f hNodes m (some ⟨true, i * 2, nn, i⟩) (i * 2) {} J o hspan J 0 80 acc (by omega) (by simpa using hanc) hJ64
            (fun x hx => by
              simp only [Nat.pow_zero, Nat.div_one] at hx
              rw [← hgs, e1] at hx
              have hbef := BlockNew.cover_before a (k, i / 2 ^ k) b m bs.size (by rw [← hsplit]; exact hcovus) x hx
              simp only at hbef
              rw [iat_contains]
              have h1 : i / 2 ^ k * 2 ^ k ≤ i := Nat.div_mul_le_self i (2 ^ k)
              have e2' : (x.2 + 1) * 2 ^ (x.1 + 1) = 2 * ((x.2 + 1) * 2 ^ x.1) := by rw [pow_succ2]; ring
              have : ¬ (i * 2 + 2 ≤ (x.2 + 1) * 2 ^ (x.1 + 1)) := by rw [e2']; omega
              simp [this])
          simp only [Nat.pow_zero, Nat.div_one] at hwn
          rw [hwn]
          simp only [hnext]
          rw [← hgs]
          rw [← e2] at hrest' hdec hfuel
          have hd2 : DecDepth ((k, i / 2 ^ k) :: b) := (List.pairwise_cons.mp hdec).2
          rw [tail_sub C bs t f hNodes hN (2 * m) i k nn b [] fuel (s + 2 ^ J) _ true hrest' hd2 hal' (by omega) (by simp at hfuel ⊢; omega)
            (fun _ _ _ _ => by simp)]
          rw [e1]
          simp
        | cons x c'' =>
          -- the node is one of the walk's siblings
          simp only [List.cons_append, List.cons.injEq] at e2
          obtain ⟨rfl, e2⟩ := e2
          have hws := walk_sub C bs t f hNodes hN m hm0 i k nn J o hspan c'' J 0 80 acc a (by omega) (by simpa using hanc) hJ64
            (by simp only [Nat.pow_zero, Nat.div_one]; rw [← hgs, e1])
            (fun x hx => by
              have hbef := BlockNew.cover_before a (k, i / 2 ^ k) b m bs.size (by rw [← hsplit]; exact hcovus) x hx
              simp only at hbef
              rw [iat_contains]
              have h1 : i / 2 ^ k * 2 ^ k ≤ i := Nat.div_mul_le_self i (2 ^ k)
              have e2' : (x.2 + 1) * 2 ^ (x.1 + 1) = 2 * ((x.2 + 1) * 2 ^ x.1) := by rw [pow_succ2]; ring
              have : ¬ (i * 2 + 2 ≤ (x.2 + 1) * 2 ^ (x.1 + 1)) := by rw [e2']; omega
              simp [this])
          simp only [Nat.pow_zero, Nat.div_one] at hws
          rw [hws]
          simp only [hnext]
          rw [tail_after C bs t f hNodes hN (2 * m) _ _ _ rfl ln fuel (s + 2 ^ J) _ hrest' (List.pairwise_cons.mp hdec).2 hal' (by omega) (by simp at hfuel; omega)]
          rw [e2]
          simp

/-- **the writer's answer to "block `i` of the new part (any node count) and an upgrade from `m`"**: the block with its
    reference sibling path up to the node of the honest position list that holds it, and the rest of that list as
    upgrade section, with the signature -/
theorem create_newblock_proof (C : Crypto) (bs : Array Bytes) (t : Tree) (f : File) (hT : RootsOK C bs t.changeset)
    (hNodes : NodesOK C bs t f) (hN : bs.size < 2 ^ 64) (m : Nat) (hm0 : 0 < m) (hmn : m < bs.size) (sig : Bytes) (hsig : t.signature = some sig)
    (us : List (Nat × Nat)) (hup : Up m 0 (rootsStack bs.size).reverse us) (i nn : Nat) (hmi : m ≤ i)
    (a b : List (Nat × Nat)) (k : Nat) (hsplit : us = a ++ (k, i / 2 ^ k) :: b) :
    t.createValuelessProof f (some ⟨i, nn⟩) none none (some ⟨m, bs.size - m⟩)
      = .ok ⟨t.fork, some ⟨i, sibPath C bs 0 i k⟩, none, none,
          some ⟨m, bs.size - m, (a ++ b).map (fun q => nodeAt C bs q.1 q.2), [], sig⟩⟩ := by
  have hlen : t.length = bs.size := hT.length
  have hl64 : (rootsStack bs.size).reverse.length < 80 := by
    have := rootsStack_length_log 64 bs.size hN
    simp only [List.length_reverse]; omega
  have hloop := upgradeLoop_up_sub C bs t f hNodes hN m hm0 hmn i k nn (rootsStack bs.size).reverse 80 0 [] us a b
    (cover_roots bs.size) (rootsStack_rev_dec bs.size) (align_zero _) hup hsplit hl64
  have hnew : Iter.new 0 = iat 0 0 := new_even 0
  have hfrm : m * 2 = 2 * m := by omega
  have hto' : 2 * m + (bs.size - m) * 2 = 2 * bs.size := by omega
  have hc1' : ¬ (bs.size - m = 0 ∨ 2 * bs.size < 2 * bs.size) := by omega
  have hdec : decide (2 * m = 0) = false := by simp; omega
  have hle : ¬ (bs.size ≤ m) := by omega
  have hdec' : decide (m = 0) = false := by simp; omega
  have hun : decide (i < m) = false := by simp; omega
  unfold Tree.createValuelessProof
  simp only [hlen, hfrm, hto', ge_iff_le, gt_iff_lt, Nat.mul_eq_zero, OfNat.ofNat_ne_zero, or_false, hc1', ite_false,
    Option.isSome_some, Option.isSome_none, Bool.false_and, Bool.and_false, Bool.not_false, ite_true, hun, Bool.false_eq_true,
    Tree.upgradeProof, hnew, hdec, hloop, List.nil_append, Nat.lt_irrefl, hsig]
  simp [hle, hdec', hloop, hsig, hun]

end HC.NewBlockWriter
