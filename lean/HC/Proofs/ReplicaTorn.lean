import HC.Proofs.ReplicaCrash
/-!
Torn page and node writes **inside the periodic flush of a replica** (C07).  A bitfield page or a tree node of which
only a byte prefix reached the store leaves stores that are no longer whole pages / whole slots, so the ghost invariant
of `ReplicaCrash` (which wants them whole) is not re-established here; what is proved is what C07 asks for:
`Hypercore::new` succeeds and the replica *shows* the state the completed application leaves — the half-written page
holds, bit by bit, the old or the new value, both of which the replay of the old header's entries tolerates
(`replays_ahead`); the half-written node is one the entries re-insert into the unflushed map, which shadows the store.
-/
namespace HC.ReplicaTorn
open HC HC.Codec HC.Flat HC.Tree HC.RefTree HC.RefProof HC.Sound HC.Offsets HC.TreeStore HC.Complete HC.UpgradeSound HC.CreateTotal
  HC.Replica HC.Growth HC.HashReq HC.Oplog HC.Core HC.OplogBytes HC.FormatLimits HC.BitfieldPages HC.Touch HC.ReplicaReopen HC.ReplicaCrash

/-! ### reads depend on the tree store only through node lookups -/

theorem requiredNode_congr (t : Tree) (f f' : File) (h : ∀ i, t.node? f' i = t.node? f i) (i : Nat) :
    t.requiredNode f' i = t.requiredNode f i := by
  simp only [Tree.requiredNode, h]

theorem offsetDescend_congr (t : Tree) (f f' : File) (h : ∀ i, t.node? f' i = t.node? f i) (target : Nat) :
    ∀ (fuel : Nat) (it : Iter) (acc : Nat), t.offsetDescend f' target fuel it acc = t.offsetDescend f target fuel it acc := by
  intro fuel
  induction fuel with
  | zero => intro it acc; rfl
  | succ fuel ih =>
    intro it acc
    simp only [Tree.offsetDescend, requiredNode_congr t f f' h, ih]

theorem byteOffsetFromNodes_congr (t : Tree) (f f' : File) (h : ∀ i, t.node? f' i = t.node? f i) (index : Nat) :
    t.byteOffsetFromNodes f' index = t.byteOffsetFromNodes f index := by
  unfold Tree.byteOffsetFromNodes
  simp only []
  generalize (if index % 2 = 1 then leftSpan index else index) = ix
  generalize t.roots = rs
  have : ∀ (rs : List Node) (head acc : Nat), Tree.byteOffsetFromNodes.go t f' ix rs head acc = Tree.byteOffsetFromNodes.go t f ix rs head acc := by
    intro rs
    induction rs with
    | nil => intro head acc; rfl
    | cons r rs ih =>
      intro head acc
      simp only [Tree.byteOffsetFromNodes.go, ih, offsetDescend_congr t f f' h]
  exact this rs 0 0

theorem byteRange_congr (t : Tree) (f f' : File) (h : ∀ i, t.node? f' i = t.node? f i) (i : Nat) :
    t.byteRange f' i = t.byteRange f i := by
  simp only [Tree.byteRange, requiredNode_congr t f f' h, byteOffsetFromNodes_congr t f f' h]

theorem getBlock_congr (c : Core) (d d' : Disk) (h : ∀ i, c.tree.node? d'.tree i = c.tree.node? d.tree i) (hd : d'.data = d.data) (i : Nat) :
    (c.getBlock d' i).result = (c.getBlock d i).result := by
  simp only [Core.getBlock, byteRange_congr c.tree d.tree d'.tree h, hd]

/-- what a recovered replica shows (the components of `C02.Shows`) -/
structure ShowsR (bs : Array Bytes) (m : Nat) (held : Nat → Bool) (c : Core) (d : Disk) : Prop where
  length : c.tree.length = m
  bytes : c.tree.byteLength = psum bs m
  get : ∀ i, held i = true → (c.getBlock d i).result = .ok (some (bs.getD i []))
  miss : ∀ i, held i = false → (c.getBlock d i).result = .ok none
  has : ∀ i, c.bitfield.get i = held i
  contig : Core.FirstMissing c.bitfield c.header.contiguous

/-- **recovery from stores that differ from a crash image in ways the replay and the lookups do not notice** -/
theorem open_torn (C : Crypto) (bs : Array Bytes) (m : Nat) (held : Nat → Bool) (dk dt : Disk) (c : Core) (hf : Header) (es : List Entry)
    (hg : DurG C bs m held dk c hf es) (ho : dt.oplog = dk.oplog) (hd : dt.data = dk.data)
    (hT : ∀ T0, Tree.openTree hf.tree dk.tree = .ok T0 → Tree.openTree hf.tree dt.tree = .ok T0) (hext : FileExt dk.tree dt.tree)
    (hlook : ∀ i, c.tree.node? dt.tree i = c.tree.node? dk.tree i)
    (hA : ∀ i, (Bitfield.ofFile dk.bitfield).get i = true → (Bitfield.ofFile dt.bitfield).get i = true)
    (hB : ∀ i, (Bitfield.ofFile dt.bitfield).get i = true → c.bitfield.get i = true) :
    ∃ c' j, openCore C none dt = .ok (c', j) ∧ ShowsR bs m held c' (dt.applyAll j) ∧ c'.publicKey = c.publicKey ∧ c'.tree.fork = c.tree.fork := by
  have hrepl := replays_ahead C bs c dk dt hf es hg.replay hg.extra hg.rep.contig hT hext hA hB
  obtain ⟨ost, ops, hopen, hops, hinv⟩ := opimage_open dt.oplog hf es (by rw [ho]; exact hg.oplog)
  obtain ⟨T0, hT0, hrep⟩ := hrepl
  obtain ⟨b, hb1, hb2, hb3⟩ := hrep ost
  have hd1t : (dt.applyAll ops).tree = dt.tree := LiveRefine.tree_of_applyAll _ _ (fun op hop => by rw [hops op hop]; decide)
  have hd1d : (dt.applyAll ops).data = dt.data := LiveRefine.data_of_applyAll _ _ (fun op hop => by rw [hops op hop]; decide)
  have hd1b : (dt.applyAll ops).bitfield = dt.bitfield := by
    have := Journal.applyAll_other dt ops .bitfield (fun op hop => by rw [hops op hop]; decide)
    simpa [Disk.get] using this
  have hr := hg.rep
  generalize hc' : ({ publicKey := c.header.publicKey, secret := c.header.secret, oplog := ost, header := c.header, tree := c.tree, bitfield := { b with dirty := b.dirty }, skipFlush := 0 } : Core) = c'
  have hct : c'.tree = c.tree := by rw [← hc']
  have hcb : ∀ i, c'.bitfield.get i = c.bitfield.get i := by intro i; rw [← hc']; exact hb2 i
  have hch : c'.header = c.header := by rw [← hc']
  -- the recovered core over the crash image's stores satisfies the replica invariant
  have hrk : RepRAt C bs m c' dk held := by
    refine ⟨hr.le, by rw [hct]; exact hr.closed, by rw [hct]; exact hr.roots, by rw [hct]; exact hr.bytes, by rw [hct]; exact hr.mapwf, hr.aligned,
      fun i => by rw [hcb, hr.bits i], hr.heldLt, by rw [hct]; exact hr.leaf, hr.data, ?_, hr.small⟩
    rw [hch]
    exact ⟨fun i hi => by rw [hcb]; exact hr.contig.1 i hi, by rw [hcb]; exact hr.contig.2⟩
  have hl' : ∀ i, c'.tree.node? (dt.applyAll ops).tree i = c'.tree.node? dk.tree i := by
    intro i; rw [hd1t, hct]; exact hlook i
  refine ⟨c', ops, ?_, ⟨?_, ?_, ?_, ?_, ?_, hrk.contig⟩, ?_, ?_⟩
  · rw [← hc']
    simp only [openCore, hopen, hd1t, hd1b, hT0]
    rw [replay_congr C dt (dt.applyAll ops) hd1t, hb1]
  · rw [hct]; exact hr.closed.sparse.length
  · rw [hct]; exact hr.bytes
  · intro i hi
    rw [getBlock_congr c' dk (dt.applyAll ops) hl' (by rw [hd1d, hd])]
    exact get_held_at C bs m c' dk held hrk i hi
  · intro i hi
    rw [getBlock_congr c' dk (dt.applyAll ops) hl' (by rw [hd1d, hd])]
    exact get_missing_at C bs m c' dk held hrk i hi
  · exact hrk.bits
  · rw [← hc']; exact hg.keys.1
  · rw [hct]

/-! ### a half-written bitfield page -/

/-- **a torn page write of a replica's flush**: after the pages `ps` and the nodes `L` of the flush have been written, a
    further page reaches the store only as a byte prefix -/
theorem torn_pageR (C : Crypto) (bs : Array Bytes) (m : Nat) (c : Core) (d : Disk) (held : Nat → Bool) (hf : Header) (es : List Entry)
    (hr : RepRAt C bs m c d held) (hp : PersistR C c d hf es) (hx : Extra C bs c d hf es) (hsize : bs.size < 2 ^ 62)
    (ps : List Nat) (L : List Node) (hW : Written c.tree L) (p t : Nat) :
    ∃ c' j, openCore C none { d with bitfield := (writePages c.bitfield d.bitfield ps).write (p * Spec.pageBytes) ((c.bitfield.pageBytes p).take t), tree := writeSlots d.tree L } = .ok (c', j)
      ∧ ShowsR bs m held c' (({ d with bitfield := (writePages c.bitfield d.bitfield ps).write (p * Spec.pageBytes) ((c.bitfield.pageBytes p).take t), tree := writeSlots d.tree L } : Disk).applyAll j)
      ∧ c'.publicKey = c.publicKey ∧ c'.tree.fork = c.tree.fork := by
  have hg := durG_ahead C bs m held c hf es d hr hp hx hsize ps L hW
  obtain ⟨_, w2⟩ := writePages_bits c.bitfield d.bitfield hp.bfSize ps
  have hbits := replays_bits C c _ hf es hg.replay hg.extra.setOnly
  have htp := tornPage_bits c.bitfield (writePages c.bitfield d.bitfield ps) w2 p t
  apply open_torn C bs m held { d with bitfield := writePages c.bitfield d.bitfield ps, tree := writeSlots d.tree L } { d with bitfield := (writePages c.bitfield d.bitfield ps).write (p * Spec.pageBytes) ((c.bitfield.pageBytes p).take t), tree := writeSlots d.tree L } c hf es hg rfl rfl (fun T0 h => h) (fileExt_refl _) (fun i => rfl)
  · intro i hi
    rcases htp i with e | e
    · show (Bitfield.ofFile ((writePages c.bitfield d.bitfield ps).write _ _)).get i = true
      rw [e]; exact hi
    · show (Bitfield.ofFile ((writePages c.bitfield d.bitfield ps).write _ _)).get i = true
      rw [e]; exact (hbits i).mpr (Or.inl hi)
  · intro i hi
    have hi' : (Bitfield.ofFile ((writePages c.bitfield d.bitfield ps).write (p * Spec.pageBytes) ((c.bitfield.pageBytes p).take t))).get i = true := hi
    rcases htp i with e | e
    · rw [e] at hi'; exact (hbits i).mpr (Or.inl hi')
    · rw [e] at hi'; exact hi'

/-! ### a half-written tree node -/

/-- slots other than the one being written answer as before, also when the write extends the store -/
theorem tornSlot_other (g : File) (hal : g.size % 40 = 0) (n : Node) (hw : n.hash.length = 32) (t i : Nat) (hi : n.index ≠ i) :
    ({} : Tree).node? (g.write (n.index * Spec.nodeSize) ((nodeBytes n).take t)) i = ({} : Tree).node? g i := by
  have hN : Spec.nodeSize = 40 := rfl
  have hl : ((nodeBytes n).take t).length ≤ 40 := by rw [List.length_take, nodeBytes_length n hw]; omega
  simp only [Tree.node?, Std.HashMap.getElem?_empty]
  cases hr : g.read (i * Spec.nodeSize) Spec.nodeSize with
  | some bytes => rw [tornSlot_read g n hw t i bytes hr (fun e => absurd e hi)]
  | none =>
    simp only []
    have hbeyond : g.size ≤ i * 40 := by
      by_contra hlt
      have hsz : i * 40 + 40 ≤ g.size := by omega
      have : (g.read (i * Spec.nodeSize) Spec.nodeSize).isSome := by
        rw [hN]
        unfold File.read
        simp [File.size] at hsz ⊢
        omega
      rw [hr] at this; cases this
    cases hr2 : (g.write (n.index * Spec.nodeSize) ((nodeBytes n).take t)).read (i * Spec.nodeSize) Spec.nodeSize with
    | none => rfl
    | some bytes =>
      simp only []
      have hlen := File.read_length _ _ _ _ hr2
      have hb : (nodeOfBytes i bytes).blank = true := by
        apply blank_of_zero i bytes (by rw [hlen, hN])
        intro k hk
        have := File.read_byte _ _ _ _ hr2 k (by rw [hN]; exact hk)
        rw [hN] at this
        rw [this, File.byte_write]
        have hout : ¬ (n.index * 40 ≤ i * 40 + k ∧ i * 40 + k < n.index * 40 + ((nodeBytes n).take t).length) := by
          rcases Nat.lt_or_gt_of_ne hi with h | h <;> omega
        simp only [hout, ite_false]
        exact byte_beyond g _ (by omega)
      simp [hb]

/-- **a torn node write of a replica's flush**: after the pages `ps` and the nodes `L` have been written, a further
    unflushed node reaches the store only as a byte prefix -/
theorem torn_slotR (C : Crypto) (bs : Array Bytes) (m : Nat) (c : Core) (d : Disk) (held : Nat → Bool) (hf : Header) (es : List Entry)
    (hr : RepRAt C bs m c d held) (hp : PersistR C c d hf es) (hx : Extra C bs c d hf es) (hsize : bs.size < 2 ^ 62)
    (ps : List Nat) (L : List Node) (hW : Written c.tree L) (n : Node) (hn : c.tree.unflushed[n.index]? = some n) (t : Nat) :
    ∃ c' j, openCore C none { d with bitfield := writePages c.bitfield d.bitfield ps, tree := (writeSlots d.tree L).write (n.index * Spec.nodeSize) ((nodeBytes n).take t) } = .ok (c', j)
      ∧ ShowsR bs m held c' (({ d with bitfield := writePages c.bitfield d.bitfield ps, tree := (writeSlots d.tree L).write (n.index * Spec.nodeSize) ((nodeBytes n).take t) } : Disk).applyAll j)
      ∧ c'.publicKey = c.publicKey ∧ c'.tree.fork = c.tree.fork := by
  have hg := durG_ahead C bs m held c hf es d hr hp hx hsize ps L hW
  have hw : n.hash.length = 32 := (hr.mapwf _ _ hn).2.1
  have hal := written_aligned c.tree hr.mapwf L hW d.tree hr.aligned
  have hext : FileExt (writeSlots d.tree L) ((writeSlots d.tree L).write (n.index * Spec.nodeSize) ((nodeBytes n).take t)) := by
    intro i nn h0
    by_cases hi : n.index = i
    · -- the slot already holds this very node
      obtain ⟨dd, o, e1, e2⟩ := hg.extra.fileRef i nn h0
      obtain ⟨dd', o', e1', e2'⟩ := hx.unflRef n.index n hn
      rw [hi, e1] at e1'
      obtain ⟨rfl, rfl⟩ := index_inj _ _ _ _ e1'
      have hnn : n = nn := by rw [e2, e2']
      simp only [Tree.node?, Std.HashMap.getElem?_empty] at h0 ⊢
      cases hrd : (writeSlots d.tree L).read (i * Spec.nodeSize) Spec.nodeSize with
      | none => rw [hrd] at h0; cases h0
      | some bytes =>
        rw [hrd] at h0
        simp only [] at h0
        have hblen : bytes.length = 40 := File.read_length _ _ _ _ hrd
        have hdec : nodeOfBytes i bytes = nn := by
          split at h0
          · cases h0
          · exact Option.some.inj h0
        rw [tornSlot_read (writeSlots d.tree L) n hw t i bytes hrd (fun _ => by rw [hnn, ← hdec]; exact nodeBytes_nodeOfBytes _ bytes hblen)]
        simpa using h0
    · rw [tornSlot_other (writeSlots d.tree L) hal n hw t i hi]; exact h0
  obtain ⟨m0, hm0, hm64, hroots0⟩ := hg.extra.rootsStored
  apply open_torn C bs m held { d with bitfield := writePages c.bitfield d.bitfield ps, tree := writeSlots d.tree L } { d with bitfield := writePages c.bitfield d.bitfield ps, tree := (writeSlots d.tree L).write (n.index * Spec.nodeSize) ((nodeBytes n).take t) } c hf es hg rfl rfl
    (fun T0 h => by
      show Tree.openTree hf.tree ((writeSlots d.tree L).write _ _) = _
      rw [openTree_ext C bs hf.tree (writeSlots d.tree L) _ hext m0 hm0 hm64 hroots0]; exact h)
    hext
    (fun i => by
      show c.tree.node? ((writeSlots d.tree L).write _ _) i = c.tree.node? (writeSlots d.tree L) i
      rw [node?_split c.tree _ i, node?_split c.tree (writeSlots d.tree L) i]
      cases hu : c.tree.unflushed[i]? with
      | some x => rfl
      | none =>
        simp only
        apply tornSlot_other (writeSlots d.tree L) hal n hw t i
        intro e
        rw [e, hu] at hn; cases hn)
    (fun i hi => hi) (fun i hi => (replays_bits C c _ hf es hg.replay hg.extra.setOnly i).mpr (Or.inl hi))

/-! ### in terms of the flush's journal -/

theorem applyAll_page_writes (b : Bitfield) (d : Disk) (ps : List Nat) :
    d.applyAll (ps.map fun p => SOp.write .bitfield (p * Spec.pageBytes) (b.pageBytes p))
      = { d with bitfield := writePages b d.bitfield ps } := by
  induction ps generalizing d with
  | nil => simp [Disk.applyAll, writePages]
  | cons p rest ih =>
    simp only [List.map_cons, Disk.applyAll, List.foldl_cons]
    have := ih (d.apply (SOp.write .bitfield (p * Spec.pageBytes) (b.pageBytes p)))
    simp only [Disk.applyAll] at this
    rw [this]
    obtain ⟨t, da, bf, o⟩ := d
    simp [Disk.apply, writePages]

/-- the `k1`-th page write of the flush torn after `t` bytes -/
theorem torn_flush_pageR (C : Crypto) (bs : Array Bytes) (m : Nat) (c : Core) (d : Disk) (held : Nat → Bool) (hf : Header) (es : List Entry)
    (hr : RepRAt C bs m c d held) (hp : PersistR C c d hf es) (hx : Extra C bs c d hf es) (hsize : bs.size < 2 ^ 62) (k1 p t : Nat) :
    ∃ c' j, openCore C none ((d.applyAll (c.bitfield.flush.2.take k1)).apply (.write .bitfield (p * Spec.pageBytes) ((c.bitfield.pageBytes p).take t))) = .ok (c', j)
      ∧ ShowsR bs m held c' (((d.applyAll (c.bitfield.flush.2.take k1)).apply (.write .bitfield (p * Spec.pageBytes) ((c.bitfield.pageBytes p).take t))).applyAll j)
      ∧ c'.publicKey = c.publicKey ∧ c'.tree.fork = c.tree.fork := by
  have hP : c.bitfield.flush.2 = c.bitfield.dirty.map fun p => SOp.write .bitfield (p * Spec.pageBytes) (c.bitfield.pageBytes p) := rfl
  have hd : (d.applyAll (c.bitfield.flush.2.take k1)).apply (.write .bitfield (p * Spec.pageBytes) ((c.bitfield.pageBytes p).take t))
      = { d with bitfield := (writePages c.bitfield d.bitfield (c.bitfield.dirty.take k1)).write (p * Spec.pageBytes) ((c.bitfield.pageBytes p).take t), tree := writeSlots d.tree [] } := by
    rw [hP, ← List.map_take, applyAll_page_writes]
    obtain ⟨tt, da, bf, o⟩ := d
    simp [Disk.apply, writeSlots]
  rw [hd]
  exact torn_pageR C bs m c d held hf es hr hp hx hsize (c.bitfield.dirty.take k1) [] ⟨fun n hn => (by cases hn), List.Pairwise.nil⟩ p t

/-- the `k2`-th node write of the flush torn after `t` bytes (all dirty pages are written by then) -/
theorem torn_flush_slotR (C : Crypto) (bs : Array Bytes) (m : Nat) (c : Core) (d : Disk) (held : Nat → Bool) (hf : Header) (es : List Entry)
    (hr : RepRAt C bs m c d held) (hp : PersistR C c d hf es) (hx : Extra C bs c d hf es) (hsize : bs.size < 2 ^ 62) (k2 : Nat) (n : Node) (t : Nat)
    (hn : (Crash.flushList c.tree)[k2]? = some n) :
    ∃ c' j, openCore C none (((d.applyAll c.bitfield.flush.2).applyAll (c.tree.flush.2.take k2)).apply (.write .tree (n.index * Spec.nodeSize) ((nodeBytes n).take t))) = .ok (c', j)
      ∧ ShowsR bs m held c' ((((d.applyAll c.bitfield.flush.2).applyAll (c.tree.flush.2.take k2)).apply (.write .tree (n.index * Spec.nodeSize) ((nodeBytes n).take t))).applyAll j)
      ∧ c'.publicKey = c.publicKey ∧ c'.tree.fork = c.tree.fork := by
  have hP : c.bitfield.flush.2 = c.bitfield.dirty.map fun p => SOp.write .bitfield (p * Spec.pageBytes) (c.bitfield.pageBytes p) := rfl
  have hmem : n ∈ Crash.flushList c.tree := List.mem_of_getElem? hn
  have hWall : Written c.tree (Crash.flushList c.tree) := ⟨Crash.flushList_mem c.tree hr.mapwf, Crash.flushList_distinct c.tree hr.mapwf⟩
  have hd : ((d.applyAll c.bitfield.flush.2).applyAll (c.tree.flush.2.take k2)).apply (.write .tree (n.index * Spec.nodeSize) ((nodeBytes n).take t))
      = { d with bitfield := writePages c.bitfield d.bitfield c.bitfield.dirty, tree := (writeSlots d.tree ((Crash.flushList c.tree).take k2)).write (n.index * Spec.nodeSize) ((nodeBytes n).take t) } := by
    rw [hP, applyAll_page_writes, Crash.flush_journal c.tree, ← List.map_take, applyAll_tree_writes]
    obtain ⟨tt, da, bf, o⟩ := d
    simp [Disk.apply]
  rw [hd]
  exact torn_slotR C bs m c d held hf es hr hp hx hsize c.bitfield.dirty ((Crash.flushList c.tree).take k2) (written_take _ _ k2 hWall) n
    (Crash.flushList_mem c.tree hr.mapwf n hmem) t

end HC.ReplicaTorn
