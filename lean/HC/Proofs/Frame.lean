import HC.Proofs.OplogCodec
/-! The checksummed leader: `validateLeader` recovers payload and both bits from `frame`. -/
namespace HC.Oplog
open HC.Codec

theorem le4_length (n : Nat) : (le4 n).length = 4 := leBytes_length n 4

theorem leVal_le4 (n : Nat) (h : n < 2 ^ 32) : leVal (le4 n) = n :=
  leVal_leBytes 4 n (by simpa using h)

theorem crc_lt (bs : Bytes) : (Crc32.hash bs).toNat < 2 ^ 32 := (Crc32.hash bs).toNat_lt

theorem lenWord_lt (len : Nat) (hb pb : Bool) (h : len < 2 ^ 30) : lenWord len hb pb < 2 ^ 32 := by
  unfold lenWord; cases hb <;> cases pb <;> simp <;> omega

theorem lenWord_div (len : Nat) (hb pb : Bool) : lenWord len hb pb / 4 = len := by
  unfold lenWord; cases hb <;> cases pb <;> simp <;> omega

theorem lenWord_hb (len : Nat) (hb pb : Bool) : decide (lenWord len hb pb % 2 = 1) = hb := by
  unfold lenWord; cases hb <;> cases pb <;> simp <;> omega

theorem lenWord_pb (len : Nat) (hb pb : Bool) : decide (lenWord len hb pb / 2 % 2 = 1) = pb := by
  unfold lenWord; cases hb <;> cases pb <;> simp <;> omega

/-- C06.frame — the leader round trip, for payloads of 1 … 2^30−1 bytes, whatever follows. -/
theorem validateLeader_frame (payload rest : Bytes) (hb pb : Bool)
    (h0 : 0 < payload.length) (h30 : payload.length < 2 ^ 30) :
    validateLeader (frame payload hb pb ++ rest) =
      some ⟨hb, pb, payload.length, payload ++ rest⟩ := by
  have hlw := lenWord_lt payload.length hb pb h30
  have hframe : frame payload hb pb ++ rest =
      le4 (Crc32.hash (le4 (lenWord payload.length hb pb) ++ payload)).toNat
        ++ (le4 (lenWord payload.length hb pb) ++ (payload ++ rest)) := by
    simp [frame, List.append_assoc]
  rw [hframe]
  have v1 : leVal (le4 (lenWord payload.length hb pb)) = lenWord payload.length hb pb := leVal_le4 _ hlw
  have l2 : (le4 (lenWord payload.length hb pb)).length = 4 := le4_length _
  generalize le4 (lenWord payload.length hb pb) = lw at v1 l2 ⊢
  have v2 : leVal (le4 (Crc32.hash (lw ++ payload)).toNat) = (Crc32.hash (lw ++ payload)).toNat :=
    leVal_le4 _ (crc_lt _)
  have l1 : (le4 (Crc32.hash (lw ++ payload)).toNat).length = 4 := le4_length _
  generalize le4 (Crc32.hash (lw ++ payload)).toNat = crc at v2 l1 ⊢
  have t4 : (crc ++ (lw ++ (payload ++ rest))).take 4 = crc := by
    rw [List.take_append_of_le_length (by omega)]; simp [List.take_of_length_le, l1]
  have d4 : (crc ++ (lw ++ (payload ++ rest))).drop 4 = lw ++ (payload ++ rest) := by
    rw [List.drop_append_of_le_length (by omega)]; simp [List.drop_of_length_le, l1]
  have d8 : (crc ++ (lw ++ (payload ++ rest))).drop 8 = payload ++ rest := by
    have : (8 : Nat) = 4 + 4 := rfl
    rw [this, ← List.drop_drop, d4, List.drop_append_of_le_length (by omega)]
    simp [List.drop_of_length_le, l2]
  have t44 : (lw ++ (payload ++ rest)).take 4 = lw := by
    rw [List.take_append_of_le_length (by omega)]; simp [List.take_of_length_le, l2]
  have tcrc : (lw ++ (payload ++ rest)).take (4 + payload.length) = lw ++ payload := by
    rw [← List.append_assoc]
    rw [List.take_append_of_le_length (by simp [l2])]
    simp [List.take_of_length_le, l2]
  unfold validateLeader
  have hlen : ¬ (crc ++ (lw ++ (payload ++ rest))).length < 8 := by
    simp only [List.length_append, l1, l2]; omega
  simp only [hlen, ite_false, t4, d4, d8, t44]
  rw [v1, lenWord_div]
  have hc : ¬ (payload.length = 0 ∨ (payload ++ rest).length < payload.length) := by
    rw [List.length_append]; omega
  simp only [hc, ite_false, tcrc, v2, ne_eq, not_true_eq_false, lenWord_hb, lenWord_pb]

end HC.Oplog

namespace HC.Oplog
open HC.Codec

theorem frame_length (payload : Bytes) (hb pb : Bool) : (frame payload hb pb).length = 8 + payload.length := by
  simp [frame, le4_length]; omega

/-- A frame cut short at the end of the file is rejected by the length check alone (no assumption on
    the checksum): every strict prefix of a frame is "no frame". -/
theorem validateLeader_strict_prefix (payload : Bytes) (hb pb : Bool) (h30 : payload.length < 2 ^ 30)
    (q s : Bytes) (hs : s ≠ []) (hq : q ++ s = frame payload hb pb) : validateLeader q = none := by
  have hlen : q.length < 8 + payload.length := by
    have := congrArg List.length hq
    rw [List.length_append, frame_length] at this
    have : 0 < s.length := List.length_pos_iff.mpr hs
    omega
  unfold validateLeader
  by_cases h8 : q.length < 8
  · simp [h8]
  · simp only [h8, ite_false]
    -- the length word is intact: q has at least 8 bytes, all of them from the frame
    have hq8 : q.take 8 = (frame payload hb pb).take 8 := by
      rw [← hq, List.take_append_of_le_length (by omega)]
    have hlwq : (q.drop 4).take 4 = le4 (lenWord payload.length hb pb) := by
      have e : (q.drop 4).take 4 = ((q.take 8).drop 4) := by
        rw [List.drop_take]
      rw [e, hq8]
      simp only [frame]
      have l1 : (le4 (Crc32.hash (le4 (lenWord payload.length hb pb) ++ payload)).toNat).length = 4 := le4_length _
      have l2 : (le4 (lenWord payload.length hb pb)).length = 4 := le4_length _
      generalize le4 (lenWord payload.length hb pb) = lw at l1 l2 ⊢
      generalize le4 (Crc32.hash (lw ++ payload)).toNat = crc at l1 ⊢
      rw [List.take_append, List.drop_append]
      simp [l1, l2, List.take_of_length_le, List.drop_of_length_le]
    rw [hlwq, leVal_le4 _ (lenWord_lt _ _ _ h30), lenWord_div]
    have : (q.drop 8).length < payload.length := by simp; omega
    have hor : payload.length = 0 ∨ (q.drop 8).length < payload.length := Or.inr this
    rw [if_pos hor]

end HC.Oplog
