import HC.Proofs.RefTree
import HC.Proofs.Verify
/-!
Soundness of the hash path that `verify_tree` recomputes: if the root it arrives at carries the
authentic hash, then — unless the run exhibits an explicit collision of `leaf` or `parent` — the
block value, every sibling node (hash **and** size) and every computed parent are the reference
values of the writer's log.  Holds for every crypto record.
-/
namespace HC.Sound
open HC HC.Codec HC.Flat HC.Tree HC.RefTree HC.RefProof

/-- an explicit collision of one of the two tree hash functions -/
def Collision (C : Crypto) : Prop :=
  (∃ a b : Bytes, a ≠ b ∧ C.leaf a = C.leaf b) ∨
  (∃ s l r s' l' r', (s, l, r) ≠ ((s' : Nat), (l' : Bytes), (r' : Bytes)) ∧ C.parent s l r = C.parent s' l' r')

/-- queue without an extra node, as `verify_tree` builds it for a block or hash section -/
def plainQueue (nodes : List Node) : NodeQueue := ⟨nodes, none, nodes.length⟩

theorem shift_plain (n : Node) (rest : List Node) (idx : Nat) (h : n.index = idx) :
    (plainQueue (n :: rest)).shift idx = .ok (n, plainQueue rest) := by
  simp [NodeQueue.shift, plainQueue, h]

theorem shift_plain_ne (n : Node) (rest : List Node) (idx : Nat) (h : n.index ≠ idx) :
    (plainQueue (n :: rest)).shift idx = .error .err := by
  simp [NodeQueue.shift, plainQueue, h]

theorem index_injective_offset (d o o' : Nat) (h : Flat.index d o = Flat.index d o') : o = o' := by
  by_contra hne
  rcases Nat.lt_or_gt_of_ne hne with hlt | hgt
  · have := index_lt_of_offset_lt d o o' hlt; omega
  · have := index_lt_of_offset_lt d o' o hgt; omega

/-- sibling position -/
def sib (o : Nat) : Nat := if o % 2 = 0 then o + 1 else o - 1

theorem iat_sibling (d o : Nat) : (iat d o).sibling = iat d (sib o) := by
  unfold sib
  split
  · rename_i h; exact iat_sibling_even d o h
  · rename_i h; exact iat_sibling_odd d o (by omega)

theorem sib_half (o : Nat) : sib o / 2 = o / 2 := by unfold sib; split <;> omega

/-- the reference parent in terms of a child and its sibling -/
theorem ref_parent (C : Crypto) (bs : Array Bytes) (d o : Nat) :
    RefTree.node C bs (d + 1) (o / 2) =
      (if o % 2 = 0 then
        ((RefTree.node C bs d o).1 + (RefTree.node C bs d (sib o)).1,
          C.parent ((RefTree.node C bs d o).1 + (RefTree.node C bs d (sib o)).1) (RefTree.node C bs d o).2 (RefTree.node C bs d (sib o)).2)
       else
        ((RefTree.node C bs d (sib o)).1 + (RefTree.node C bs d o).1,
          C.parent ((RefTree.node C bs d (sib o)).1 + (RefTree.node C bs d o).1) (RefTree.node C bs d (sib o)).2 (RefTree.node C bs d o).2)) := by
  unfold sib
  split
  · rename_i h
    have e1 : 2 * (o / 2) = o := by omega
    have e2 : 2 * (o / 2) + 1 = o + 1 := by omega
    simp [RefTree.node, e1, e2, h]
  · rename_i h
    have e1 : 2 * (o / 2) = o - 1 := by omega
    have e3 : o - 1 + 1 = o := by omega
    simp [RefTree.node, e1, e3]

/-- One level.  If the parent computed from `cur` (at (d,o)) and the supplied node `n` (at the
    sibling position) has the authentic hash, then without a collision both child hashes are authentic
    and the sizes add up to the authentic size. -/
theorem parent_step (C : Crypto) (bs : Array Bytes) (d o : Nat) (cur n : Node)
    (hc : cur.index = Flat.index d o) (hn : n.index = Flat.index d (sib o))
    (hh : parentHash C cur n = (RefTree.node C bs (d + 1) (o / 2)).2) :
    Collision C ∨ (cur.hash = (RefTree.node C bs d o).2 ∧ n.hash = (RefTree.node C bs d (sib o)).2
      ∧ cur.length + n.length = (RefTree.node C bs (d + 1) (o / 2)).1) := by
  rw [ref_parent] at hh ⊢
  by_cases he : o % 2 = 0
  · have hlt : cur.index ≤ n.index := by
      rw [hc, hn]; unfold sib; simp only [he, ite_true]
      exact Nat.le_of_lt (index_lt_of_offset_lt d o (o + 1) (by omega))
    simp only [parentHash, hlt, ite_true, he] at hh ⊢
    by_cases heq : (cur.length + n.length, cur.hash, n.hash) =
        ((RefTree.node C bs d o).1 + (RefTree.node C bs d (sib o)).1, (RefTree.node C bs d o).2, (RefTree.node C bs d (sib o)).2)
    · simp only [Prod.mk.injEq] at heq
      exact Or.inr ⟨heq.2.1, heq.2.2, heq.1⟩
    · exact Or.inl (Or.inr ⟨_, _, _, _, _, _, heq, hh⟩)
  · have hgt : ¬ cur.index ≤ n.index := by
      rw [hc, hn]; unfold sib; simp only [he, ite_false]
      have := index_lt_of_offset_lt d (o - 1) o (by omega)
      omega
    simp only [parentHash, hgt, ite_false, he] at hh ⊢
    by_cases heq : (cur.length + n.length, n.hash, cur.hash) =
        ((RefTree.node C bs d (sib o)).1 + (RefTree.node C bs d o).1, (RefTree.node C bs d (sib o)).2, (RefTree.node C bs d o).2)
    · simp only [Prod.mk.injEq] at heq
      exact Or.inr ⟨heq.2.2, heq.2.1, heq.1⟩
    · exact Or.inl (Or.inr ⟨_, _, _, _, _, _, heq, hh⟩)

/-- Path soundness of `climb`, by induction over the supplied nodes.  The root reached sits
    `nodes.length` levels up; if its hash is authentic then, absent a collision, the start node's hash
    is authentic, and if moreover the start node's size is authentic, the root's size and **every**
    supplied node (index, size, hash) are the reference values. -/
theorem climb_sound (C : Crypto) (bs : Array Bytes) (nodes : List Node) :
    ∀ (fuel d o : Nat) (cur : Node) (rn : List Node) (root : Node) (rn' : List Node),
      climb C fuel (plainQueue nodes) (iat d o) cur rn = .ok (root, rn') →
      cur.index = Flat.index d o →
      root.index = Flat.index (d + nodes.length) (o / 2 ^ nodes.length) ∧
      (root.hash = (RefTree.node C bs (d + nodes.length) (o / 2 ^ nodes.length)).2 →
        Collision C ∨
          (cur.hash = (RefTree.node C bs d o).2 ∧
            (cur.length = (RefTree.node C bs d o).1 →
              root.length = (RefTree.node C bs (d + nodes.length) (o / 2 ^ nodes.length)).1 ∧
              ∀ n ∈ nodes, ∃ dn on, n = nodeAt C bs dn on))) := by
  induction nodes with
  | nil =>
    intro fuel d o cur rn root rn' h hc
    cases fuel with
    | zero => simp [climb] at h
    | succ fuel =>
      simp only [climb, plainQueue, List.length_nil, ite_true] at h
      cases h
      refine ⟨by simpa using hc, fun hh => Or.inr ⟨by simpa using hh, fun hl => ⟨by simpa using hl, by simp⟩⟩⟩
  | cons n rest ih =>
    intro fuel d o cur rn root rn' h hc
    cases fuel with
    | zero => simp [climb] at h
    | succ fuel =>
      have hlen : ¬ (plainQueue (n :: rest)).length = 0 := by simp [plainQueue]
      simp only [climb, hlen, ite_false] at h
      rw [iat_sibling] at h
      by_cases hn : n.index = (iat d (sib o)).index
      · rw [shift_plain n rest _ hn] at h
        simp only [] at h
        rw [iat_parent, sib_half] at h
        have hpar : (parentNode C (iat (d + 1) (o / 2)).index cur n).index = Flat.index (d + 1) (o / 2) := rfl
        obtain ⟨hidx, hsound⟩ := ih fuel (d + 1) (o / 2) _ _ root rn' h hpar
        have e1 : d + 1 + rest.length = d + (n :: rest).length := by simp; omega
        have e2 : o / 2 / 2 ^ rest.length = o / 2 ^ (n :: rest).length := by
          rw [Nat.div_div_eq_div_mul, List.length_cons, Nat.pow_succ, Nat.mul_comm]
        rw [e1, e2] at hidx hsound
        refine ⟨hidx, fun hh => ?_⟩
        rcases hsound hh with hcol | ⟨hph, hrest⟩
        · exact Or.inl hcol
        · have hn' : n.index = Flat.index d (sib o) := hn
          rcases parent_step C bs d o cur n hc hn' hph with hcol | ⟨h1, h2, h3⟩
          · exact Or.inl hcol
          · refine Or.inr ⟨h1, fun hl => ?_⟩
            have hpl : (parentNode C (iat (d + 1) (o / 2)).index cur n).length = (RefTree.node C bs (d + 1) (o / 2)).1 := h3
            obtain ⟨hrl, hall⟩ := hrest hpl
            refine ⟨hrl, fun x hx => ?_⟩
            simp only [List.mem_cons] at hx
            rcases hx with rfl | hx
            · refine ⟨d, sib o, ?_⟩
              have hsz : x.length = (RefTree.node C bs d (sib o)).1 := by
                rw [ref_parent] at h3
                split at h3 <;> omega
              cases x
              simp only [nodeAt, Node.mk.injEq]
              exact ⟨hn', hsz, h2⟩
            · exact hall x hx
      · rw [shift_plain_ne n rest _ hn] at h
        simp at h

/-- the block case: the start node is computed from the received value -/
theorem block_sound (C : Crypto) (bs : Array Bytes) (i : Nat) (v : Bytes) (nodes : List Node) (fuel : Nat)
    (rn : List Node) (root : Node) (rn' : List Node)
    (h : climb C fuel (plainQueue nodes) (iat 0 i) (blockNode C (Flat.index 0 i) v) rn = .ok (root, rn'))
    (hr : root.hash = (RefTree.node C bs nodes.length (i / 2 ^ nodes.length)).2) :
    Collision C ∨ (v = bs.getD i [] ∧ root.length = (RefTree.node C bs nodes.length (i / 2 ^ nodes.length)).1
      ∧ ∀ n ∈ nodes, ∃ dn on, n = nodeAt C bs dn on) := by
  obtain ⟨_, hs⟩ := climb_sound C bs nodes fuel 0 i _ rn root rn' h rfl
  simp only [Nat.zero_add] at hs
  rcases hs hr with hc | ⟨hleaf, hrest⟩
  · exact Or.inl hc
  · simp only [blockNode, RefTree.node] at hleaf hrest
    by_cases hv : v = bs.getD i []
    · subst hv
      obtain ⟨h1, h2⟩ := hrest rfl
      exact Or.inr ⟨rfl, h1, h2⟩
    · exact Or.inl (Or.inl ⟨_, _, hv, hleaf⟩)

end HC.Sound

namespace HC.Sound
open HC HC.Codec HC.Flat HC.Tree HC.RefTree HC.RefProof

/-- every node the replica can look up carries the authentic hash for its position -/
def StoreAuthentic (C : Crypto) (bs : Array Bytes) (t : Tree) (f : File) : Prop :=
  ∀ d o n, t.node? f (Flat.index d o) = some n → n.hash = (RefTree.node C bs d o).2

theorem plainQueue_eq (nodes : List Node) : NodeQueue.new nodes none = plainQueue nodes := by
  simp [NodeQueue.new, plainQueue]

/-- **Block proofs.**  A proof that carries only a block section (no seek, no upgrade) and passes
    `verify_proof` on a replica whose stored nodes are authentic delivers the writer's block —
    unless an explicit collision of `leaf` or `parent` is exhibited.  Every supplied sibling node is
    then the reference node (index, size, hash). -/
theorem block_proof_sound (C : Crypto) (bs : Array Bytes) (t : Tree) (f : File) (pk : Bytes) (p : Proof) (b : DataBlock)
    (cs : Changeset) (hb : p.block = some b) (hs : p.seek = none) (hu : p.upgrade = none)
    (hauth : StoreAuthentic C bs t f) (hv : t.verifyProof C f p pk = .ok cs) :
    Collision C ∨ (b.value = bs.getD b.index [] ∧ ∀ n ∈ b.nodes, ∃ dn on, n = nodeAt C bs dn on) := by
  unfold verifyProof at hv
  simp only [hb, hs, hu, verifyTree, untrustedOf, noSeekOf, Option.isNone_some, Bool.false_and, Bool.false_eq_true,
    ite_false, seekHalf, andThen, mainHalf] at hv
  have hnew : Iter.new (b.index * 2) = iat 0 b.index := by rw [Nat.mul_comm]; exact new_even b.index
  rw [hnew, plainQueue_eq] at hv
  cases hc : climb C ((plainQueue b.nodes).length + 1) (plainQueue b.nodes) (iat 0 b.index)
      (blockNode C (iat 0 b.index).index b.value) (blockNode C (iat 0 b.index).index b.value :: t.changeset.rnodes) with
  | error e => rw [hc] at hv; simp at hv
  | ok pr =>
    obtain ⟨root, rn'⟩ := pr
    rw [hc] at hv
    simp only [] at hv
    cases hreq : t.requiredNode f root.index with
    | error e => rw [hreq] at hv; simp at hv
    | ok v =>
      rw [hreq] at hv
      simp only [] at hv
      by_cases hne : v.hash ≠ root.hash
      · simp [hne] at hv
      · have heq : v.hash = root.hash := by simpa using hne
        obtain ⟨hidx, _⟩ := climb_sound C bs b.nodes _ 0 b.index _ _ root rn' hc rfl
        simp only [Nat.zero_add] at hidx
        have hnode : t.node? f root.index = some v := by
          unfold requiredNode at hreq
          cases hn : t.node? f root.index with
          | none => simp [hn] at hreq
          | some w => simp [hn] at hreq; rw [hreq]
        rw [hidx] at hnode
        have hrh : root.hash = (RefTree.node C bs b.nodes.length (b.index / 2 ^ b.nodes.length)).2 := by
          rw [← heq]; exact hauth _ _ _ hnode
        have hix : (iat 0 b.index).index = Flat.index 0 b.index := rfl
        rw [hix] at hc
        rcases block_sound C bs b.index b.value b.nodes _ _ root rn' hc hrh with h | ⟨h1, _, h3⟩
        · exact Or.inl h
        · exact Or.inr ⟨h1, h3⟩

end HC.Sound

namespace HC.Sound
open HC HC.Codec HC.Flat HC.Tree HC.RefTree HC.RefProof

theorem andThen_ok {α β : Type} (r : R α) (f : α → R β) (b : β) (h : andThen r f = .ok b) :
    ∃ a, r = .ok a ∧ f a = .ok b := by
  unfold andThen at h
  cases r with
  | error e => simp at h
  | ok a => exact ⟨a, rfl, h⟩

theorem checkSignature_ok (C : Crypto) (fork : Nat) (u : DataUpgrade) (pk : Bytes) (c c' : Bool) (cs2 cs' : Changeset)
    (h : checkSignature C fork u pk c cs2 = .ok (c', cs')) :
    C.verify pk (signable (rootsHash C cs'.roots) cs'.length fork) u.signature = true ∧ cs'.fork = fork
      ∧ cs'.signature = some u.signature ∧ cs'.roots = cs2.roots ∧ cs'.length = cs2.length := by
  unfold checkSignature at h
  simp only [] at h
  split at h
  · cases h
  · split at h
    · cases h
    · rename_i hver
      simp only [Except.ok.injEq, Prod.mk.injEq] at h
      obtain ⟨_, rfl⟩ := h
      simp at hver
      exact ⟨hver, rfl, rfl, rfl, rfl⟩

/-- whatever `verify_upgrade` did with the supplied nodes, on success the signature it was given
    verifies over (hash of the resulting roots, resulting length, the proof's fork) -/
theorem verifyUpgrade_signed (C : Crypto) (fork : Nat) (u : DataUpgrade) (blockRoot : Option Node) (pk : Bytes)
    (cs cs' : Changeset) (consumed : Bool) (h : verifyUpgrade C fork u blockRoot pk cs = .ok (consumed, cs')) :
    C.verify pk (signable (rootsHash C cs'.roots) cs'.length fork) u.signature = true ∧ cs'.fork = fork
      ∧ cs'.signature = some u.signature := by
  unfold verifyUpgrade at h
  simp only [] at h
  obtain ⟨st, _, h2⟩ := andThen_ok _ _ _ h
  split at h2
  · cases h2
  · obtain ⟨x, _, h3⟩ := andThen_ok _ _ _ h2
    obtain ⟨a, b, c, _, _⟩ := checkSignature_ok C fork u pk _ _ _ _ h3
    exact ⟨a, b, c⟩

/-- fixed-width encodings make the signed message injective in (roots hash, length, fork) -/
theorem leBytes_injective (k : Nat) (a b : Nat) (ha : a < 256 ^ k) (hb : b < 256 ^ k) (h : leBytes a k = leBytes b k) : a = b := by
  have := congrArg leVal h
  rwa [leVal_leBytes k a ha, leVal_leBytes k b hb] at this

theorem signable_injective (h1 h2 : Bytes) (n1 n2 f1 f2 : Nat) (hl : h1.length = h2.length)
    (hn1 : n1 < 2 ^ 64) (hn2 : n2 < 2 ^ 64) (hf1 : f1 < 2 ^ 64) (hf2 : f2 < 2 ^ 64)
    (h : signable h1 n1 f1 = signable h2 n2 f2) : h1 = h2 ∧ n1 = n2 ∧ f1 = f2 := by
  unfold signable at h
  have h' := List.append_cancel_left (by simpa [List.append_assoc] using h : treeNamespace ++ (h1 ++ (le8 n1 ++ le8 f1)) = treeNamespace ++ (h2 ++ (le8 n2 ++ le8 f2)))
  have ⟨e1, e2⟩ := List.append_inj h' hl
  have l8 : ∀ x, (le8 x).length = 8 := fun x => leBytes_length x 8
  have ⟨e3, e4⟩ := List.append_inj e2 (by rw [l8, l8])
  have p : (256 : Nat) ^ 8 = 2 ^ 64 := by decide
  exact ⟨e1, leBytes_injective 8 _ _ (by omega) (by omega) e3, leBytes_injective 8 _ _ (by omega) (by omega) e4⟩

/-- collision of the root-list hash -/
def TreeCollision (C : Crypto) : Prop :=
  ∃ a b : List (Bytes × Nat × Nat), a ≠ b ∧ C.tree a = C.tree b

/-- **Upgrades.**  If `verify_upgrade` accepts, the key only verifies messages the writer signed
    (`hunf`), and the writer only signs `(hash of the reference roots of a prefix of its log, that
    length, its fork)` (`hsig`), then — unless a collision of the root-list hash is exhibited — the
    length the replica adopts is a length the writer signed and the roots it adopts are exactly the
    reference roots for that length (hash, index and size of each). -/
theorem upgrade_sound (C : Crypto) (bs : Array Bytes) (wfork : Nat) (Signed : Bytes → Prop)
    (fork : Nat) (u : DataUpgrade) (blockRoot : Option Node) (pk : Bytes) (cs cs' : Changeset) (consumed : Bool)
    (hunf : ∀ m sig, C.verify pk m sig = true → Signed m)
    (hsig : ∀ m, Signed m → ∃ n, n ≤ bs.size ∧ m = RefTree.signableOf C (bs.extract 0 n) wfork)
    (hlen : ∀ x, (C.tree x).length = 32) (hsize : bs.size < 2 ^ 64) (hwf : wfork < 2 ^ 64)
    (hb1 : cs'.length < 2 ^ 64) (hb2 : fork < 2 ^ 64)
    (h : verifyUpgrade C fork u blockRoot pk cs = .ok (consumed, cs')) :
    TreeCollision C ∨ (cs'.length ≤ bs.size ∧ fork = wfork
      ∧ cs'.roots.map (fun n => (n.hash, n.index, n.length)) =
          (RefTree.roots C (bs.extract 0 cs'.length)).map (fun n => (n.hash, n.index, n.length))) := by
  obtain ⟨hv, _, _⟩ := verifyUpgrade_signed C fork u blockRoot pk cs cs' consumed h
  obtain ⟨n, hn, hm⟩ := hsig _ (hunf _ _ hv)
  have hsz : (bs.extract 0 n).size = n := by simp; omega
  unfold RefTree.signableOf at hm
  rw [hsz] at hm
  obtain ⟨e1, e2, e3⟩ := signable_injective _ _ _ _ _ _ (by rw [rootsHash, hlen, hlen]) hb1 (by omega) hb2 hwf hm
  subst e2
  by_cases heq : cs'.roots.map (fun n => (n.hash, n.index, n.length)) =
      (RefTree.roots C (bs.extract 0 cs'.length)).map (fun n => (n.hash, n.index, n.length))
  · exact Or.inr ⟨hn, e3, heq⟩
  · exact Or.inl ⟨_, _, heq, e1⟩

end HC.Sound
