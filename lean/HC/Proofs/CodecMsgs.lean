import HC.Proofs.Codec
/-! Round-trip, size and monotonicity lemmas for the seven message types built from nodes. -/
namespace HC.Codec

/-! RequestBlock -/
theorem decRequestBlock_enc (m : RequestBlock) (h : m.WF) (rest : Bytes) :
    decRequestBlock (encRequestBlock m ++ rest) = some (m, rest) := by
  simp [decRequestBlock, encRequestBlock, List.append_assoc, decUint_encUint _ h.1, decUint_encUint _ h.2]
theorem decRequestBlock_mono (q s : Bytes) (m : RequestBlock) (r : Bytes)
    (h : decRequestBlock q = some (m, r)) : decRequestBlock (q ++ s) = some (m, r ++ s) := by
  unfold decRequestBlock at h ⊢
  cases h1 : decUint q with
  | none => simp [h1] at h
  | some p1 =>
    obtain ⟨a, r1⟩ := p1
    simp only [h1] at h; simp only [decUint_mono _ s _ _ h1]
    cases h2 : decUint r1 with
    | none => simp [h2] at h
    | some p2 =>
      obtain ⟨b, r2⟩ := p2
      simp only [h2, Option.some.injEq, Prod.mk.injEq] at h
      obtain ⟨rfl, rfl⟩ := h
      simp [decUint_mono _ s _ _ h2]
theorem encRequestBlock_length (m : RequestBlock) : (encRequestBlock m).length = sizeRequestBlock m := by
  simp [encRequestBlock, sizeRequestBlock, encUint_length]

/-! RequestSeek -/
theorem decRequestSeek_enc (m : RequestSeek) (h : m.WF) (rest : Bytes) :
    decRequestSeek (encRequestSeek m ++ rest) = some (m, rest) := by
  simp [decRequestSeek, encRequestSeek, decUint_encUint _ h]
theorem decRequestSeek_mono (q s : Bytes) (m : RequestSeek) (r : Bytes)
    (h : decRequestSeek q = some (m, r)) : decRequestSeek (q ++ s) = some (m, r ++ s) := by
  unfold decRequestSeek at h ⊢
  cases h1 : decUint q with
  | none => simp [h1] at h
  | some p1 =>
    obtain ⟨a, r1⟩ := p1
    simp only [h1, Option.some.injEq, Prod.mk.injEq] at h
    obtain ⟨rfl, rfl⟩ := h
    simp [decUint_mono _ s _ _ h1]
theorem encRequestSeek_length (m : RequestSeek) : (encRequestSeek m).length = sizeRequestSeek m := by
  simp [encRequestSeek, sizeRequestSeek, encUint_length]

/-! RequestUpgrade -/
theorem decRequestUpgrade_enc (m : RequestUpgrade) (h : m.WF) (rest : Bytes) :
    decRequestUpgrade (encRequestUpgrade m ++ rest) = some (m, rest) := by
  simp [decRequestUpgrade, encRequestUpgrade, List.append_assoc, decUint_encUint _ h.1, decUint_encUint _ h.2]
theorem decRequestUpgrade_mono (q s : Bytes) (m : RequestUpgrade) (r : Bytes)
    (h : decRequestUpgrade q = some (m, r)) : decRequestUpgrade (q ++ s) = some (m, r ++ s) := by
  unfold decRequestUpgrade at h ⊢
  cases h1 : decUint q with
  | none => simp [h1] at h
  | some p1 =>
    obtain ⟨a, r1⟩ := p1
    simp only [h1] at h; simp only [decUint_mono _ s _ _ h1]
    cases h2 : decUint r1 with
    | none => simp [h2] at h
    | some p2 =>
      obtain ⟨b, r2⟩ := p2
      simp only [h2, Option.some.injEq, Prod.mk.injEq] at h
      obtain ⟨rfl, rfl⟩ := h
      simp [decUint_mono _ s _ _ h2]
theorem encRequestUpgrade_length (m : RequestUpgrade) : (encRequestUpgrade m).length = sizeRequestUpgrade m := by
  simp [encRequestUpgrade, sizeRequestUpgrade, encUint_length]

/-! DataBlock -/
theorem decDataBlock_enc (m : DataBlock) (h : m.WF) (rest : Bytes) :
    decDataBlock (encDataBlock m ++ rest) = some (m, rest) := by
  obtain ⟨h1, h2, h3⟩ := h
  simp [decDataBlock, encDataBlock, List.append_assoc, decUint_encUint _ h1, decBuf_encBuf _ h2,
    decNodes_encNodes _ h3]
theorem decDataBlock_mono (q s : Bytes) (m : DataBlock) (r : Bytes)
    (h : decDataBlock q = some (m, r)) : decDataBlock (q ++ s) = some (m, r ++ s) := by
  unfold decDataBlock at h ⊢
  cases h1 : decUint q with
  | none => simp [h1] at h
  | some p1 =>
    obtain ⟨a, r1⟩ := p1
    simp only [h1] at h; simp only [decUint_mono _ s _ _ h1]
    cases h2 : decBuf r1 with
    | none => simp [h2] at h
    | some p2 =>
      obtain ⟨b, r2⟩ := p2
      simp only [h2] at h; simp only [decBuf_mono _ s _ _ h2]
      cases h3 : decNodes r2 with
      | none => simp [h3] at h
      | some p3 =>
        obtain ⟨c, r3⟩ := p3
        simp only [h3, Option.some.injEq, Prod.mk.injEq] at h
        obtain ⟨rfl, rfl⟩ := h
        simp [decNodes_mono _ s _ _ h3]
theorem encDataBlock_length (m : DataBlock) (h : m.WF) : (encDataBlock m).length = sizeDataBlock m := by
  simp [encDataBlock, sizeDataBlock, encUint_length, encBuf_length, encNodes_length _ h.2.2]; omega

/-! DataHash -/
theorem decDataHash_enc (m : DataHash) (h : m.WF) (rest : Bytes) :
    decDataHash (encDataHash m ++ rest) = some (m, rest) := by
  simp [decDataHash, encDataHash, List.append_assoc, decUint_encUint _ h.1, decNodes_encNodes _ h.2]
theorem decDataHash_mono (q s : Bytes) (m : DataHash) (r : Bytes)
    (h : decDataHash q = some (m, r)) : decDataHash (q ++ s) = some (m, r ++ s) := by
  unfold decDataHash at h ⊢
  cases h1 : decUint q with
  | none => simp [h1] at h
  | some p1 =>
    obtain ⟨a, r1⟩ := p1
    simp only [h1] at h; simp only [decUint_mono _ s _ _ h1]
    cases h3 : decNodes r1 with
    | none => simp [h3] at h
    | some p3 =>
      obtain ⟨c, r3⟩ := p3
      simp only [h3, Option.some.injEq, Prod.mk.injEq] at h
      obtain ⟨rfl, rfl⟩ := h
      simp [decNodes_mono _ s _ _ h3]
theorem encDataHash_length (m : DataHash) (h : m.WF) : (encDataHash m).length = sizeDataHash m := by
  simp [encDataHash, sizeDataHash, encUint_length, encNodes_length _ h.2]

/-! DataSeek -/
theorem decDataSeek_enc (m : DataSeek) (h : m.WF) (rest : Bytes) :
    decDataSeek (encDataSeek m ++ rest) = some (m, rest) := by
  simp [decDataSeek, encDataSeek, List.append_assoc, decUint_encUint _ h.1, decNodes_encNodes _ h.2]
theorem decDataSeek_mono (q s : Bytes) (m : DataSeek) (r : Bytes)
    (h : decDataSeek q = some (m, r)) : decDataSeek (q ++ s) = some (m, r ++ s) := by
  unfold decDataSeek at h ⊢
  cases h1 : decUint q with
  | none => simp [h1] at h
  | some p1 =>
    obtain ⟨a, r1⟩ := p1
    simp only [h1] at h; simp only [decUint_mono _ s _ _ h1]
    cases h3 : decNodes r1 with
    | none => simp [h3] at h
    | some p3 =>
      obtain ⟨c, r3⟩ := p3
      simp only [h3, Option.some.injEq, Prod.mk.injEq] at h
      obtain ⟨rfl, rfl⟩ := h
      simp [decNodes_mono _ s _ _ h3]
theorem encDataSeek_length (m : DataSeek) (h : m.WF) : (encDataSeek m).length = sizeDataSeek m := by
  simp [encDataSeek, sizeDataSeek, encUint_length, encNodes_length _ h.2]

/-! DataUpgrade -/
theorem decDataUpgrade_enc (m : DataUpgrade) (h : m.WF) (rest : Bytes) :
    decDataUpgrade (encDataUpgrade m ++ rest) = some (m, rest) := by
  obtain ⟨h1, h2, h3, h4, h5⟩ := h
  simp [decDataUpgrade, encDataUpgrade, List.append_assoc, decUint_encUint _ h1, decUint_encUint _ h2,
    decNodes_encNodes _ h3, decNodes_encNodes _ h4, decBuf_encBuf _ h5]
theorem decDataUpgrade_mono (q s : Bytes) (m : DataUpgrade) (r : Bytes)
    (h : decDataUpgrade q = some (m, r)) : decDataUpgrade (q ++ s) = some (m, r ++ s) := by
  unfold decDataUpgrade at h ⊢
  cases h1 : decUint q with
  | none => simp [h1] at h
  | some p1 =>
    obtain ⟨a, r1⟩ := p1
    simp only [h1] at h; simp only [decUint_mono _ s _ _ h1]
    cases h2 : decUint r1 with
    | none => simp [h2] at h
    | some p2 =>
      obtain ⟨b, r2⟩ := p2
      simp only [h2] at h; simp only [decUint_mono _ s _ _ h2]
      cases h3 : decNodes r2 with
      | none => simp [h3] at h
      | some p3 =>
        obtain ⟨c, r3⟩ := p3
        simp only [h3] at h; simp only [decNodes_mono _ s _ _ h3]
        cases h4 : decNodes r3 with
        | none => simp [h4] at h
        | some p4 =>
          obtain ⟨d, r4⟩ := p4
          simp only [h4] at h; simp only [decNodes_mono _ s _ _ h4]
          cases h5 : decBuf r4 with
          | none => simp [h5] at h
          | some p5 =>
            obtain ⟨e, r5⟩ := p5
            simp only [h5, Option.some.injEq, Prod.mk.injEq] at h
            obtain ⟨rfl, rfl⟩ := h
            simp [decBuf_mono _ s _ _ h5]
theorem encDataUpgrade_length (m : DataUpgrade) (h : m.WF) : (encDataUpgrade m).length = sizeDataUpgrade m := by
  simp [encDataUpgrade, sizeDataUpgrade, encUint_length, encBuf_length, encNodes_length _ h.2.2.1,
    encNodes_length _ h.2.2.2.1]; omega

end HC.Codec
