import HC.Proofs.Replica
/-!
Growth rounds (C03): a replica that represents the first `m` blocks of the writer's log applies the writer's
answer to "upgrade me from `m` to `n`" and then represents the first `n` blocks — its held blocks untouched.

The nodes of such an upgrade are the greedy decomposition of `[m, n)` into aligned dyadic blocks.  Inside the
first new root the replica's `verify_upgrade` runs its `grow` loop: every block appended there is the right
sibling of the current last root and merges upwards like a binary counter (`RefProof.mergeLoop_ref_eq`); after
it, the remaining roots are appended without merging.  The invariant that makes every intermediate state
usable is `ClosedAt … L`: closed sparse replica of the first `L` blocks; one dyadic append takes `ClosedAt L`
to `ClosedAt (L + 2^J)` (`dyadic_append_closed`).
-/
namespace HC.Growth
open HC HC.Codec HC.Flat HC.Tree HC.RefTree HC.RefProof HC.Sound HC.Offsets HC.TreeStore HC.Complete HC.UpgradeSound HC.CreateTotal HC.Replica HC.FullRoots

/-! ### which positions are roots -/

theorem div_pow_pred (n d : Nat) : n / 2 / 2 ^ d = n / 2 ^ (d + 1) := by
  rw [Nat.div_div_eq_div_mul, Nat.pow_succ, Nat.mul_comm]

/-- `(d, o)` is a root of an `n`-leaf tree iff bit `d` of `n` is set and `o + 1 = n >> d` -/
theorem mem_rootsStack (n : Nat) : ∀ d o, (d, o) ∈ rootsStack n ↔ o + 1 = n / 2 ^ d ∧ (n / 2 ^ d) % 2 = 1 := by
  induction n using Nat.strongRecOn with
  | _ n ih =>
    intro d o
    by_cases h0 : n = 0
    · subst h0; rw [rootsStack_zero]; simp
    have hlift : ∀ x : Nat × Nat, (d, o) = RefProof.lift x ↔ (1 ≤ d ∧ x = (d - 1, o)) := by
      intro x
      obtain ⟨a, b⟩ := x
      simp only [RefProof.lift, Prod.mk.injEq]
      constructor
      · rintro ⟨rfl, rfl⟩; exact ⟨by omega, by simp⟩
      · rintro ⟨h1, h2, h3⟩; exact ⟨by omega, h3.symm⟩
    have hrec : ∀ (hd : 1 ≤ d), ((d - 1, o) ∈ rootsStack (n / 2) ↔ o + 1 = n / 2 ^ d ∧ (n / 2 ^ d) % 2 = 1) := by
      intro hd
      rw [ih (n / 2) (by omega) (d - 1) o, div_pow_pred, show d - 1 + 1 = d by omega]
    by_cases hev : n % 2 = 0
    · rw [rootsStack_even n h0 hev, List.mem_map]
      constructor
      · rintro ⟨x, hx, e⟩
        obtain ⟨hd, rfl⟩ := (hlift x).mp e.symm
        exact (hrec hd).mp hx
      · intro h
        have hd : 1 ≤ d := by
          by_contra hd0
          have : d = 0 := by omega
          subst this
          simp at h; omega
        exact ⟨(d - 1, o), (hrec hd).mpr h, ((hlift _).mpr ⟨hd, rfl⟩).symm⟩
    · rw [rootsStack_odd n (by omega), List.mem_cons, List.mem_map]
      constructor
      · rintro (e | ⟨x, hx, e⟩)
        · simp only [Prod.mk.injEq] at e
          obtain ⟨rfl, rfl⟩ := e
          simp; omega
        · obtain ⟨hd, rfl⟩ := (hlift x).mp e.symm
          exact (hrec hd).mp hx
      · intro h
        by_cases hd0 : d = 0
        · subst hd0
          left
          simp at h ⊢; omega
        · right
          have hd : 1 ≤ d := by omega
          exact ⟨(d - 1, o), (hrec hd).mpr h, ((hlift _).mpr ⟨hd, rfl⟩).symm⟩

/-- multiples of `P`: the next one is at least `P` further -/
theorem mult_gap (P a b : Nat) (ha : P ∣ a) (hb : P ∣ b) (h : a < b) : a + P ≤ b := by
  obtain ⟨x, rfl⟩ := ha
  obtain ⟨y, rfl⟩ := hb
  have hP : 0 < P := by
    rcases Nat.eq_zero_or_pos P with h0 | h0
    · subst h0; simp at h
    · exact h0
  have : x < y := Nat.lt_of_mul_lt_mul_left h
  calc P * x + P = P * (x + 1) := by ring
    _ ≤ P * y := Nat.mul_le_mul_left _ (by omega)

/-! ### closed replicas of a prefix -/

/-- a closed sparse replica of the first `L` blocks of the log `bs` -/
structure ClosedAt (C : Crypto) (bs : Array Bytes) (L : Nat) (t : Tree) (f : File) : Prop where
  sparse : Sparse C bs L t f
  closed : ∀ d o, t.node? f (Flat.index d o) = some (nodeAt C bs d o) → (o / 2 + 1) * 2 ^ (d + 1) ≤ L →
    t.node? f (Flat.index d (sib o)) = some (nodeAt C bs d (sib o))
      ∧ t.node? f (Flat.index (d + 1) (o / 2)) = some (nodeAt C bs (d + 1) (o / 2))

theorem closedAt_full (C : Crypto) (bs : Array Bytes) (t : Tree) (f : File) : ClosedAt C bs bs.size t f ↔ Closed C bs t f :=
  ⟨fun h => ⟨h.sparse, h.closed⟩, fun h => ⟨h.sparse, h.closed⟩⟩

/-! ### one dyadic append -/

theorem parent_end_odd (d o : Nat) (h : o % 2 = 1) : (o / 2 + 1) * 2 ^ (d + 1) = (o + 1) * 2 ^ d := by
  rw [pow_succ2]
  have : (o / 2 + 1) * (2 * 2 ^ d) = (2 * (o / 2) + 2) * 2 ^ d := by ring
  rw [this]; congr 1; omega

theorem parent_end_even (d o : Nat) (h : o % 2 = 0) : (o / 2 + 1) * 2 ^ (d + 1) = (o + 2) * 2 ^ d := by
  rw [pow_succ2]
  have : (o / 2 + 1) * (2 * 2 ^ d) = (2 * (o / 2) + 2) * 2 ^ d := by ring
  rw [this]; congr 1; omega

/-- **binary-counter step of the replica's tree**: appending the aligned block `[L, L + 2^J)` — its node and all
    the parents that end at the new length — takes a closed replica of the first `L` blocks to a closed replica of
    the first `L + 2^J` blocks -/
theorem dyadic_append_closed (C : Crypto) (hC : HashWF C) (bs : Array Bytes) (L J : Nat) (hdvd : 2 ^ J ∣ L)
    (t t' : Tree) (f : File) (h : ClosedAt C bs L t f) (added : List Node)
    (hadd : ∀ n ∈ added, ∃ d o, n = nodeAt C bs d o ∧ (o + 1) * 2 ^ d = L + 2 ^ J ∧ J < d)
    (hcomp : ∀ d o, J < d → (o + 1) * 2 ^ d = L + 2 ^ J → nodeAt C bs d o ∈ added)
    (l : List Node) (hl : ∀ n, n ∈ l ↔ n = nodeAt C bs J (L / 2 ^ J) ∨ n ∈ added)
    (hu : t'.unflushed = insertAll t.unflushed l) (hlen : t'.length = L + 2 ^ J) :
    ClosedAt C bs (L + 2 ^ J) t' f := by
  have hpJ := pow_pos' J
  obtain ⟨M, hM⟩ := hdvd
  have hMJ : L / 2 ^ J = M := by rw [hM]; exact Nat.mul_div_cancel_left _ hpJ
  have hXend : (L / 2 ^ J + 1) * 2 ^ J = L + 2 ^ J := by rw [hMJ, hM]; ring
  -- every inserted node is a reference node that ends at the new length
  have hnewEnd : ∀ n ∈ l, ∃ d o, n = nodeAt C bs d o ∧ (o + 1) * 2 ^ d = L + 2 ^ J ∧ J ≤ d := by
    intro n hn
    rcases (hl n).mp hn with rfl | hn
    · exact ⟨J, L / 2 ^ J, rfl, hXend, Nat.le_refl _⟩
    · obtain ⟨d, o, e, h1, h2⟩ := hadd n hn; exact ⟨d, o, e, h1, by omega⟩
  obtain ⟨hnew, hold, honly⟩ := insert_lookup C hC bs t t' f l (fun n hn => by obtain ⟨d, o, e, _⟩ := hnewEnd n hn; exact ⟨d, o, e⟩) hu
  -- a node of depth ≥ J that ends at the new length is stored afterwards
  have hendStored : ∀ d o, J ≤ d → (o + 1) * 2 ^ d = L + 2 ^ J → t'.node? f (Flat.index d o) = some (nodeAt C bs d o) := by
    intro d o hd he
    apply hnew
    apply (hl _).mpr
    by_cases hdJ : d = J
    · left
      subst hdJ
      have : o = L / 2 ^ d := by
        have h1 : (o + 1) * 2 ^ d = (L / 2 ^ d + 1) * 2 ^ d := by rw [he, hXend]
        have := Nat.eq_of_mul_eq_mul_right hpJ h1
        omega
      rw [this]
    · right; exact hcomp d o (by omega) he
  -- a node of depth ≥ J that ends inside the old length at distance `2^d` from the new one is an old root
  have holdRoot : ∀ d q, J ≤ d → (q + 2) * 2 ^ d = L + 2 ^ J → q % 2 = 0 → t.node? f (Flat.index d q) = some (nodeAt C bs d q) := by
    intro d q hd he hq
    apply h.sparse.roots (d, q)
    apply (mem_rootsStack L d q).mpr
    have hpd := pow_pos' d
    have h2 : 2 ^ J ≤ 2 ^ d := Nat.pow_le_pow_right (by decide) hd
    have hdiv : L / 2 ^ d = q + 1 := by
      apply div_eq_of_span
      · have : (q + 2) * 2 ^ d = (q + 1) * 2 ^ d + 2 ^ d := by ring
        omega
      · have : (q + 1 + 1) * 2 ^ d = (q + 2) * 2 ^ d := by ring
        omega
    rw [hdiv]; exact ⟨rfl, by omega⟩
  refine ⟨?_, ?_⟩
  · -- sparse
    refine Sync.sparse_insert C hC bs L (L + 2 ^ J) t t' f h.sparse (by omega) l
      (fun n hn => by obtain ⟨d, o, e, h1, _⟩ := hnewEnd n hn; exact ⟨d, o, e, Nat.le_of_eq h1⟩) hu hlen ?_
    intro p hp
    obtain ⟨d, o⟩ := p
    obtain ⟨r1, r2⟩ := (mem_rootsStack (L + 2 ^ J) d o).mp hp
    have hpd := pow_pos' d
    simp only
    -- no root lies below depth J
    have hdJ : J ≤ d := by
      by_contra hlt
      obtain ⟨x, rfl⟩ : ∃ x, J = d + 1 + x := ⟨J - d - 1, by omega⟩
      have e1 : L + 2 ^ (d + 1 + x) = 2 ^ d * (2 * (2 ^ x * (M + 1))) := by
        rw [hM, show d + 1 + x = d + (1 + x) by omega, Nat.pow_add, Nat.pow_add]; ring
      rw [e1, Nat.mul_div_cancel_left _ hpd] at r2
      omega
    have hle : (o + 1) * 2 ^ d ≤ L + 2 ^ J := by rw [r1]; exact Nat.div_mul_le_self _ _
    rcases Nat.lt_or_eq_of_le hle with hlt | heq
    · -- an old root
      right
      have h2J : 2 ^ J ∣ (o + 1) * 2 ^ d := Nat.dvd_trans (Nat.pow_dvd_pow 2 hdJ) (Nat.dvd_mul_left _ _)
      have h2L : 2 ^ J ∣ L + 2 ^ J := (Nat.dvd_add_right ⟨M, hM⟩).mpr (Nat.dvd_refl _)
      have hgap := mult_gap (2 ^ J) _ _ h2J h2L hlt
      apply h.sparse.roots (d, o)
      apply (mem_rootsStack L d o).mpr
      have hrem : (L + 2 ^ J) % 2 ^ d = L + 2 ^ J - (o + 1) * 2 ^ d := by
        have := Nat.div_add_mod (L + 2 ^ J) (2 ^ d)
        rw [← r1, Nat.mul_comm] at this
        omega
      have hrlt : (L + 2 ^ J) % 2 ^ d < 2 ^ d := Nat.mod_lt _ hpd
      have hLd : L / 2 ^ d = o + 1 := by
        apply div_eq_of_span
        · omega
        · have : (o + 1 + 1) * 2 ^ d = (o + 1) * 2 ^ d + 2 ^ d := by ring
          omega
      rw [hLd]
      exact ⟨rfl, by rw [← r1] at r2; exact r2⟩
    · left
      exact ⟨nodeAt C bs d o, (hl _).mpr (by
        by_cases hdj : d = J
        · left
          subst hdj
          have h1 : (o + 1) * 2 ^ d = (L / 2 ^ d + 1) * 2 ^ d := by rw [heq, hXend]
          have := Nat.eq_of_mul_eq_mul_right hpJ h1
          have : o = L / 2 ^ d := by omega
          rw [this]
        · right; exact hcomp d o (by omega) heq), rfl⟩
  · -- closed
    intro d o hst hpar
    have hpd := pow_pos' d
    have hspan1 : (o + 1) * 2 ^ d ≤ (o / 2 + 1) * 2 ^ (d + 1) := by
      have := span_le o d 1
      simpa using this
    by_cases hPL : (o / 2 + 1) * 2 ^ (d + 1) ≤ L
    · -- the parent already lay inside the old tree: the node is an old one
      rcases honly d o hst with hin | hwas
      · exfalso
        obtain ⟨d', o', e, he, _⟩ := hnewEnd _ hin
        obtain ⟨rfl, rfl⟩ := nodeAt_inj C bs _ _ _ _ e
        omega
      · obtain ⟨c1, c2⟩ := h.closed d o hwas hPL
        exact ⟨hold _ _ c1, hold _ _ c2⟩
    · -- the parent ends at the new length
      have hgt : L < (o / 2 + 1) * 2 ^ (d + 1) := by omega
      have hdJ : J ≤ d := by
        by_contra hlt
        -- the parent is smaller than the new block and lies inside it: nothing is stored there
        have h2 : 2 ^ (d + 1) ∣ L := Nat.dvd_trans (Nat.pow_dvd_pow 2 (by omega : d + 1 ≤ J)) ⟨M, hM⟩
        have hgap := mult_gap (2 ^ (d + 1)) L _ h2 (Nat.dvd_mul_left _ _) hgt
        have hstart : L ≤ o * 2 ^ d := by
          have e1 : (o / 2 + 1) * 2 ^ (d + 1) = (o / 2) * 2 ^ (d + 1) + 2 ^ (d + 1) := by ring
          have e2 : (o / 2) * 2 ^ (d + 1) ≤ o * 2 ^ d := by
            rw [pow_succ2]
            have : o / 2 * (2 * 2 ^ d) = (o / 2 * 2) * 2 ^ d := by ring
            rw [this]; exact Nat.mul_le_mul_right _ (Nat.div_mul_le_self o 2)
          omega
        rcases honly d o hst with hin | hwas
        · obtain ⟨d', o', e, _, hd'⟩ := hnewEnd _ hin
          obtain ⟨rfl, rfl⟩ := nodeAt_inj C bs _ _ _ _ e
          omega
        · obtain ⟨d', o', hidx, _, hb⟩ := h.sparse.sound _ _ hwas
          obtain ⟨rfl, rfl⟩ := index_inj d o d' o' hidx
          have : (o + 1) * 2 ^ d = o * 2 ^ d + 2 ^ d := by ring
          omega
      have hPend : (o / 2 + 1) * 2 ^ (d + 1) = L + 2 ^ J := by
        have h2 : 2 ^ J ∣ (o / 2 + 1) * 2 ^ (d + 1) := Nat.dvd_trans (Nat.pow_dvd_pow 2 (by omega : J ≤ d + 1)) (Nat.dvd_mul_left _ _)
        have hgap := mult_gap (2 ^ J) L _ ⟨M, hM⟩ h2 hgt
        omega
      have hparent := hendStored (d + 1) (o / 2) (by omega) hPend
      refine ⟨?_, hparent⟩
      by_cases ho : o % 2 = 1
      · -- right child: the left sibling was a root of the old tree
        have hs : sib o = o - 1 := by unfold sib; simp [ho]
        rw [hs]
        apply hold
        apply holdRoot d (o - 1) hdJ
        · rw [← hPend, parent_end_odd d o ho]; congr 1; omega
        · omega
      · -- left child: the right sibling ends at the new length
        have hs : sib o = o + 1 := by unfold sib; simp; omega
        rw [hs]
        apply hendStored d (o + 1) hdJ
        rw [← hPend, parent_end_even d o (by omega)]

/-! ### `append_root` with an aligned block on top of reference roots -/

theorem rootsStack_mul_pow (M : Nat) : ∀ J, rootsStack (M * 2 ^ J) = (rootsStack M).map (liftN J) := by
  intro J
  induction J with
  | zero => simp [liftN_zero]
  | succ J ih =>
    by_cases hM : M = 0
    · subst hM; simp [rootsStack_zero]
    · have hp := pow_pos' J
      have hne : M * 2 ^ (J + 1) ≠ 0 := by
        have := pow_pos' (J + 1)
        exact Nat.mul_ne_zero hM (by omega)
      have e : M * 2 ^ (J + 1) = 2 * (M * 2 ^ J) := by rw [pow_succ2]; ring
      have hev : M * 2 ^ (J + 1) % 2 = 0 := by rw [e]; omega
      have hhalf : M * 2 ^ (J + 1) / 2 = M * 2 ^ J := by rw [e]; omega
      rw [rootsStack_even _ hne hev, hhalf, ih]
      simp only [List.map_map]
      congr 1

theorem appendRoot_dyadic (C : Crypto) (bs : Array Bytes) (cs : Changeset) (M J : Nat)
    (hroots : cs.roots.reverse = (rootsStack (M * 2 ^ J)).map (fun p => nodeAt C bs p.1 p.2)) :
    ∃ (added : List Node) (top : Nat × Nat),
      (appendRoot C cs (nodeAt C bs J M) (iat J M)).1.roots.reverse = (rootsStack (M * 2 ^ J + 2 ^ J)).map (fun p => nodeAt C bs p.1 p.2)
      ∧ (appendRoot C cs (nodeAt C bs J M) (iat J M)).1.rnodes = added ++ (nodeAt C bs J M :: cs.rnodes)
      ∧ (appendRoot C cs (nodeAt C bs J M) (iat J M)).2 = iat top.1 top.2
      ∧ (rootsStack (M * 2 ^ J + 2 ^ J)).head? = some top
      ∧ (∀ n ∈ added, ∃ d o, n = nodeAt C bs d o ∧ (o + 1) * 2 ^ d = M * 2 ^ J + 2 ^ J ∧ J < d)
      ∧ (∀ d o, J < d → (o + 1) * 2 ^ d = M * 2 ^ J + 2 ^ J → nodeAt C bs d o ∈ added)
      ∧ (appendRoot C cs (nodeAt C bs J M) (iat J M)).1.length = cs.length + 2 ^ J
      ∧ (appendRoot C cs (nodeAt C bs J M) (iat J M)).1.byteLength = cs.byteLength + (nodeAt C bs J M).length
      ∧ (∀ (a b : List Node) (x : Node), added = a ++ x :: b → ∀ y ∈ a, ∃ dx ox dy oy, x = nodeAt C bs dx ox ∧ y = nodeAt C bs dy oy ∧ dx < dy) := by
  have hE : M * 2 ^ J + 2 ^ J = (M + 1) * 2 ^ J := by ring
  have hlen : cs.roots.length = (rootsStack M).length := by
    have := congrArg List.length hroots
    simpa [rootsStack_mul_pow] using this
  obtain ⟨added, top, h1, h2, h3, h4, h5⟩ := mergeLoop_ref_eq C bs M J (cs.roots.length + 1) (nodeAt C bs J M :: cs.rnodes) (by omega)
  have hstack : (nodeAt C bs J M :: cs.roots.reverse) = nodeAt C bs J M :: ((rootsStack M).map (liftN J)).map (fun p => nodeAt C bs p.1 p.2) := by
    rw [hroots, rootsStack_mul_pow]
  refine ⟨added, top, ?_, ?_, ?_, ?_, ?_, ?_, ?_, ?_, h5⟩
  · simp only [appendRoot, hstack, h1, List.reverse_reverse]
    rw [hE, rootsStack_mul_pow]
  · simp only [appendRoot, hstack, h1]
  · simp only [appendRoot, hstack, h1]
  · rw [hE, rootsStack_mul_pow]; exact h3
  · intro n hn
    obtain ⟨d, o, e, hb, hd⟩ := h2 n hn
    exact ⟨d, o, e, by rw [hb, hE], hd⟩
  · intro d o hd he
    exact h4 d o hd (by rw [he, hE])
  · simp only [appendRoot, iat, two_pow_succ]
    have := pow_pos' J
    omega
  · simp only [appendRoot]

/-! ### the invariant carried through `verify_upgrade` -/

/-- the tree the changeset would give if it were committed now -/
def vt (t : Tree) (cs : Changeset) : Tree := { t with unflushed := insertAll t.unflushed cs.nodes, length := cs.length }

/-- where an element sits in a concatenation -/
theorem split_append {α : Type} (l1 l2 a b : List α) (x : α) (h : l1 ++ l2 = a ++ x :: b) :
    (∃ b', l1 = a ++ x :: b' ∧ b = b' ++ l2) ∨ (∃ a', a = l1 ++ a' ∧ l2 = a' ++ x :: b) := by
  rcases List.append_eq_append_iff.mp h with ⟨a', h1, h2⟩ | ⟨c', h1, h2⟩
  · exact Or.inr ⟨a', h1, h2⟩
  · cases c' with
    | nil => exact Or.inr ⟨[], by simpa using h1.symm, by simpa using h2.symm⟩
    | cons y c'' =>
      simp only [List.cons_append, List.cons.injEq] at h2
      obtain ⟨rfl, rfl⟩ := h2
      exact Or.inl ⟨c'', h1, rfl⟩

/-- the changeset's node list (newest first) holds every node once, and a parent is newer than its children: the
    order in which `byte_offset_in_changeset` can follow a block's ancestors -/
structure Ordered (C : Crypto) (bs : Array Bytes) (rn : List Node) : Prop where
  distinct : ∀ (a b : List Node) (x : Node), rn = a ++ x :: b → ∀ y ∈ a, y.index ≠ x.index
  parentsNewer : ∀ (a b : List Node) (d o : Nat), rn = a ++ nodeAt C bs (d + 1) o :: b →
    ∀ o', o' / 2 = o → nodeAt C bs d o' ∈ rn → nodeAt C bs d o' ∈ b

theorem ordered_nil (C : Crypto) (bs : Array Bytes) : Ordered C bs [] :=
  ⟨fun a b x h => by simp at h, fun a b d o h => by simp at h⟩

theorem end_child_le (d o o' : Nat) (h : o' / 2 = o) : (o' + 1) * 2 ^ d ≤ (o + 1) * 2 ^ (d + 1) := by
  rw [pow_succ2]
  have : (o + 1) * (2 * 2 ^ d) = (2 * o + 2) * 2 ^ d := by ring
  rw [this]
  exact Nat.mul_le_mul_right _ (by omega)

/-- one aligned block appended keeps the order -/
theorem ordered_step (C : Crypto) (bs : Array Bytes) (rn added : List Node) (J M : Nat) (hold : Ordered C bs rn)
    (href : ∀ x ∈ rn, ∃ d o, x = nodeAt C bs d o ∧ (o + 1) * 2 ^ d ≤ M * 2 ^ J)
    (a5 : ∀ n ∈ added, ∃ d o, n = nodeAt C bs d o ∧ (o + 1) * 2 ^ d = M * 2 ^ J + 2 ^ J ∧ J < d)
    (a9 : ∀ (a b : List Node) (x : Node), added = a ++ x :: b → ∀ y ∈ a, ∃ dx ox dy oy, x = nodeAt C bs dx ox ∧ y = nodeAt C bs dy oy ∧ dx < dy) :
    Ordered C bs (added ++ nodeAt C bs J M :: rn) := by
  have hp := pow_pos' J
  have hEJ : (M + 1) * 2 ^ J = M * 2 ^ J + 2 ^ J := by ring
  -- the new nodes end behind every old node
  have hnew_old : ∀ y, (y ∈ added ∨ y = nodeAt C bs J M) → ∀ x ∈ rn, y.index ≠ x.index := by
    intro y hy x hx e
    obtain ⟨dx, ox, rfl, hbx⟩ := href x hx
    rcases hy with hy | rfl
    · obtain ⟨dy, oy, rfl, hby, _⟩ := a5 y hy
      obtain ⟨e1, e2⟩ := index_inj _ _ _ _ (show Flat.index dy oy = Flat.index dx ox from e)
      subst e1 e2; omega
    · obtain ⟨e1, e2⟩ := index_inj _ _ _ _ (show Flat.index J M = Flat.index dx ox from e)
      subst e1 e2; omega
  have hadd_x : ∀ y ∈ added, y.index ≠ (nodeAt C bs J M).index := by
    intro y hy e
    obtain ⟨dy, oy, rfl, _, hd⟩ := a5 y hy
    obtain ⟨e1, _⟩ := index_inj _ _ _ _ (show Flat.index dy oy = Flat.index J M from e)
    omega
  constructor
  · intro a b x hs y hy
    rcases split_append added (nodeAt C bs J M :: rn) a b x hs with ⟨b', h1, _⟩ | ⟨a', h1, h2⟩
    · obtain ⟨dx, ox, dy, oy, rfl, rfl, hlt⟩ := a9 a b' x h1 y hy
      intro e
      obtain ⟨e1, _⟩ := index_inj _ _ _ _ (show Flat.index dy oy = Flat.index dx ox from e)
      omega
    · cases a' with
      | nil =>
        simp only [List.nil_append, List.cons.injEq] at h2
        obtain ⟨rfl, _⟩ := h2
        simp only [List.append_nil] at h1
        subst h1
        exact hadd_x y hy
      | cons z a'' =>
        simp only [List.cons_append, List.cons.injEq] at h2
        obtain ⟨rfl, h2⟩ := h2
        have hx : x ∈ rn := by rw [h2]; simp
        rw [h1] at hy
        rcases List.mem_append.mp hy with hy | hy
        · exact hnew_old y (Or.inl hy) x hx
        · rcases List.mem_cons.mp hy with rfl | hy
          · exact hnew_old _ (Or.inr rfl) x hx
          · exact hold.distinct a'' b x h2 y hy
  · intro a b d o hs o' ho' hmem
    have hchild_end := end_child_le d o o' ho'
    -- a child that is among the new nodes ends at the new length, so its parent does too and is new as well
    rcases split_append added (nodeAt C bs J M :: rn) a b (nodeAt C bs (d + 1) o) hs with ⟨b', h1, hb⟩ | ⟨a', h1, h2⟩
    · -- the parent is one of the merged parents: everything newer is deeper
      rw [hb]
      rcases List.mem_append.mp hmem with hm | hm
      · rw [h1] at hm
        rcases List.mem_append.mp hm with hm | hm
        · exfalso
          obtain ⟨dx, ox, dy, oy, ex, ey, hlt⟩ := a9 a b' _ h1 _ hm
          obtain ⟨e1, _⟩ := index_inj _ _ _ _ (show Flat.index (d + 1) o = Flat.index dx ox from congrArg Node.index ex)
          obtain ⟨e2, _⟩ := index_inj _ _ _ _ (show Flat.index d o' = Flat.index dy oy from congrArg Node.index ey)
          omega
        · rcases List.mem_cons.mp hm with hm | hm
          · exfalso
            obtain ⟨e1, _⟩ := index_inj _ _ _ _ (show Flat.index d o' = Flat.index (d + 1) o from congrArg Node.index hm)
            omega
          · exact List.mem_append.mpr (Or.inl hm)
      · exact List.mem_append.mpr (Or.inr hm)
    · cases a' with
      | nil =>
        -- the parent is the appended node
        simp only [List.nil_append, List.cons.injEq] at h2
        obtain ⟨hx, rfl⟩ := h2
        obtain ⟨e1, e2⟩ := index_inj _ _ _ _ (show Flat.index (d + 1) o = Flat.index J M from (congrArg Node.index hx).symm)
        rcases List.mem_append.mp hmem with hm | hm
        · exfalso
          obtain ⟨dy, oy, ey, _, hd⟩ := a5 _ hm
          obtain ⟨e3, _⟩ := index_inj _ _ _ _ (show Flat.index d o' = Flat.index dy oy from congrArg Node.index ey)
          omega
        · rcases List.mem_cons.mp hm with hm | hm
          · exfalso
            obtain ⟨e3, _⟩ := index_inj _ _ _ _ (show Flat.index d o' = Flat.index J M from congrArg Node.index hm)
            omega
          · exact hm
      | cons z a'' =>
        -- the parent is an old node: its children end inside the old length
        simp only [List.cons_append, List.cons.injEq] at h2
        obtain ⟨rfl, h2⟩ := h2
        have hpx : nodeAt C bs (d + 1) o ∈ rn := by rw [h2]; simp
        obtain ⟨dx, ox, ex, hbx⟩ := href _ hpx
        obtain ⟨e1, e2⟩ := index_inj _ _ _ _ (show Flat.index (d + 1) o = Flat.index dx ox from congrArg Node.index ex)
        subst e1 e2
        have hin_rn : nodeAt C bs d o' ∈ rn := by
          rcases List.mem_append.mp hmem with hm | hm
          · exfalso
            obtain ⟨dy, oy, ey, hby, _⟩ := a5 _ hm
            obtain ⟨e3, e4⟩ := index_inj _ _ _ _ (show Flat.index d o' = Flat.index dy oy from congrArg Node.index ey)
            subst e3 e4; omega
          · rcases List.mem_cons.mp hm with hm | hm
            · exfalso
              obtain ⟨e3, e4⟩ := index_inj _ _ _ _ (show Flat.index d o' = Flat.index J M from congrArg Node.index hm)
              subst e3 e4; omega
            · exact hm
        exact hold.parentsNewer a'' b d o h2 o' ho' hin_rn

/-- the changeset holds the reference roots of the first `L` blocks, and committing it would give a closed replica
    of those blocks -/
structure Inv (C : Crypto) (bs : Array Bytes) (t : Tree) (f : File) (cs : Changeset) (L : Nat) : Prop where
  roots : cs.roots.reverse = (rootsStack L).map (fun p => nodeAt C bs p.1 p.2)
  length : cs.length = L
  bytes : cs.byteLength = psum bs L
  closed : ClosedAt C bs L (vt t cs) f
  nodesRef : ∀ x ∈ cs.rnodes, ∃ d o, x = nodeAt C bs d o ∧ (o + 1) * 2 ^ d ≤ L
  order : Ordered C bs cs.rnodes

theorem insertAll_append (m : NMap) (a b : List Node) : insertAll m (a ++ b) = insertAll (insertAll m a) b := by
  simp [insertAll, List.foldl_append]

/-- one aligned block appended: the invariant moves from `M·2^J` to `(M+1)·2^J` -/
theorem step_inv (C : Crypto) (hC : HashWF C) (bs : Array Bytes) (t : Tree) (f : File) (cs : Changeset) (M J : Nat)
    (h : Inv C bs t f cs (M * 2 ^ J)) :
    Inv C bs t f (appendRoot C cs (nodeAt C bs J M) (iat J M)).1 (M * 2 ^ J + 2 ^ J)
      ∧ ∃ top, (appendRoot C cs (nodeAt C bs J M) (iat J M)).2 = iat top.1 top.2 ∧ (rootsStack (M * 2 ^ J + 2 ^ J)).head? = some top := by
  obtain ⟨added, top, a1, a2, a3, a4, a5, a6, a7, a8, a9⟩ := appendRoot_dyadic C bs cs M J h.roots
  have hXe : (M + 1) * 2 ^ J = M * 2 ^ J + 2 ^ J := by ring
  have hnr : ∀ x ∈ (appendRoot C cs (nodeAt C bs J M) (iat J M)).1.rnodes, ∃ d o, x = nodeAt C bs d o ∧ (o + 1) * 2 ^ d ≤ M * 2 ^ J + 2 ^ J := by
    intro x hx
    rw [a2] at hx
    simp only [List.mem_append, List.mem_cons] at hx
    rcases hx with hx | rfl | hx
    · obtain ⟨d, o, e, hb, _⟩ := a5 x hx
      exact ⟨d, o, e, Nat.le_of_eq hb⟩
    · exact ⟨J, M, rfl, Nat.le_of_eq hXe⟩
    · obtain ⟨d, o, e, hb⟩ := h.nodesRef x hx
      exact ⟨d, o, e, Nat.le_trans hb (Nat.le_add_right _ _)⟩
  refine ⟨⟨a1, by rw [a7, h.length], ?_, ?_, hnr, by rw [a2]; exact ordered_step C bs cs.rnodes added J M h.order h.nodesRef a5 a9⟩, top, a3, a4⟩
  · rw [a8, h.bytes]
    have := nodeAt_len C bs J M
    have e : (M + 1) * 2 ^ J = M * 2 ^ J + 2 ^ J := by ring
    rw [e] at this
    omega
  · have hMJ : M * 2 ^ J / 2 ^ J = M := Nat.mul_div_cancel _ (pow_pos' J)
    apply dyadic_append_closed C hC bs (M * 2 ^ J) J (Nat.dvd_mul_left _ _) (vt t cs) _ f h.closed added a5 a6
      (nodeAt C bs J M :: added.reverse)
    · intro n; rw [hMJ]; simp
    · show insertAll t.unflushed (appendRoot C cs (nodeAt C bs J M) (iat J M)).1.nodes = insertAll (insertAll t.unflushed cs.nodes) _
      rw [← insertAll_append]
      congr 1
      simp [Changeset.nodes, a2]
    · show (appendRoot C cs (nodeAt C bs J M) (iat J M)).1.length = _
      rw [a7, h.length]

/-! ### the `grow` loop -/

/-- the blocks appended while growing inside the first new root: each is the right sibling of the current last root -/
inductive Grow : List (Nat × Nat) → Nat → Nat → Prop
  | nil (E : Nat) : Grow [] E E
  | cons (J M E : Nat) (rest : List (Nat × Nat)) : M % 2 = 1 → M * 2 ^ J + 2 ^ J ≤ E → Grow rest (M * 2 ^ J + 2 ^ J) E →
      Grow ((J, M) :: rest) (M * 2 ^ J) E

theorem head_rootsStack_odd (M J : Nat) (hM : M % 2 = 1) : (rootsStack (M * 2 ^ J)).head? = some (J, M - 1) := by
  rw [rootsStack_mul_pow, rootsStack_odd M hM]
  simp [liftN]

/-- what the changeset keeps apart from roots, nodes and sizes -/
def SameMeta (a b : Changeset) : Prop :=
  b.fork = a.fork ∧ b.origLength = a.origLength ∧ b.origFork = a.origFork ∧ b.ancestors = a.ancestors ∧ b.signature = a.signature
    ∧ ∃ U, b.rnodes = U ++ a.rnodes

theorem SameMeta.refl (a : Changeset) : SameMeta a a := ⟨rfl, rfl, rfl, rfl, rfl, [], rfl⟩
theorem SameMeta.trans {a b c : Changeset} (h1 : SameMeta a b) (h2 : SameMeta b c) : SameMeta a c := by
  obtain ⟨a1, a2, a3, a4, a5, U1, a6⟩ := h1
  obtain ⟨b1, b2, b3, b4, b5, U2, b6⟩ := h2
  exact ⟨b1.trans a1, b2.trans a2, b3.trans a3, b4.trans a4, b5.trans a5, U2 ++ U1, by rw [b6, a6, List.append_assoc]⟩

/-- `mergeLoop` only puts nodes in front of the node list -/
theorem mergeLoop_suffix (C : Crypto) : ∀ (fuel : Nat) (rroots nodes : List Node) (it : Iter),
    ∃ U, (mergeLoop C fuel rroots nodes it).2.1 = U ++ nodes := by
  intro fuel
  induction fuel with
  | zero => intro rroots nodes it; exact ⟨[], by simp [mergeLoop]⟩
  | succ fuel ih =>
    intro rroots nodes it
    match rroots with
    | [] => exact ⟨[], by simp [mergeLoop]⟩
    | [a] => exact ⟨[], by simp [mergeLoop]⟩
    | a :: b :: rest =>
      simp only [mergeLoop]
      split
      · exact ⟨[], rfl⟩
      · obtain ⟨U, hU⟩ := ih (⟨it.sibling.parent.index, a.length + b.length, parentHash C a b⟩ :: rest)
          (⟨it.sibling.parent.index, a.length + b.length, parentHash C a b⟩ :: nodes) it.sibling.parent
        exact ⟨U ++ [⟨it.sibling.parent.index, a.length + b.length, parentHash C a b⟩], by rw [hU]; simp⟩

theorem appendRoot_meta (C : Crypto) (cs : Changeset) (n : Node) (it : Iter) : SameMeta cs (appendRoot C cs n it).1 := by
  obtain ⟨U, hU⟩ := mergeLoop_suffix C (cs.roots.length + 1) (n :: cs.roots.reverse) (n :: cs.rnodes) it
  exact ⟨rfl, rfl, rfl, rfl, rfl, U ++ [n], by simp only [appendRoot]; rw [hU]; simp⟩

theorem growLoop_honest (C : Crypto) (hC : HashWF C) (bs : Array Bytes) (t : Tree) (f : File) (D O : Nat) (hO : O % 2 = 0) :
    ∀ (gs : List (Nat × Nat)) (L : Nat) (cs : Changeset) (q : NodeQueue) (tail : List Node) (fuel : Nat) (top : Nat × Nat),
      Grow gs L ((O + 1) * 2 ^ D) → Inv C bs t f cs L → (rootsStack L).head? = some top →
      q.nodes = gs.map (fun p => nodeAt C bs p.1 p.2) ++ tail → q.extra = none → gs.length < fuel →
      ∃ cs' q', growLoop C (Flat.index D O) fuel cs (iat top.1 top.2) q = .ok (cs', iat D O, q')
        ∧ Inv C bs t f cs' ((O + 1) * 2 ^ D) ∧ q'.nodes = tail ∧ q'.extra = none ∧ SameMeta cs cs'
        ∧ (gs ≠ [] → cs'.upgraded = true) ∧ (gs = [] → cs' = cs) := by
  intro gs
  induction gs with
  | nil =>
    intro L cs q tail fuel top hg hinv htop hq hex hfuel
    cases hg
    obtain ⟨fuel, rfl⟩ : ∃ x, fuel = x + 1 := ⟨fuel - 1, by simp at hfuel; omega⟩
    have hO1 : (O + 1) % 2 = 1 := by omega
    rw [head_rootsStack_odd (O + 1) D hO1] at htop
    have : top = (D, O) := by simpa using htop.symm
    subst this
    refine ⟨cs, q, ?_, hinv, by simpa using hq, hex, SameMeta.refl _, fun h => absurd rfl h, fun _ => rfl⟩
    have : (iat D O).index = Flat.index D O := rfl
    simp [growLoop, this]
  | cons g gs ih =>
    intro L cs q tail fuel top hg hinv htop hq hex hfuel
    obtain ⟨fuel, rfl⟩ : ∃ x, fuel = x + 1 := ⟨fuel - 1, by simp at hfuel; omega⟩
    cases hg with
    | cons J M _ _ hM hfit hrest =>
      rw [head_rootsStack_odd M J hM] at htop
      have : top = (J, M - 1) := by simpa using htop.symm
      subst this
      have hpJ := pow_pos' J
      have hne : ¬ ((iat J (M - 1)).index = Flat.index D O) := by
        intro e
        obtain ⟨e1, e2⟩ := index_inj J (M - 1) D O e
        subst e1
        have : M = O + 1 := by omega
        subst this
        omega
      have hsib : (iat J (M - 1)).sibling = iat J M := by
        rw [iat_sibling_even J (M - 1) (by omega)]
        congr 1; omega
      have hqs : q = ⟨nodeAt C bs J M :: (gs.map (fun p => nodeAt C bs p.1 p.2) ++ tail), none, q.length⟩ := by
        cases hsq : q with
        | mk qn qe ql =>
          rw [hsq] at hq hex
          have e1 : qn = nodeAt C bs J M :: (gs.map (fun p => nodeAt C bs p.1 p.2) ++ tail) := by simpa using hq
          have e2 : qe = none := hex
          rw [e1, e2]
      obtain ⟨hinv', top', hit', htop'⟩ := step_inv C hC bs t f cs M J hinv
      simp only [growLoop, hne, ite_false, hsib]
      rw [hqs, UpgradeComplete.shift_head (nodeAt C bs J M) _ _ (iat J M).index rfl]
      simp only []
      generalize har : appendRoot C cs (nodeAt C bs J M) (iat J M) = ar at hinv' hit'
      have hmeta : SameMeta cs ar.1 := by rw [← har]; exact appendRoot_meta C cs _ _
      have hupg : ar.1.upgraded = true := by rw [← har]; rfl
      obtain ⟨cs1, it1⟩ := ar
      simp only [] at hinv' hit' hmeta hupg ⊢
      rw [hit']
      obtain ⟨cs', q', r1, r2, r3, r4, r5, r6, r7⟩ := ih (M * 2 ^ J + 2 ^ J) cs1 ⟨gs.map (fun p => nodeAt C bs p.1 p.2) ++ tail, none, q.length - 1⟩
        tail fuel top' hrest hinv' htop' rfl rfl (by simp at hfuel; omega)
      refine ⟨cs', q', r1, r2, r3, r4, hmeta.trans r5, fun _ => ?_, fun h => by cases h⟩
      by_cases hgs : gs = []
      · rw [r7 hgs]; exact hupg
      · exact r6 hgs

/-! ### the loop over the new roots -/

theorem head_rootsStack_end (n : Nat) : ∀ d o, (rootsStack n).head? = some (d, o) → (o + 1) * 2 ^ d = n := by
  induction n using Nat.strongRecOn with
  | _ n ih =>
    intro d o h
    by_cases h0 : n = 0
    · subst h0; rw [rootsStack_zero] at h; simp at h
    by_cases hev : n % 2 = 0
    · rw [rootsStack_even n h0 hev] at h
      cases hr : rootsStack (n / 2) with
      | nil => rw [hr] at h; simp at h
      | cons p rest =>
        rw [hr] at h
        simp only [List.map_cons, List.head?_cons, Option.some.injEq, RefProof.lift, Prod.mk.injEq] at h
        obtain ⟨rfl, rfl⟩ := h
        have := ih (n / 2) (by omega) p.1 p.2 (by rw [hr]; rfl)
        rw [pow_succ2]
        have e : (p.2 + 1) * (2 * 2 ^ p.1) = 2 * ((p.2 + 1) * 2 ^ p.1) := by ring
        omega
    · rw [rootsStack_odd n (by omega)] at h
      simp only [List.head?_cons, Option.some.injEq, Prod.mk.injEq] at h
      obtain ⟨rfl, rfl⟩ := h
      simp; omega

theorem iat_top_nextTree (n : Nat) (top : Nat × Nat) (h : (rootsStack n).head? = some top) : (iat top.1 top.2).nextTree = iat 0 n := by
  have he := head_rootsStack_end n top.1 top.2 h
  have hd : 2 ^ top.1 ∣ top.2 * 2 ^ top.1 := Nat.dvd_mul_left _ _
  have := iat_nextTree top.1 (top.2 * 2 ^ top.1) hd
  rw [Nat.mul_div_cancel _ (pow_pos' top.1)] at this
  rw [this]
  congr 1
  rw [← he]; ring

/-- every root the changeset holds lies to the left of leaf `L` -/
theorem inv_root_index (C : Crypto) (bs : Array Bytes) (t : Tree) (f : File) (cs : Changeset) (L : Nat) (h : Inv C bs t f cs L)
    (i : Nat) (hi : i < cs.roots.length) : (cs.roots.getD i default).index < 2 * L := by
  have hmem : cs.roots.getD i default ∈ cs.roots := by
    rw [List.getD_eq_getElem?_getD, List.getElem?_eq_getElem hi]
    exact List.getElem_mem hi
  have : cs.roots.getD i default ∈ cs.roots.reverse := List.mem_reverse.mpr hmem
  rw [h.roots] at this
  obtain ⟨p, hp, e⟩ := List.mem_map.mp this
  rw [← e]
  exact UpgradeComplete.pos_index_lt p.1 p.2 L (rootsStack_bound L p hp)

/-- the appending phase: from leaf `s` on, one root of the target per round, no root of the replica left to match -/
theorem upgradeRoots_append (C : Crypto) (hC : HashWF C) (bs : Array Bytes) (t : Tree) (f : File) (n : Nat) (hN : n < 2 ^ 64) :
    ∀ (ln : List (Nat × Nat)) (fuel s : Nat) (st : UpState), Cover ln s n → DecDepth ln → Align s n → st.it = iat 0 s →
      (st.grow = true → st.cs.roots.length ≤ st.i) → Inv C bs t f st.cs s → st.q.nodes = ln.map (fun p => nodeAt C bs p.1 p.2) → st.q.extra = none →
      ln.length < fuel →
      ∃ st', upgradeRoots C (2 * n) fuel st = .ok st' ∧ Inv C bs t f st'.cs n ∧ st'.q.extra = none ∧ SameMeta st.cs st'.cs
        ∧ (ln ≠ [] → st'.cs.upgraded = true) ∧ (ln = [] → st'.cs = st.cs) ∧ st'.q.nodes = [] := by
  intro ln
  induction ln with
  | nil =>
    intro fuel s st hc _ _ hit _ hinv hq0 hex hfuel
    have := UpgradeComplete.cover_nil_eq _ _ hc
    subst this
    obtain ⟨fuel, rfl⟩ : ∃ x, fuel = x + 1 := ⟨fuel - 1, by simp at hfuel; omega⟩
    refine ⟨{ st with it := iat 0 s }, ?_, hinv, hex, SameMeta.refl _, fun h => absurd rfl h, fun _ => rfl, by simpa using hq0⟩
    unfold upgradeRoots
    rw [hit, fullRoot_done s s (Nat.le_refl _)]
    simp
  | cons p ln ih =>
    intro fuel s st hc hdec hal hit hgrow hinv hq hex hfuel
    obtain ⟨d, o⟩ := p
    obtain ⟨fuel, rfl⟩ : ∃ x, fuel = x + 1 := ⟨fuel - 1, by simp at hfuel; omega⟩
    obtain ⟨c1, c2, c3⟩ := FullRoots.cover_lt _ s n d o ln rfl hc hdec
    have hpd := pow_pos' d
    have hs : s < n := by omega
    obtain ⟨J, hfr, hd, hfit, hal', hmax⟩ := fullRoot_canon s n hal hs hN
    have hJ : J = d := by
      have h1 : 2 ^ J < 2 ^ (d + 1) := by omega
      have h2 : 2 ^ d < 2 ^ (J + 1) := by rw [two_pow_succ]; omega
      have := (Nat.pow_lt_pow_iff_right (by decide : 1 < 2)).mp h1
      have := (Nat.pow_lt_pow_iff_right (by decide : 1 < 2)).mp h2
      omega
    subst hJ
    have ho : s / 2 ^ J = o := by rw [c3]; exact Nat.mul_div_cancel _ (pow_pos' J)
    rw [ho] at hfr
    have hidx : (iat J o).index = 2 * s + 2 ^ J - 1 := by rw [← ho]; exact index_aligned J s hd
    -- no root of the changeset sits here
    have hno : ¬ (st.i < st.cs.roots.length ∧ (st.cs.roots.getD st.i default).index = (iat J o).index) := by
      rintro ⟨h1, h2⟩
      have := inv_root_index C bs t f st.cs s hinv st.i h1
      omega
    have hqs : st.q = ⟨nodeAt C bs J o :: ln.map (fun p => nodeAt C bs p.1 p.2), none, st.q.length⟩ := by
      cases hsq : st.q with
      | mk qn qe ql =>
        rw [hsq] at hq hex
        have e1 : qn = nodeAt C bs J o :: ln.map (fun p => nodeAt C bs p.1 p.2) := hq
        have e2 : qe = none := hex
        rw [e1, e2]
    have hinv0 : Inv C bs t f st.cs (o * 2 ^ J) := by rw [← c3]; exact hinv
    obtain ⟨hinv', top', hit', htop'⟩ := step_inv C hC bs t f st.cs o J hinv0
    have hE : o * 2 ^ J + 2 ^ J = s + 2 ^ J := by rw [c3]
    rw [hE] at hinv' htop'
    have hrest' : Cover ln (s + 2 ^ J) n := by
      cases hc with
      | cons _ _ _ _ _ _ hr =>
        have : (o + 1) * 2 ^ J = s + 2 ^ J := by rw [c3]; ring
        rw [this] at hr; exact hr
    unfold upgradeRoots
    rw [hit, hfr]
    have hng : ¬ (st.grow = true ∧ st.i < st.cs.roots.length) := by
      rintro ⟨g1, g2⟩
      have := hgrow g1
      omega
    simp only [Bool.not_true, Bool.false_eq_true, ite_false, hng, hno]
    rw [hqs, UpgradeComplete.shift_head (nodeAt C bs J o) _ _ (iat J o).index rfl]
    simp only []
    generalize har : appendRoot C st.cs (nodeAt C bs J o) (iat J o) = ar at hinv' hit'
    have hmeta : SameMeta st.cs ar.1 := by rw [← har]; exact appendRoot_meta C st.cs _ _
    have hupg : ar.1.upgraded = true := by rw [← har]; rfl
    obtain ⟨cs1, it1⟩ := ar
    simp only [] at hinv' hit' hmeta hupg ⊢
    obtain ⟨st', r1, r2, r3, r4, r5, r6, r7⟩ := ih fuel (s + 2 ^ J)
      { st with cs := cs1, it := it1.nextTree, q := ⟨ln.map (fun p => nodeAt C bs p.1 p.2), none, st.q.length - 1⟩, grow := false }
      hrest' (List.pairwise_cons.mp hdec).2 hal' (by show it1.nextTree = _; rw [hit']; exact iat_top_nextTree _ top' htop') (fun h => by cases h) hinv' rfl rfl
      (by simp at hfuel; omega)
    refine ⟨st', r1, r2, r3, hmeta.trans r4, fun _ => ?_, (fun h => by cases h), r7⟩
    by_cases hl : ln = []
    · rw [r6 hl]; exact hupg
    · exact r5 hl

/-! ### matching the roots both sides share, then growing -/

/-- the position list the honest upgrade sends, relative to the remaining roots `ln` of the target from leaf `s` -/
inductive Up (m : Nat) : Nat → List (Nat × Nat) → List (Nat × Nat) → Prop
  | skip (d o : Nat) (ln us : List (Nat × Nat)) : (o + 1) * 2 ^ d ≤ m → Up m ((o + 1) * 2 ^ d) ln us → Up m (o * 2 ^ d) ((d, o) :: ln) us
  | plain (ln : List (Nat × Nat)) : Up m m ln ln
  | grow (d o : Nat) (ln gs : List (Nat × Nat)) : o * 2 ^ d < m → m < (o + 1) * 2 ^ d → Grow gs m ((o + 1) * 2 ^ d) →
      Up m (o * 2 ^ d) ((d, o) :: ln) (gs ++ ln)

theorem Up.inv {m s d o : Nat} {ln us : List (Nat × Nat)} (h : Up m s ((d, o) :: ln) us) :
    ((o + 1) * 2 ^ d ≤ m ∧ s = o * 2 ^ d ∧ Up m ((o + 1) * 2 ^ d) ln us) ∨ (s = m ∧ us = (d, o) :: ln)
      ∨ (∃ gs, s = o * 2 ^ d ∧ o * 2 ^ d < m ∧ m < (o + 1) * 2 ^ d ∧ Grow gs m ((o + 1) * 2 ^ d) ∧ us = gs ++ ln) := by
  cases h with
  | skip _ _ _ _ h1 h2 => exact Or.inl ⟨h1, rfl, h2⟩
  | plain => exact Or.inr (Or.inl ⟨rfl, rfl⟩)
  | grow _ _ _ gs h1 h2 h3 => exact Or.inr (Or.inr ⟨gs, rfl, h1, h2, h3, rfl⟩)

theorem cover_same_nil {l : List (Nat × Nat)} {a : Nat} (h : Cover l a a) : l = [] := by
  cases h with
  | nil => rfl
  | cons d o _ _ rest ha hrest =>
    have := hrest.le
    have hp := pow_pos' d
    have : (o + 1) * 2 ^ d = o * 2 ^ d + 2 ^ d := by ring
    omega

/-- a root of the target that ends inside the replica's length is the replica's root at that position too -/
theorem common_root (m n s d o : Nat) (ln' lm : List (Nat × Nat)) (hcn : Cover ((d, o) :: ln') s n) (hdn : DecDepth ((d, o) :: ln'))
    (hcm : Cover lm s m) (hdm : DecDepth lm) (hmn : m ≤ n) (hend : (o + 1) * 2 ^ d ≤ m) : ∃ lm', lm = (d, o) :: lm' := by
  obtain ⟨c1, c2, c3⟩ := cover_lt _ s n d o ln' rfl hcn hdn
  have hpd := pow_pos' d
  have he : (o + 1) * 2 ^ d = o * 2 ^ d + 2 ^ d := by ring
  cases lm with
  | nil => have := UpgradeComplete.cover_nil_eq _ _ hcm; omega
  | cons q lm' =>
    obtain ⟨d', o'⟩ := q
    obtain ⟨e1, e2, e3⟩ := cover_lt _ s m d' o' lm' rfl hcm hdm
    have h1 : 2 ^ d < 2 ^ (d' + 1) := by omega
    have h2 : 2 ^ d' < 2 ^ (d + 1) := by omega
    have := (Nat.pow_lt_pow_iff_right (by decide : 1 < 2)).mp h1
    have := (Nat.pow_lt_pow_iff_right (by decide : 1 < 2)).mp h2
    have hd : d' = d := by omega
    subst hd
    have : o' = o := by
      have : o' * 2 ^ d' = o * 2 ^ d' := by rw [← e3, ← c3]
      exact Nat.eq_of_mul_eq_mul_right hpd this
    subst this
    exact ⟨lm', rfl⟩

theorem upgradeRoots_match (C : Crypto) (hC : HashWF C) (bs : Array Bytes) (t : Tree) (f : File) (m n : Nat) (hN : n < 2 ^ 64)
    (hm0 : 0 < m) (hmn : m < n) (cs0 : Changeset) (hinv : Inv C bs t f cs0 m) :
    ∀ (ln : List (Nat × Nat)) (fuel s : Nat) (st : UpState) (dn lm us : List (Nat × Nat)),
      Cover ln s n → DecDepth ln → Align s n → st.it = iat 0 s → st.grow = true → st.cs = cs0 →
      cs0.roots = (dn ++ lm).map (fun p => nodeAt C bs p.1 p.2) → Cover lm s m → DecDepth lm → st.i = dn.length →
      Up m s ln us → st.q.nodes = us.map (fun p => nodeAt C bs p.1 p.2) → st.q.extra = none → ln.length < fuel →
      ∃ st', upgradeRoots C (2 * n) fuel st = .ok st' ∧ Inv C bs t f st'.cs n ∧ st'.q.extra = none ∧ SameMeta cs0 st'.cs
        ∧ st'.cs.upgraded = true ∧ st'.q.nodes = [] := by
  intro ln
  induction ln with
  | nil =>
    intro fuel s st dn lm us hc _ _ _ _ _ _ hcm _ _ hup _ _ _
    exfalso
    have hs := UpgradeComplete.cover_nil_eq _ _ hc
    cases hup with
    | plain => omega
  | cons p ln ih =>
    intro fuel s st dn lm us hc hdec hal hit hgrow hcs hroots hcm hdm hi hup hq hex hfuel
    obtain ⟨d, o⟩ := p
    obtain ⟨fuel, rfl⟩ : ∃ x, fuel = x + 1 := ⟨fuel - 1, by simp at hfuel; omega⟩
    obtain ⟨c1, c2, c3⟩ := cover_lt _ s n d o ln rfl hc hdec
    have hpd := pow_pos' d
    have hs : s < n := by omega
    obtain ⟨J, hfr, hd, hfit, hal', hmax⟩ := fullRoot_canon s n hal hs hN
    have hJ : J = d := by
      have h1 : 2 ^ J < 2 ^ (d + 1) := by omega
      have h2 : 2 ^ d < 2 ^ (J + 1) := by rw [two_pow_succ]; omega
      have := (Nat.pow_lt_pow_iff_right (by decide : 1 < 2)).mp h1
      have := (Nat.pow_lt_pow_iff_right (by decide : 1 < 2)).mp h2
      omega
    subst hJ
    have ho : s / 2 ^ J = o := by rw [c3]; exact Nat.mul_div_cancel _ (pow_pos' J)
    rw [ho] at hfr
    have hnext : (iat J o).nextTree = iat 0 (s + 2 ^ J) := by rw [← ho]; exact iat_nextTree J s hd
    have hE : (o + 1) * 2 ^ J = s + 2 ^ J := by rw [c3]; ring
    have hrest' : Cover ln (s + 2 ^ J) n := by
      cases hc with
      | cons _ _ _ _ _ _ hr => rw [hE] at hr; exact hr
    have hrlen : st.cs.roots.length = dn.length + lm.length := by rw [hcs, hroots]; simp
    rcases hup.inv with ⟨hend, _, hup'⟩ | ⟨hsm, husq⟩ | ⟨gs, _, hlt, hgt, hg, husq⟩
    · -- a shared root: the replica's next root sits here
      obtain ⟨lm', rfl⟩ := common_root m n s J o ln lm hc hdec hcm hdm (by omega) hend
      have hget : st.cs.roots.getD st.i default = nodeAt C bs J o := by
        rw [hcs, hroots, hi, List.getD_eq_getElem?_getD]
        simp
      have hc1 : st.i < st.cs.roots.length ∧ (st.cs.roots.getD st.i default).index = (iat J o).index := by
        refine ⟨by rw [hrlen, hi]; simp, by rw [hget]; rfl⟩
      have hcm' : Cover lm' (s + 2 ^ J) m := by
        cases hcm with
        | cons _ _ _ _ _ _ hr => rw [hE] at hr; exact hr
      unfold upgradeRoots
      rw [hit, hfr]
      simp only [Bool.not_true, Bool.false_eq_true, ite_false, hc1, and_self, ite_true, hnext]
      have hE' : (o + 1) * 2 ^ J = s + 2 ^ J := hE
      rw [hE'] at hup'
      exact ih fuel (s + 2 ^ J) { st with i := st.i + 1, it := iat 0 (s + 2 ^ J) } (dn ++ [(J, o)]) lm' us hrest'
        (List.pairwise_cons.mp hdec).2 hal' rfl hgrow hcs (by rw [hroots]; simp) hcm' (List.pairwise_cons.mp hdm).2
        (by show st.i + 1 = _; rw [hi]; simp) hup' hq hex (by simp at hfuel; omega)
    · -- the replica's roots are used up: the rest is appended
      subst hsm
      subst husq
      have hlm : lm = [] := cover_same_nil hcm
      subst hlm
      have hinv' : Inv C bs t f st.cs s := by rw [hcs]; exact hinv
      obtain ⟨st', r1, r2, r3, r4, r5, _, r7⟩ := upgradeRoots_append C hC bs t f n hN ((J, o) :: ln) (fuel + 1) s st hc hdec hal hit
        (fun _ => by rw [hrlen, hi]; simp) hinv' hq hex hfuel
      exact ⟨st', r1, r2, r3, by rw [← hcs]; exact r4, r5 (by simp), r7⟩
    · -- the first new root: the replica's remaining roots are merged upwards into it
      subst husq
      rw [← c3] at hlt
      have hlmne : lm ≠ [] := by
        intro e; subst e
        have := UpgradeComplete.cover_nil_eq _ _ hcm
        omega
      obtain ⟨q0, lm', rfl⟩ := List.exists_cons_of_ne_nil hlmne
      obtain ⟨d', o'⟩ := q0
      obtain ⟨e1, e2, e3⟩ := cover_lt _ s m d' o' lm' rfl hcm hdm
      have hdlt : d' < J := by
        have h1 : 2 ^ d' < 2 ^ J := by omega
        exact (Nat.pow_lt_pow_iff_right (by decide : 1 < 2)).mp h1
      have hget : st.cs.roots.getD st.i default = nodeAt C bs d' o' := by
        rw [hcs, hroots, hi, List.getD_eq_getElem?_getD]
        simp
      have hc1 : ¬ ((st.cs.roots.getD st.i default).index = (iat J o).index) := by
        intro h2
        rw [hget] at h2
        have := (index_inj d' o' J o h2).1
        omega
      have hc2 : st.grow = true ∧ st.i < st.cs.roots.length := ⟨hgrow, by rw [hrlen, hi]; simp⟩
      -- the offset of the new root is even
      have hOev : o % 2 = 0 := by
        obtain ⟨k, hk1, hk2⟩ := hal
        have hk : J < k := by
          have : 2 ^ J < 2 ^ k := by omega
          exact (Nat.pow_lt_pow_iff_right (by decide : 1 < 2)).mp this
        have hdv : 2 ^ (J + 1) ∣ s := Nat.dvd_trans (Nat.pow_dvd_pow 2 (by omega)) hk1
        obtain ⟨x, hx⟩ := hdv
        have : o * 2 ^ J = (2 * x) * 2 ^ J := by rw [← c3, hx, pow_succ2]; ring
        have := Nat.eq_of_mul_eq_mul_right hpd this
        omega
      -- the last root of the replica
      have hinv' : Inv C bs t f st.cs m := by rw [hcs]; exact hinv
      obtain ⟨top, htop⟩ : ∃ top, (rootsStack m).head? = some top := by
        cases hr : rootsStack m with
        | nil =>
          have := hinv'.roots
          rw [hr] at this
          have : st.cs.roots = [] := by simpa using this
          rw [this] at hrlen
          simp at hrlen
        | cons a b => exact ⟨a, rfl⟩
      have hlast : (st.cs.roots.getLast?.getD default).index = Flat.index top.1 top.2 := by
        have h1 : st.cs.roots.getLast? = st.cs.roots.reverse.head? := by rw [List.head?_reverse]
        rw [h1, hinv'.roots]
        cases hr : rootsStack m with
        | nil => rw [hr] at htop; cases htop
        | cons a b =>
          rw [hr] at htop
          simp only [List.head?_cons, Option.some.injEq] at htop
          subst htop
          simp [nodeAt_index]
      have htopd : top.1 ≤ 64 := by
        have he := head_rootsStack_end m top.1 top.2 htop
        have h4 : 2 ^ top.1 ≤ (top.2 + 1) * 2 ^ top.1 := Nat.le_mul_of_pos_left _ (Nat.succ_pos _)
        have h5 : 2 ^ top.1 < 2 ^ 64 := by omega
        have := (Nat.pow_lt_pow_iff_right (by decide : 1 < 2)).mp h5
        omega
      have hnewlast : Iter.new (st.cs.roots.getLast?.getD default).index = iat top.1 top.2 := by
        rw [hlast]; exact new_index top.1 top.2 htopd
      obtain ⟨cs', q', g1, g2, g3, g4, g5, g6, _⟩ := growLoop_honest C hC bs t f J o hOev gs m st.cs st.q (ln.map (fun p => nodeAt C bs p.1 p.2))
        (st.q.nodes.length + 3) top hg hinv' htop (by rw [hq]; simp) hex (by rw [hq]; simp; omega)
      have hgne : gs ≠ [] := by
        intro e; subst e
        cases hg
        omega
      unfold upgradeRoots
      rw [hit, hfr]
      simp only [Bool.not_true, Bool.false_eq_true, ite_false, hc1, hc2, and_self, and_false, ite_true]
      have hidx : (iat J o).index = Flat.index J o := rfl
      rw [hidx, hnewlast, g1]
      simp only [hnext]
      have hE2 : (o + 1) * 2 ^ J = s + 2 ^ J := hE
      rw [hE2] at g2
      obtain ⟨st', r1, r2, r3, r4, r5, r6, r7⟩ := upgradeRoots_append C hC bs t f n hN ln fuel (s + 2 ^ J)
        { st with cs := cs', it := iat 0 (s + 2 ^ J), q := q', grow := false } hrest' (List.pairwise_cons.mp hdec).2 hal' rfl
        (fun h => by cases h) g2 g3 g4 (by simp at hfuel; omega)
      refine ⟨st', r1, r2, r3, ?_, ?_, r7⟩
      · rw [← hcs]; exact g5.trans r4
      · by_cases hl : ln = []
        · have : st'.cs = cs' := r6 hl
          rw [this]; exact g6 hgne
        · exact r5 hl

/-! ### the honest position list is short -/

theorem grow_length_aux : ∀ (gs : List (Nat × Nat)) (L E : Nat), Grow gs L E → 0 < L → E < 2 ^ 64 → ∀ J0, 2 ^ J0 ∣ L → gs.length + J0 ≤ 64 := by
  intro gs L E hg
  induction hg with
  | nil E =>
    intro hL hE J0 hd
    have := Nat.le_of_dvd hL hd
    have h2 : 2 ^ J0 < 2 ^ 64 := by omega
    have := (Nat.pow_lt_pow_iff_right (by decide : 1 < 2)).mp h2
    simp; omega
  | cons J M E rest hM hfit _ ih =>
    intro hL hE J0 hd
    have hpJ := pow_pos' J
    have hJ0 : J0 ≤ J := by
      by_contra hlt
      obtain ⟨x, rfl⟩ : ∃ x, J0 = J + 1 + x := ⟨J0 - J - 1, by omega⟩
      obtain ⟨c, hc⟩ := hd
      have e : 2 ^ (J + 1 + x) * c = (2 * 2 ^ x * c) * 2 ^ J := by
        rw [show J + 1 + x = J + (1 + x) by omega, Nat.pow_add, Nat.pow_add]; ring
      rw [e] at hc
      have hM2 : M = 2 * 2 ^ x * c := Nat.eq_of_mul_eq_mul_right hpJ hc
      have : M = 2 * (2 ^ x * c) := by rw [hM2]; ring
      omega
    have hd' : 2 ^ (J + 1) ∣ M * 2 ^ J + 2 ^ J := by
      refine ⟨(M + 1) / 2, ?_⟩
      rw [pow_succ2]
      have : 2 * 2 ^ J * ((M + 1) / 2) = (2 * ((M + 1) / 2)) * 2 ^ J := by ring
      rw [this]
      have : 2 * ((M + 1) / 2) = M + 1 := by omega
      rw [this]; ring
    have := ih (by omega) hE (J + 1) hd'
    simp only [List.length_cons]
    omega

theorem up_length (m n : Nat) (hm0 : 0 < m) (hn : n < 2 ^ 64) : ∀ (ln : List (Nat × Nat)) (s : Nat) (us : List (Nat × Nat)), Cover ln s n → Up m s ln us →
    us.length ≤ 64 + ln.length := by
  intro ln
  induction ln with
  | nil =>
    intro s us hc hup
    cases hup with
    | plain => simp
  | cons p ln ih =>
    intro s us hc hup
    obtain ⟨d, o⟩ := p
    have hrest : Cover ln ((o + 1) * 2 ^ d) n := by
      cases hc with
      | cons _ _ _ _ _ _ hr => exact hr
    rcases hup.inv with ⟨_, _, hup'⟩ | ⟨_, husq⟩ | ⟨gs, _, _, _, hg, husq⟩
    · have := ih _ us hrest hup'
      simp only [List.length_cons]; omega
    · subst husq; omega
    · subst husq
      have := grow_length_aux gs m _ hg hm0 (by have := hrest.le; omega) 0 (by simp)
      simp only [List.length_append, List.length_cons]
      omega

/-! ### how many nodes an upgrade can add -/

/-- roots + nodes of the changeset grow by two per `append_root` -/
theorem appendRoot_pot (C : Crypto) (cs : Changeset) (n : Node) (it : Iter) :
    (appendRoot C cs n it).1.roots.length + (appendRoot C cs n it).1.rnodes.length = cs.roots.length + cs.rnodes.length + 2 := by
  have := mergeLoop_count C (cs.roots.length + 1) (n :: cs.roots.reverse) (n :: cs.rnodes) it
  simp only [List.length_cons, List.length_reverse] at this
  simp only [appendRoot]
  generalize mergeLoop C (cs.roots.length + 1) (n :: cs.roots.reverse) (n :: cs.rnodes) it = r at this ⊢
  obtain ⟨x, y, z⟩ := r
  simp only [List.length_reverse] at this ⊢
  omega

/-- potential: every appended root consumes one queued node -/
def pot (cs : Changeset) (q : NodeQueue) : Nat := cs.roots.length + cs.rnodes.length + 2 * q.count

theorem growLoop_pot (C : Crypto) (rootIndex : Nat) : ∀ (fuel : Nat) (cs : Changeset) (it : Iter) (q : NodeQueue) (r : Changeset × Iter × NodeQueue),
    growLoop C rootIndex fuel cs it q = .ok r → pot r.1 r.2.2 = pot cs q := by
  intro fuel
  induction fuel with
  | zero => intro cs it q r h; simp [growLoop] at h
  | succ fuel ih =>
    intro cs it q r h
    simp only [growLoop] at h
    split at h
    · cases h; rfl
    · cases hs : q.shift it.sibling.index with
      | error e => rw [hs] at h; cases h
      | ok x =>
        rw [hs] at h
        simp only [] at h
        have hc := shift_count q _ x.1 x.2 hs
        have hp := appendRoot_pot C cs x.1 it.sibling
        have := ih _ _ _ r h
        unfold pot at this ⊢
        omega

theorem upgradeRoots_pot (C : Crypto) (upto : Nat) : ∀ (fuel : Nat) (st st' : UpState),
    upgradeRoots C upto fuel st = .ok st' → pot st'.cs st'.q = pot st.cs st.q := by
  intro fuel
  induction fuel with
  | zero => intro st st' h; simp [upgradeRoots] at h
  | succ fuel ih =>
    intro st st' h
    simp only [upgradeRoots] at h
    split at h
    · cases h; rfl
    · split at h
      · have k := ih _ _ h
        exact k
      · split at h
        · cases hg : growLoop C (st.it.fullRoot upto).2.index (st.q.nodes.length + 3) st.cs
              (Iter.new (st.cs.roots.getLast?.getD default).index) st.q with
          | error e => rw [hg] at h; cases h
          | ok x =>
            rw [hg] at h
            simp only [] at h
            have k1 := growLoop_pot C _ _ _ _ _ x hg
            have k2 := ih _ _ h
            exact k2.trans k1
        · cases hs : st.q.shift (st.it.fullRoot upto).2.index with
          | error e => rw [hs] at h; cases h
          | ok x =>
            rw [hs] at h
            simp only [] at h
            have hc := shift_count st.q _ x.1 x.2 hs
            have hp := appendRoot_pot C st.cs x.1 (st.it.fullRoot upto).2
            have k2 := ih _ _ h
            unfold pot at k2 ⊢
            simp only [] at k2
            omega

/-! ### `verify_upgrade` accepts the honest upgrade from `m` to `n` -/

/-- the reference roots of the first `n` blocks, left to right -/
def rootsAt (C : Crypto) (bs : Array Bytes) (n : Nat) : List Node := (rootsStack n).reverse.map (fun p => nodeAt C bs p.1 p.2)

/-- what the writer signs when its log has the first `n` blocks -/
def signableAt (C : Crypto) (bs : Array Bytes) (n fork : Nat) : Bytes := signable (rootsHash C (rootsAt C bs n)) n fork

theorem inv_roots (C : Crypto) (bs : Array Bytes) (t : Tree) (f : File) (cs : Changeset) (L : Nat) (h : Inv C bs t f cs L) :
    cs.roots = rootsAt C bs L := by
  have := congrArg List.reverse h.roots
  simpa [rootsAt, List.map_reverse] using this

theorem inv_congr (C : Crypto) (bs : Array Bytes) (t : Tree) (f : File) (cs cs' : Changeset) (L : Nat) (h : Inv C bs t f cs L)
    (h1 : cs'.roots = cs.roots) (h2 : cs'.length = cs.length) (h3 : cs'.byteLength = cs.byteLength) (h4 : cs'.rnodes = cs.rnodes) :
    Inv C bs t f cs' L := by
  have hvt : vt t cs' = vt t cs := by simp [vt, Changeset.nodes, h2, h4]
  exact ⟨by rw [h1]; exact h.roots, by rw [h2]; exact h.length, by rw [h3]; exact h.bytes, by rw [hvt]; exact h.closed,
    by rw [h4]; exact h.nodesRef, by rw [h4]; exact h.order⟩

/-- the root loop of the honest upgrade consumes every node of the position list -/
theorem grow_upgradeRoots_all (C : Crypto) (hC : HashWF C) (bs : Array Bytes) (t : Tree) (f : File) (m n : Nat) (hN : n < 2 ^ 64)
    (hm0 : 0 < m) (hmn : m < n) (cs : Changeset) (hinv : Inv C bs t f cs m)
    (us : List (Nat × Nat)) (hup : Up m 0 (rootsStack n).reverse us) :
    ∃ st', upgradeRoots C (2 * n) (2 * n + 2) ⟨cs, Iter.new 0, NodeQueue.new (us.map (fun p => nodeAt C bs p.1 p.2)) none, 0, !cs.roots.isEmpty⟩ = .ok st'
      ∧ st'.q.extra = none ∧ st'.q.nodes = [] := by
  have hroots := inv_roots C bs t f cs m hinv
  have hrne : cs.roots ≠ [] := by
    rw [hroots, rootsAt]
    intro hnil
    have hc := cover_roots m
    have : (rootsStack m).reverse = [] := by simpa using hnil
    rw [this] at hc
    have := UpgradeComplete.cover_nil_eq _ _ hc
    omega
  have hgrow : (!cs.roots.isEmpty) = true := by
    cases hr : cs.roots with
    | nil => exact absurd hr hrne
    | cons a b => rfl
  obtain ⟨st', h1, _, h3, _, _, h6⟩ := upgradeRoots_match C hC bs t f m n hN hm0 hmn cs hinv (rootsStack n).reverse (2 * n + 2) 0
    ⟨cs, Iter.new 0, NodeQueue.new (us.map (fun p => nodeAt C bs p.1 p.2)) none, 0, !cs.roots.isEmpty⟩ [] (rootsStack m).reverse us
    (cover_roots n) (rootsStack_rev_dec n) (align_zero _) (by show Iter.new 0 = iat 0 0; exact new_even 0) hgrow rfl
    (by simpa [rootsAt] using hroots) (cover_roots m) (rootsStack_rev_dec m) rfl hup (by simp [NodeQueue.new]) rfl
    (by
      have hl := UpgradeComplete.cover_length_le _ _ _ (cover_roots n)
      omega)
  exact ⟨st', h1, h3, h6⟩

theorem grow_upgrade_accepted (C : Crypto) (hC : HashWF C) (bs : Array Bytes) (t : Tree) (f : File) (m n : Nat) (hN : n < 2 ^ 64)
    (hm0 : 0 < m) (hmn : m < n) (fork : Nat) (pk sig : Bytes) (cs : Changeset) (hinv : Inv C bs t f cs m)
    (us : List (Nat × Nat)) (hup : Up m 0 (rootsStack n).reverse us) (hsl : sig.length = 64)
    (hver : C.verify pk (signableAt C bs n fork) sig = true) :
    ∃ cs', verifyUpgrade C fork ⟨m, n - m, us.map (fun p => nodeAt C bs p.1 p.2), [], sig⟩ none pk cs = .ok (true, cs')
      ∧ Inv C bs t f cs' n ∧ cs'.fork = fork ∧ cs'.signature = some sig ∧ cs'.upgraded = true
      ∧ cs'.origLength = cs.origLength ∧ cs'.origFork = cs.origFork ∧ cs'.ancestors = cs.ancestors
      ∧ cs'.hash = some (rootsHash C cs'.roots)
      ∧ cs'.rnodes.length ≤ cs.roots.length + cs.rnodes.length + 2 * us.length
      ∧ ∃ U, cs'.rnodes = U ++ cs.rnodes := by
  have hroots := inv_roots C bs t f cs m hinv
  have hrne : cs.roots ≠ [] := by
    rw [hroots, rootsAt]
    intro hnil
    have hc := cover_roots m
    have : (rootsStack m).reverse = [] := by simpa using hnil
    rw [this] at hc
    have := UpgradeComplete.cover_nil_eq _ _ hc
    omega
  have hgrow : (!cs.roots.isEmpty) = true := by
    cases hr : cs.roots with
    | nil => exact absurd hr hrne
    | cons a b => rfl
  obtain ⟨st', h1, h2, h3, h4, h5, _⟩ := upgradeRoots_match C hC bs t f m n hN hm0 hmn cs hinv (rootsStack n).reverse (2 * n + 2) 0
    ⟨cs, Iter.new 0, NodeQueue.new (us.map (fun p => nodeAt C bs p.1 p.2)) none, 0, !cs.roots.isEmpty⟩ [] (rootsStack m).reverse us
    (cover_roots n) (rootsStack_rev_dec n) (align_zero _) (by show Iter.new 0 = iat 0 0; exact new_even 0) hgrow rfl
    (by simpa [rootsAt] using hroots) (cover_roots m) (rootsStack_rev_dec m) rfl hup (by simp [NodeQueue.new]) rfl
    (by
      have hl := UpgradeComplete.cover_length_le _ _ _ (cover_roots n)
      omega)
  have hr' := inv_roots C bs t f st'.cs n h2
  have hlast : ∃ l, st'.cs.roots.getLast? = some l := by
    cases hgl : st'.cs.roots.getLast? with
    | none =>
      exfalso
      have : st'.cs.roots = [] := by simpa using hgl
      rw [hr', rootsAt] at this
      have hnil : (rootsStack n).reverse = [] := by simpa using this
      have hc := cover_roots n
      rw [hnil] at hc
      have := UpgradeComplete.cover_nil_eq _ _ hc
      omega
    | some l => exact ⟨l, rfl⟩
  obtain ⟨last, hlast⟩ := hlast
  obtain ⟨m1, m2, m3, m4, m5, m6⟩ := h4
  have hcount : st'.cs.rnodes.length ≤ cs.roots.length + cs.rnodes.length + 2 * us.length := by
    have hp := upgradeRoots_pot C _ _ _ _ h1
    unfold pot at hp
    simp only [NodeQueue.count, NodeQueue.new, List.length_map, Option.isSome_none, Bool.false_eq_true, ite_false, Nat.add_zero] at hp
    omega
  refine ⟨{ st'.cs with fork := fork, hash := some (rootsHash C st'.cs.roots), signature := some sig }, ?_,
    inv_congr C bs t f st'.cs _ n h2 rfl rfl rfl rfl, rfl, rfl, h5, m2, m3, m4, rfl, hcount, m6⟩
  unfold verifyUpgrade
  have hto : m + (n - m) = n := by omega
  simp only [andThen, hto]
  rw [h1]
  simp only [hlast, extraSiblings, extraRest, checkSignature, hsl, ne_eq, not_true_eq_false, ite_false, h3, Option.isNone_none]
  have hv : C.verify pk (signable (rootsHash C st'.cs.roots) st'.cs.length fork) sig = true := by
    rw [hr', h2.length]; exact hver
  simp [hv]

/-! ### prefixes of the writer's log -/

theorem node_extract (C : Crypto) (bs : Array Bytes) (m : Nat) (hm : m ≤ bs.size) : ∀ d o, (o + 1) * 2 ^ d ≤ m →
    RefTree.node C (bs.extract 0 m) d o = RefTree.node C bs d o := by
  intro d
  induction d with
  | zero =>
    intro o h
    simp only [RefTree.node]
    rw [extract_getD bs m o hm (by simp at h; omega)]
  | succ d ih =>
    intro o h
    have e : (o + 1) * 2 ^ (d + 1) = (2 * o + 1 + 1) * 2 ^ d := by rw [pow_succ2]; ring
    have hp := pow_pos' d
    have h1 : (2 * o + 1) * 2 ^ d ≤ m := by
      have : (2 * o + 1 + 1) * 2 ^ d = (2 * o + 1) * 2 ^ d + 2 ^ d := by ring
      omega
    have h2 : (2 * o + 1 + 1) * 2 ^ d ≤ m := by omega
    simp only [RefTree.node, ih (2 * o) h1, ih (2 * o + 1) h2]

theorem nodeAt_extract (C : Crypto) (bs : Array Bytes) (m : Nat) (hm : m ≤ bs.size) (d o : Nat) (h : (o + 1) * 2 ^ d ≤ m) :
    nodeAt C (bs.extract 0 m) d o = nodeAt C bs d o := by
  simp only [nodeAt, node_extract C bs m hm d o h]

theorem psum_extract (bs : Array Bytes) (m : Nat) (hm : m ≤ bs.size) : ∀ i, i ≤ m → psum (bs.extract 0 m) i = psum bs i := by
  intro i
  induction i with
  | zero => intro _; rfl
  | succ i ih =>
    intro h
    simp only [psum, ih (by omega), sz]
    rw [extract_getD bs m i hm (by omega)]

theorem size_extract (bs : Array Bytes) (m : Nat) (hm : m ≤ bs.size) : (bs.extract 0 m).size = m := by simp; omega

theorem roots_extract (C : Crypto) (bs : Array Bytes) (m : Nat) (hm : m ≤ bs.size) : RefTree.roots C (bs.extract 0 m) = rootsAt C bs m := by
  simp only [RefTree.roots, rootsAt, size_extract bs m hm]
  apply List.map_congr_left
  intro p hp
  exact nodeAt_extract C bs m hm p.1 p.2 (rootsStack_bound m p (List.mem_reverse.mp hp))

/-- the replica's invariant relative to the whole log: it represents the first `m` blocks -/
structure RepRAt (C : Crypto) (bs : Array Bytes) (m : Nat) (c : Core) (d : Disk) (held : Nat → Bool) : Prop where
  le : m ≤ bs.size
  closed : ClosedAt C bs m c.tree d.tree
  roots : c.tree.roots = rootsAt C bs m
  bytes : c.tree.byteLength = psum bs m
  mapwf : MapWF c.tree.unflushed
  aligned : d.tree.size % 40 = 0
  bits : ∀ i, c.bitfield.get i = held i
  heldLt : ∀ i, held i = true → i < m
  leaf : ∀ i, held i = true → c.tree.node? d.tree (Flat.index 0 i) = some (nodeAt C bs 0 i)
  data : ∀ i, held i = true → ∀ k, k < sz bs i →
    psum bs i + k < d.data.size ∧ d.data.byte (psum bs i + k) = (bs.getD i []).getD k 0
  contig : Core.FirstMissing c.bitfield c.header.contiguous
  small : bs.size < 2 ^ 64 ∧ psum bs bs.size < 2 ^ 64

theorem sparse_extract (C : Crypto) (bs : Array Bytes) (m : Nat) (hm : m ≤ bs.size) (t : Tree) (f : File) :
    Sparse C (bs.extract 0 m) m t f ↔ Sparse C bs m t f := by
  constructor
  · intro h
    refine ⟨h.length, fun i n hn => ?_, fun p hp => ?_⟩
    · obtain ⟨d, o, e1, e2, hb⟩ := h.sound i n hn
      exact ⟨d, o, e1, by rw [e2, nodeAt_extract C bs m hm d o hb], hb⟩
    · rw [h.roots p hp, nodeAt_extract C bs m hm p.1 p.2 (rootsStack_bound m p hp)]
  · intro h
    refine ⟨h.length, fun i n hn => ?_, fun p hp => ?_⟩
    · obtain ⟨d, o, e1, e2, hb⟩ := h.sound i n hn
      exact ⟨d, o, e1, by rw [e2, nodeAt_extract C bs m hm d o hb], hb⟩
    · rw [h.roots p hp, nodeAt_extract C bs m hm p.1 p.2 (rootsStack_bound m p hp)]

theorem closed_extract (C : Crypto) (bs : Array Bytes) (m : Nat) (hm : m ≤ bs.size) (t : Tree) (f : File) :
    Closed C (bs.extract 0 m) t f ↔ ClosedAt C bs m t f := by
  have hsz := size_extract bs m hm
  have hsp1 : ∀ d o, (o / 2 + 1) * 2 ^ (d + 1) ≤ m → (o + 1) * 2 ^ d ≤ m ∧ (sib o + 1) * 2 ^ d ≤ m := by
    intro d o h
    have h1 := span_le o d 1
    have h2 := sib_bound o d
    simp only [Nat.pow_one] at h1
    exact ⟨by omega, by omega⟩
  constructor
  · intro h
    refine ⟨(sparse_extract C bs m hm t f).mp (by have := h.sparse; rw [hsz] at this; exact this), fun d o hst hpar => ?_⟩
    obtain ⟨b1, b2⟩ := hsp1 d o hpar
    rw [← nodeAt_extract C bs m hm d o b1] at hst
    have := h.closed d o hst (by rw [hsz]; exact hpar)
    rw [nodeAt_extract C bs m hm d (sib o) b2, nodeAt_extract C bs m hm (d + 1) (o / 2) hpar] at this
    exact this
  · intro h
    refine ⟨by rw [hsz]; exact (sparse_extract C bs m hm t f).mpr h.sparse, fun d o hst hpar => ?_⟩
    rw [hsz] at hpar
    obtain ⟨b1, b2⟩ := hsp1 d o hpar
    rw [nodeAt_extract C bs m hm d o b1] at hst
    have := h.closed d o hst hpar
    rw [nodeAt_extract C bs m hm d (sib o) b2, nodeAt_extract C bs m hm (d + 1) (o / 2) hpar]
    exact this

theorem repr_extract (C : Crypto) (bs : Array Bytes) (m : Nat) (hm : m ≤ bs.size) (hs : bs.size < 2 ^ 64 ∧ psum bs bs.size < 2 ^ 64)
    (c : Core) (d : Disk) (held : Nat → Bool) :
    RepR C (bs.extract 0 m) c d held ↔ RepRAt C bs m c d held := by
  have hsz := size_extract bs m hm
  have hps := psum_extract bs m hm
  constructor
  · intro h
    have hlt := h.heldLt
    rw [hsz] at hlt
    refine ⟨hm, (closed_extract C bs m hm _ _).mp h.closed, by rw [h.roots, roots_extract C bs m hm],
      by rw [h.bytes, hsz, hps m (Nat.le_refl _)], h.mapwf, h.aligned, h.bits, hlt, fun i hi => ?_, fun i hi k hk => ?_, h.contig, hs⟩
    · rw [h.leaf i hi, nodeAt_extract C bs m hm 0 i (by simp; exact hlt i hi)]
    · have hi' := hlt i hi
      have e1 : sz (bs.extract 0 m) i = sz bs i := by simp only [sz]; rw [extract_getD bs m i hm hi']
      have := h.data i hi k (by rw [e1]; exact hk)
      rw [hps i (by omega), extract_getD bs m i hm hi'] at this
      exact this
  · intro h
    have hpm : psum bs m ≤ psum bs bs.size := psum_mono bs hm
    refine ⟨(closed_extract C bs m hm _ _).mpr h.closed, by rw [h.roots, roots_extract C bs m hm],
      by rw [h.bytes, hsz, hps m (Nat.le_refl _)], h.mapwf, h.aligned, h.bits, by rw [hsz]; exact h.heldLt, fun i hi => ?_, fun i hi k hk => ?_, h.contig,
      by rw [hsz, hps m (Nat.le_refl _)]; exact ⟨by omega, by omega⟩⟩
    · rw [h.leaf i hi, nodeAt_extract C bs m hm 0 i (by simp; exact h.heldLt i hi)]
    · have hi' := h.heldLt i hi
      have e1 : sz (bs.extract 0 m) i = sz bs i := by simp only [sz]; rw [extract_getD bs m i hm hi']
      rw [e1] at hk
      have := h.data i hi k hk
      rw [hps i (by omega), extract_getD bs m i hm hi']
      exact this

/-! ### the growth round at core level -/

theorem closedAt_congr (C : Crypto) (bs : Array Bytes) (L : Nat) (t t' : Tree) (f f' : File) (h : ClosedAt C bs L t f)
    (hn : ∀ i, t'.node? f' i = t.node? f i) (hl : t'.length = t.length) : ClosedAt C bs L t' f' := by
  refine ⟨⟨by rw [hl]; exact h.sparse.length, fun i n hi => h.sparse.sound i n (by rw [← hn]; exact hi),
    fun p hp => by rw [hn]; exact h.sparse.roots p hp⟩, fun d o hst hpar => ?_⟩
  rw [hn] at hst
  have := h.closed d o hst hpar
  rw [hn, hn]; exact this

theorem maybeFlush_reprAt (C : Crypto) (bs : Array Bytes) (m : Nat) (c : Core) (d : Disk) (held : Nat → Bool) (h : RepRAt C bs m c d held) :
    RepRAt C bs m c.maybeFlush.1 (d.applyAll c.maybeFlush.2) held :=
  (repr_extract C bs m h.le h.small _ _ held).mp (maybeFlush_repr C _ c d held ((repr_extract C bs m h.le h.small c d held).mpr h))

/-- the writer's answer to "upgrade me from `m` to `n`" when its log has `n` blocks -/
def honestGrowth (C : Crypto) (bs : Array Bytes) (fork m n : Nat) (us : List (Nat × Nat)) (sig : Bytes) : Proof :=
  ⟨fork, none, none, none, some ⟨m, n - m, us.map (fun p => nodeAt C bs p.1 p.2), [], sig⟩⟩

theorem inv_changeset (C : Crypto) (bs : Array Bytes) (m : Nat) (c : Core) (d : Disk) (held : Nat → Bool) (h : RepRAt C bs m c d held) :
    Inv C bs c.tree d.tree c.tree.changeset m := by
  have hvt : vt c.tree c.tree.changeset = c.tree := by
    cases hc : c.tree
    simp [vt, Tree.changeset, Changeset.nodes, insertAll]
  refine ⟨?_, h.closed.sparse.length, h.bytes, by rw [hvt]; exact h.closed, fun x hx => by simp [Tree.changeset] at hx, ordered_nil C bs⟩
  show c.tree.roots.reverse = _
  rw [h.roots, rootsAt, ← List.map_reverse, List.reverse_reverse]

theorem growth_shape (C : Crypto) (hC : HashWF C) (bs : Array Bytes) (m n : Nat) (c : Core) (d : Disk) (held : Nat → Bool)
    (h : RepRAt C bs m c d held) (hm0 : 0 < m) (hmn : m < n) (hn : n ≤ bs.size) (us : List (Nat × Nat))
    (hup : Up m 0 (rootsStack n).reverse us) (sig : Bytes) (hsl : sig.length = 64)
    (hver : C.verify c.publicKey (signableAt C bs n c.tree.fork) sig = true) :
    ∃ cs : Changeset, Inv C bs c.tree d.tree cs n ∧ cs.fork = c.tree.fork ∧ cs.signature = some sig ∧ cs.upgraded = true
      ∧ cs.ancestors = c.tree.length ∧ cs.hash = some (rootsHash C cs.roots) ∧ cs.nodes.length ≤ 64 + 2 * us.length
      ∧ c.verifyAndApply C d (honestGrowth C bs c.tree.fork m n us sig)
        = { core := (growCore c cs).maybeFlush.1, result := .ok true,
            journal := (Oplog.appendEntry c.oplog (Core.entryOf cs none c.header).1).2 ++ (growCore c cs).maybeFlush.2,
            events := Core.appliedEvents (honestGrowth C bs c.tree.fork m n us sig) none } := by
  have hN : n < 2 ^ 64 := by have := h.small.1; omega
  have hinv0 := inv_changeset C bs m c d held h
  obtain ⟨cs, h1, h2, h4, h5, h7, h8, h9, h10, h11, h12, _⟩ := grow_upgrade_accepted C hC bs c.tree d.tree m n hN hm0 hmn c.tree.fork c.publicKey sig
    c.tree.changeset hinv0 us hup hsl hver
  have hvv : verifyProof C c.tree d.tree (honestGrowth C bs c.tree.fork m n us sig) c.publicKey = .ok cs := by
    simp [honestGrowth, Tree.verifyProof, verifyTree, untrustedOf, noSeekOf, h1]
  have ho1 : cs.origLength = c.tree.length := by simpa [Tree.changeset] using h8
  have ho2 : cs.origFork = c.tree.fork := by simpa [Tree.changeset] using h9
  have ha : cs.ancestors = c.tree.length := by simpa [Tree.changeset] using h10
  have hcmt : c.tree.commitable cs = true := by simp [Tree.commitable, h7, ho1, ho2]
  have hnl : ¬ (cs.ancestors < cs.origLength) := by omega
  generalize htr : ({ c.tree with roots := cs.roots, length := cs.length, byteLength := cs.byteLength, fork := cs.fork, signature := cs.signature, unflushed := insertAll c.tree.unflushed cs.nodes } : Tree) = tr
  have hcommit : c.tree.commit cs = .ok tr := by
    rw [← htr]
    simp only [Tree.commit, hcmt, h7, Bool.not_true, Bool.false_eq_true, ite_false, Bool.true_and, decide_eq_true_eq, hnl, ite_true, insertAll]
  have henc : Core.encodable cs = true := encodable_of_ref C hC bs cs (fun x hx => by
    simp only [Changeset.nodes, List.mem_reverse] at hx
    obtain ⟨dd, o, e, _⟩ := h2.nodesRef x hx
    exact ⟨dd, o, e⟩)
  have hds : Core.dataStep c d (honestGrowth C bs c.tree.fork m n us sig) cs = .ok ([], none) := by
    simp [Core.dataStep, honestGrowth]
  have hp : (honestGrowth C bs c.tree.fork m n us sig).fork = c.tree.fork := rfl
  generalize hc1 : ({ c with oplog := (Oplog.appendEntry c.oplog (Core.entryOf cs none c.header).1).1, header := (Core.entryOf cs none c.header).2, bitfield := c.bitfield, tree := tr } : Core) = c1
  have hshape : c.verifyAndApply C d (honestGrowth C bs c.tree.fork m n us sig)
      = { core := c1.maybeFlush.1, result := .ok true,
          journal := (Oplog.appendEntry c.oplog (Core.entryOf cs none c.header).1).2 ++ c1.maybeFlush.2,
          events := Core.appliedEvents (honestGrowth C bs c.tree.fork m n us sig) none } := by
    unfold Core.verifyAndApply
    simp only [hp, ne_eq, not_true_eq_false, ite_false, hvv, hcmt, Bool.not_true, Bool.false_eq_true, hds, henc, ite_true]
    unfold Core.applyVerified
    simp only [hcommit, Core.finishApply, List.nil_append, ← hc1]
  refine ⟨cs, h2, h4, h5, h7, ha, h11, ?_, ?_⟩
  · have hrl : c.tree.changeset.roots.length ≤ 64 := by
      show c.tree.roots.length ≤ 64
      rw [h.roots, rootsAt, List.length_map, List.length_reverse]
      exact rootsStack_length_log 64 m (by have := h.small.1; have := h.le; omega)
    have : c.tree.changeset.rnodes = [] := rfl
    rw [this] at h12
    simp only [Changeset.nodes, List.length_reverse]
    simp only [List.length_nil] at h12
    omega
  rw [hshape, ← hc1, ← htr]
  rfl

theorem growCore_repr (C : Crypto) (hC : HashWF C) (bs : Array Bytes) (m n : Nat) (c : Core) (d : Disk) (held : Nat → Bool)
    (h : RepRAt C bs m c d held) (hm0 : 0 < m) (hmn : m < n) (hn : n ≤ bs.size) (us : List (Nat × Nat))
    (hup : Up m 0 (rootsStack n).reverse us) (sig : Bytes) (hsl : sig.length = 64)
    (hver : C.verify c.publicKey (signableAt C bs n c.tree.fork) sig = true) :
    ∃ cs : Changeset, Inv C bs c.tree d.tree cs n ∧ cs.fork = c.tree.fork ∧ cs.signature = some sig ∧ cs.upgraded = true
      ∧ cs.ancestors = c.tree.length ∧ cs.hash = some (rootsHash C cs.roots) ∧ cs.nodes.length ≤ 64 + 2 * us.length
      ∧ c.verifyAndApply C d (honestGrowth C bs c.tree.fork m n us sig)
        = { core := (growCore c cs).maybeFlush.1, result := .ok true,
            journal := (Oplog.appendEntry c.oplog (Core.entryOf cs none c.header).1).2 ++ (growCore c cs).maybeFlush.2,
            events := Core.appliedEvents (honestGrowth C bs c.tree.fork m n us sig) none }
      ∧ RepRAt C bs n (growCore c cs) (d.applyAll (Oplog.appendEntry c.oplog (Core.entryOf cs none c.header).1).2) held := by
  have hN : n < 2 ^ 64 := by have := h.small.1; omega
  have hinv0 := inv_changeset C bs m c d held h
  obtain ⟨cs, h1, h2, h4, h5, h7, h8, h9, h10, h11, h12, _⟩ := grow_upgrade_accepted C hC bs c.tree d.tree m n hN hm0 hmn c.tree.fork c.publicKey sig
    c.tree.changeset hinv0 us hup hsl hver
  have hvv : verifyProof C c.tree d.tree (honestGrowth C bs c.tree.fork m n us sig) c.publicKey = .ok cs := by
    simp [honestGrowth, Tree.verifyProof, verifyTree, untrustedOf, noSeekOf, h1]
  have ho1 : cs.origLength = c.tree.length := by simpa [Tree.changeset] using h8
  have ho2 : cs.origFork = c.tree.fork := by simpa [Tree.changeset] using h9
  have ha : cs.ancestors = c.tree.length := by simpa [Tree.changeset] using h10
  have hcmt : c.tree.commitable cs = true := by simp [Tree.commitable, h7, ho1, ho2]
  have hnl : ¬ (cs.ancestors < cs.origLength) := by omega
  generalize htr : ({ c.tree with roots := cs.roots, length := cs.length, byteLength := cs.byteLength, fork := cs.fork, signature := cs.signature, unflushed := insertAll c.tree.unflushed cs.nodes } : Tree) = tr
  have hcommit : c.tree.commit cs = .ok tr := by
    rw [← htr]
    simp only [Tree.commit, hcmt, h7, Bool.not_true, Bool.false_eq_true, ite_false, Bool.true_and, decide_eq_true_eq, hnl, ite_true, insertAll]
  have henc : Core.encodable cs = true := encodable_of_ref C hC bs cs (fun x hx => by
    simp only [Changeset.nodes, List.mem_reverse] at hx
    obtain ⟨dd, o, e, _⟩ := h2.nodesRef x hx
    exact ⟨dd, o, e⟩)
  have hds : Core.dataStep c d (honestGrowth C bs c.tree.fork m n us sig) cs = .ok ([], none) := by
    simp [Core.dataStep, honestGrowth]
  have hp : (honestGrowth C bs c.tree.fork m n us sig).fork = c.tree.fork := rfl
  generalize hc1 : ({ c with oplog := (Oplog.appendEntry c.oplog (Core.entryOf cs none c.header).1).1, header := (Core.entryOf cs none c.header).2, bitfield := c.bitfield, tree := tr } : Core) = c1
  have hshape : c.verifyAndApply C d (honestGrowth C bs c.tree.fork m n us sig)
      = { core := c1.maybeFlush.1, result := .ok true,
          journal := (Oplog.appendEntry c.oplog (Core.entryOf cs none c.header).1).2 ++ c1.maybeFlush.2,
          events := Core.appliedEvents (honestGrowth C bs c.tree.fork m n us sig) none } := by
    unfold Core.verifyAndApply
    simp only [hp, ne_eq, not_true_eq_false, ite_false, hvv, hcmt, Bool.not_true, Bool.false_eq_true, hds, henc, ite_true]
    unfold Core.applyVerified
    simp only [hcommit, Core.finishApply, List.nil_append, ← hc1]
  have hj1 : ∀ op ∈ (Oplog.appendEntry c.oplog (Core.entryOf cs none c.header).1).2, op.store = .oplog := Journal.appendEntry_store _ _
  have htree : (d.applyAll (Oplog.appendEntry c.oplog (Core.entryOf cs none c.header).1).2).tree = d.tree :=
    LiveRefine.tree_of_applyAll _ _ (fun op hop => by rw [hj1 op hop]; decide)
  have hdata : (d.applyAll (Oplog.appendEntry c.oplog (Core.entryOf cs none c.header).1).2).data = d.data :=
    LiveRefine.data_of_applyAll _ _ (fun op hop => by rw [hj1 op hop]; decide)
  have hc1t : c1.tree = tr := by rw [← hc1]
  have hc1b : c1.bitfield = c.bitfield := by rw [← hc1]
  have hc1h : c1.header.contiguous = c.header.contiguous := by
    rw [← hc1]; simp only [Core.entryOf, h7, ite_true]
  -- lookups of the committed tree are those of the virtual tree of the invariant
  have hlook : ∀ i, tr.node? d.tree i = (vt c.tree cs).node? d.tree i := by
    intro i; rw [← htr]; exact node?_congr _ _ _ _ rfl
  have hnodesRef : ∀ x ∈ cs.nodes, ∃ dd o, x = nodeAt C bs dd o ∧ (o + 1) * 2 ^ dd ≤ n := by
    intro x hx
    exact h2.nodesRef x (by simpa [Changeset.nodes] using hx)
  have hrep1 : RepRAt C bs n c1 (d.applyAll (Oplog.appendEntry c.oplog (Core.entryOf cs none c.header).1).2) held := by
    obtain ⟨_, hold, _⟩ := insert_lookup C hC bs c.tree tr d.tree cs.nodes (fun x hx => by obtain ⟨dd, o, e, _⟩ := hnodesRef x hx; exact ⟨dd, o, e⟩)
      (by rw [← htr])
    refine ⟨hn, ?_, (by rw [hc1t, ← htr]; exact inv_roots C bs c.tree d.tree cs n h2), (by rw [hc1t, ← htr]; exact h2.bytes), ?_,
      (by rw [htree]; exact h.aligned), (by intro i; rw [hc1b]; exact h.bits i), (fun i hi => by have := h.heldLt i hi; omega), ?_, ?_,
      (by rw [hc1b, hc1h]; exact h.contig), h.small⟩
    · rw [hc1t, htree]
      exact closedAt_congr C bs n (vt c.tree cs) tr d.tree d.tree h2.closed hlook (by rw [← htr]; rfl)
    · rw [hc1t, ← htr]
      apply mapWF_insertAll _ _ h.mapwf
      intro x hx
      obtain ⟨dd, o, rfl, hb⟩ := hnodesRef x hx
      refine ⟨nodeAt_hash_len C hC bs dd o, ?_⟩
      have a1 := nodeAt_length_le C bs dd o
      have a2 := psum_mono bs (Nat.le_trans hb hn)
      have := h.small.2
      omega
    · intro i hi
      rw [hc1t, htree]
      exact hold _ _ (h.leaf i hi)
    · intro i hi k hk
      rw [hdata]; exact h.data i hi k hk
  have hrl : c.tree.changeset.roots.length ≤ 64 := by
    show c.tree.roots.length ≤ 64
    rw [h.roots, rootsAt, List.length_map, List.length_reverse]
    exact rootsStack_length_log 64 m (by have := h.small.1; have := h.le; omega)
  have hcnt : cs.nodes.length ≤ 64 + 2 * us.length := by
    have : c.tree.changeset.rnodes = [] := rfl
    rw [this] at h12
    simp only [Changeset.nodes, List.length_reverse]
    simp only [List.length_nil] at h12
    omega
  refine ⟨cs, h2, h4, h5, h7, ha, h11, hcnt, ?_, ?_⟩
  · rw [hshape, ← hc1, ← htr]
    rfl
  · rw [← hc1, ← htr] at hrep1
    exact hrep1

/-- **a growth round at core level**: the replica that represents the first `m` blocks applies the honest upgrade to
    `n` and then represents the first `n` blocks; what it holds is untouched -/
theorem apply_growth (C : Crypto) (hC : HashWF C) (bs : Array Bytes) (m n : Nat) (c : Core) (d : Disk) (held : Nat → Bool)
    (h : RepRAt C bs m c d held) (hm0 : 0 < m) (hmn : m < n) (hn : n ≤ bs.size) (us : List (Nat × Nat))
    (hup : Up m 0 (rootsStack n).reverse us) (sig : Bytes) (hsl : sig.length = 64)
    (hver : C.verify c.publicKey (signableAt C bs n c.tree.fork) sig = true) :
    (c.verifyAndApply C d (honestGrowth C bs c.tree.fork m n us sig)).result = .ok true
      ∧ RepRAt C bs n (c.verifyAndApply C d (honestGrowth C bs c.tree.fork m n us sig)).core
          (d.applyAll (c.verifyAndApply C d (honestGrowth C bs c.tree.fork m n us sig)).journal) held
      ∧ (c.verifyAndApply C d (honestGrowth C bs c.tree.fork m n us sig)).core.tree.fork = c.tree.fork
      ∧ (c.verifyAndApply C d (honestGrowth C bs c.tree.fork m n us sig)).core.publicKey = c.publicKey := by
  have hN : n < 2 ^ 64 := by have := h.small.1; omega
  have hinv0 := inv_changeset C bs m c d held h
  obtain ⟨cs, h1, h2, h4, h5, h7, h8, h9, h10, _, _, _⟩ := grow_upgrade_accepted C hC bs c.tree d.tree m n hN hm0 hmn c.tree.fork c.publicKey sig
    c.tree.changeset hinv0 us hup hsl hver
  have hvv : verifyProof C c.tree d.tree (honestGrowth C bs c.tree.fork m n us sig) c.publicKey = .ok cs := by
    simp [honestGrowth, Tree.verifyProof, verifyTree, untrustedOf, noSeekOf, h1]
  have ho1 : cs.origLength = c.tree.length := by simpa [Tree.changeset] using h8
  have ho2 : cs.origFork = c.tree.fork := by simpa [Tree.changeset] using h9
  have ha : cs.ancestors = c.tree.length := by simpa [Tree.changeset] using h10
  have hcmt : c.tree.commitable cs = true := by simp [Tree.commitable, h7, ho1, ho2]
  have hnl : ¬ (cs.ancestors < cs.origLength) := by omega
  generalize htr : ({ c.tree with roots := cs.roots, length := cs.length, byteLength := cs.byteLength, fork := cs.fork, signature := cs.signature, unflushed := insertAll c.tree.unflushed cs.nodes } : Tree) = tr
  have hcommit : c.tree.commit cs = .ok tr := by
    rw [← htr]
    simp only [Tree.commit, hcmt, h7, Bool.not_true, Bool.false_eq_true, ite_false, Bool.true_and, decide_eq_true_eq, hnl, ite_true, insertAll]
  have henc : Core.encodable cs = true := encodable_of_ref C hC bs cs (fun x hx => by
    simp only [Changeset.nodes, List.mem_reverse] at hx
    obtain ⟨dd, o, e, _⟩ := h2.nodesRef x hx
    exact ⟨dd, o, e⟩)
  have hds : Core.dataStep c d (honestGrowth C bs c.tree.fork m n us sig) cs = .ok ([], none) := by
    simp [Core.dataStep, honestGrowth]
  have hp : (honestGrowth C bs c.tree.fork m n us sig).fork = c.tree.fork := rfl
  generalize hc1 : ({ c with oplog := (Oplog.appendEntry c.oplog (Core.entryOf cs none c.header).1).1, header := (Core.entryOf cs none c.header).2, bitfield := c.bitfield, tree := tr } : Core) = c1
  have hshape : c.verifyAndApply C d (honestGrowth C bs c.tree.fork m n us sig)
      = { core := c1.maybeFlush.1, result := .ok true,
          journal := (Oplog.appendEntry c.oplog (Core.entryOf cs none c.header).1).2 ++ c1.maybeFlush.2,
          events := Core.appliedEvents (honestGrowth C bs c.tree.fork m n us sig) none } := by
    unfold Core.verifyAndApply
    simp only [hp, ne_eq, not_true_eq_false, ite_false, hvv, hcmt, Bool.not_true, Bool.false_eq_true, hds, henc, ite_true]
    unfold Core.applyVerified
    simp only [hcommit, Core.finishApply, List.nil_append, ← hc1]
  have hj1 : ∀ op ∈ (Oplog.appendEntry c.oplog (Core.entryOf cs none c.header).1).2, op.store = .oplog := Journal.appendEntry_store _ _
  have htree : (d.applyAll (Oplog.appendEntry c.oplog (Core.entryOf cs none c.header).1).2).tree = d.tree :=
    LiveRefine.tree_of_applyAll _ _ (fun op hop => by rw [hj1 op hop]; decide)
  have hdata : (d.applyAll (Oplog.appendEntry c.oplog (Core.entryOf cs none c.header).1).2).data = d.data :=
    LiveRefine.data_of_applyAll _ _ (fun op hop => by rw [hj1 op hop]; decide)
  have hc1t : c1.tree = tr := by rw [← hc1]
  have hc1b : c1.bitfield = c.bitfield := by rw [← hc1]
  have hc1h : c1.header.contiguous = c.header.contiguous := by
    rw [← hc1]; simp only [Core.entryOf, h7, ite_true]
  -- lookups of the committed tree are those of the virtual tree of the invariant
  have hlook : ∀ i, tr.node? d.tree i = (vt c.tree cs).node? d.tree i := by
    intro i; rw [← htr]; exact node?_congr _ _ _ _ rfl
  have hnodesRef : ∀ x ∈ cs.nodes, ∃ dd o, x = nodeAt C bs dd o ∧ (o + 1) * 2 ^ dd ≤ n := by
    intro x hx
    exact h2.nodesRef x (by simpa [Changeset.nodes] using hx)
  have hrep1 : RepRAt C bs n c1 (d.applyAll (Oplog.appendEntry c.oplog (Core.entryOf cs none c.header).1).2) held := by
    obtain ⟨_, hold, _⟩ := insert_lookup C hC bs c.tree tr d.tree cs.nodes (fun x hx => by obtain ⟨dd, o, e, _⟩ := hnodesRef x hx; exact ⟨dd, o, e⟩)
      (by rw [← htr])
    refine ⟨hn, ?_, (by rw [hc1t, ← htr]; exact inv_roots C bs c.tree d.tree cs n h2), (by rw [hc1t, ← htr]; exact h2.bytes), ?_,
      (by rw [htree]; exact h.aligned), (by intro i; rw [hc1b]; exact h.bits i), (fun i hi => by have := h.heldLt i hi; omega), ?_, ?_,
      (by rw [hc1b, hc1h]; exact h.contig), h.small⟩
    · rw [hc1t, htree]
      exact closedAt_congr C bs n (vt c.tree cs) tr d.tree d.tree h2.closed hlook (by rw [← htr]; rfl)
    · rw [hc1t, ← htr]
      apply mapWF_insertAll _ _ h.mapwf
      intro x hx
      obtain ⟨dd, o, rfl, hb⟩ := hnodesRef x hx
      refine ⟨nodeAt_hash_len C hC bs dd o, ?_⟩
      have a1 := nodeAt_length_le C bs dd o
      have a2 := psum_mono bs (Nat.le_trans hb hn)
      have := h.small.2
      omega
    · intro i hi
      rw [hc1t, htree]
      exact hold _ _ (h.leaf i hi)
    · intro i hi k hk
      rw [hdata]; exact h.data i hi k hk
  rw [hshape]
  refine ⟨rfl, ?_, ?_, ?_⟩
  · simp only []
    rw [Journal.applyAll_append]
    exact maybeFlush_reprAt C bs n _ _ _ hrep1
  · simp only []
    rw [LiveRefine.maybeFlush_eq]
    split
    · simp only [Core.flushAll, Tree.flush]; rw [hc1t, ← htr]; exact h4
    · show c1.tree.fork = _; rw [hc1t, ← htr]; exact h4
  · simp only []
    rw [LiveRefine.maybeFlush_eq]
    split
    · simp only [Core.flushAll]; rw [← hc1]
    · show c1.publicKey = _; rw [← hc1]

/-! ### the honest position list exists -/

theorem odd_decomp : ∀ L : Nat, 0 < L → ∃ J M, L = M * 2 ^ J ∧ M % 2 = 1 := by
  intro L
  induction L using Nat.strongRecOn with
  | _ L ih =>
    intro hL
    by_cases hodd : L % 2 = 1
    · exact ⟨0, L, by simp, hodd⟩
    · obtain ⟨J, M, e, hM⟩ := ih (L / 2) (by omega) (by omega)
      refine ⟨J + 1, M, ?_, hM⟩
      rw [pow_succ2]
      have : M * (2 * 2 ^ J) = 2 * (M * 2 ^ J) := by ring
      rw [this, ← e]; omega

theorem grow_exists (d o : Nat) : ∀ (k L : Nat), (o + 1) * 2 ^ d - L ≤ k → o * 2 ^ d < L → L ≤ (o + 1) * 2 ^ d →
    ∃ gs, Grow gs L ((o + 1) * 2 ^ d) := by
  intro k
  induction k with
  | zero =>
    intro L hk h1 h2
    have : L = (o + 1) * 2 ^ d := by omega
    subst this
    exact ⟨[], Grow.nil _⟩
  | succ k ih =>
    intro L hk h1 h2
    by_cases hLE : L = (o + 1) * 2 ^ d
    · subst hLE; exact ⟨[], Grow.nil _⟩
    · have hlt : L < (o + 1) * 2 ^ d := by omega
      obtain ⟨J, M, e, hM⟩ := odd_decomp L (by omega)
      have hpd := pow_pos' d
      have hpJ := pow_pos' J
      -- the block is smaller than the root
      have hJd : J < d := by
        by_contra hge
        have hdv : 2 ^ d ∣ L := by rw [e]; exact Nat.dvd_trans (Nat.pow_dvd_pow 2 (by omega : d ≤ J)) (Nat.dvd_mul_left _ _)
        have g1 := mult_gap (2 ^ d) (o * 2 ^ d) L (Nat.dvd_mul_left _ _) hdv h1
        have : (o + 1) * 2 ^ d = o * 2 ^ d + 2 ^ d := by ring
        omega
      have hfit : M * 2 ^ J + 2 ^ J ≤ (o + 1) * 2 ^ d := by
        have hdvE : 2 ^ J ∣ (o + 1) * 2 ^ d := Nat.dvd_trans (Nat.pow_dvd_pow 2 (by omega : J ≤ d)) (Nat.dvd_mul_left _ _)
        have := mult_gap (2 ^ J) (M * 2 ^ J) _ (Nat.dvd_mul_left _ _) hdvE (by rw [← e]; exact hlt)
        exact this
      obtain ⟨gs, hg⟩ := ih (M * 2 ^ J + 2 ^ J) (by omega) (by omega) hfit
      exact ⟨(J, M) :: gs, by rw [e]; exact Grow.cons J M _ gs hM hfit hg⟩

theorem up_exists (m n : Nat) (hmn : m < n) : ∀ (ln : List (Nat × Nat)) (s : Nat), Cover ln s n → DecDepth ln → s ≤ m → ∃ us, Up m s ln us := by
  intro ln
  induction ln with
  | nil => intro s hc _ hs; have := UpgradeComplete.cover_nil_eq _ _ hc; omega
  | cons p ln ih =>
    intro s hc hdec hs
    obtain ⟨d, o⟩ := p
    obtain ⟨c1, c2, c3⟩ := cover_lt _ s n d o ln rfl hc hdec
    have hE : (o + 1) * 2 ^ d = s + 2 ^ d := by rw [c3]; ring
    have hrest : Cover ln ((o + 1) * 2 ^ d) n := by
      cases hc with
      | cons _ _ _ _ _ _ hr => exact hr
    by_cases hend : (o + 1) * 2 ^ d ≤ m
    · obtain ⟨us, hu⟩ := ih _ hrest (List.pairwise_cons.mp hdec).2 hend
      exact ⟨us, by rw [c3]; exact Up.skip d o ln us hend hu⟩
    · by_cases hsm : s = m
      · exact ⟨(d, o) :: ln, by rw [hsm]; exact Up.plain _⟩
      · obtain ⟨gs, hg⟩ := grow_exists d o ((o + 1) * 2 ^ d - m) m (Nat.le_refl _) (by omega) (by omega)
        exact ⟨gs ++ ln, by rw [c3]; exact Up.grow d o ln gs (by omega) (by omega) hg⟩

/-- for every pair of lengths `0 ≤ m < n` there is an honest position list -/
theorem up_exists0 (m n : Nat) (hmn : m < n) : ∃ us, Up m 0 (rootsStack n).reverse us :=
  up_exists m n hmn _ 0 (cover_roots n) (rootsStack_rev_dec n) (Nat.zero_le _)

/-! ### growth rounds and block requests, in any order -/

theorem sibPath_extract (C : Crypto) (bs : Array Bytes) (m : Nat) (hm : m ≤ bs.size) : ∀ (k d o : Nat), (o / 2 ^ k + 1) * 2 ^ (d + k) ≤ m →
    sibPath C (bs.extract 0 m) d o k = sibPath C bs d o k := by
  intro k
  induction k with
  | zero => intro d o _; rfl
  | succ k ih =>
    intro d o h
    have h' : (o / 2 / 2 ^ k + 1) * 2 ^ (d + 1 + k) ≤ m := by
      rw [div_pow_succ, show d + 1 + k = d + (k + 1) by omega]; exact h
    have hsp := span_le (o / 2) (d + 1) k
    have hsb := sib_bound o d
    simp only [sibPath, ih (d + 1) (o / 2) h']
    rw [nodeAt_extract C bs m hm d (sib o) (by omega)]

theorem honestBlock_extract (C : Crypto) (bs : Array Bytes) (m : Nat) (c : Core) (d : Disk) (held : Nat → Bool) (h : RepRAt C bs m c d held)
    (i : Nat) (hi : i < m) : honestBlock C (bs.extract 0 m) c d i = honestBlock C bs c d i := by
  obtain ⟨_, hin⟩ := missingNodes_spec C bs m c.tree d.tree h.closed.sparse (by have := h.small.1; have := h.le; omega) i hi
  simp only [honestBlock]
  rw [extract_getD bs m i h.le hi, sibPath_extract C bs m h.le _ 0 i (by simpa using hin)]

/-- one honest block exchange on a replica that represents the first `m` blocks -/
theorem apply_block_at (C : Crypto) (hC : HashWF C) (bs : Array Bytes) (m : Nat) (c : Core) (d : Disk) (held : Nat → Bool)
    (h : RepRAt C bs m c d held) (i : Nat) (hi : i < m) :
    (c.verifyAndApply C d (honestBlock C bs c d i)).result = .ok true
      ∧ RepRAt C bs m (c.verifyAndApply C d (honestBlock C bs c d i)).core
          (d.applyAll (c.verifyAndApply C d (honestBlock C bs c d i)).journal) (fun j => held j || j == i) := by
  have hR := (repr_extract C bs m h.le h.small c d held).mpr h
  obtain ⟨r1, r2⟩ := apply_block C hC (bs.extract 0 m) c d held hR i (by rw [size_extract bs m h.le]; exact hi)
  rw [honestBlock_extract C bs m c d held h i hi] at r1 r2
  exact ⟨r1, (repr_extract C bs m h.le h.small _ _ _).mp r2⟩

/-! ### reading back, and first contact at a prefix -/

theorem get_held_at (C : Crypto) (bs : Array Bytes) (m : Nat) (c : Core) (d : Disk) (held : Nat → Bool) (h : RepRAt C bs m c d held)
    (i : Nat) (hi : held i = true) : (c.getBlock d i).result = .ok (some (bs.getD i [])) := by
  have := get_held C (bs.extract 0 m) c d held ((repr_extract C bs m h.le h.small c d held).mpr h) i hi
  rw [extract_getD bs m i h.le (h.heldLt i hi)] at this
  exact this

theorem get_missing_at (C : Crypto) (bs : Array Bytes) (m : Nat) (c : Core) (d : Disk) (held : Nat → Bool) (h : RepRAt C bs m c d held)
    (i : Nat) (hi : held i = false) : (c.getBlock d i).result = .ok none :=
  get_missing C (bs.extract 0 m) c d held ((repr_extract C bs m h.le h.small c d held).mpr h) i hi

theorem signable_extract (C : Crypto) (bs : Array Bytes) (n : Nat) (hn : n ≤ bs.size) (fork : Nat) :
    RefTree.signableOf C (bs.extract 0 n) fork = signableAt C bs n fork := by
  simp only [RefTree.signableOf, signableAt, rootsHash, roots_extract C bs n hn, size_extract bs n hn]

/-- the writer's answer to "upgrade me from 0 to `n`" when its log has `n` blocks -/
def honestFirst (C : Crypto) (bs : Array Bytes) (fork n : Nat) (sig : Bytes) : Proof :=
  ⟨fork, none, none, none, some ⟨0, n, rootsAt C bs n, [], sig⟩⟩

theorem first_contact_at (C : Crypto) (hC : HashWF C) (bs : Array Bytes) (hs : bs.size < 2 ^ 64 ∧ psum bs bs.size < 2 ^ 64) (n : Nat) (h0 : 0 < n)
    (hn : n ≤ bs.size) (c : Core) (d : Disk) (h : FreshR C (bs.extract 0 n) c d) (sig : Bytes) (hsl : sig.length = 64)
    (hver : C.verify c.publicKey (signableAt C bs n c.tree.fork) sig = true) :
    (c.verifyAndApply C d (honestFirst C bs c.tree.fork n sig)).result = .ok true
      ∧ RepRAt C bs n (c.verifyAndApply C d (honestFirst C bs c.tree.fork n sig)).core
          (d.applyAll (c.verifyAndApply C d (honestFirst C bs c.tree.fork n sig)).journal) (fun _ => false)
      ∧ (c.verifyAndApply C d (honestFirst C bs c.tree.fork n sig)).core.tree.fork = c.tree.fork
      ∧ (c.verifyAndApply C d (honestFirst C bs c.tree.fork n sig)).core.publicKey = c.publicKey := by
  have hp : honestFirst C bs c.tree.fork n sig = honestUpgrade C (bs.extract 0 n) c.tree.fork sig := by
    simp only [honestFirst, honestUpgrade, roots_extract C bs n hn, size_extract bs n hn]
  rw [hp]
  obtain ⟨r1, r2, r3, r4⟩ := apply_first_upgrade C hC (bs.extract 0 n) c d h (by rw [size_extract bs n hn]; exact h0) sig hsl
    (by rw [signable_extract C bs n hn]; exact hver)
  exact ⟨r1, (repr_extract C bs n hn hs _ _ _).mp r2, r3, r4⟩

/-! ### the writer produces exactly this answer -/

/-- right siblings along the path from `(j, q)` upwards, `gap` levels -/
def rightSibs : Nat → Nat → Nat → List (Nat × Nat)
  | 0, _, _ => []
  | g+1, j, q => (if q % 2 = 0 then [(j, q + 1)] else []) ++ rightSibs g (j + 1) (q / 2)

theorem rightSibs_skip : ∀ (k g j X : Nat), (X + 1) % 2 ^ k = 0 → rightSibs (k + g) j X = rightSibs g (j + k) (X / 2 ^ k) := by
  intro k
  induction k with
  | zero => intro g j X _; simp
  | succ k ih =>
    intro g j X h
    have hp := pow_pos' k
    obtain ⟨c, hc⟩ : 2 ^ (k + 1) ∣ X + 1 := Nat.dvd_of_mod_eq_zero h
    rw [pow_succ2] at hc
    have hodd : ¬ (X % 2 = 0) := by
      have : X + 1 = 2 * (2 ^ k * c) := by rw [hc]; ring
      omega
    have hhalf : (X / 2 + 1) % 2 ^ k = 0 := by
      have : X / 2 + 1 = 2 ^ k * c := by
        have : X + 1 = 2 * (2 ^ k * c) := by rw [hc]; ring
        omega
      rw [this]; exact Nat.mul_mod_right _ _
    rw [show k + 1 + g = (k + g) + 1 by omega]
    simp only [rightSibs, hodd, ite_false, List.nil_append]
    rw [ih g (j + 1) (X / 2) hhalf, div_pow_pred]
    congr 1; omega

theorem grow_rightSibs (D O : Nat) : ∀ (gs : List (Nat × Nat)) (L E : Nat), Grow gs L E → E = (O + 1) * 2 ^ D → O * 2 ^ D < L →
    gs = rightSibs D 0 (L - 1) := by
  intro gs L E hg
  induction hg with
  | nil E =>
    intro hE _
    have hpD := pow_pos' D
    have h1 : (E - 1 + 1) % 2 ^ D = 0 := by
      have : 0 < E := by rw [hE]; exact Nat.mul_pos (Nat.succ_pos _) hpD
      rw [Nat.sub_add_cancel this, hE]; exact Nat.mul_mod_left _ _
    have := rightSibs_skip D 0 0 (E - 1) h1
    simp only [Nat.add_zero, Nat.zero_add] at this
    rw [this]; rfl
  | cons J M E rest hM hfit _ ih =>
    intro hE hlt
    have hpJ := pow_pos' J
    have hpD := pow_pos' D
    have hM1 : 1 ≤ M := by omega
    -- the block is smaller than the root
    have hJD : J < D := by
      by_contra hge
      have hdv : 2 ^ D ∣ M * 2 ^ J := Nat.dvd_trans (Nat.pow_dvd_pow 2 (by omega : D ≤ J)) (Nat.dvd_mul_left _ _)
      have g1 := mult_gap (2 ^ D) (O * 2 ^ D) _ (Nat.dvd_mul_left _ _) hdv hlt
      have : (O + 1) * 2 ^ D = O * 2 ^ D + 2 ^ D := by ring
      omega
    obtain ⟨g, rfl⟩ : ∃ g, D = J + 1 + g := ⟨D - J - 1, by omega⟩
    have hrest := ih hE (by omega)
    -- the levels below J carry nothing, level J carries the block
    have hL1 : (M * 2 ^ J - 1 + 1) % 2 ^ J = 0 := by
      have : 0 < M * 2 ^ J := Nat.mul_pos hM1 hpJ
      rw [Nat.sub_add_cancel this]; exact Nat.mul_mod_left _ _
    have hdivJ : (M * 2 ^ J - 1) / 2 ^ J = M - 1 := by
      apply div_eq_of_span
      · have : (M - 1) * 2 ^ J + 2 ^ J = M * 2 ^ J := by
          have : M = (M - 1) + 1 := by omega
          calc (M - 1) * 2 ^ J + 2 ^ J = ((M - 1) + 1) * 2 ^ J := by ring
            _ = M * 2 ^ J := by rw [← this]
        omega
      · have : (M - 1 + 1) * 2 ^ J = M * 2 ^ J := by rw [Nat.sub_add_cancel hM1]
        omega
    have e1 := rightSibs_skip J (1 + g) 0 (M * 2 ^ J - 1) hL1
    rw [show J + (1 + g) = J + 1 + g by omega] at e1
    rw [e1, hdivJ]
    have hev : (M - 1) % 2 = 0 := by omega
    rw [show 1 + g = g + 1 by omega]
    simp only [rightSibs, hev, ite_true, Nat.zero_add, List.singleton_append]
    rw [Nat.sub_add_cancel hM1]
    congr 1
    -- the rest starts above level J + 1
    have hL' : M * 2 ^ J + 2 ^ J = (M + 1) / 2 * 2 ^ (J + 1) := by
      rw [pow_succ2]
      have : (M + 1) / 2 * (2 * 2 ^ J) = (2 * ((M + 1) / 2)) * 2 ^ J := by ring
      rw [this]
      have : 2 * ((M + 1) / 2) = M + 1 := by omega
      rw [this]; ring
    have hL'1 : (M * 2 ^ J + 2 ^ J - 1 + 1) % 2 ^ (J + 1) = 0 := by
      have : 0 < M * 2 ^ J + 2 ^ J := by omega
      rw [Nat.sub_add_cancel this, hL']; exact Nat.mul_mod_left _ _
    have e2 := rightSibs_skip (J + 1) g 0 (M * 2 ^ J + 2 ^ J - 1) hL'1
    have hdiv2 : (M * 2 ^ J + 2 ^ J - 1) / 2 ^ (J + 1) = (M - 1) / 2 := by
      have hp2 := pow_pos' (J + 1)
      apply div_eq_of_span
      · have : ((M - 1) / 2 + 1) * 2 ^ (J + 1) = (M + 1) / 2 * 2 ^ (J + 1) := by
          congr 1; omega
        have e3 : ((M - 1) / 2 + 1) * 2 ^ (J + 1) = (M - 1) / 2 * 2 ^ (J + 1) + 2 ^ (J + 1) := by ring
        omega
      · have : ((M - 1) / 2 + 1) * 2 ^ (J + 1) = (M + 1) / 2 * 2 ^ (J + 1) := by
          congr 1; omega
        omega
    rw [hrest, e2, hdiv2]
    simp

/-- the "connect existing tree" walk of `upgrade_proof`: from leaf `m − 1` up to the root, it collects the right siblings -/
theorem connectWalk_honest (C : Crypto) (bs : Array Bytes) (t : Tree) (f : File) (hN : NodesOK C bs t f) (m : Nat) (hm0 : 0 < m)
    (sub : Nat) (hsub : 2 * bs.size ≤ sub) (p : LocalProof) (D O : Nat) (hR : (O + 1) * 2 ^ D ≤ bs.size) :
    ∀ (gap j fuel : Nat) (acc : List Node), j + gap = D → (m - 1) / 2 ^ (j + gap) = O → gap < fuel →
      connectWalk t f true none false sub (Flat.index D O) (2 * (m - 1)) fuel (iat j ((m - 1) / 2 ^ j)) acc p
        = .ok (acc ++ (rightSibs gap j ((m - 1) / 2 ^ j)).map (fun q => nodeAt C bs q.1 q.2), p) := by
  intro gap
  induction gap with
  | zero =>
    intro j fuel acc hj hO hf
    obtain ⟨fuel, rfl⟩ : ∃ x, fuel = x + 1 := ⟨fuel - 1, by omega⟩
    have : j = D := by omega
    subst this
    simp only [Nat.add_zero] at hO
    have : (iat j ((m - 1) / 2 ^ j)).index = Flat.index j O := by rw [hO]; rfl
    simp [connectWalk, this, rightSibs]
  | succ gap ih =>
    intro j fuel acc hj hO hf
    obtain ⟨fuel, rfl⟩ : ∃ x, fuel = x + 1 := ⟨fuel - 1, by omega⟩
    have hpj := pow_pos' j
    generalize hq : (m - 1) / 2 ^ j = q
    have hq1 : q * 2 ^ j ≤ m - 1 := by rw [← hq]; exact Nat.div_mul_le_self _ _
    have hq2 : m - 1 < (q + 1) * 2 ^ j := by
      rw [← hq]
      exact (Nat.div_lt_iff_lt_mul hpj).mp (Nat.lt_succ_self _)
    have hne : ¬ ((iat j q).index = Flat.index D O) := by
      intro e
      have := (index_inj j q D O e).1
      omega
    have hhalf : q / 2 = (m - 1) / 2 ^ (j + 1) := by rw [← hq, div_pow_succ']
    -- the node lies inside the root
    have hspanR : (q / 2 + 1) * 2 ^ (j + 1) ≤ (O + 1) * 2 ^ D := by
      have := span_le (q / 2) (j + 1) gap
      rw [hhalf, Nat.div_div_eq_div_mul, ← Nat.pow_add, show j + 1 + gap = j + (gap + 1) by omega, hO] at this
      rw [hhalf]
      rw [hj] at this
      exact this
    simp only [connectWalk, hne, ite_false, iat_sibling, iat_parent, sib_half]
    rw [hhalf]
    by_cases hev : q % 2 = 0
    · -- a left child: its right sibling is sent
      have hs : sib q = q + 1 := by unfold sib; simp [hev]
      have hgt : (iat j (sib q)).index > 2 * (m - 1) := by
        rw [hs]
        have : (iat j (q + 1)).index = (q + 1) * (2 * 2 ^ j) + (2 ^ j - 1) := index_eq j (q + 1)
        have e : (q + 1) * (2 * 2 ^ j) = 2 * ((q + 1) * 2 ^ j) := by ring
        omega
      have hsb : (sib q + 1) * 2 ^ j ≤ bs.size := by
        have := sib_bound q j
        omega
      have hcont : (iat j (sib q)).contains sub = false := by
        rw [iat_contains]
        have e : (sib q + 1) * 2 ^ (j + 1) = 2 * ((sib q + 1) * 2 ^ j) := by rw [pow_succ2]; ring
        have : ¬ (sub + 2 ≤ (sib q + 1) * 2 ^ (j + 1)) := by rw [e]; omega
        simp [this]
      have hreq : t.requiredNode f (iat j (sib q)).index = .ok (nodeAt C bs j (sib q)) := UpgradeComplete.requiredNode_ok C bs t f hN j (sib q) hsb
      simp only [hgt, ite_true, hcont, Bool.and_false, Bool.false_eq_true, ite_false, hreq]
      rw [ih (j + 1) fuel _ (by omega) (by rw [show j + 1 + gap = j + (gap + 1) by omega]; exact hO) (by omega)]
      simp only [rightSibs, hev, ite_true, hs, ← hhalf]
      simp
    · have hs : sib q = q - 1 := by unfold sib; simp [hev]
      have hle : ¬ ((iat j (sib q)).index > 2 * (m - 1)) := by
        rw [hs]
        have : (iat j (q - 1)).index = (q - 1) * (2 * 2 ^ j) + (2 ^ j - 1) := index_eq j (q - 1)
        have e : (q - 1) * (2 * 2 ^ j) + 2 * 2 ^ j = 2 * (q * 2 ^ j) := by
          have : q = (q - 1) + 1 := by omega
          calc (q - 1) * (2 * 2 ^ j) + 2 * 2 ^ j = ((q - 1) + 1) * (2 * 2 ^ j) := by ring
            _ = q * (2 * 2 ^ j) := by rw [← this]
            _ = 2 * (q * 2 ^ j) := by ring
        omega
      simp only [hle, ite_false]
      rw [ih (j + 1) fuel _ (by omega) (by rw [show j + 1 + gap = j + (gap + 1) by omega]; exact hO) (by omega)]
      simp only [rightSibs, hev, ite_false, ← hhalf]
      simp

/-- the tail of the root loop of `upgrade_proof`: every remaining root is sent -/
theorem upgradeLoop_tail (C : Crypto) (bs : Array Bytes) (t : Tree) (f : File) (hNodes : NodesOK C bs t f) (hN : bs.size < 2 ^ 64)
    (frm : Nat) (sub : Nat) (hsub : 2 * bs.size ≤ sub) (p : LocalProof) :
    ∀ (rest : List (Nat × Nat)) (fuel s : Nat) (acc : List Node), Cover rest s bs.size → DecDepth rest → Align s bs.size →
      frm ≤ 2 * s → rest.length < fuel →
      t.upgradeLoop f true none false frm (2 * bs.size) sub fuel (iat 0 s) true acc p
        = .ok (true, acc ++ rest.map (fun q => nodeAt C bs q.1 q.2), p) := by
  intro rest
  induction rest with
  | nil =>
    intro fuel s acc hc _ _ _ hfuel
    have := UpgradeComplete.cover_nil_eq _ _ hc
    subst this
    obtain ⟨fuel, rfl⟩ : ∃ x, fuel = x + 1 := ⟨fuel - 1, by simp at hfuel; omega⟩
    unfold Tree.upgradeLoop
    rw [fullRoot_done bs.size bs.size (Nat.le_refl _)]
    simp
  | cons q rest ih =>
    intro fuel s acc hc hdec hal hfrm hfuel
    obtain ⟨d, o⟩ := q
    obtain ⟨fuel, rfl⟩ : ∃ x, fuel = x + 1 := ⟨fuel - 1, by simp at hfuel; omega⟩
    obtain ⟨c1, c2, c3⟩ := cover_lt _ s bs.size d o rest rfl hc hdec
    have hs : s < bs.size := by have := pow_pos' d; omega
    obtain ⟨J, hfr, hd, hfit, hal', hmax⟩ := fullRoot_canon s bs.size hal hs hN
    have hJ : J = d := by
      have h1 : 2 ^ J < 2 ^ (d + 1) := by omega
      have h2 : 2 ^ d < 2 ^ (J + 1) := by rw [two_pow_succ]; omega
      have := (Nat.pow_lt_pow_iff_right (by decide : 1 < 2)).mp h1
      have := (Nat.pow_lt_pow_iff_right (by decide : 1 < 2)).mp h2
      omega
    subst hJ
    have ho : s / 2 ^ J = o := by rw [c3]; exact Nat.mul_div_cancel _ (pow_pos' J)
    rw [ho] at hfr
    have hnext : (iat J o).nextTree = iat 0 (s + 2 ^ J) := by rw [← ho]; exact iat_nextTree J s hd
    have hspan : (o + 1) * 2 ^ J ≤ bs.size := by
      have : (o + 1) * 2 ^ J = s + 2 ^ J := by rw [c3]; ring
      omega
    have hcont : (iat J o).contains sub = false := by
      rw [iat_contains]
      have e : (o + 1) * 2 ^ (J + 1) = 2 * ((o + 1) * 2 ^ J) := by rw [two_pow_succ]; ring
      have : ¬ (sub + 2 ≤ (o + 1) * 2 ^ (J + 1)) := by rw [e]; omega
      simp [this]
    have hnoskip : ¬ ((iat J o).index + (iat J o).factor / 2 < frm) := by
      have hidx : (iat J o).index = 2 * s + 2 ^ J - 1 := by rw [← ho]; exact index_aligned J s hd
      have hfac : (iat J o).factor / 2 = 2 ^ J := by simp only [iat, two_pow_succ]; omega
      have := pow_pos' J
      omega
    have hrest' : Cover rest (s + 2 ^ J) bs.size := by
      cases hc with
      | cons _ _ _ _ _ _ hr =>
        have : (o + 1) * 2 ^ J = s + 2 ^ J := by rw [c3]; ring
        rw [this] at hr; exact hr
    unfold Tree.upgradeLoop
    rw [hfr]
    simp only [Bool.not_true, Bool.false_eq_true, ite_false, hnoskip, Bool.false_and, hcont, Bool.and_false]
    rw [show (iat J o).index = Flat.index J o from rfl, UpgradeComplete.requiredNode_ok C bs t f hNodes J o hspan]
    simp only []
    rw [hnext, ih fuel (s + 2 ^ J) (acc ++ [nodeAt C bs J o]) hrest' (List.pairwise_cons.mp hdec).2 hal' (by omega) (by simp at hfuel; omega)]
    simp

/-- the root loop of `upgrade_proof` for an upgrade from `m`: it sends exactly the honest position list -/
theorem upgradeLoop_up (C : Crypto) (bs : Array Bytes) (t : Tree) (f : File) (hNodes : NodesOK C bs t f) (hN : bs.size < 2 ^ 64)
    (m : Nat) (hm0 : 0 < m) (hmn : m < bs.size) (sub : Nat) (hsub : 2 * bs.size ≤ sub) (p : LocalProof) :
    ∀ (ln : List (Nat × Nat)) (fuel s : Nat) (acc : List Node) (us : List (Nat × Nat)), Cover ln s bs.size → DecDepth ln → Align s bs.size →
      Up m s ln us → ln.length < fuel →
      t.upgradeLoop f true none false (2 * m) (2 * bs.size) sub fuel (iat 0 s) false acc p
        = .ok (true, acc ++ us.map (fun q => nodeAt C bs q.1 q.2), p) := by
  intro ln
  induction ln with
  | nil =>
    intro fuel s acc us hc _ _ hup _
    exfalso
    have hs := UpgradeComplete.cover_nil_eq _ _ hc
    cases hup with
    | plain => omega
  | cons q ln ih =>
    intro fuel s acc us hc hdec hal hup hfuel
    obtain ⟨d, o⟩ := q
    obtain ⟨fuel, rfl⟩ : ∃ x, fuel = x + 1 := ⟨fuel - 1, by simp at hfuel; omega⟩
    obtain ⟨c1, c2, c3⟩ := cover_lt _ s bs.size d o ln rfl hc hdec
    have hpd := pow_pos' d
    have hs : s < bs.size := by omega
    obtain ⟨J, hfr, hd, hfit, hal', hmax⟩ := fullRoot_canon s bs.size hal hs hN
    have hJ : J = d := by
      have h1 : 2 ^ J < 2 ^ (d + 1) := by omega
      have h2 : 2 ^ d < 2 ^ (J + 1) := by rw [two_pow_succ]; omega
      have := (Nat.pow_lt_pow_iff_right (by decide : 1 < 2)).mp h1
      have := (Nat.pow_lt_pow_iff_right (by decide : 1 < 2)).mp h2
      omega
    subst hJ
    have ho : s / 2 ^ J = o := by rw [c3]; exact Nat.mul_div_cancel _ (pow_pos' J)
    rw [ho] at hfr
    have hnext : (iat J o).nextTree = iat 0 (s + 2 ^ J) := by rw [← ho]; exact iat_nextTree J s hd
    have hE : (o + 1) * 2 ^ J = s + 2 ^ J := by rw [c3]; ring
    have hspan : (o + 1) * 2 ^ J ≤ bs.size := by omega
    have hidx : (iat J o).index = 2 * s + 2 ^ J - 1 := by rw [← ho]; exact index_aligned J s hd
    have hfac : (iat J o).factor / 2 = 2 ^ J := by simp only [iat, two_pow_succ]; omega
    have hcont : (iat J o).contains sub = false := by
      rw [iat_contains]
      have e : (o + 1) * 2 ^ (J + 1) = 2 * ((o + 1) * 2 ^ J) := by rw [two_pow_succ]; ring
      have : ¬ (sub + 2 ≤ (o + 1) * 2 ^ (J + 1)) := by rw [e]; omega
      simp [this]
    have hrest' : Cover ln (s + 2 ^ J) bs.size := by
      cases hc with
      | cons _ _ _ _ _ _ hr => rw [hE] at hr; exact hr
    rcases hup.inv with ⟨hend, _, hup'⟩ | ⟨hsm, husq⟩ | ⟨gs, _, hlt, hgt, hg, husq⟩
    · -- the replica has this root: skipped
      have hskip : (iat J o).index + (iat J o).factor / 2 < 2 * m := by rw [hidx, hfac]; omega
      unfold Tree.upgradeLoop
      rw [hfr]
      simp only [Bool.not_true, Bool.false_eq_true, ite_false, hskip, ite_true, hnext]
      rw [hE] at hup'
      exact ih fuel (s + 2 ^ J) acc us hrest' (List.pairwise_cons.mp hdec).2 hal' hup' (by simp at hfuel; omega)
    · -- the replica's length is a root boundary of the writer: this root and all that follow are sent
      subst hsm
      subst husq
      have hnoskip : ¬ ((iat J o).index + (iat J o).factor / 2 < 2 * s) := by rw [hidx, hfac]; omega
      have hnocont : (iat J o).contains (2 * s - 2) = false := by
        rw [iat_contains]
        have e : o * 2 ^ (J + 1) = 2 * (o * 2 ^ J) := by rw [two_pow_succ]; ring
        have : ¬ (o * 2 ^ (J + 1) ≤ 2 * s - 2) := by rw [e, ← c3]; omega
        simp [this]
      unfold Tree.upgradeLoop
      rw [hfr]
      simp only [Bool.not_true, Bool.false_eq_true, ite_false, hnoskip, Bool.not_false, Bool.true_and, hnocont, hcont, Bool.and_false]
      rw [show (iat J o).index = Flat.index J o from rfl, UpgradeComplete.requiredNode_ok C bs t f hNodes J o hspan]
      simp only []
      rw [hnext, upgradeLoop_tail C bs t f hNodes hN (2 * s) sub hsub p ln fuel (s + 2 ^ J) (acc ++ [nodeAt C bs J o]) hrest'
        (List.pairwise_cons.mp hdec).2 hal' (by omega) (by simp at hfuel; omega)]
      simp
    · -- the first new root: connect the replica's tree to it
      subst husq
      rw [← c3] at hlt
      have hnoskip : ¬ ((iat J o).index + (iat J o).factor / 2 < 2 * m) := by rw [hidx, hfac]; omega
      have hcontm : (iat J o).contains (2 * m - 2) = true := by
        rw [iat_contains]
        have e1 : o * 2 ^ (J + 1) = 2 * (o * 2 ^ J) := by rw [two_pow_succ]; ring
        have e2 : (o + 1) * 2 ^ (J + 1) = 2 * ((o + 1) * 2 ^ J) := by rw [two_pow_succ]; ring
        have h1 : o * 2 ^ (J + 1) ≤ 2 * m - 2 := by rw [e1, ← c3]; omega
        have h2 : 2 * m - 2 + 2 ≤ (o + 1) * 2 ^ (J + 1) := by rw [e2]; omega
        simp [h1, h2]
      have hleaf : 2 * m - 2 = 2 * (m - 1) := by omega
      have hnew : Iter.new (2 * (m - 1)) = iat 0 (m - 1) := new_even (m - 1)
      -- the root is the ancestor of leaf m − 1 at level J
      have hanc : (m - 1) / 2 ^ J = o := by
        apply div_eq_of_span
        · rw [← c3]; omega
        · omega
      have hgs := grow_rightSibs J o gs m _ hg rfl (by rw [← c3]; exact hlt)
      have hcw := connectWalk_honest C bs t f hNodes m hm0 sub hsub p J o hspan J 0 80 acc (by omega) (by simpa using hanc)
        (by
          have h4 : 2 ^ J ≤ (o + 1) * 2 ^ J := Nat.le_mul_of_pos_left _ (Nat.succ_pos _)
          have h5 : 2 ^ J < 2 ^ 64 := by omega
          have := (Nat.pow_lt_pow_iff_right (by decide : 1 < 2)).mp h5
          omega)
      simp only [Nat.pow_zero, Nat.div_one] at hcw
      unfold Tree.upgradeLoop
      rw [hfr]
      rw [hleaf] at hcontm
      simp only [Bool.not_true, Bool.false_eq_true, ite_false, hnoskip, Bool.not_false, Bool.true_and, hleaf, hcontm, ite_true, hnew]
      rw [show (iat J o).index = Flat.index J o from rfl, hcw]
      simp only []
      rw [hnext, upgradeLoop_tail C bs t f hNodes hN (2 * m) sub hsub p ln fuel (s + 2 ^ J) _ hrest'
        (List.pairwise_cons.mp hdec).2 hal' (by omega) (by simp at hfuel; omega), ← hgs]
      simp

/-- **the writer's answer to "upgrade me from `m` to your length"** is the honest position list with its signature -/
theorem create_growth_proof (C : Crypto) (bs : Array Bytes) (t : Tree) (f : File) (hT : RootsOK C bs t.changeset)
    (hNodes : NodesOK C bs t f) (hN : bs.size < 2 ^ 64) (m : Nat) (hm0 : 0 < m) (hmn : m < bs.size) (sig : Bytes) (hsig : t.signature = some sig)
    (us : List (Nat × Nat)) (hup : Up m 0 (rootsStack bs.size).reverse us) :
    t.createValuelessProof f none none none (some ⟨m, bs.size - m⟩)
      = .ok ⟨t.fork, none, none, none, some ⟨m, bs.size - m, us.map (fun q => nodeAt C bs q.1 q.2), [], sig⟩⟩ := by
  have hlen : t.length = bs.size := hT.length
  have hl64 : (rootsStack bs.size).reverse.length < 80 := by
    have := rootsStack_length_log 64 bs.size hN
    simp only [List.length_reverse]; omega
  have hloop := upgradeLoop_up C bs t f hNodes hN m hm0 hmn (2 * bs.size) (Nat.le_refl _) {} (rootsStack bs.size).reverse 80 0 [] us
    (cover_roots bs.size) (rootsStack_rev_dec bs.size) (align_zero _) hup hl64
  have hnew : Iter.new 0 = iat 0 0 := new_even 0
  have hc1 : ¬ (m * 2 ≥ m * 2 + (bs.size - m) * 2 ∨ m * 2 + (bs.size - m) * 2 > 2 * bs.size) := by omega
  have hto : m * 2 + (bs.size - m) * 2 = 2 * bs.size := by omega
  have hfrm : m * 2 = 2 * m := by omega
  have hto' : 2 * m + (bs.size - m) * 2 = 2 * bs.size := by omega
  have hc1' : ¬ (bs.size - m = 0 ∨ 2 * bs.size < 2 * bs.size) := by omega
  have hdec : decide (2 * m = 0) = false := by simp; omega
  unfold Tree.createValuelessProof
  have hle : ¬ (bs.size ≤ m) := by omega
  have hdec' : decide (m = 0) = false := by simp; omega
  simp only [hlen, hfrm, hto', ge_iff_le, gt_iff_lt, Nat.mul_eq_zero, OfNat.ofNat_ne_zero, or_false, hc1', ite_false,
    Option.isSome_some, Option.isSome_none, Bool.false_and, Bool.not_false, ite_true,
    Tree.upgradeProof, hnew, hdec, hloop, List.nil_append, Nat.lt_irrefl, hsig]
  simp [hle, hdec', hloop, hsig]

theorem grow_bound : ∀ (gs : List (Nat × Nat)) (L E : Nat), Grow gs L E → ∀ q ∈ gs, (q.2 + 1) * 2 ^ q.1 ≤ E := by
  intro gs L E hg
  induction hg with
  | nil => intro q hq; cases hq
  | cons J M E rest _ hfit _ ih =>
    intro q hq
    rcases List.mem_cons.mp hq with rfl | hq
    · have : (M + 1) * 2 ^ J = M * 2 ^ J + 2 ^ J := by ring
      simp only; omega
    · exact ih q hq

theorem up_bound (m n : Nat) : ∀ (ln : List (Nat × Nat)) (s : Nat) (us : List (Nat × Nat)), Cover ln s n → Up m s ln us →
    ∀ q ∈ us, (q.2 + 1) * 2 ^ q.1 ≤ n := by
  intro ln
  induction ln with
  | nil =>
    intro s us hc hup q hq
    cases hup with
    | plain => cases hq
  | cons p ln ih =>
    intro s us hc hup q hq
    obtain ⟨d, o⟩ := p
    have hrest : Cover ln ((o + 1) * 2 ^ d) n := by
      cases hc with
      | cons _ _ _ _ _ _ hr => exact hr
    rcases hup.inv with ⟨_, _, hup'⟩ | ⟨_, husq⟩ | ⟨gs, _, _, _, hg, husq⟩
    · exact ih _ us hrest hup' q hq
    · subst husq; exact Cover.bound hc q hq
    · subst husq
      rcases List.mem_append.mp hq with h1 | h1
      · exact Nat.le_trans (grow_bound gs _ _ hg q h1) hrest.le
      · exact Cover.bound hrest q h1

/-- the honest upgrade in terms of the final log is the one in terms of the writer's log at that moment -/
theorem honestGrowth_extract (C : Crypto) (bs : Array Bytes) (n : Nat) (hn : n ≤ bs.size) (fork m : Nat) (us : List (Nat × Nat)) (sig : Bytes)
    (hup : Up m 0 (rootsStack n).reverse us) :
    honestGrowth C (bs.extract 0 n) fork m n us sig = honestGrowth C bs fork m n us sig := by
  simp only [honestGrowth]
  congr 3
  apply List.map_congr_left
  intro q hq
  exact nodeAt_extract C bs n hn q.1 q.2 (up_bound m n _ 0 us (cover_roots n) hup q hq)

end HC.Growth
