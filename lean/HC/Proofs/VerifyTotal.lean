import HC.Proofs.Verify
/-!
`verify_upgrade` and `verify_proof` return a value or an error for **every** proof — they never panic
and never loop: each loop of the Rust has a measure that the inputs bound.

* the root loop: the iterator's index grows in every round (`nextTree` jumps past the right edge
  `mu` of the current subtree, and merging in `append_root` never moves that edge to the left), and the
  loop stops once the index reaches `to`;
* the grow loop consumes one queued node per round;
* the descent for additional nodes halves the iterator's factor (a power of two) per round.
-/
namespace HC.Tree
open HC.Codec HC.Flat

/-- the right edge of the iterator's subtree (in flat-index units, exclusive of the +1) -/
def mu (it : Iter) : Nat := it.index + it.factor / 2

/-- the factor is a power of two, at least 2 -/
def Pow2 (it : Iter) : Prop := ∃ k, it.factor = 2 ^ (k + 1)

theorem pow2_new (i : Nat) : Pow2 (Iter.new i) := by
  unfold Iter.new
  split
  · exact ⟨depth i, rfl⟩
  · exact ⟨0, rfl⟩

theorem factor_next (it : Iter) : it.next.factor = it.factor := rfl
theorem factor_prev (it : Iter) : it.prev.factor = it.factor := by unfold Iter.prev; split <;> rfl
theorem factor_sibling (it : Iter) : it.sibling.factor = it.factor := by
  unfold Iter.sibling; split
  · exact factor_next it
  · exact factor_prev it
theorem factor_parent (it : Iter) : it.parent.factor = it.factor * 2 := by unfold Iter.parent; split <;> rfl

theorem pow2_sibling (it : Iter) (h : Pow2 it) : Pow2 it.sibling := by
  obtain ⟨k, hk⟩ := h; exact ⟨k, by rw [factor_sibling, hk]⟩

theorem pow2_parent (it : Iter) (h : Pow2 it) : Pow2 it.parent := by
  obtain ⟨k, hk⟩ := h
  exact ⟨k + 1, by rw [factor_parent, hk]; simp [Nat.pow_succ]⟩

theorem pow2_leftChild (it : Iter) (h : Pow2 it) : Pow2 it.leftChild := by
  obtain ⟨k, hk⟩ := h
  unfold Iter.leftChild
  split
  · exact ⟨k, hk⟩
  · rename_i hne
    cases k with
    | zero => exact absurd hk hne
    | succ k =>
      refine ⟨k, ?_⟩
      simp only [hk]
      rw [Nat.pow_succ]; omega

/-! ### the right edge never moves left when climbing -/

theorem mu_sibling_parent (it : Iter) : mu it ≤ mu it.sibling.parent := by
  unfold mu Iter.sibling Iter.isLeft Iter.parent
  by_cases hl : it.offset % 2 = 0
  · have h1 : (it.offset + 1) % 2 = 1 := by omega
    simp only [hl, decide_true, ite_true, Iter.next, h1]
    omega
  · simp only [hl, decide_false, Bool.false_eq_true, ite_false, Iter.prev]
    by_cases h0 : it.offset = 0
    · omega
    · have h1 : ¬ ((it.offset - 1) % 2 = 1) := by omega
      simp only [h0, ite_false, h1]
      omega

theorem mu_sibling_sibling (it : Iter) : mu it ≤ mu it.sibling.sibling := by
  unfold mu Iter.sibling Iter.isLeft
  by_cases hl : it.offset % 2 = 0
  · have h1 : ¬ ((it.offset + 1) % 2 = 0) := by omega
    simp only [hl, decide_true, ite_true, Iter.next, h1, decide_false, Bool.false_eq_true, ite_false, Iter.prev]
    have : ¬ (it.offset + 1 = 0) := by omega
    simp only [this, ite_false]
    omega
  · simp only [hl, decide_false, Bool.false_eq_true, ite_false, Iter.prev]
    by_cases h0 : it.offset = 0
    · omega
    · have h1 : (it.offset - 1) % 2 = 0 := by omega
      simp only [h0, ite_false, h1, decide_true, ite_true, Iter.next]
      omega

theorem mergeLoop_iter (C : Crypto) (fuel : Nat) : ∀ (rroots nodes : List Node) (it : Iter), Pow2 it →
    mu it ≤ mu (mergeLoop C fuel rroots nodes it).2.2 ∧ Pow2 (mergeLoop C fuel rroots nodes it).2.2 := by
  induction fuel with
  | zero => intro rroots nodes it hp; simp only [mergeLoop]; exact ⟨Nat.le_refl _, hp⟩
  | succ fuel ih =>
    intro rroots nodes it hp
    match rroots with
    | [] => simp only [mergeLoop]; exact ⟨Nat.le_refl _, hp⟩
    | [a] => simp only [mergeLoop]; exact ⟨Nat.le_refl _, hp⟩
    | a :: b :: rest =>
      simp only [mergeLoop]
      split
      · exact ⟨mu_sibling_sibling it, pow2_sibling _ (pow2_sibling _ hp)⟩
      · obtain ⟨i1, i2⟩ := ih (⟨it.sibling.parent.index, a.length + b.length, parentHash C a b⟩ :: rest)
          (⟨it.sibling.parent.index, a.length + b.length, parentHash C a b⟩ :: nodes) it.sibling.parent
          (pow2_parent _ (pow2_sibling _ hp))
        exact ⟨Nat.le_trans (mu_sibling_parent it) i1, i2⟩

theorem appendRoot_iter (C : Crypto) (cs : Changeset) (n : Node) (it : Iter) (hp : Pow2 it) :
    mu it ≤ mu (appendRoot C cs n it).2 ∧ Pow2 (appendRoot C cs n it).2 := by
  simp only [appendRoot]
  exact mergeLoop_iter C _ _ _ it hp

theorem nextTree_index (it : Iter) : it.nextTree.index = mu it + 1 := rfl

/-! ### the grow loop -/

def NodeQueue.count (q : NodeQueue) : Nat := q.nodes.length + (if q.extra.isSome then 1 else 0)

theorem shift_count (q : NodeQueue) (i : Nat) (n : Node) (q' : NodeQueue) (h : q.shift i = .ok (n, q')) :
    q'.count + 1 = q.count := by
  unfold NodeQueue.shift at h
  unfold NodeQueue.count
  split at h
  · rename_i e he
    split at h
    · cases h; simp [he]
    · split at h
      · cases h
      · rename_i n0 ns hns
        split at h
        · cases h
        · cases h; simp [he, hns]
  · rename_i he
    split at h
    · cases h
    · rename_i n0 ns hns
      split at h
      · cases h
      · cases h; simp [he, hns]

theorem growLoop_notPanic (C : Crypto) (rootIndex : Nat) (fuel : Nat) : ∀ (cs : Changeset) (it : Iter) (q : NodeQueue),
    q.count < fuel → NotPanic (growLoop C rootIndex fuel cs it q)
      ∧ ∀ r, growLoop C rootIndex fuel cs it q = .ok r → r.2.1.index = rootIndex := by
  induction fuel with
  | zero => intro cs it q h; omega
  | succ fuel ih =>
    intro cs it q hq
    unfold growLoop
    split
    · rename_i hidx
      exact ⟨by simp [NotPanic], fun r hr => by cases hr; exact hidx⟩
    · simp only []
      cases hs : q.shift it.sibling.index with
      | error e =>
        refine ⟨?_, fun r hr => by cases hr⟩
        have := shift_ne_panic q it.sibling.index
        rw [hs] at this
        simpa [NotPanic] using this
      | ok p =>
        obtain ⟨n, q'⟩ := p
        have hc := shift_count q _ n q' hs
        exact ih _ _ q' (by omega)

/-! ### `full_root` -/

theorem fullRootLoop_index (fuel : Nat) : ∀ (it : Iter) (i : Nat), it.index < i →
    it.index ≤ (Iter.fullRootLoop fuel it i).index ∧ (Iter.fullRootLoop fuel it i).index < i := by
  induction fuel with
  | zero => intro it i h; exact ⟨Nat.le_refl _, h⟩
  | succ fuel ih =>
    intro it i h
    unfold Iter.fullRootLoop
    split
    · rename_i hgt
      obtain ⟨i1, i2⟩ := ih ⟨it.index + it.factor / 2, it.offset / 2, it.factor * 2⟩ i (by simp only; omega)
      exact ⟨by simp only at i1; omega, i2⟩
    · exact ⟨Nat.le_refl _, h⟩

theorem fullRoot_index (it : Iter) (i : Nat) (h : (it.fullRoot i).1 = true) :
    it.index ≤ (it.fullRoot i).2.index ∧ (it.fullRoot i).2.index < i := by
  unfold Iter.fullRoot at h ⊢
  split
  · rename_i hc; simp [hc] at h
  · rename_i hc
    simp only [Bool.or_eq_true, decide_eq_true_eq, not_or] at hc
    exact fullRootLoop_index 70 it i (by omega)

/-! ### the root loop of `verify_upgrade` -/

theorem upgradeRoots_notPanic (C : Crypto) (to : Nat) (fuel : Nat) : ∀ (st : UpState),
    0 < fuel → to + 1 ≤ st.it.index + fuel → Pow2 st.it → NotPanic (upgradeRoots C to fuel st) := by
  induction fuel with
  | zero => intro st h; omega
  | succ fuel ih =>
    intro st _ hb hp
    unfold upgradeRoots
    cases hfr : st.it.fullRoot to with
    | mk full it =>
      simp only []
      cases full with
      | false => simp [NotPanic]
      | true =>
        simp only [Bool.not_true, Bool.false_eq_true, ite_false]
        have hfi := fullRoot_index st.it to (by rw [hfr])
        rw [hfr] at hfi
        simp only at hfi
        have hfuel : 0 < fuel := by omega
        have hpit : Pow2 it := by
          -- `full_root` only climbs to parents
          have : ∀ (fl : Nat) (x : Iter) (i : Nat), Pow2 x → Pow2 (Iter.fullRootLoop fl x i) := by
            intro fl
            induction fl with
            | zero => intro x i hx; exact hx
            | succ fl ihl =>
              intro x i hx
              unfold Iter.fullRootLoop
              split
              · apply ihl
                obtain ⟨k, hk⟩ := hx
                exact ⟨k + 1, by simp only [hk, Nat.pow_succ]⟩
              · exact hx
          have e : it = (st.it.fullRoot to).2 := by rw [hfr]
          rw [e]
          unfold Iter.fullRoot
          split
          · exact hp
          · exact this 70 st.it to hp
        split
        · -- the replica already has this root
          apply ih _ hfuel
          · simp only [nextTree_index, mu]; omega
          · exact ⟨0, rfl⟩
        · split
          · -- grow the last root up to this one
            have hg := growLoop_notPanic C it.index (st.q.nodes.length + 3) st.cs
              (Iter.new (st.cs.roots.getLast?.getD default).index) st.q
              (by unfold NodeQueue.count; split <;> omega)
            cases hgl : growLoop C it.index (st.q.nodes.length + 3) st.cs
                (Iter.new (st.cs.roots.getLast?.getD default).index) st.q with
            | error e =>
              have := hg.1
              rw [hgl] at this
              simpa [NotPanic] using this
            | ok r =>
              obtain ⟨cs', it', q'⟩ := r
              have hidx := hg.2 _ hgl
              simp only at hidx
              simp only []
              apply ih _ hfuel
              · simp only [nextTree_index, mu]; omega
              · exact ⟨0, rfl⟩
          · -- a new root from the proof
            cases hs : st.q.shift it.index with
            | error e =>
              have := shift_ne_panic st.q it.index
              rw [hs] at this
              simpa [NotPanic] using this
            | ok r =>
              obtain ⟨n, q'⟩ := r
              simp only []
              have ha := appendRoot_iter C st.cs n it hpit
              apply ih _ hfuel
              · simp only [nextTree_index]
                have : mu it ≤ mu (appendRoot C st.cs n it).2 := ha.1
                unfold mu at this ⊢
                omega
              · exact ⟨0, rfl⟩

/-! ### additional nodes -/

theorem extraSiblings_pow2 (C : Crypto) (fuel : Nat) : ∀ (cs : Changeset) (it : Iter) (ex : List Node), Pow2 it →
    Pow2 (extraSiblings C fuel cs it ex).2.1 := by
  induction fuel with
  | zero => intro cs it ex hp; simp only [extraSiblings]; exact hp
  | succ fuel ih =>
    intro cs it ex hp
    cases ex with
    | nil => simp only [extraSiblings]; exact hp
    | cons n ex =>
      simp only [extraSiblings]
      split
      · exact ih _ _ _ (appendRoot_iter C cs n it.sibling (pow2_sibling it hp)).2
      · exact pow2_sibling it hp

theorem descendTo_notPanic (target : Nat) : ∀ (k fuel : Nat) (it : Iter), it.factor = 2 ^ (k + 1) → k < fuel →
    NotPanic (descendTo target fuel it) ∧ ∀ r, descendTo target fuel it = .ok r → Pow2 r := by
  intro k
  induction k with
  | zero =>
    intro fuel it hf hk
    obtain ⟨fuel, rfl⟩ : ∃ f, fuel = f + 1 := ⟨fuel - 1, by omega⟩
    unfold descendTo
    have h2 : it.factor = 2 := by simpa using hf
    split
    · exact ⟨by simp [NotPanic], fun r hr => by cases hr; exact ⟨0, hf⟩⟩
    · simp [h2, NotPanic]
  | succ k ih =>
    intro fuel it hf hk
    obtain ⟨fuel, rfl⟩ : ∃ f, fuel = f + 1 := ⟨fuel - 1, by omega⟩
    unfold descendTo
    split
    · exact ⟨by simp [NotPanic], fun r hr => by cases hr; exact ⟨k + 1, hf⟩⟩
    · have hpos : 0 < 2 ^ k := Nat.pow_pos (by decide)
      have hf2 : it.factor = 2 ^ k * 2 * 2 := by rw [hf, Nat.pow_succ, Nat.pow_succ]
      have hne : ¬ it.factor = 2 := by omega
      simp only [hne, ite_false]
      apply ih fuel it.leftChild _ (by omega)
      have hlc : it.leftChild.factor = it.factor / 2 := by
        unfold Iter.leftChild; simp only [hne, ite_false]
      rw [hlc, hf2, Nat.pow_succ]; omega

theorem lt_two_pow_succ (k : Nat) : k < 2 ^ (k + 1) + 1 := by
  have := Nat.lt_two_pow_self (n := k + 1)
  omega

theorem extraRest_notPanic (C : Crypto) : ∀ (ex : List Node) (cs : Changeset) (it : Iter), Pow2 it →
    NotPanic (extraRest C cs it ex) := by
  intro ex
  induction ex with
  | nil => intro cs it _; simp [extraRest, NotPanic]
  | cons n ex ih =>
    intro cs it hp
    obtain ⟨k, hk⟩ := hp
    obtain ⟨d1, d2⟩ := descendTo_notPanic n.index k (it.factor + 1) it hk (by rw [hk]; exact lt_two_pow_succ k)
    simp only [extraRest]
    cases hd : descendTo n.index (it.factor + 1) it with
    | error e =>
      rw [hd] at d1
      simpa [NotPanic] using d1
    | ok it1 =>
      simp only []
      have hp1 := d2 it1 hd
      exact ih _ _ (pow2_sibling _ (appendRoot_iter C cs n it1 hp1).2)

/-! ### `verify_upgrade` and `verify_proof` -/

theorem checkSignature_notPanic (C : Crypto) (fork : Nat) (u : DataUpgrade) (pk : Bytes) (consumed : Bool) (cs : Changeset) :
    NotPanic (checkSignature C fork u pk consumed cs) := by
  unfold checkSignature
  simp only []
  split
  · simp [NotPanic]
  · split <;> simp [NotPanic]

theorem verifyUpgrade_notPanic (C : Crypto) (fork : Nat) (u : DataUpgrade) (blockRoot : Option Node) (pk : Bytes)
    (cs : Changeset) : NotPanic (verifyUpgrade C fork u blockRoot pk cs) := by
  unfold verifyUpgrade
  simp only []
  apply andThen_notPanic
  · apply upgradeRoots_notPanic
    · omega
    · simp only [Iter.new]; omega
    · exact pow2_new 0
  · intro st _
    split
    · simp [NotPanic]
    · rename_i last _
      apply andThen_notPanic
      · apply extraRest_notPanic
        exact extraSiblings_pow2 C _ _ _ _ (pow2_new _)
      · intro x _
        exact checkSignature_notPanic C fork u pk _ _

theorem requiredNode_notPanic (t : Tree) (f : File) (i : Nat) : NotPanic (t.requiredNode f i) := by
  unfold Tree.requiredNode
  cases t.node? f i <;> simp [NotPanic]

/-- **C09, verification side.**  `verify_proof` returns a changeset or an error for every proof, every
    tree state and every key: it never panics and none of its loops runs out of fuel. -/
theorem verifyProof_notPanic (C : Crypto) (t : Tree) (f : File) (p : Proof) (pk : Bytes) :
    NotPanic (verifyProof C t f p pk) := by
  unfold verifyProof
  have h1 := verifyTree_notPanic C p.block p.hash p.seek t.changeset
  cases hv : verifyTree C p.block p.hash p.seek t.changeset with
  | error e =>
    rw [hv] at h1
    simpa [NotPanic] using h1
  | ok r =>
    obtain ⟨root, cs⟩ := r
    simp only []
    cases hu : p.upgrade with
    | none =>
      simp only []
      cases root with
      | none => simp [NotPanic]
      | some r =>
        simp only []
        have hr := requiredNode_notPanic t f r.index
        cases hreq : t.requiredNode f r.index with
        | error e => rw [hreq] at hr; simpa [NotPanic] using hr
        | ok v => simp only []; split <;> simp [NotPanic]
    | some u =>
      simp only []
      have h2 := verifyUpgrade_notPanic C p.fork u root pk cs
      cases hvu : verifyUpgrade C p.fork u root pk cs with
      | error e =>
        rw [hvu] at h2
        simpa [NotPanic] using h2
      | ok r2 =>
        obtain ⟨consumed, cs'⟩ := r2
        simp only []
        cases hun : (if consumed = true then none else root) with
        | none => simp [NotPanic]
        | some r =>
          simp only []
          have hr := requiredNode_notPanic t f r.index
          cases hreq : t.requiredNode f r.index with
          | error e => rw [hreq] at hr; simpa [NotPanic] using hr
          | ok v => simp only []; split <;> simp [NotPanic]

end HC.Tree
