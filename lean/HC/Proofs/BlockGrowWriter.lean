import HC.Proofs.BlockGrow
/-!
The combined proof of `BlockGrow` is the **writer's own answer** (C03): `create_valueless_proof` for the request
"block `i` with `k` nodes, upgrade from `m`" on a writer whose log has `n > m` blocks.  The block part is computed first
(as for a block request alone); because the local proof then already has its `nodes`, the "use the sub tree" branches of
`upgrade_proof` are dead and the upgrade part is the one of an upgrade request alone.
-/
namespace HC.BlockGrowWriter
open HC HC.Codec HC.Flat HC.Tree HC.RefTree HC.RefProof HC.Sound HC.Offsets HC.TreeStore HC.Complete HC.UpgradeSound HC.CreateTotal
  HC.Replica HC.Growth HC.HashReq

/-- with the block's nodes already in the local proof, `connectWalk` never looks at the sub tree -/
theorem connectWalk_nosub (t : Tree) (f : File) (ix : Option Indexed) (sk : Bool) (sub root target : Nat) (p : LocalProof)
    (hp : p.nodes.isNone = false) :
    ∀ (fuel : Nat) (it : Iter) (acc : List Node),
      t.connectWalk f true ix sk sub root target fuel it acc p = t.connectWalk f false none false 0 root target fuel it acc p := by
  intro fuel
  induction fuel with
  | zero => intro it acc; rfl
  | succ fuel ih =>
    intro it acc
    unfold Tree.connectWalk
    simp only [hp, Bool.and_false, Bool.false_and, Bool.false_eq_true, ite_false, Bool.true_and]
    split
    · rfl
    · split
      · cases t.requiredNode f it.sibling.index with
        | error e => rfl
        | ok n => simp only []; exact ih _ _
      · exact ih _ _

theorem connectWalk_keeps (t : Tree) (f : File) (root target : Nat) (p : LocalProof) :
    ∀ (fuel : Nat) (it : Iter) (acc : List Node) (r : List Node × LocalProof),
      t.connectWalk f false none false 0 root target fuel it acc p = .ok r → r.2 = p := by
  intro fuel
  induction fuel with
  | zero => intro it acc r h; cases h
  | succ fuel ih =>
    intro it acc r h
    unfold Tree.connectWalk at h
    simp only [Bool.false_and, Bool.false_eq_true, ite_false] at h
    split at h
    · cases h; rfl
    · split at h
      · cases hq : t.requiredNode f it.sibling.index with
        | error e => rw [hq] at h; cases h
        | ok n => rw [hq] at h; exact ih _ _ _ h
      · exact ih _ _ _ h

theorem upgradeLoop_nosub (t : Tree) (f : File) (ix : Option Indexed) (sk : Bool) (frm tt sub : Nat) (p : LocalProof)
    (hp : p.nodes.isNone = false) :
    ∀ (fuel : Nat) (it : Iter) (hasUp : Bool) (acc : List Node),
      t.upgradeLoop f true ix sk frm tt sub fuel it hasUp acc p = t.upgradeLoop f false none false frm tt 0 fuel it hasUp acc p := by
  intro fuel
  induction fuel with
  | zero => intro it hasUp acc; rfl
  | succ fuel ih =>
    intro it hasUp acc
    unfold Tree.upgradeLoop
    simp only [hp, Bool.and_false, Bool.false_and, Bool.false_eq_true, ite_false, Bool.true_and]
    split
    · rfl
    · split
      · exact ih _ _ _
      · split
        · rw [connectWalk_nosub t f ix sk sub _ _ p hp]
          cases hq : t.connectWalk f false none false 0 (it.fullRoot tt).2.index (frm - 2) 80 (Iter.new (frm - 2)) acc p with
          | error e => rfl
          | ok r =>
            have := connectWalk_keeps t f _ _ p _ _ _ r hq
            obtain ⟨r1, r2⟩ := r
            simp only [] at this ⊢
            subst this
            exact ih _ _ _
        · cases t.requiredNode f (it.fullRoot tt).2.index with
          | error e => rfl
          | ok n => simp only []; exact ih _ _ _

/-- **the writer's answer to "block `i` with `k` nodes and an upgrade from `m`"** (block below `m`, its `k`-th ancestor a
    full node inside the first `m` blocks): the block's reference sibling path and the honest position list with the
    signature -/
theorem create_blockgrowth_proof (C : Crypto) (bs : Array Bytes) (t : Tree) (f : File) (hT : RootsOK C bs t.changeset)
    (hNodes : NodesOK C bs t f) (hN : bs.size < 2 ^ 64) (m : Nat) (hm0 : 0 < m) (hmn : m < bs.size) (sig : Bytes) (hsig : t.signature = some sig)
    (us : List (Nat × Nat)) (hup : Up m 0 (rootsStack bs.size).reverse us) (i k : Nat) (hi : i < m) (hk : (i / 2 ^ k + 1) * 2 ^ k ≤ m) :
    t.createValuelessProof f (some ⟨i, k⟩) none none (some ⟨m, bs.size - m⟩)
      = .ok ⟨t.fork, some ⟨i, sibPath C bs 0 i k⟩, none, none, some ⟨m, bs.size - m, us.map (fun q => nodeAt C bs q.1 q.2), [], sig⟩⟩ := by
  have hlen : t.length = bs.size := hT.length
  have hk' : (i / 2 ^ k + 1) * 2 ^ k ≤ bs.size := by omega
  have hi' : i < bs.size := by omega
  have hk64 : k < 64 := by
    have h1 : 2 ^ k ≤ (i / 2 ^ k + 1) * 2 ^ k := Nat.le_mul_of_pos_left _ (Nat.succ_pos _)
    have h2 : 2 ^ k < 2 ^ 64 := Nat.lt_of_le_of_lt (Nat.le_trans h1 hk') hN
    exact (Nat.pow_lt_pow_iff_right (by decide)).mp h2
  have hnew : Iter.new (i * 2) = iat 0 i := by rw [Nat.mul_comm]; exact new_even i
  have hroot := nodesToRoot_go bs.size k 80 0 i (by omega) (by simpa using hk')
  simp only [Nat.zero_add] at hroot
  have hnewroot : Iter.new (Flat.index k (i / 2 ^ k)) = iat k (i / 2 ^ k) := new_index k _ (by omega)
  have hcont : (iat k (i / 2 ^ k)).contains (i * 2) = true := by
    rw [iat_contains]
    have h1 : i / 2 ^ k * 2 ^ k ≤ i := Nat.div_mul_le_self i (2 ^ k)
    have h2 : i < (i / 2 ^ k + 1) * 2 ^ k := by
      have := Nat.lt_succ_iff.mpr (Nat.le_refl (i / 2 ^ k))
      exact (Nat.div_lt_iff_lt_mul (pow_pos' k)).mp this
    have e1 : i / 2 ^ k * 2 ^ (k + 1) = 2 * (i / 2 ^ k * 2 ^ k) := by rw [pow_succ2]; ring
    have e2 : (i / 2 ^ k + 1) * 2 ^ (k + 1) = 2 * ((i / 2 ^ k + 1) * 2 ^ k) := by rw [pow_succ2]; ring
    rw [e1, e2]
    have : 2 * (i / 2 ^ k * 2 ^ k) ≤ i * 2 ∧ i * 2 + 2 ≤ 2 * ((i / 2 ^ k + 1) * 2 ^ k) := by omega
    simp [this.1, this.2]
  have hgo := blockProof_go C bs t f hNodes (2 * t.length) {} k 80 0 i [] (by omega) (by simpa using hk')
  simp only [Nat.zero_add, List.nil_append] at hgo
  have hntr : nodesToRoot (i * 2) k (2 * bs.size) = .ok (Flat.index k (i / 2 ^ k)) := by
    simp only [nodesToRoot, hnew, hroot]
  have hbsp : t.blockAndSeekProof f (some ⟨true, i * 2, k, i⟩) false (2 * t.length) (Flat.index k (i / 2 ^ k)) {}
      = .ok { nodes := some (sibPath C bs 0 i k) } := by
    simp only [Tree.blockAndSeekProof, hnewroot, hcont, Bool.not_true, Bool.false_eq_true, ite_false, hnew, hgo]
  rw [hlen] at hbsp
  have hl64 : (rootsStack bs.size).reverse.length < 80 := by
    have := rootsStack_length_log 64 bs.size hN
    simp only [List.length_reverse]; omega
  have hpn : ({ nodes := some (sibPath C bs 0 i k) } : LocalProof).nodes.isNone = false := rfl
  have hloop0 := upgradeLoop_up C bs t f hNodes hN m hm0 hmn (2 * bs.size) (Nat.le_refl _) { nodes := some (sibPath C bs 0 i k) } (rootsStack bs.size).reverse 80 0 [] us
    (cover_roots bs.size) (FullRoots.rootsStack_rev_dec bs.size) (align_zero _) hup hl64
  have hloop : t.upgradeLoop f true (some ⟨true, i * 2, k, i⟩) false (2 * m) (2 * bs.size) (Flat.index k (i / 2 ^ k)) 80 (iat 0 0) false [] { nodes := some (sibPath C bs 0 i k) }
      = .ok (true, [] ++ us.map (fun q => nodeAt C bs q.1 q.2), { nodes := some (sibPath C bs 0 i k) }) := by
    rw [upgradeLoop_nosub t f _ _ _ _ _ _ hpn, ← upgradeLoop_nosub t f none false _ _ (2 * bs.size) _ hpn]
    exact hloop0
  have hnew0 : Iter.new 0 = iat 0 0 := new_even 0
  have hfrm : m * 2 = 2 * m := by omega
  have hto' : 2 * m + (bs.size - m) * 2 = 2 * bs.size := by omega
  have hc1' : ¬ (bs.size - m = 0 ∨ 2 * bs.size < 2 * bs.size) := by omega
  have hdec : decide (2 * m = 0) = false := by simp; omega
  have hle : ¬ (bs.size ≤ m) := by omega
  have hdec' : decide (m = 0) = false := by simp; omega
  have hun : decide (i < m) = true := by simp [hi]
  unfold Tree.createValuelessProof
  simp only [hlen, hfrm, hto', ge_iff_le, gt_iff_lt, Nat.mul_eq_zero, OfNat.ofNat_ne_zero, or_false, hc1', ite_false,
    Option.isSome_some, Option.isSome_none, Bool.false_and, Bool.not_false, ite_true, hun, hntr, hbsp, Bool.not_true, Bool.false_eq_true,
    Tree.upgradeProof, hnew0, hdec, hloop, List.nil_append, Nat.lt_irrefl, hsig]
  simp [hle, hdec', hloop, hsig, hun, hntr, hbsp]

end HC.BlockGrowWriter
