import HC.Model.Proof
/-! Basic facts about the verification side: totality of the node queue and of the climb,
    completeness of the climb for sibling lists, and "a refused proof changes nothing". -/
namespace HC.Tree
open HC.Codec HC.Flat

theorem shift_length (q : NodeQueue) (i : Nat) (n : Node) (q' : NodeQueue) (h : q.shift i = .ok (n, q')) :
    q'.length = q.length - 1 := by
  unfold NodeQueue.shift at h
  split at h
  · split at h
    · cases h; rfl
    · split at h
      · cases h
      · split at h
        · cases h
        · cases h; rfl
  · split at h
    · cases h
    · split at h
      · cases h
      · cases h; rfl

theorem shift_ne_panic (q : NodeQueue) (i : Nat) : q.shift i ≠ .error .panic := by
  unfold NodeQueue.shift
  split
  · split
    · simp
    · split
      · simp
      · split <;> simp
  · split
    · simp
    · split <;> simp

/-- the climb of `verify_tree` never panics and never runs out of fuel, whatever the peer sent -/
theorem climb_ne_panic (C : Crypto) (fuel : Nat) (q : NodeQueue) (it : Iter) (cur : Node) (rn : List Node)
    (hf : q.length < fuel) : climb C fuel q it cur rn ≠ .error .panic := by
  induction fuel generalizing q it cur rn with
  | zero => omega
  | succ fuel ih =>
    unfold climb
    split
    · simp
    · rename_i hq
      simp only []
      cases hs : q.shift it.sibling.index with
      | error e =>
        intro h
        have := shift_ne_panic q it.sibling.index
        rw [hs] at this
        cases e <;> simp_all
      | ok p =>
        obtain ⟨n, q'⟩ := p
        have hl := shift_length q _ n q' hs
        exact ih _ _ _ _ (by rw [hl]; omega)

def NotPanic {α : Type} (r : R α) : Prop := r ≠ .error .panic

theorem andThen_notPanic {α β : Type} (r : R α) (f : α → R β) (hr : NotPanic r) (hf : ∀ a, r = .ok a → NotPanic (f a)) :
    NotPanic (andThen r f) := by
  unfold andThen
  cases r with
  | error e => cases e <;> simp_all [NotPanic]
  | ok a => exact hf a rfl

theorem seekHalf_notPanic (C : Crypto) (seek : Option DataSeek) (rn : List Node) : NotPanic (seekHalf C seek rn) := by
  unfold seekHalf
  cases seek with
  | none => simp [NotPanic]
  | some s =>
    simp only []
    cases hn : s.nodes with
    | nil => simp [NotPanic]
    | cons n0 rest =>
      simp only []
      apply andThen_notPanic
      · exact shift_ne_panic _ _
      · intro ⟨node, q⟩ _
        apply andThen_notPanic
        · exact climb_ne_panic C _ _ _ _ _ (by omega)
        · intro ⟨root, rn'⟩ _; simp [NotPanic]

theorem mainHalf_notPanic (C : Crypto) (value : Option Bytes) (index : Nat) (nodes : List Node) (root : Option Node)
    (rn : List Node) : NotPanic (mainHalf C value index nodes root rn) := by
  unfold mainHalf
  simp only []
  apply andThen_notPanic
  · cases value with
    | some v => simp [NotPanic]
    | none => exact shift_ne_panic _ _
  · intro ⟨node, q⟩ _
    exact climb_ne_panic C _ _ _ _ _ (by omega)

/-- `verify_tree` is total: it returns a root or an error, never a panic, for every proof -/
theorem verifyTree_notPanic (C : Crypto) (block : Option DataBlock) (hash : Option DataHash) (seek : Option DataSeek)
    (cs : Changeset) : NotPanic (verifyTree C block hash seek cs) := by
  unfold verifyTree
  simp only []
  generalize untrustedOf block hash = u
  generalize noSeekOf seek = ns
  by_cases hc : (u.isNone && ns) = true
  · simp [NotPanic, hc]
  · rw [if_neg hc]
    apply andThen_notPanic
    · exact seekHalf_notPanic C seek _
    · intro ⟨root, rn⟩ _
      cases u with
      | none => simp [NotPanic]
      | some v =>
        obtain ⟨value, index, nodes⟩ := v
        simp only []
        apply andThen_notPanic
        · exact mainHalf_notPanic C _ _ _ _ _
        · intro ⟨r, rn'⟩ _; simp [NotPanic]

end HC.Tree

namespace HC.Core
open HC.Codec HC.Tree

/-- a proof for another fork is refused without touching anything -/
theorem apply_fork_mismatch (C : Crypto) (c : Core) (d : Disk) (p : Proof) (h : p.fork ≠ c.tree.fork) :
    (c.verifyAndApply C d p).result = .ok false ∧ (c.verifyAndApply C d p).journal = []
      ∧ (c.verifyAndApply C d p).core = c ∧ (c.verifyAndApply C d p).events = [] := by
  simp [verifyAndApply, h]

/-- a proof that fails verification is answered with that error, and nothing is written, nothing is
    changed in memory, no event is emitted -/
theorem apply_verify_error (C : Crypto) (c : Core) (d : Disk) (p : Proof) (e : Fail)
    (h : c.tree.verifyProof C d.tree p c.publicKey = .error e) :
    (c.verifyAndApply C d p).result = (if p.fork ≠ c.tree.fork then .ok false else .error e)
      ∧ (c.verifyAndApply C d p).journal = [] ∧ (c.verifyAndApply C d p).core = c
      ∧ (c.verifyAndApply C d p).events = [] := by
  unfold verifyAndApply
  by_cases hf : p.fork ≠ c.tree.fork
  · simp [hf]
  · simp [hf, h]

theorem finishApply_not_false (c : Core) (ol : Oplog.State) (header : Oplog.Header) (bf : Bitfield) (j01 : List SOp)
    (p : Proof) (bu : Option Oplog.BitfieldUpdate) (r : R Tree) : (finishApply c ol header bf j01 p bu r).result ≠ .ok false := by
  cases r <;> simp [finishApply]

theorem finishApply_events (c : Core) (ol : Oplog.State) (header : Oplog.Header) (bf : Bitfield) (j01 : List SOp)
    (p : Proof) (bu : Option Oplog.BitfieldUpdate) (r : R Tree) (h : (finishApply c ol header bf j01 p bu r).result = .ok true) :
    (finishApply c ol header bf j01 p bu r).events = appliedEvents p bu := by
  cases r with
  | error e => simp [finishApply] at h
  | ok t => simp [finishApply]

theorem applyVerified_not_false (c : Core) (p : Proof) (cs : Changeset) (j0 : List SOp) (bu : Option Oplog.BitfieldUpdate) :
    (applyVerified c p cs j0 bu).result ≠ .ok false := by
  unfold applyVerified
  exact finishApply_not_false _ _ _ _ _ _ _ _

/-- whenever `verify_and_apply_proof` answers `false`, the journal is empty and the core unchanged -/
theorem apply_false_noop (C : Crypto) (c : Core) (d : Disk) (p : Proof)
    (h : (c.verifyAndApply C d p).result = .ok false) :
    (c.verifyAndApply C d p).journal = [] ∧ (c.verifyAndApply C d p).core = c ∧ (c.verifyAndApply C d p).events = [] := by
  unfold verifyAndApply at h ⊢
  by_cases hf : p.fork ≠ c.tree.fork
  · simp [hf]
  · simp only [hf, ite_false] at h ⊢
    cases hv : c.tree.verifyProof C d.tree p c.publicKey with
    | error e => simp [hv] at h
    | ok cs =>
      simp only [hv] at h ⊢
      by_cases hc : c.tree.commitable cs = true
      · simp only [hc, Bool.not_true, Bool.false_eq_true, ite_false] at h ⊢
        cases hd : dataStep c d p cs with
        | error e => simp [hd] at h
        | ok pr =>
          obtain ⟨j0, bu⟩ := pr
          simp only [hd] at h
          by_cases he : encodable cs = true
          · simp only [he, ite_true] at h
            exact absurd h (applyVerified_not_false c p cs j0 bu)
          · simp [he] at h
      · simp [hc]

/-- an error answer before the commit stage leaves the core and the storage untouched -/
theorem apply_dataStep_error (C : Crypto) (c : Core) (d : Disk) (p : Proof) (cs : Changeset) (e : Fail)
    (hf : p.fork = c.tree.fork) (hv : c.tree.verifyProof C d.tree p c.publicKey = .ok cs)
    (hc : c.tree.commitable cs = true) (hd : dataStep c d p cs = .error e) :
    (c.verifyAndApply C d p).result = .error e ∧ (c.verifyAndApply C d p).journal = []
      ∧ (c.verifyAndApply C d p).core = c := by
  simp [verifyAndApply, hf, hv, hc, hd]

end HC.Core
