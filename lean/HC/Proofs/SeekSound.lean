import HC.Proofs.Sound
import HC.Proofs.CreateTotal
/-!
Soundness of the sections of a proof that `Sound.block_proof_sound` leaves out (C04): hash-only proofs, and proofs
with a **seek section** next to a block or hash section (no upgrade).

`verify_tree` hashes the seek nodes up to their root first; that root then waits in the queue of the block / hash climb
as its *extra* node, and the climb's loop (`while q.length > 0`) does not end before it has been consumed as a
sibling.  So the seek root is authenticated by the same comparison with a stored node as the block, and with it —
`climb_sound` again — every hash of the seek section.  Sizes: a parent's hash covers the *sum* of its children's
sizes, so the sizes of the two bottom nodes of a hash or seek section are not authenticated individually (what C04's
quantifier excludes); the theorems say: if the bottom node's size is the writer's, every node is the writer's.
-/
namespace HC.SeekSound
open HC HC.Codec HC.Flat HC.Tree HC.RefTree HC.RefProof HC.Sound HC.CreateTotal HC.TreeStore

/-- a queue with an extra node behaves like the plain queue with that node inserted where the climb takes it -/
theorem climb_extra (C : Crypto) (x : Node) : ∀ (nodes : List Node) (fuel : Nat) (it : Iter) (cur : Node) (rn : List Node) (root : Node) (rn' : List Node),
    climb C fuel ⟨nodes, some x, nodes.length + 1⟩ it cur rn = .ok (root, rn') →
    ∃ j, j ≤ nodes.length ∧ climb C fuel (plainQueue (nodes.take j ++ x :: nodes.drop j)) it cur rn = .ok (root, rn') := by
  intro nodes
  induction nodes with
  | nil =>
    intro fuel it cur rn root rn' h
    refine ⟨0, Nat.le_refl _, ?_⟩
    cases fuel with
    | zero => simp [climb] at h
    | succ fuel =>
      simp only [climb, List.length_nil, Nat.zero_add, Nat.one_ne_zero, ite_false, NodeQueue.shift] at h
      by_cases hx : x.index = it.sibling.index
      · simp only [hx, ite_true] at h
        simp only [List.take_nil, List.drop_nil, List.nil_append, climb, plainQueue, List.length_cons, List.length_nil,
          Nat.zero_add, Nat.one_ne_zero, ite_false, NodeQueue.shift, hx, ne_eq, not_true_eq_false]
        exact h
      · simp [hx] at h
  | cons n ns ih =>
    intro fuel it cur rn root rn' h
    cases fuel with
    | zero => simp [climb] at h
    | succ fuel =>
      have hlen : ¬ ((n :: ns).length + 1 = 0) := by simp
      simp only [climb, hlen, ite_false, NodeQueue.shift] at h
      by_cases hx : x.index = it.sibling.index
      · -- the extra node is taken now
        simp only [hx, ite_true] at h
        refine ⟨0, Nat.zero_le _, ?_⟩
        have hq : (⟨n :: ns, none, (n :: ns).length + 1 - 1⟩ : NodeQueue) = plainQueue (n :: ns) := by simp [plainQueue]
        rw [hq] at h
        simp only [List.take_zero, List.drop_zero, List.nil_append, climb, plainQueue, List.length_cons, ne_eq,
          Nat.add_one_ne_zero, not_false_eq_true, ite_false, NodeQueue.shift, hx, not_true_eq_false]
        simp only [plainQueue, List.length_cons] at h
        exact h
      · simp only [hx, ite_false] at h
        by_cases hn : n.index = it.sibling.index
        · simp only [hn, ne_eq, not_true_eq_false, ite_false] at h
          have hq : (⟨ns, some x, (n :: ns).length + 1 - 1⟩ : NodeQueue) = ⟨ns, some x, ns.length + 1⟩ := by simp
          rw [hq] at h
          obtain ⟨j, hj, hc⟩ := ih fuel _ _ _ root rn' h
          refine ⟨j + 1, by simp only [List.length_cons]; omega, ?_⟩
          simp only [List.take_succ_cons, List.drop_succ_cons, List.cons_append, climb, plainQueue, List.length_cons, ne_eq,
            Nat.add_one_ne_zero, not_false_eq_true, ite_false, NodeQueue.shift, hn, not_true_eq_false]
          simp only [plainQueue] at hc
          have hl : (ns.take j ++ x :: ns.drop j).length + 1 - 1 = (ns.take j ++ x :: ns.drop j).length := by omega
          rw [hl]
          exact hc
        · simp [hn] at h

theorem requiredNode_node? (t : Tree) (f : File) (i : Nat) (v : Node) (h : t.requiredNode f i = .ok v) : t.node? f i = some v := by
  unfold requiredNode at h
  cases hn : t.node? f i with
  | none => simp [hn] at h
  | some w => simp [hn] at h; rw [h]

/-- **hash-only proofs**: the first node of the section is the requested one and carries the writer's hash; if its
    size is the writer's, every other node of the section is the writer's node -/
theorem hash_proof_sound (C : Crypto) (bs : Array Bytes) (t : Tree) (f : File) (pk : Bytes) (p : Proof) (hsec : DataHash)
    (cs : Changeset) (hb : p.block = none) (hh : p.hash = some hsec) (hs : p.seek = none) (hu : p.upgrade = none)
    (hcan : Canon hsec.index) (hauth : StoreAuthentic C bs t f) (hv : t.verifyProof C f p pk = .ok cs) :
    Collision C ∨ ∃ n0 rest d o, hsec.nodes = n0 :: rest ∧ hsec.index = Flat.index d o ∧ n0.index = hsec.index
      ∧ n0.hash = (RefTree.node C bs d o).2
      ∧ (n0.length = (RefTree.node C bs d o).1 → ∀ n ∈ rest, ∃ dn on, n = nodeAt C bs dn on) := by
  obtain ⟨d, o, _, hidx, hnew⟩ := canon_new hsec.index hcan
  unfold verifyProof at hv
  simp only [hb, hh, hs, hu, verifyTree, untrustedOf, noSeekOf, Option.isNone_some, Bool.false_and, Bool.false_eq_true,
    ite_false, seekHalf, andThen, mainHalf, hnew, plainQueue_eq] at hv
  cases hn : hsec.nodes with
  | nil => rw [hn] at hv; simp [NodeQueue.shift, plainQueue] at hv
  | cons n0 rest =>
    rw [hn] at hv
    by_cases hi : n0.index = (iat d o).index
    · rw [shift_plain n0 rest _ hi] at hv
      simp only [] at hv
      cases hc : climb C ((plainQueue rest).length + 1) (plainQueue rest) (iat d o) n0 (n0 :: t.changeset.rnodes) with
      | error e => rw [hc] at hv; simp at hv
      | ok pr =>
        obtain ⟨root, rn'⟩ := pr
        rw [hc] at hv
        simp only [] at hv
        cases hreq : t.requiredNode f root.index with
        | error e => rw [hreq] at hv; simp at hv
        | ok v =>
          rw [hreq] at hv
          simp only [] at hv
          by_cases hne : v.hash ≠ root.hash
          · simp [hne] at hv
          · have heq : v.hash = root.hash := by simpa using hne
            have hi' : n0.index = Flat.index d o := hi
            obtain ⟨hridx, hsound⟩ := climb_sound C bs rest _ d o n0 _ root rn' hc hi'
            have hnode := requiredNode_node? t f _ v hreq
            rw [hridx] at hnode
            have hrh : root.hash = (RefTree.node C bs (d + rest.length) (o / 2 ^ rest.length)).2 := by
              rw [← heq]; exact hauth _ _ _ hnode
            rcases hsound hrh with hcol | ⟨h1, h2⟩
            · exact Or.inl hcol
            · exact Or.inr ⟨n0, rest, d, o, rfl, hidx, by rw [hi', hidx], h1, fun hl => (h2 hl).2⟩
    · rw [shift_plain_ne n0 rest _ hi] at hv
      simp at hv

/-- **block + seek proofs**: the block is the writer's, the block section's nodes are the writer's, and the seek
    section is authenticated through its root, which the block climb consumes as a sibling: its bottom node carries
    the writer's hash, and if that node's size is the writer's, every node of the seek section is the writer's -/
theorem block_seek_sound (C : Crypto) (bs : Array Bytes) (t : Tree) (f : File) (pk : Bytes) (p : Proof) (b : DataBlock) (s : DataSeek)
    (n0 : Node) (srest : List Node) (cs : Changeset) (hb : p.block = some b) (hs : p.seek = some s) (hsn : s.nodes = n0 :: srest)
    (hu : p.upgrade = none) (hcan : Canon n0.index) (hauth : StoreAuthentic C bs t f) (hv : t.verifyProof C f p pk = .ok cs) :
    Collision C ∨ (b.value = bs.getD b.index [] ∧ (∀ n ∈ b.nodes, ∃ dn on, n = nodeAt C bs dn on)
      ∧ ∃ d o, n0.index = Flat.index d o ∧ n0.hash = (RefTree.node C bs d o).2
        ∧ (n0.length = (RefTree.node C bs d o).1 → ∀ n ∈ srest, ∃ dn on, n = nodeAt C bs dn on)) := by
  obtain ⟨d, o, _, hidx, hnew⟩ := canon_new n0.index hcan
  have hnewb : Iter.new (b.index * 2) = iat 0 b.index := by rw [Nat.mul_comm]; exact new_even b.index
  unfold verifyProof at hv
  simp only [hb, hs, hu, verifyTree, untrustedOf, noSeekOf, hsn, List.isEmpty_cons, Option.isNone_some, Bool.false_and,
    Bool.false_eq_true, ite_false, seekHalf, andThen, hnew, plainQueue_eq] at hv
  have hi : n0.index = (iat d o).index := hidx
  rw [shift_plain n0 srest _ hi] at hv
  simp only [] at hv
  cases hcs : climb C ((plainQueue srest).length + 1) (plainQueue srest) (iat d o) n0 (n0 :: t.changeset.rnodes) with
  | error e => rw [hcs] at hv; simp at hv
  | ok pr =>
    obtain ⟨sroot, rn1⟩ := pr
    rw [hcs] at hv
    simp only [mainHalf, hnewb, andThen] at hv
    have hq : NodeQueue.new b.nodes (some sroot) = ⟨b.nodes, some sroot, b.nodes.length + 1⟩ := by simp [NodeQueue.new]
    rw [hq] at hv
    simp only [] at hv
    cases hcb : climb C (b.nodes.length + 1 + 1) ⟨b.nodes, some sroot, b.nodes.length + 1⟩ (iat 0 b.index)
        (blockNode C (iat 0 b.index).index b.value) (blockNode C (iat 0 b.index).index b.value :: rn1) with
    | error e => rw [hcb] at hv; simp at hv
    | ok pr2 =>
      obtain ⟨root, rn2⟩ := pr2
      rw [hcb] at hv
      simp only [] at hv
      cases hreq : t.requiredNode f root.index with
      | error e => rw [hreq] at hv; simp at hv
      | ok v =>
        rw [hreq] at hv
        simp only [] at hv
        by_cases hne : v.hash ≠ root.hash
        · simp [hne] at hv
        · have heq : v.hash = root.hash := by simpa using hne
          obtain ⟨j, hj, hplain⟩ := climb_extra C sroot b.nodes _ _ _ _ root rn2 hcb
          generalize hL : b.nodes.take j ++ sroot :: b.nodes.drop j = L at hplain
          obtain ⟨hridx, _⟩ := climb_sound C bs L _ 0 b.index _ _ root rn2 hplain rfl
          simp only [Nat.zero_add] at hridx
          have hnode := requiredNode_node? t f _ v hreq
          rw [hridx] at hnode
          have hrh : root.hash = (RefTree.node C bs L.length (b.index / 2 ^ L.length)).2 := by
            rw [← heq]; exact hauth _ _ _ hnode
          have hix : (iat 0 b.index).index = Flat.index 0 b.index := rfl
          rw [hix] at hplain
          rcases block_sound C bs b.index b.value L _ _ root rn2 hplain hrh with hcol | ⟨h1, _, h3⟩
          · exact Or.inl hcol
          · -- the seek root is one of the authenticated siblings
            have hsin : sroot ∈ L := by rw [← hL]; simp
            obtain ⟨dn, on, hsr⟩ := h3 sroot hsin
            obtain ⟨hsidx, hssound⟩ := climb_sound C bs srest _ d o n0 _ sroot rn1 hcs hidx
            have hpos : Flat.index dn on = Flat.index (d + srest.length) (o / 2 ^ srest.length) := by
              rw [← hsidx, hsr]; rfl
            obtain ⟨e1, e2⟩ := index_inj _ _ _ _ hpos
            have hsh : sroot.hash = (RefTree.node C bs (d + srest.length) (o / 2 ^ srest.length)).2 := by
              rw [hsr, e1, e2]; rfl
            have hbn : ∀ n ∈ b.nodes, ∃ dn on, n = nodeAt C bs dn on := by
              intro n hn
              apply h3 n
              rw [← hL]
              have := List.take_append_drop j b.nodes
              rw [← this] at hn
              rcases List.mem_append.mp hn with h | h
              · exact List.mem_append.mpr (Or.inl h)
              · exact List.mem_append.mpr (Or.inr (List.mem_cons_of_mem _ h))
            rcases hssound hsh with hcol | ⟨g1, g2⟩
            · exact Or.inl hcol
            · exact Or.inr ⟨h1, hbn, d, o, hidx, g1, fun hl => (g2 hl).2⟩

/-- **hash + seek proofs** (the usual shape: the hash section starts with the requested node): the requested node carries
    the writer's hash; if its size is the writer's, every node of the hash section and the seek root are the writer's,
    so the bottom node of the seek section carries the writer's hash, and if that node's size is the writer's too,
    every node of the seek section is the writer's -/
theorem hash_seek_sound (C : Crypto) (bs : Array Bytes) (t : Tree) (f : File) (pk : Bytes) (p : Proof) (hsec : DataHash) (s : DataSeek)
    (m0 : Node) (hrest : List Node) (n0 : Node) (srest : List Node) (cs : Changeset) (hb : p.block = none) (hh : p.hash = some hsec)
    (hhn : hsec.nodes = m0 :: hrest) (hs : p.seek = some s) (hsn : s.nodes = n0 :: srest) (hu : p.upgrade = none)
    (hcan : Canon n0.index) (hcanh : Canon hsec.index) (hauth : StoreAuthentic C bs t f) (hv : t.verifyProof C f p pk = .ok cs) :
    Collision C ∨ ∃ dh oh d o, hsec.index = Flat.index dh oh ∧ n0.index = Flat.index d o ∧
      ((∃ sroot : Node, sroot.index = hsec.index ∧ sroot.hash = (RefTree.node C bs dh oh).2 ∧ n0.hash = (RefTree.node C bs d o).2
          ∧ (n0.length = (RefTree.node C bs d o).1 → ∀ n ∈ srest, ∃ dn on, n = nodeAt C bs dn on))
        ∨ (m0.index = hsec.index ∧ m0.hash = (RefTree.node C bs dh oh).2
          ∧ (m0.length = (RefTree.node C bs dh oh).1 → (∀ n ∈ hrest, ∃ dn on, n = nodeAt C bs dn on)
              ∧ (Collision C ∨ (n0.hash = (RefTree.node C bs d o).2
                ∧ (n0.length = (RefTree.node C bs d o).1 → ∀ n ∈ srest, ∃ dn on, n = nodeAt C bs dn on)))))) := by
  obtain ⟨d, o, _, hidx, hnew⟩ := canon_new n0.index hcan
  obtain ⟨dh, oh, _, hidxh, hnewh⟩ := canon_new hsec.index hcanh
  unfold verifyProof at hv
  simp only [hb, hh, hs, hu, verifyTree, untrustedOf, noSeekOf, hsn, List.isEmpty_cons, Option.isNone_some, Bool.false_and,
    Bool.false_eq_true, ite_false, seekHalf, andThen, hnew, plainQueue_eq] at hv
  have hi : n0.index = (iat d o).index := hidx
  rw [shift_plain n0 srest _ hi] at hv
  simp only [] at hv
  cases hcs : climb C ((plainQueue srest).length + 1) (plainQueue srest) (iat d o) n0 (n0 :: t.changeset.rnodes) with
  | error e => rw [hcs] at hv; simp at hv
  | ok pr =>
    obtain ⟨sroot, rn1⟩ := pr
    rw [hcs] at hv
    obtain ⟨hsidx, hssound⟩ := climb_sound C bs srest _ d o n0 _ sroot rn1 hcs hidx
    simp only [mainHalf, hnewh, andThen, hhn] at hv
    have hq : NodeQueue.new (m0 :: hrest) (some sroot) = ⟨m0 :: hrest, some sroot, (m0 :: hrest).length + 1⟩ := by simp [NodeQueue.new]
    rw [hq] at hv
    simp only [NodeQueue.shift] at hv
    by_cases hx : sroot.index = (iat dh oh).index
    · -- the seek root is the requested node itself
      simp only [hx, ite_true] at hv
      have hq2 : (⟨m0 :: hrest, none, (m0 :: hrest).length + 1 - 1⟩ : NodeQueue) = plainQueue (m0 :: hrest) := by simp [plainQueue]
      rw [hq2] at hv
      cases hcb : climb C ((m0 :: hrest).length + 1 - 1 + 1) (plainQueue (m0 :: hrest)) (iat dh oh) sroot (sroot :: rn1) with
      | error e => rw [hcb] at hv; simp at hv
      | ok pr2 =>
        obtain ⟨root, rn2⟩ := pr2
        rw [hcb] at hv
        simp only [] at hv
        cases hreq : t.requiredNode f root.index with
        | error e => rw [hreq] at hv; simp at hv
        | ok v =>
          rw [hreq] at hv
          simp only [] at hv
          by_cases hne : v.hash ≠ root.hash
          · simp [hne] at hv
          · have heq : v.hash = root.hash := by simpa using hne
            have hx' : sroot.index = Flat.index dh oh := hx
            obtain ⟨hridx, hsound⟩ := climb_sound C bs (m0 :: hrest) _ dh oh sroot _ root rn2 hcb hx'
            have hnode := requiredNode_node? t f _ v hreq
            rw [hridx] at hnode
            have hrh : root.hash = (RefTree.node C bs (dh + (m0 :: hrest).length) (oh / 2 ^ (m0 :: hrest).length)).2 := by
              rw [← heq]; exact hauth _ _ _ hnode
            rcases hsound hrh with hcol | ⟨h1, _⟩
            · exact Or.inl hcol
            · have hpos : Flat.index dh oh = Flat.index (d + srest.length) (o / 2 ^ srest.length) := by rw [← hsidx, hx']
              obtain ⟨e1, e2⟩ := index_inj _ _ _ _ hpos
              have hsh : sroot.hash = (RefTree.node C bs (d + srest.length) (o / 2 ^ srest.length)).2 := by rw [← e1, ← e2]; exact h1
              rcases hssound hsh with hcol | ⟨g1, g2⟩
              · exact Or.inl hcol
              · exact Or.inr ⟨dh, oh, d, o, hidxh, hidx, Or.inl ⟨sroot, by rw [hx', hidxh], h1, g1, fun hl => (g2 hl).2⟩⟩
    · simp only [hx, ite_false] at hv
      by_cases hm : m0.index = (iat dh oh).index
      · simp only [hm, ne_eq, not_true_eq_false, ite_false] at hv
        have hq3 : (⟨hrest, some sroot, (m0 :: hrest).length + 1 - 1⟩ : NodeQueue) = ⟨hrest, some sroot, hrest.length + 1⟩ := by simp
        rw [hq3] at hv
        cases hcb : climb C ((m0 :: hrest).length + 1 - 1 + 1) ⟨hrest, some sroot, hrest.length + 1⟩ (iat dh oh) m0 (m0 :: rn1) with
        | error e => rw [hcb] at hv; simp at hv
        | ok pr2 =>
          obtain ⟨root, rn2⟩ := pr2
          rw [hcb] at hv
          simp only [] at hv
          cases hreq : t.requiredNode f root.index with
          | error e => rw [hreq] at hv; simp at hv
          | ok v =>
            rw [hreq] at hv
            simp only [] at hv
            by_cases hne : v.hash ≠ root.hash
            · simp [hne] at hv
            · have heq : v.hash = root.hash := by simpa using hne
              have hm' : m0.index = Flat.index dh oh := hm
              obtain ⟨j, hj, hplain⟩ := climb_extra C sroot hrest _ _ _ _ root rn2 hcb
              generalize hL : hrest.take j ++ sroot :: hrest.drop j = L at hplain
              obtain ⟨hridx, hsound⟩ := climb_sound C bs L _ dh oh m0 _ root rn2 hplain hm'
              have hnode := requiredNode_node? t f _ v hreq
              rw [hridx] at hnode
              have hrh : root.hash = (RefTree.node C bs (dh + L.length) (oh / 2 ^ L.length)).2 := by
                rw [← heq]; exact hauth _ _ _ hnode
              rcases hsound hrh with hcol | ⟨h1, h2⟩
              · exact Or.inl hcol
              · refine Or.inr ⟨dh, oh, d, o, hidxh, hidx, Or.inr ⟨by rw [hm', hidxh], h1, fun hl => ?_⟩⟩
                obtain ⟨_, h3⟩ := h2 hl
                have hsin : sroot ∈ L := by rw [← hL]; simp
                obtain ⟨dn, on, hsr⟩ := h3 sroot hsin
                have hpos : Flat.index dn on = Flat.index (d + srest.length) (o / 2 ^ srest.length) := by rw [← hsidx, hsr]; rfl
                obtain ⟨e1, e2⟩ := index_inj _ _ _ _ hpos
                have hsh : sroot.hash = (RefTree.node C bs (d + srest.length) (o / 2 ^ srest.length)).2 := by rw [hsr, e1, e2]; rfl
                refine ⟨fun n hn => ?_, ?_⟩
                · apply h3 n
                  rw [← hL]
                  have := List.take_append_drop j hrest
                  rw [← this] at hn
                  rcases List.mem_append.mp hn with h | h
                  · exact List.mem_append.mpr (Or.inl h)
                  · exact List.mem_append.mpr (Or.inr (List.mem_cons_of_mem _ h))
                · rcases hssound hsh with hcol | ⟨g1, g2⟩
                  · exact Or.inl hcol
                  · exact Or.inr ⟨g1, fun hl2 => (g2 hl2).2⟩
      · simp [hm] at hv

end HC.SeekSound
