import HC.Model.Bitfield
import HC.Model.Core
/-! Bitfield range updates and the incremental maintenance of the contiguous length. -/
namespace HC.Bitfield

theorem getD_setIfInBounds (a : Array Bool) (i j : Nat) (v : Bool) :
    (a.setIfInBounds i v).getD j false = if i = j ∧ i < a.size then v else a.getD j false := by
  simp only [Array.getD_eq_getD_getElem?, Array.getElem?_setIfInBounds]
  by_cases h : i = j
  · subst h
    by_cases h2 : i < a.size
    · simp [h2]
    · simp [h2]
  · simp [h]

theorem size_setBits (bits : Array Bool) (v : Bool) (start n : Nat) :
    (setBits bits v start n).size = bits.size := by
  induction n generalizing bits start with
  | zero => rfl
  | succ n ih => simp [setBits, ih]

theorem getD_setBits (bits : Array Bool) (v : Bool) (start n i : Nat) :
    (setBits bits v start n).getD i false =
      if start ≤ i ∧ i < start + n ∧ i < bits.size then v else bits.getD i false := by
  induction n generalizing bits start with
  | zero =>
    have : ¬ (start ≤ i ∧ i < start + 0 ∧ i < bits.size) := by omega
    simp only [setBits, this, ite_false]
  | succ n ih =>
    simp only [setBits]
    rw [ih, getD_setIfInBounds, Array.size_setIfInBounds]
    by_cases h1 : start = i
    · subst h1
      by_cases h2 : start < bits.size
      · have : ¬ (start + 1 ≤ start ∧ start < start + 1 + n ∧ start < bits.size) := by omega
        simp [this, h2]
      · have : ¬ (start + 1 ≤ start ∧ start < start + 1 + n ∧ start < bits.size) := by omega
        simp [this, h2]
    · by_cases h3 : start + 1 ≤ i ∧ i < start + 1 + n ∧ i < bits.size
      · have : start ≤ i ∧ i < start + (n + 1) ∧ i < bits.size := by omega
        simp [h3, this]
      · have : ¬ (start ≤ i ∧ i < start + (n + 1) ∧ i < bits.size) := by omega
        simp [h3, this, h1]

theorem getD_grow (bits : Array Bool) (n i : Nat) : (grow bits n).getD i false = bits.getD i false := by
  unfold grow
  split
  · simp only [Array.getD_eq_getD_getElem?, Array.getElem?_append, Array.getElem?_replicate]
    by_cases h : i < bits.size
    · simp [h]
    · have : bits[i]? = none := by simp; omega
      simp only [h, ite_false, this]
      split <;> simp
  · rfl

theorem size_grow (bits : Array Bool) (n : Nat) : (grow bits n).size = max bits.size n := by
  unfold grow
  split
  · simp; omega
  · omega

theorem getD_of_size_le (bits : Array Bool) (i : Nat) (h : bits.size ≤ i) : bits.getD i false = false := by
  simp [Array.getD_eq_getD_getElem?]
  have : bits[i]? = none := by simp; omega
  simp [this]

/-- the bits after a range update -/
theorem get_setRange (b : Bitfield) (start len : Nat) (v : Bool) (i : Nat) :
    (b.setRange start len v).get i = if start ≤ i ∧ i < start + len then v else b.get i := by
  unfold setRange get
  simp only
  cases v with
  | true =>
    simp only [ite_true]
    rw [getD_setBits, getD_grow, size_grow]
    by_cases h : start ≤ i ∧ i < start + len
    · have : start ≤ i ∧ i < start + min len (max b.bits.size (start + len) - start) ∧ i < max b.bits.size (start + len) := by
        omega
      simp [h, this]
    · have : ¬ (start ≤ i ∧ i < start + min len (max b.bits.size (start + len) - start) ∧ i < max b.bits.size (start + len)) := by
        omega
      simp [h, this]
  | false =>
    simp only [Bool.false_eq_true, ite_false]
    rw [getD_setBits]
    by_cases h : start ≤ i ∧ i < start + len
    · by_cases h2 : i < b.bits.size
      · have : start ≤ i ∧ i < start + min len (b.bits.size - start) ∧ i < b.bits.size := by omega
        simp [h, this]
      · have : ¬ (start ≤ i ∧ i < start + min len (b.bits.size - start) ∧ i < b.bits.size) := by omega
        rw [if_neg this, if_pos h]
        exact getD_of_size_le _ _ (Nat.le_of_not_lt h2)
    · have : ¬ (start ≤ i ∧ i < start + min len (b.bits.size - start) ∧ i < b.bits.size) := by omega
      simp [h, this]

end HC.Bitfield

namespace HC.Core
open HC.Oplog

/-- `c` is the first index whose block is not held -/
def FirstMissing (b : Bitfield) (c : Nat) : Prop := (∀ i, i < c → b.get i = true) ∧ b.get c = false

theorem scan_spec (b : Bitfield) (fuel c : Nat) (hf : b.bits.size < c + fuel) :
    (∀ i, c ≤ i → i < updateContiguous.scan b fuel c → b.get i = true)
      ∧ b.get (updateContiguous.scan b fuel c) = false ∧ c ≤ updateContiguous.scan b fuel c := by
  induction fuel generalizing c with
  | zero =>
    simp only [updateContiguous.scan]
    refine ⟨fun i h1 h2 => by omega, ?_, Nat.le_refl _⟩
    exact Bitfield.getD_of_size_le _ _ (by omega)
  | succ fuel ih =>
    simp only [updateContiguous.scan]
    split
    · rename_i hc
      obtain ⟨h1, h2, h3⟩ := ih (c + 1) (by omega)
      refine ⟨fun i hi1 hi2 => ?_, h2, by omega⟩
      by_cases hic : i = c
      · subst hic; exact hc
      · exact h1 i (by omega) hi2
    · rename_i hc
      refine ⟨fun i h1 h2 => by omega, by simpa using hc, Nat.le_refl _⟩

/-- C08 — one step of the incremental maintenance: if the hint is the first missing index before a
    range update, `update_contiguous_length` makes it the first missing index after it. -/
theorem updateContiguous_spec (h : Header) (b : Bitfield) (u : BitfieldUpdate)
    (hc : FirstMissing b h.contiguous) (hl : 0 < u.length) :
    FirstMissing (b.setRange u.start u.length (!u.drop))
      (updateContiguous h (b.setRange u.start u.length (!u.drop)) u).contiguous := by
  obtain ⟨hlt, hat⟩ := hc
  unfold updateContiguous
  simp only
  cases hd : u.drop with
  | true =>
    simp only [ite_true, Bool.not_true]
    split
    · rename_i hgt
      refine ⟨fun i hi => ?_, ?_⟩
      · rw [Bitfield.get_setRange]
        have : ¬ (u.start ≤ i ∧ i < u.start + u.length) := by simp at hi; omega
        simp only [this, ite_false]; exact hlt i (by simp at hi; omega)
      · rw [Bitfield.get_setRange]
        have : u.start ≤ u.start ∧ u.start < u.start + u.length := by omega
        simp [this]
    · rename_i hle
      refine ⟨fun i hi => ?_, ?_⟩
      · rw [Bitfield.get_setRange]
        have : ¬ (u.start ≤ i ∧ i < u.start + u.length) := by omega
        simp only [this, ite_false]; exact hlt i hi
      · rw [Bitfield.get_setRange]
        split
        · rfl
        · exact hat
  | false =>
    simp only [Bool.false_eq_true, ite_false, Bool.not_false]
    split
    · rename_i hin
      have hsz : (b.setRange u.start u.length true).bits.size < u.start + u.length + ((b.setRange u.start u.length true).bits.size + 1) := by omega
      obtain ⟨s1, s2, s3⟩ := scan_spec (b.setRange u.start u.length true) _ (u.start + u.length) hsz
      refine ⟨fun i hi => ?_, s2⟩
      by_cases h1 : u.start + u.length ≤ i
      · exact s1 i h1 hi
      · rw [Bitfield.get_setRange]
        by_cases h2 : u.start ≤ i
        · have : u.start ≤ i ∧ i < u.start + u.length := by omega
          simp [this]
        · have : ¬ (u.start ≤ i ∧ i < u.start + u.length) := by omega
          simp only [this, ite_false]; exact hlt i (by omega)
    · rename_i hout
      refine ⟨fun i hi => ?_, ?_⟩
      · rw [Bitfield.get_setRange]
        split
        · rfl
        · exact hlt i hi
      · rw [Bitfield.get_setRange]
        by_cases h1 : u.start ≤ h.contiguous ∧ h.contiguous < u.start + u.length
        · exfalso; omega
        · simp only [h1, ite_false]; exact hat

end HC.Core
