import HC.Proofs.TreeStore
import HC.Proofs.Journal
import HC.Proofs.Bitfield
import HC.Spec.LogSpec
import HC.Proofs.FormatLimits
/-!
C01, live part: every sequence of `append_batch` / `clear` / `get` / `has` / `info` calls on the model
of the crate produces the observations of the abstract log (`LogSpec.Abs`).

`Rep` relates the memory state and the tree and data stores to the abstract log:
roots = reference roots, node lookup = reference tree, bitfield = held set, contiguous hint = first
missing index, and every held block's bytes sit in the data store at the prefix-sum offset.
-/
namespace HC.LiveRefine
open HC HC.Codec HC.Flat HC.Tree HC.RefTree HC.RefProof HC.Offsets HC.TreeStore HC.LogSpec HC.Core HC.Oplog

/-! ### prefix sums and appended blocks -/

theorem psum_eq_take (bs : Array Bytes) (n : Nat) : psum bs n = ((bs.toList.take n).map List.length).sum := by
  induction n with
  | zero => rfl
  | succ n ih =>
    rw [psum, ih, List.take_add_one, sz]
    by_cases hn : n < bs.size
    · have h1 : bs.toList[n]? = some bs[n] := by simp [hn]
      have h2 : bs.getD n [] = bs[n] := by simp [Array.getD_eq_getD_getElem?, hn]
      rw [h1, h2]; simp
    · have h1 : bs.toList[n]? = none := by simp; omega
      have h2 : bs.getD n [] = [] := by
        have : bs[n]? = none := by simp; omega
        simp [Array.getD_eq_getD_getElem?, this]
      rw [h1, h2]; simp

theorem psum_total (bs : Array Bytes) : psum bs bs.size = totalBytes bs := by
  rw [psum_eq_take, totalBytes]
  have : bs.toList.take bs.size = bs.toList := List.take_of_length_le (by simp)
  rw [this]

theorem getD_append_lt (bs : Array Bytes) (l : List Bytes) (i : Nat) (h : i < bs.size) :
    (bs ++ l.toArray).getD i [] = bs.getD i [] := by
  simp [Array.getD_eq_getD_getElem?, Array.getElem?_append_left h]

theorem getD_append_ge (bs : Array Bytes) (l : List Bytes) (j : Nat) :
    (bs ++ l.toArray).getD (bs.size + j) [] = l.getD j [] := by
  simp [Array.getD_eq_getD_getElem?, Array.getElem?_append_right, List.getD_eq_getElem?_getD]

theorem psum_append_le (bs : Array Bytes) (l : List Bytes) (i : Nat) (h : i ≤ bs.size) :
    psum (bs ++ l.toArray) i = psum bs i := by
  induction i with
  | zero => rfl
  | succ i ih => simp only [psum, sz, ih (by omega), getD_append_lt bs l i (by omega)]

theorem sum_take_succ (l : List Bytes) (j : Nat) :
    ((l.take (j + 1)).map List.length).sum = ((l.take j).map List.length).sum + (l.getD j []).length := by
  rw [List.take_add_one, List.map_append, List.sum_append]
  cases h : l[j]? with
  | none => simp [List.getD_eq_getElem?_getD, h]
  | some x => simp [List.getD_eq_getElem?_getD, h]

theorem psum_append_new (bs : Array Bytes) (l : List Bytes) (j : Nat) :
    psum (bs ++ l.toArray) (bs.size + j) = psum bs bs.size + ((l.take j).map List.length).sum := by
  induction j with
  | zero => simpa using psum_append_le bs l bs.size (Nat.le_refl _)
  | succ j ih =>
    rw [← Nat.add_assoc, psum, ih, sz, getD_append_ge, sum_take_succ, Nat.add_assoc]

/-! ### byte offsets from the tree -/

theorem byteOffset_ok (C : Crypto) (bs : Array Bytes) (t : Tree) (f : File) (hT : RootsOK C bs t.changeset)
    (hN : NodesOK C bs t f) (hs : bs.size < 2 ^ 64) (i : Nat) (hi : i < bs.size) :
    t.byteOffset f i = .ok (psum bs i) := by
  have hlen : t.length = bs.size := hT.length
  have hroots : t.roots = (rootsStack bs.size).reverse.map fun p => nodeAt C bs p.1 p.2 := by
    have := congrArg List.reverse hT.roots
    simpa [Tree.changeset, List.map_reverse] using this
  obtain ⟨r, hr, hsum⟩ := go_ok C bs t f hN i hs (rootsStack bs.size).reverse 0 bs.size 0 (cover_roots bs.size)
    (Nat.zero_le _) hi (Nat.le_refl _)
  have hr0 : r = psum bs i := by simp [psum] at hsum; omega
  have hv : t.validateIndex i = .ok (2 * i) := by
    simp [Tree.validateIndex, hlen]; omega
  have hpar : ¬ ((2 * i) % 2 = 1) := by omega
  simp only [Tree.byteOffset, hv, Tree.byteOffsetFromNodes, hpar, ite_false, hroots]
  rw [← hr0]
  simpa using hr

theorem byteRange_ok (C : Crypto) (bs : Array Bytes) (t : Tree) (f : File) (hT : RootsOK C bs t.changeset)
    (hN : NodesOK C bs t f) (hs : bs.size < 2 ^ 64) (i : Nat) (hi : i < bs.size) :
    t.byteRange f i = .ok (psum bs i, sz bs i) := by
  have hlen : t.length = bs.size := hT.length
  have hv : t.validateIndex i = .ok (2 * i) := by
    simp [Tree.validateIndex, hlen]; omega
  have hoff := byteOffset_ok C bs t f hT hN hs i hi
  simp only [Tree.byteOffset, hv] at hoff
  have hleaf := hN 0 i (by simp; omega)
  have hidx : Flat.index 0 i = 2 * i := index_zero i
  rw [hidx] at hleaf
  have hreq : t.requiredNode f (2 * i) = .ok (nodeAt C bs 0 i) := by simp [Tree.requiredNode, hleaf]
  simp only [Tree.byteRange, hv, hreq, hoff]
  simp [nodeAt, RefTree.node, sz]

/-! ### the bitfield searches used by `clear` -/

theorem findSome_range_spec (f : Nat → Option Nat) (n : Nat) :
    (∀ r, (List.range n).findSome? f = some r → ∃ k, k < n ∧ f k = some r ∧ ∀ k', k' < k → f k' = none)
      ∧ ((List.range n).findSome? f = none → ∀ k, k < n → f k = none) := by
  induction n with
  | zero => exact ⟨fun r h => by simp at h, fun _ k hk => by omega⟩
  | succ n ih =>
    rw [List.range_succ, List.findSome?_append]
    obtain ⟨ih1, ih2⟩ := ih
    cases hprev : (List.range n).findSome? f with
    | some r0 =>
      refine ⟨fun r h => ?_, fun h => by simp at h⟩
      simp only [Option.some_or] at h
      obtain ⟨k, hk, hf, hmin⟩ := ih1 r0 hprev
      cases h
      exact ⟨k, by omega, hf, hmin⟩
    | none =>
      have hnone := ih2 hprev
      simp only [Option.none_or, List.findSome?_cons, List.findSome?_nil]
      cases hfn : f n with
      | none =>
        refine ⟨fun r h => by simp at h, fun _ k hk => ?_⟩
        by_cases hkn : k = n
        · subst hkn; exact hfn
        · exact hnone k (by omega)
      | some r1 =>
        refine ⟨fun r h => ?_, fun h => by simp at h⟩
        simp at h; subst h
        exact ⟨n, by omega, hfn, fun k' hk' => hnone k' hk'⟩

theorem indexOfTrue_spec (b : Bitfield) (pos : Nat) :
    (∀ i, b.indexOfTrue pos = some i → pos ≤ i ∧ b.get i = true ∧ ∀ j, pos ≤ j → j < i → b.get j = false)
      ∧ (b.indexOfTrue pos = none → ∀ j, pos ≤ j → b.get j = false) := by
  obtain ⟨s1, s2⟩ := findSome_range_spec (fun k => if b.bits.getD (pos + k) false then some (pos + k) else none) (b.bits.size - pos)
  constructor
  · intro i h
    obtain ⟨k, hk, hf, hmin⟩ := s1 i h
    by_cases hb : b.bits.getD (pos + k) false = true
    · simp only [hb, ite_true] at hf
      cases hf
      refine ⟨by omega, hb, fun j hj1 hj2 => ?_⟩
      have := hmin (j - pos) (by omega)
      have e : pos + (j - pos) = j := by omega
      rw [e] at this
      cases hg : b.bits.getD j false with
      | true => simp [hg] at this
      | false => simpa [Bitfield.get] using hg
    · simp [hb] at hf
  · intro h j hj
    by_cases hlt : j < b.bits.size
    · have := s2 h (j - pos) (by omega)
      have e : pos + (j - pos) = j := by omega
      rw [e] at this
      cases hg : b.bits.getD j false with
      | true => simp [hg] at this
      | false => simpa [Bitfield.get] using hg
    · exact Bitfield.getD_of_size_le _ _ (by omega)

theorem lastIndexOfTrue_spec (b : Bitfield) (pos : Nat) :
    (∀ i, b.lastIndexOfTrue pos = some i → i ≤ pos ∧ b.get i = true ∧ ∀ j, i < j → j ≤ pos → b.get j = false)
      ∧ (b.lastIndexOfTrue pos = none → ∀ j, j ≤ pos → b.get j = false) := by
  unfold Bitfield.lastIndexOfTrue
  by_cases h0 : b.bits.size = 0
  · simp only [h0, ite_true]
    exact ⟨fun i h => by simp at h, fun _ j _ => Bitfield.getD_of_size_le _ _ (by omega)⟩
  · simp only [h0, ite_false]
    generalize htop : min pos (b.bits.size - 1) = top
    obtain ⟨s1, s2⟩ := findSome_range_spec (fun k => if b.bits.getD (top - k) false then some (top - k) else none) (top + 1)
    constructor
    · intro i h
      obtain ⟨k, hk, hf, hmin⟩ := s1 i h
      by_cases hb : b.bits.getD (top - k) false = true
      · simp only [hb, ite_true] at hf
        cases hf
        refine ⟨by omega, hb, fun j hj1 hj2 => ?_⟩
        by_cases hjt : j ≤ top
        · have := hmin (top - j) (by omega)
          have e : top - (top - j) = j := by omega
          rw [e] at this
          cases hg : b.bits.getD j false with
          | true => simp [hg] at this
          | false => simpa [Bitfield.get] using hg
        · exact Bitfield.getD_of_size_le _ _ (by omega)
      · simp [hb] at hf
    · intro h j hj
      by_cases hjt : j ≤ top
      · have := s2 h (top - j) (by omega)
        have e : top - (top - j) = j := by omega
        rw [e] at this
        cases hg : b.bits.getD j false with
        | true => simp [hg] at this
        | false => simpa [Bitfield.get] using hg
      · exact Bitfield.getD_of_size_le _ _ (by omega)

/-! ### the representation invariant -/

/-- sizes the on-disk format can represent -/
def Small (a : Abs) : Prop := a.blocks.size < 2 ^ 64 ∧ totalBytes a.blocks < 2 ^ 64

structure Rep (C : Crypto) (c : Core) (d : Disk) (a : Abs) : Prop where
  writer : c.secret.isSome = a.writable
  tree : RootsOK C a.blocks c.tree.changeset
  nodes : NodesOK C a.blocks c.tree d.tree
  mapwf : MapWF c.tree.unflushed
  bits : ∀ i, c.bitfield.get i = a.held i
  heldLt : ∀ i, a.held i = true → i < a.blocks.size
  contig : FirstMissing c.bitfield c.header.contiguous
  data : ∀ i, a.held i = true → ∀ k, k < sz a.blocks i →
    psum a.blocks i + k < d.data.size ∧ d.data.byte (psum a.blocks i + k) = (a.blocks.getD i []).getD k 0
  small : Small a

/-- the stores a journal leaves alone -/
theorem tree_of_applyAll (d : Disk) (ops : List SOp) (h : ∀ op ∈ ops, op.store ≠ .tree) : (d.applyAll ops).tree = d.tree :=
  Journal.applyAll_other d ops .tree h

theorem data_of_applyAll (d : Disk) (ops : List SOp) (h : ∀ op ∈ ops, op.store ≠ .data) : (d.applyAll ops).data = d.data :=
  Journal.applyAll_other d ops .data h

/-- what `maybeFlush` preserves: the tree's roots, the lookup, the bitfield's bits, the header, the
    secret, and the data store -/
theorem maybeFlush_eq (c : Core) :
    c.maybeFlush = if c.skipFlush = 0 ∨ c.oplog.entriesByteLength ≥ Spec.maxEntriesBytes
      then ({ c with skipFlush := Spec.flushEvery - 1 } : Core).flushAll false
      else ({ c with skipFlush := c.skipFlush - 1 }, []) := by
  simp only [Core.maybeFlush, Core.shouldFlush]
  split <;> simp

theorem maybeFlush_keeps (C : Crypto) (hC : HashWF C) (bs : Array Bytes) (c : Core) (d : Disk)
    (hN : NodesOK C bs c.tree d.tree) (hwf : MapWF c.tree.unflushed) :
    c.maybeFlush.1.tree.changeset = c.tree.changeset ∧ NodesOK C bs c.maybeFlush.1.tree (d.applyAll c.maybeFlush.2).tree
      ∧ MapWF c.maybeFlush.1.tree.unflushed
      ∧ (∀ i, c.maybeFlush.1.bitfield.get i = c.bitfield.get i) ∧ c.maybeFlush.1.header = c.header
      ∧ c.maybeFlush.1.secret = c.secret ∧ (d.applyAll c.maybeFlush.2).data = d.data := by
  rw [maybeFlush_eq]
  split
  · -- flush
    simp only [Core.flushAll]
    obtain ⟨f1, f2, f3⟩ := nodesOK_flush C hC bs c.tree (d.applyAll c.bitfield.flush.2) hwf
      (by rw [tree_of_applyAll _ _ (fun op hop => by rw [Journal.bitfieldFlush_store _ op hop]; decide)]; exact hN)
    have e1 : d.applyAll (c.bitfield.flush.2 ++ c.tree.flush.2 ++ (Oplog.flush c.oplog c.header false).2)
        = ((d.applyAll c.bitfield.flush.2).applyAll c.tree.flush.2).applyAll (Oplog.flush c.oplog c.header false).2 := by
      rw [Journal.applyAll_append, Journal.applyAll_append]
    refine ⟨?_, ?_, ?_, ?_, ?_, ?_, ?_⟩
    · simp [Tree.flush, Tree.changeset]
    · rw [e1, tree_of_applyAll _ _ (fun op hop => by rw [Journal.oplogFlush_store _ _ _ op hop]; decide)]
      exact f1
    · exact f2
    · intro i; simp [Bitfield.flush, Bitfield.get]
    · trivial
    · trivial
    · rw [e1, data_of_applyAll _ _ (fun op hop => by rw [Journal.oplogFlush_store _ _ _ op hop]; decide), f3,
        data_of_applyAll _ _ (fun op hop => by rw [Journal.bitfieldFlush_store _ op hop]; decide)]
  · -- no flush
    exact ⟨rfl, by simpa [Disk.applyAll] using hN, hwf, fun _ => rfl, rfl, rfl, rfl⟩

/-! ### logged entries -/

/-- what one logged entry is, relative to the abstract log before and after it -/
inductive EntryStep (C : Crypto) : Abs → Entry → Abs → Prop
  | append (a : Abs) (batch : List Bytes) (nodes : List Node) (sig : Bytes) (fk : Nat) (hne : batch ≠ []) (hw : a.writable = true)
      (hsig : sig.length = 64)
      (sound : ∀ n ∈ nodes, ∃ d o, n = nodeAt C (a.blocks ++ batch.toArray) d o ∧ (o + 1) * 2 ^ d ≤ a.blocks.size + batch.length)
      (compl : ∀ d o, a.blocks.size < (o + 1) * 2 ^ d → (o + 1) * 2 ^ d ≤ a.blocks.size + batch.length →
        nodeAt C (a.blocks ++ batch.toArray) d o ∈ nodes)
      (hcount : nodes.length ≤ 2 * batch.length + 64) :
      EntryStep C a { treeNodes := nodes, treeUpgrade := some ⟨fk, a.blocks.size, a.blocks.size + batch.length, sig⟩,
                      bitfield := some ⟨false, a.blocks.size, batch.length⟩ } (a.step (.append batch)).1
  | clear (a : Abs) (s e : Nat) (hse : s < e) :
      EntryStep C a { bitfield := some ⟨true, s, e - s⟩ } (a.step (.clear s e)).1


/-- the entries logged since the last flush lead from the log at that flush to the current one -/
inductive Trace (C : Crypto) : Abs → List Entry → Abs → Prop
  | nil (a : Abs) : Trace C a [] a
  | cons (a a1 a2 : Abs) (e : Entry) (es : List Entry) : EntryStep C a e a1 → Small a1 → Trace C a1 es a2 → Trace C a (e :: es) a2


/-! ### reads -/

theorem get_refines (C : Crypto) (c : Core) (d : Disk) (a : Abs) (h : Rep C c d a) (i : Nat) :
    stepC C (c, d) (.get i) = ((c, d), (a.step (.get i)).2) := by
  have hb := h.bits i
  simp only [stepC, Abs.step]
  unfold Core.getBlock
  cases hheld : a.held i with
  | false =>
    simp [hb, hheld, obsOf, Disk.applyAll]
  | true =>
    have hi := h.heldLt i hheld
    have hr := byteRange_ok C a.blocks c.tree d.tree h.tree h.nodes h.small.1 i hi
    simp only [hb, hheld, Bool.not_true, Bool.false_eq_true, ite_false, hr, ite_true]
    by_cases hz : sz a.blocks i = 0
    · have : a.blocks.getD i [] = [] := List.eq_nil_of_length_eq_zero hz
      simp [hz, obsOf, Disk.applyAll, this]
    · have hd := h.data i hheld
      have hread : d.data.read (psum a.blocks i) (sz a.blocks i) = some (a.blocks.getD i []) := by
        have hpos : 0 < sz a.blocks i := by omega
        apply File.read_of_bytes d.data (psum a.blocks i) (a.blocks.getD i [])
        · have := (hd (sz a.blocks i - 1) (by omega)).1
          simp only [sz] at this hpos ⊢; omega
        · intro k hk; exact (hd k hk).2
      simp [hz, hread, obsOf, Disk.applyAll]

theorem has_refines (C : Crypto) (c : Core) (d : Disk) (a : Abs) (h : Rep C c d a) (i : Nat) :
    stepC C (c, d) (.has i) = ((c, d), (a.step (.has i)).2) := by
  simp [stepC, Abs.step, Core.has, h.bits i]

theorem firstMissing_spec (held : Nat → Bool) (fuel c : Nat) :
    (∀ i, c ≤ i → i < firstMissing held fuel c → held i = true) ∧ c ≤ firstMissing held fuel c
      ∧ firstMissing held fuel c ≤ c + fuel ∧ (firstMissing held fuel c < c + fuel → held (firstMissing held fuel c) = false) := by
  induction fuel generalizing c with
  | zero => exact ⟨fun i h1 h2 => by simp [firstMissing] at h2; omega, by simp [firstMissing], by simp [firstMissing], fun h => by simp [firstMissing] at h⟩
  | succ fuel ih =>
    simp only [firstMissing]
    cases hc : held c with
    | true =>
      obtain ⟨i1, i2, i3, i4⟩ := ih (c + 1)
      simp only [ite_true]
      refine ⟨fun i h1 h2 => ?_, by omega, by omega, fun h => i4 (by omega)⟩
      by_cases hic : i = c
      · subst hic; exact hc
      · exact i1 i (by omega) h2
    | false =>
      simp only [Bool.false_eq_true, ite_false]
      exact ⟨fun i h1 h2 => by omega, Nat.le_refl _, by omega, fun _ => hc⟩

theorem info_refines (C : Crypto) (c : Core) (d : Disk) (a : Abs) (h : Rep C c d a) :
    stepC C (c, d) .info = ((c, d), (a.step .info).2) := by
  have hlen : c.tree.length = a.blocks.size := h.tree.length
  have hbytes : c.tree.byteLength = totalBytes a.blocks := h.tree.bytes
  -- the hint is the first missing index
  obtain ⟨f1, _, f3, f4⟩ := firstMissing_spec a.held a.blocks.size 0
  obtain ⟨c1, c2⟩ := h.contig
  have hcl : c.header.contiguous = firstMissing a.held a.blocks.size 0 := by
    generalize hm : firstMissing a.held a.blocks.size 0 = m at f1 f3 f4
    have hm_false : a.held m = false := by
      by_cases hlt : m < 0 + a.blocks.size
      · exact f4 hlt
      · cases hh : a.held m with
        | false => rfl
        | true => have := h.heldLt m hh; omega
    rcases Nat.lt_trichotomy c.header.contiguous m with hlt | heq | hgt
    · have := f1 _ (Nat.zero_le _) hlt
      rw [← h.bits] at this
      rw [c2] at this; cases this
    · exact heq
    · have := c1 m hgt
      rw [h.bits, hm_false] at this; cases this
  have hw : c.secret.isSome = a.writable := h.writer
  simp [stepC, Abs.step, Core.info, hlen, hbytes, hcl, hw]

/-- the flush decision at the end of a mutating call keeps `Rep` -/
theorem maybeFlush_rep (C : Crypto) (hC : HashWF C) (c : Core) (d : Disk) (a : Abs) (h : Rep C c d a) :
    Rep C c.maybeFlush.1 (d.applyAll c.maybeFlush.2) a := by
  obtain ⟨k1, k2, k3, k4, k5, k6, k7⟩ := maybeFlush_keeps C hC a.blocks c d h.nodes h.mapwf
  refine { writer := ?_, tree := ?_, nodes := k2, mapwf := k3, bits := ?_, heldLt := h.heldLt, contig := ?_, data := ?_, small := h.small }
  · rw [k6]; exact h.writer
  · rw [k1]; exact h.tree
  · intro i; rw [k4]; exact h.bits i
  · rw [k5]; exact ⟨fun i hi => by rw [k4]; exact h.contig.1 i hi, by rw [k4]; exact h.contig.2⟩
  · rw [k7]; exact h.data


/-- what a flush (either kind) preserves -/
theorem flushAll_keeps (C : Crypto) (hC : HashWF C) (bs : Array Bytes) (c : Core) (d : Disk) (ct : Bool)
    (hN : NodesOK C bs c.tree d.tree) (hwf : MapWF c.tree.unflushed) :
    (c.flushAll ct).1.tree.changeset = c.tree.changeset ∧ NodesOK C bs (c.flushAll ct).1.tree (d.applyAll (c.flushAll ct).2).tree
      ∧ MapWF (c.flushAll ct).1.tree.unflushed
      ∧ (∀ i, (c.flushAll ct).1.bitfield.get i = c.bitfield.get i) ∧ (c.flushAll ct).1.header = c.header
      ∧ (c.flushAll ct).1.secret = c.secret ∧ (d.applyAll (c.flushAll ct).2).data = d.data := by
  simp only [Core.flushAll]
  obtain ⟨f1, f2, f3⟩ := nodesOK_flush C hC bs c.tree (d.applyAll c.bitfield.flush.2) hwf
    (by rw [tree_of_applyAll _ _ (fun op hop => by rw [Journal.bitfieldFlush_store _ op hop]; decide)]; exact hN)
  have e1 : d.applyAll (c.bitfield.flush.2 ++ c.tree.flush.2 ++ (Oplog.flush c.oplog c.header ct).2)
      = ((d.applyAll c.bitfield.flush.2).applyAll c.tree.flush.2).applyAll (Oplog.flush c.oplog c.header ct).2 := by
    rw [Journal.applyAll_append, Journal.applyAll_append]
  refine ⟨?_, ?_, ?_, ?_, ?_, ?_, ?_⟩
  · simp [Tree.flush, Tree.changeset]
  · rw [e1, tree_of_applyAll _ _ (fun op hop => by rw [Journal.oplogFlush_store _ _ _ op hop]; decide)]
    exact f1
  · exact f2
  · intro i; simp [Bitfield.flush, Bitfield.get]
  · trivial
  · trivial
  · rw [e1, data_of_applyAll _ _ (fun op hop => by rw [Journal.oplogFlush_store _ _ _ op hop]; decide), f3,
      data_of_applyAll _ _ (fun op hop => by rw [Journal.bitfieldFlush_store _ op hop]; decide)]

/-- dropping the secret: the core represents the same log, read-only -/
theorem rep_drop_secret (C : Crypto) (c : Core) (d : Disk) (a : Abs) (h : Rep C c d a) :
    Rep C { c with secret := none, header := { c.header with secret := none } } d { a with writable := false } :=
  { writer := rfl
    tree := h.tree
    nodes := h.nodes
    mapwf := h.mapwf
    bits := h.bits
    heldLt := h.heldLt
    contig := h.contig
    data := h.data
    small := h.small }

/-- `make_read_only`: answers whether it changed anything; the core then represents the same log, read-only -/
theorem makeReadOnly_refines (C : Crypto) (hC : HashWF C) (c : Core) (d : Disk) (a : Abs) (h : Rep C c d a) :
    (stepC C (c, d) .makeReadOnly).2 = (a.step .makeReadOnly).2
      ∧ Rep C (stepC C (c, d) .makeReadOnly).1.1 (stepC C (c, d) .makeReadOnly).1.2 (a.step .makeReadOnly).1 := by
  by_cases hw : a.writable = true
  · have hsome : c.secret.isSome = true := by rw [h.writer]; exact hw
    generalize hc1 : ({ c with secret := none, header := { c.header with secret := none } } : Core) = c1
    have hstep : stepC C (c, d) .makeReadOnly = (((c1.flushAll true).1, d.applyAll (c1.flushAll true).2), Obs.readOnly true) := by
      simp only [stepC, Core.makeReadOnly, hsome, ite_true, hc1, obsOf]
    have habs : a.step .makeReadOnly = ({ a with writable := false }, Obs.readOnly true) := by simp [Abs.step, hw]
    have c1t : c1.tree = c.tree := by rw [← hc1]
    have c1b : c1.bitfield = c.bitfield := by rw [← hc1]
    have c1s : c1.secret = none := by rw [← hc1]
    have c1h : c1.header.contiguous = c.header.contiguous := by rw [← hc1]
    obtain ⟨k1, k2, k3, k4, k5, k6, k7⟩ := flushAll_keeps C hC a.blocks c1 d true (by rw [c1t]; exact h.nodes) (by rw [c1t]; exact h.mapwf)
    rw [hstep, habs]
    refine ⟨rfl, ?_⟩
    exact {
      writer := by show (c1.flushAll true).1.secret.isSome = false; rw [k6, c1s]; rfl
      tree := by show RootsOK C a.blocks _; rw [k1, c1t]; exact h.tree
      nodes := k2
      mapwf := k3
      bits := by intro i; rw [k4, c1b]; exact h.bits i
      heldLt := h.heldLt
      contig := by
        rw [k5, c1h]
        exact ⟨fun i hi => by rw [k4, c1b]; exact h.contig.1 i hi, by rw [k4, c1b]; exact h.contig.2⟩
      data := by rw [k7]; exact h.data
      small := h.small }
  · have hwf : a.writable = false := by simpa using hw
    have hnone : c.secret.isSome = false := by rw [h.writer]; exact hwf
    have hstep : stepC C (c, d) .makeReadOnly = ((c, d), Obs.readOnly false) := by
      simp [stepC, Core.makeReadOnly, hnone, obsOf, Disk.applyAll]
    have habs : a.step .makeReadOnly = (a, Obs.readOnly false) := by simp [Abs.step, hwf]
    rw [hstep, habs]
    exact ⟨rfl, h⟩

/-! ### clear -/

theorem applyAll_nil (d : Disk) : d.applyAll [] = d := rfl
theorem applyAll_one (d : Disk) (op : SOp) : d.applyAll [op] = d.apply op := rfl

theorem del_some (f : File) (off len : Nat) (h : ¬ off > f.size) : ∃ g, f.del off len = some g := by
  unfold File.del
  simp only [h, ite_false]
  split
  · exact ⟨_, rfl⟩
  · split <;> exact ⟨_, rfl⟩

theorem psum_succ_gt (bs : Array Bytes) (i k : Nat) (hk : k < sz bs i) : psum bs i + k < psum bs (i + 1) := by
  simp only [psum]; omega

theorem data_after_del (bs : Array Bytes) (held held' : Nat → Bool) (f g : File) (s' e' : Nat)
    (hdata : ∀ i, held i = true → ∀ k, k < sz bs i → psum bs i + k < f.size ∧ f.byte (psum bs i + k) = (bs.getD i []).getD k 0)
    (hsub : ∀ i, held' i = true → held i = true)
    (hhole : ∀ j, s' ≤ j → j < e' → held' j = false) (hle : s' ≤ e')
    (hg : f.del (psum bs s') (psum bs e' - psum bs s') = some g) :
    ∀ i, held' i = true → ∀ k, k < sz bs i → psum bs i + k < g.size ∧ g.byte (psum bs i + k) = (bs.getD i []).getD k 0 := by
  intro i hi k hk
  obtain ⟨d1, d2⟩ := hdata i (hsub i hi) k hk
  have hmono := psum_mono bs hle
  rcases File.del_spec f g _ _ hg with ⟨hsz, hlow, hhigh, hkeep, hoff⟩ | ⟨_, rfl⟩
  · by_cases hlt : i < s'
    · have h1 := psum_succ_gt bs i k hk
      have h2 := psum_mono bs (show i + 1 ≤ s' by omega)
      exact ⟨by omega, by rw [hlow _ (by omega)]; exact d2⟩
    · have hge : e' ≤ i := by
        by_cases h : e' ≤ i
        · exact h
        · have := hhole i (by omega) (by omega)
          rw [hi] at this; cases this
      have h2 := psum_mono bs hge
      have hidx : psum bs s' + (psum bs e' - psum bs s') ≤ psum bs i + k := by omega
      refine ⟨?_, by rw [hhigh _ hidx]; exact d2⟩
      have := hkeep (by omega)
      omega
  · exact ⟨d1, d2⟩

theorem holeStart_spec (bf : Bitfield) (start : Nat) (hfalse : bf.get start = false) :
    holeStart bf start ≤ start ∧ (∀ j, holeStart bf start ≤ j → j ≤ start → bf.get j = false) := by
  obtain ⟨l1, l2⟩ := lastIndexOfTrue_spec bf start
  unfold holeStart
  cases h : bf.lastIndexOfTrue start with
  | none => exact ⟨Nat.zero_le _, fun j _ hj => l2 h j hj⟩
  | some i =>
    obtain ⟨a1, a2, a3⟩ := l1 i h
    have : i ≠ start := by intro e; rw [e, hfalse] at a2; cases a2
    exact ⟨by simp only; omega, fun j h1 h2 => a3 j (by simp only at h1; omega) h2⟩

theorem holeEnd_spec (bf : Bitfield) (fin len : Nat) (hlen : ∀ i, bf.get i = true → i < len) :
    holeEnd bf fin len ≤ len ∧ min fin len ≤ holeEnd bf fin len ∧ (∀ j, fin ≤ j → j < holeEnd bf fin len → bf.get j = false) := by
  obtain ⟨l1, l2⟩ := indexOfTrue_spec bf fin
  unfold holeEnd
  cases h : bf.indexOfTrue fin with
  | none => exact ⟨Nat.le_refl _, Nat.min_le_right _ _, fun j hj _ => l2 h j hj⟩
  | some i =>
    obtain ⟨a1, a2, a3⟩ := l1 i h
    have := hlen i a2
    exact ⟨by simp only; omega, by simp only; omega, fun j h1 h2 => a3 j h1 h2⟩

/-- a `clear` (with `start < end`) up to its flush decision -/
theorem clear_shape (C : Crypto) (c : Core) (d : Disk) (a : Abs) (h : Rep C c d a) (s e : Nat)
    (hse0 : s < e) (hv : Valid a (.clear s e)) :
    ∃ (c1 : Core) (j01 : List SOp),
      stepC C (c, d) (.clear s e) = ((c1.maybeFlush.1, d.applyAll (j01 ++ c1.maybeFlush.2)), Obs.cleared)
      ∧ Rep C c1 (d.applyAll j01) (a.step (.clear s e)).1
      ∧ (d.applyAll j01).tree = d.tree ∧ (d.applyAll j01).bitfield = d.bitfield
      ∧ c1.bitfield = c.bitfield.setRange s (e - s) false
      ∧ c1.header.tree = c.header.tree ∧ c1.header.secret = c.header.secret ∧ c1.secret = c.secret
      ∧ c1.oplog = (Oplog.appendEntry c.oplog { bitfield := some ⟨true, s, e - s⟩ }).1
      ∧ (d.applyAll j01).oplog = d.oplog.write (Spec.entriesOffset + c.oplog.entriesByteLength)
          (frame (encEntry { bitfield := some ⟨true, s, e - s⟩ }) c.oplog.currentBit false)
      ∧ c1.tree = c.tree
      ∧ (∃ cc, c1.header = { c.header with contiguous := cc })
      ∧ (c.clear d s e).journal = j01 ++ c1.maybeFlush.2
      ∧ (∃ j2, j01 = SOp.write .oplog (Spec.entriesOffset + c.oplog.entriesByteLength) (frame (encEntry { bitfield := some ⟨true, s, e - s⟩ }) c.oplog.currentBit false) :: j2
          ∧ (∀ op ∈ j2, op.store = .data) ∧ j2.length ≤ 1 ∧ (∀ op ∈ j2, ∀ st o b, op ≠ SOp.write st o b)) := by
  have hge : ¬ s ≥ e := by omega
  have hse : s < e := by omega
  have hsn : s < a.blocks.size := hv hse
  -- names for the intermediate values of `Core.clear`
  let held' : Nat → Bool := fun i => a.held i && !(decide (s ≤ i) && decide (i < e))
  generalize hbf : c.bitfield.setRange s (e - s) false = bf
  have hbits' : ∀ i, bf.get i = held' i := by
    intro i
    rw [← hbf, Bitfield.get_setRange, h.bits]
    by_cases hin : s ≤ i ∧ i < s + (e - s)
    · have : s ≤ i ∧ i < e := by omega
      simp [held', hin, this.1, this.2]
    · have : ¬ (s ≤ i ∧ i < e) := by omega
      by_cases h1 : s ≤ i
      · have : ¬ i < e := by omega
        simp [held', hin, h1, this]
        intro _; omega
      · simp [held', hin, h1]
  have hheldLt' : ∀ i, bf.get i = true → i < a.blocks.size := by
    intro i hi
    rw [hbits'] at hi
    have : a.held i = true := by simp [held'] at hi; exact hi.1
    exact h.heldLt i this
  have hsfalse : bf.get s = false := by rw [hbits']; simp [held', hse]
  obtain ⟨hs1, hs2⟩ := holeStart_spec bf s hsfalse
  have hlen : c.tree.length = a.blocks.size := h.tree.length
  obtain ⟨he1, he2, he3⟩ := holeEnd_spec bf e c.tree.length (by rw [hlen]; exact hheldLt')
  generalize hs' : holeStart bf s = s' at hs1 hs2
  generalize he' : holeEnd bf e c.tree.length = e' at he1 he2 he3
  rw [hlen] at he1 he2
  have hs'e' : s' < e' := by omega
  have hhole : ∀ j, s' ≤ j → j < e' → held' j = false := by
    intro j h1 h2
    rw [← hbits']
    by_cases hjs : j ≤ s
    · exact hs2 j h1 hjs
    · by_cases hje : j < e
      · rw [hbits']; simp [held', hje]; intro _; omega
      · exact he3 j (by omega) h2
  have hoff := byteOffset_ok C a.blocks c.tree d.tree h.tree h.nodes h.small.1 s' (by omega)
  have hrng := byteRange_ok C a.blocks c.tree d.tree h.tree h.nodes h.small.1 (e' - 1) (by omega)
  have hend : psum a.blocks (e' - 1) + sz a.blocks (e' - 1) = psum a.blocks e' := by
    have : e' = (e' - 1) + 1 := by omega
    conv => rhs; rw [this, psum]
  have hmono := psum_mono a.blocks (show s' ≤ e' by omega)
  have he0 : ¬ (e' = 0) := by omega
  have hnopanic : ¬ (psum a.blocks (e' - 1) + sz a.blocks (e' - 1) < psum a.blocks s') := by omega
  -- the journal of the oplog entry leaves tree and data alone
  generalize hent : Oplog.appendEntry c.oplog { bitfield := some ⟨true, s, e - s⟩ } = ent
  have hj1 : ∀ op ∈ ent.2, op.store = .oplog := by rw [← hent]; exact Journal.appendEntry_store _ _
  have hd1data : (d.applyAll ent.2).data = d.data := data_of_applyAll _ _ (fun op hop => by rw [hj1 op hop]; decide)
  have hd1tree : (d.applyAll ent.2).tree = d.tree := tree_of_applyAll _ _ (fun op hop => by rw [hj1 op hop]; decide)
  -- the core before the flush decision
  generalize hhd : (if s < c.header.contiguous then { c.header with contiguous := s } else c.header) = hd
  generalize hc1 : ({ c with oplog := ent.1, bitfield := bf, header := hd } : Core) = c1
  have c1tree : c1.tree = c.tree := by rw [← hc1]
  have c1bf : c1.bitfield = bf := by rw [← hc1]
  have c1sec : c1.secret = c.secret := by rw [← hc1]
  have c1hdr : c1.header = if s < c.header.contiguous then { c.header with contiguous := s } else c.header := by rw [← hc1, ← hhd]
  -- the data-store operation
  generalize hj2 : (if psum a.blocks s' > (d.applyAll ent.2).data.size then ([] : List SOp)
      else [SOp.del .data (psum a.blocks s') (psum a.blocks (e' - 1) + sz a.blocks (e' - 1) - psum a.blocks s')]) = j2
  have hj2store : ∀ op ∈ j2, op.store = .data := by
    intro op hop; rw [← hj2] at hop
    split at hop
    · cases hop
    · simp at hop; subst hop; rfl
  have hstep : stepC C (c, d) (.clear s e) =
      ((c1.maybeFlush.1, d.applyAll (ent.2 ++ j2 ++ c1.maybeFlush.2)), Obs.cleared) := by
    simp only [stepC, Core.clear, hge, ite_false, hbf, hs', he', hoff, he0, hrng, hnopanic, hent, hj2, hhd, hc1, obsOf]
  have habs : a.step (.clear s e) = ({ a with held := held' }, Obs.cleared) := by
    simp only [Abs.step, hge, ite_false]
    rfl
  -- the disk before the flush
  have hsplit : d.applyAll (ent.2 ++ j2) = (d.applyAll ent.2).applyAll j2 := by
    rw [Journal.applyAll_append]
  have hd2tree : ((d.applyAll ent.2).applyAll j2).tree = d.tree := by
    rw [tree_of_applyAll _ _ (fun op hop => by rw [hj2store op hop]; decide), hd1tree]
  -- data store after `j2`
  have hdata2 : ∀ i, held' i = true → ∀ k, k < sz a.blocks i →
      psum a.blocks i + k < ((d.applyAll ent.2).applyAll j2).data.size
        ∧ ((d.applyAll ent.2).applyAll j2).data.byte (psum a.blocks i + k) = (a.blocks.getD i []).getD k 0 := by
    have hsub : ∀ i, held' i = true → a.held i = true := by
      intro i hi; simp [held'] at hi; exact hi.1
    rw [← hj2]
    split
    · intro i hi k hk
      rw [applyAll_nil, hd1data]
      exact h.data i (hsub i hi) k hk
    · rename_i hsz
      have hget : ((d.applyAll ent.2).applyAll
          [SOp.del .data (psum a.blocks s') (psum a.blocks (e' - 1) + sz a.blocks (e' - 1) - psum a.blocks s')]).data
          = ((d.data.del (psum a.blocks s') (psum a.blocks e' - psum a.blocks s')).getD d.data) := by
        have := Journal.apply_get (d.applyAll ent.2)
          (SOp.del .data (psum a.blocks s') (psum a.blocks (e' - 1) + sz a.blocks (e' - 1) - psum a.blocks s')) .data
        simp only [SOp.store, ite_true, SOp.onFile, Disk.get] at this
        rw [applyAll_one, this, hd1data, hend]
      rw [hget]
      have hnot : ¬ (psum a.blocks s' > d.data.size) := by rw [hd1data] at hsz; exact hsz
      obtain ⟨g, hdel⟩ := del_some d.data (psum a.blocks s') (psum a.blocks e' - psum a.blocks s') hnot
      rw [hdel]
      simp only [Option.getD_some]
      exact data_after_del a.blocks a.held held' d.data g s' e' h.data hsub hhole (by omega) hdel
  have hd2bf : ((d.applyAll ent.2).applyAll j2).bitfield = d.bitfield := by
    have e1 := Journal.applyAll_other (d.applyAll ent.2) j2 .bitfield (fun op hop => by rw [hj2store op hop]; decide)
    have e2 := Journal.applyAll_other d ent.2 .bitfield (fun op hop => by rw [hj1 op hop]; decide)
    simp only [Disk.get] at e1 e2
    rw [e1, e2]
  have hd1op : (d.applyAll ent.2).oplog = d.oplog.write (Spec.entriesOffset + c.oplog.entriesByteLength)
      (frame (encEntry { bitfield := some ⟨true, s, e - s⟩ }) c.oplog.currentBit false) := by
    rw [← hent]
    simp only [Oplog.appendEntry, applyAll_one]
    have := Journal.apply_get d (SOp.write .oplog (Spec.entriesOffset + c.oplog.entriesByteLength)
      (frame (encEntry { bitfield := some ⟨true, s, e - s⟩ }) c.oplog.currentBit false)) .oplog
    simp only [SOp.store, ite_true, SOp.onFile, Disk.get] at this
    exact this
  have hd2op : ((d.applyAll ent.2).applyAll j2).oplog = (d.applyAll ent.2).oplog := by
    have := Journal.applyAll_other (d.applyAll ent.2) j2 .oplog (fun op hop => by rw [hj2store op hop]; decide)
    simpa [Disk.get] using this
  have hjournal : (c.clear d s e).journal = ent.2 ++ j2 ++ c1.maybeFlush.2 := by
    simp only [Core.clear, hge, ite_false, hbf, hs', he', hoff, he0, hrng, hnopanic, hent, hj2, hhd, hc1]
  refine ⟨c1, ent.2 ++ j2, ?_, ?_, ?_, ?_, c1bf, ?_, ?_, c1sec, ?_, ?_, c1tree, ?_, hjournal, ⟨j2, by rw [← hent]; rfl, hj2store, by rw [← hj2]; split <;> simp, by
    intro op hop st o b hh
    rw [← hj2] at hop
    split at hop
    · cases hop
    · simp at hop; rw [hop] at hh; cases hh⟩⟩
  · rw [hstep, List.append_assoc]
  · rw [habs, hsplit]
    refine { writer := ?_, tree := ?_, nodes := ?_, mapwf := ?_, bits := ?_, heldLt := ?_, contig := ?_, data := hdata2, small := h.small }
    · rw [c1sec]; exact h.writer
    · rw [c1tree]; exact h.tree
    · rw [c1tree, hd2tree]; exact h.nodes
    · rw [c1tree]; exact h.mapwf
    · intro i; rw [c1bf]; exact hbits' i
    · intro i hi
      have : a.held i = true := by simp [held'] at hi; exact hi.1
      exact h.heldLt i this
    · have hspec := updateContiguous_spec c.header c.bitfield ⟨true, s, e - s⟩ h.contig (by simp; omega)
      simp only [Bool.not_true] at hspec
      rw [hbf] at hspec
      have hrule : (updateContiguous c.header bf ⟨true, s, e - s⟩).contiguous
          = (if s < c.header.contiguous then { c.header with contiguous := s } else c.header).contiguous := by
        simp only [updateContiguous]
        split <;> simp_all
      rw [hrule, ← c1hdr, ← c1bf] at hspec
      exact hspec
  · rw [hsplit]; exact hd2tree
  · rw [hsplit]; exact hd2bf
  · rw [c1hdr]; split <;> rfl
  · rw [c1hdr]; split <;> rfl
  · rw [← hc1, ← hent]
  · rw [hsplit, hd2op]; exact hd1op
  · rw [c1hdr]
    split
    · exact ⟨s, rfl⟩
    · exact ⟨c.header.contiguous, rfl⟩

theorem clear_refines (C : Crypto) (hC : HashWF C) (c : Core) (d : Disk) (a : Abs) (h : Rep C c d a) (s e : Nat)
    (hv : Valid a (.clear s e)) :
    (stepC C (c, d) (.clear s e)).2 = (a.step (.clear s e)).2
      ∧ Rep C (stepC C (c, d) (.clear s e)).1.1 (stepC C (c, d) (.clear s e)).1.2 (a.step (.clear s e)).1 := by
  by_cases hge : s ≥ e
  · have e1 : stepC C (c, d) (.clear s e) = ((c, d), Obs.cleared) := by
      simp [stepC, Core.clear, hge, obsOf, Disk.applyAll]
    have e2 : a.step (.clear s e) = (a, Obs.cleared) := by simp [Abs.step, hge]
    rw [e1, e2]
    exact ⟨rfl, h⟩
  obtain ⟨c1, j01, hstep, hrep, _⟩ := clear_shape C c d a h s e (by omega) hv
  have hfl := maybeFlush_rep C hC c1 (d.applyAll j01) _ hrep
  rw [hstep]
  refine ⟨?_, ?_⟩
  · simp only [Abs.step, hge, ite_false]
  · rw [Journal.applyAll_append]; exact hfl

/-! ### append -/

theorem flatten_getD (l : List Bytes) : ∀ (j x : Nat), x < (l.getD j []).length →
    ((l.take j).map List.length).sum + x < l.flatten.length
      ∧ l.flatten.getD (((l.take j).map List.length).sum + x) 0 = (l.getD j []).getD x 0 := by
  induction l with
  | nil => intro j x hx; simp at hx
  | cons b rest ih =>
    intro j x hx
    cases j with
    | zero =>
      simp only [List.getD_cons_zero] at hx ⊢
      simp only [List.take_zero, List.map_nil, List.sum_nil, Nat.zero_add, List.flatten_cons, List.length_append]
      refine ⟨by omega, ?_⟩
      rw [List.getD_eq_getElem?_getD, List.getElem?_append_left hx, ← List.getD_eq_getElem?_getD]
    | succ j =>
      simp only [List.getD_cons_succ] at hx ⊢
      obtain ⟨i1, i2⟩ := ih j x hx
      simp only [List.take_succ_cons, List.map_cons, List.sum_cons, List.flatten_cons, List.length_append]
      refine ⟨by omega, ?_⟩
      rw [Nat.add_assoc, List.getD_eq_getElem?_getD, List.getElem?_append_right (by omega), Nat.add_sub_cancel_left,
        ← List.getD_eq_getElem?_getD]
      exact i2

theorem fold_batchLength (C : Crypto) (batch : List Bytes) (cs : Changeset) :
    (batch.foldl (Tree.append C) cs).batchLength = cs.batchLength + batch.length := by
  induction batch generalizing cs with
  | nil => rfl
  | cons b rest ih =>
    simp only [List.foldl_cons, ih, List.length_cons]
    simp [Tree.append, Tree.appendRoot]
    omega

theorem commit_unflushed (t t' : Tree) (cs : Changeset) (h : t.commit cs = .ok t') :
    t'.unflushed = insertAll t.unflushed cs.nodes := by
  unfold Tree.commit at h
  split at h
  · cases h
  · split at h
    · cases h
    · cases h
      simp only [insertAll]
      split <;> rfl

theorem entryOf_contig (cs : Changeset) (bu : Option BitfieldUpdate) (h : Header) : (entryOf cs bu h).2.contiguous = h.contiguous := by
  unfold entryOf
  split <;> rfl

theorem sz_append_lt (bs : Array Bytes) (l : List Bytes) (i : Nat) (h : i < bs.size) : sz (bs ++ l.toArray) i = sz bs i := by
  simp only [sz, getD_append_lt bs l i h]

theorem fold_upgraded (C : Crypto) (batch : List Bytes) (hne : batch ≠ []) (cs : Changeset) :
    (batch.foldl (Tree.append C) cs).upgraded = true ∧ (batch.foldl (Tree.append C) cs).fork = cs.fork := by
  induction batch generalizing cs with
  | nil => exact absurd rfl hne
  | cons b rest ih =>
    simp only [List.foldl_cons]
    cases rest with
    | nil => simp [Tree.append, Tree.appendRoot]
    | cons r rs =>
      obtain ⟨i1, i2⟩ := ih (by simp) (Tree.append C cs b)
      exact ⟨i1, by rw [i2]; simp [Tree.append, Tree.appendRoot]⟩

/-- signatures are 64 bytes (Ed25519) -/
def SignWF (C : Crypto) : Prop := ∀ seed msg, (C.sign seed msg).length = 64

/-- a non-empty `append_batch` up to its flush decision: the state `c1`, the journal `j01` (data write and
    oplog entry), the logged entry -/
theorem append_shape (C : Crypto) (hC : HashWF C) (c : Core) (d : Disk) (a : Abs) (h : Rep C c d a)
    (batch : List Bytes) (hne : batch ≠ []) (hv : Valid a (.append batch)) (hw : a.writable = true) :
    ∃ (c1 : Core) (j01 : List SOp) (entry : Entry),
      stepC C (c, d) (.append batch) = ((c1.maybeFlush.1, d.applyAll (j01 ++ c1.maybeFlush.2)),
        Obs.appended c1.maybeFlush.1.tree.length c1.maybeFlush.1.tree.byteLength)
      ∧ Rep C c1 (d.applyAll j01) (a.step (.append batch)).1
      ∧ (d.applyAll j01).tree = d.tree ∧ (d.applyAll j01).bitfield = d.bitfield
      ∧ c1.bitfield = c.bitfield.setRange a.blocks.size batch.length true
      ∧ (SignWF C → EntryStep C a entry (a.step (.append batch)).1)
      ∧ c1.header.tree.length = a.blocks.size + batch.length ∧ (SignWF C → c1.header.tree.signature.length = 64)
      ∧ c1.header.secret = c.header.secret ∧ c1.secret = c.secret
      ∧ c1.oplog = (Oplog.appendEntry c.oplog entry).1
      ∧ (d.applyAll j01).oplog = d.oplog.write (Spec.entriesOffset + c.oplog.entriesByteLength)
          (frame (encEntry entry) c.oplog.currentBit false)
      ∧ c1.tree.fork = c.tree.fork
      ∧ (∃ rh sg cc, c1.header = { c.header with tree := { c.header.tree with rootHash := rh, signature := sg, length := a.blocks.size + batch.length }, contiguous := cc }
          ∧ (∃ l, rh = C.tree l) ∧ (SignWF C → sg.length = 64))
      ∧ (SignWF C → a.blocks.size + batch.length < 2 ^ 62 → batch.length < 2 ^ 20 → U64 c.tree.fork → OplogBytes.EntryOK entry)
      ∧ (c.appendBatch C batch).journal = j01 ++ c1.maybeFlush.2
      ∧ j01 = [SOp.write .data (totalBytes a.blocks) batch.flatten,
               SOp.write .oplog (Spec.entriesOffset + c.oplog.entriesByteLength) (frame (encEntry entry) c.oplog.currentBit false)] := by
  obtain ⟨seed, hseed⟩ : ∃ seed, c.secret = some seed := Option.isSome_iff_exists.mp (by rw [h.writer]; exact hw)
  have hlen : c.tree.length = a.blocks.size := h.tree.length
  have hbytes : c.tree.byteLength = totalBytes a.blocks := h.tree.bytes
  have hemp : ¬ batch.isEmpty = true := by cases batch with | nil => exact absurd rfl hne | cons _ _ => simp
  have hk : 0 < batch.length := List.length_pos_iff.mpr hne
  -- the abstract successor
  let n := a.blocks.size
  let bs' := a.blocks ++ batch.toArray
  let held' : Nat → Bool := fun i => a.held i || (decide (n ≤ i) && decide (i < n + batch.length))
  have habs : a.step (.append batch) = ({ a with blocks := bs', held := held' }, Obs.appended bs'.size (totalBytes bs')) := by
    simp only [Abs.step, hemp, hw, Bool.true_eq_false, ite_false]; rfl
  have hsize' : bs'.size = n + batch.length := by simp [bs', n]
  -- the changeset
  generalize hcs0 : batch.foldl (Tree.append C) c.tree.changeset = cs0
  have hroots0 : RootsOK C bs' cs0 := by rw [← hcs0]; exact appendMany_ref C batch a.blocks _ h.tree
  obtain ⟨t', hcommit, hT'⟩ := commit_ref C a.blocks c.tree batch seed hne h.tree
  rw [hcs0] at hcommit
  generalize hcs : hashAndSign C cs0 seed = cs at hcommit
  have hanc : cs.ancestors = n := by
    rw [← hcs, ← hcs0]
    have : ∀ (l : List Bytes) (x : Changeset), (l.foldl (Tree.append C) x).ancestors = x.ancestors := by
      intro l; induction l with
      | nil => intro x; rfl
      | cons b r ih => intro x; simp only [List.foldl_cons, ih]; simp [Tree.append, Tree.appendRoot]
    simp only [hashAndSign, this, Tree.changeset, hlen, n]
  have hbl : cs.batchLength = batch.length := by
    rw [← hcs, ← hcs0]
    simp [hashAndSign, fold_batchLength, Tree.changeset]
  have hnodes : cs.nodes = cs0.nodes := by rw [← hcs]; rfl
  have hunfl : t'.unflushed = insertAll c.tree.unflushed cs0.nodes := by
    rw [← hnodes]; exact commit_unflushed _ _ _ hcommit
  -- lookup and well-formedness of the new tree
  have hN' : NodesOK C bs' t' d.tree :=
    nodesOK_insert C hC a.blocks batch c.tree t' d.tree c.tree.changeset h.tree rfl (by rw [hcs0]; exact hunfl) h.nodes
  have htot' : psum bs' bs'.size = totalBytes bs' := psum_total bs'
  have hwf' : MapWF t'.unflushed := by
    rw [hunfl]
    apply mapWF_insertAll _ _ h.mapwf
    intro x hx
    obtain ⟨added, eadd, sound, _⟩ := appendMany_nodes C batch a.blocks c.tree.changeset h.tree
    rw [hcs0] at eadd
    have hx' : x ∈ added := by
      have : cs0.rnodes = added := by simpa [Tree.changeset] using eadd
      simpa [Changeset.nodes, this] using hx
    obtain ⟨dd, o, rfl, hb⟩ := sound x hx'
    refine ⟨nodeAt_hash_len C hC _ _ _, ?_⟩
    have h1 := nodeAt_length_le C bs' dd o
    have h2 := psum_mono bs' (show (o + 1) * 2 ^ dd ≤ bs'.size by rw [hsize']; exact hb)
    have := hv.2
    simp only [bs'] at h1 h2 htot' ⊢
    omega
  -- bitfield and hint
  generalize hbf : c.bitfield.setRange n batch.length true = bf
  have hbits' : ∀ i, bf.get i = held' i := by
    intro i
    rw [← hbf, Bitfield.get_setRange, h.bits]
    by_cases hin : n ≤ i ∧ i < n + batch.length
    · simp [held', hin]
    · by_cases h1 : n ≤ i
      · have : ¬ i < n + batch.length := by omega
        simp [held', hin, h1, this]
      · simp [held', hin, h1]
  generalize heo : entryOf cs (some ⟨false, n, batch.length⟩) c.header = eo
  have heoc : eo.2.contiguous = c.header.contiguous := by rw [← heo]; exact entryOf_contig _ _ _
  obtain ⟨entry, hd1⟩ := eo
  simp only at heoc
  generalize hhd2 : updateContiguous hd1 bf ⟨false, n, batch.length⟩ = hd2
  have hcontig' : FirstMissing bf hd2.contiguous := by
    have := updateContiguous_spec hd1 c.bitfield ⟨false, n, batch.length⟩ (by rw [heoc]; exact h.contig) hk
    simp only [Bool.not_false] at this
    rw [hbf, hhd2] at this
    exact this
  generalize hent : Oplog.appendEntry c.oplog entry = ent
  have hj1 : ∀ op ∈ ent.2, op.store = .oplog := by rw [← hent]; exact Journal.appendEntry_store _ _
  generalize hc1 : ({ c with secret := some seed, oplog := ent.1, header := hd2, bitfield := bf, tree := t' } : Core) = c1
  have c1tree : c1.tree = t' := by rw [← hc1]
  have c1bf : c1.bitfield = bf := by rw [← hc1]
  have c1sec : c1.secret = c.secret := by rw [← hc1, hseed]
  have c1hdr : c1.header = hd2 := by rw [← hc1]
  have hstep : stepC C (c, d) (.append batch) =
      ((c1.maybeFlush.1, d.applyAll ([SOp.write .data c.tree.byteLength batch.flatten] ++ ent.2 ++ c1.maybeFlush.2)),
        Obs.appended c1.maybeFlush.1.tree.length c1.maybeFlush.1.tree.byteLength) := by
    simp only [stepC, Core.appendBatch, hseed, hemp, Bool.false_eq_true, ite_false, hcs0, hcs, hanc, hbl, heo, hbf, hhd2,
      hent, hcommit, hc1, obsOf]
  -- the logged entry
  have hup : cs.upgraded = true ∧ cs.fork = c.tree.fork := by
    rw [← hcs, ← hcs0]; exact fold_upgraded C batch hne _
  have hcslen : cs.length = n + batch.length := by
    rw [← hcs]; simp only [hashAndSign]; rw [hroots0.length, hsize']
  obtain ⟨sig, hsigv, hsiglen⟩ : ∃ sig, cs.signature = some sig ∧ (SignWF C → sig.length = 64) := by
    rw [← hcs]; exact ⟨_, rfl, fun hS => hS _ _⟩
  have hentry : entry = { treeNodes := cs0.nodes, treeUpgrade := some ⟨c.tree.fork, n, n + batch.length, sig⟩, bitfield := some ⟨false, n, batch.length⟩ } := by
    have := congrArg Prod.fst heo
    simp only [entryOf, hup.1, ite_true, hsigv, Option.getD_some, hup.2, hanc, hcslen, hnodes] at this
    exact this.symm
  have hhd1 : hd1.tree.length = n + batch.length ∧ hd1.tree.signature = sig ∧ hd1.secret = c.header.secret := by
    have := congrArg Prod.snd heo
    simp only [entryOf, hup.1, ite_true, hsigv, Option.getD_some, hcslen] at this
    rw [← this]; exact ⟨rfl, rfl, rfl⟩
  have hhd2' : hd2.tree = hd1.tree ∧ hd2.secret = hd1.secret := by
    rw [← hhd2]; simp only [updateContiguous]; split <;> (try split) <;> exact ⟨rfl, rfl⟩
  obtain ⟨added, eadd, sound, compl⟩ := appendMany_nodes C batch a.blocks c.tree.changeset h.tree
  rw [hcs0] at eadd
  have hadded : ∀ x, x ∈ cs0.nodes ↔ x ∈ added := by
    intro x
    have : cs0.rnodes = added := by simpa [Tree.changeset] using eadd
    simp [Changeset.nodes, this]
  -- the disk before the flush
  generalize hd0 : d.apply (SOp.write .data c.tree.byteLength batch.flatten) = d0
  have hd0data : d0.data = d.data.write c.tree.byteLength batch.flatten := by
    rw [← hd0]
    have := Journal.apply_get d (SOp.write .data c.tree.byteLength batch.flatten) .data
    simpa [SOp.store, SOp.onFile, Disk.get] using this
  have hd0tree : d0.tree = d.tree := by
    rw [← hd0]
    have := Journal.apply_get d (SOp.write .data c.tree.byteLength batch.flatten) .tree
    simpa [SOp.store, SOp.onFile, Disk.get] using this
  have hsplit : d.applyAll ([SOp.write .data c.tree.byteLength batch.flatten] ++ ent.2) = d0.applyAll ent.2 := by
    rw [Journal.applyAll_append, applyAll_one, hd0]
  have hd1tree : (d0.applyAll ent.2).tree = d.tree := by
    rw [tree_of_applyAll _ _ (fun op hop => by rw [hj1 op hop]; decide), hd0tree]
  have hd1data : (d0.applyAll ent.2).data = d.data.write c.tree.byteLength batch.flatten := by
    rw [data_of_applyAll _ _ (fun op hop => by rw [hj1 op hop]; decide), hd0data]
  have hd0bf : d0.bitfield = d.bitfield := by
    rw [← hd0]
    have := Journal.apply_get d (SOp.write .data c.tree.byteLength batch.flatten) .bitfield
    simpa [SOp.store, SOp.onFile, Disk.get] using this
  have hd1bf : (d0.applyAll ent.2).bitfield = d.bitfield := by
    have := Journal.applyAll_other d0 ent.2 .bitfield (fun op hop => by rw [hj1 op hop]; decide)
    simp only [Disk.get] at this
    rw [this]; exact hd0bf
  have hT : c.tree.byteLength = psum a.blocks n := by rw [hbytes, ← psum_total]
  have hcount : cs0.nodes.length ≤ 2 * batch.length + 64 := by
    have hc := appendMany_count C batch c.tree.changeset
    rw [hcs0] at hc
    have hr : c.tree.changeset.roots.length ≤ 64 := by
      have := congrArg List.length h.tree.roots
      simp only [List.length_reverse, List.length_map] at this
      rw [this]; exact rootsStack_length_log 64 _ h.small.1
    have hrn : c.tree.changeset.rnodes = [] := rfl
    simp only [hrn, List.length_nil, Nat.add_zero] at hc
    simp only [Changeset.nodes, List.length_reverse]
    omega
  have hd0op : d0.oplog = d.oplog := by
    rw [← hd0]
    have := Journal.apply_get d (SOp.write .data c.tree.byteLength batch.flatten) .oplog
    simpa [SOp.store, SOp.onFile, Disk.get] using this
  have hd1op : (d0.applyAll ent.2).oplog = d.oplog.write (Spec.entriesOffset + c.oplog.entriesByteLength)
      (frame (encEntry entry) c.oplog.currentBit false) := by
    rw [← hent]
    simp only [Oplog.appendEntry, applyAll_one]
    have := Journal.apply_get d0 (SOp.write .oplog (Spec.entriesOffset + c.oplog.entriesByteLength)
      (frame (encEntry entry) c.oplog.currentBit false)) .oplog
    simp only [SOp.store, ite_true, SOp.onFile, Disk.get] at this
    rw [this, hd0op]
  have ht'fork : t'.fork = c.tree.fork := by
    have hcm := hcommit
    unfold Tree.commit at hcm
    split at hcm
    · cases hcm
    · split at hcm
      · cases hcm
      · cases hcm
        simp only [hup.1, ite_true, hup.2]
  have hjournal : (c.appendBatch C batch).journal = [SOp.write .data c.tree.byteLength batch.flatten] ++ ent.2 ++ c1.maybeFlush.2 := by
    simp only [Core.appendBatch, hseed, hemp, Bool.false_eq_true, ite_false, hcs0, hcs, hanc, hbl, heo, hbf, hhd2,
      hent, hcommit, hc1]
  refine ⟨c1, [SOp.write .data c.tree.byteLength batch.flatten] ++ ent.2, entry, ?_, ?_, ?_, ?_, ?_, ?_, ?_, ?_, ?_, c1sec, ?_, ?_, ?_, ?_, ?_, hjournal, by rw [hbytes, ← hent]; rfl⟩
  · rw [hstep, List.append_assoc]
  · rw [habs, hsplit]
    refine { writer := ?_, tree := ?_, nodes := ?_, mapwf := ?_, bits := ?_, heldLt := ?_, contig := ?_, data := ?_, small := ?_ }
    · rw [c1sec]; exact h.writer
    · rw [c1tree]; exact hT'
    · rw [c1tree, hd1tree]; exact hN'
    · rw [c1tree]; exact hwf'
    · intro i; rw [c1bf]; exact hbits' i
    · intro i hi
      simp only [held', Bool.or_eq_true, Bool.and_eq_true, decide_eq_true_eq] at hi
      rcases hi with hi | hi
      · have := h.heldLt i hi; rw [hsize']; omega
      · rw [hsize']; omega
    · rw [c1hdr, c1bf]; exact hcontig'
    · rw [hd1data]
      intro i hi kk hkk
      simp only [held', Bool.or_eq_true, Bool.and_eq_true, decide_eq_true_eq] at hi
      by_cases hin : i < n
      · -- an old block: below the write
        have hold : a.held i = true := by
          rcases hi with hi | hi
          · exact hi
          · omega
        have e1 : psum bs' i = psum a.blocks i := psum_append_le a.blocks batch i (by omega)
        have e2 : sz bs' i = sz a.blocks i := sz_append_lt a.blocks batch i hin
        have e3 : bs'.getD i [] = a.blocks.getD i [] := getD_append_lt a.blocks batch i hin
        rw [e2] at hkk
        obtain ⟨o1, o2⟩ := h.data i hold kk hkk
        have h1 := psum_succ_gt a.blocks i kk hkk
        have h2 := psum_mono a.blocks (show i + 1 ≤ n by omega)
        rw [e1, e3, File.size_write, File.byte_write]
        have : ¬ (c.tree.byteLength ≤ psum a.blocks i + kk ∧ psum a.blocks i + kk < c.tree.byteLength + batch.flatten.length) := by omega
        simp only [this, ite_false]
        exact ⟨by omega, o2⟩
      · -- a block of the batch
        have hnew : n ≤ i ∧ i < n + batch.length := by
          rcases hi with hi | hi
          · have := h.heldLt i hi; omega
          · exact hi
        obtain ⟨j, rfl⟩ : ∃ j, i = n + j := ⟨i - n, by omega⟩
        have e1 : psum bs' (n + j) = psum a.blocks n + ((batch.take j).map List.length).sum := psum_append_new a.blocks batch j
        have e3 : bs'.getD (n + j) [] = batch.getD j [] := getD_append_ge a.blocks batch j
        have e2 : sz bs' (n + j) = (batch.getD j []).length := by simp only [sz, e3]
        rw [e2] at hkk
        obtain ⟨f1, f2⟩ := flatten_getD batch j kk hkk
        rw [e1, e3, File.size_write, File.byte_write, hT]
        have : psum a.blocks n ≤ psum a.blocks n + ((batch.take j).map List.length).sum + kk
            ∧ psum a.blocks n + ((batch.take j).map List.length).sum + kk < psum a.blocks n + batch.flatten.length := by omega
        simp only [this, and_self, ite_true]
        refine ⟨by omega, ?_⟩
        have e4 : psum a.blocks n + ((batch.take j).map List.length).sum + kk - psum a.blocks n
            = ((batch.take j).map List.length).sum + kk := by omega
        rw [e4]; exact f2

    · exact ⟨by rw [hsize']; exact hv.1, hv.2⟩
  · rw [hsplit]; exact hd1tree
  · rw [hsplit]; exact hd1bf
  · rw [c1bf, ← hbf]
  · intro hS
    rw [habs, hentry]
    have := EntryStep.append (C := C) a batch cs0.nodes sig c.tree.fork hne hw (hsiglen hS)
      (fun x hx => sound x ((hadded x).mp hx)) (fun dd o h1 h2 => (hadded _).mpr (compl dd o h1 h2)) hcount
    rw [habs] at this
    exact this
  · rw [c1hdr, hhd2'.1, hhd1.1]
  · intro hS; rw [c1hdr, hhd2'.1, hhd1.2.1]; exact hsiglen hS
  · rw [c1hdr, hhd2'.2, hhd1.2.2]
  · rw [← hc1, ← hent]
  · rw [hsplit]; exact hd1op
  · rw [c1tree]; exact ht'fork
  · refine ⟨cs.hash.getD [], sig, hd2.contiguous, ?_, ?_, hsiglen⟩
    · rw [c1hdr, ← hhd2]
      have h1e : hd1 = { c.header with tree := { c.header.tree with rootHash := cs.hash.getD [], signature := sig, length := n + batch.length } } := by
        have := congrArg Prod.snd heo
        simp only [entryOf, hup.1, ite_true, hsigv, Option.getD_some, hcslen] at this
        exact this.symm
      rw [h1e]
      simp only [updateContiguous]
      split <;> (try split) <;> rfl
    · rw [← hcs]; exact ⟨_, rfl⟩
  · intro hS hsz62 hk20 hfk
    rw [hentry]
    have hU : ∀ x, x < 2 ^ 62 → U64 x := fun x hx => by unfold U64; omega
    apply FormatLimits.appendEntry_ok
    · refine ⟨by unfold U64; omega, fun x hx => ?_⟩
      obtain ⟨dd, o, rfl, hb⟩ := sound x ((hadded x).mp hx)
      refine ⟨?_, ?_, nodeAt_hash_len C hC _ _ _⟩
      · -- the flat index of a full node below 2·length
        have hi : Flat.index dd o < 2 * (a.blocks.size + batch.length) := by
          rw [index_eq]
          have hp := pow_pos' dd
          have : (o + 1) * 2 ^ dd = o * 2 ^ dd + 2 ^ dd := by ring
          have : o * (2 * 2 ^ dd) = 2 * (o * 2 ^ dd) := by ring
          omega
        simp only [nodeAt_index]; unfold U64; omega
      · have h1 := nodeAt_length_le C bs' dd o
        have h2 := psum_mono bs' (show (o + 1) * 2 ^ dd ≤ bs'.size by rw [hsize']; exact hb)
        have := hv.2
        simp only [bs'] at h1 h2 htot' ⊢
        unfold U64; omega
    · omega
    · exact hfk
    · exact hU _ (by omega)
    · exact hU _ (by omega)
    · exact hsiglen hS
    · exact hU _ (by omega)
    · exact hU _ (by omega)

theorem append_refines (C : Crypto) (hC : HashWF C) (c : Core) (d : Disk) (a : Abs) (h : Rep C c d a) (batch : List Bytes)
    (hv : Valid a (.append batch)) :
    (stepC C (c, d) (.append batch)).2 = (a.step (.append batch)).2
      ∧ Rep C (stepC C (c, d) (.append batch)).1.1 (stepC C (c, d) (.append batch)).1.2 (a.step (.append batch)).1 := by
  by_cases hw : a.writable = true
  swap
  · -- a read-only core refuses
    have hwf : a.writable = false := by simpa using hw
    have hsec : c.secret = none := by
      have := h.writer; rw [hwf] at this
      cases hs : c.secret with
      | none => rfl
      | some x => rw [hs] at this; simp at this
    have e1 : stepC C (c, d) (.append batch) = ((c, d), Obs.failed .err) := by
      simp [stepC, Core.appendBatch, hsec, obsOf, Disk.applyAll]
    have e2 : a.step (.append batch) = (a, Obs.failed .err) := by simp [Abs.step, hwf]
    rw [e1, e2]; exact ⟨rfl, h⟩
  obtain ⟨seed, hseed⟩ : ∃ seed, c.secret = some seed := Option.isSome_iff_exists.mp (by rw [h.writer]; exact hw)
  have hlen : c.tree.length = a.blocks.size := h.tree.length
  have hbytes : c.tree.byteLength = totalBytes a.blocks := h.tree.bytes
  by_cases hemp : batch.isEmpty = true
  · have e1 : stepC C (c, d) (.append batch) = ((c, d), Obs.appended a.blocks.size (totalBytes a.blocks)) := by
      simp [stepC, Core.appendBatch, hseed, hemp, obsOf, Disk.applyAll, hlen, hbytes]
    have e2 : a.step (.append batch) = (a, Obs.appended a.blocks.size (totalBytes a.blocks)) := by simp [Abs.step, hemp, hw]
    rw [e1, e2]; exact ⟨rfl, h⟩
  have hne : batch ≠ [] := by intro e; apply hemp; simp [e]
  obtain ⟨c1, j01, entry, hstep, hrep, _⟩ := append_shape C hC c d a h batch hne hv hw
  have hfl := maybeFlush_rep C hC c1 (d.applyAll j01) _ hrep
  rw [hstep]
  have habs : (a.step (.append batch)).2 = Obs.appended (a.step (.append batch)).1.blocks.size (totalBytes (a.step (.append batch)).1.blocks) := by
    simp only [Abs.step, hemp, hw, Bool.true_eq_false, ite_false]; rfl
  refine ⟨?_, ?_⟩
  · have l1 : c1.maybeFlush.1.tree.length = (a.step (.append batch)).1.blocks.size := hfl.tree.length
    have l2 : c1.maybeFlush.1.tree.byteLength = totalBytes (a.step (.append batch)).1.blocks := hfl.tree.bytes
    rw [habs]; simp only [l1, l2]
  · rw [Journal.applyAll_append]; exact hfl

/-! ### the freshly created core -/

theorem init_rep (C : Crypto) (pk sk : Bytes) :
    ∃ c j, Core.openCore C (some (pk, some sk)) {} = .ok (c, j) ∧ Rep C c (({} : Disk).applyAll j) {} := by
  generalize hih : Oplog.insertHeader (Header.new pk (some sk)) 0 Spec.initialBits false = ih
  have hops : ∀ op ∈ ih.2, op.store = .oplog := by rw [← hih]; exact Journal.insertHeader_store _ _ _ _
  have ho : Oplog.openLog (some (pk, some sk)) [] = .ok ⟨{ bits := ih.1 }, Header.new pk (some sk), ih.2, []⟩ := by
    simp [Oplog.openLog, Oplog.readLog, Spec.headerSize, Spec.entriesOffset, hih]
  have hd1tree : (({} : Disk).applyAll ih.2).tree = File.empty :=
    tree_of_applyAll _ _ (fun op hop => by rw [hops op hop]; decide)
  have hd1data : (({} : Disk).applyAll ih.2).data = File.empty :=
    data_of_applyAll _ _ (fun op hop => by rw [hops op hop]; decide)
  have hd1bf : (({} : Disk).applyAll ih.2).bitfield = File.empty :=
    Journal.applyAll_other _ _ .bitfield (fun op hop => by rw [hops op hop]; decide)
  have htree : Tree.openTree (Header.new pk (some sk)).tree (({} : Disk).applyAll ih.2).tree = .ok {} := by
    rw [hd1tree]
    simp [Tree.openTree, Header.new, Flat.fullRoots, Flat.fullRootsAux, Tree.openTree.load]
  have hbf : Bitfield.ofFile (({} : Disk).applyAll ih.2).bitfield = {} := by
    rw [hd1bf]; simp [Bitfield.ofFile, File.empty, File.size]
  refine ⟨{ publicKey := pk, secret := some sk, oplog := { bits := ih.1 }, header := Header.new pk (some sk),
            tree := {}, bitfield := {}, skipFlush := 0 }, ih.2, ?_, ?_⟩
  · have hdisk : (({} : Disk).oplog.toList) = [] := rfl
    simp only [Core.openCore, hdisk, ho, htree, hbf, Core.openCore.replay]
    rfl
  · refine { writer := rfl, tree := ?_, nodes := ?_, mapwf := ?_, bits := ?_, heldLt := ?_, contig := ?_, data := ?_, small := ?_ }
    · exact ⟨rfl, by simp [rootsStack_zero, Tree.changeset], rfl⟩
    · intro dd o hb
      have := pow_pos' dd
      have : 1 * 2 ^ dd ≤ (o + 1) * 2 ^ dd := Nat.mul_le_mul_right _ (by omega)
      exfalso
      have hb' : (o + 1) * 2 ^ dd ≤ 0 := by simpa using hb
      omega
    · intro k n hk; simp at hk
    · intro i; simp [Bitfield.get]
    · intro i hi; simp at hi
    · exact ⟨fun i hi => by simp [Header.new] at hi, by simp [Bitfield.get]⟩
    · intro i hi; simp at hi
    · exact ⟨by simp, by simp [totalBytes]⟩

end HC.LiveRefine
