import HC.Proofs.BlockUpgrade
import HC.Proofs.ReplicaReopen
/-!
A block the replica lacks **together with an upgrade**, at core level (C03): `verify_and_apply_proof` on the honest
combined proof writes the block's bytes at the writer's byte offset (computed under the *merged* roots:
`BlockUpgrade.offset_in_upgraded`), logs one entry that carries the nodes, the upgrade and the bitfield update, and
reaches a core that represents the first `n` blocks with the block held; the entry replays to exactly that core, so the
step keeps the ghost invariant of `ReplicaReopen` (`StepOK`), survives a reopen and is crash-atomic.
-/
namespace HC.BlockGrow
open HC HC.Codec HC.Flat HC.Tree HC.RefTree HC.RefProof HC.Sound HC.Offsets HC.TreeStore HC.Complete HC.UpgradeSound HC.CreateTotal
  HC.Replica HC.Growth HC.HashReq HC.Oplog HC.Core HC.OplogBytes HC.FormatLimits HC.BitfieldPages HC.Touch HC.ReplicaReopen

/-- the honest answer to "block `i` (with the node count of my own `missing_nodes`) and an upgrade `m → n`" -/
def honestBlockGrowth (C : Crypto) (bs : Array Bytes) (c : Core) (d : Disk) (i m n : Nat) (us : List (Nat × Nat)) (sig : Bytes) : Proof :=
  ⟨c.tree.fork, some ⟨i, bs.getD i [], Complete.sibPath C bs 0 i (c.tree.missingNodes d.tree (2 * i))⟩, none, none, some ⟨m, n - m, us.map (fun p => nodeAt C bs p.1 p.2), [], sig⟩⟩

/-- the core after the commit of the combined proof, before the periodic flush -/
def blockGrowCore (c : Core) (cs : Changeset) (i : Nat) : Core :=
  { c with oplog := (Oplog.appendEntry c.oplog (Core.entryOf cs (some ⟨false, i, 1⟩) c.header).1).1, header := Core.updateContiguous (Core.entryOf cs (some ⟨false, i, 1⟩) c.header).2 (c.bitfield.setRange i 1 true) ⟨false, i, 1⟩, bitfield := c.bitfield.setRange i 1 true, tree := { c.tree with roots := cs.roots, length := cs.length, byteLength := cs.byteLength, fork := cs.fork, signature := cs.signature, unflushed := insertAll c.tree.unflushed cs.nodes } }

def blockGrowJournal (bs : Array Bytes) (c : Core) (cs : Changeset) (i : Nat) : List SOp :=
  [SOp.write .data (psum bs i) (bs.getD i [])] ++ (Oplog.appendEntry c.oplog (Core.entryOf cs (some ⟨false, i, 1⟩) c.header).1).2

theorem updateContiguous_tree (h : Header) (T : HeaderTree) (b : Bitfield) (u : BitfieldUpdate) :
    updateContiguous { h with tree := T } b u = { updateContiguous h b u with tree := T } := by
  simp only [updateContiguous]
  split <;> (try split) <;> rfl

theorem blockGrowCore_repr (C : Crypto) (hC : HashWF C) (bs : Array Bytes) (m n : Nat) (c : Core) (d : Disk) (held : Nat → Bool)
    (h : RepRAt C bs m c d held) (hm0 : 0 < m) (hmn : m < n) (hn : n ≤ bs.size) (us : List (Nat × Nat))
    (hup : Up m 0 (rootsStack n).reverse us) (sig : Bytes) (hsl : sig.length = 64)
    (hver : C.verify c.publicKey (signableAt C bs n c.tree.fork) sig = true) (i : Nat) (hi : i < m) :
    ∃ cs : Changeset, Inv C bs c.tree d.tree cs n ∧ cs.fork = c.tree.fork ∧ cs.signature = some sig ∧ cs.upgraded = true
      ∧ cs.ancestors = c.tree.length ∧ cs.hash = some (rootsHash C cs.roots)
      ∧ cs.nodes.length ≤ 64 + (2 * c.tree.missingNodes d.tree (2 * i) + 1) + 2 * us.length
      ∧ c.verifyAndApply C d (honestBlockGrowth C bs c d i m n us sig)
        = { core := (blockGrowCore c cs i).maybeFlush.1, result := .ok true,
            journal := blockGrowJournal bs c cs i ++ (blockGrowCore c cs i).maybeFlush.2,
            events := Core.appliedEvents (honestBlockGrowth C bs c d i m n us sig) (some ⟨false, i, 1⟩) }
      ∧ RepRAt C bs n (blockGrowCore c cs i) (d.applyAll (blockGrowJournal bs c cs i)) (fun j => held j || j == i) := by
  have hN : n < 2 ^ 64 := by have := h.small.1; omega
  have hM : m < 2 ^ 64 := by omega
  obtain ⟨cs, hvv0, h2, h7, h5, h4, hcmt, ha, ho1, h11, hcnt0, hsuf⟩ :=
    BlockUpgrade.honest_old_block_upgrade_accepted C hC bs m n c d held h hm0 hmn hn us hup sig hsl hver i hi
  have hvv : verifyProof C c.tree d.tree (honestBlockGrowth C bs c d i m n us sig) c.publicKey = .ok cs := hvv0
  obtain ⟨hstored, hin⟩ := missingNodes_spec C bs m c.tree d.tree h.closed.sparse hM i hi
  generalize hk : c.tree.missingNodes d.tree (2 * i) = k at hstored hin hcnt0 hsuf
  have hoff := BlockUpgrade.offset_in_upgraded C hC bs m n c d held h hn cs h2 i k hi hstored hin hsuf
  have hnl : ¬ (cs.ancestors < cs.origLength) := by omega
  generalize htr : ({ c.tree with roots := cs.roots, length := cs.length, byteLength := cs.byteLength, fork := cs.fork, signature := cs.signature, unflushed := insertAll c.tree.unflushed cs.nodes } : Tree) = tr
  have hcommit : c.tree.commit cs = .ok tr := by
    rw [← htr]
    simp only [Tree.commit, hcmt, h7, Bool.not_true, Bool.false_eq_true, ite_false, Bool.true_and, decide_eq_true_eq, hnl, ite_true, insertAll]
  have hnodesRef : ∀ x ∈ cs.nodes, ∃ dd o, x = nodeAt C bs dd o ∧ (o + 1) * 2 ^ dd ≤ n := by
    intro x hx
    exact h2.nodesRef x (by simpa [Changeset.nodes] using hx)
  have henc : Core.encodable cs = true := encodable_of_ref C hC bs cs (fun x hx => by
    obtain ⟨dd, o, e, _⟩ := hnodesRef x hx
    exact ⟨dd, o, e⟩)
  have hds : Core.dataStep c d (honestBlockGrowth C bs c d i m n us sig) cs
      = .ok ([SOp.write .data (psum bs i) (bs.getD i [])], some ⟨false, i, 1⟩) := by
    simp only [Core.dataStep, honestBlockGrowth, hoff]
  have hp : (honestBlockGrowth C bs c d i m n us sig).fork = c.tree.fork := rfl
  generalize hc1 : ({ c with oplog := (Oplog.appendEntry c.oplog (Core.entryOf cs (some ⟨false, i, 1⟩) c.header).1).1, header := Core.updateContiguous (Core.entryOf cs (some ⟨false, i, 1⟩) c.header).2 (c.bitfield.setRange i 1 true) ⟨false, i, 1⟩, bitfield := c.bitfield.setRange i 1 true, tree := tr } : Core) = c1
  have hshape : c.verifyAndApply C d (honestBlockGrowth C bs c d i m n us sig)
      = { core := c1.maybeFlush.1, result := .ok true,
          journal := blockGrowJournal bs c cs i ++ c1.maybeFlush.2,
          events := Core.appliedEvents (honestBlockGrowth C bs c d i m n us sig) (some ⟨false, i, 1⟩) } := by
    unfold Core.verifyAndApply
    simp only [hp, ne_eq, not_true_eq_false, ite_false, hvv, hcmt, Bool.not_true, Bool.false_eq_true, hds, henc, ite_true]
    unfold Core.applyVerified
    simp only [hcommit, Core.finishApply, ← hc1, blockGrowJournal]
  have hj1 : ∀ op ∈ (Oplog.appendEntry c.oplog (Core.entryOf cs (some ⟨false, i, 1⟩) c.header).1).2, op.store = .oplog := Journal.appendEntry_store _ _
  have htree : (d.applyAll (blockGrowJournal bs c cs i)).tree = d.tree := by
    apply LiveRefine.tree_of_applyAll
    intro op hop
    rcases List.mem_append.mp hop with h1 | h1
    · simp at h1; subst h1; simp [SOp.store]
    · rw [hj1 op h1]; decide
  have hdata : (d.applyAll (blockGrowJournal bs c cs i)).data = d.data.write (psum bs i) (bs.getD i []) := by
    unfold blockGrowJournal
    rw [Journal.applyAll_append]
    rw [LiveRefine.data_of_applyAll _ _ (fun op hop => by rw [hj1 op hop]; decide)]
    simp [Disk.applyAll, Disk.apply, Disk.set, Disk.get]
  have hc1t : c1.tree = tr := by rw [← hc1]
  have hc1b : c1.bitfield = c.bitfield.setRange i 1 true := by rw [← hc1]
  have hc1h : c1.header.contiguous = (Core.updateContiguous c.header (c.bitfield.setRange i 1 true) ⟨false, i, 1⟩).contiguous := by
    rw [← hc1]
    simp only [Core.entryOf, h7, ite_true, updateContiguous_tree]
  have hlook : ∀ j, tr.node? d.tree j = (vt c.tree cs).node? d.tree j := by
    intro j; rw [← htr]; exact node?_congr _ _ _ _ rfl
  have hleafmem : nodeAt C bs 0 i ∈ cs.nodes := by
    obtain ⟨U, hU⟩ := hsuf
    simp only [Changeset.nodes, List.mem_reverse, hU, List.mem_append, List.mem_singleton]
    exact Or.inr (Or.inr trivial)
  have hrep1 : RepRAt C bs n c1 (d.applyAll (blockGrowJournal bs c cs i)) (fun j => held j || j == i) := by
    obtain ⟨hnew, hold, _⟩ := insert_lookup C hC bs c.tree tr d.tree cs.nodes (fun x hx => by obtain ⟨dd, o, e, _⟩ := hnodesRef x hx; exact ⟨dd, o, e⟩)
      (by rw [← htr])
    refine ⟨hn, ?_, (by rw [hc1t, ← htr]; exact inv_roots C bs c.tree d.tree cs n h2), (by rw [hc1t, ← htr]; exact h2.bytes), ?_,
      (by rw [htree]; exact h.aligned), ?_, ?_, ?_, ?_, ?_, h.small⟩
    · rw [hc1t, htree]
      exact closedAt_congr C bs n (vt c.tree cs) tr d.tree d.tree h2.closed hlook (by rw [← htr]; rfl)
    · rw [hc1t, ← htr]
      apply mapWF_insertAll _ _ h.mapwf
      intro x hx
      obtain ⟨dd, o, rfl, hb⟩ := hnodesRef x hx
      refine ⟨nodeAt_hash_len C hC bs dd o, ?_⟩
      have a1 := nodeAt_length_le C bs dd o
      have a2 := psum_mono bs (Nat.le_trans hb hn)
      have := h.small.2
      omega
    · intro j
      rw [hc1b, Bitfield.get_setRange, h.bits j]
      by_cases hji : j = i
      · subst hji; simp
      · have : ¬ (i ≤ j ∧ j < i + 1) := by omega
        simp [this, hji]
    · intro j hj'
      simp only [Bool.or_eq_true, beq_iff_eq] at hj'
      rcases hj' with hj' | rfl
      · have := h.heldLt j hj'; omega
      · omega
    · intro j hj'
      simp only [Bool.or_eq_true, beq_iff_eq] at hj'
      rw [hc1t, htree]
      rcases hj' with hj' | rfl
      · exact hold _ _ (h.leaf j hj')
      · exact hnew 0 j hleafmem
    · intro j hj' k' hk'
      simp only [Bool.or_eq_true, beq_iff_eq] at hj'
      rw [hdata, File.size_write, File.byte_write]
      have hlen : (bs.getD i []).length = sz bs i := rfl
      by_cases hji : j = i
      · subst hji
        have hin' : psum bs j ≤ psum bs j + k' ∧ psum bs j + k' < psum bs j + (bs.getD j []).length := by
          rw [hlen]; omega
        simp only [hin', and_self, ite_true]
        refine ⟨by rw [hlen]; have := Nat.le_max_right d.data.size (psum bs j + sz bs j); omega, ?_⟩
        congr 1; omega
      · have hheld : held j = true := by
          rcases hj' with hj' | hj'
          · exact hj'
          · exact absurd hj' hji
        obtain ⟨d1, d2⟩ := h.data j hheld k' hk'
        refine ⟨by have := Nat.le_max_left d.data.size (psum bs i + (bs.getD i []).length); omega, ?_⟩
        have hdis : ¬ (psum bs i ≤ psum bs j + k' ∧ psum bs j + k' < psum bs i + (bs.getD i []).length) := by
          rw [hlen]
          rcases Nat.lt_or_gt_of_ne hji with hlt | hgt
          · have := psum_succ_le bs hlt; omega
          · have := psum_succ_le bs hgt; omega
        simp only [hdis, ite_false]
        exact d2
    · rw [hc1b, hc1h]
      have := Core.updateContiguous_spec c.header c.bitfield ⟨false, i, 1⟩ h.contig (by simp)
      simpa using this
  have hcnt : cs.nodes.length ≤ 64 + (2 * k + 1) + 2 * us.length := by
    simp only [Changeset.nodes, List.length_reverse]; exact hcnt0
  refine ⟨cs, h2, h4, h5, h7, ha, h11, hcnt, ?_, ?_⟩
  · rw [hshape, ← hc1, ← htr]
    rfl
  · rw [← hc1, ← htr] at hrep1
    exact hrep1

/-- replaying the combined entry: nodes, then the bitfield update, then `truncate` + commit for the upgrade -/
theorem replay_blockgrow (C : Crypto) (bs : Array Bytes) (d : Disk) (c : Core) (ol : Oplog.State) (b : Bitfield) (cs : Changeset) (n i : Nat)
    (sig : Bytes) (hn : n < 2 ^ 64) (hroots : cs.roots = rootsAt C bs n) (hlen : cs.length = n) (hbytes : cs.byteLength = psum bs n)
    (hsig : cs.signature = some sig) (hsl : sig.length = 64) (hup : cs.upgraded = true) (hanc : cs.ancestors = c.tree.length)
    (hhash : cs.hash = some (rootsHash C cs.roots)) (hfork : cs.fork = c.tree.fork) (hcur : Reopen.AllRef C bs c.tree.roots)
    (hR : ∀ p ∈ rootsStack n, (blockGrowCore c cs i).tree.node? d.tree (Flat.index p.1 p.2) = some (nodeAt C bs p.1 p.2))
    (hb : ∀ j, b.get j = c.bitfield.get j) (hc : FirstMissing c.bitfield c.header.contiguous) :
    replayEntry C d (ol, c.header, c.tree, b) (Core.entryOf cs (some ⟨false, i, 1⟩) c.header).1
      = .ok (ol, (blockGrowCore c cs i).header, (blockGrowCore c cs i).tree, b.setRange i 1 true) := by
  generalize ht' : ({ c.tree with unflushed := insertAll c.tree.unflushed cs.nodes } : Tree) = t'
  have hR' : ∀ p ∈ rootsStack n, t'.node? d.tree (Flat.index p.1 p.2) = some (nodeAt C bs p.1 p.2) := by
    intro p hp
    rw [← hR p hp]
    exact node?_unflushed _ _ _ _ (by rw [← ht']; rfl)
  have htr := truncate_sparse C bs t' d.tree n cs.fork hn hR' (by rw [← ht']; exact hcur)
  have hcm : t'.commitable { t'.changeset with roots := rootsAt C bs n, fork := cs.fork, length := n, ancestors := cs.ancestors, byteLength := psum bs n, upgraded := true, hash := some (rootsHash C (rootsAt C bs n)), signature := some sig } = true := by
    simp [Tree.commitable, Tree.changeset]
  have hnl : ¬ (cs.ancestors < t'.length) := by rw [hanc, ← ht']; exact Nat.lt_irrefl _
  have hc' : FirstMissing b c.header.contiguous := ⟨fun j hj => by rw [hb]; exact hc.1 j hj, by rw [hb]; exact hc.2⟩
  have hu := updateContiguous_bits c.header b c.bitfield ⟨false, i, 1⟩ hb hc' (by simp)
  simp only [Bool.not_false] at hu
  simp only [replayEntry, Core.entryOf, hup, ite_true, Reopen.foldl_addNode, ht', hlen, htr, hsig, Option.getD_some, hsl, ne_eq,
    not_true_eq_false, ite_false, Tree.commit, hcm, Bool.not_true, Bool.false_eq_true, Bool.true_and, decide_eq_true_eq, Bool.not_false, hu]
  simp only [Tree.changeset, hnl, ite_false, hhash, Option.getD_some, hroots]
  simp only [blockGrowCore, Core.entryOf, hup, ite_true, ← ht', hroots, hlen, hbytes, hsig, hhash, Option.getD_some, Changeset.nodes, List.reverse_nil, List.foldl_nil, updateContiguous_tree]
  have hue := Reopen.updateContiguous_eq c.header (c.bitfield.setRange i 1 true) ⟨false, i, 1⟩
  generalize updateContiguous c.header (c.bitfield.setRange i 1 true) ⟨false, i, 1⟩ = H at hue ⊢
  rw [hue]

/-- **a block + upgrade exchange keeps both invariants** -/
theorem blockgrow_ok (C : Crypto) (hC : HashWF C) (hT : TreeWF C) (bs : Array Bytes) (m n : Nat) (c : Core) (d : Disk) (held : Nat → Bool)
    (h : RP C bs m c d held) (hm0 : 0 < m) (hmn : m < n) (hn : n ≤ bs.size) (us : List (Nat × Nat))
    (hup : Up m 0 (rootsStack n).reverse us) (sig : Bytes) (hsl : sig.length = 64)
    (hver : C.verify c.publicKey (signableAt C bs n c.tree.fork) sig = true) (i : Nat) (hi : i < m) :
    ∃ c1 e j0, StepOK C bs m n c c1 d held (fun j => held j || j == i) (c.verifyAndApply C d (honestBlockGrowth C bs c d i m n us sig)) e j0 := by
  have hr := h.rep
  have hN : n < 2 ^ 64 := by have := hr.small.1; omega
  have hM : m < 2 ^ 64 := by omega
  obtain ⟨cs, hinv, hfork, hsig, hupg, hanc, hhash, hcnt, hshape, hrep1⟩ := blockGrowCore_repr C hC bs m n c d held hr hm0 hmn hn us hup sig hsl hver i hi
  obtain ⟨_, hin⟩ := missingNodes_spec C bs m c.tree d.tree hr.closed.sparse hM i hi
  have hk64 := k_lt_64 i _ m hM hin
  have hroots : cs.roots = rootsAt C bs n := inv_roots C bs c.tree d.tree cs n hinv
  have hul := up_length m n hm0 hN (rootsStack n).reverse 0 us (cover_roots n) hup
  have hrl := rootsStack_length_log 64 n hN
  rw [List.length_reverse] at hul
  have hnodesRef : ∀ x ∈ cs.nodes, ∃ dd o, x = nodeAt C bs dd o ∧ (o + 1) * 2 ^ dd ≤ n := by
    intro x hx
    exact hinv.nodesRef x (by simpa [Changeset.nodes] using hx)
  have heo : Core.entryOf cs (some ⟨false, i, 1⟩) c.header = ({ treeNodes := cs.nodes, treeUpgrade := some ⟨cs.fork, cs.ancestors, cs.length, cs.signature.getD []⟩, bitfield := some ⟨false, i, 1⟩ },
      { c.header with tree := { c.header.tree with rootHash := cs.hash.getD [], signature := cs.signature.getD [], length := cs.length } }) := by
    simp only [Core.entryOf, hupg, ite_true]
  unfold blockGrowJournal at hshape hrep1
  generalize he : (Core.entryOf cs (some ⟨false, i, 1⟩) c.header).1 = e at hshape hrep1
  have he' : e = { treeNodes := cs.nodes, treeUpgrade := some ⟨cs.fork, cs.ancestors, cs.length, sig⟩, bitfield := some ⟨false, i, 1⟩ } := by
    rw [← he, heo, hsig]; rfl
  have hue := Reopen.updateContiguous_eq c.header (c.bitfield.setRange i 1 true) ⟨false, i, 1⟩
  have hhd : (blockGrowCore c cs i).header = { c.header with tree := { c.header.tree with rootHash := rootsHash C cs.roots, signature := sig, length := n }, contiguous := (updateContiguous c.header (c.bitfield.setRange i 1 true) ⟨false, i, 1⟩).contiguous } := by
    simp only [blockGrowCore, heo, hsig, hhash, hinv.length, Option.getD_some, updateContiguous_tree]
    generalize updateContiguous c.header (c.bitfield.setRange i 1 true) ⟨false, i, 1⟩ = H at hue ⊢
    rw [hue]
  have hc1o : (blockGrowCore c cs i).oplog = (Oplog.appendEntry c.oplog e).1 := by rw [← he]; rfl
  have hc1b : (blockGrowCore c cs i).bitfield = c.bitfield.setRange i 1 true := rfl
  have hj1 : ∀ op ∈ (Oplog.appendEntry c.oplog e).2, op.store = .oplog := Journal.appendEntry_store _ _
  have htree : (d.applyAll ([SOp.write .data (psum bs i) (bs.getD i [])] ++ (Oplog.appendEntry c.oplog e).2)).tree = d.tree := by
    apply LiveRefine.tree_of_applyAll
    intro op hop
    rcases List.mem_append.mp hop with h1 | h1
    · simp at h1; subst h1; simp [SOp.store]
    · rw [hj1 op h1]; decide
  have hsne : sig.isEmpty = false := by cases sig with | nil => simp at hsl | cons a l => rfl
  have hcU : U64 (updateContiguous c.header (c.bitfield.setRange i 1 true) ⟨false, i, 1⟩).contiguous := by
    have := contig_le_at C bs n _ _ _ hrep1
    rw [hhd] at this
    unfold U64
    exact Nat.lt_of_le_of_lt this hN
  have hok : StepOK C bs m n c (blockGrowCore c cs i) d held (fun j => held j || j == i) (c.verifyAndApply C d (honestBlockGrowth C bs c d i m n us sig)) e [SOp.write .data (psum bs i) (bs.getD i [])] := StepOK.mk
    (by rw [hshape]; exact ⟨rfl, rfl⟩) hrep1 (fun hf es hp => by
      refine persist_entry C c _ d hf es e _ hp ?_ (fun op hop => by simp at hop; subst hop; rfl) hc1o ?_ ?_ ?_ ?_ ?_ ?_ ?_ ?_
      · rw [he']
        apply entry_ok
        · apply refNodes_wf C hC bs h.size hr.small.2
          · intro x hx
            obtain ⟨d1, o1, e1, hb⟩ := hnodesRef x hx
            exact ⟨d1, o1, e1, by omega⟩
          · omega
        · omega
        · intro u hu
          cases hu
          refine ⟨?_, ?_, ?_, hsl⟩
          · show U64 cs.fork
            rw [hfork, ← hp.hdrFork]; exact hp.shape.fork
          · show U64 cs.ancestors
            rw [hanc, hr.closed.sparse.length]; unfold U64; omega
          · show U64 cs.length
            rw [hinv.length]; exact hN
        · intro b hb; cases hb
          exact ⟨by show i < 2 ^ 64; omega, by show 1 < 2 ^ 64; omega⟩
      · intro ol b hb1 hb2
        refine ⟨b.setRange i 1 true, ?_, ?_, dirty_setRange b d.bitfield i 1 true hb2⟩
        · have := replay_blockgrow C bs d c ol b cs n i sig hN hroots hinv.length hinv.bytes hsig hsl hupg hanc hhash hfork
            (by rw [hr.roots]; exact allRef_rootsAt C bs m)
            (fun p hp' => by rw [← htree]; exact hrep1.closed.sparse.roots p hp') hb1 hr.contig
          rw [he] at this
          exact this
        · intro j; rw [hc1b, Bitfield.get_setRange, Bitfield.get_setRange, hb1]
      · rw [hc1b]; exact dirty_setRange c.bitfield d.bitfield i 1 true hp.dirty
      · rw [hhd]
        exact hdrShape_set c.header hp.shape _ _ _ _ (by rw [rootsHash, hT]) (by omega) hN hcU
      · rw [hhd]; exact hinv.length.symm
      · rw [hhd]; show c.header.tree.fork = cs.fork; rw [hfork]; exact hp.hdrFork
      · rw [hhd]; show cs.signature = _; simp only [hsne, Bool.false_eq_true, ite_false]; exact hsig
      · rw [hhd]; exact Or.inr hsl
      · rw [hhd]; exact hp.keys)
    (fun op hop => by simp at hop; subst hop; rfl)
    (fun u hu => by rw [he'] at hu; cases hu; rfl)
    (fun j hj => by
      rw [hc1b, Bitfield.get_setRange] at hj
      split at hj
      · rename_i hin'
        exact Or.inr ⟨⟨false, i, 1⟩, by rw [he'], hin'.1, hin'.2⟩
      · exact Or.inl hj)
    (by rw [he']; rfl)
    (fun x hx => by
      rw [he'] at hx
      obtain ⟨d1, o1, e1, _⟩ := hnodesRef x hx
      exact ⟨d1, o1, e1⟩)
    (by rw [hshape])
    ⟨rfl, hfork⟩
    (fun k' => by
      cases k' with
      | zero => exact hr
      | succ k' =>
        simp only [List.take_succ_cons, List.take_nil, Disk.applyAll, List.foldl_cons, List.foldl_nil]
        exact reprAt_data_write C bs m c d held hr i)
    (fun op hop => by
      simp only [List.mem_singleton] at hop
      exact ⟨_, _, hop, fun t => reprAt_data_write_prefix C bs m c d held hr i t⟩)
  exact ⟨_, _, _, hok⟩

/-- (from `blockgrow_ok` and `rp_of_ok`) **block + upgrade at core level**: the replica that represents the first `m`
    blocks applies the honest combined proof for a block `i < m` and an upgrade to `n`; the call answers `true`, and the
    core represents the first `n` blocks with block `i` held, with the ghost invariant (so it reopens to the same
    state and is crash-atomic) -/
theorem rp_blockgrow (C : Crypto) (hC : HashWF C) (hT : TreeWF C) (bs : Array Bytes) (m n : Nat) (c : Core) (d : Disk) (held : Nat → Bool)
    (h : RP C bs m c d held) (hm0 : 0 < m) (hmn : m < n) (hn : n ≤ bs.size) (us : List (Nat × Nat))
    (hup : Up m 0 (rootsStack n).reverse us) (sig : Bytes) (hsl : sig.length = 64)
    (hver : C.verify c.publicKey (signableAt C bs n c.tree.fork) sig = true) (i : Nat) (hi : i < m) :
    (c.verifyAndApply C d (honestBlockGrowth C bs c d i m n us sig)).result = .ok true
      ∧ RP C bs n (c.verifyAndApply C d (honestBlockGrowth C bs c d i m n us sig)).core
          (d.applyAll (c.verifyAndApply C d (honestBlockGrowth C bs c d i m n us sig)).journal) (fun j => held j || j == i)
      ∧ (c.verifyAndApply C d (honestBlockGrowth C bs c d i m n us sig)).core.publicKey = c.publicKey
      ∧ (c.verifyAndApply C d (honestBlockGrowth C bs c d i m n us sig)).core.tree.fork = c.tree.fork := by
  obtain ⟨c1, e, j0, hok⟩ := blockgrow_ok C hC hT bs m n c d held h hm0 hmn hn us hup sig hsl hver i hi
  exact rp_of_ok C bs m n c c1 d held _ _ e j0 h hok

end HC.BlockGrow
