import HC.Proofs.LiveRefine
/-!
Which indices a logged entry touches, and what a trace of entries can and cannot do to the held set.
These are the facts that make the replay on open insensitive to bitfield pages that were already
flushed when the process died (pages that hold a *later* state than the header the replay starts from).
-/
namespace HC.Touch
open HC HC.Oplog HC.LogSpec HC.LiveRefine

/-- the entry's bitfield update covers index `i` -/
def Touches (e : Entry) (i : Nat) : Prop := ∃ u, e.bitfield = some u ∧ u.start ≤ i ∧ i < u.start + u.length

/-- the entry drops index `i` -/
def Clears (e : Entry) (i : Nat) : Prop := ∃ u, e.bitfield = some u ∧ u.drop = true ∧ u.start ≤ i ∧ i < u.start + u.length

theorem Clears.touches {e : Entry} {i : Nat} (h : Clears e i) : Touches e i := by
  obtain ⟨u, h1, _, h3, h4⟩ := h; exact ⟨u, h1, h3, h4⟩

/-! ### one entry -/

theorem step_size_le (C : Crypto) (a a' : Abs) (e : Entry) (h : EntryStep C a e a') : a.blocks.size ≤ a'.blocks.size := by
  cases h with
  | append batch nodes sig fk hne hw _ _ _ _ =>
    have hemp : batch.isEmpty = false := by cases batch with | nil => exact absurd rfl hne | cons _ _ => rfl
    simp [Abs.step, hw, hemp]
  | clear s e hse =>
    have hge : ¬ s ≥ e := by omega
    simp [Abs.step, hge]

theorem step_blocks (C : Crypto) (a a' : Abs) (e : Entry) (h : EntryStep C a e a') : ∃ l : List Bytes, a'.blocks = a.blocks ++ l.toArray := by
  cases h with
  | append batch nodes sig fk hne hw _ _ _ _ =>
    have hemp : batch.isEmpty = false := by cases batch with | nil => exact absurd rfl hne | cons _ _ => rfl
    exact ⟨batch, by simp [Abs.step, hw, hemp]⟩
  | clear s e hse =>
    have hge : ¬ s ≥ e := by omega
    exact ⟨[], by simp [Abs.step, hge]⟩

/-- an index the entry does not touch keeps its bit -/
theorem step_untouched (C : Crypto) (a a' : Abs) (e : Entry) (h : EntryStep C a e a') (i : Nat) (hu : ¬ Touches e i) :
    a'.held i = a.held i := by
  cases h with
  | append batch nodes sig fk hne hw _ _ _ _ =>
    have hemp : batch.isEmpty = false := by cases batch with | nil => exact absurd rfl hne | cons _ _ => rfl
    have : ¬ (a.blocks.size ≤ i ∧ i < a.blocks.size + batch.length) := fun hh => hu ⟨_, rfl, hh.1, hh.2⟩
    simp only [Abs.step, hw, hemp, Bool.true_eq_false, Bool.false_eq_true, ite_false]
    by_cases h1 : a.blocks.size ≤ i
    · have : ¬ i < a.blocks.size + batch.length := by omega
      simp [h1, this]
    · simp [h1]
  | clear s e hse =>
    have hge : ¬ s ≥ e := by omega
    have : ¬ (s ≤ i ∧ i < s + (e - s)) := fun hh => hu ⟨_, rfl, hh.1, hh.2⟩
    simp only [Abs.step, hge, ite_false]
    by_cases h1 : s ≤ i
    · have : ¬ i < e := by omega
      simp [h1, this]
    · simp [h1]

/-- a held index stays held unless the entry drops it -/
theorem step_kept (C : Crypto) (a a' : Abs) (e : Entry) (h : EntryStep C a e a') (i : Nat) (hh : a.held i = true) :
    a'.held i = true ∨ Clears e i := by
  cases h with
  | append batch nodes sig fk hne hw _ _ _ _ =>
    have hemp : batch.isEmpty = false := by cases batch with | nil => exact absurd rfl hne | cons _ _ => rfl
    left
    simp [Abs.step, hw, hemp, hh]
  | clear s e hse =>
    have hge : ¬ s ≥ e := by omega
    by_cases hin : s ≤ i ∧ i < e
    · right; exact ⟨_, rfl, rfl, hin.1, by show i < s + (e - s); omega⟩
    · left
      simp only [Abs.step, hge, ite_false, hh, Bool.true_and]
      by_cases h1 : s ≤ i
      · have : ¬ i < e := by omega
        simp [h1, this]
      · simp [h1]

/-- a writer's entries never set a bit below the length -/
theorem step_low (C : Crypto) (a a' : Abs) (e : Entry) (h : EntryStep C a e a') (i : Nat) (hi : i < a.blocks.size)
    (hh : a.held i = false) : a'.held i = false := by
  cases h with
  | append batch nodes sig fk hne hw _ _ _ _ =>
    have hemp : batch.isEmpty = false := by cases batch with | nil => exact absurd rfl hne | cons _ _ => rfl
    have : ¬ a.blocks.size ≤ i := by omega
    simp [Abs.step, hw, hemp, hh, this]
  | clear s e hse =>
    have hge : ¬ s ≥ e := by omega
    simp [Abs.step, hge, hh]

/-- held indices stay below the length -/
theorem step_heldLt (C : Crypto) (a a' : Abs) (e : Entry) (h : EntryStep C a e a')
    (hlt : ∀ i, a.held i = true → i < a.blocks.size) : ∀ i, a'.held i = true → i < a'.blocks.size := by
  cases h with
  | append batch nodes sig fk hne hw _ _ _ _ =>
    have hemp : batch.isEmpty = false := by cases batch with | nil => exact absurd rfl hne | cons _ _ => rfl
    intro i hi
    simp only [Abs.step, hw, hemp, Bool.true_eq_false, Bool.false_eq_true, ite_false, Bool.or_eq_true, Bool.and_eq_true, decide_eq_true_eq,
      Array.size_append, List.size_toArray] at hi ⊢
    rcases hi with hi | hi
    · have := hlt i hi; omega
    · omega
  | clear s e hse =>
    have hge : ¬ s ≥ e := by omega
    intro i hi
    simp only [Abs.step, hge, ite_false, Bool.and_eq_true] at hi ⊢
    exact hlt i hi.1

/-! ### a trace -/

theorem trace_size_le (C : Crypto) (a0 a : Abs) (es : List Entry) (h : Trace C a0 es a) : a0.blocks.size ≤ a.blocks.size := by
  induction h with
  | nil a => exact Nat.le_refl _
  | cons a a1 a2 e es hs _ _ ih => exact Nat.le_trans (step_size_le C a a1 e hs) ih

theorem trace_small (C : Crypto) (a0 a : Abs) (es : List Entry) (h : Trace C a0 es a) (h0 : Small a0) : Small a := by
  induction h with
  | nil a => exact h0
  | cons a a1 a2 e es _ hsm _ ih => exact ih hsm

theorem trace_blocks (C : Crypto) (a0 a : Abs) (es : List Entry) (h : Trace C a0 es a) :
    ∃ l : List Bytes, a.blocks = a0.blocks ++ l.toArray := by
  induction h with
  | nil a => exact ⟨[], by simp⟩
  | cons a a1 a2 e es hs _ _ ih =>
    obtain ⟨l1, h1⟩ := step_blocks C a a1 e hs
    obtain ⟨l2, h2⟩ := ih
    exact ⟨l1 ++ l2, by rw [h2, h1]; simp [Array.append_assoc]⟩

theorem trace_untouched (C : Crypto) (a0 a : Abs) (es : List Entry) (h : Trace C a0 es a) (i : Nat)
    (hu : ∀ e ∈ es, ¬ Touches e i) : a.held i = a0.held i := by
  induction h with
  | nil a => rfl
  | cons a a1 a2 e es hs _ _ ih =>
    rw [ih (fun x hx => hu x (by simp [hx])), step_untouched C a a1 e hs i (hu e (by simp))]

theorem trace_kept (C : Crypto) (a0 a : Abs) (es : List Entry) (h : Trace C a0 es a) (i : Nat) (hh : a0.held i = true) :
    a.held i = true ∨ ∃ e ∈ es, Clears e i := by
  induction h with
  | nil a => exact Or.inl hh
  | cons a a1 a2 e es hs _ _ ih =>
    rcases step_kept C a a1 e hs i hh with h1 | h1
    · rcases ih h1 with h2 | ⟨x, hx, hc⟩
      · exact Or.inl h2
      · exact Or.inr ⟨x, by simp [hx], hc⟩
    · exact Or.inr ⟨e, by simp, h1⟩

theorem trace_low (C : Crypto) (a0 a : Abs) (es : List Entry) (h : Trace C a0 es a) (i : Nat) (hi : i < a0.blocks.size)
    (hh : a0.held i = false) : a.held i = false := by
  induction h with
  | nil a => exact hh
  | cons a a1 a2 e es hs _ _ ih =>
    exact ih (Nat.lt_of_lt_of_le hi (step_size_le C a a1 e hs)) (step_low C a a1 e hs i hi hh)

theorem trace_heldLt (C : Crypto) (a0 a : Abs) (es : List Entry) (h : Trace C a0 es a)
    (hlt : ∀ i, a0.held i = true → i < a0.blocks.size) : ∀ i, a.held i = true → i < a.blocks.size := by
  induction h with
  | nil a => exact hlt
  | cons a a1 a2 e es hs _ _ ih => exact ih (step_heldLt C a a1 e hs hlt)

end HC.Touch
