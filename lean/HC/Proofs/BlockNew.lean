import HC.Proofs.BlockUpgrade
/-!
A block of the **new part** together with an upgrade in one proof (C03, tree level) — the usual shape of a download:
"send me block `i ≥ m` and upgrade me from `m`".  The writer sends the block with its sibling path up to the node of the
upgrade's position list that contains it and leaves that node out of the upgrade section.  On the replica `verify_tree`
recomputes the node and hands it to `verify_upgrade` as the *extra* node of its queue, where it is taken exactly when its
turn comes: `Rel` / `shift_rel` / `growLoop_rel` / `upgradeRoots_rel` simulate the run on the plain queue (all nodes in
the list) by the run with one node in the extra slot; `verifyUpgrade_addOld` shows that the upgrade does not look at the
nodes the block climb has already recorded.
-/
namespace HC.BlockNew
open HC HC.Codec HC.Flat HC.Tree HC.RefTree HC.RefProof HC.Sound HC.Offsets HC.TreeStore HC.Complete HC.UpgradeSound
  HC.Replica HC.Growth HC.HashReq HC.BlockUpgrade

/-! ### `verify_upgrade` does not look at the nodes already recorded in the changeset -/

def addOld (r : List Node) (cs : Changeset) : Changeset := { cs with rnodes := cs.rnodes ++ r }

theorem mergeLoop_addOld (C : Crypto) (r : List Node) : ∀ (fuel : Nat) (rr nodes : List Node) (it : Iter),
    mergeLoop C fuel rr (nodes ++ r) it = ((mergeLoop C fuel rr nodes it).1, (mergeLoop C fuel rr nodes it).2.1 ++ r, (mergeLoop C fuel rr nodes it).2.2) := by
  intro fuel
  induction fuel with
  | zero => intro rr nodes it; simp [mergeLoop]
  | succ fuel ih =>
    intro rr nodes it
    match rr with
    | [] => simp [mergeLoop]
    | [a] => simp [mergeLoop]
    | a :: b :: rest =>
      simp only [mergeLoop]
      split
      · rfl
      · rw [← List.cons_append, ih]

theorem appendRoot_addOld (C : Crypto) (r : List Node) (cs : Changeset) (n : Node) (it : Iter) :
    appendRoot C (addOld r cs) n it = (addOld r (appendRoot C cs n it).1, (appendRoot C cs n it).2) := by
  simp only [appendRoot, addOld]
  rw [← List.cons_append, mergeLoop_addOld]

theorem growLoop_addOld (C : Crypto) (r : List Node) (ri : Nat) : ∀ (fuel : Nat) (cs : Changeset) (it : Iter) (q : NodeQueue) (cs' : Changeset) (it' : Iter) (q' : NodeQueue),
    growLoop C ri fuel cs it q = .ok (cs', it', q') → growLoop C ri fuel (addOld r cs) it q = .ok (addOld r cs', it', q') := by
  intro fuel
  induction fuel with
  | zero => intro cs it q cs' it' q' h; simp [growLoop] at h
  | succ fuel ih =>
    intro cs it q cs' it' q' h
    simp only [growLoop] at h ⊢
    by_cases hi : it.index = ri
    · simp only [hi, ite_true, Except.ok.injEq, Prod.mk.injEq] at h ⊢
      obtain ⟨rfl, rfl, rfl⟩ := h
      exact ⟨rfl, rfl, rfl⟩
    · simp only [hi, ite_false] at h ⊢
      cases hs : q.shift it.sibling.index with
      | error e => rw [hs] at h; cases h
      | ok pr =>
        obtain ⟨n, q1⟩ := pr
        rw [hs] at h
        simp only [] at h ⊢
        rw [appendRoot_addOld]
        exact ih _ _ _ _ _ _ h

theorem upgradeRoots_addOld (C : Crypto) (r : List Node) (upto : Nat) : ∀ (fuel : Nat) (cs : Changeset) (it0 : Iter) (q : NodeQueue) (i : Nat) (g : Bool) (st' : UpState),
    upgradeRoots C upto fuel ⟨cs, it0, q, i, g⟩ = .ok st' →
    upgradeRoots C upto fuel ⟨addOld r cs, it0, q, i, g⟩ = .ok { st' with cs := addOld r st'.cs } := by
  intro fuel
  induction fuel with
  | zero => intro cs it0 q i g st' h; simp [upgradeRoots] at h
  | succ fuel ih =>
    intro cs it0 q i g st' h
    simp only [upgradeRoots] at h ⊢
    generalize hfr : it0.fullRoot upto = fr at h ⊢
    obtain ⟨full, it⟩ := fr
    simp only [] at h ⊢
    have hroots : (addOld r cs).roots = cs.roots := rfl
    by_cases hfull : (!full) = true
    · simp only [hfull, ite_true, Except.ok.injEq] at h ⊢
      subst h
      rfl
    · simp only [hfull, Bool.false_eq_true, ite_false, hroots] at h ⊢
      by_cases hm : i < cs.roots.length ∧ (cs.roots.getD i default).index = it.index
      · simp only [hm, and_self, ite_true] at h ⊢
        exact ih cs it.nextTree q (i + 1) g st' h
      · simp only [hm, ite_false] at h ⊢
        by_cases hg : g = true ∧ i < cs.roots.length
        · simp only [hg, and_self, ite_true] at h ⊢
          cases hgl : growLoop C it.index (q.nodes.length + 3) cs (Iter.new (cs.roots.getLast?.getD default).index) q with
          | error e => rw [hgl] at h; cases h
          | ok pr =>
            obtain ⟨cs1, it1, q1⟩ := pr
            rw [hgl] at h
            rw [growLoop_addOld C r it.index _ _ _ _ cs1 it1 q1 hgl]
            simp only [] at h ⊢
            exact ih cs1 it1.nextTree q1 i false st' h
        · simp only [hg, ite_false] at h ⊢
          cases hs : q.shift it.index with
          | error e => rw [hs] at h; cases h
          | ok pr =>
            obtain ⟨n, q1⟩ := pr
            rw [hs] at h
            simp only [] at h ⊢
            rw [appendRoot_addOld]
            exact ih _ _ q1 i false st' h

theorem verifyUpgrade_noadd (C : Crypto) (fork : Nat) (u : DataUpgrade) (x : Option Node) (pk : Bytes) (cs : Changeset) (hadd : u.additionalNodes = []) :
    verifyUpgrade C fork u x pk cs =
      andThen (upgradeRoots C (2 * (u.start + u.length)) (2 * (u.start + u.length) + 2) ⟨cs, Iter.new 0, NodeQueue.new u.nodes x, 0, !cs.roots.isEmpty⟩) fun st =>
        match st.cs.roots.getLast? with
        | none => .error .err
        | some _ => checkSignature C fork u pk st.q.extra.isNone st.cs := by
  unfold verifyUpgrade
  simp only [hadd, List.length_nil, Nat.zero_add]
  congr 1

theorem checkSignature_addOld (C : Crypto) (r : List Node) (fork : Nat) (u : DataUpgrade) (pk : Bytes) (b : Bool) (cs : Changeset) (c : Bool) (cs' : Changeset)
    (h : checkSignature C fork u pk b cs = .ok (c, cs')) : checkSignature C fork u pk b (addOld r cs) = .ok (c, addOld r cs') := by
  unfold checkSignature at h ⊢
  have e1 : (addOld r cs).roots = cs.roots := rfl
  have e2 : (addOld r cs).length = cs.length := rfl
  simp only [e1, e2] at h ⊢
  by_cases h1 : u.signature.length ≠ 64
  · rw [if_pos h1] at h; cases h
  · rw [if_neg h1] at h ⊢
    by_cases h2 : (!C.verify pk (signable (rootsHash C cs.roots) cs.length fork) u.signature) = true
    · rw [if_pos h2] at h; cases h
    · rw [if_neg h2] at h ⊢
      simp only [Except.ok.injEq, Prod.mk.injEq] at h ⊢
      obtain ⟨rfl, rfl⟩ := h
      exact ⟨rfl, rfl⟩

/-- **the upgrade does not depend on the nodes the block climb has recorded**: with other old nodes in the changeset
    it gives the same answer and the same changeset with those nodes behind -/
theorem verifyUpgrade_addOld (C : Crypto) (r : List Node) (fork : Nat) (u : DataUpgrade) (x : Option Node) (pk : Bytes) (cs : Changeset)
    (hadd : u.additionalNodes = []) (c : Bool) (cs' : Changeset) (h : verifyUpgrade C fork u x pk cs = .ok (c, cs')) :
    verifyUpgrade C fork u x pk (addOld r cs) = .ok (c, addOld r cs') := by
  rw [verifyUpgrade_noadd C fork u x pk _ hadd] at h ⊢
  obtain ⟨st, hst, hrest⟩ := andThen_ok _ _ _ h
  have hr : (addOld r cs).roots = cs.roots := rfl
  rw [hr, upgradeRoots_addOld C r _ _ cs (Iter.new 0) (NodeQueue.new u.nodes x) 0 (!cs.roots.isEmpty) st hst]
  simp only [andThen]
  have hr2 : (addOld r st.cs).roots = st.cs.roots := rfl
  rw [hr2]
  cases hl : st.cs.roots.getLast? with
  | none => rw [hl] at hrest; cases hrest
  | some last =>
    rw [hl] at hrest
    simp only [] at hrest ⊢
    exact checkSignature_addOld C r fork u pk _ st.cs c cs' hrest

/-! ### an extra node that is asked for exactly when its turn comes -/

/-- `qx` is the plain queue `q` with one node `x` moved into the extra slot (`x` not yet asked for), or `x` has been taken
    and both are the same plain queue -/
def Rel (x : Node) (q qx : NodeQueue) : Prop :=
  (∃ a b, q.nodes = a ++ x :: b ∧ qx.nodes = a ++ b ∧ qx.extra = some x ∧ q.extra = none ∧ ∀ n ∈ a, n.index ≠ x.index)
    ∨ (qx.nodes = q.nodes ∧ qx.extra = none ∧ q.extra = none)

theorem shift_rel (x : Node) (q qx : NodeQueue) (h : Rel x q qx) (idx : Nat) (n : Node) (q' : NodeQueue)
    (hs : q.shift idx = .ok (n, q')) :
    ∃ qx', qx.shift idx = .ok (n, qx') ∧ Rel x q' qx' ∧ q'.nodes.length + 1 = q.nodes.length := by
  rcases h with ⟨a, b, h1, h2, h3, h4, h5⟩ | ⟨h1, h2, h3⟩
  · unfold NodeQueue.shift at hs ⊢
    rw [h4] at hs
    rw [h3]
    simp only [] at hs ⊢
    cases a with
    | nil =>
      simp only [List.nil_append] at h1 h2
      rw [h1] at hs
      simp only [] at hs
      by_cases hx : x.index ≠ idx
      · simp [hx] at hs
      · have hx' : x.index = idx := by simpa using hx
        simp only [hx', ne_eq, not_true_eq_false, ite_false, Except.ok.injEq, Prod.mk.injEq] at hs
        obtain ⟨rfl, rfl⟩ := hs
        simp only [hx', ite_true]
        exact ⟨_, rfl, Or.inr ⟨by simp [h2], rfl, rfl⟩, by simp [h1]⟩
    | cons n0 a' =>
      simp only [List.cons_append] at h1 h2
      rw [h1] at hs
      simp only [] at hs
      by_cases hn : n0.index ≠ idx
      · simp [hn] at hs
      · have hn' : n0.index = idx := by simpa using hn
        simp only [hn', ne_eq, not_true_eq_false, ite_false, Except.ok.injEq, Prod.mk.injEq] at hs
        obtain ⟨rfl, rfl⟩ := hs
        have hxi : ¬ x.index = idx := by
          intro e
          exact h5 n0 (by simp) (by rw [hn', e])
        rw [h2]
        simp only [hxi, ite_false, hn', ne_eq, not_true_eq_false]
        exact ⟨_, rfl, Or.inl ⟨a', b, rfl, rfl, rfl, rfl, fun m hm => h5 m (List.mem_cons_of_mem _ hm)⟩, by simp [h1]⟩
  · unfold NodeQueue.shift at hs ⊢
    rw [h3] at hs
    rw [h2, h1]
    simp only [] at hs ⊢
    cases hn : q.nodes with
    | nil => rw [hn] at hs; cases hs
    | cons n0 rest =>
      rw [hn] at hs
      simp only [] at hs ⊢
      by_cases hne : n0.index ≠ idx
      · simp [hne] at hs
      · have hn' : n0.index = idx := by simpa using hne
        simp only [hn', ne_eq, not_true_eq_false, ite_false, Except.ok.injEq, Prod.mk.injEq] at hs ⊢
        obtain ⟨rfl, rfl⟩ := hs
        exact ⟨_, ⟨rfl, rfl⟩, Or.inr ⟨rfl, rfl, rfl⟩, by simp⟩

theorem rel_plain_extra (x : Node) (q qx : NodeQueue) (h : Rel x q qx) : q.extra = none := by
  rcases h with ⟨_, _, _, _, _, h4, _⟩ | ⟨_, _, h3⟩
  · exact h4
  · exact h3

theorem rel_len (x : Node) (q qx : NodeQueue) (h : Rel x q qx) : q.nodes.length ≤ qx.nodes.length + 1 := by
  rcases h with ⟨a, b, h1, h2, _, _, _⟩ | ⟨h1, _, _⟩
  · rw [h1, h2]; simp; omega
  · rw [h1]; omega

theorem growLoop_rel (C : Crypto) (x : Node) (rootIndex : Nat) : ∀ (fuel : Nat) (cs : Changeset) (it : Iter) (q qx : NodeQueue)
    (cs' : Changeset) (it' : Iter) (q' : NodeQueue), Rel x q qx →
    growLoop C rootIndex fuel cs it q = .ok (cs', it', q') → ∀ fuel', q.nodes.length + 1 ≤ fuel' →
    ∃ qx', growLoop C rootIndex fuel' cs it qx = .ok (cs', it', qx') ∧ Rel x q' qx' := by
  intro fuel
  induction fuel with
  | zero => intro cs it q qx cs' it' q' _ h; simp [growLoop] at h
  | succ fuel ih =>
    intro cs it q qx cs' it' q' hw h fuel' hf
    obtain ⟨f', rfl⟩ : ∃ f', fuel' = f' + 1 := ⟨fuel' - 1, by omega⟩
    simp only [growLoop] at h ⊢
    by_cases hi : it.index = rootIndex
    · simp only [hi, ite_true, Except.ok.injEq, Prod.mk.injEq] at h ⊢
      obtain ⟨rfl, rfl, rfl⟩ := h
      exact ⟨qx, ⟨rfl, rfl, rfl⟩, hw⟩
    · simp only [hi, ite_false] at h ⊢
      cases hs : q.shift it.sibling.index with
      | error e => rw [hs] at h; cases h
      | ok pr =>
        obtain ⟨n, q1⟩ := pr
        rw [hs] at h
        obtain ⟨qx1, hsx, hw1, hl⟩ := shift_rel x q qx hw _ n q1 hs
        rw [hsx]
        simp only [] at h ⊢
        exact ih _ _ q1 qx1 cs' it' q' hw1 h f' (by omega)

theorem upgradeRoots_rel (C : Crypto) (x : Node) (upto : Nat) : ∀ (fuel : Nat) (cs : Changeset) (it0 : Iter) (q qx : NodeQueue) (i : Nat) (g : Bool)
    (st' : UpState), Rel x q qx →
    upgradeRoots C upto fuel ⟨cs, it0, q, i, g⟩ = .ok st' →
    ∃ stx', upgradeRoots C upto fuel ⟨cs, it0, qx, i, g⟩ = .ok stx' ∧ Rel x st'.q stx'.q ∧ stx'.cs = st'.cs := by
  intro fuel
  induction fuel with
  | zero => intro cs it0 q qx i g st' _ h; simp [upgradeRoots] at h
  | succ fuel ih =>
    intro cs it0 q qx i g st' hw h
    simp only [upgradeRoots] at h ⊢
    generalize hfr : it0.fullRoot upto = fr at h ⊢
    obtain ⟨full, it⟩ := fr
    simp only [] at h ⊢
    by_cases hfull : (!full) = true
    · simp only [hfull, ite_true, Except.ok.injEq] at h ⊢
      subst h
      exact ⟨_, rfl, hw, rfl⟩
    · simp only [hfull, Bool.false_eq_true, ite_false] at h ⊢
      by_cases hm : i < cs.roots.length ∧ (cs.roots.getD i default).index = it.index
      · simp only [hm, and_self, ite_true] at h ⊢
        exact ih cs it.nextTree q qx (i + 1) g st' hw h
      · simp only [hm, ite_false] at h ⊢
        by_cases hg : g = true ∧ i < cs.roots.length
        · simp only [hg, and_self, ite_true] at h ⊢
          cases hgl : growLoop C it.index (q.nodes.length + 3) cs (Iter.new (cs.roots.getLast?.getD default).index) q with
          | error e => rw [hgl] at h; cases h
          | ok pr =>
            obtain ⟨cs1, it1, q1⟩ := pr
            rw [hgl] at h
            have hlen := rel_len x q qx hw
            obtain ⟨qx1, hglx, hw1⟩ := growLoop_rel C x it.index _ _ _ q qx cs1 it1 q1 hw hgl (qx.nodes.length + 3) (by omega)
            rw [hglx]
            simp only [] at h ⊢
            exact ih cs1 it1.nextTree q1 qx1 i false st' hw1 h
        · simp only [hg, ite_false] at h ⊢
          cases hs : q.shift it.index with
          | error e => rw [hs] at h; cases h
          | ok pr =>
            obtain ⟨n, q1⟩ := pr
            rw [hs] at h
            obtain ⟨qx1, hsx, hw1, _⟩ := shift_rel x q qx hw _ n q1 hs
            rw [hsx]
            simp only [] at h ⊢
            exact ih _ _ q1 qx1 i false st' hw1 h

/-- **an upgrade node handed over as the extra node**: if the plain upgrade consumes all its nodes, then with one of them
    (of an index no earlier node has) waiting in the extra slot instead, the upgrade gives the same changeset and reports
    the extra node as consumed -/
theorem verifyUpgrade_consumed (C : Crypto) (fork : Nat) (u : DataUpgrade) (x : Node) (pk : Bytes) (cs cs' : Changeset) (a b : List Node)
    (hn : u.nodes = a ++ x :: b) (hd : ∀ n ∈ a, n.index ≠ x.index) (hadd : u.additionalNodes = []) (st : UpState)
    (hst : upgradeRoots C (2 * (u.start + u.length)) (2 * (u.start + u.length) + 2) ⟨cs, Iter.new 0, NodeQueue.new u.nodes none, 0, !cs.roots.isEmpty⟩ = .ok st)
    (hempty : st.q.nodes = []) (c : Bool) (h : verifyUpgrade C fork u none pk cs = .ok (c, cs')) :
    verifyUpgrade C fork { u with nodes := a ++ b } (some x) pk cs = .ok (true, cs') := by
  rw [verifyUpgrade_noadd C fork u none pk cs hadd] at h
  rw [verifyUpgrade_noadd C fork { u with nodes := a ++ b } (some x) pk cs hadd]
  have hw : Rel x (NodeQueue.new u.nodes none) (NodeQueue.new (a ++ b) (some x)) :=
    Or.inl ⟨a, b, by simp [NodeQueue.new, hn], rfl, rfl, rfl, hd⟩
  obtain ⟨stx, hstx, hwx, hcs⟩ := upgradeRoots_rel C x _ _ cs (Iter.new 0) _ _ 0 (!cs.roots.isEmpty) st hw hst
  have hdone : stx.q.extra = none ∧ st.q.extra = none := by
    rcases hwx with ⟨a', b', h1, _, _, _, _⟩ | ⟨_, h2, h3⟩
    · rw [hempty] at h1
      exact absurd h1 (by simp)
    · exact ⟨h2, h3⟩
  rw [hst] at h
  simp only [andThen] at h
  show andThen (upgradeRoots C (2 * (u.start + u.length)) (2 * (u.start + u.length) + 2) ⟨cs, Iter.new 0, NodeQueue.new (a ++ b) (some x), 0, !cs.roots.isEmpty⟩) _ = _
  rw [hstx]
  simp only [andThen, hcs]
  cases hl : st.cs.roots.getLast? with
  | none => rw [hl] at h; cases h
  | some last =>
    rw [hl] at h
    simp only [] at h ⊢
    rw [hdone.1]
    rw [hdone.2] at h
    simp only [Option.isNone_none] at h ⊢
    unfold checkSignature at h ⊢
    simp only [] at h ⊢
    by_cases h1 : u.signature.length ≠ 64
    · rw [if_pos h1] at h; cases h
    · rw [if_neg h1] at h ⊢
      split at h
      · cases h
      · rename_i h2
        rw [if_neg h2]
        simp only [Except.ok.injEq, Prod.mk.injEq] at h ⊢
        exact ⟨trivial, h.2⟩

theorem verifyUpgrade_consumed' (C : Crypto) (fork start len : Nat) (na nb : List Node) (x : Node) (sig pk : Bytes) (cs cs' : Changeset)
    (hd : ∀ n ∈ na, n.index ≠ x.index) (st : UpState)
    (hst : upgradeRoots C (2 * (start + len)) (2 * (start + len) + 2) ⟨cs, Iter.new 0, NodeQueue.new (na ++ x :: nb) none, 0, !cs.roots.isEmpty⟩ = .ok st)
    (hempty : st.q.nodes = []) (c : Bool) (h : verifyUpgrade C fork ⟨start, len, na ++ x :: nb, [], sig⟩ none pk cs = .ok (c, cs')) :
    verifyUpgrade C fork ⟨start, len, na ++ nb, [], sig⟩ (some x) pk cs = .ok (true, cs') :=
  verifyUpgrade_consumed C fork ⟨start, len, na ++ x :: nb, [], sig⟩ x pk cs cs' na nb rfl hd rfl st hst hempty c h

/-! ### every node the upgrade takes from its queue is recorded in the changeset -/

theorem appendRoot_pushes (C : Crypto) (cs : Changeset) (n : Node) (it : Iter) :
    ∃ U, (appendRoot C cs n it).1.rnodes = U ++ n :: cs.rnodes := by
  obtain ⟨U, hU⟩ := mergeLoop_suffix C (cs.roots.length + 1) (n :: cs.roots.reverse) (n :: cs.rnodes) it
  exact ⟨U, by simp only [appendRoot]; rw [hU]⟩

/-- what a run of the queue loops has taken (`taken`, oldest first) is in the changeset, in front of what was there -/
def Pushed (cs : Changeset) (q : NodeQueue) (cs' : Changeset) (q' : NodeQueue) : Prop :=
  ∃ taken, q.nodes = taken ++ q'.nodes ∧ (∀ x ∈ taken, x ∈ cs'.rnodes) ∧ (∃ U, cs'.rnodes = U ++ cs.rnodes) ∧ q'.extra = none

theorem shift_plain_nodes (q : NodeQueue) (hq : q.extra = none) (idx : Nat) (n : Node) (q' : NodeQueue) (hs : q.shift idx = .ok (n, q')) :
    q.nodes = n :: q'.nodes ∧ q'.extra = none := by
  unfold NodeQueue.shift at hs
  rw [hq] at hs
  simp only [] at hs
  cases hn : q.nodes with
  | nil => rw [hn] at hs; cases hs
  | cons a rest =>
    rw [hn] at hs
    simp only [] at hs
    by_cases ha : a.index ≠ idx
    · simp [ha] at hs
    · have ha' : a.index = idx := by simpa using ha
      simp only [ha', ne_eq, not_true_eq_false, ite_false, Except.ok.injEq, Prod.mk.injEq] at hs
      obtain ⟨rfl, rfl⟩ := hs
      exact ⟨rfl, rfl⟩

theorem pushed_step (C : Crypto) (cs : Changeset) (q : NodeQueue) (n : Node) (q1 : NodeQueue) (it : Iter) (cs' : Changeset) (q' : NodeQueue)
    (h1 : q.nodes = n :: q1.nodes) (h2 : Pushed (appendRoot C cs n it).1 q1 cs' q') : Pushed cs q cs' q' := by
  obtain ⟨taken, t1, t2, ⟨U, t3⟩, t4⟩ := h2
  obtain ⟨V, hV⟩ := appendRoot_pushes C cs n it
  refine ⟨n :: taken, by rw [h1, t1]; rfl, ?_, ⟨U ++ V ++ [n], by rw [t3, hV]; simp⟩, t4⟩
  intro x hx
  rcases List.mem_cons.mp hx with rfl | hx
  · rw [t3, hV]; simp
  · exact t2 x hx

theorem growLoop_pushed (C : Crypto) (ri : Nat) : ∀ (fuel : Nat) (cs : Changeset) (it : Iter) (q : NodeQueue) (cs' : Changeset) (it' : Iter) (q' : NodeQueue),
    q.extra = none → growLoop C ri fuel cs it q = .ok (cs', it', q') → Pushed cs q cs' q' := by
  intro fuel
  induction fuel with
  | zero => intro cs it q cs' it' q' _ h; simp [growLoop] at h
  | succ fuel ih =>
    intro cs it q cs' it' q' hq h
    simp only [growLoop] at h
    by_cases hi : it.index = ri
    · simp only [hi, ite_true, Except.ok.injEq, Prod.mk.injEq] at h
      obtain ⟨rfl, rfl, rfl⟩ := h
      exact ⟨[], rfl, (fun x hx => by cases hx), ⟨[], rfl⟩, hq⟩
    · simp only [hi, ite_false] at h
      cases hs : q.shift it.sibling.index with
      | error e => rw [hs] at h; cases h
      | ok pr =>
        obtain ⟨n, q1⟩ := pr
        rw [hs] at h
        simp only [] at h
        obtain ⟨e1, e2⟩ := shift_plain_nodes q hq _ n q1 hs
        exact pushed_step C cs q n q1 _ cs' q' e1 (ih _ _ q1 cs' it' q' e2 h)

theorem pushed_trans (cs : Changeset) (q : NodeQueue) (cs1 : Changeset) (q1 : NodeQueue) (cs' : Changeset) (q' : NodeQueue)
    (h1 : Pushed cs q cs1 q1) (h2 : Pushed cs1 q1 cs' q') : Pushed cs q cs' q' := by
  obtain ⟨ta, a1, a2, ⟨U, a3⟩, _⟩ := h1
  obtain ⟨tb, b1, b2, ⟨V, b3⟩, b4⟩ := h2
  refine ⟨ta ++ tb, by rw [a1, b1, List.append_assoc], ?_, ⟨V ++ U, by rw [b3, a3, List.append_assoc]⟩, b4⟩
  intro x hx
  rcases List.mem_append.mp hx with hx | hx
  · rw [b3]; exact List.mem_append.mpr (Or.inr (a2 x hx))
  · exact b2 x hx

theorem upgradeRoots_pushed (C : Crypto) (upto : Nat) : ∀ (fuel : Nat) (cs : Changeset) (it0 : Iter) (q : NodeQueue) (i : Nat) (g : Bool) (st' : UpState),
    q.extra = none → upgradeRoots C upto fuel ⟨cs, it0, q, i, g⟩ = .ok st' → Pushed cs q st'.cs st'.q := by
  intro fuel
  induction fuel with
  | zero => intro cs it0 q i g st' _ h; simp [upgradeRoots] at h
  | succ fuel ih =>
    intro cs it0 q i g st' hq h
    simp only [upgradeRoots] at h
    generalize hfr : it0.fullRoot upto = fr at h
    obtain ⟨full, it⟩ := fr
    simp only [] at h
    by_cases hfull : (!full) = true
    · simp only [hfull, ite_true, Except.ok.injEq] at h
      subst h
      exact ⟨[], rfl, (fun x hx => by cases hx), ⟨[], rfl⟩, hq⟩
    · simp only [hfull, Bool.false_eq_true, ite_false] at h
      by_cases hm : i < cs.roots.length ∧ (cs.roots.getD i default).index = it.index
      · simp only [hm, and_self, ite_true] at h
        exact ih cs it.nextTree q (i + 1) g st' hq h
      · simp only [hm, ite_false] at h
        by_cases hg : g = true ∧ i < cs.roots.length
        · simp only [hg, and_self, ite_true] at h
          cases hgl : growLoop C it.index (q.nodes.length + 3) cs (Iter.new (cs.roots.getLast?.getD default).index) q with
          | error e => rw [hgl] at h; cases h
          | ok pr =>
            obtain ⟨cs1, it1, q1⟩ := pr
            rw [hgl] at h
            simp only [] at h
            have p1 := growLoop_pushed C it.index _ _ _ q cs1 it1 q1 hq hgl
            exact pushed_trans cs q cs1 q1 st'.cs st'.q p1 (ih cs1 it1.nextTree q1 i false st' (by obtain ⟨_, _, _, _, e⟩ := p1; exact e) h)
        · simp only [hg, ite_false] at h
          cases hs : q.shift it.index with
          | error e => rw [hs] at h; cases h
          | ok pr =>
            obtain ⟨n, q1⟩ := pr
            rw [hs] at h
            simp only [] at h
            obtain ⟨e1, e2⟩ := shift_plain_nodes q hq _ n q1 hs
            exact pushed_step C cs q n q1 _ st'.cs st'.q e1 (ih _ _ q1 i false st' e2 h)

/-- the changeset of a plain upgrade without additional nodes is the one of its root loop, up to fork, hash and signature -/
theorem verifyUpgrade_rnodes (C : Crypto) (fork : Nat) (u : DataUpgrade) (pk : Bytes) (cs : Changeset) (hadd : u.additionalNodes = []) (st : UpState)
    (hst : upgradeRoots C (2 * (u.start + u.length)) (2 * (u.start + u.length) + 2) ⟨cs, Iter.new 0, NodeQueue.new u.nodes none, 0, !cs.roots.isEmpty⟩ = .ok st)
    (c : Bool) (cs' : Changeset) (h : verifyUpgrade C fork u none pk cs = .ok (c, cs')) : cs'.rnodes = st.cs.rnodes := by
  rw [verifyUpgrade_noadd C fork u none pk cs hadd, hst] at h
  simp only [andThen] at h
  cases hl : st.cs.roots.getLast? with
  | none => rw [hl] at h; cases h
  | some last =>
    rw [hl] at h
    simp only [] at h
    unfold checkSignature at h
    simp only [] at h
    split at h
    · cases h
    · split at h
      · cases h
      · simp only [Except.ok.injEq, Prod.mk.injEq] at h
        rw [← h.2]

/-! ### the honest position list covers `[m, n)` -/

theorem cover_append {l1 l2 : List (Nat × Nat)} {a b c : Nat} (h1 : Cover l1 a b) (h2 : Cover l2 b c) : Cover (l1 ++ l2) a c := by
  induction h1 with
  | nil a => exact h2
  | cons d o a b rest ha _ ih => exact Cover.cons d o a c (rest ++ l2) ha (ih h2)

theorem cover_of_grow : ∀ (gs : List (Nat × Nat)) (L E : Nat), Grow gs L E → Cover gs L E := by
  intro gs L E hg
  induction hg with
  | nil E => exact Cover.nil E
  | cons J M E rest _ _ _ ih =>
    refine Cover.cons J M _ E rest rfl ?_
    have : (M + 1) * 2 ^ J = M * 2 ^ J + 2 ^ J := by ring
    rw [this]; exact ih

theorem up_cover (m n : Nat) : ∀ (ln : List (Nat × Nat)) (s : Nat) (us : List (Nat × Nat)), Cover ln s n → Up m s ln us → Cover us m n := by
  intro ln
  induction ln with
  | nil =>
    intro s us hc hup
    cases hup with
    | plain => exact hc
  | cons p ln ih =>
    intro s us hc hup
    obtain ⟨d, o⟩ := p
    have hrest : Cover ln ((o + 1) * 2 ^ d) n := by
      cases hc with
      | cons _ _ _ _ _ _ hr => exact hr
    rcases hup.inv with ⟨_, _, hup'⟩ | ⟨hs, husq⟩ | ⟨gs, _, _, _, hg, husq⟩
    · exact ih _ us hrest hup'
    · subst husq; subst hs; exact hc
    · subst husq
      exact cover_append (cover_of_grow gs _ _ hg) hrest

/-- in a cover, everything before an element ends where that element starts, or earlier -/
theorem cover_before : ∀ (a : List (Nat × Nat)) (p : Nat × Nat) (b : List (Nat × Nat)) (s e : Nat), Cover (a ++ p :: b) s e →
    ∀ q ∈ a, (q.2 + 1) * 2 ^ q.1 ≤ p.2 * 2 ^ p.1 := by
  intro a
  induction a with
  | nil => intro p b s e _ q hq; cases hq
  | cons r a ih =>
    intro p b s e hc q hq
    obtain ⟨d, o⟩ := r
    have hrest : Cover (a ++ p :: b) ((o + 1) * 2 ^ d) e := by
      cases hc with
      | cons _ _ _ _ _ _ hr => exact hr
    rcases List.mem_cons.mp hq with rfl | hq
    · have := cover_lower hrest p (by simp)
      exact this
    · exact ih p b _ e hrest q hq

/-! ### the order in which reference nodes are inserted does not matter -/

theorem ref_unique (C : Crypto) (bs : Array Bytes) (x y : Node) (hx : ∃ d o, x = nodeAt C bs d o) (hy : ∃ d o, y = nodeAt C bs d o)
    (h : x.index = y.index) : x = y := by
  obtain ⟨d, o, rfl⟩ := hx
  obtain ⟨d', o', rfl⟩ := hy
  obtain ⟨rfl, rfl⟩ := index_inj _ _ _ _ (show Flat.index d o = Flat.index d' o' from h)
  rfl

theorem insertAll_two_orders (C : Crypto) (bs : Array Bytes) (u : NMap) (A B : List Node) (hA : ∀ n ∈ A, ∃ d o, n = nodeAt C bs d o)
    (hB : ∀ n ∈ B, ∃ d o, n = nodeAt C bs d o) (i : Nat) :
    (insertAll (insertAll u A) B)[i]? = (insertAll (insertAll u B) A)[i]? := by
  by_cases hb : ∃ n ∈ B, n.index = i
  · obtain ⟨y, hy, hyi, hget⟩ := insertAll_hit B (insertAll u A) i hb
    rw [hget]
    by_cases ha : ∃ n ∈ A, n.index = i
    · obtain ⟨y', hy', hyi', hget'⟩ := insertAll_hit A (insertAll u B) i ha
      rw [hget', ref_unique C bs y y' (hB y hy) (hA y' hy') (by rw [hyi, hyi'])]
    · rw [insertAll_miss A _ i (fun n hn e => ha ⟨n, hn, e⟩)]
      obtain ⟨y2, hy2, hyi2, hget2⟩ := insertAll_hit B u i hb
      rw [hget2, ref_unique C bs y y2 (hB y hy) (hB y2 hy2) (by rw [hyi, hyi2])]
  · rw [insertAll_miss B _ i (fun n hn e => hb ⟨n, hn, e⟩)]
    by_cases ha : ∃ n ∈ A, n.index = i
    · obtain ⟨y1, hy1, hyi1, hget1⟩ := insertAll_hit A u i ha
      obtain ⟨y', hy', hyi', hget'⟩ := insertAll_hit A (insertAll u B) i ha
      rw [hget1, hget', ref_unique C bs y1 y' (hA y1 hy1) (hA y' hy') (by rw [hyi1, hyi'])]
    · rw [insertAll_miss A _ i (fun n hn e => ha ⟨n, hn, e⟩), insertAll_miss A _ i (fun n hn e => ha ⟨n, hn, e⟩),
        insertAll_miss B _ i (fun n hn e => hb ⟨n, hn, e⟩)]

/-- a block path hanging on a stored node, inserted *before* the other new nodes: the tree is closed again and stores the leaf -/
theorem closedAt_with_path (C : Crypto) (hC : HashWF C) (bs : Array Bytes) (n : Nat) (hn : n ≤ bs.size) (t0 : Tree) (f : File) (G : List Node) (L : Nat)
    (hG : ∀ x ∈ G, ∃ d o, x = nodeAt C bs d o)
    (T : Tree) (hT : T.unflushed = insertAll t0.unflushed G) (hTl : T.length = L) (hcl : ClosedAt C bs n T f)
    (i k : Nat) (hstored : T.node? f (Flat.index k (i / 2 ^ k)) = some (nodeAt C bs k (i / 2 ^ k))) (hin : (i / 2 ^ k + 1) * 2 ^ k ≤ n)
    (T' : Tree) (hT' : T'.unflushed = insertAll t0.unflushed ((nodeAt C bs 0 i :: downPath C bs 0 i k) ++ G)) (hTl' : T'.length = L) :
    ClosedAt C bs n T' f ∧ T'.node? f (Flat.index 0 i) = some (nodeAt C bs 0 i) := by
  have hsz := size_extract bs n hn
  have hin0 : (i / 2 ^ k + 1) * 2 ^ (0 + k) ≤ n := by simpa using hin
  have hspan := span_le i 0 k
  have hcl' := (closed_extract C bs n hn T f).mpr hcl
  have hst' : T.node? f (Flat.index (0 + k) (i / 2 ^ k)) = some (nodeAt C (bs.extract 0 n) (0 + k) (i / 2 ^ k)) := by
    rw [Nat.zero_add, nodeAt_extract C bs n hn k (i / 2 ^ k) hin]; exact hstored
  -- the tree with the path inserted last
  have hpc := path_commit_closed C hC (bs.extract 0 n) T f hcl' 0 i k hst' (by rw [hsz]; exact hin0)
    { T with unflushed := insertAll T.unflushed (nodeAt C (bs.extract 0 n) 0 i :: downPath C (bs.extract 0 n) 0 i k) } rfl rfl
  rw [downPath_extract C bs n hn k 0 i hin0, nodeAt_extract C bs n hn 0 i (by simp only [Nat.pow_zero, Nat.mul_one] at hspan ⊢; omega)] at hpc
  obtain ⟨hc2, hleaf, _⟩ := hpc
  have hc3 := (closed_extract C bs n hn _ f).mp hc2
  have hP : ∀ x ∈ (nodeAt C bs 0 i :: downPath C bs 0 i k), ∃ d o, x = nodeAt C bs d o := by
    intro x hx
    obtain ⟨dd, o, e, _⟩ := pathNodes_bound C bs 0 i k n hin0 x hx
    exact ⟨dd, o, e⟩
  have hlook : ∀ j, T'.node? f j = ({ T with unflushed := insertAll T.unflushed (nodeAt C bs 0 i :: downPath C bs 0 i k) } : Tree).node? f j := by
    intro j
    apply node?_congr
    rw [hT', hT, insertAll_append]
    exact insertAll_two_orders C bs t0.unflushed _ G hP hG j
  refine ⟨closedAt_congr C bs n _ T' f f hc3 hlook (by rw [hTl', ← hTl]), ?_⟩
  rw [hlook]
  exact hleaf

/-! ### the honest answer to "block `i` of the new part and upgrade me from `m` to `n`" -/

/-- **an honest block + upgrade proof whose block lies in the new part passes `verify_proof`**: the block's subtree root is
    one node `(k, i / 2^k)` of the honest position list; the writer sends the block with its sibling path up to that node
    and leaves the node out of the upgrade section; the replica's block climb recomputes it, `verify_upgrade` takes it
    from the extra slot exactly when its turn comes (`verifyUpgrade_consumed`) and reports it as consumed, so no stored
    node is needed.  The changeset holds the reference roots, length and byte length of `n`, the writer's signature,
    and is commitable; every node it records is a reference node. -/
theorem honest_new_block_upgrade_accepted_at (C : Crypto) (hC : HashWF C) (bs : Array Bytes) (m n : Nat) (c : Core) (d : Disk) (held : Nat → Bool)
    (h : RepRAt C bs m c d held) (hm0 : 0 < m) (hmn : m < n) (hn : n ≤ bs.size) (us : List (Nat × Nat))
    (hup : Up m 0 (rootsStack n).reverse us) (sig : Bytes) (hsl : sig.length = 64)
    (hver : C.verify c.publicKey (signableAt C bs n c.tree.fork) sig = true) (i : Nat)
    (a b : List (Nat × Nat)) (k : Nat) (hsplit : us = a ++ (k, i / 2 ^ k) :: b) :
    ∃ (cs' : Changeset), (i / 2 ^ k + 1) * 2 ^ k ≤ n ∧ m ≤ i / 2 ^ k * 2 ^ k
      ∧ c.tree.verifyProof C d.tree
          ⟨c.tree.fork, some ⟨i, bs.getD i [], sibPath C bs 0 i k⟩, none, none,
            some ⟨m, n - m, (a ++ b).map (fun p => nodeAt C bs p.1 p.2), [], sig⟩⟩ c.publicKey = .ok cs'
      ∧ cs'.roots = rootsAt C bs n ∧ cs'.length = n ∧ cs'.byteLength = psum bs n ∧ cs'.upgraded = true ∧ cs'.signature = some sig
      ∧ cs'.fork = c.tree.fork ∧ c.tree.commitable cs' = true ∧ (∀ x ∈ cs'.nodes, ∃ dd o, x = nodeAt C bs dd o ∧ (o + 1) * 2 ^ dd ≤ n)
      ∧ ClosedAt C bs n (vt c.tree cs') d.tree ∧ nodeAt C bs 0 i ∈ cs'.nodes
      ∧ cs'.ancestors = c.tree.length ∧ cs'.origLength = c.tree.length ∧ cs'.hash = some (rootsHash C cs'.roots)
      ∧ cs'.nodes.length ≤ 64 + 2 * us.length + (2 * k + 1)
      ∧ ∃ csg, cs' = addOld (upPath C bs 0 i k ++ [nodeAt C bs 0 i]) csg ∧ Inv C bs c.tree d.tree csg n ∧ nodeAt C bs k (i / 2 ^ k) ∈ csg.nodes := by
  have hN : n < 2 ^ 64 := by have := h.small.1; omega
  have hcov := up_cover m n _ 0 us (cover_roots n) hup
  generalize hdiv : i / 2 ^ k = o at hsplit ⊢
  subst hsplit
  have hp : (k, o) ∈ a ++ (k, o) :: b := by simp
  have hbound := up_bound m n _ 0 _ (cover_roots n) hup (k, o) hp
  have hlow := up_lower m n _ 0 _ (cover_roots n) hup (k, o) hp
  simp only at hbound hlow
  -- the plain upgrade from the replica's own changeset
  have hinv0 := inv_changeset C bs m c d held h
  obtain ⟨csg, g1, g2, g4, g5, g7, g8, g9, g10, g11, g12, _⟩ := grow_upgrade_accepted C hC bs c.tree d.tree m n hN hm0 hmn c.tree.fork c.publicKey sig
    c.tree.changeset hinv0 _ hup hsl hver
  obtain ⟨st, s1, _, s3⟩ := grow_upgradeRoots_all C hC bs c.tree d.tree m n hN hm0 hmn c.tree.changeset hinv0 _ hup
  have hmn' : m + (n - m) = n := by omega
  have hd : ∀ nd ∈ a.map (fun p => nodeAt C bs p.1 p.2), nd.index ≠ (nodeAt C bs k o).index := by
    intro nd hnd e
    obtain ⟨q, hq, rfl⟩ := List.mem_map.mp hnd
    have e' : Flat.index q.1 q.2 = Flat.index k o := e
    obtain ⟨e1, e2⟩ := index_inj _ _ _ _ e'
    have := cover_before a (k, o) b m n hcov q hq
    rw [e1, e2] at this
    simp only at this
    have hpk := pow_pos' k
    have : (o + 1) * 2 ^ k = o * 2 ^ k + 2 ^ k := by ring
    omega
  have hnodes : (a ++ (k, o) :: b).map (fun p => nodeAt C bs p.1 p.2)
      = a.map (fun p => nodeAt C bs p.1 p.2) ++ nodeAt C bs k o :: b.map (fun p => nodeAt C bs p.1 p.2) := by simp
  rw [hnodes] at g1 s1
  rw [← hmn'] at s1
  have hcons : verifyUpgrade C c.tree.fork ⟨m, n - m, a.map (fun p => nodeAt C bs p.1 p.2) ++ b.map (fun p => nodeAt C bs p.1 p.2), [], sig⟩ (some (nodeAt C bs k o)) c.publicKey c.tree.changeset = .ok (true, csg) := by
    refine verifyUpgrade_consumed' C c.tree.fork m (n - m) _ _ _ sig c.publicKey c.tree.changeset csg hd st ?_ s3 true ?_
    · exact s1
    · exact g1
  -- the node the block hangs on is recorded by the upgrade
  have hRin : nodeAt C bs k o ∈ csg.rnodes := by
    obtain ⟨taken, t1, t2, _, _⟩ := upgradeRoots_pushed C _ _ c.tree.changeset (Iter.new 0) _ 0 _ st rfl s1
    rw [s3, List.append_nil] at t1
    rw [verifyUpgrade_rnodes C c.tree.fork ⟨m, n - m, a.map (fun p => nodeAt C bs p.1 p.2) ++ nodeAt C bs k o :: b.map (fun p => nodeAt C bs p.1 p.2), [], sig⟩
      c.publicKey c.tree.changeset rfl st s1 true csg g1]
    apply t2
    rw [← t1]
    simp [NodeQueue.new]
  have hadd := verifyUpgrade_addOld C (upPath C bs 0 i k ++ [nodeAt C bs 0 i]) c.tree.fork
    ⟨m, n - m, a.map (fun p => nodeAt C bs p.1 p.2) ++ b.map (fun p => nodeAt C bs p.1 p.2), [], sig⟩ (some (nodeAt C bs k o)) c.publicKey c.tree.changeset rfl true csg hcons
  have hcsb : addOld (upPath C bs 0 i k ++ [nodeAt C bs 0 i]) c.tree.changeset = { c.tree.changeset with rnodes := upPath C bs 0 i k ++ [nodeAt C bs 0 i] } := by
    simp [addOld, Tree.changeset]
  rw [hcsb, ← List.map_append] at hadd
  -- the block half
  have hnew : Iter.new (i * 2) = iat 0 i := by rw [Nat.mul_comm]; exact new_even i
  have hleaf : blockNode C (iat 0 i).index (bs.getD i []) = nodeAt C bs 0 i := by
    simp [blockNode, nodeAt, RefTree.node, iat]
  have hc := climb_exact C bs k ((plainQueue (sibPath C bs 0 i k)).length + 1) 0 i
    (nodeAt C bs 0 i :: c.tree.changeset.rnodes) (by simp [plainQueue, sibPath_length])
  simp only [Nat.zero_add, hdiv] at hc
  have hrn : c.tree.changeset.rnodes = [] := rfl
  rw [hrn] at hc
  have hroots := inv_roots C bs c.tree d.tree csg n g2
  have hnodes' : (addOld (upPath C bs 0 i k ++ [nodeAt C bs 0 i]) csg).nodes = (nodeAt C bs 0 i :: downPath C bs 0 i k) ++ csg.nodes := by
    simp [Changeset.nodes, addOld, upPath_reverse]
  have hGref : ∀ x ∈ csg.nodes, ∃ dd oo, x = nodeAt C bs dd oo ∧ (oo + 1) * 2 ^ dd ≤ n := by
    intro x hx
    exact g2.nodesRef x (by simpa [Changeset.nodes] using hx)
  have hin0 : (i / 2 ^ k + 1) * 2 ^ (0 + k) ≤ n := by simpa [hdiv] using hbound
  have hstoredR : (vt c.tree csg).node? d.tree (Flat.index k (i / 2 ^ k)) = some (nodeAt C bs k (i / 2 ^ k)) := by
    rw [hdiv]
    obtain ⟨hnew', _, _⟩ := insert_lookup C hC bs c.tree (vt c.tree csg) d.tree csg.nodes (fun x hx => by obtain ⟨dd, oo, e, _⟩ := hGref x hx; exact ⟨dd, oo, e⟩) rfl
    exact hnew' k o (by simpa [Changeset.nodes] using hRin)
  obtain ⟨hclosed, _⟩ := closedAt_with_path C hC bs n hn c.tree d.tree csg.nodes n (fun x hx => by obtain ⟨dd, oo, e, _⟩ := hGref x hx; exact ⟨dd, oo, e⟩)
    (vt c.tree csg) rfl g2.length g2.closed i k hstoredR (by simpa [hdiv] using hbound)
    (vt c.tree (addOld (upPath C bs 0 i k ++ [nodeAt C bs 0 i]) csg)) (by simp only [vt, hnodes']) g2.length
  have hrl : c.tree.changeset.roots.length ≤ 64 := by
    show c.tree.roots.length ≤ 64
    rw [h.roots, rootsAt, List.length_map, List.length_reverse]
    exact rootsStack_length_log 64 m (by omega)
  have hupl : ∀ kk dd oo, (upPath C bs dd oo kk).length = 2 * kk := by
    intro kk
    induction kk with
    | zero => intro dd oo; rfl
    | succ kk ihk => intro dd oo; simp only [upPath, List.length_append, ihk, List.length_cons, List.length_nil]; omega
  refine ⟨addOld (upPath C bs 0 i k ++ [nodeAt C bs 0 i]) csg, hbound, hlow, ?_, hroots, g2.length, g2.bytes, g7, g5, g4, ?_, ?_, hclosed, ?_,
    by rw [show (addOld _ csg).ancestors = csg.ancestors from rfl, g10]; rfl, by rw [show (addOld _ csg).origLength = csg.origLength from rfl, g8]; rfl, g11, ?_,
    ⟨csg, rfl, g2, by simpa [Changeset.nodes] using hRin⟩⟩
  · unfold verifyProof
    simp only [verifyTree, untrustedOf, noSeekOf, Option.isNone_some, Bool.false_and, Bool.false_eq_true,
      ite_false, seekHalf, andThen, mainHalf, hnew, plainQueue_eq, hleaf, hrn, hc]
    rw [hadd]
    simp
  · have ho1 : csg.origLength = c.tree.length := by rw [g8]; rfl
    have ho2 : csg.origFork = c.tree.fork := by rw [g9]; rfl
    simp [Tree.commitable, addOld, g7, ho1, ho2]
  · intro x hx
    rw [hnodes'] at hx
    rcases List.mem_append.mp hx with hx | hx
    · exact pathNodes_bound C bs 0 i k n hin0 x hx
    · exact hGref x hx
  · rw [hnodes']; simp
  · have hl1 : c.tree.changeset.rnodes.length = 0 := rfl
    have hdl : (downPath C bs 0 i k).length = 2 * k := by rw [← upPath_reverse, List.length_reverse]; exact hupl k 0 i
    rw [hnodes']
    simp only [List.length_append, List.length_cons, hdl, Changeset.nodes, List.length_reverse] at g12 ⊢
    omega

/-- the block lies under exactly one node of the honest position list -/
theorem split_exists (m n : Nat) (us : List (Nat × Nat)) (hup : Up m 0 (rootsStack n).reverse us) (i : Nat) (hmi : m ≤ i) (hi : i < n) :
    ∃ (a b : List (Nat × Nat)) (k : Nat), us = a ++ (k, i / 2 ^ k) :: b := by
  have hcov := up_cover m n _ 0 us (cover_roots n) hup
  obtain ⟨p, hp, hp1, hp2⟩ := cover_find hcov i hmi hi
  obtain ⟨k, o⟩ := p
  simp only at hp1 hp2
  have hdiv : i / 2 ^ k = o := div_eq_of_span i k o hp1 hp2
  obtain ⟨a, b, e⟩ := List.append_of_mem hp
  exact ⟨a, b, k, by rw [hdiv]; exact e⟩

theorem honest_new_block_upgrade_accepted (C : Crypto) (hC : HashWF C) (bs : Array Bytes) (m n : Nat) (c : Core) (d : Disk) (held : Nat → Bool)
    (h : RepRAt C bs m c d held) (hm0 : 0 < m) (hmn : m < n) (hn : n ≤ bs.size) (us : List (Nat × Nat))
    (hup : Up m 0 (rootsStack n).reverse us) (sig : Bytes) (hsl : sig.length = 64)
    (hver : C.verify c.publicKey (signableAt C bs n c.tree.fork) sig = true) (i : Nat) (hmi : m ≤ i) (hi : i < n) :
    ∃ (a b : List (Nat × Nat)) (k : Nat) (cs' : Changeset), us = a ++ (k, i / 2 ^ k) :: b ∧ (i / 2 ^ k + 1) * 2 ^ k ≤ n ∧ m ≤ i / 2 ^ k * 2 ^ k
      ∧ c.tree.verifyProof C d.tree
          ⟨c.tree.fork, some ⟨i, bs.getD i [], sibPath C bs 0 i k⟩, none, none,
            some ⟨m, n - m, (a ++ b).map (fun p => nodeAt C bs p.1 p.2), [], sig⟩⟩ c.publicKey = .ok cs'
      ∧ cs'.roots = rootsAt C bs n ∧ cs'.length = n ∧ cs'.byteLength = psum bs n ∧ cs'.upgraded = true ∧ cs'.signature = some sig
      ∧ cs'.fork = c.tree.fork ∧ c.tree.commitable cs' = true ∧ (∀ x ∈ cs'.nodes, ∃ dd o, x = nodeAt C bs dd o ∧ (o + 1) * 2 ^ dd ≤ n)
      ∧ ClosedAt C bs n (vt c.tree cs') d.tree ∧ nodeAt C bs 0 i ∈ cs'.nodes
      ∧ cs'.ancestors = c.tree.length ∧ cs'.origLength = c.tree.length ∧ cs'.hash = some (rootsHash C cs'.roots)
      ∧ cs'.nodes.length ≤ 64 + 2 * us.length + (2 * k + 1) := by
  obtain ⟨a, b, k, hsplit⟩ := split_exists m n us hup i hmi hi
  obtain ⟨cs', r1, r2, r3, r4, r5, r6, r7, r8, r9, r10, r11, r12, r13, r14, r15, r16, r17, _⟩ :=
    honest_new_block_upgrade_accepted_at C hC bs m n c d held h hm0 hmn hn us hup sig hsl hver i a b k hsplit
  exact ⟨a, b, k, cs', hsplit, r1, r2, r3, r4, r5, r6, r7, r8, r9, r10, r11, r12, r13, r14, r15, r16, r17⟩

end HC.BlockNew
