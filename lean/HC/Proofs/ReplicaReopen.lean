import HC.Proofs.HashReq
import HC.Proofs.Persist
/-!
Closing and reopening a replica (C03 "across replica close/reopen", C08): `Hypercore::new` on the replica's
stores — read the oplog, load the roots, replay the entries logged since the last flush — rebuilds **exactly**
the tree the live replica had (same roots, sizes, fork, signature, same unflushed map: the replay inserts the
very node lists the live calls committed), the same bits and the same header; so the reopened replica satisfies
the replica invariant for the same log, length and held set.

`PersistR` is the ghost invariant carried along the replica's history: the oplog store abstracts to (header of
the last flush, entries since), the tree store holds the roots of that flush, and replaying the entries over
the stores gives the current tree, bits and header.
-/
namespace HC.ReplicaReopen
open HC HC.Codec HC.Flat HC.Tree HC.RefTree HC.RefProof HC.Sound HC.Offsets HC.TreeStore HC.Complete HC.UpgradeSound HC.CreateTotal
  HC.Replica HC.Growth HC.HashReq HC.Oplog HC.Core HC.OplogBytes HC.FormatLimits HC.BitfieldPages HC.Touch

/-! ### `truncate` on a sparse tree that stores the roots of the target length -/

theorem mem_fullRoots_root (n : Nat) (hn : n < 2 ^ 64) (r : Nat) (hr : r ∈ fullRoots (2 * n)) :
    ∃ p ∈ rootsStack n, r = Flat.index p.1 p.2 := by
  rw [FullRoots.fullRoots_eq n hn] at hr
  obtain ⟨p, hp, rfl⟩ := List.mem_map.mp hr
  exact ⟨p, List.mem_reverse.mp hp, rfl⟩

theorem truncate_go_sparse (C : Crypto) (bs : Array Bytes) (t : Tree) (f : File) (n : Nat) (hs : n < 2 ^ 64)
    (hR : ∀ p ∈ rootsStack n, t.node? f (Flat.index p.1 p.2) = some (nodeAt C bs p.1 p.2)) :
    ∀ (rs pre : List Nat) (acc : List Node), fullRoots (2 * n) = pre ++ rs → Reopen.AllRef C bs acc →
      (acc.take pre.length).map (·.index) = pre →
      ∃ acc', Tree.truncate.go t f rs pre.length acc = .ok acc' ∧ Reopen.AllRef C bs acc'
        ∧ (acc'.take (pre.length + rs.length)).map (·.index) = pre ++ rs := by
  intro rs
  induction rs with
  | nil => intro pre acc _ ha hp; exact ⟨acc, rfl, ha, by simpa using hp⟩
  | cons r rs ih =>
    intro pre acc hfull ha hp
    have hlen : (acc.take pre.length).length = pre.length := by
      have := congrArg List.length hp; simpa using this
    have hle : pre.length ≤ acc.length := by
      rw [List.length_take] at hlen; omega
    have hfull' : fullRoots (2 * n) = (pre ++ [r]) ++ rs := by rw [hfull]; simp
    have hlen' : (pre ++ [r]).length = pre.length + 1 := by simp
    simp only [Tree.truncate.go]
    by_cases hc : pre.length < acc.length ∧ (acc.getD pre.length default).index = r
    · simp only [hc, and_self, ite_true]
      have htake : (acc.take (pre ++ [r]).length).map (·.index) = pre ++ [r] := by
        rw [hlen', List.take_add_one, List.map_append, hp]
        have hg : acc[pre.length]? = some acc[pre.length] := List.getElem?_eq_getElem hc.1
        have hgd : acc.getD pre.length default = acc[pre.length] := by simp [List.getD_eq_getElem?_getD, hg]
        have h2 := hc.2
        rw [hgd] at h2
        rw [hg]; simp [h2]
      obtain ⟨acc', h1, h2, h3⟩ := ih (pre ++ [r]) acc hfull' ha htake
      rw [hlen'] at h1 h3
      refine ⟨acc', h1, h2, ?_⟩
      have : pre.length + (r :: rs).length = pre.length + 1 + rs.length := by simp; omega
      rw [this, h3]; simp
    · simp only [hc, ite_false]
      obtain ⟨p, hp', rfl⟩ := mem_fullRoots_root n hs r (by rw [hfull]; simp)
      have hreq : t.requiredNode f (Flat.index p.1 p.2) = .ok (nodeAt C bs p.1 p.2) := by
        simp [Tree.requiredNode, hR p hp']
      simp only [hreq]
      have ha' : Reopen.AllRef C bs (acc.take pre.length ++ [nodeAt C bs p.1 p.2]) := by
        intro x hx
        rcases List.mem_append.mp hx with hx | hx
        · exact ha x (List.mem_of_mem_take hx)
        · simp at hx; subst hx; exact ⟨p.1, p.2, rfl⟩
      have htake : ((acc.take pre.length ++ [nodeAt C bs p.1 p.2]).take (pre ++ [Flat.index p.1 p.2]).length).map (·.index)
          = pre ++ [Flat.index p.1 p.2] := by
        rw [hlen', List.take_of_length_le (by simp [hlen]), List.map_append, hp]
        rfl
      obtain ⟨acc', h1, h2, h3⟩ := ih (pre ++ [Flat.index p.1 p.2]) _ hfull' ha' htake
      rw [hlen'] at h1 h3
      refine ⟨acc', h1, h2, ?_⟩
      have : pre.length + (Flat.index p.1 p.2 :: rs).length = pre.length + 1 + rs.length := by simp; omega
      rw [this, h3]; simp

theorem allRef_rootsAt (C : Crypto) (bs : Array Bytes) (n : Nat) : Reopen.AllRef C bs (rootsAt C bs n) := by
  intro x hx
  obtain ⟨p, _, rfl⟩ := List.mem_map.mp hx
  exact ⟨p.1, p.2, rfl⟩

theorem rootsAt_index (C : Crypto) (bs : Array Bytes) (n : Nat) (hn : n < 2 ^ 64) : (rootsAt C bs n).map (·.index) = fullRoots (2 * n) := by
  rw [FullRoots.fullRoots_eq n hn]
  simp [rootsAt, List.map_map, Function.comp_def, nodeAt_index]

theorem rootsAt_sum (C : Crypto) (bs : Array Bytes) (n : Nat) : ((rootsAt C bs n).map (·.length)).sum = psum bs n := by
  have := Reopen.cover_sum C bs _ 0 n (cover_roots n)
  simp only [psum, Nat.zero_add] at this
  rw [← this]
  simp [rootsAt, List.map_map, Function.comp_def]

/-- `truncate` to length `n` on a tree whose roots are reference nodes and which stores the roots of `n` -/
theorem truncate_sparse (C : Crypto) (bs : Array Bytes) (t : Tree) (f : File) (n fork : Nat) (hs : n < 2 ^ 64)
    (hR : ∀ p ∈ rootsStack n, t.node? f (Flat.index p.1 p.2) = some (nodeAt C bs p.1 p.2))
    (hroots : Reopen.AllRef C bs t.roots) :
    t.truncate f n fork = .ok { t.changeset with roots := rootsAt C bs n, fork := fork, length := n, ancestors := n, byteLength := psum bs n, upgraded := true } := by
  obtain ⟨acc', h1, h2, h3⟩ := truncate_go_sparse C bs t f n hs hR (fullRoots (2 * n)) [] t.roots (by simp) hroots (by simp)
  simp only [List.length_nil, Nat.zero_add, List.nil_append] at h1 h3
  have hcomm : n * 2 = 2 * n := Nat.mul_comm _ _
  have hroots' : acc'.take (fullRoots (2 * n)).length = rootsAt C bs n := by
    apply Reopen.allRef_eq_of_index C bs _ _ (fun x hx => h2 x (List.mem_of_mem_take hx)) (allRef_rootsAt C bs n)
    rw [h3, rootsAt_index C bs n hs]
  simp only [Tree.truncate, hcomm, h1, hroots', rootsAt_sum]

/-! ### loading the roots on open -/

theorem load_sparse (C : Crypto) (bs : Array Bytes) (f : File) :
    ∀ (l : List (Nat × Nat)), (∀ p ∈ l, ({} : Tree).node? f (Flat.index p.1 p.2) = some (nodeAt C bs p.1 p.2)) →
      Tree.openTree.load f (l.map fun p => Flat.index p.1 p.2) = .ok (l.map fun p => nodeAt C bs p.1 p.2) := by
  intro l
  induction l with
  | nil => intro _; rfl
  | cons p ps ih =>
    intro hb
    obtain ⟨bytes, hr, hn⟩ := Reopen.node?_empty f _ _ (hb p (by simp))
    simp only [List.map_cons, Tree.openTree.load, hr, ih (fun q hq => hb q (by simp [hq])), hn]

/-- `MerkleTree::open` on a store that holds the roots of the header's length -/
theorem openTree_sparse (C : Crypto) (bs : Array Bytes) (ht : HeaderTree) (f : File) (m : Nat) (hlen : ht.length = m) (hs : m < 2 ^ 64)
    (hR : ∀ p ∈ rootsStack m, ({} : Tree).node? f (Flat.index p.1 p.2) = some (nodeAt C bs p.1 p.2))
    (hsig : ht.signature = [] ∨ ht.signature.length = 64) :
    Tree.openTree ht f = .ok { roots := rootsAt C bs m, length := m, byteLength := psum bs m, fork := ht.fork, signature := if ht.signature.isEmpty then none else some ht.signature } := by
  have hidx : fullRoots (ht.length * 2) = (rootsStack m).reverse.map fun p => Flat.index p.1 p.2 := by
    rw [hlen, Nat.mul_comm]; exact FullRoots.fullRoots_eq m hs
  have hload := load_sparse C bs f (rootsStack m).reverse (fun p hp => hR p (List.mem_reverse.mp hp))
  have hfold := Reopen.cover_fold C bs _ 0 m (cover_roots m)
  simp only [Nat.mul_zero] at hfold
  have hsigc : ¬ (!ht.signature.isEmpty && decide (ht.signature.length ≠ 64)) = true := by
    rcases hsig with h | h
    · simp [h]
    · simp [h]
  have h2 : 2 * m / 2 = m := by omega
  simp only [Tree.openTree, hidx, hload]
  simp only [hsigc, Bool.false_eq_true, ite_false, hfold, h2]
  congr 2
  exact rootsAt_sum C bs m

/-! ### replaying an entry reproduces the live step -/

theorem firstMissing_unique (b b' : Bitfield) (x y : Nat) (hb : ∀ i, b.get i = b'.get i) (h1 : FirstMissing b x) (h2 : FirstMissing b' y) :
    x = y := by
  rcases Nat.lt_trichotomy x y with h | h | h
  · have := h2.1 x h
    rw [← hb] at this
    rw [h1.2] at this; cases this
  · exact h
  · have := h1.1 y h
    rw [hb] at this
    rw [h2.2] at this; cases this

/-- the hint computed over two bitfields with the same bits is the same -/
theorem updateContiguous_bits (h : Header) (b b' : Bitfield) (u : BitfieldUpdate) (hb : ∀ i, b.get i = b'.get i)
    (hc : FirstMissing b h.contiguous) (hl : 0 < u.length) :
    updateContiguous h (b.setRange u.start u.length (!u.drop)) u = updateContiguous h (b'.setRange u.start u.length (!u.drop)) u := by
  have hc' : FirstMissing b' h.contiguous := ⟨fun i hi => by rw [← hb]; exact hc.1 i hi, by rw [← hb]; exact hc.2⟩
  have s1 := updateContiguous_spec h b u hc hl
  have s2 := updateContiguous_spec h b' u hc' hl
  have hbits : ∀ i, (b.setRange u.start u.length (!u.drop)).get i = (b'.setRange u.start u.length (!u.drop)).get i := by
    intro i; rw [Bitfield.get_setRange, Bitfield.get_setRange, hb]
  have := firstMissing_unique _ _ _ _ hbits s1 s2
  rw [Reopen.updateContiguous_eq h _ u, Reopen.updateContiguous_eq h (b'.setRange _ _ _) u, this]

theorem replay_append (C : Crypto) (d : Disk) : ∀ (es : List Entry) (e : Entry) (st : Oplog.State × Header × Tree × Bitfield),
    openCore.replay C d (es ++ [e]) st = (match openCore.replay C d es st with
      | .error x => .error x
      | .ok st' => replayEntry C d st' e) := by
  intro es
  induction es with
  | nil =>
    intro e st
    simp only [List.nil_append, openCore.replay]
    cases replayEntry C d st e <;> rfl
  | cons a es ih =>
    intro e st
    simp only [List.cons_append, openCore.replay]
    cases replayEntry C d st a with
    | error x => rfl
    | ok st' => exact ih e st'

theorem replayEntry_congr (C : Crypto) (d d' : Disk) (h : d'.tree = d.tree) (st : Oplog.State × Header × Tree × Bitfield) (e : Entry) :
    replayEntry C d' st e = replayEntry C d st e := by
  unfold replayEntry
  rw [h]

theorem replay_congr (C : Crypto) (d d' : Disk) (h : d'.tree = d.tree) : ∀ (es : List Entry) (st : Oplog.State × Header × Tree × Bitfield),
    openCore.replay C d' es st = openCore.replay C d es st := by
  intro es
  induction es with
  | nil => intro st; rfl
  | cons a es ih =>
    intro st
    simp only [openCore.replay, replayEntry_congr C d d' h]
    cases replayEntry C d st a with
    | error x => rfl
    | ok st' => exact ih st'

/-- a replay state matches a live core: same header, same tree, same bits -/
def Matches (st : Oplog.State × Header × Tree × Bitfield) (c : Core) : Prop :=
  st.2.1 = c.header ∧ st.2.2.1 = c.tree ∧ ∀ i, st.2.2.2.get i = c.bitfield.get i

/-- replaying a block entry -/
theorem replay_block (C : Crypto) (d : Disk) (c : Core) (ol : Oplog.State) (b : Bitfield) (nodes : List Node) (i : Nat)
    (hb : ∀ j, b.get j = c.bitfield.get j) (hc : FirstMissing c.bitfield c.header.contiguous) :
    replayEntry C d (ol, c.header, c.tree, b) { treeNodes := nodes, treeUpgrade := none, bitfield := some ⟨false, i, 1⟩ }
        = .ok (ol, updateContiguous c.header (c.bitfield.setRange i 1 true) ⟨false, i, 1⟩,
            { c.tree with unflushed := insertAll c.tree.unflushed nodes }, b.setRange i 1 true)
      ∧ ∀ j, (b.setRange i 1 true).get j = (c.bitfield.setRange i 1 true).get j := by
  have hc' : FirstMissing b c.header.contiguous := ⟨fun j hj => by rw [hb]; exact hc.1 j hj, by rw [hb]; exact hc.2⟩
  have hu := updateContiguous_bits c.header b c.bitfield ⟨false, i, 1⟩ hb hc' (by simp)
  simp only [Bool.not_false] at hu
  refine ⟨?_, fun j => by rw [Bitfield.get_setRange, Bitfield.get_setRange, hb]⟩
  simp only [replayEntry, Reopen.foldl_addNode, Bool.not_false, hu]

/-- replaying a hash entry -/
theorem replay_hash (C : Crypto) (d : Disk) (c : Core) (ol : Oplog.State) (b : Bitfield) (nodes : List Node) :
    replayEntry C d (ol, c.header, c.tree, b) { treeNodes := nodes, treeUpgrade := none, bitfield := none }
      = .ok (ol, c.header, { c.tree with unflushed := insertAll c.tree.unflushed nodes }, b) := by
  simp only [replayEntry, Reopen.foldl_addNode]

/-! ### the ghost invariant and the reopen theorem -/

/-- what the replay yields over the stores `d`, entry list `es`, header `hf` of the last flush: the live core's header and
    tree exactly, and a bitfield with the live bits whose differences from the bitfield store lie on dirty pages -/
def Replays (C : Crypto) (c : Core) (d : Disk) (hf : Header) (es : List Entry) : Prop :=
  ∃ T0, Tree.openTree hf.tree d.tree = .ok T0 ∧ ∀ ol, ∃ b, openCore.replay C d es (ol, hf, T0, Bitfield.ofFile d.bitfield) = .ok (ol, c.header, c.tree, b)
    ∧ (∀ i, b.get i = c.bitfield.get i)
    ∧ (∀ i, b.get i ≠ (Bitfield.ofFile d.bitfield).get i → i / Spec.pageBits ∈ b.dirty)

structure PersistR (C : Crypto) (c : Core) (d : Disk) (hf : Header) (es : List Entry) : Prop where
  oplog : OpInv c.oplog d.oplog.toList hf es
  replay : Replays C c d hf es
  bfSize : d.bitfield.size % Spec.pageBytes = 0
  dirty : ∀ i, c.bitfield.get i ≠ (Bitfield.ofFile d.bitfield).get i → i / Spec.pageBits ∈ c.bitfield.dirty
  shape : HdrShape c.header
  hdrLen : c.header.tree.length = c.tree.length
  hdrFork : c.header.tree.fork = c.tree.fork
  hdrSig : c.tree.signature = (if c.header.tree.signature.isEmpty then none else some c.header.tree.signature)
  hdrSigLen : c.header.tree.signature = [] ∨ c.header.tree.signature.length = 64
  keys : c.header.publicKey = c.publicKey ∧ c.header.secret = c.secret

/-- **closing and reopening a replica changes nothing**: `Hypercore::new` on its stores succeeds without touching
    them, and the reopened core satisfies the replica invariant for the same log, length and held set — and the
    ghost invariant again, so it can go on -/
theorem reopen_replica (C : Crypto) (bs : Array Bytes) (m : Nat) (c : Core) (d : Disk) (held : Nat → Bool) (hf : Header) (es : List Entry)
    (hr : RepRAt C bs m c d held) (hp : PersistR C c d hf es) :
    ∃ c', openCore C none d = .ok (c', []) ∧ RepRAt C bs m c' d held ∧ PersistR C c' d hf es
      ∧ c'.publicKey = c.publicKey ∧ c'.tree = c.tree := by
  obtain ⟨ost, hopen, hbits, hebl⟩ := opinv_open c.oplog d.oplog.toList hf es hp.oplog
  obtain ⟨T0, hT0, hrep⟩ := hp.replay
  obtain ⟨b, hb1, hb2, hb3⟩ := hrep ost
  have hd1 : d.applyAll [] = d := rfl
  refine ⟨{ publicKey := c.header.publicKey, secret := c.header.secret, oplog := ost, header := c.header, tree := c.tree, bitfield := { b with dirty := b.dirty }, skipFlush := 0 }, ?_, ?_, ?_, hp.keys.1, rfl⟩
  · simp only [openCore, hopen, hd1, hT0, hb1]
  · exact ⟨hr.le, hr.closed, hr.roots, hr.bytes, hr.mapwf, hr.aligned, fun i => by rw [← hr.bits i]; exact hb2 i, hr.heldLt, hr.leaf, hr.data,
      ⟨fun i hi => by show b.get i = true; rw [hb2]; exact hr.contig.1 i hi, by show b.get _ = false; rw [hb2]; exact hr.contig.2⟩, hr.small⟩
  · refine ⟨opinv_congr c.oplog ost _ hf es hp.oplog hbits hebl, ⟨T0, hT0, fun ol => ?_⟩, hp.bfSize, hb3, hp.shape, hp.hdrLen, hp.hdrFork, hp.hdrSig, hp.hdrSigLen, ⟨rfl, rfl⟩⟩
    obtain ⟨b', e1, e2, e3⟩ := hrep ol
    exact ⟨b', e1, fun i => by rw [e2]; exact (hb2 i).symm, e3⟩

/-- **logging one entry keeps the ghost invariant**, provided replaying the entry on the live state gives the new
    live state; the step's journal is the entry's frame, after operations that leave oplog, tree and bitfield
    stores alone (the block's data write) -/
theorem persist_entry (C : Crypto) (c c1 : Core) (d : Disk) (hf : Header) (es : List Entry) (e : Entry) (j0 : List SOp)
    (hp : PersistR C c d hf es) (he : EntryOK e)
    (hj0 : ∀ op ∈ j0, op.store = .data)
    (hol : c1.oplog = (Oplog.appendEntry c.oplog e).1)
    (hre : ∀ ol b, (∀ i, b.get i = c.bitfield.get i) → (∀ i, b.get i ≠ (Bitfield.ofFile d.bitfield).get i → i / Spec.pageBits ∈ b.dirty) →
      ∃ b', replayEntry C d (ol, c.header, c.tree, b) e = .ok (ol, c1.header, c1.tree, b') ∧ (∀ i, b'.get i = c1.bitfield.get i)
        ∧ (∀ i, b'.get i ≠ (Bitfield.ofFile d.bitfield).get i → i / Spec.pageBits ∈ b'.dirty))
    (hdirty : ∀ i, c1.bitfield.get i ≠ (Bitfield.ofFile d.bitfield).get i → i / Spec.pageBits ∈ c1.bitfield.dirty)
    (hshape : HdrShape c1.header) (h1 : c1.header.tree.length = c1.tree.length) (h2 : c1.header.tree.fork = c1.tree.fork)
    (h3 : c1.tree.signature = (if c1.header.tree.signature.isEmpty then none else some c1.header.tree.signature))
    (h4 : c1.header.tree.signature = [] ∨ c1.header.tree.signature.length = 64)
    (hk : c1.header.publicKey = c1.publicKey ∧ c1.header.secret = c1.secret) :
    PersistR C c1 (d.applyAll (j0 ++ (Oplog.appendEntry c.oplog e).2)) hf (es ++ [e]) := by
  have hja : ∀ op ∈ (Oplog.appendEntry c.oplog e).2, op.store = .oplog := Journal.appendEntry_store _ _
  have hall : ∀ op ∈ j0 ++ (Oplog.appendEntry c.oplog e).2, op.store = .data ∨ op.store = .oplog := by
    intro op hop
    rcases List.mem_append.mp hop with h | h
    · exact Or.inl (hj0 op h)
    · exact Or.inr (hja op h)
  have htree : (d.applyAll (j0 ++ (Oplog.appendEntry c.oplog e).2)).tree = d.tree :=
    LiveRefine.tree_of_applyAll _ _ (fun op hop => by rcases hall op hop with h | h <;> rw [h] <;> decide)
  have hbf : (d.applyAll (j0 ++ (Oplog.appendEntry c.oplog e).2)).bitfield = d.bitfield := by
    have := Journal.applyAll_other d (j0 ++ (Oplog.appendEntry c.oplog e).2) .bitfield (fun op hop => by rcases hall op hop with h | h <;> rw [h] <;> decide)
    simpa [Disk.get] using this
  have hop : (d.applyAll (j0 ++ (Oplog.appendEntry c.oplog e).2)).oplog
      = d.oplog.write (Spec.entriesOffset + c.oplog.entriesByteLength) (frame (encEntry e) c.oplog.currentBit false) := by
    rw [Journal.applyAll_append]
    have e1 : (d.applyAll j0).oplog = d.oplog := by
      have := Journal.applyAll_other d j0 .oplog (fun op hop => by rw [hj0 op hop]; decide)
      simpa [Disk.get] using this
    simp only [Oplog.appendEntry, Disk.applyAll, List.foldl_cons, List.foldl_nil, Disk.apply]
    rw [← e1]
    rfl
  obtain ⟨T0, hT0, hrep⟩ := hp.replay
  refine ⟨?_, ⟨T0, by rw [htree]; exact hT0, fun ol => ?_⟩, by rw [hbf]; exact hp.bfSize, by rw [hbf]; exact hdirty, hshape, h1, h2, h3, h4, hk⟩
  · rw [hop, hol]
    exact opinv_append c.oplog d.oplog hf es e hp.oplog he
  · obtain ⟨b, e1, e2, e3⟩ := hrep ol
    obtain ⟨b', f1, f2, f3⟩ := hre ol b e2 e3
    refine ⟨b', ?_, f2, by rw [hbf]; exact f3⟩
    rw [hbf, replay_congr C d _ htree, replay_append, e1]
    exact f1

/-! ### extra ghost facts (what recovery from a cut flush needs, `ReplicaCrash`) -/

def SetOnly (es : List Entry) : Prop := ∀ e ∈ es, ∀ u, e.bitfield = some u → u.drop = false

/-- the entries only set bits; the header's hint was exact for some set of bits `B0` that the bitfield store contains
    and that, together with the entries, covers the live bits; the tree store and the unflushed map hold reference
    nodes only; the roots of the header's length are in the tree store -/
structure Extra (C : Crypto) (bs : Array Bytes) (c : Core) (d : Disk) (hf : Header) (es : List Entry) : Prop where
  setOnly : SetOnly es
  ghost : ∃ B0 : Nat → Bool, ((∀ i, i < hf.contiguous → B0 i = true) ∧ B0 hf.contiguous = false)
    ∧ (∀ i, B0 i = true → (Bitfield.ofFile d.bitfield).get i = true)
    ∧ (∀ i, c.bitfield.get i = true → B0 i = true ∨ ∃ e ∈ es, Touches e i)
  fileRef : ∀ i n, ({} : Tree).node? d.tree i = some n → ∃ dd o, i = Flat.index dd o ∧ n = nodeAt C bs dd o
  unflRef : ∀ i n, c.tree.unflushed[i]? = some n → ∃ dd o, i = Flat.index dd o ∧ n = nodeAt C bs dd o
  rootsStored : ∃ m0, hf.tree.length = m0 ∧ m0 < 2 ^ 64
    ∧ ∀ p ∈ rootsStack m0, ({} : Tree).node? d.tree (Flat.index p.1 p.2) = some (nodeAt C bs p.1 p.2)

/-- logging one entry keeps the extra facts -/
theorem extra_entry (C : Crypto) (bs : Array Bytes) (c c1 : Core) (d d1 : Disk) (hf : Header) (es : List Entry) (e : Entry)
    (hx : Extra C bs c d hf es) (ht : d1.tree = d.tree) (hb : d1.bitfield = d.bitfield)
    (hset : ∀ u, e.bitfield = some u → u.drop = false)
    (hbits : ∀ i, c1.bitfield.get i = true → c.bitfield.get i = true ∨ Touches e i)
    (hunfl : c1.tree.unflushed = insertAll c.tree.unflushed e.treeNodes)
    (href : ∀ n ∈ e.treeNodes, ∃ dd o, n = nodeAt C bs dd o) :
    Extra C bs c1 d1 hf (es ++ [e]) := by
  obtain ⟨B0, g1, g2, g3⟩ := hx.ghost
  refine ⟨?_, ⟨B0, g1, by rw [hb]; exact g2, ?_⟩, by rw [ht]; exact hx.fileRef, ?_, by rw [ht]; exact hx.rootsStored⟩
  · intro x hxm u hu
    rcases List.mem_append.mp hxm with h | h
    · exact hx.setOnly x h u hu
    · simp only [List.mem_singleton] at h; subst h; exact hset u hu
  · intro i hi
    rcases hbits i hi with h | h
    · rcases g3 i h with h' | ⟨x, hxm, hxt⟩
      · exact Or.inl h'
      · exact Or.inr ⟨x, List.mem_append.mpr (Or.inl hxm), hxt⟩
    · exact Or.inr ⟨e, List.mem_append.mpr (Or.inr (by simp)), h⟩
  · intro i n hn
    rw [hunfl] at hn
    by_cases hex : ∃ x ∈ e.treeNodes, x.index = i
    · obtain ⟨x, hxm, hxi, hget⟩ := insertAll_hit e.treeNodes c.tree.unflushed i hex
      rw [hget] at hn
      have hnx : n = x := (Option.some.inj hn).symm
      obtain ⟨dd, o, hxe⟩ := href x hxm
      refine ⟨dd, o, ?_, by rw [hnx, hxe]⟩
      rw [← hxi, hxe]; rfl
    · rw [insertAll_miss e.treeNodes c.tree.unflushed i (fun x hxm hxi => hex ⟨x, hxm, hxi⟩)] at hn
      exact hx.unflRef i n hn

/-- **the periodic flush keeps the ghost invariant** (with the current header and no entries when it flushes) -/
theorem persist_maybeFlush (C : Crypto) (bs : Array Bytes) (m : Nat) (c : Core) (d : Disk) (held : Nat → Bool) (hf : Header) (es : List Entry)
    (hr : RepRAt C bs m c d held) (hp : PersistR C c d hf es) (hx : Extra C bs c d hf es) :
    ∃ hf' es', PersistR C c.maybeFlush.1 (d.applyAll c.maybeFlush.2) hf' es' ∧ Extra C bs c.maybeFlush.1 (d.applyAll c.maybeFlush.2) hf' es' := by
  rw [LiveRefine.maybeFlush_eq]
  split
  · refine ⟨c.header, [], ?_, ?_⟩
    rotate_left
    · -- the extra facts after the flush
      simp only [Core.flushAll]
      have hj1 := Journal.bitfieldFlush_store c.bitfield
      have hj2 := Journal.treeFlush_store c.tree
      have hj3 := Journal.oplogFlush_store c.oplog c.header false
      obtain ⟨L, hfl, hlook, hal⟩ := flush_lookup c.tree d.tree hr.mapwf hr.aligned
      have e1 : d.applyAll (c.bitfield.flush.2 ++ c.tree.flush.2 ++ (Oplog.flush c.oplog c.header false).2)
          = ((d.applyAll c.bitfield.flush.2).applyAll c.tree.flush.2).applyAll (Oplog.flush c.oplog c.header false).2 := by
        rw [Journal.applyAll_append, Journal.applyAll_append]
      have htree : (d.applyAll (c.bitfield.flush.2 ++ c.tree.flush.2 ++ (Oplog.flush c.oplog c.header false).2)).tree = writeSlots d.tree L := by
        rw [e1, LiveRefine.tree_of_applyAll _ _ (fun op hop => by rw [hj3 op hop]; decide), hfl]
        simp only []
        rw [applyAll_tree_writes]
        simp only []
        rw [LiveRefine.tree_of_applyAll _ _ (fun op hop => by rw [hj1 op hop]; decide)]
      have hbfile : (d.applyAll (c.bitfield.flush.2 ++ c.tree.flush.2 ++ (Oplog.flush c.oplog c.header false).2)).bitfield
          = writePages c.bitfield d.bitfield c.bitfield.dirty := by
        have e2 : d.applyAll (c.bitfield.flush.2 ++ c.tree.flush.2 ++ (Oplog.flush c.oplog c.header false).2)
            = (d.applyAll c.bitfield.flush.2).applyAll (c.tree.flush.2 ++ (Oplog.flush c.oplog c.header false).2) := by
          rw [List.append_assoc, Journal.applyAll_append]
        have e3 := Journal.applyAll_other (d.applyAll c.bitfield.flush.2)
          (c.tree.flush.2 ++ (Oplog.flush c.oplog c.header false).2) .bitfield
          (fun op hop => by
            rcases List.mem_append.mp hop with h | h
            · rw [hj2 op h]; decide
            · rw [hj3 op h]; decide)
        simp only [Disk.get] at e3
        rw [e2, e3]
        exact Persist.applyAll_bitfield_writes c.bitfield d c.bitfield.dirty
      obtain ⟨g1, _⟩ := flush_bits c.bitfield d.bitfield hp.bfSize hp.dirty
      have hbget : ∀ i, c.bitfield.flush.1.get i = c.bitfield.get i := fun i => by simp [Bitfield.flush, Bitfield.get]
      have hfileLook : ∀ i, ({} : Tree).node? (writeSlots d.tree L) i = c.tree.node? d.tree i := by
        intro i
        rw [← hlook i]
        exact node?_congr _ _ _ _ rfl
      have hm64 : m < 2 ^ 64 := by have := hr.small.1; have := hr.le; omega
      refine ⟨(fun x hxm => by cases hxm), ⟨fun i => c.bitfield.get i, hr.contig, (fun i hi => by rw [hbfile, g1 i]; exact hi),
        (fun i hi => Or.inl (by show c.bitfield.get i = true; rw [← hbget]; exact hi))⟩, ?_, ?_, ⟨m, (by rw [hp.hdrLen]; exact hr.closed.sparse.length), hm64, ?_⟩⟩
      · intro i n hn
        rw [htree, hfileLook] at hn
        obtain ⟨dd, o, e1', e2', _⟩ := hr.closed.sparse.sound i n hn
        exact ⟨dd, o, e1', e2'⟩
      · intro i n hn
        have : c.tree.flush.1 = { c.tree with unflushed := {} } := by rw [hfl]
        rw [show (c.tree.flush.1).unflushed = ({} : NMap) from by rw [this]] at hn
        simp at hn
      · intro p hp'
        rw [htree, hfileLook]
        exact hr.closed.sparse.roots p hp'
    simp only [Core.flushAll]
    have hj1 := Journal.bitfieldFlush_store c.bitfield
    have hj2 := Journal.treeFlush_store c.tree
    have hj3 := Journal.oplogFlush_store c.oplog c.header false
    obtain ⟨L, hfl, hlook, hal⟩ := flush_lookup c.tree d.tree hr.mapwf hr.aligned
    have e1 : d.applyAll (c.bitfield.flush.2 ++ c.tree.flush.2 ++ (Oplog.flush c.oplog c.header false).2)
        = ((d.applyAll c.bitfield.flush.2).applyAll c.tree.flush.2).applyAll (Oplog.flush c.oplog c.header false).2 := by
      rw [Journal.applyAll_append, Journal.applyAll_append]
    have htree : (d.applyAll (c.bitfield.flush.2 ++ c.tree.flush.2 ++ (Oplog.flush c.oplog c.header false).2)).tree = writeSlots d.tree L := by
      rw [e1, LiveRefine.tree_of_applyAll _ _ (fun op hop => by rw [hj3 op hop]; decide), hfl]
      simp only []
      rw [applyAll_tree_writes]
      simp only []
      rw [LiveRefine.tree_of_applyAll _ _ (fun op hop => by rw [hj1 op hop]; decide)]
    have hbfile : (d.applyAll (c.bitfield.flush.2 ++ c.tree.flush.2 ++ (Oplog.flush c.oplog c.header false).2)).bitfield
        = writePages c.bitfield d.bitfield c.bitfield.dirty := by
      have e2 : d.applyAll (c.bitfield.flush.2 ++ c.tree.flush.2 ++ (Oplog.flush c.oplog c.header false).2)
          = (d.applyAll c.bitfield.flush.2).applyAll (c.tree.flush.2 ++ (Oplog.flush c.oplog c.header false).2) := by
        rw [List.append_assoc, Journal.applyAll_append]
      have e3 := Journal.applyAll_other (d.applyAll c.bitfield.flush.2)
        (c.tree.flush.2 ++ (Oplog.flush c.oplog c.header false).2) .bitfield
        (fun op hop => by
          rcases List.mem_append.mp hop with h | h
          · rw [hj2 op h]; decide
          · rw [hj3 op h]; decide)
      simp only [Disk.get] at e3
      rw [e2, e3]
      exact Persist.applyAll_bitfield_writes c.bitfield d c.bitfield.dirty
    have hofile : (d.applyAll (c.bitfield.flush.2 ++ c.tree.flush.2 ++ (Oplog.flush c.oplog c.header false).2)).oplog
        = (Oplog.flush c.oplog c.header false).2.foldl (fun g op => op.onFile g) d.oplog := by
      have := Persist.applyAll_last_only d (c.bitfield.flush.2 ++ c.tree.flush.2) (Oplog.flush c.oplog c.header false).2 .oplog
        (fun op hop => by
          rcases List.mem_append.mp hop with h | h
          · rw [hj1 op h]; decide
          · rw [hj2 op h]; decide) hj3
      simpa [Disk.get] using this
    obtain ⟨g1, g2⟩ := flush_bits c.bitfield d.bitfield hp.bfSize hp.dirty
    have htf : c.tree.flush.1 = { c.tree with unflushed := {} } := by rw [hfl]
    have hbget : ∀ i, c.bitfield.flush.1.get i = c.bitfield.get i := fun i => by simp [Bitfield.flush, Bitfield.get]
    -- the roots are readable from the new tree store
    have hR : ∀ p ∈ rootsStack m, ({} : Tree).node? (writeSlots d.tree L) (Flat.index p.1 p.2) = some (nodeAt C bs p.1 p.2) := by
      intro p hp'
      have := hlook (Flat.index p.1 p.2)
      rw [hr.closed.sparse.roots p hp'] at this
      rw [← this]
      exact node?_congr _ _ _ _ rfl
    have hm64 : m < 2 ^ 64 := by have := hr.small.1; have := hr.le; omega
    have hopen := openTree_sparse C bs c.header.tree (writeSlots d.tree L) m (by rw [hp.hdrLen]; exact hr.closed.sparse.length) hm64 hR hp.hdrSigLen
    have hT : ({ roots := rootsAt C bs m, length := m, byteLength := psum bs m, fork := c.header.tree.fork, signature := if c.header.tree.signature.isEmpty then none else some c.header.tree.signature } : Tree)
        = { c.tree with unflushed := {} } := by
      rw [← hr.roots, ← hr.bytes, ← hr.closed.sparse.length, hp.hdrFork, ← hp.hdrSig]
    refine ⟨?_, ⟨_, by rw [htree]; exact hopen, fun ol => ?_⟩, ?_, ?_, hp.shape, ?_, ?_, ?_, hp.hdrSigLen, hp.keys⟩
    · rw [hofile]
      exact opinv_flush c.oplog d.oplog hf es c.header hp.oplog (headerOK_of_shape _ hp.shape)
    · refine ⟨Bitfield.ofFile (writePages c.bitfield d.bitfield c.bitfield.dirty), ?_, ?_, fun i hne => by rw [hbfile] at hne; exact absurd rfl hne⟩
      · rw [hbfile]
        simp only [openCore.replay]
        show Except.ok (ol, c.header, _, _) = Except.ok (ol, c.header, c.tree.flush.1, _)
        rw [hT, htf]
      · intro i
        show _ = c.bitfield.flush.1.get i
        rw [g1 i, hbget]
    · rw [hbfile]; exact g2
    · intro i hne
      exfalso; apply hne
      show c.bitfield.flush.1.get i = _
      rw [hbfile, g1 i, hbget]
    · show c.header.tree.length = c.tree.flush.1.length
      rw [htf]; exact hp.hdrLen
    · show c.header.tree.fork = c.tree.flush.1.fork
      rw [htf]; exact hp.hdrFork
    · show c.tree.flush.1.signature = _
      rw [htf]; exact hp.hdrSig
  · refine ⟨hf, es, ?_, ?_⟩
    · simp only [Disk.applyAll, List.foldl_nil]
      exact ⟨hp.oplog, hp.replay, hp.bfSize, hp.dirty, hp.shape, hp.hdrLen, hp.hdrFork, hp.hdrSig, hp.hdrSigLen, hp.keys⟩
    · simp only [Disk.applyAll, List.foldl_nil]
      exact ⟨hx.setOnly, hx.ghost, hx.fileRef, hx.unflRef, hx.rootsStored⟩

/-! ### the replica's entries fit the format -/

theorem refNodes_wf (C : Crypto) (hC : HashWF C) (bs : Array Bytes) (hs : bs.size < 2 ^ 62) (hp : psum bs bs.size < 2 ^ 64) (l : List Node)
    (hl : ∀ x ∈ l, ∃ d o, x = nodeAt C bs d o ∧ (o + 1) * 2 ^ d ≤ bs.size) (hcount : l.length ≤ 2 ^ 22) : NodesWF l := by
  refine ⟨by unfold U64; omega, fun x hx => ?_⟩
  obtain ⟨d, o, rfl, hb⟩ := hl x hx
  refine ⟨?_, ?_, nodeAt_hash_len C hC bs d o⟩
  · have := UpgradeComplete.pos_index_lt d o bs.size hb
    have hi : (nodeAt C bs d o).index = Flat.index d o := rfl
    unfold U64; rw [hi]; omega
  · have h1 := nodeAt_length_le C bs d o
    have h2 := psum_mono bs hb
    unfold U64; omega

theorem entry_ok (nodes : List Node) (up : Option TreeUpgrade) (bf : Option BitfieldUpdate) (hn : NodesWF nodes) (hcount : nodes.length ≤ 2 ^ 22)
    (hup : ∀ u, up = some u → U64 u.fork ∧ U64 u.ancestors ∧ U64 u.length ∧ u.signature.length = 64)
    (hbf : ∀ b, bf = some b → U64 b.start ∧ U64 b.length) :
    EntryOK { treeNodes := nodes, treeUpgrade := up, bitfield := bf } := by
  have hu64 : U64 0 := by unfold U64; omega
  refine ⟨⟨⟨hu64, fun b hb => by cases hb⟩, hn, ?_, ?_⟩, ?_⟩
  · intro u hu
    obtain ⟨a1, a2, a3, a4⟩ := hup u hu
    exact ⟨a1, a2, a3, by rw [a4]; unfold U64; omega⟩
  · intro b hb; exact hbf b hb
  · have e1 := encNodes_le nodes hn
    cases up with
    | none =>
      cases bf with
      | none =>
        simp only [encEntry, List.length_append, List.length_cons, List.length_nil, List.isEmpty_nil, ite_true]
        by_cases hne : nodes.isEmpty = true
        · simp only [hne, ite_true, List.length_nil]; omega
        · simp only [hne, Bool.false_eq_true, ite_false]; omega
      | some b =>
        have e6 := encUint_le b.start
        have e7 := encUint_le b.length
        simp only [encEntry, encBitfieldUpdate, List.length_append, List.length_cons, List.length_nil, List.isEmpty_nil, ite_true]
        by_cases hne : nodes.isEmpty = true
        · simp only [hne, ite_true, List.length_nil]; omega
        · simp only [hne, Bool.false_eq_true, ite_false]; omega
    | some u =>
      obtain ⟨_, _, _, a4⟩ := hup u rfl
      have e2 := encUint_le u.fork
      have e3 := encUint_le u.ancestors
      have e4 := encUint_le u.length
      have e5 := encBuf_le u.signature
      cases bf with
      | none =>
        simp only [encEntry, encTreeUpgrade, List.length_append, List.length_cons, List.length_nil, List.isEmpty_nil, ite_true]
        by_cases hne : nodes.isEmpty = true
        · simp only [hne, ite_true, List.length_nil]; omega
        · simp only [hne, Bool.false_eq_true, ite_false]; omega
      | some b =>
        have e6 := encUint_le b.start
        have e7 := encUint_le b.length
        simp only [encEntry, encTreeUpgrade, encBitfieldUpdate, List.length_append, List.length_cons, List.length_nil, List.isEmpty_nil, ite_true]
        by_cases hne : nodes.isEmpty = true
        · simp only [hne, ite_true, List.length_nil]; omega
        · simp only [hne, Bool.false_eq_true, ite_false]; omega

/-! ### both invariants along the replica's history -/

/-- the replica invariant together with the ghost invariant -/
structure RP (C : Crypto) (bs : Array Bytes) (m : Nat) (c : Core) (d : Disk) (held : Nat → Bool) : Prop where
  rep : RepRAt C bs m c d held
  per : ∃ hf es, PersistR C c d hf es ∧ Extra C bs c d hf es
  size : bs.size < 2 ^ 62

/-- what an exchange step establishes: the step logs one entry `e` (after data-store operations `j0`), reaches the
    core `c1`, and then runs the periodic flush -/
structure StepOK (C : Crypto) (bs : Array Bytes) (m m' : Nat) (c c1 : Core) (d : Disk) (held held' : Nat → Bool) (st : Step Bool)
    (e : Entry) (j0 : List SOp) : Prop where
  shape : st.core = c1.maybeFlush.1 ∧ st.journal = (j0 ++ (Oplog.appendEntry c.oplog e).2) ++ c1.maybeFlush.2
  rep1 : RepRAt C bs m' c1 (d.applyAll (j0 ++ (Oplog.appendEntry c.oplog e).2)) held'
  per1 : ∀ hf es, PersistR C c d hf es → PersistR C c1 (d.applyAll (j0 ++ (Oplog.appendEntry c.oplog e).2)) hf (es ++ [e])
  j0data : ∀ op ∈ j0, op.store = .data
  set : ∀ u, e.bitfield = some u → u.drop = false
  bits : ∀ i, c1.bitfield.get i = true → c.bitfield.get i = true ∨ Touches e i
  unfl : c1.tree.unflushed = insertAll c.tree.unflushed e.treeNodes
  ref : ∀ n ∈ e.treeNodes, ∃ dd o, n = nodeAt C bs dd o
  result : st.result = .ok true
  keep : c1.publicKey = c.publicKey ∧ c1.tree.fork = c.tree.fork
  pre : ∀ k, RepRAt C bs m c (d.applyAll (j0.take k)) held
  tornData : ∀ op ∈ j0, ∃ off bytes, op = SOp.write .data off bytes ∧ ∀ t, RepRAt C bs m c (d.apply (SOp.write .data off (bytes.take t))) held

/-- the stores right after the entry has been written: both invariants for the core before the periodic flush -/
theorem ok_mid (C : Crypto) (bs : Array Bytes) (m m' : Nat) (c c1 : Core) (d : Disk) (held held' : Nat → Bool) (st : Step Bool)
    (e : Entry) (j0 : List SOp) (h : RP C bs m c d held) (hok : StepOK C bs m m' c c1 d held held' st e j0) :
    RP C bs m' c1 (d.applyAll (j0 ++ (Oplog.appendEntry c.oplog e).2)) held' := by
  obtain ⟨hf, es, hp, hx⟩ := h.per
  have hp1 := hok.per1 hf es hp
  have hja : ∀ op ∈ (Oplog.appendEntry c.oplog e).2, op.store = .oplog := Journal.appendEntry_store _ _
  have hall : ∀ op ∈ j0 ++ (Oplog.appendEntry c.oplog e).2, op.store = .data ∨ op.store = .oplog := by
    intro op hop
    rcases List.mem_append.mp hop with h | h
    · exact Or.inl (hok.j0data op h)
    · exact Or.inr (hja op h)
  have htree : (d.applyAll (j0 ++ (Oplog.appendEntry c.oplog e).2)).tree = d.tree :=
    LiveRefine.tree_of_applyAll _ _ (fun op hop => by rcases hall op hop with h | h <;> rw [h] <;> decide)
  have hbf : (d.applyAll (j0 ++ (Oplog.appendEntry c.oplog e).2)).bitfield = d.bitfield := by
    have := Journal.applyAll_other d (j0 ++ (Oplog.appendEntry c.oplog e).2) .bitfield (fun op hop => by rcases hall op hop with h | h <;> rw [h] <;> decide)
    simpa [Disk.get] using this
  have hx1 := extra_entry C bs c c1 d _ hf es e hx htree hbf hok.set hok.bits hok.unfl hok.ref
  exact ⟨hok.rep1, ⟨hf, es ++ [e], hp1, hx1⟩, h.size⟩

/-- a step that logs one entry and then runs the periodic flush keeps both invariants -/
theorem rp_of_ok (C : Crypto) (bs : Array Bytes) (m m' : Nat) (c c1 : Core) (d : Disk) (held held' : Nat → Bool) (st : Step Bool)
    (e : Entry) (j0 : List SOp) (h : RP C bs m c d held) (hok : StepOK C bs m m' c c1 d held held' st e j0) :
    st.result = .ok true ∧ RP C bs m' st.core (d.applyAll st.journal) held' ∧ st.core.publicKey = c.publicKey ∧ st.core.tree.fork = c.tree.fork := by
  have hmid := ok_mid C bs m m' c c1 d held held' st e j0 h hok
  obtain ⟨hf1, es1, hp1, hx1⟩ := hmid.per
  have hk : c1.maybeFlush.1.publicKey = c1.publicKey ∧ c1.maybeFlush.1.tree.fork = c1.tree.fork := by
    rw [LiveRefine.maybeFlush_eq]; split <;> exact ⟨rfl, rfl⟩
  refine ⟨hok.result, ?_, by rw [hok.shape.1, hk.1, hok.keep.1], by rw [hok.shape.1, hk.2, hok.keep.2]⟩
  rw [hok.shape.1, hok.shape.2, Journal.applyAll_append]
  exact ⟨maybeFlush_reprAt C bs m' _ _ _ hmid.rep, persist_maybeFlush C bs m' c1 _ held' hf1 es1 hmid.rep hp1 hx1, h.size⟩

/-- **closing and reopening keeps both invariants** -/
theorem rp_reopen (C : Crypto) (bs : Array Bytes) (m : Nat) (c : Core) (d : Disk) (held : Nat → Bool) (h : RP C bs m c d held) :
    ∃ c', openCore C none d = .ok (c', []) ∧ RP C bs m c' d held ∧ c'.publicKey = c.publicKey ∧ c'.tree = c.tree := by
  obtain ⟨hf, es, hp, hx⟩ := h.per
  obtain ⟨c', h1, h2, h3, h4, h5⟩ := reopen_replica C bs m c d held hf es h.rep hp
  obtain ⟨B0, g1, g2, g3⟩ := hx.ghost
  exact ⟨c', h1, ⟨h2, ⟨hf, es, h3, ⟨hx.setOnly, ⟨B0, g1, g2, (fun i hi => g3 i (by rw [h.rep.bits i, ← h2.bits i]; exact hi))⟩,
    hx.fileRef, by rw [h5]; exact hx.unflRef, hx.rootsStored⟩⟩, h.size⟩, h4, h5⟩

theorem contig_le_at (C : Crypto) (bs : Array Bytes) (m : Nat) (c : Core) (d : Disk) (held : Nat → Bool) (h : RepRAt C bs m c d held) :
    c.header.contiguous ≤ m := by
  by_cases hle : c.header.contiguous ≤ m
  · exact hle
  · exfalso
    have h1 := h.contig.1 m (by omega)
    rw [h.bits] at h1
    have := h.heldLt _ h1
    omega

theorem downPath_length (C : Crypto) (bs : Array Bytes) : ∀ (k d o : Nat), (downPath C bs d o k).length = 2 * k := by
  intro k
  induction k with
  | zero => intro d o; rfl
  | succ k ih => intro d o; simp only [downPath, List.length_cons, ih]; omega

theorem k_lt_64 (i k m : Nat) (hm : m < 2 ^ 64) (hin : (i / 2 ^ k + 1) * 2 ^ k ≤ m) : k < 64 := by
  have h4 : 2 ^ k ≤ (i / 2 ^ k + 1) * 2 ^ k := Nat.le_mul_of_pos_left _ (Nat.succ_pos _)
  have h5 : 2 ^ k < 2 ^ 64 := by omega
  exact (Nat.pow_lt_pow_iff_right (by decide : 1 < 2)).mp h5

/-- writing a block's bytes — or, when the write is torn, a prefix of them — where they belong does not disturb what
    the replica holds -/
theorem reprAt_data_write_prefix (C : Crypto) (bs : Array Bytes) (m : Nat) (c : Core) (d : Disk) (held : Nat → Bool) (h : RepRAt C bs m c d held)
    (i t : Nat) : RepRAt C bs m c (d.apply (SOp.write .data (psum bs i) ((bs.getD i []).take t))) held := by
  have hd : d.apply (SOp.write .data (psum bs i) ((bs.getD i []).take t)) = { d with data := d.data.write (psum bs i) ((bs.getD i []).take t) } := by
    obtain ⟨tt, da, b, o⟩ := d; rfl
  rw [hd]
  refine ⟨h.le, h.closed, h.roots, h.bytes, h.mapwf, h.aligned, h.bits, h.heldLt, h.leaf, ?_, h.contig, h.small⟩
  intro j hj k' hk'
  show _ < (d.data.write (psum bs i) ((bs.getD i []).take t)).size ∧ (d.data.write (psum bs i) ((bs.getD i []).take t)).byte _ = _
  rw [File.size_write, File.byte_write]
  have hlen : (bs.getD i []).length = sz bs i := rfl
  have htl : ((bs.getD i []).take t).length = min t (sz bs i) := by rw [List.length_take, hlen]
  obtain ⟨d1, d2⟩ := h.data j hj k' hk'
  refine ⟨by have := Nat.le_max_left d.data.size (psum bs i + ((bs.getD i []).take t).length); omega, ?_⟩
  split
  · rename_i hin
    by_cases hji : j = i
    · subst hji
      have hk2 : psum bs j + k' - psum bs j = k' := by omega
      rw [hk2, List.getD_eq_getElem?_getD, List.getElem?_take]
      have : k' < t := by rw [htl] at hin; omega
      simp only [this, ite_true]
      rw [← List.getD_eq_getElem?_getD]
    · exfalso
      rw [htl] at hin
      rcases Nat.lt_or_gt_of_ne hji with hlt | hgt
      · have := psum_succ_le bs hlt; omega
      · have := psum_succ_le bs hgt; omega
  · exact d2

theorem reprAt_data_write (C : Crypto) (bs : Array Bytes) (m : Nat) (c : Core) (d : Disk) (held : Nat → Bool) (h : RepRAt C bs m c d held)
    (i : Nat) : RepRAt C bs m c (d.apply (SOp.write .data (psum bs i) (bs.getD i []))) held := by
  have := reprAt_data_write_prefix C bs m c d held h i (bs.getD i []).length
  rw [List.take_length] at this
  exact this

/-- **a block exchange keeps both invariants** -/
theorem block_ok (C : Crypto) (hC : HashWF C) (bs : Array Bytes) (m : Nat) (c : Core) (d : Disk) (held : Nat → Bool) (h : RP C bs m c d held)
    (i : Nat) (hi : i < m) :
    ∃ c1 e j0, StepOK C bs m m c c1 d held (fun j => held j || j == i) (c.verifyAndApply C d (honestBlock C bs c d i)) e j0 := by
  have hr := h.rep
  have hsz := size_extract bs m hr.le
  have hR := (repr_extract C bs m hr.le hr.small c d held).mpr hr
  have hi' : i < (bs.extract 0 m).size := by rw [hsz]; exact hi
  have hshape := apply_block_shape C hC (bs.extract 0 m) c d held hR i hi'
  rw [honestBlock_extract C bs m c d held hr i hi] at hshape
  obtain ⟨_, hin⟩ := missingNodes_spec C bs m c.tree d.tree hr.closed.sparse (by have := hr.small.1; have := hr.le; omega) i hi
  have hk64 := k_lt_64 i _ m (by have := hr.small.1; have := hr.le; omega) hin
  have hrep1 := (repr_extract C bs m hr.le hr.small _ _ _).mp (afterBlock_repr C hC (bs.extract 0 m) c d held hR i hi')
  generalize hk : c.tree.missingNodes d.tree (2 * i) = k at hin hk64
  -- the entry and the pre-flush core
  generalize he : ({ treeNodes := nodeAt C (bs.extract 0 m) 0 i :: downPath C (bs.extract 0 m) 0 i k, treeUpgrade := none, bitfield := some ⟨false, i, 1⟩ } : Entry) = e
  have hc1o : (afterBlock C (bs.extract 0 m) c d i).oplog = (Oplog.appendEntry c.oplog e).1 := by simp only [afterBlock, hk, ← he]
  have hc1h : (afterBlock C (bs.extract 0 m) c d i).header = updateContiguous c.header (c.bitfield.setRange i 1 true) ⟨false, i, 1⟩ := rfl
  have hc1t : (afterBlock C (bs.extract 0 m) c d i).tree = { c.tree with unflushed := insertAll c.tree.unflushed e.treeNodes } := by
    simp only [afterBlock, hk, ← he]
  have hc1b : (afterBlock C (bs.extract 0 m) c d i).bitfield = c.bitfield.setRange i 1 true := rfl
  have hj : blockJournal C (bs.extract 0 m) c d i = [SOp.write .data (psum (bs.extract 0 m) i) ((bs.extract 0 m).getD i [])] ++ (Oplog.appendEntry c.oplog e).2 := by
    simp only [blockJournal, hk, ← he]
  rw [hj] at hshape hrep1
  have hok : StepOK C bs m m c (afterBlock C (bs.extract 0 m) c d i) d held (fun j => held j || j == i) (c.verifyAndApply C d (honestBlock C bs c d i)) e [SOp.write .data (psum (bs.extract 0 m) i) ((bs.extract 0 m).getD i [])] := StepOK.mk
    (by rw [hshape]; exact ⟨rfl, rfl⟩) hrep1 (fun hf es hp => by
      have hcl := contig_le_at C bs m c d held hr
      have hU : U64 (updateContiguous c.header (c.bitfield.setRange i 1 true) ⟨false, i, 1⟩).contiguous := by
        have := contig_le_at C bs m _ _ _ hrep1
        rw [hc1h] at this
        have := hr.small.1; have := hr.le
        unfold U64; omega
      have hue := Reopen.updateContiguous_eq c.header (c.bitfield.setRange i 1 true) ⟨false, i, 1⟩
      refine persist_entry C c _ d hf es e _ hp ?_ (fun op hop => by simp at hop; subst hop; rfl) hc1o ?_ ?_ ?_ ?_ ?_ ?_ ?_ ?_
      · -- the entry fits the format
        rw [← he]
        apply entry_ok
        · apply refNodes_wf C hC (bs.extract 0 m) (by rw [hsz]; have := h.size; have := hr.le; omega)
            (by rw [hsz, psum_extract bs m hr.le m (Nat.le_refl _)]; have := psum_mono bs hr.le; have := hr.small.2; omega)
          · intro x hx
            exact blockNodes_bound C (bs.extract 0 m) i k (by rw [hsz]; exact hin) x hx
          · simp only [List.length_cons, downPath_length]; omega
        · simp only [List.length_cons, downPath_length]; omega
        · intro u hu; cases hu
        · intro b hb; cases hb
          have := hr.small.1; have := hr.le
          exact ⟨by show i < 2 ^ 64; omega, by show 1 < 2 ^ 64; omega⟩
      · intro ol b hb1 hb2
        obtain ⟨r1, r2⟩ := replay_block C d c ol b e.treeNodes i hb1 hr.contig
        refine ⟨b.setRange i 1 true, ?_, ?_, dirty_setRange b d.bitfield i 1 true hb2⟩
        · rw [hc1h, hc1t, ← r1, ← he]
        · intro j; rw [hc1b]; exact r2 j
      · rw [hc1b]; exact dirty_setRange c.bitfield d.bitfield i 1 true hp.dirty
      · rw [hc1h, hue]; exact hdrShape_contig c.header hp.shape _ hU
      · rw [hc1h, hc1t, hue]; exact hp.hdrLen
      · rw [hc1h, hc1t, hue]; exact hp.hdrFork
      · rw [hc1h, hc1t, hue]; exact hp.hdrSig
      · rw [hc1h, hue]; exact hp.hdrSigLen
      · rw [hc1h, hue]; exact hp.keys)
    (fun op hop => by simp at hop; subst hop; rfl)
    (fun u hu => by rw [← he] at hu; cases hu; rfl)
    (fun j hj => by
      rw [hc1b, Bitfield.get_setRange] at hj
      split at hj
      · rename_i hin'
        exact Or.inr ⟨⟨false, i, 1⟩, by rw [← he], hin'.1, hin'.2⟩
      · exact Or.inl hj)
    (by rw [hc1t])
    (fun x hx => by
      rw [← he] at hx
      obtain ⟨dd, o, hxe, hb⟩ := blockNodes_bound C (bs.extract 0 m) i k (by rw [hsz]; exact hin) x hx
      rw [hsz] at hb
      exact ⟨dd, o, by rw [hxe, nodeAt_extract C bs m hr.le dd o hb]⟩)
    (by rw [hshape])
    ⟨rfl, rfl⟩
    (fun k' => by
      cases k' with
      | zero => exact hr
      | succ k' =>
        simp only [List.take_succ_cons, List.take_nil, Disk.applyAll, List.foldl_cons, List.foldl_nil]
        rw [psum_extract bs m hr.le i (by omega), extract_getD bs m i hr.le hi]
        exact reprAt_data_write C bs m c d held hr i)
    (fun op hop => by
      simp only [List.mem_singleton] at hop
      refine ⟨_, _, hop, fun t => ?_⟩
      rw [psum_extract bs m hr.le i (by omega), extract_getD bs m i hr.le hi]
      exact reprAt_data_write_prefix C bs m c d held hr i t)
  exact ⟨_, _, _, hok⟩

/-- (from `block_ok` and `rp_of_ok`) -/
theorem rp_block (C : Crypto) (hC : HashWF C) (bs : Array Bytes) (m : Nat) (c : Core) (d : Disk) (held : Nat → Bool) (h : RP C bs m c d held)
    (i : Nat) (hi : i < m) :
    (c.verifyAndApply C d (honestBlock C bs c d i)).result = .ok true
      ∧ RP C bs m (c.verifyAndApply C d (honestBlock C bs c d i)).core
          (d.applyAll (c.verifyAndApply C d (honestBlock C bs c d i)).journal) (fun j => held j || j == i)
      ∧ (c.verifyAndApply C d (honestBlock C bs c d i)).core.publicKey = c.publicKey
      ∧ (c.verifyAndApply C d (honestBlock C bs c d i)).core.tree.fork = c.tree.fork := by
  obtain ⟨c1, e, j0, hok⟩ := block_ok C hC bs m c d held h i hi
  exact rp_of_ok C bs m m c c1 d held _ _ e j0 h hok

theorem dk_lt_64 (o d k m : Nat) (hm : m < 2 ^ 64) (hin : (o / 2 ^ k + 1) * 2 ^ (d + k) ≤ m) : d + k < 64 := by
  have h4 : 2 ^ (d + k) ≤ (o / 2 ^ k + 1) * 2 ^ (d + k) := Nat.le_mul_of_pos_left _ (Nat.succ_pos _)
  have h5 : 2 ^ (d + k) < 2 ^ 64 := by omega
  exact (Nat.pow_lt_pow_iff_right (by decide : 1 < 2)).mp h5

/-- **a hash exchange keeps both invariants** -/
theorem hash_ok (C : Crypto) (hC : HashWF C) (bs : Array Bytes) (m : Nat) (c : Core) (d : Disk) (held : Nat → Bool) (h : RP C bs m c d held)
    (d0 o0 : Nat) (hin0 : (o0 + 1) * 2 ^ d0 ≤ m) :
    ∃ c1 e j0, StepOK C bs m m c c1 d held held (c.verifyAndApply C d (honestHash C bs c d d0 o0)) e j0 := by
  have hr := h.rep
  have hsz := size_extract bs m hr.le
  have hR := (repr_extract C bs m hr.le hr.small c d held).mpr hr
  have hin0' : (o0 + 1) * 2 ^ d0 ≤ (bs.extract 0 m).size := by rw [hsz]; exact hin0
  have hshape := hash_shape C hC (bs.extract 0 m) c d held hR d0 o0 hin0'
  rw [honestHash_extract C bs m c d held hr d0 o0 hin0] at hshape
  obtain ⟨_, hin, _⟩ := missingNodes_spec_node C bs m c.tree d.tree hr.closed.sparse (by have := hr.small.1; have := hr.le; omega) d0 o0 hin0
  have hk64 := dk_lt_64 o0 d0 _ m (by have := hr.small.1; have := hr.le; omega) hin
  have hrep1 := (repr_extract C bs m hr.le hr.small _ _ _).mp (hashCore_repr C hC (bs.extract 0 m) c d held hR d0 o0 hin0')
  generalize he : ({ treeNodes := hashNodes C (bs.extract 0 m) c d d0 o0, treeUpgrade := none, bitfield := none } : Entry) = e at hshape hrep1
  have hen : e.treeNodes = hashNodes C (bs.extract 0 m) c d d0 o0 := by rw [← he]
  have hc1o : (hashCore C (bs.extract 0 m) c d d0 o0).oplog = (Oplog.appendEntry c.oplog e).1 := by simp only [hashCore, ← he]
  have hc1h : (hashCore C (bs.extract 0 m) c d d0 o0).header = c.header := rfl
  have hc1t : (hashCore C (bs.extract 0 m) c d d0 o0).tree = { c.tree with unflushed := insertAll c.tree.unflushed e.treeNodes } := by
    simp only [hashCore, ← he]
  have hc1b : (hashCore C (bs.extract 0 m) c d d0 o0).bitfield = c.bitfield := rfl
  have hok : StepOK C bs m m c (hashCore C (bs.extract 0 m) c d d0 o0) d held held (c.verifyAndApply C d (honestHash C bs c d d0 o0)) e [] := StepOK.mk
    (by rw [hshape]; exact ⟨rfl, rfl⟩) hrep1 (fun hf es hp => by
      refine persist_entry C c _ d hf es e _ hp ?_ (fun op hop => by cases hop) hc1o ?_ ?_ ?_ ?_ ?_ ?_ ?_ ?_
      · rw [← he]
        generalize hk : c.tree.missingNodes d.tree (Flat.index d0 o0) = k at hin hk64
        have hlen : (hashNodes C (bs.extract 0 m) c d d0 o0).length = 1 + 2 * k := by
          simp only [hashNodes, hk, List.length_cons, downPath_length]; omega
        apply entry_ok
        · apply refNodes_wf C hC (bs.extract 0 m) (by rw [hsz]; have := h.size; have := hr.le; omega)
            (by rw [hsz, psum_extract bs m hr.le m (Nat.le_refl _)]; have := psum_mono bs hr.le; have := hr.small.2; omega)
          · intro x hx
            simp only [hashNodes, hk] at hx
            exact pathNodes_bound C (bs.extract 0 m) d0 o0 k _ (by rw [hsz]; exact hin) x hx
          · rw [hlen]; omega
        · rw [hlen]; omega
        · intro u hu; cases hu
        · intro b hb; cases hb
      · intro ol b hb1 hb2
        refine ⟨b, ?_, ?_, hb2⟩
        · rw [hc1h, hc1t, ← he]; exact replay_hash C d c ol b _
        · intro j; rw [hc1b]; exact hb1 j
      · rw [hc1b]; exact hp.dirty
      · rw [hc1h]; exact hp.shape
      · rw [hc1h, hc1t]; exact hp.hdrLen
      · rw [hc1h, hc1t]; exact hp.hdrFork
      · rw [hc1h, hc1t]; exact hp.hdrSig
      · rw [hc1h]; exact hp.hdrSigLen
      · rw [hc1h]; exact hp.keys)
    (fun op hop => by cases hop)
    (fun u hu => by rw [← he] at hu; cases hu)
    (fun j hj => Or.inl (by rw [hc1b] at hj; exact hj))
    (by rw [hc1t])
    (fun x hx => by
      rw [hen] at hx
      generalize hk : c.tree.missingNodes d.tree (Flat.index d0 o0) = k at hin
      simp only [hashNodes, hk] at hx
      obtain ⟨dd, o, hxe, hb⟩ := pathNodes_bound C (bs.extract 0 m) d0 o0 k _ hin x hx
      exact ⟨dd, o, by rw [hxe, nodeAt_extract C bs m hr.le dd o hb]⟩)
    (by rw [hshape])
    ⟨rfl, rfl⟩
    (fun k' => by rw [List.take_nil]; exact hr)
    (fun op hop => by cases hop)
  exact ⟨_, _, _, hok⟩

/-- (from `hash_ok` and `rp_of_ok`) -/
theorem rp_hash (C : Crypto) (hC : HashWF C) (bs : Array Bytes) (m : Nat) (c : Core) (d : Disk) (held : Nat → Bool) (h : RP C bs m c d held)
    (d0 o0 : Nat) (hin0 : (o0 + 1) * 2 ^ d0 ≤ m) :
    (c.verifyAndApply C d (honestHash C bs c d d0 o0)).result = .ok true
      ∧ RP C bs m (c.verifyAndApply C d (honestHash C bs c d d0 o0)).core
          (d.applyAll (c.verifyAndApply C d (honestHash C bs c d d0 o0)).journal) held
      ∧ (c.verifyAndApply C d (honestHash C bs c d d0 o0)).core.publicKey = c.publicKey
      ∧ (c.verifyAndApply C d (honestHash C bs c d d0 o0)).core.tree.fork = c.tree.fork := by
  obtain ⟨c1, e, j0, hok⟩ := hash_ok C hC bs m c d held h d0 o0 hin0
  exact rp_of_ok C bs m m c c1 d held _ _ e j0 h hok

/-! ### growth -/

theorem node?_unflushed (t t' : Tree) (f : File) (i : Nat) (h : t'.unflushed = t.unflushed) : t'.node? f i = t.node? f i := by
  unfold Tree.node?; rw [h]

/-- replaying an upgrade entry: `truncate` finds the new roots among the entry's nodes and the store, and the commit
    reproduces the live tree and header -/
theorem replay_grow (C : Crypto) (bs : Array Bytes) (d : Disk) (c : Core) (ol : Oplog.State) (b : Bitfield) (cs : Changeset) (n : Nat)
    (sig : Bytes) (hn : n < 2 ^ 64) (hroots : cs.roots = rootsAt C bs n) (hlen : cs.length = n) (hbytes : cs.byteLength = psum bs n)
    (hsig : cs.signature = some sig) (hsl : sig.length = 64) (hup : cs.upgraded = true) (hanc : cs.ancestors = c.tree.length)
    (hhash : cs.hash = some (rootsHash C cs.roots)) (hfork : cs.fork = c.tree.fork) (hcur : Reopen.AllRef C bs c.tree.roots)
    (hR : ∀ p ∈ rootsStack n, (growCore c cs).tree.node? d.tree (Flat.index p.1 p.2) = some (nodeAt C bs p.1 p.2)) :
    replayEntry C d (ol, c.header, c.tree, b) (Core.entryOf cs none c.header).1
      = .ok (ol, (Core.entryOf cs none c.header).2, (growCore c cs).tree, b) := by
  generalize ht' : ({ c.tree with unflushed := insertAll c.tree.unflushed cs.nodes } : Tree) = t'
  have hR' : ∀ p ∈ rootsStack n, t'.node? d.tree (Flat.index p.1 p.2) = some (nodeAt C bs p.1 p.2) := by
    intro p hp
    rw [← hR p hp]
    exact node?_unflushed _ _ _ _ (by rw [← ht']; rfl)
  have htr := truncate_sparse C bs t' d.tree n cs.fork hn hR' (by rw [← ht']; exact hcur)
  have hcm : t'.commitable { t'.changeset with roots := rootsAt C bs n, fork := cs.fork, length := n, ancestors := cs.ancestors, byteLength := psum bs n, upgraded := true, hash := some (rootsHash C (rootsAt C bs n)), signature := some sig } = true := by
    simp [Tree.commitable, Tree.changeset]
  have hnl : ¬ (cs.ancestors < t'.length) := by rw [hanc, ← ht']; exact Nat.lt_irrefl _
  simp only [replayEntry, Core.entryOf, hup, ite_true, Reopen.foldl_addNode, ht', hlen, htr, hsig, Option.getD_some, hsl, ne_eq,
    not_true_eq_false, ite_false, Tree.commit, hcm, Bool.not_true, Bool.false_eq_true, Bool.true_and, decide_eq_true_eq]
  simp only [Tree.changeset, hnl, ite_false, hhash, Option.getD_some, hroots]
  simp only [growCore, ← ht', hroots, hlen, hbytes, hsig, Changeset.nodes, List.reverse_nil, List.foldl_nil]

theorem entryOf_up (cs : Changeset) (h : Header) (hup : cs.upgraded = true) :
    Core.entryOf cs none h = ({ treeNodes := cs.nodes, treeUpgrade := some ⟨cs.fork, cs.ancestors, cs.length, cs.signature.getD []⟩, bitfield := none },
      { h with tree := { h.tree with rootHash := cs.hash.getD [], signature := cs.signature.getD [], length := cs.length } }) := by
  simp only [Core.entryOf, hup, ite_true]

/-- **a growth round keeps both invariants** -/
theorem grow_ok (C : Crypto) (hC : HashWF C) (hT : TreeWF C) (bs : Array Bytes) (m n : Nat) (c : Core) (d : Disk) (held : Nat → Bool)
    (h : RP C bs m c d held) (hm0 : 0 < m) (hmn : m < n) (hn : n ≤ bs.size) (us : List (Nat × Nat))
    (hup : Up m 0 (rootsStack n).reverse us) (sig : Bytes) (hsl : sig.length = 64)
    (hver : C.verify c.publicKey (signableAt C bs n c.tree.fork) sig = true) :
    ∃ c1 e j0, StepOK C bs m n c c1 d held held (c.verifyAndApply C d (honestGrowth C bs c.tree.fork m n us sig)) e j0 := by
  have hr := h.rep
  have hN : n < 2 ^ 64 := by have := hr.small.1; omega
  obtain ⟨cs, hinv, hfork, hsig, hupg, hanc, hhash, hcnt, hshape, hrep1⟩ := growCore_repr C hC bs m n c d held hr hm0 hmn hn us hup sig hsl hver
  have hroots : cs.roots = rootsAt C bs n := by
    have := congrArg List.reverse hinv.roots
    rw [List.reverse_reverse] at this
    rw [this, rootsAt, List.map_reverse]
  have hul := up_length m n hm0 hN (rootsStack n).reverse 0 us (cover_roots n) hup
  have hrl := rootsStack_length_log 64 n hN
  rw [List.length_reverse] at hul
  have heo := entryOf_up cs c.header hupg
  generalize he : (Core.entryOf cs none c.header).1 = e at hshape hrep1
  have he' : e = { treeNodes := cs.nodes, treeUpgrade := some ⟨cs.fork, cs.ancestors, cs.length, sig⟩, bitfield := none } := by
    rw [← he, heo, hsig]; rfl
  have hhd : (growCore c cs).header = { c.header with tree := { c.header.tree with rootHash := rootsHash C cs.roots, signature := sig, length := n } } := by
    show (Core.entryOf cs none c.header).2 = _
    rw [heo, hsig, hhash, hinv.length]; rfl
  have hc1o : (growCore c cs).oplog = (Oplog.appendEntry c.oplog e).1 := by rw [← he]; rfl
  have hj1 : ∀ op ∈ (Oplog.appendEntry c.oplog e).2, op.store = .oplog := Journal.appendEntry_store _ _
  have htree : (d.applyAll (Oplog.appendEntry c.oplog e).2).tree = d.tree :=
    LiveRefine.tree_of_applyAll _ _ (fun op hop => by rw [hj1 op hop]; decide)
  have hsne : sig.isEmpty = false := by cases sig with | nil => simp at hsl | cons a l => rfl
  have hok : StepOK C bs m n c (growCore c cs) d held held (c.verifyAndApply C d (honestGrowth C bs c.tree.fork m n us sig)) e [] := StepOK.mk
    (by rw [hshape]; exact ⟨rfl, rfl⟩) hrep1 (fun hf es hp => by
      refine persist_entry C c _ d hf es e _ hp ?_ (fun op hop => by cases hop) hc1o ?_ ?_ ?_ ?_ ?_ ?_ ?_ ?_
      · rw [he']
        apply entry_ok
        · apply refNodes_wf C hC bs h.size hr.small.2
          · intro x hx
            simp only [Changeset.nodes, List.mem_reverse] at hx
            obtain ⟨d1, o1, e1, hb⟩ := hinv.nodesRef x hx
            exact ⟨d1, o1, e1, by omega⟩
          · omega
        · omega
        · intro u hu
          cases hu
          refine ⟨?_, ?_, ?_, hsl⟩
          · show U64 cs.fork
            rw [hfork, ← hp.hdrFork]; exact hp.shape.fork
          · show U64 cs.ancestors
            rw [hanc, hr.closed.sparse.length]; unfold U64; omega
          · show U64 cs.length
            rw [hinv.length]; exact hN
        · intro b hb; cases hb
      · intro ol b hb1 hb2
        refine ⟨b, ?_, hb1, hb2⟩
        have := replay_grow C bs d c ol b cs n sig hN hroots hinv.length hinv.bytes hsig hsl hupg hanc hhash hfork
          (by rw [hr.roots]; exact allRef_rootsAt C bs m)
          (fun p hp' => by rw [← htree]; exact hrep1.closed.sparse.roots p hp')
        rw [he] at this
        exact this
      · exact hp.dirty
      · rw [hhd]
        exact hdrShape_set c.header hp.shape _ _ _ _ (by rw [rootsHash, hT]) (by omega) hN hp.shape.contig
      · rw [hhd]; exact hinv.length.symm
      · rw [hhd]; show c.header.tree.fork = cs.fork; rw [hfork]; exact hp.hdrFork
      · rw [hhd]; show cs.signature = _; simp only [hsne, Bool.false_eq_true, ite_false]; exact hsig
      · rw [hhd]; exact Or.inr hsl
      · rw [hhd]; exact hp.keys)
    (fun op hop => by cases hop)
    (fun u hu => by rw [he'] at hu; cases hu)
    (fun j hj => Or.inl hj)
    (by rw [he']; rfl)
    (fun x hx => by
      rw [he'] at hx
      simp only [Changeset.nodes, List.mem_reverse] at hx
      obtain ⟨d1, o1, e1, _⟩ := hinv.nodesRef x hx
      exact ⟨d1, o1, e1⟩)
    (by rw [hshape])
    ⟨rfl, hfork⟩
    (fun k' => by rw [List.take_nil]; exact hr)
    (fun op hop => by cases hop)
  exact ⟨_, _, _, hok⟩

/-- (from `grow_ok` and `rp_of_ok`) -/
theorem rp_grow (C : Crypto) (hC : HashWF C) (hT : TreeWF C) (bs : Array Bytes) (m n : Nat) (c : Core) (d : Disk) (held : Nat → Bool)
    (h : RP C bs m c d held) (hm0 : 0 < m) (hmn : m < n) (hn : n ≤ bs.size) (us : List (Nat × Nat))
    (hup : Up m 0 (rootsStack n).reverse us) (sig : Bytes) (hsl : sig.length = 64)
    (hver : C.verify c.publicKey (signableAt C bs n c.tree.fork) sig = true) :
    (c.verifyAndApply C d (honestGrowth C bs c.tree.fork m n us sig)).result = .ok true
      ∧ RP C bs n (c.verifyAndApply C d (honestGrowth C bs c.tree.fork m n us sig)).core
          (d.applyAll (c.verifyAndApply C d (honestGrowth C bs c.tree.fork m n us sig)).journal) held
      ∧ (c.verifyAndApply C d (honestGrowth C bs c.tree.fork m n us sig)).core.publicKey = c.publicKey
      ∧ (c.verifyAndApply C d (honestGrowth C bs c.tree.fork m n us sig)).core.tree.fork = c.tree.fork := by
  obtain ⟨c1, e, j0, hok⟩ := grow_ok C hC hT bs m n c d held h hm0 hmn hn us hup sig hsl hver
  exact rp_of_ok C bs m n c c1 d held _ _ e j0 h hok

/-! ### creation and first contact -/

theorem hdrShape_new_replica (pk : Bytes) (hpk : pk.length = 32) : HdrShape (Header.new pk none) := by
  have hns : defaultNamespace.length = 32 := by decide
  have hu : U64 0 := by unfold U64; omega
  exact ⟨hpk, hns, hpk, hpk, (fun s hs => by cases hs), rfl, rfl, hu, hu, Nat.zero_le _, Nat.zero_le _, hu⟩

/-- **creating a replica**: `Hypercore::new` with a public key only over empty stores gives a core that knows nothing
    (`FreshR`, for every log within the format's limits) and satisfies the ghost invariant -/
theorem init_replica (C : Crypto) (pk : Bytes) (hpk : pk.length = 32) :
    ∃ c j, Core.openCore C (some (pk, none)) {} = .ok (c, j) ∧ c.publicKey = pk ∧ c.tree.fork = 0
      ∧ (∀ bs : Array Bytes, bs.size < 2 ^ 64 ∧ psum bs bs.size < 2 ^ 64 → FreshR C bs c (({} : Disk).applyAll j))
      ∧ PersistR C c (({} : Disk).applyAll j) (Header.new pk none) []
      ∧ (∀ bs : Array Bytes, Extra C bs c (({} : Disk).applyAll j) (Header.new pk none) []) := by
  generalize hih : Oplog.insertHeader (Header.new pk none) 0 Spec.initialBits false = ih
  have hops : ∀ op ∈ ih.2, op.store = .oplog := by rw [← hih]; exact Journal.insertHeader_store _ _ _ _
  have ho : Oplog.openLog (some (pk, none)) [] = .ok ⟨{ bits := ih.1 }, Header.new pk none, ih.2, []⟩ := by
    simp [Oplog.openLog, Oplog.readLog, Spec.headerSize, Spec.entriesOffset, hih]
  have hd1tree : (({} : Disk).applyAll ih.2).tree = File.empty :=
    LiveRefine.tree_of_applyAll _ _ (fun op hop => by rw [hops op hop]; decide)
  have hd1bf : (({} : Disk).applyAll ih.2).bitfield = File.empty :=
    Journal.applyAll_other _ _ .bitfield (fun op hop => by rw [hops op hop]; decide)
  have htree : Tree.openTree (Header.new pk none).tree (({} : Disk).applyAll ih.2).tree = .ok {} := by
    rw [hd1tree]
    simp [Tree.openTree, Header.new, Flat.fullRoots, Flat.fullRootsAux, Tree.openTree.load]
  have hbf : Bitfield.ofFile (({} : Disk).applyAll ih.2).bitfield = {} := by
    rw [hd1bf]; simp [Bitfield.ofFile, File.empty, File.size]
  have hshape := hdrShape_new_replica pk hpk
  refine ⟨{ publicKey := pk, secret := none, oplog := { bits := ih.1 }, header := Header.new pk none,
            tree := {}, bitfield := {}, skipFlush := 0 }, ih.2, ?_, rfl, rfl, ?_, ?_, ?_⟩
  rotate_right
  · intro bs
    refine ⟨(fun x hx => by cases hx), ⟨fun _ => false, ⟨(fun i hi => by simp [Header.new] at hi), rfl⟩, (fun i hi => by cases hi),
      (fun i hi => by simp [Bitfield.get] at hi)⟩, ?_, ?_, ⟨0, rfl, by omega, (fun p hp => by simp [RefProof.rootsStack_zero] at hp)⟩⟩
    · intro i n h
      rw [hd1tree] at h
      simp [Tree.node?, File.read, File.empty, File.size, Spec.nodeSize] at h
    · intro i n h; simp at h
  · have hdisk : (({} : Disk).oplog.toList) = [] := rfl
    simp only [Core.openCore, hdisk, ho, htree, hbf, Core.openCore.replay]
    rfl
  · intro bs hs
    refine ⟨⟨rfl, ?_, ?_⟩, rfl, rfl, ?_, ?_, ?_, ?_, hs⟩
    · intro i n h
      rw [hd1tree] at h
      simp [Tree.node?, File.read, File.empty, File.size, Spec.nodeSize] at h
    · intro p hp
      simp [RefProof.rootsStack_zero] at hp
    · intro k n h; simp at h
    · rw [hd1tree]; rfl
    · intro i; simp [Bitfield.get]
    · exact ⟨(fun i hi => by cases hi), by simp [Bitfield.get]⟩
  · refine ⟨?_, ⟨{}, htree, fun ol => ⟨{}, ?_, fun _ => rfl, ?_⟩⟩, ?_, ?_, hshape, rfl, rfl, rfl, Or.inl rfl, ⟨rfl, rfl⟩⟩
    · have hfile : (({} : Disk).applyAll ih.2).oplog = ih.2.foldl (fun g op => op.onFile g) File.empty := by
        have := Persist.applyAll_last_only ({} : Disk) [] ih.2 .oplog (fun op hop => by cases hop) hops
        simpa [Disk.get] using this
      rw [hfile, ← hih]
      exact opinv_create _ (headerOK_of_shape _ hshape)
    · rw [hbf]; rfl
    · intro i hne; exfalso; apply hne; rw [hbf]
    · rw [hd1bf]; rfl
    · intro i hne; exfalso; apply hne; rw [hbf]

/-- a replica that knows nothing is a replica of the first 0 blocks -/
theorem reprAt0_of_fresh (C : Crypto) (bs bs' : Array Bytes) (hs : bs.size < 2 ^ 64 ∧ psum bs bs.size < 2 ^ 64) (c : Core) (d : Disk)
    (h : FreshR C bs' c d) : RepRAt C bs 0 c d (fun _ => false) := by
  have hno : ∀ i n, c.tree.node? d.tree i = some n → False := by
    intro i n hn
    obtain ⟨dd, o, _, _, hb⟩ := h.empty.sound i n hn
    have := pow_pos' dd
    have : 1 * 2 ^ dd ≤ (o + 1) * 2 ^ dd := Nat.mul_le_mul_right _ (by omega)
    omega
  refine ⟨Nat.zero_le _, ⟨⟨h.empty.length, fun i n hn => (hno i n hn).elim, (fun p hp => by simp [RefProof.rootsStack_zero] at hp)⟩,
    fun dd o hst _ => (hno _ _ hst).elim⟩, (by rw [h.roots]; simp [rootsAt, RefProof.rootsStack_zero]), (by rw [h.bytes0]; rfl), h.mapwf, h.aligned, h.bits,
    (fun i hi => by cases hi), (fun i hi => by cases hi), (fun i hi => by cases hi), h.contig, hs⟩

/-- … and the other way round -/
theorem fresh_of_reprAt0 (C : Crypto) (bs bs' : Array Bytes) (hs' : bs'.size < 2 ^ 64 ∧ psum bs' bs'.size < 2 ^ 64) (c : Core) (d : Disk)
    (held : Nat → Bool) (h : RepRAt C bs 0 c d held) : FreshR C bs' c d := by
  have hno : ∀ i n, c.tree.node? d.tree i = some n → False := by
    intro i n hn
    obtain ⟨dd, o, _, _, hb⟩ := h.closed.sparse.sound i n hn
    have := pow_pos' dd
    have : 1 * 2 ^ dd ≤ (o + 1) * 2 ^ dd := Nat.mul_le_mul_right _ (by omega)
    omega
  have hheld : ∀ i, held i = false := by
    intro i
    cases hh : held i with
    | false => rfl
    | true => have := h.heldLt i hh; omega
  refine ⟨⟨h.closed.sparse.length, fun i n hn => (hno i n hn).elim, (fun p hp => by simp [RefProof.rootsStack_zero] at hp)⟩,
    (by rw [h.roots]; simp [rootsAt, RefProof.rootsStack_zero]), (by rw [h.bytes]; rfl), h.mapwf, h.aligned, (fun i => by rw [h.bits, hheld]), h.contig, hs'⟩

/-- **first contact is an exchange step** (from length 0) -/
theorem first_ok (C : Crypto) (hC : HashWF C) (hT : TreeWF C) (bs : Array Bytes) (hs : bs.size < 2 ^ 62 ∧ psum bs bs.size < 2 ^ 64)
    (n : Nat) (h0 : 0 < n) (hn : n ≤ bs.size) (c : Core) (d : Disk) (h : FreshR C (bs.extract 0 n) c d)
    (sig : Bytes) (hsl : sig.length = 64)
    (hver : C.verify c.publicKey (signableAt C bs n c.tree.fork) sig = true) :
    ∃ c1 e j0, StepOK C bs 0 n c c1 d (fun _ => false) (fun _ => false) (c.verifyAndApply C d (honestFirst C bs c.tree.fork n sig)) e j0 := by
  have hs64 : bs.size < 2 ^ 64 ∧ psum bs bs.size < 2 ^ 64 := ⟨by omega, hs.2⟩
  have hN : n < 2 ^ 64 := by omega
  have hsz := size_extract bs n hn
  have hpf : honestFirst C bs c.tree.fork n sig = honestUpgrade C (bs.extract 0 n) c.tree.fork sig := by
    simp only [honestFirst, honestUpgrade, roots_extract C bs n hn, size_extract bs n hn]
  rw [hpf]
  obtain ⟨cs, hroots0, hlen0, hfork, hsig, hnodes0, hupg, hanc, hbytes0, hhash, hshape, hrep0⟩ :=
    firstCore_repr C hC (bs.extract 0 n) c d h (by rw [hsz]; exact h0) sig hsl (by rw [signable_extract C bs n hn]; exact hver)
  have hroots : cs.roots = rootsAt C bs n := by rw [hroots0, roots_extract C bs n hn]
  have hnodes : cs.nodes = rootsAt C bs n := by rw [hnodes0, roots_extract C bs n hn]
  have hlen : cs.length = n := by rw [hlen0, hsz]
  have hbytes : cs.byteLength = psum bs n := by rw [hbytes0, hsz, psum_extract bs n hn n (Nat.le_refl _)]
  have hrep1 := (repr_extract C bs n hn hs64 _ _ _).mp hrep0
  have hrl := rootsStack_length_log 64 n hN
  have heo := entryOf_up cs c.header hupg
  generalize he : (Core.entryOf cs none c.header).1 = e at hshape hrep1
  have he' : e = { treeNodes := cs.nodes, treeUpgrade := some ⟨cs.fork, cs.ancestors, cs.length, sig⟩, bitfield := none } := by
    rw [← he, heo, hsig]; rfl
  have hhd : (growCore c cs).header = { c.header with tree := { c.header.tree with rootHash := rootsHash C cs.roots, signature := sig, length := n } } := by
    show (Core.entryOf cs none c.header).2 = _
    rw [heo, hsig, hhash, hlen]; rfl
  have hc1o : (growCore c cs).oplog = (Oplog.appendEntry c.oplog e).1 := by rw [← he]; rfl
  have hj1 : ∀ op ∈ (Oplog.appendEntry c.oplog e).2, op.store = .oplog := Journal.appendEntry_store _ _
  have htree : (d.applyAll (Oplog.appendEntry c.oplog e).2).tree = d.tree :=
    LiveRefine.tree_of_applyAll _ _ (fun op hop => by rw [hj1 op hop]; decide)
  have hsne : sig.isEmpty = false := by cases sig with | nil => simp at hsl | cons a l => rfl
  have hok : StepOK C bs 0 n c (growCore c cs) d (fun _ => false) (fun _ => false) (c.verifyAndApply C d (honestUpgrade C (bs.extract 0 n) c.tree.fork sig)) e [] := StepOK.mk
    (by rw [hshape]; exact ⟨rfl, rfl⟩) hrep1 (fun hf es hp => by
      refine persist_entry C c _ d hf es e _ hp ?_ (fun op hop => by cases hop) hc1o ?_ ?_ ?_ ?_ ?_ ?_ ?_ ?_
      · rw [he']
        apply entry_ok
        · apply refNodes_wf C hC bs hs.1 hs.2
          · intro x hx
            rw [hnodes, rootsAt] at hx
            obtain ⟨p, hp', rfl⟩ := List.mem_map.mp hx
            exact ⟨p.1, p.2, rfl, Nat.le_trans (rootsStack_bound n p (List.mem_reverse.mp hp')) hn⟩
          · rw [hnodes, rootsAt, List.length_map, List.length_reverse]; omega
        · rw [hnodes, rootsAt, List.length_map, List.length_reverse]; omega
        · intro u hu
          cases hu
          refine ⟨?_, ?_, ?_, hsl⟩
          · show U64 cs.fork
            rw [hfork, ← hp.hdrFork]; exact hp.shape.fork
          · show U64 cs.ancestors
            rw [hanc, h.empty.length]; unfold U64; omega
          · show U64 cs.length
            rw [hlen]; exact hN
        · intro b hb; cases hb
      · intro ol b hb1 hb2
        refine ⟨b, ?_, hb1, hb2⟩
        have := replay_grow C bs d c ol b cs n sig hN hroots hlen hbytes hsig hsl hupg hanc hhash hfork
          (by rw [h.roots]; intro x hx; cases hx)
          (fun p hp' => by rw [← htree]; exact hrep1.closed.sparse.roots p hp')
        rw [he] at this
        exact this
      · exact hp.dirty
      · rw [hhd]
        exact hdrShape_set c.header hp.shape _ _ _ _ (by rw [rootsHash, hT]) (by omega) hN hp.shape.contig
      · rw [hhd]; exact hlen.symm
      · rw [hhd]; show c.header.tree.fork = cs.fork; rw [hfork]; exact hp.hdrFork
      · rw [hhd]; show cs.signature = _; simp only [hsne, Bool.false_eq_true, ite_false]; exact hsig
      · rw [hhd]; exact Or.inr hsl
      · rw [hhd]; exact hp.keys)
    (fun op hop => by cases hop)
    (fun u hu => by rw [he'] at hu; cases hu)
    (fun j hj => Or.inl hj)
    (by rw [he']; rfl)
    (fun x hxm => by
      rw [he', hnodes, rootsAt] at hxm
      obtain ⟨p, _, rfl⟩ := List.mem_map.mp hxm
      exact ⟨p.1, p.2, rfl⟩)
    (by rw [hshape])
    ⟨rfl, hfork⟩
    (fun k' => by rw [List.take_nil]; exact reprAt0_of_fresh C bs _ hs64 c d h)
    (fun op hop => by cases hop)
  exact ⟨_, _, _, hok⟩

/-- **first contact keeps the ghost invariant and establishes the replica invariant** -/
theorem rp_first (C : Crypto) (hC : HashWF C) (hT : TreeWF C) (bs : Array Bytes) (hs : bs.size < 2 ^ 62 ∧ psum bs bs.size < 2 ^ 64)
    (n : Nat) (h0 : 0 < n) (hn : n ≤ bs.size) (c : Core) (d : Disk) (h : FreshR C (bs.extract 0 n) c d)
    (hper : ∃ hf es, PersistR C c d hf es ∧ Extra C bs c d hf es) (sig : Bytes) (hsl : sig.length = 64)
    (hver : C.verify c.publicKey (signableAt C bs n c.tree.fork) sig = true) :
    (c.verifyAndApply C d (honestFirst C bs c.tree.fork n sig)).result = .ok true
      ∧ RP C bs n (c.verifyAndApply C d (honestFirst C bs c.tree.fork n sig)).core
          (d.applyAll (c.verifyAndApply C d (honestFirst C bs c.tree.fork n sig)).journal) (fun _ => false)
      ∧ (c.verifyAndApply C d (honestFirst C bs c.tree.fork n sig)).core.publicKey = c.publicKey
      ∧ (c.verifyAndApply C d (honestFirst C bs c.tree.fork n sig)).core.tree.fork = c.tree.fork := by
  have hs64 : bs.size < 2 ^ 64 ∧ psum bs bs.size < 2 ^ 64 := ⟨by omega, hs.2⟩
  obtain ⟨c1, e, j0, hok⟩ := first_ok C hC hT bs hs n h0 hn c d h sig hsl hver
  exact rp_of_ok C bs 0 n c c1 d _ _ _ e j0 ⟨reprAt0_of_fresh C bs _ hs64 c d h, hper, hs.1⟩ hok

/-! ### exchanges and reopens, in any order -/

/-- what happens to the replica next: one of the exchanges of `HashReq.Act`, or the process ends and the stores are
    opened again with `Hypercore::new` (no key pair given) -/
inductive ActR
  | act (a : Act)
  | reopen

def stepR (C : Crypto) (bs : Array Bytes) : Core × Disk → ActR → (Core × Disk) × R Bool
  | (c, d), .act a => (((c.verifyAndApply C d (actProof C bs c d a)).core, d.applyAll (c.verifyAndApply C d (actProof C bs c d a)).journal),
      (c.verifyAndApply C d (actProof C bs c d a)).result)
  | (c, d), .reopen =>
    match openCore C none d with
    | .ok (c', j) => ((c', d.applyAll j), .ok true)
    | .error e => ((c, d), .error e)

def playR (C : Crypto) (bs : Array Bytes) : Core × Disk → List ActR → Core × Disk
  | s, [] => s
  | s, a :: r => playR C bs (stepR C bs s a).1 r

def resultsR (C : Crypto) (bs : Array Bytes) : Core × Disk → List ActR → List (R Bool)
  | _, [] => []
  | s, a :: r => (stepR C bs s a).2 :: resultsR C bs (stepR C bs s a).1 r

/-- the exchanges among the acts -/
def exchanges : List ActR → List Act
  | [] => []
  | .act a :: r => a :: exchanges r
  | .reopen :: r => exchanges r

theorem playR_rp (C : Crypto) (hC : HashWF C) (hT : TreeWF C) (bs : Array Bytes) (pk : Bytes) (fork : Nat) :
    ∀ (acts : List ActR) (m : Nat) (c : Core) (d : Disk) (held : Nat → Bool), RP C bs m c d held → 0 < m →
      c.publicKey = pk → c.tree.fork = fork → OkActs C bs pk fork m (exchanges acts) →
      RP C bs (lenAfter m (exchanges acts)) (playR C bs (c, d) acts).1 (playR C bs (c, d) acts).2 (fun j => held j || fetched (exchanges acts) j)
        ∧ resultsR C bs (c, d) acts = acts.map (fun _ => .ok true) := by
  intro acts
  induction acts with
  | nil =>
    intro m c d held h _ _ _ _
    refine ⟨?_, rfl⟩
    have : (fun j => held j || fetched (exchanges []) j) = held := by funext j; simp [fetched, exchanges]
    rw [this]; exact h
  | cons a r ih =>
    intro m c d held h hm0 hpk hfk hok
    cases a with
    | reopen =>
      obtain ⟨c', e1, e2, e3, e4⟩ := rp_reopen C bs m c d held h
      have hstep : stepR C bs (c, d) .reopen = ((c', d), .ok true) := by simp only [stepR, e1]; rfl
      obtain ⟨q1, q2⟩ := ih m c' d held e2 hm0 (by rw [e3, hpk]) (by rw [e4, hfk]) hok
      refine ⟨?_, by simp only [resultsR, hstep, List.map_cons]; rw [q2]⟩
      simpa [playR, hstep, exchanges] using q1
    | act a =>
      cases a with
      | grow n us sig =>
        obtain ⟨o1, o2, o3, o4, o5, o6⟩ := hok
        have hlen : c.tree.length = m := h.rep.closed.sparse.length
        obtain ⟨r1, r2, r3, r4⟩ := rp_grow C hC hT bs m n c d held h hm0 o1 o2 us o3 sig o4 (by rw [hpk, hfk]; exact o5)
        have hact : actProof C bs c d (.grow n us sig) = honestGrowth C bs c.tree.fork m n us sig := by simp [actProof, hlen]
        rw [← hact] at r1 r2 r3 r4
        obtain ⟨q1, q2⟩ := ih n _ _ held r2 (by omega) (by rw [r3, hpk]) (by rw [r4, hfk]) o6
        refine ⟨?_, by simp only [resultsR, stepR, r1, List.map_cons]; rw [q2]⟩
        simpa [playR, stepR, exchanges, lenAfter, fetched] using q1
      | fetch i =>
        obtain ⟨o1, o2⟩ := hok
        obtain ⟨r1, r2, r3, r4⟩ := rp_block C hC bs m c d held h i o1
        obtain ⟨q1, q2⟩ := ih m _ _ _ r2 hm0 (by rw [r3, hpk]) (by rw [r4, hfk]) o2
        refine ⟨?_, by simp only [resultsR, stepR, actProof, r1, List.map_cons]; rw [q2]⟩
        have : (fun j => held j || fetched (exchanges (.act (Act.fetch i) :: r)) j) = (fun j => (held j || j == i) || fetched (exchanges r) j) := by
          funext j; simp [fetched, exchanges, Bool.or_assoc]
        rw [this]
        simpa [playR, stepR, exchanges, lenAfter, actProof] using q1
      | hash d0 o0 =>
        obtain ⟨o1, o2⟩ := hok
        obtain ⟨r1, r2, r3, r4⟩ := rp_hash C hC bs m c d held h d0 o0 o1
        obtain ⟨q1, q2⟩ := ih m _ _ held r2 hm0 (by rw [r3, hpk]) (by rw [r4, hfk]) o2
        refine ⟨?_, by simp only [resultsR, stepR, actProof, r1, List.map_cons]; rw [q2]⟩
        simpa [playR, stepR, exchanges, lenAfter, actProof, fetched] using q1

end HC.ReplicaReopen
