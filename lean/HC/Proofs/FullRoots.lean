import HC.Proofs.Offsets
/-!
`flat_tree::full_roots(2 n)` (greedy, most significant bit first) lists the flat indices of the
reference roots `rootsStack n` (recursive, least significant bit first), left to right.

Both are covers of the leaves `[0, n)` by aligned power-of-two spans with strictly decreasing depths;
such a cover is unique (binary representation).
-/
namespace HC.FullRoots
open HC HC.Flat HC.RefTree HC.RefProof HC.Offsets

/-- depths strictly decrease from left to right -/
def DecDepth (l : List (Nat × Nat)) : Prop := l.Pairwise fun p q => q.1 < p.1

theorem rootsStack_inc (n : Nat) : (rootsStack n).Pairwise fun p q => p.1 < q.1 := by
  induction n using Nat.strongRecOn with
  | _ n ih =>
    by_cases h0 : n = 0
    · subst h0; rw [rootsStack_zero]; exact List.Pairwise.nil
    by_cases hev : n % 2 = 0
    · rw [rootsStack_even n h0 hev, List.pairwise_map]
      exact (ih (n / 2) (by omega)).imp (by intro a b h; simpa [RefProof.lift] using h)
    · rw [rootsStack_odd n (by omega), List.pairwise_cons]
      refine ⟨?_, ?_⟩
      · intro p hp
        obtain ⟨q, _, rfl⟩ := List.mem_map.mp hp
        simp [RefProof.lift]
      · rw [List.pairwise_map]
        exact (ih (n / 2) (by omega)).imp (by intro a b h; simpa [RefProof.lift] using h)

theorem rootsStack_rev_dec (n : Nat) : DecDepth (rootsStack n).reverse := by
  unfold DecDepth
  rw [List.pairwise_reverse]
  exact rootsStack_inc n

/-- a cover with decreasing depths spans fewer than `2^(d+1)` leaves, `d` the first depth -/
theorem cover_lt (l : List (Nat × Nat)) : ∀ (a b d o : Nat) (rest : List (Nat × Nat)), l = (d, o) :: rest →
    Cover l a b → DecDepth l → 2 ^ d ≤ b - a ∧ b - a < 2 ^ (d + 1) ∧ a = o * 2 ^ d := by
  induction l with
  | nil => intro a b d o rest h; cases h
  | cons p tl ih =>
    intro a b d o rest h hc hd
    cases h
    cases hc with
    | cons _ _ _ _ _ ha hrest =>
      have hle := hrest.le
      have e1 : (o + 1) * 2 ^ d = o * 2 ^ d + 2 ^ d := by ring
      cases tl with
      | nil =>
        cases hrest
        rw [pow_succ2]
        have hp := pow_pos' d
        exact ⟨by omega, by omega, ha⟩
      | cons q tl2 =>
        obtain ⟨d', o'⟩ := q
        have hd' : d' < d := by
          have := (List.pairwise_cons.mp hd).1 (d', o') (by simp)
          simpa using this
        obtain ⟨i1, i2, _⟩ := ih _ b d' o' tl2 rfl hrest (List.pairwise_cons.mp hd).2
        have hpow : 2 ^ (d' + 1) ≤ 2 ^ d := Nat.pow_le_pow_right (by decide) (by omega)
        rw [pow_succ2]
        exact ⟨by omega, by omega, ha⟩

/-- uniqueness of the aligned, depth-decreasing cover -/
theorem cover_unique (l : List (Nat × Nat)) : ∀ (l' : List (Nat × Nat)) (a b : Nat), Cover l a b → Cover l' a b →
    DecDepth l → DecDepth l' → l = l' := by
  induction l with
  | nil =>
    intro l' a b h h' _ _
    cases h
    cases h' with
    | nil => rfl
    | cons d o _ _ rest ha hrest =>
      have := hrest.le
      have hp := pow_pos' d
      have e1 : (o + 1) * 2 ^ d = o * 2 ^ d + 2 ^ d := by ring
      omega
  | cons p tl ih =>
    intro l' a b h h' hd hd'
    obtain ⟨d, o⟩ := p
    cases l' with
    | nil =>
      cases h'
      cases h with
      | cons _ _ _ _ _ ha hrest =>
        have := hrest.le
        have hp := pow_pos' d
        have e1 : (o + 1) * 2 ^ d = o * 2 ^ d + 2 ^ d := by ring
        omega
    | cons p' tl' =>
      obtain ⟨d', o'⟩ := p'
      obtain ⟨a1, a2, a3⟩ := cover_lt _ a b d o tl rfl h hd
      obtain ⟨b1, b2, b3⟩ := cover_lt _ a b d' o' tl' rfl h' hd'
      have hdd : d = d' := by
        rcases Nat.lt_trichotomy d d' with hlt | heq | hgt
        · have : 2 ^ (d + 1) ≤ 2 ^ d' := Nat.pow_le_pow_right (by decide) (by omega)
          omega
        · exact heq
        · have : 2 ^ (d' + 1) ≤ 2 ^ d := Nat.pow_le_pow_right (by decide) (by omega)
          omega
      subst hdd
      have hoo : o = o' := by
        have : o * 2 ^ d = o' * 2 ^ d := by omega
        exact Nat.eq_of_mul_eq_mul_right (pow_pos' d) this
      subst hoo
      cases h with
      | cons _ _ _ _ _ _ hrest =>
        cases h' with
        | cons _ _ _ _ _ _ hrest' =>
          rw [ih tl' _ b hrest hrest' (List.pairwise_cons.mp hd).2 (List.pairwise_cons.mp hd').2]

/-! ### the greedy decomposition -/

/-- positions chosen by `full_roots`: `tmp` leaves remain, starting at leaf `a` -/
def frPos : Nat → Nat → Nat → List (Nat × Nat)
  | 0, _, _ => []
  | fuel+1, tmp, a =>
    if tmp = 0 then []
    else
      let d := Nat.log2 tmp
      (d, a / 2 ^ d) :: frPos fuel (tmp - 2 ^ d) (a + 2 ^ d)

theorem log2_spec (n : Nat) (h : n ≠ 0) : 2 ^ Nat.log2 n ≤ n ∧ n < 2 ^ (Nat.log2 n + 1) :=
  ⟨Nat.log2_self_le h, Nat.lt_log2_self⟩

theorem fullRootsAux_eq (fuel : Nat) : ∀ (tmp a k : Nat), tmp < 2 ^ k → 2 ^ k ∣ a →
    fullRootsAux fuel tmp (2 * a) = (frPos fuel tmp a).map fun p => Flat.index p.1 p.2 := by
  induction fuel with
  | zero => intro tmp a k _ _; rfl
  | succ fuel ih =>
    intro tmp a k hk hdiv
    simp only [fullRootsAux, frPos]
    by_cases h0 : tmp = 0
    · simp [h0]
    · simp only [h0, ite_false, List.map_cons]
      obtain ⟨l1, l2⟩ := log2_spec tmp h0
      generalize Nat.log2 tmp = d at l1 l2
      have hdk : d < k := by
        by_contra hge
        have : 2 ^ k ≤ 2 ^ d := Nat.pow_le_pow_right (by decide) (by omega)
        omega
      have hdvd : 2 ^ d ∣ a := Nat.dvd_trans (Nat.pow_dvd_pow 2 (by omega)) hdiv
      obtain ⟨q, rfl⟩ := hdvd
      have hp := pow_pos' d
      have hdivq : 2 ^ d * q / 2 ^ d = q := Nat.mul_div_cancel_left q hp
      congr 1
      · rw [hdivq, index_eq]
        have : q * (2 * 2 ^ d) = 2 * (2 ^ d * q) := by ring
        omega
      · have e : 2 * (2 ^ d * q) + 2 * 2 ^ d = 2 * (2 ^ d * q + 2 ^ d) := by ring
        rw [e]
        apply ih (tmp - 2 ^ d) (2 ^ d * q + 2 ^ d) d
        · rw [pow_succ2] at l2; omega
        · exact Nat.dvd_add (Nat.dvd_mul_right _ _) (Nat.dvd_refl _)

theorem frPos_cover (fuel : Nat) : ∀ (tmp a k : Nat), tmp < 2 ^ k → 2 ^ k ∣ a → k ≤ fuel →
    Cover (frPos fuel tmp a) a (a + tmp) ∧ DecDepth (frPos fuel tmp a) ∧ ∀ p ∈ frPos fuel tmp a, p.1 < k := by
  induction fuel with
  | zero =>
    intro tmp a k hk _ hf
    have : k = 0 := by omega
    subst this
    have : tmp = 0 := by simpa using hk
    subst this
    exact ⟨by simpa [frPos] using Cover.nil a, List.Pairwise.nil, fun p hp => by simp [frPos] at hp⟩
  | succ fuel ih =>
    intro tmp a k hk hdiv hf
    simp only [frPos]
    by_cases h0 : tmp = 0
    · subst h0
      exact ⟨by simpa using Cover.nil a, List.Pairwise.nil, fun p hp => by simp at hp⟩
    · simp only [h0, ite_false]
      obtain ⟨l1, l2⟩ := log2_spec tmp h0
      generalize Nat.log2 tmp = d at l1 l2
      have hdk : d < k := by
        by_contra hge
        have : 2 ^ k ≤ 2 ^ d := Nat.pow_le_pow_right (by decide) (by omega)
        omega
      have hdvd : 2 ^ d ∣ a := Nat.dvd_trans (Nat.pow_dvd_pow 2 (by omega)) hdiv
      obtain ⟨q, rfl⟩ := hdvd
      have hp := pow_pos' d
      have hdivq : 2 ^ d * q / 2 ^ d = q := Nat.mul_div_cancel_left q hp
      obtain ⟨c1, c2, c3⟩ := ih (tmp - 2 ^ d) (2 ^ d * q + 2 ^ d) d (by rw [pow_succ2] at l2; omega)
        (Nat.dvd_add (Nat.dvd_mul_right _ _) (Nat.dvd_refl _)) (by omega)
      rw [hdivq]
      refine ⟨?_, ?_, ?_⟩
      · refine Cover.cons d q _ _ _ (by ring) ?_
        have e1 : (q + 1) * 2 ^ d = 2 ^ d * q + 2 ^ d := by ring
        have e2 : 2 ^ d * q + tmp = 2 ^ d * q + 2 ^ d + (tmp - 2 ^ d) := by omega
        rw [e1, e2]; exact c1
      · exact List.pairwise_cons.mpr ⟨fun p hp => c3 p hp, c2⟩
      · intro p hp
        rcases List.mem_cons.mp hp with rfl | hp
        · exact hdk
        · have := c3 p hp; omega

/-- `full_roots(2 n)` = flat indices of the reference roots, left to right (`n < 2^64`) -/
theorem fullRoots_eq (n : Nat) (hn : n < 2 ^ 64) :
    fullRoots (2 * n) = (rootsStack n).reverse.map fun p => Flat.index p.1 p.2 := by
  have h2 : 2 * n / 2 = n := by omega
  simp only [fullRoots, h2]
  have e := fullRootsAux_eq 65 n 0 64 hn (Nat.dvd_zero _)
  simp only [Nat.mul_zero] at e
  rw [e]
  obtain ⟨c1, c2, _⟩ := frPos_cover 65 n 0 64 hn (Nat.dvd_zero _) (by omega)
  simp only [Nat.zero_add] at c1
  rw [cover_unique _ _ 0 n c1 (cover_roots n) c2 (rootsStack_rev_dec n)]

end HC.FullRoots
