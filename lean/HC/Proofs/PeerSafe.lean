import HC.Proofs.ApplyTotal
/-!
A replica stays servable whatever proofs it is sent (C09, closing the induction): the hypothesis of the
totality theorems — the tree's roots sit at the root positions of its length (`RootShape`) — is preserved by
`verify_and_apply_proof` for **every** proof, accepted or not.  A refused or failing proof leaves the tree
alone; an accepted one without upgrade leaves roots and length alone; an accepted upgrade adopts roots whose
(hash, index, size) triples are those of a prefix the writer signed (`Sound.upgrade_sound`), hence the root
positions of the adopted length — unless a collision of the root-list hash is exhibited.
-/
namespace HC.PeerSafe
open HC HC.Codec HC.Flat HC.Tree HC.CreateTotal HC.ApplyTotal

/-- `verify_tree` touches nothing but the node list -/
theorem verifyTree_same (C : Crypto) (block : Option DataBlock) (hash : Option DataHash) (seek : Option DataSeek) (cs : Changeset)
    (r : Option Node × Changeset) (h : verifyTree C block hash seek cs = .ok r) :
    r.2.roots = cs.roots ∧ r.2.length = cs.length ∧ r.2.upgraded = cs.upgraded ∧ r.2.fork = cs.fork := by
  unfold verifyTree andThen at h
  simp only [] at h
  split at h
  · cases h; exact ⟨rfl, rfl, rfl, rfl⟩
  · cases hs : seekHalf C seek cs.rnodes with
    | error e => rw [hs] at h; cases h
    | ok x =>
      rw [hs] at h
      simp only [] at h
      cases hun : untrustedOf block hash with
      | none => rw [hun] at h; simp only [] at h; cases h; exact ⟨rfl, rfl, rfl, rfl⟩
      | some v =>
        rw [hun] at h
        simp only [] at h
        cases hm : mainHalf C v.1 v.2.1 v.2.2 x.1 x.2 with
        | error e => rw [hm] at h; cases h
        | ok y => rw [hm] at h; simp only [] at h; cases h; exact ⟨rfl, rfl, rfl, rfl⟩

/-- what an accepted proof went through -/
theorem verifyProof_cases (C : Crypto) (t : Tree) (f : File) (p : Proof) (pk : Bytes) (cs : Changeset)
    (h : verifyProof C t f p pk = .ok cs) :
    ∃ root cs1, verifyTree C p.block p.hash p.seek t.changeset = .ok (root, cs1)
      ∧ ((p.upgrade = none ∧ cs = cs1) ∨ ∃ u consumed, p.upgrade = some u ∧ verifyUpgrade C p.fork u root pk cs1 = .ok (consumed, cs)) := by
  unfold verifyProof at h
  cases hv : verifyTree C p.block p.hash p.seek t.changeset with
  | error e => rw [hv] at h; cases h
  | ok r =>
    rw [hv] at h
    obtain ⟨root, cs1⟩ := r
    refine ⟨root, cs1, rfl, ?_⟩
    simp only [] at h
    cases hu : p.upgrade with
    | none =>
      rw [hu] at h
      simp only [] at h
      left
      refine ⟨rfl, ?_⟩
      cases root with
      | none => simp only [] at h; cases h; rfl
      | some r =>
        simp only [] at h
        cases hreq : t.requiredNode f r.index with
        | error e => rw [hreq] at h; cases h
        | ok v =>
          rw [hreq] at h
          simp only [] at h
          split at h
          · cases h
          · cases h; rfl
    | some u =>
      rw [hu] at h
      simp only [] at h
      right
      cases hvu : verifyUpgrade C p.fork u root pk cs1 with
      | error e => rw [hvu] at h; cases h
      | ok r2 =>
        rw [hvu] at h
        obtain ⟨consumed, cs2⟩ := r2
        refine ⟨u, consumed, rfl, ?_⟩
        simp only [] at h
        cases hun : (if consumed = true then none else root) with
        | none => rw [hun] at h; simp only [] at h; cases h; exact hvu
        | some r =>
          rw [hun] at h
          simp only [] at h
          cases hreq : t.requiredNode f r.index with
          | error e => rw [hreq] at h; cases h
          | ok v =>
            rw [hreq] at h
            simp only [] at h
            split at h
            · cases h
            · cases h; exact hvu

theorem verifyUpgrade_fork (C : Crypto) (fork : Nat) (u : DataUpgrade) (blockRoot : Option Node) (pk : Bytes) (cs : Changeset)
    (r : Bool × Changeset) (h : verifyUpgrade C fork u blockRoot pk cs = .ok r) : r.2.fork = fork := by
  unfold verifyUpgrade andThen at h
  simp only [] at h
  split at h
  · cases h
  · split at h
    · cases h
    · split at h
      · cases h
      · unfold checkSignature at h
        simp only [] at h
        split at h
        · cases h
        · split at h
          · cases h
          · cases h; rfl

/-- what is assumed about the world outside the replica: the key verifies only what the writer signed, and the
    writer signs only heads of prefixes of its log `bs` -/
structure World (C : Crypto) (bs : Array Bytes) (wfork : Nat) (pk : Bytes) : Prop where
  signed : ∃ Signed : Bytes → Prop, (∀ m sig, C.verify pk m sig = true → Signed m)
    ∧ (∀ m, Signed m → ∃ n, n ≤ bs.size ∧ m = RefTree.signableOf C (bs.extract 0 n) wfork)
  treeLen : ∀ x, (C.tree x).length = 32
  size : bs.size < 2 ^ 64
  fork : wfork < 2 ^ 64

theorem flush_shape (c : Core) : RootShape c.maybeFlush.1.tree ↔ RootShape c.tree := by
  rw [LiveRefine.maybeFlush_eq]
  split
  · simp only [Core.flushAll, Tree.flush]
    exact Iff.rfl
  · exact Iff.rfl

/-- the tree after a successful commit: the changeset's roots, length and fork if it upgraded, the old ones otherwise -/
theorem commit_shape (t t' : Tree) (cs : Changeset) (h : t.commit cs = .ok t') :
    (cs.upgraded = true ∧ t'.roots = cs.roots ∧ t'.length = cs.length ∧ t'.fork = cs.fork)
      ∨ (cs.upgraded = false ∧ t'.roots = t.roots ∧ t'.length = t.length ∧ t'.fork = t.fork) := by
  unfold Tree.commit at h
  split at h
  · cases h
  · split at h
    · cases h
    · by_cases hu : cs.upgraded = true
      · simp only [hu, ite_true] at h; cases h; exact Or.inl ⟨hu, rfl, rfl, rfl⟩
      · have hu' : cs.upgraded = false := by simpa using hu
        simp only [hu', Bool.false_eq_true, ite_false] at h; cases h; exact Or.inr ⟨hu', rfl, rfl, rfl⟩

/-- **the shape survives every proof**: after `verify_and_apply_proof` of any proof whatsoever the tree's roots
    sit at the root positions of its length again — or a collision of the root-list hash is exhibited.
    (`hu64`: lengths are `u64` values, which the `Nat` model has to be told.) -/
theorem shape_step (C : Crypto) (bs : Array Bytes) (wfork : Nat) (c : Core) (d : Disk) (p : Proof)
    (hW : World C bs wfork c.publicKey) (hT : RootShape c.tree) (hf : c.tree.fork < 2 ^ 64)
    (hu64 : ∀ cs, verifyProof C c.tree d.tree p c.publicKey = .ok cs → cs.length < 2 ^ 64) :
    Sound.TreeCollision C ∨
      (RootShape (c.verifyAndApply C d p).core.tree ∧ (c.verifyAndApply C d p).core.publicKey = c.publicKey
        ∧ (c.verifyAndApply C d p).core.tree.fork < 2 ^ 64) := by
  unfold Core.verifyAndApply
  split
  · exact Or.inr ⟨hT, rfl, hf⟩
  · rename_i hfk
    have hfk' : p.fork = c.tree.fork := by simpa using hfk
    cases hv : verifyProof C c.tree d.tree p c.publicKey with
    | error e => exact Or.inr ⟨hT, rfl, hf⟩
    | ok cs =>
      simp only []
      split
      · exact Or.inr ⟨hT, rfl, hf⟩
      · cases hd : Core.dataStep c d p cs with
        | error e => exact Or.inr ⟨hT, rfl, hf⟩
        | ok r =>
          obtain ⟨j0, bu⟩ := r
          simp only []
          by_cases henc : Core.encodable cs = true
          swap
          · rw [if_neg henc]; exact Or.inr ⟨hT, rfl, hf⟩
          rw [if_pos henc]
          unfold Core.applyVerified
          simp only []
          cases hcm : c.tree.commit cs with
          | error e => simp only [Core.finishApply]; exact Or.inr ⟨hT, by trivial, hf⟩
          | ok tr =>
            simp only [Core.finishApply]
            -- the committed tree
            have key : Sound.TreeCollision C ∨ (RootShape tr ∧ tr.fork < 2 ^ 64) := by
              obtain ⟨root, cs1, hvt, hcase⟩ := verifyProof_cases C c.tree d.tree p c.publicKey cs hv
              obtain ⟨s1, s2, s3, s4⟩ := verifyTree_same C _ _ _ _ _ hvt
              rcases commit_shape c.tree tr cs hcm with ⟨hup, hr, hl, hfo⟩ | ⟨hup, hr, hl, hfo⟩
              · -- an upgrade was adopted
                rcases hcase with ⟨_, rfl⟩ | ⟨u, consumed, hpu, hvu⟩
                · rw [s3] at hup; cases hup
                · obtain ⟨Signed, hunf, hsig⟩ := hW.signed
                  have hcl := hu64 cs hv
                  rcases Sound.upgrade_sound C bs wfork Signed p.fork u root c.publicKey cs1 cs consumed hunf hsig hW.treeLen hW.size hW.fork
                    hcl (by rw [hfk']; exact hf) hvu with hcol | ⟨hle, hfw, hroots⟩
                  · exact Or.inl hcol
                  · right
                    have hfork : tr.fork < 2 ^ 64 := by
                      rw [hfo, verifyUpgrade_fork C _ _ _ _ _ _ hvu, hfk']; exact hf
                    refine ⟨rootShape_of_roots tr cs.length hcl hl ?_, hfork⟩
                    rw [hr]
                    have := congrArg (List.map (fun x : Bytes × Nat × Nat => x.2.1)) hroots
                    simp only [List.map_map, Function.comp_def] at this
                    rw [this]
                    simp [RefTree.roots, List.map_map, Function.comp_def, TreeStore.nodeAt_index, Nat.min_eq_left hle]
              · right
                exact ⟨⟨by rw [hl]; exact hT.1, by obtain ⟨l, h1, h2⟩ := hT.2; exact ⟨l, by rw [hl]; exact h1, by rw [hr]; exact h2⟩⟩,
                  by rw [hfo]; exact hf⟩
            rcases key with hcol | ⟨hs, hfo⟩
            · exact Or.inl hcol
            · right
              generalize hc1 : ({ c with oplog := (Oplog.appendEntry c.oplog (Core.entryOf cs bu c.header).1).1, header := _, bitfield := _, tree := tr } : Core) = c1
              have h1 : c1.tree = tr := by rw [← hc1]
              have h2 : c1.publicKey = c.publicKey := by rw [← hc1]
              refine ⟨(flush_shape c1).mpr (by rw [h1]; exact hs), ?_, ?_⟩
              · rw [LiveRefine.maybeFlush_eq]; split
                · simp only [Core.flushAll]; exact h2
                · exact h2
              · rw [LiveRefine.maybeFlush_eq]; split
                · simp only [Core.flushAll, Tree.flush]; rw [h1]; exact hfo
                · show c1.tree.fork < _; rw [h1]; exact hfo

/-! ### any sequence of proofs -/

/-- the replica after a list of proofs, whatever they are -/
def after (C : Crypto) : Core × Disk → List Proof → Core × Disk
  | s, [] => s
  | (c, d), p :: ps => after C ((c.verifyAndApply C d p).core, d.applyAll (c.verifyAndApply C d p).journal) ps

/-- lengths stay `u64` values along the run (automatic in the Rust; the `Nat` model has to be told) -/
def U64Run (C : Crypto) : Core × Disk → List Proof → Prop
  | _, [] => True
  | (c, d), p :: ps => (∀ cs, verifyProof C c.tree d.tree p c.publicKey = .ok cs → cs.length < 2 ^ 64)
      ∧ U64Run C ((c.verifyAndApply C d p).core, d.applyAll (c.verifyAndApply C d p).journal) ps

theorem after_append (C : Crypto) (s : Core × Disk) (ps qs : List Proof) : after C s (ps ++ qs) = after C (after C s ps) qs := by
  induction ps generalizing s with
  | nil => rfl
  | cons p ps ih => obtain ⟨c, d⟩ := s; simp only [List.cons_append, after]; exact ih _

/-- **the shape survives every sequence of proofs** -/
theorem shape_after (C : Crypto) (bs : Array Bytes) (wfork : Nat) (hnc : ¬ Sound.TreeCollision C) :
    ∀ (ps : List Proof) (c : Core) (d : Disk), World C bs wfork c.publicKey → RootShape c.tree → c.tree.fork < 2 ^ 64 →
      U64Run C (c, d) ps →
      RootShape (after C (c, d) ps).1.tree ∧ (after C (c, d) ps).1.publicKey = c.publicKey ∧ (after C (c, d) ps).1.tree.fork < 2 ^ 64 := by
  intro ps
  induction ps with
  | nil => intro c d _ hT hf _; exact ⟨hT, rfl, hf⟩
  | cons p ps ih =>
    intro c d hW hT hf hu
    rcases shape_step C bs wfork c d p hW hT hf hu.1 with hcol | ⟨h1, h2, h3⟩
    · exact absurd hcol hnc
    · obtain ⟨r1, r2, r3⟩ := ih _ (d.applyAll (c.verifyAndApply C d p).journal) (by rw [h2]; exact hW) h1 h3 hu.2
      exact ⟨r1, r2.trans h2, r3⟩

end HC.PeerSafe
