import HC.Proofs.UpgradeSound
import HC.Proofs.Reopen
/-!
The byte length a replica adopts with an upgrade (C04: "never a length or byte length the writer did not sign").
`append_root` adds the size of every appended node to the byte length, and merging two roots keeps the sum of
the roots' sizes; so `byte_length = Σ sizes of the roots` is an invariant of everything `verify_proof` does, and
once the adopted roots are the reference roots (`upgrade_sound`) the adopted byte length is the total size of
the signed prefix of the writer's log.
-/
namespace HC.UpgradeBytes
open HC HC.Codec HC.Flat HC.Tree HC.RefTree HC.RefProof HC.Sound HC.UpgradeSound

def SumOK (cs : Changeset) : Prop := cs.byteLength = (cs.roots.map (·.length)).sum

theorem mergeLoop_sum (C : Crypto) : ∀ (fuel : Nat) (rr nodes : List Node) (it : Iter),
    ((mergeLoop C fuel rr nodes it).1.map (·.length)).sum = (rr.map (·.length)).sum := by
  intro fuel
  induction fuel with
  | zero => intro rr nodes it; rfl
  | succ fuel ih =>
    intro rr nodes it
    cases rr with
    | nil => rfl
    | cons a rest =>
      cases rest with
      | nil => rfl
      | cons b rest =>
        simp only [mergeLoop]
        split
        · rfl
        · rw [ih]
          simp only [List.map_cons, List.sum_cons]
          omega

theorem appendRoot_sum (C : Crypto) (cs : Changeset) (n : Node) (it : Iter) (h : SumOK cs) : SumOK (appendRoot C cs n it).1 := by
  unfold SumOK at h ⊢
  unfold appendRoot
  have hm := mergeLoop_sum C (cs.roots.length + 1) (n :: cs.roots.reverse) (n :: cs.rnodes) it
  generalize mergeLoop C (cs.roots.length + 1) (n :: cs.roots.reverse) (n :: cs.rnodes) it = m at hm
  obtain ⟨rr, rn, it'⟩ := m
  simp only at hm ⊢
  rw [List.map_reverse, List.sum_reverse, hm, h]
  simp only [List.map_cons, List.sum_cons, List.map_reverse, List.sum_reverse]
  omega

theorem growLoop_sum (C : Crypto) (rootIndex : Nat) : ∀ (fuel : Nat) (cs : Changeset) (it : Iter) (q : NodeQueue)
    (res : Changeset × Iter × NodeQueue), growLoop C rootIndex fuel cs it q = .ok res → SumOK cs → SumOK res.1 := by
  intro fuel
  induction fuel with
  | zero => intro cs it q res h; simp [growLoop] at h
  | succ fuel ih =>
    intro cs it q res h hs
    unfold growLoop at h
    split at h
    · simp only [Except.ok.injEq] at h; subst h; exact hs
    · dsimp only at h
      cases hsh : q.shift it.sibling.index with
      | error x => rw [hsh] at h; simp at h
      | ok pr =>
        obtain ⟨n, q1⟩ := pr
        rw [hsh] at h
        simp only [] at h
        exact ih _ _ q1 res h (appendRoot_sum C cs n it.sibling hs)

theorem upgradeRoots_sum (C : Crypto) (tgt : Nat) : ∀ (fuel : Nat) (st st' : UpState), upgradeRoots C tgt fuel st = .ok st' →
    SumOK st.cs → SumOK st'.cs := by
  intro fuel
  induction fuel with
  | zero => intro st st' h; simp [upgradeRoots] at h
  | succ fuel ih =>
    intro st st' h hs
    unfold upgradeRoots at h
    generalize st.it.fullRoot tgt = fr at h
    obtain ⟨full, it⟩ := fr
    simp only at h
    split at h
    · simp only [Except.ok.injEq] at h; subst h; exact hs
    · split at h
      · exact ih _ st' h hs
      · split at h
        · cases hgl : growLoop C it.index (st.q.nodes.length + 3) st.cs (Iter.new (st.cs.roots.getLast?.getD default).index) st.q with
          | error e => rw [hgl] at h; simp at h
          | ok res =>
            rw [hgl] at h
            obtain ⟨cs1, it1, q1⟩ := res
            simp only [] at h
            exact ih _ st' h (growLoop_sum C _ _ _ _ _ _ hgl hs)
        · cases hsh : st.q.shift it.index with
          | error e => rw [hsh] at h; simp at h
          | ok pr =>
            obtain ⟨n, q1⟩ := pr
            rw [hsh] at h
            simp only [] at h
            exact ih _ st' h (appendRoot_sum C st.cs n it hs)

theorem extraSiblings_sum (C : Crypto) : ∀ (fuel : Nat) (cs : Changeset) (it : Iter) (ex : List Node), SumOK cs →
    SumOK (extraSiblings C fuel cs it ex).1 := by
  intro fuel
  induction fuel with
  | zero => intro cs it ex h; simpa [extraSiblings] using h
  | succ fuel ih =>
    intro cs it ex h
    cases ex with
    | nil => simpa [extraSiblings] using h
    | cons n ex =>
      simp only [extraSiblings]
      split
      · exact ih _ _ _ (appendRoot_sum C cs n it.sibling h)
      · exact h

theorem extraRest_sum (C : Crypto) : ∀ (ex : List Node) (cs : Changeset) (it : Iter) (res : Changeset × Iter),
    extraRest C cs it ex = .ok res → SumOK cs → SumOK res.1 := by
  intro ex
  induction ex with
  | nil => intro cs it res h hs; simp only [extraRest, Except.ok.injEq] at h; subst h; exact hs
  | cons n ex ih =>
    intro cs it res h hs
    simp only [extraRest] at h
    cases hd : descendTo n.index (it.factor + 1) it with
    | error e => rw [hd] at h; simp at h
    | ok it1 =>
      rw [hd] at h
      simp only [] at h
      exact ih _ _ res h (appendRoot_sum C cs n it1 hs)

theorem verifyUpgrade_sum (C : Crypto) (fork : Nat) (u : DataUpgrade) (blockRoot : Option Node) (pk : Bytes) (cs cs' : Changeset)
    (consumed : Bool) (h : verifyUpgrade C fork u blockRoot pk cs = .ok (consumed, cs')) (hs : SumOK cs) : SumOK cs' := by
  unfold verifyUpgrade at h
  simp only [andThen] at h
  cases hur : upgradeRoots C (2 * (u.start + u.length)) (2 * (u.start + u.length) + 2)
      ⟨cs, Iter.new 0, NodeQueue.new u.nodes blockRoot, 0, !cs.roots.isEmpty⟩ with
  | error e => rw [hur] at h; simp at h
  | ok st =>
    rw [hur] at h
    simp only [] at h
    have h1 := upgradeRoots_sum C _ _ _ st hur hs
    cases hlast : st.cs.roots.getLast? with
    | none => rw [hlast] at h; simp at h
    | some last =>
      rw [hlast] at h
      simp only [] at h
      have h2 := extraSiblings_sum C (u.additionalNodes.length + 1) st.cs (Iter.new last.index) u.additionalNodes h1
      generalize extraSiblings C (u.additionalNodes.length + 1) st.cs (Iter.new last.index) u.additionalNodes = es at h h2
      obtain ⟨csS, itS, exS⟩ := es
      simp only at h h2
      cases her : extraRest C csS itS exS with
      | error e => rw [her] at h; simp at h
      | ok x =>
        rw [her] at h
        have h3 := extraRest_sum C exS csS itS x her h2
        simp only [checkSignature] at h
        split at h
        · cases h
        · split at h
          · cases h
          · simp only [Except.ok.injEq, Prod.mk.injEq] at h
            obtain ⟨_, hcs⟩ := h
            rw [← hcs]
            exact h3

theorem roots_eq (C : Crypto) (bs : Array Bytes) : RefTree.roots C bs = Reopen.refRoots C bs := by
  simp [RefTree.roots, Reopen.refRoots]

/-- **The adopted length and byte length are signed ones.**  Whenever `verify_upgrade` accepts on a replica whose
    byte length is the sum of its roots' sizes: the adopted length `L` is one the writer signed, and the adopted
    byte length is the total size of the first `L` blocks of the writer's log — or a collision of the root-list
    hash is exhibited. -/
theorem upgrade_bytes_sound (C : Crypto) (bs : Array Bytes) (wfork : Nat) (Signed : Bytes → Prop)
    (fork : Nat) (u : DataUpgrade) (blockRoot : Option Node) (pk : Bytes) (cs cs' : Changeset) (consumed : Bool)
    (hunf : ∀ m sig, C.verify pk m sig = true → Signed m)
    (hsig : ∀ m, Signed m → ∃ n, n ≤ bs.size ∧ m = RefTree.signableOf C (bs.extract 0 n) wfork)
    (hlen : ∀ x, (C.tree x).length = 32) (hsize : bs.size < 2 ^ 64) (hwf : wfork < 2 ^ 64)
    (hb1 : cs'.length < 2 ^ 64) (hb2 : fork < 2 ^ 64) (hsum : SumOK cs)
    (h : verifyUpgrade C fork u blockRoot pk cs = .ok (consumed, cs')) :
    TreeCollision C ∨ (cs'.length ≤ bs.size ∧ cs'.byteLength = LogSpec.totalBytes (bs.extract 0 cs'.length)) := by
  rcases upgrade_sound C bs wfork Signed fork u blockRoot pk cs cs' consumed hunf hsig hlen hsize hwf hb1 hb2 h with hcol | ⟨hL, _, hroots⟩
  · exact Or.inl hcol
  · refine Or.inr ⟨hL, ?_⟩
    have hs' := verifyUpgrade_sum C fork u blockRoot pk cs cs' consumed h hsum
    unfold SumOK at hs'
    have hlens : cs'.roots.map (·.length) = (RefTree.roots C (bs.extract 0 cs'.length)).map (·.length) := by
      have := congrArg (List.map (fun (x : Bytes × Nat × Nat) => x.2.2)) hroots
      simpa [List.map_map, Function.comp_def] using this
    rw [hs', hlens, roots_eq]
    exact Reopen.refRoots_sum C (bs.extract 0 cs'.length)

end HC.UpgradeBytes
