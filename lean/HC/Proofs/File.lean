import HC.Model.Storage
/-! The algebra of the flat-file model: what a byte of the file is after each operation. -/
namespace HC.File

/-- byte `i` of the file; bytes beyond the end read as zero (which is what extension writes there) -/
def byte (f : File) (i : Nat) : UInt8 := f.data.getD i 0

theorem getD_push (a : Array UInt8) (x : UInt8) (i : Nat) :
    (a.push x).getD i 0 = if i = a.size then x else a.getD i 0 := by
  simp only [Array.getD_eq_getD_getElem?, Array.getElem?_push]
  split <;> simp_all

theorem pushZeros_size (a : Array UInt8) (k : Nat) : (pushZeros a k).size = a.size + k := by
  induction k generalizing a with
  | zero => rfl
  | succ k ih => simp [pushZeros, ih]; omega

theorem pushZeros_getD (a : Array UInt8) (k i : Nat) : (pushZeros a k).getD i 0 = a.getD i 0 := by
  induction k generalizing a with
  | zero => rfl
  | succ k ih =>
    simp only [pushZeros]
    rw [ih, getD_push]
    split
    · rename_i h; subst h
      simp [Array.getD_eq_getD_getElem?]
    · rfl

theorem extend_size (a : Array UInt8) (n : Nat) : (extend a n).size = max a.size n := by
  simp [extend, pushZeros_size]; omega

theorem extend_getD (a : Array UInt8) (n i : Nat) : (extend a n).getD i 0 = a.getD i 0 := pushZeros_getD a _ i

theorem getD_setIfInBounds (a : Array UInt8) (i j : Nat) (v : UInt8) :
    (a.setIfInBounds i v).getD j 0 = if i = j ∧ i < a.size then v else a.getD j 0 := by
  simp only [Array.getD_eq_getD_getElem?, Array.getElem?_setIfInBounds]
  by_cases h : i = j
  · subst h
    by_cases h2 : i < a.size <;> simp [h2]
  · simp [h]

theorem writeFrom_size (a : Array UInt8) (off : Nat) (bs : Bytes) : (writeFrom a off bs).size = a.size := by
  induction bs generalizing a off with
  | nil => rfl
  | cons b bs ih => simp [writeFrom, ih]

theorem writeFrom_getD (a : Array UInt8) (off : Nat) (bs : Bytes) (i : Nat) (h : off + bs.length ≤ a.size) :
    (writeFrom a off bs).getD i 0 = if off ≤ i ∧ i < off + bs.length then bs.getD (i - off) 0 else a.getD i 0 := by
  induction bs generalizing a off with
  | nil =>
    have : ¬ (off ≤ i ∧ i < off + ([] : Bytes).length) := by simp
    simp only [writeFrom]
    rw [if_neg this]
  | cons b bs ih =>
    simp only [writeFrom, List.length_cons] at h ⊢
    rw [ih _ _ (by simp; omega), getD_setIfInBounds]
    by_cases h1 : off = i
    · subst h1
      have c1 : ¬ (off + 1 ≤ off ∧ off < off + 1 + bs.length) := by omega
      have c2 : off ≤ off ∧ off < off + (bs.length + 1) := by omega
      have c3 : off < a.size := by omega
      simp [c1, c2, c3]
    · by_cases h2 : off + 1 ≤ i ∧ i < off + 1 + bs.length
      · have c2 : off ≤ i ∧ i < off + (bs.length + 1) := by omega
        have e : i - off = (i - (off + 1)) + 1 := by omega
        simp [h2, c2, e]
      · have c2 : ¬ (off ≤ i ∧ i < off + (bs.length + 1)) := by omega
        simp [h2, c2, h1]

/-! ### the laws -/

theorem size_write (f : File) (off : Nat) (bs : Bytes) : (f.write off bs).size = max f.size (off + bs.length) := by
  obtain ⟨a⟩ := f
  simp [write, size, writeFrom_size, extend_size]

theorem byte_write (f : File) (off : Nat) (bs : Bytes) (i : Nat) :
    (f.write off bs).byte i = if off ≤ i ∧ i < off + bs.length then bs.getD (i - off) 0 else f.byte i := by
  obtain ⟨a⟩ := f
  simp only [write, byte]
  rw [writeFrom_getD _ _ _ _ (by rw [extend_size]; omega), extend_getD]

theorem read_length (f : File) (off len : Nat) (l : Bytes) (h : f.read off len = some l) : l.length = len := by
  unfold read at h
  split at h
  · cases h
  · rename_i hle
    cases h
    simp [size] at hle ⊢
    omega

theorem read_byte (f : File) (off len : Nat) (l : Bytes) (h : f.read off len = some l) (k : Nat) (hk : k < len) :
    l.getD k 0 = f.byte (off + k) := by
  unfold read at h
  split at h
  · cases h
  · rename_i hle
    cases h
    simp only [size, Nat.not_lt] at hle
    have h1 : off + k < f.data.size := by omega
    simp [byte, Array.getD_eq_getD_getElem?, List.getD_eq_getElem?_getD, h1, hk]

/-- reads are determined by size and bytes -/
theorem read_congr (f g : File) (hs : f.size = g.size) (hb : ∀ i, f.byte i = g.byte i) (off len : Nat) :
    f.read off len = g.read off len := by
  cases hf : f.read off len with
  | none =>
    unfold read at hf ⊢
    split at hf
    · rename_i h; rw [hs] at h; simp [h]
    · cases hf
  | some l =>
    cases hg : g.read off len with
    | none =>
      unfold read at hf hg
      split at hg
      · rename_i h; rw [← hs] at h; simp [h] at hf
      · cases hg
    | some m =>
      have l1 := read_length f off len l hf
      have l2 := read_length g off len m hg
      congr 1
      apply List.ext_getElem (by omega)
      intro k hk1 hk2
      have b1 := read_byte f off len l hf k (by omega)
      have b2 := read_byte g off len m hg k (by omega)
      rw [List.getD_eq_getElem?_getD, List.getElem?_eq_getElem hk1] at b1
      rw [List.getD_eq_getElem?_getD, List.getElem?_eq_getElem hk2] at b2
      simp only [Option.getD_some] at b1 b2
      rw [b1, b2, hb]

/-- writes preserve agreement on size and bytes -/
theorem write_congr (f g : File) (hs : f.size = g.size) (hb : ∀ i, f.byte i = g.byte i) (off : Nat) (bs : Bytes) :
    (f.write off bs).size = (g.write off bs).size ∧ ∀ i, (f.write off bs).byte i = (g.write off bs).byte i := by
  refine ⟨by rw [size_write, size_write, hs], fun i => ?_⟩
  rw [byte_write, byte_write, hb]

/-- a write is read back exactly -/
theorem read_write_same (f : File) (off : Nat) (bs : Bytes) : (f.write off bs).read off bs.length = some bs := by
  cases h : (f.write off bs).read off bs.length with
  | none =>
    unfold read at h
    split at h
    · rename_i hgt; rw [size_write] at hgt; omega
    · cases h
  | some l =>
    have l1 := read_length _ _ _ _ h
    congr 1
    apply List.ext_getElem l1
    intro k hk1 hk2
    have b1 := read_byte _ _ _ _ h k (by omega)
    rw [byte_write] at b1
    have c : off ≤ off + k ∧ off + k < off + bs.length := by omega
    simp only [c, and_self, ite_true, Nat.add_sub_cancel_left] at b1
    rw [List.getD_eq_getElem?_getD, List.getElem?_eq_getElem hk1, List.getD_eq_getElem?_getD, List.getElem?_eq_getElem hk2] at b1
    simpa using b1

/-- a read is determined by the size and the bytes in its range -/
theorem read_of_bytes (f : File) (off : Nat) (l : Bytes) (hsz : off + l.length ≤ f.size)
    (hb : ∀ k, k < l.length → f.byte (off + k) = l.getD k 0) : f.read off l.length = some l := by
  cases h : f.read off l.length with
  | none =>
    unfold read at h
    split at h
    · omega
    · cases h
  | some m =>
    have l1 := read_length _ _ _ _ h
    congr 1
    apply List.ext_getElem l1
    intro k hk1 hk2
    have b1 := read_byte _ _ _ _ h k (by omega)
    rw [hb k hk2] at b1
    rw [List.getD_eq_getElem?_getD, List.getElem?_eq_getElem hk1, List.getD_eq_getElem?_getD, List.getElem?_eq_getElem hk2] at b1
    simpa using b1

theorem read_size (f : File) (off len : Nat) (l : Bytes) (h : f.read off len = some l) : off + len ≤ f.size := by
  unfold read at h
  split at h
  · cases h
  · omega

/-- a write outside the range of a successful read does not change it -/
theorem read_write_disjoint (f : File) (off : Nat) (bs : Bytes) (off' len : Nat) (l : Bytes)
    (h : f.read off' len = some l) (hd : off' + len ≤ off ∨ off + bs.length ≤ off') :
    (f.write off bs).read off' len = some l := by
  have hl := read_length _ _ _ _ h
  have hs := read_size _ _ _ _ h
  subst hl
  apply read_of_bytes
  · rw [size_write]; omega
  · intro k hk
    rw [byte_write]
    have : ¬ (off ≤ off' + k ∧ off' + k < off + bs.length) := by omega
    simp only [this, ite_false]
    exact (read_byte _ _ _ _ h k hk).symm

end HC.File
