import HC.Proofs.Reopen
import HC.Proofs.BitfieldPages
import HC.Proofs.FormatLimits
/-!
What the stores hold between flushes.  `Persist` is a ghost-state invariant carried along every live
history: `hf` is the header written by the last flush, `a0` the abstract log at that flush, `es` the
entries logged since.  It says that the tree and bitfield stores hold the state `a0`, that `es` leads
from `a0` to the current log, and that every bit that differs from the bitfield store lies on a dirty
page — which is exactly what `Reopen.reopen_refines` needs, apart from the byte-level statement that the
oplog store opens to `(hf, es)`.
-/
namespace HC.Persist
open HC HC.Codec HC.Flat HC.Tree HC.RefTree HC.RefProof HC.Offsets HC.TreeStore HC.LogSpec HC.Core HC.Oplog HC.LiveRefine
  HC.BitfieldPages HC.OplogBytes HC.FormatLimits

structure Persist (C : Crypto) (c : Core) (d : Disk) (hf : Header) (a0 : Abs) (es : List Entry) (a : Abs) : Prop where
  trace : Trace C a0 es a
  small0 : Small a0
  fileNodes : NodesOK C a0.blocks {} d.tree
  /-- the bitfield store holds `a0`'s bits, or whatever a flush that was cut short may have left -/
  stable : ∀ i, (∀ e ∈ es, ¬ Touch.Touches e i) → (Bitfield.ofFile d.bitfield).get i = a0.held i
  kept : ∀ i, a0.held i = true → (Bitfield.ofFile d.bitfield).get i = true ∨ ∃ e ∈ es, Touch.Clears e i
  low : ∀ i, i < a0.blocks.size → a0.held i = false → (Bitfield.ofFile d.bitfield).get i = false
  below : ∀ i, (Bitfield.ofFile d.bitfield).get i = true → i < a.blocks.size
  fileSize : d.bitfield.size % Spec.pageBytes = 0
  held0Lt : ∀ i, a0.held i = true → i < a0.blocks.size
  hfLen : hf.tree.length = a0.blocks.size
  hfSig : hf.tree.signature = [] ∨ hf.tree.signature.length = 64
  hfSecret : hf.secret = c.secret
  hfContig : (∀ i, i < hf.contiguous → a0.held i = true) ∧ a0.held hf.contiguous = false
  dirty : ∀ i, c.bitfield.get i ≠ (Bitfield.ofFile d.bitfield).get i → i / Spec.pageBits ∈ c.bitfield.dirty
  hdrLen : c.header.tree.length = a.blocks.size
  hdrSig : c.header.tree.signature = [] ∨ c.header.tree.signature.length = 64
  hdrSecret : c.header.secret = c.secret
  /-- the oplog store abstracts to a log that satisfies the commit protocol's invariant -/
  oplog : OpInv c.oplog d.oplog.toList hf es
  shape : HdrShape c.header
  forkU : U64 c.tree.fork
  hfShape : HdrShape hf

/-- size limits of a call beyond `Valid`: what the on-disk formats can represent -/
def Limits (a : Abs) : Op → Prop
  | .append batch => a.blocks.size + batch.length < 2 ^ 62 ∧ batch.length < 2 ^ 20
  | .clear _ e => e < 2 ^ 64
  | _ => True

theorem contig_le (C : Crypto) (c : Core) (d : Disk) (a : Abs) (h : Rep C c d a) : c.header.contiguous ≤ a.blocks.size := by
  by_cases hle : c.header.contiguous ≤ a.blocks.size
  · exact hle
  · exfalso
    have h1 := h.contig.1 a.blocks.size (by omega)
    rw [h.bits] at h1
    have := h.heldLt _ h1
    omega

theorem trace_snoc (C : Crypto) (a0 a a' : Abs) (es : List Entry) (e : Entry) (ht : Trace C a0 es a)
    (hs : EntryStep C a e a') (hsm : Small a') : Trace C a0 (es ++ [e]) a' := by
  induction ht with
  | nil a => exact Trace.cons a a' a' e [] hs hsm (Trace.nil a')
  | cons a a1 a2 e0 es0 h1 h2 _ ih => exact Trace.cons a a1 a' e0 (es0 ++ [e]) h1 h2 (ih hs)

/-! ### the mutating calls up to their flush decision -/

theorem persist_append_pre (C : Crypto) (c c1 : Core) (d d1 : Disk) (hf : Header) (a0 a : Abs) (es : List Entry)
    (batch : List Bytes) (entry : Entry) (hp : Persist C c d hf a0 es a)
    (hrep : Rep C c1 d1 (a.step (.append batch)).1) (hne : batch ≠ []) (hw : a.writable = true)
    (htree : d1.tree = d.tree) (hbf : d1.bitfield = d.bitfield)
    (hbits : c1.bitfield = c.bitfield.setRange a.blocks.size batch.length true)
    (hentry : EntryStep C a entry (a.step (.append batch)).1)
    (hlen : c1.header.tree.length = a.blocks.size + batch.length) (hsig : c1.header.tree.signature.length = 64)
    (hsec : c1.header.secret = c.header.secret) (hsec2 : c1.secret = c.secret)
    (hop : c1.oplog = (Oplog.appendEntry c.oplog entry).1)
    (hdop : d1.oplog = d.oplog.write (Spec.entriesOffset + c.oplog.entriesByteLength) (frame (encEntry entry) c.oplog.currentBit false))
    (hok : EntryOK entry) (hshape : HdrShape c1.header) (hfork : c1.tree.fork = c.tree.fork) :
    Persist C c1 d1 hf a0 (es ++ [entry]) (a.step (.append batch)).1 := by
  have hemp : batch.isEmpty = false := by cases batch with | nil => exact absurd rfl hne | cons _ _ => rfl
  have hsize : (a.step (.append batch)).1.blocks.size = a.blocks.size + batch.length := by
    simp [Abs.step, hemp, hw]
  exact {
    trace := trace_snoc C a0 a _ es entry hp.trace hentry hrep.small
    small0 := hp.small0
    fileNodes := by rw [htree]; exact hp.fileNodes
    stable := by rw [hbf]; exact fun i hu => hp.stable i (fun e he => hu e (by simp [he]))
    kept := by
      rw [hbf]; intro i hh
      rcases hp.kept i hh with h1 | ⟨e, he, hc⟩
      · exact Or.inl h1
      · exact Or.inr ⟨e, by simp [he], hc⟩
    low := by rw [hbf]; exact hp.low
    below := by rw [hbf]; intro i hi; have := hp.below i hi; rw [hsize]; omega
    fileSize := by rw [hbf]; exact hp.fileSize
    held0Lt := hp.held0Lt
    hfLen := hp.hfLen
    hfSig := hp.hfSig
    hfSecret := by rw [hsec2]; exact hp.hfSecret
    hfContig := hp.hfContig
    dirty := by rw [hbf, hbits]; exact dirty_setRange _ _ _ _ _ hp.dirty
    hdrLen := by rw [hlen, hsize]
    hdrSig := Or.inr hsig
    hdrSecret := by rw [hsec, hsec2]; exact hp.hdrSecret
    oplog := by rw [hop, hdop]; exact opinv_append c.oplog d.oplog hf es entry hp.oplog hok
    shape := hshape
    forkU := by rw [hfork]; exact hp.forkU
    hfShape := hp.hfShape }

theorem persist_clear_pre (C : Crypto) (c c1 : Core) (d d1 : Disk) (hf : Header) (a0 a : Abs) (es : List Entry)
    (s e : Nat) (hse : s < e) (hp : Persist C c d hf a0 es a)
    (hrep : Rep C c1 d1 (a.step (.clear s e)).1)
    (htree : d1.tree = d.tree) (hbf : d1.bitfield = d.bitfield)
    (hbits : c1.bitfield = c.bitfield.setRange s (e - s) false)
    (hhdr : c1.header.tree = c.header.tree) (hsec : c1.header.secret = c.header.secret) (hsec2 : c1.secret = c.secret)
    (hop : c1.oplog = (Oplog.appendEntry c.oplog { bitfield := some ⟨true, s, e - s⟩ }).1)
    (hdop : d1.oplog = d.oplog.write (Spec.entriesOffset + c.oplog.entriesByteLength)
      (frame (encEntry { bitfield := some ⟨true, s, e - s⟩ }) c.oplog.currentBit false))
    (hok : EntryOK { bitfield := some ⟨true, s, e - s⟩ }) (hshape : HdrShape c1.header) (hctree : c1.tree = c.tree) :
    Persist C c1 d1 hf a0 (es ++ [{ bitfield := some ⟨true, s, e - s⟩ }]) (a.step (.clear s e)).1 := by
  have hge : ¬ s ≥ e := by omega
  have hblocks : (a.step (.clear s e)).1.blocks = a.blocks := by simp [Abs.step, hge]
  exact {
    trace := trace_snoc C a0 a _ es _ hp.trace (EntryStep.clear a s e hse) hrep.small
    small0 := hp.small0
    fileNodes := by rw [htree]; exact hp.fileNodes
    stable := by rw [hbf]; exact fun i hu => hp.stable i (fun e he => hu e (by simp [he]))
    kept := by
      rw [hbf]; intro i hh
      rcases hp.kept i hh with h1 | ⟨e, he, hc⟩
      · exact Or.inl h1
      · exact Or.inr ⟨e, by simp [he], hc⟩
    low := by rw [hbf]; exact hp.low
    below := by rw [hbf, hblocks]; exact hp.below
    fileSize := by rw [hbf]; exact hp.fileSize
    held0Lt := hp.held0Lt
    hfLen := hp.hfLen
    hfSig := hp.hfSig
    hfSecret := by rw [hsec2]; exact hp.hfSecret
    hfContig := hp.hfContig
    dirty := by rw [hbf, hbits]; exact dirty_setRange _ _ _ _ _ hp.dirty
    hdrLen := by rw [hhdr, hblocks]; exact hp.hdrLen
    hdrSig := by rw [hhdr]; exact hp.hdrSig
    hdrSecret := by rw [hsec, hsec2]; exact hp.hdrSecret
    oplog := by rw [hop, hdop]; exact opinv_append c.oplog d.oplog hf es _ hp.oplog hok
    shape := hshape
    forkU := by rw [hctree]; exact hp.forkU
    hfShape := hp.hfShape }

/-! ### the flush -/

theorem applyAll_get_only (d : Disk) (pre ops post : List SOp) (s : Store)
    (hpre : ∀ op ∈ pre, op.store ≠ s) (hpost : ∀ op ∈ post, op.store ≠ s) :
    (d.applyAll (pre ++ ops ++ post)).get s = ((d.applyAll pre).applyAll ops).get s := by
  rw [Journal.applyAll_append, Journal.applyAll_append, Journal.applyAll_other _ post s hpost]

theorem applyAll_bitfield_writes (b : Bitfield) (d : Disk) (ps : List Nat) :
    (d.applyAll (ps.map fun p => SOp.write .bitfield (p * Spec.pageBytes) (b.pageBytes p))).bitfield
      = writePages b d.bitfield ps := by
  induction ps generalizing d with
  | nil => rfl
  | cons p ps ih =>
    simp only [List.map_cons, Disk.applyAll, List.foldl_cons, writePages]
    have := ih (d.apply (SOp.write .bitfield (p * Spec.pageBytes) (b.pageBytes p)))
    simp only [Disk.applyAll, writePages] at this
    rw [this]
    obtain ⟨t, da, bf, o⟩ := d
    rfl

theorem applyAll_last_only (d : Disk) (pre ops : List SOp) (s : Store)
    (hpre : ∀ op ∈ pre, op.store ≠ s) (hops : ∀ op ∈ ops, op.store = s) :
    (d.applyAll (pre ++ ops)).get s = ops.foldl (fun g op => op.onFile g) (d.get s) := by
  rw [Journal.applyAll_get]
  have h1 : (pre ++ ops).filter (fun op => op.store = s) = ops := by
    rw [List.filter_append]
    have e1 : pre.filter (fun op => op.store = s) = [] := by
      apply List.filter_eq_nil_iff.mpr; intro op hop; simpa using hpre op hop
    have e2 : ops.filter (fun op => op.store = s) = ops := by
      apply List.filter_eq_self.mpr; intro op hop; simpa using hops op hop
    rw [e1, e2, List.nil_append]
  rw [h1]

theorem firstMissing_congr (b b' : Bitfield) (c : Nat) (h : ∀ i, b'.get i = b.get i) (hc : FirstMissing b c) : FirstMissing b' c :=
  ⟨fun i hi => by rw [h]; exact hc.1 i hi, by rw [h]; exact hc.2⟩

/-- the flush decision keeps `Persist`, for new ghost values when it flushes -/
theorem maybeFlush_persist (C : Crypto) (hC : HashWF C) (c : Core) (d : Disk) (hf : Header) (a0 a : Abs) (es : List Entry)
    (hrep : Rep C c d a) (hp : Persist C c d hf a0 es a) :
    ∃ hf' a0' es', Persist C c.maybeFlush.1 (d.applyAll c.maybeFlush.2) hf' a0' es' a := by
  rw [maybeFlush_eq]
  split
  · -- flush: the stores now hold the current state
    refine ⟨c.header, a, [], ?_⟩
    simp only [Core.flushAll]
    have hj1 := Journal.bitfieldFlush_store c.bitfield
    have hj2 := Journal.treeFlush_store c.tree
    have hj3 := Journal.oplogFlush_store c.oplog c.header false
    -- the tree store
    obtain ⟨f1, _, _⟩ := nodesOK_flush C hC a.blocks c.tree (d.applyAll c.bitfield.flush.2) hrep.mapwf
      (by rw [tree_of_applyAll _ _ (fun op hop => by rw [hj1 op hop]; decide)]; exact hrep.nodes)
    have htree : (d.applyAll (c.bitfield.flush.2 ++ c.tree.flush.2 ++ (Oplog.flush c.oplog c.header false).2)).tree
        = ((d.applyAll c.bitfield.flush.2).applyAll c.tree.flush.2).tree := by
      have := applyAll_get_only d c.bitfield.flush.2 c.tree.flush.2 (Oplog.flush c.oplog c.header false).2 .tree
        (fun op hop => by rw [hj1 op hop]; decide) (fun op hop => by rw [hj3 op hop]; decide)
      simpa [Disk.get] using this
    -- the bitfield store
    have hbfile : (d.applyAll (c.bitfield.flush.2 ++ c.tree.flush.2 ++ (Oplog.flush c.oplog c.header false).2)).bitfield
        = writePages c.bitfield d.bitfield c.bitfield.dirty := by
      have e1 : d.applyAll (c.bitfield.flush.2 ++ c.tree.flush.2 ++ (Oplog.flush c.oplog c.header false).2)
          = (d.applyAll c.bitfield.flush.2).applyAll (c.tree.flush.2 ++ (Oplog.flush c.oplog c.header false).2) := by
        rw [List.append_assoc, Journal.applyAll_append]
      have e2 := Journal.applyAll_other (d.applyAll c.bitfield.flush.2)
        (c.tree.flush.2 ++ (Oplog.flush c.oplog c.header false).2) .bitfield
        (fun op hop => by
          rcases List.mem_append.mp hop with h | h
          · rw [hj2 op h]; decide
          · rw [hj3 op h]; decide)
      simp only [Disk.get] at e2
      rw [e1, e2]
      exact applyAll_bitfield_writes c.bitfield d c.bitfield.dirty
    obtain ⟨g1, g2⟩ := flush_bits c.bitfield d.bitfield hp.fileSize hp.dirty
    have hbits : ∀ i, (Bitfield.ofFile (writePages c.bitfield d.bitfield c.bitfield.dirty)).get i = a.held i := by
      intro i; rw [g1 i]; exact hrep.bits i
    exact {
      trace := Trace.nil a
      small0 := hrep.small
      fileNodes := by
        rw [htree]
        intro dd o hb
        rw [← f1 dd o hb]
        exact node?_congr _ _ _ _ rfl
      stable := by rw [hbfile]; exact fun i _ => hbits i
      kept := by rw [hbfile]; exact fun i hh => Or.inl (by rw [hbits]; exact hh)
      low := by rw [hbfile]; exact fun i _ hh => by rw [hbits]; exact hh
      below := by rw [hbfile]; exact fun i hi => by rw [hbits] at hi; exact hrep.heldLt i hi
      fileSize := by rw [hbfile]; exact g2
      held0Lt := hrep.heldLt
      hfLen := hp.hdrLen
      hfSig := hp.hdrSig
      hfSecret := hp.hdrSecret
      hfContig := ⟨fun i hi => by rw [← hrep.bits]; exact hrep.contig.1 i hi, by rw [← hrep.bits]; exact hrep.contig.2⟩
      dirty := by
        rw [hbfile]
        intro i hne
        exfalso; apply hne
        rw [g1 i]; simp [Bitfield.flush, Bitfield.get]
      hdrLen := hp.hdrLen
      hdrSig := hp.hdrSig
      hdrSecret := hp.hdrSecret
      oplog := by
        have hfile : (d.applyAll (c.bitfield.flush.2 ++ c.tree.flush.2 ++ (Oplog.flush c.oplog c.header false).2)).oplog
            = (Oplog.flush c.oplog c.header false).2.foldl (fun g op => op.onFile g) d.oplog := by
          have := applyAll_last_only d (c.bitfield.flush.2 ++ c.tree.flush.2) (Oplog.flush c.oplog c.header false).2 .oplog
            (fun op hop => by
              rcases List.mem_append.mp hop with h | h
              · rw [hj1 op h]; decide
              · rw [hj2 op h]; decide) hj3
          simpa [Disk.get] using this
        rw [hfile]
        exact opinv_flush c.oplog d.oplog hf es c.header hp.oplog (headerOK_of_shape _ hp.shape)
      shape := hp.shape
      forkU := by simp only [Tree.flush]; exact hp.forkU
      hfShape := hp.shape }
  · -- no flush
    refine ⟨hf, a0, es, ?_⟩
    rw [applyAll_nil]
    exact { hp with }

/-- a flush of either kind makes the stores hold the current state: `Persist` for the new ghosts -/
theorem flushAll_persist (C : Crypto) (hC : HashWF C) (c : Core) (d : Disk) (hf : Header) (a : Abs) (es : List Entry) (ct : Bool)
    (hrep : Rep C c d a) (hop : OpInv c.oplog d.oplog.toList hf es) (hfs : d.bitfield.size % Spec.pageBytes = 0)
    (hdirty : ∀ i, c.bitfield.get i ≠ (Bitfield.ofFile d.bitfield).get i → i / Spec.pageBits ∈ c.bitfield.dirty)
    (hshape : HdrShape c.header) (hlen : c.header.tree.length = a.blocks.size)
    (hsig : c.header.tree.signature = [] ∨ c.header.tree.signature.length = 64) (hsec : c.header.secret = c.secret)
    (hfork : U64 c.tree.fork) :
    Persist C (c.flushAll ct).1 (d.applyAll (c.flushAll ct).2) c.header a [] a := by
  simp only [Core.flushAll]
  have hj1 := Journal.bitfieldFlush_store c.bitfield
  have hj2 := Journal.treeFlush_store c.tree
  have hj3 := Journal.oplogFlush_store c.oplog c.header ct
  -- the tree store
  obtain ⟨f1, _, _⟩ := nodesOK_flush C hC a.blocks c.tree (d.applyAll c.bitfield.flush.2) hrep.mapwf
    (by rw [tree_of_applyAll _ _ (fun op hop => by rw [hj1 op hop]; decide)]; exact hrep.nodes)
  have htree : (d.applyAll (c.bitfield.flush.2 ++ c.tree.flush.2 ++ (Oplog.flush c.oplog c.header ct).2)).tree
      = ((d.applyAll c.bitfield.flush.2).applyAll c.tree.flush.2).tree := by
    have := applyAll_get_only d c.bitfield.flush.2 c.tree.flush.2 (Oplog.flush c.oplog c.header ct).2 .tree
      (fun op hop => by rw [hj1 op hop]; decide) (fun op hop => by rw [hj3 op hop]; decide)
    simpa [Disk.get] using this
  -- the bitfield store
  have hbfile : (d.applyAll (c.bitfield.flush.2 ++ c.tree.flush.2 ++ (Oplog.flush c.oplog c.header ct).2)).bitfield
      = writePages c.bitfield d.bitfield c.bitfield.dirty := by
    have e1 : d.applyAll (c.bitfield.flush.2 ++ c.tree.flush.2 ++ (Oplog.flush c.oplog c.header ct).2)
        = (d.applyAll c.bitfield.flush.2).applyAll (c.tree.flush.2 ++ (Oplog.flush c.oplog c.header ct).2) := by
      rw [List.append_assoc, Journal.applyAll_append]
    have e2 := Journal.applyAll_other (d.applyAll c.bitfield.flush.2)
      (c.tree.flush.2 ++ (Oplog.flush c.oplog c.header ct).2) .bitfield
      (fun op hop => by
        rcases List.mem_append.mp hop with h | h
        · rw [hj2 op h]; decide
        · rw [hj3 op h]; decide)
    simp only [Disk.get] at e2
    rw [e1, e2]
    exact applyAll_bitfield_writes c.bitfield d c.bitfield.dirty
  obtain ⟨g1, g2⟩ := flush_bits c.bitfield d.bitfield hfs hdirty
  have hbits : ∀ i, (Bitfield.ofFile (writePages c.bitfield d.bitfield c.bitfield.dirty)).get i = a.held i := by
    intro i; rw [g1 i]; exact hrep.bits i
  exact {
    trace := Trace.nil a
    small0 := hrep.small
    fileNodes := by
      rw [htree]
      intro dd o hb
      rw [← f1 dd o hb]
      exact node?_congr _ _ _ _ rfl
    stable := by rw [hbfile]; exact fun i _ => hbits i
    kept := by rw [hbfile]; exact fun i hh => Or.inl (by rw [hbits]; exact hh)
    low := by rw [hbfile]; exact fun i _ hh => by rw [hbits]; exact hh
    below := by rw [hbfile]; exact fun i hi => by rw [hbits] at hi; exact hrep.heldLt i hi
    fileSize := by rw [hbfile]; exact g2
    held0Lt := hrep.heldLt
    hfLen := hlen
    hfSig := hsig
    hfSecret := hsec
    hfContig := ⟨fun i hi => by rw [← hrep.bits]; exact hrep.contig.1 i hi, by rw [← hrep.bits]; exact hrep.contig.2⟩
    dirty := by
      rw [hbfile]
      intro i hne
      exfalso; apply hne
      rw [g1 i]; simp [Bitfield.flush, Bitfield.get]
    hdrLen := hlen
    hdrSig := hsig
    hdrSecret := hsec
    oplog := by
      have hfile : (d.applyAll (c.bitfield.flush.2 ++ c.tree.flush.2 ++ (Oplog.flush c.oplog c.header ct).2)).oplog
          = (Oplog.flush c.oplog c.header ct).2.foldl (fun g op => op.onFile g) d.oplog := by
        have := applyAll_last_only d (c.bitfield.flush.2 ++ c.tree.flush.2) (Oplog.flush c.oplog c.header ct).2 .oplog
          (fun op hop => by
            rcases List.mem_append.mp hop with h | h
            · rw [hj1 op h]; decide
            · rw [hj2 op h]; decide) hj3
        simpa [Disk.get] using this
      rw [hfile]
      cases ct with
      | false => exact opinv_flush c.oplog d.oplog hf es c.header hop (headerOK_of_shape _ hshape)
      | true => exact opinv_flush_traces c.oplog d.oplog hf es c.header hop (headerOK_of_shape _ hshape)
    shape := hshape
    forkU := by simp only [Tree.flush]; exact hfork
    hfShape := hshape }

/-! ### every call keeps `Persist` -/

theorem persist_step (C : Crypto) (hC : HashWF C) (hS : SignWF C) (hTw : TreeWF C) (c : Core) (d : Disk) (hf : Header) (a0 a : Abs)
    (es : List Entry) (hrep : Rep C c d a) (hp : Persist C c d hf a0 es a) (op : Op) (hv : Valid a op) (hl : Limits a op) :
    ∃ hf' a0' es', Persist C (stepC C (c, d) op).1.1 (stepC C (c, d) op).1.2 hf' a0' es' (a.step op).1 := by
  cases op with
  | get i => rw [get_refines C c d a hrep i]; exact ⟨hf, a0, es, hp⟩
  | has i => rw [has_refines C c d a hrep i]; exact ⟨hf, a0, es, hp⟩
  | info => rw [info_refines C c d a hrep]; exact ⟨hf, a0, es, hp⟩
  | makeReadOnly =>
    by_cases hw : a.writable = true
    · have hsome : c.secret.isSome = true := by rw [hrep.writer]; exact hw
      have hrep1 := rep_drop_secret C c d a hrep
      have hstep : (stepC C (c, d) .makeReadOnly).1
          = ((({ c with secret := none, header := { c.header with secret := none } } : Core).flushAll true).1,
             d.applyAll (({ c with secret := none, header := { c.header with secret := none } } : Core).flushAll true).2) := by
        simp only [stepC, Core.makeReadOnly, hsome, ite_true]
      have habs : (a.step .makeReadOnly).1 = { a with writable := false } := by simp [Abs.step, hw]
      rw [hstep, habs]
      exact ⟨_, _, [], flushAll_persist C hC _ d hf _ es true hrep1 hp.oplog hp.fileSize hp.dirty (hdrShape_nosecret _ hp.shape)
        hp.hdrLen hp.hdrSig rfl hp.forkU⟩
    · have hwf : a.writable = false := by simpa using hw
      have hnone : c.secret.isSome = false := by rw [hrep.writer]; exact hwf
      have e1 : (stepC C (c, d) .makeReadOnly).1 = (c, d) := by simp [stepC, Core.makeReadOnly, hnone, Disk.applyAll]
      have e2 : (a.step .makeReadOnly).1 = a := by simp [Abs.step, hwf]
      rw [e1, e2]; exact ⟨hf, a0, es, hp⟩
  | append batch =>
    by_cases hw : a.writable = true
    swap
    · have hwf : a.writable = false := by simpa using hw
      have hsec : c.secret = none := by
        have := hrep.writer; rw [hwf] at this
        cases hs : c.secret with
        | none => rfl
        | some x => rw [hs] at this; simp at this
      have e1 : (stepC C (c, d) (.append batch)).1 = (c, d) := by
        simp [stepC, Core.appendBatch, hsec, Disk.applyAll]
      have e2 : (a.step (.append batch)).1 = a := by simp [Abs.step, hwf]
      rw [e1, e2]; exact ⟨hf, a0, es, hp⟩
    by_cases hemp : batch.isEmpty = true
    · obtain ⟨seed, hseed⟩ : ∃ seed, c.secret = some seed := Option.isSome_iff_exists.mp (by rw [hrep.writer]; exact hw)
      have e1 : (stepC C (c, d) (.append batch)).1 = (c, d) := by
        simp [stepC, Core.appendBatch, hseed, hemp, Disk.applyAll]
      have e2 : (a.step (.append batch)).1 = a := by simp [Abs.step, hemp, hw]
      rw [e1, e2]; exact ⟨hf, a0, es, hp⟩
    · have hne : batch ≠ [] := by intro e; apply hemp; simp [e]
      obtain ⟨c1, j01, entry, hstep, hrep1, ht, hb, hbits, hentry, hlen, hsig, hsec, hsec2, hop, hdop, hfork,
          ⟨rh, sg, cc, hhdr, ⟨l, hrh⟩, hsg⟩, hentOK, _, _⟩ :=
        append_shape C hC c d a hrep batch hne hv hw
      have hcc : cc = c1.header.contiguous := by rw [hhdr]
      have hshape : HdrShape c1.header := by
        rw [hhdr]
        apply hdrShape_set _ hp.shape
        · rw [hrh, hTw l]
        · rw [hsg hS]
        · unfold U64; have := hl.1; omega
        · have := contig_le C c1 _ _ hrep1
          rw [← hcc] at this
          have hsz := hrep1.small.1
          unfold U64; omega
      have hp1 := persist_append_pre C c c1 d (d.applyAll j01) hf a0 a es batch entry hp hrep1 hne hw ht hb hbits
        (hentry hS) hlen (hsig hS) hsec hsec2 hop hdop (hentOK hS hl.1 hl.2 hp.forkU) hshape hfork
      obtain ⟨hf', a0', es', hp2⟩ := maybeFlush_persist C hC c1 (d.applyAll j01) hf a0 _ _ hrep1 hp1
      rw [hstep]
      exact ⟨hf', a0', es', by rw [Journal.applyAll_append]; exact hp2⟩
  | clear s e =>
    by_cases hge : s ≥ e
    · have e1 : (stepC C (c, d) (.clear s e)).1 = (c, d) := by
        simp [stepC, Core.clear, hge, Disk.applyAll]
      have e2 : (a.step (.clear s e)).1 = a := by simp [Abs.step, hge]
      rw [e1, e2]; exact ⟨hf, a0, es, hp⟩
    · obtain ⟨c1, j01, hstep, hrep1, ht, hb, hbits, hhdr, hsec, hsec2, hop, hdop, hctree, ⟨cc, hcc⟩, _, _⟩ :=
        clear_shape C c d a hrep s e (by omega) hv
      have hsn : s < a.blocks.size := hv (by omega)
      have hU : U64 s ∧ U64 (e - s) := by
        have := hrep.small.1
        have he : e < 2 ^ 64 := hl
        unfold U64; omega
      have hshape : HdrShape c1.header := by
        rw [hcc]
        apply hdrShape_contig _ hp.shape
        have hc2 : cc = c1.header.contiguous := by rw [hcc]
        have := contig_le C c1 _ _ hrep1
        rw [← hc2] at this
        have hsz := hrep1.small.1
        unfold U64; omega
      have hp1 := persist_clear_pre C c c1 d (d.applyAll j01) hf a0 a es s e (by omega) hp hrep1 ht hb hbits hhdr hsec hsec2
        hop hdop (clearEntry_ok s (e - s) hU.1 hU.2) hshape hctree
      obtain ⟨hf', a0', es', hp2⟩ := maybeFlush_persist C hC c1 (d.applyAll j01) hf a0 _ _ hrep1 hp1
      rw [hstep]
      exact ⟨hf', a0', es', by rw [Journal.applyAll_append]; exact hp2⟩

/-! ### close and reopen -/

/-- `Hypercore::new` on the stores of a live core: the reopened core represents the same log and
    satisfies the ghost invariant again (same ghosts) — so it can be used, closed and reopened again. -/
theorem reopen_persist (C : Crypto) (hC : HashWF C) (hTw : TreeWF C) (c : Core) (d : Disk) (hf : Header) (a0 a : Abs)
    (es : List Entry) (hrep : Rep C c d a) (hp : Persist C c d hf a0 es a) :
    ∃ c', Core.openCore C none d = .ok (c', []) ∧ Rep C c' d a ∧ Persist C c' d hf a0 es a := by
  obtain ⟨ost, hlog, hb, hebl⟩ := opinv_open c.oplog _ hf es hp.oplog
  have hoks : ∀ e ∈ es, EntryOK e := by
    obtain ⟨_, _, _, _, _, _, _, _, _, _, hok⟩ := hp.oplog
    exact hok
  obtain ⟨h', t', b', hopen, hinv, hs'⟩ := Reopen.reopen_full C hC hTw d ost hf es a0 a [] (fun op hop => by cases hop) hlog hp.hfLen hp.hfSig
    hp.hfShape hoks hp.fileNodes hp.stable hp.kept hp.low hp.below hp.held0Lt hp.hfContig hp.small0 hp.trace
  obtain ⟨hbits', hfm'⟩ := Reopen.rinv_final C t' b' h' d.tree d.bitfield a _ hinv
  refine ⟨_, hopen, ?_, ?_⟩
  · exact {
      writer := by
        show h'.secret.isSome = a.writable
        rw [hs', hp.hfSecret]; exact hrep.writer
      tree := hinv.tree
      nodes := hinv.nodes
      mapwf := hinv.mapwf
      bits := hbits'
      heldLt := hinv.heldLt
      contig := hfm'
      data := hrep.data
      small := hrep.small }
  · exact {
      trace := hp.trace
      small0 := hp.small0
      fileNodes := hp.fileNodes
      stable := hp.stable
      kept := hp.kept
      low := hp.low
      below := hp.below
      fileSize := hp.fileSize
      held0Lt := hp.held0Lt
      hfLen := hp.hfLen
      hfSig := hp.hfSig
      hfSecret := hs'.symm
      hfContig := hp.hfContig
      dirty := hinv.dirty
      hdrLen := hinv.hdrLen
      hdrSig := hinv.hdrSig
      hdrSecret := rfl
      oplog := opinv_congr c.oplog ost _ hf es hp.oplog hb hebl
      shape := hinv.shape
      forkU := hinv.forkU
      hfShape := hp.hfShape }

/-! ### the freshly created core -/

theorem hdrShape_new (pk sk : Bytes) (hpk : pk.length = 32) (hsk : sk.length = 32) : HdrShape (Header.new pk (some sk)) := by
  have hns : defaultNamespace.length = 32 := by decide
  have hu : U64 0 := by unfold U64; omega
  exact ⟨hpk, hns, hpk, hpk, fun s hs => by cases hs; exact hsk, rfl, rfl, hu, hu, Nat.zero_le _, Nat.zero_le _, hu⟩


theorem init_both (C : Crypto) (pk sk : Bytes) (hpk : pk.length = 32) (hsk : sk.length = 32) :
    ∃ c j, Core.openCore C (some (pk, some sk)) {} = .ok (c, j) ∧ Rep C c (({} : Disk).applyAll j) {}
      ∧ Persist C c (({} : Disk).applyAll j) (Header.new pk (some sk)) {} [] {} := by
  generalize hih : Oplog.insertHeader (Header.new pk (some sk)) 0 Spec.initialBits false = ih
  have hops : ∀ op ∈ ih.2, op.store = .oplog := by rw [← hih]; exact Journal.insertHeader_store _ _ _ _
  have ho : Oplog.openLog (some (pk, some sk)) [] = .ok ⟨{ bits := ih.1 }, Header.new pk (some sk), ih.2, []⟩ := by
    simp [Oplog.openLog, Oplog.readLog, Spec.headerSize, Spec.entriesOffset, hih]
  have hd1tree : (({} : Disk).applyAll ih.2).tree = File.empty :=
    tree_of_applyAll _ _ (fun op hop => by rw [hops op hop]; decide)
  have hd1data : (({} : Disk).applyAll ih.2).data = File.empty :=
    data_of_applyAll _ _ (fun op hop => by rw [hops op hop]; decide)
  have hd1bf : (({} : Disk).applyAll ih.2).bitfield = File.empty :=
    Journal.applyAll_other _ _ .bitfield (fun op hop => by rw [hops op hop]; decide)
  have htree : Tree.openTree (Header.new pk (some sk)).tree (({} : Disk).applyAll ih.2).tree = .ok {} := by
    rw [hd1tree]
    simp [Tree.openTree, Header.new, Flat.fullRoots, Flat.fullRootsAux, Tree.openTree.load]
  have hbf : Bitfield.ofFile (({} : Disk).applyAll ih.2).bitfield = {} := by
    rw [hd1bf]; simp [Bitfield.ofFile, File.empty, File.size]
  refine ⟨{ publicKey := pk, secret := some sk, oplog := { bits := ih.1 }, header := Header.new pk (some sk),
            tree := {}, bitfield := {}, skipFlush := 0 }, ih.2, ?_, ?_, ?_⟩
  · have hdisk : (({} : Disk).oplog.toList) = [] := rfl
    simp only [Core.openCore, hdisk, ho, htree, hbf, Core.openCore.replay]
    rfl
  · refine { writer := rfl, tree := ?_, nodes := ?_, mapwf := ?_, bits := ?_, heldLt := ?_, contig := ?_, data := ?_, small := ?_ }
    · exact ⟨rfl, by simp [rootsStack_zero, Tree.changeset], rfl⟩
    · intro dd o hb
      have := pow_pos' dd
      have : 1 * 2 ^ dd ≤ (o + 1) * 2 ^ dd := Nat.mul_le_mul_right _ (by omega)
      exfalso
      have hb' : (o + 1) * 2 ^ dd ≤ 0 := by simpa using hb
      omega
    · intro k n hk; simp at hk
    · intro i; simp [Bitfield.get]
    · intro i hi; simp at hi
    · exact ⟨fun i hi => by simp [Header.new] at hi, by simp [Bitfield.get]⟩
    · intro i hi; simp at hi
    · exact ⟨by simp, by simp [totalBytes]⟩
  · have hnodes : NodesOK C (#[] : Array Bytes) {} (({} : Disk).applyAll ih.2).tree := by
      intro dd o hb
      have := pow_pos' dd
      have : 1 * 2 ^ dd ≤ (o + 1) * 2 ^ dd := Nat.mul_le_mul_right _ (by omega)
      exfalso
      have hb' : (o + 1) * 2 ^ dd ≤ 0 := by simpa using hb
      omega
    exact {
      trace := Trace.nil _
      small0 := ⟨by simp, by simp [totalBytes]⟩
      fileNodes := hnodes
      stable := by intro i _; rw [hbf]; simp [Bitfield.get]
      kept := by intro i hi; simp at hi
      low := by intro i hi; simp at hi
      below := by intro i hi; rw [hbf] at hi; simp [Bitfield.get] at hi
      fileSize := by rw [hd1bf]; rfl
      held0Lt := by intro i hi; simp at hi
      hfLen := rfl
      hfSig := Or.inl rfl
      hfSecret := rfl
      hfContig := ⟨fun i hi => by simp [Header.new] at hi, rfl⟩
      dirty := by intro i hne; exfalso; apply hne; rw [hbf]
      hdrLen := rfl
      hdrSig := Or.inl rfl
      hdrSecret := rfl
      oplog := by
        have hshape := hdrShape_new pk sk hpk hsk
        have hfile : (({} : Disk).applyAll ih.2).oplog = ih.2.foldl (fun g op => op.onFile g) File.empty := by
          have := applyAll_last_only ({} : Disk) [] ih.2 .oplog (fun op hop => by cases hop) hops
          simpa [Disk.get] using this
        rw [hfile, ← hih]
        exact opinv_create _ (headerOK_of_shape _ hshape)
      shape := hdrShape_new pk sk hpk hsk
      forkU := by show (0 : Nat) < 2 ^ 64; omega
      hfShape := hdrShape_new pk sk hpk hsk }


end HC.Persist
