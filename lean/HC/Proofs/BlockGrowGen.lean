import HC.Proofs.BlockGrow
import HC.Proofs.BlockNew
import HC.Proofs.BlockNewOffset
/-!
The core-level half of `BlockGrow`, stated for **any** accepted proof that carries a block and an upgrade (`Accepted`: what
`verify_proof` returned and what it is known to satisfy), and its instance for the usual download step "the next block
together with the upgrade" (block `m` on a replica of length `m`, upgrade `m → n`): the byte offset of that block is the
replica's byte length, the entry carries nodes + upgrade + bitfield update, the step keeps both invariants
(`StepOK`), so it reopens and is crash-atomic like every other exchange step.
-/
namespace HC.BlockGrowGen
open HC HC.Codec HC.Flat HC.Tree HC.RefTree HC.RefProof HC.Sound HC.Offsets HC.TreeStore HC.Complete HC.UpgradeSound HC.CreateTotal
  HC.Replica HC.Growth HC.HashReq HC.Oplog HC.Core HC.OplogBytes HC.FormatLimits HC.BitfieldPages HC.Touch HC.ReplicaReopen HC.BlockGrow

/-- what is known about a proof `p` with block `i` and an upgrade to `n` that `verify_proof` accepted with changeset `cs` -/
structure Accepted (C : Crypto) (bs : Array Bytes) (n : Nat) (c : Core) (d : Disk) (p : Proof) (i : Nat) (cs : Changeset) (sig : Bytes) (B : Nat) : Prop where
  fork : p.fork = c.tree.fork
  block : ∃ nodes, p.block = some ⟨i, bs.getD i [], nodes⟩
  verified : c.tree.verifyProof C d.tree p c.publicKey = .ok cs
  closed : ClosedAt C bs n (vt c.tree cs) d.tree
  roots : cs.roots = rootsAt C bs n
  length : cs.length = n
  bytes : cs.byteLength = psum bs n
  nodesRef : ∀ x ∈ cs.nodes, ∃ dd o, x = nodeAt C bs dd o ∧ (o + 1) * 2 ^ dd ≤ n
  upgraded : cs.upgraded = true
  signature : cs.signature = some sig
  csfork : cs.fork = c.tree.fork
  commitable : c.tree.commitable cs = true
  ancestors : cs.ancestors = c.tree.length
  origLength : cs.origLength = c.tree.length
  hash : cs.hash = some (rootsHash C cs.roots)
  offset : c.tree.byteOffsetInChangeset d.tree i cs = .ok (psum bs i)
  leaf : nodeAt C bs 0 i ∈ cs.nodes
  count : cs.nodes.length ≤ B

theorem core_of_accepted (C : Crypto) (hC : HashWF C) (bs : Array Bytes) (m n : Nat) (c : Core) (d : Disk) (held : Nat → Bool)
    (h : RepRAt C bs m c d held) (hmn : m ≤ n) (hn : n ≤ bs.size) (p : Proof) (i : Nat) (hi : i < n) (cs : Changeset) (sig : Bytes) (B : Nat)
    (acc : Accepted C bs n c d p i cs sig B) :
    c.verifyAndApply C d p
        = { core := (blockGrowCore c cs i).maybeFlush.1, result := .ok true,
            journal := blockGrowJournal bs c cs i ++ (blockGrowCore c cs i).maybeFlush.2,
            events := Core.appliedEvents p (some ⟨false, i, 1⟩) }
      ∧ RepRAt C bs n (blockGrowCore c cs i) (d.applyAll (blockGrowJournal bs c cs i)) (fun j => held j || j == i) := by
  have hvv := acc.verified
  have hcmt := acc.commitable
  have h7 := acc.upgraded
  have hnl : ¬ (cs.ancestors < cs.origLength) := by rw [acc.ancestors, acc.origLength]; exact Nat.lt_irrefl _
  generalize htr : ({ c.tree with roots := cs.roots, length := cs.length, byteLength := cs.byteLength, fork := cs.fork, signature := cs.signature, unflushed := insertAll c.tree.unflushed cs.nodes } : Tree) = tr
  have hcommit : c.tree.commit cs = .ok tr := by
    rw [← htr]
    simp only [Tree.commit, hcmt, h7, Bool.not_true, Bool.false_eq_true, ite_false, Bool.true_and, decide_eq_true_eq, hnl, ite_true, insertAll]
  have hnodesRef := acc.nodesRef
  have henc : Core.encodable cs = true := encodable_of_ref C hC bs cs (fun x hx => by
    obtain ⟨dd, o, e, _⟩ := hnodesRef x hx
    exact ⟨dd, o, e⟩)
  obtain ⟨bnodes, hb⟩ := acc.block
  have hds : Core.dataStep c d p cs = .ok ([SOp.write .data (psum bs i) (bs.getD i [])], some ⟨false, i, 1⟩) := by
    simp only [Core.dataStep, hb, acc.offset]
  have hp := acc.fork
  generalize hc1 : ({ c with oplog := (Oplog.appendEntry c.oplog (Core.entryOf cs (some ⟨false, i, 1⟩) c.header).1).1, header := Core.updateContiguous (Core.entryOf cs (some ⟨false, i, 1⟩) c.header).2 (c.bitfield.setRange i 1 true) ⟨false, i, 1⟩, bitfield := c.bitfield.setRange i 1 true, tree := tr } : Core) = c1
  have hshape : c.verifyAndApply C d p
      = { core := c1.maybeFlush.1, result := .ok true,
          journal := blockGrowJournal bs c cs i ++ c1.maybeFlush.2,
          events := Core.appliedEvents p (some ⟨false, i, 1⟩) } := by
    unfold Core.verifyAndApply
    simp only [hp, ne_eq, not_true_eq_false, ite_false, hvv, hcmt, Bool.not_true, Bool.false_eq_true, hds, henc, ite_true]
    unfold Core.applyVerified
    simp only [hcommit, Core.finishApply, ← hc1, blockGrowJournal]
  have hj1 : ∀ op ∈ (Oplog.appendEntry c.oplog (Core.entryOf cs (some ⟨false, i, 1⟩) c.header).1).2, op.store = .oplog := Journal.appendEntry_store _ _
  have htree : (d.applyAll (blockGrowJournal bs c cs i)).tree = d.tree := by
    apply LiveRefine.tree_of_applyAll
    intro op hop
    rcases List.mem_append.mp hop with h1 | h1
    · simp at h1; subst h1; simp [SOp.store]
    · rw [hj1 op h1]; decide
  have hdata : (d.applyAll (blockGrowJournal bs c cs i)).data = d.data.write (psum bs i) (bs.getD i []) := by
    unfold blockGrowJournal
    rw [Journal.applyAll_append]
    rw [LiveRefine.data_of_applyAll _ _ (fun op hop => by rw [hj1 op hop]; decide)]
    simp [Disk.applyAll, Disk.apply, Disk.set, Disk.get]
  have hc1t : c1.tree = tr := by rw [← hc1]
  have hc1b : c1.bitfield = c.bitfield.setRange i 1 true := by rw [← hc1]
  have hc1h : c1.header.contiguous = (Core.updateContiguous c.header (c.bitfield.setRange i 1 true) ⟨false, i, 1⟩).contiguous := by
    rw [← hc1]
    simp only [Core.entryOf, h7, ite_true, updateContiguous_tree]
  have hlook : ∀ j, tr.node? d.tree j = (vt c.tree cs).node? d.tree j := by
    intro j; rw [← htr]; exact node?_congr _ _ _ _ rfl
  have hrep1 : RepRAt C bs n c1 (d.applyAll (blockGrowJournal bs c cs i)) (fun j => held j || j == i) := by
    obtain ⟨hnew, hold, _⟩ := insert_lookup C hC bs c.tree tr d.tree cs.nodes (fun x hx => by obtain ⟨dd, o, e, _⟩ := hnodesRef x hx; exact ⟨dd, o, e⟩)
      (by rw [← htr])
    refine ⟨hn, ?_, (by rw [hc1t, ← htr]; exact acc.roots), (by rw [hc1t, ← htr]; exact acc.bytes), ?_,
      (by rw [htree]; exact h.aligned), ?_, ?_, ?_, ?_, ?_, h.small⟩
    · rw [hc1t, htree]
      exact closedAt_congr C bs n (vt c.tree cs) tr d.tree d.tree acc.closed hlook (by rw [← htr]; rfl)
    · rw [hc1t, ← htr]
      apply mapWF_insertAll _ _ h.mapwf
      intro x hx
      obtain ⟨dd, o, rfl, hb'⟩ := hnodesRef x hx
      refine ⟨nodeAt_hash_len C hC bs dd o, ?_⟩
      have a1 := nodeAt_length_le C bs dd o
      have a2 := psum_mono bs (Nat.le_trans hb' hn)
      have := h.small.2
      omega
    · intro j
      rw [hc1b, Bitfield.get_setRange, h.bits j]
      by_cases hji : j = i
      · subst hji; simp
      · have : ¬ (i ≤ j ∧ j < i + 1) := by omega
        simp [this, hji]
    · intro j hj'
      simp only [Bool.or_eq_true, beq_iff_eq] at hj'
      rcases hj' with hj' | rfl
      · have := h.heldLt j hj'; omega
      · exact hi
    · intro j hj'
      simp only [Bool.or_eq_true, beq_iff_eq] at hj'
      rw [hc1t, htree]
      rcases hj' with hj' | rfl
      · exact hold _ _ (h.leaf j hj')
      · exact hnew 0 j acc.leaf
    · intro j hj' k' hk'
      simp only [Bool.or_eq_true, beq_iff_eq] at hj'
      rw [hdata, File.size_write, File.byte_write]
      have hlen : (bs.getD i []).length = sz bs i := rfl
      by_cases hji : j = i
      · subst hji
        have hin' : psum bs j ≤ psum bs j + k' ∧ psum bs j + k' < psum bs j + (bs.getD j []).length := by
          rw [hlen]; omega
        simp only [hin', and_self, ite_true]
        refine ⟨by rw [hlen]; have := Nat.le_max_right d.data.size (psum bs j + sz bs j); omega, ?_⟩
        congr 1; omega
      · have hheld : held j = true := by
          rcases hj' with hj' | hj'
          · exact hj'
          · exact absurd hj' hji
        obtain ⟨d1, d2⟩ := h.data j hheld k' hk'
        refine ⟨by have := Nat.le_max_left d.data.size (psum bs i + (bs.getD i []).length); omega, ?_⟩
        have hdis : ¬ (psum bs i ≤ psum bs j + k' ∧ psum bs j + k' < psum bs i + (bs.getD i []).length) := by
          rw [hlen]
          rcases Nat.lt_or_gt_of_ne hji with hlt | hgt
          · have := psum_succ_le bs hlt; omega
          · have := psum_succ_le bs hgt; omega
        simp only [hdis, ite_false]
        exact d2
    · rw [hc1b, hc1h]
      have := Core.updateContiguous_spec c.header c.bitfield ⟨false, i, 1⟩ h.contig (by simp)
      simpa using this
  refine ⟨?_, ?_⟩
  · rw [hshape, ← hc1, ← htr]
    rfl
  · rw [← hc1, ← htr] at hrep1
    exact hrep1

/-- **every accepted block + upgrade proof of this kind is an exchange step that keeps both invariants** -/
theorem ok_of_accepted (C : Crypto) (hC : HashWF C) (hT : TreeWF C) (bs : Array Bytes) (m n : Nat) (c : Core) (d : Disk) (held : Nat → Bool)
    (h : RP C bs m c d held) (hmn : m ≤ n) (hn : n ≤ bs.size) (p : Proof) (i : Nat) (hi : i < n) (cs : Changeset) (sig : Bytes) (hsl : sig.length = 64)
    (B : Nat) (hB : B ≤ 2 ^ 22) (acc : Accepted C bs n c d p i cs sig B) :
    ∃ c1 e j0, StepOK C bs m n c c1 d held (fun j => held j || j == i) (c.verifyAndApply C d p) e j0 := by
  have hr := h.rep
  have hN : n < 2 ^ 64 := by have := hr.small.1; omega
  obtain ⟨hshape, hrep1⟩ := core_of_accepted C hC bs m n c d held hr hmn hn p i hi cs sig B acc
  have hupg := acc.upgraded
  have hsig := acc.signature
  have hhash := acc.hash
  have hfork := acc.csfork
  have hanc := acc.ancestors
  have hnodesRef := acc.nodesRef
  have heo : Core.entryOf cs (some ⟨false, i, 1⟩) c.header = ({ treeNodes := cs.nodes, treeUpgrade := some ⟨cs.fork, cs.ancestors, cs.length, cs.signature.getD []⟩, bitfield := some ⟨false, i, 1⟩ },
      { c.header with tree := { c.header.tree with rootHash := cs.hash.getD [], signature := cs.signature.getD [], length := cs.length } }) := by
    simp only [Core.entryOf, hupg, ite_true]
  unfold blockGrowJournal at hshape hrep1
  generalize he : (Core.entryOf cs (some ⟨false, i, 1⟩) c.header).1 = e at hshape hrep1
  have he' : e = { treeNodes := cs.nodes, treeUpgrade := some ⟨cs.fork, cs.ancestors, cs.length, sig⟩, bitfield := some ⟨false, i, 1⟩ } := by
    rw [← he, heo, hsig]; rfl
  have hue := Reopen.updateContiguous_eq c.header (c.bitfield.setRange i 1 true) ⟨false, i, 1⟩
  have hhd : (blockGrowCore c cs i).header = { c.header with tree := { c.header.tree with rootHash := rootsHash C cs.roots, signature := sig, length := n }, contiguous := (updateContiguous c.header (c.bitfield.setRange i 1 true) ⟨false, i, 1⟩).contiguous } := by
    simp only [blockGrowCore, heo, hsig, hhash, acc.length, Option.getD_some, updateContiguous_tree]
    generalize updateContiguous c.header (c.bitfield.setRange i 1 true) ⟨false, i, 1⟩ = H at hue ⊢
    rw [hue]
  have hc1o : (blockGrowCore c cs i).oplog = (Oplog.appendEntry c.oplog e).1 := by rw [← he]; rfl
  have hc1b : (blockGrowCore c cs i).bitfield = c.bitfield.setRange i 1 true := rfl
  have hj1 : ∀ op ∈ (Oplog.appendEntry c.oplog e).2, op.store = .oplog := Journal.appendEntry_store _ _
  have htree : (d.applyAll ([SOp.write .data (psum bs i) (bs.getD i [])] ++ (Oplog.appendEntry c.oplog e).2)).tree = d.tree := by
    apply LiveRefine.tree_of_applyAll
    intro op hop
    rcases List.mem_append.mp hop with h1 | h1
    · simp at h1; subst h1; simp [SOp.store]
    · rw [hj1 op h1]; decide
  have hsne : sig.isEmpty = false := by cases sig with | nil => simp at hsl | cons a l => rfl
  have hcU : U64 (updateContiguous c.header (c.bitfield.setRange i 1 true) ⟨false, i, 1⟩).contiguous := by
    have := contig_le_at C bs n _ _ _ hrep1
    rw [hhd] at this
    unfold U64
    exact Nat.lt_of_le_of_lt this hN
  have hcount := acc.count
  have hok : StepOK C bs m n c (blockGrowCore c cs i) d held (fun j => held j || j == i) (c.verifyAndApply C d p) e [SOp.write .data (psum bs i) (bs.getD i [])] := StepOK.mk
    (by rw [hshape]; exact ⟨rfl, rfl⟩) hrep1 (fun hf es hp => by
      refine persist_entry C c _ d hf es e _ hp ?_ (fun op hop => by simp at hop; subst hop; rfl) hc1o ?_ ?_ ?_ ?_ ?_ ?_ ?_ ?_
      · rw [he']
        apply entry_ok
        · apply refNodes_wf C hC bs h.size hr.small.2
          · intro x hx
            obtain ⟨d1, o1, e1, hb⟩ := hnodesRef x hx
            exact ⟨d1, o1, e1, by omega⟩
          · omega
        · omega
        · intro u hu
          cases hu
          refine ⟨?_, ?_, ?_, hsl⟩
          · show U64 cs.fork
            rw [hfork, ← hp.hdrFork]; exact hp.shape.fork
          · show U64 cs.ancestors
            rw [hanc, hr.closed.sparse.length]; unfold U64; omega
          · show U64 cs.length
            rw [acc.length]; exact hN
        · intro b hb; cases hb
          exact ⟨by show i < 2 ^ 64; omega, by show 1 < 2 ^ 64; omega⟩
      · intro ol b hb1 hb2
        refine ⟨b.setRange i 1 true, ?_, ?_, dirty_setRange b d.bitfield i 1 true hb2⟩
        · have := replay_blockgrow C bs d c ol b cs n i sig hN acc.roots acc.length acc.bytes hsig hsl hupg hanc hhash hfork
            (by rw [hr.roots]; exact allRef_rootsAt C bs m)
            (fun p' hp' => by rw [← htree]; exact hrep1.closed.sparse.roots p' hp') hb1 hr.contig
          rw [he] at this
          exact this
        · intro j; rw [hc1b, Bitfield.get_setRange, Bitfield.get_setRange, hb1]
      · rw [hc1b]; exact dirty_setRange c.bitfield d.bitfield i 1 true hp.dirty
      · rw [hhd]
        exact hdrShape_set c.header hp.shape _ _ _ _ (by rw [rootsHash, hT]) (by omega) hN hcU
      · rw [hhd]; exact acc.length.symm
      · rw [hhd]; show c.header.tree.fork = cs.fork; rw [hfork]; exact hp.hdrFork
      · rw [hhd]; show cs.signature = _; simp only [hsne, Bool.false_eq_true, ite_false]; exact hsig
      · rw [hhd]; exact Or.inr hsl
      · rw [hhd]; exact hp.keys)
    (fun op hop => by simp at hop; subst hop; rfl)
    (fun u hu => by rw [he'] at hu; cases hu; rfl)
    (fun j hj => by
      rw [hc1b, Bitfield.get_setRange] at hj
      split at hj
      · rename_i hin'
        exact Or.inr ⟨⟨false, i, 1⟩, by rw [he'], hin'.1, hin'.2⟩
      · exact Or.inl hj)
    (by rw [he']; rfl)
    (fun x hx => by
      rw [he'] at hx
      obtain ⟨d1, o1, e1, _⟩ := hnodesRef x hx
      exact ⟨d1, o1, e1⟩)
    (by rw [hshape])
    ⟨rfl, hfork⟩
    (fun k' => by
      cases k' with
      | zero => exact hr
      | succ k' =>
        simp only [List.take_succ_cons, List.take_nil, Disk.applyAll, List.foldl_cons, List.foldl_nil]
        exact reprAt_data_write C bs m c d held hr i)
    (fun op hop => by
      simp only [List.mem_singleton] at hop
      exact ⟨_, _, hop, fun t => reprAt_data_write_prefix C bs m c d held hr i t⟩)
  exact ⟨_, _, _, hok⟩

/-! ### the next block together with the upgrade -/

/-- the honest answer to "block `m` (the first one I lack) and upgrade me from `m` to `n`": `a`, `b`, `k` are the split of the
    honest position list around the node that contains block `m` -/
def honestNextBlock (C : Crypto) (bs : Array Bytes) (fork m n : Nat) (a b : List (Nat × Nat)) (k : Nat) (sig : Bytes) : Proof :=
  ⟨fork, some ⟨m, bs.getD m [], Complete.sibPath C bs 0 m k⟩, none, none, some ⟨m, n - m, (a ++ b).map (fun p => nodeAt C bs p.1 p.2), [], sig⟩⟩

/-- the honest answer to "block `i` of the new part and upgrade me from `m` to `n`" -/
def honestNewBlock (C : Crypto) (bs : Array Bytes) (fork i m n : Nat) (a b : List (Nat × Nat)) (k : Nat) (sig : Bytes) : Proof :=
  ⟨fork, some ⟨i, bs.getD i [], Complete.sibPath C bs 0 i k⟩, none, none, some ⟨m, n - m, (a ++ b).map (fun p => nodeAt C bs p.1 p.2), [], sig⟩⟩

/-- **a block of the new part + upgrade, at core level**: the replica of length `m` applies the writer's answer to "block `i`
    (`m ≤ i < n`) and upgrade me to `n`"; the step is an exchange step that keeps both invariants, from length `m` to
    length `n` with block `i` held.  The byte offset of the block is computed under the changeset's node list — the
    block's path followed by the upgrade's nodes — and its new roots (`BlockNewOffset.offset_new_block`). -/
theorem newblock_ok (C : Crypto) (hC : HashWF C) (hT : TreeWF C) (bs : Array Bytes) (m n : Nat) (c : Core) (d : Disk) (held : Nat → Bool)
    (h : RP C bs m c d held) (hm0 : 0 < m) (hmn : m < n) (hn : n ≤ bs.size) (us : List (Nat × Nat))
    (hup : Up m 0 (rootsStack n).reverse us) (sig : Bytes) (hsl : sig.length = 64)
    (hver : C.verify c.publicKey (signableAt C bs n c.tree.fork) sig = true) (i : Nat) (hmi : m ≤ i) (hi : i < n)
    (a b : List (Nat × Nat)) (k : Nat) (hsplit : us = a ++ (k, i / 2 ^ k) :: b) :
    ∃ c1 e j0, StepOK C bs m n c c1 d held (fun j => held j || j == i) (c.verifyAndApply C d (honestNewBlock C bs c.tree.fork i m n a b k sig)) e j0 := by
  have hr := h.rep
  have hN : n < 2 ^ 64 := by have := hr.small.1; omega
  obtain ⟨cs', _, _, e4, e5, e6, e7, e8, e9, e10, e11, e12, e13, e14, e15, e16, e17, e18, csg, hcs, hinvg, hRin⟩ :=
    BlockNew.honest_new_block_upgrade_accepted_at C hC bs m n c d held hr hm0 hmn hn us hup sig hsl hver i a b k hsplit
  have hk64 : k < 64 := by
    have hmem : (k, i / 2 ^ k) ∈ us := by rw [hsplit]; simp
    have hb := up_bound m n _ 0 us (cover_roots n) hup _ hmem
    simp only at hb
    have h1 : 2 ^ k ≤ (i / 2 ^ k + 1) * 2 ^ k := Nat.le_mul_of_pos_left _ (Nat.succ_pos _)
    have h2 : 2 ^ k < 2 ^ 64 := by omega
    exact (Nat.pow_lt_pow_iff_right (by decide : 1 < 2)).mp h2
  have hul := up_length m n hm0 hN (rootsStack n).reverse 0 us (cover_roots n) hup
  have hrl := rootsStack_length_log 64 n hN
  rw [List.length_reverse] at hul
  have hoff : c.tree.byteOffsetInChangeset d.tree i cs' = .ok (psum bs i) := by
    rw [hcs]
    exact BlockNewOffset.offset_new_block C hC bs m n c d held hr hn csg hinvg i k hmi hRin
  have hacc : Accepted C bs n c d (honestNewBlock C bs c.tree.fork i m n a b k sig) i cs' sig (64 + 2 * us.length + (2 * k + 1)) :=
    { fork := rfl, block := ⟨_, rfl⟩, verified := e4, closed := e13, roots := e5, length := e6, bytes := e7, nodesRef := e12, upgraded := e8,
      signature := e9, csfork := e10, commitable := e11, ancestors := e15, origLength := e16, hash := e17,
      offset := hoff, leaf := e14, count := e18 }
  exact ok_of_accepted C hC hT bs m n c d held h (Nat.le_of_lt hmn) hn _ i hi cs' sig hsl _ (by omega) hacc

/-- the next block + upgrade (`i = m`): the live-download step -/
theorem nextblock_ok (C : Crypto) (hC : HashWF C) (hT : TreeWF C) (bs : Array Bytes) (m n : Nat) (c : Core) (d : Disk) (held : Nat → Bool)
    (h : RP C bs m c d held) (hm0 : 0 < m) (hmn : m < n) (hn : n ≤ bs.size) (us : List (Nat × Nat))
    (hup : Up m 0 (rootsStack n).reverse us) (sig : Bytes) (hsl : sig.length = 64)
    (hver : C.verify c.publicKey (signableAt C bs n c.tree.fork) sig = true)
    (a b : List (Nat × Nat)) (k : Nat) (hsplit : us = a ++ (k, m / 2 ^ k) :: b) :
    ∃ c1 e j0, StepOK C bs m n c c1 d held (fun j => held j || j == m) (c.verifyAndApply C d (honestNextBlock C bs c.tree.fork m n a b k sig)) e j0 :=
  newblock_ok C hC hT bs m n c d held h hm0 hmn hn us hup sig hsl hver m (Nat.le_refl _) hmn a b k hsplit

/-- the split exists: block `m` lies under exactly one node of the honest position list -/
theorem nextblock_split (m n : Nat) (hmn : m < n) (us : List (Nat × Nat)) (hup : Up m 0 (rootsStack n).reverse us) :
    ∃ (a b : List (Nat × Nat)) (k : Nat), us = a ++ (k, m / 2 ^ k) :: b :=
  BlockNew.split_exists m n us hup m (Nat.le_refl _) hmn

end HC.BlockGrowGen
