import HC.Proofs.VerifyTotal
import HC.Proofs.Complete
import HC.Proofs.UpgradeSound
import HC.Proofs.FullRoots
/-!
`create_valueless_proof` returns a value or an error for **every** request — it never panics and never
loops (C09, the sending side).  Every loop of the Rust is a walk of a flat-tree iterator:

* climbs (`seek_proof`, `block_and_seek_proof`, the "connect existing tree" walk of `upgrade_proof`): they
  run `while iter.index() != root`, and are entered only when `root` contains the start (the guard the
  repaired tree checks); the iterator then passes through `root` after `depth root − depth start` steps;
* descents (`seek_trusted_tree`, `byte_offset_from_nodes`): the depth decreases in every round and the
  walk ends at a leaf at the latest;
* the loop over the full roots of `upgrade_proof` / `additional_upgrade_proof`: every round at least halves
  the number of leaves that remain.

Depths are bounded by 64 because the indices are below 2^64 (`Canon`), so the fixed fuels of the model
(80, 70) never run out.
-/
namespace HC.CreateTotal
open HC HC.Codec HC.Flat HC.Tree HC.RefTree HC.RefProof HC.Sound HC.Offsets HC.TreeStore HC.Complete HC.UpgradeSound

/-! ### every index is a (depth, offset) pair -/

theorem index_decomp : ∀ i : Nat, ∃ d o, i = Flat.index d o := by
  intro i
  induction i using Nat.strongRecOn with
  | _ i ih =>
    by_cases he : i % 2 = 0
    · exact ⟨0, i / 2, by rw [index_zero]; omega⟩
    · obtain ⟨d, o, h⟩ := ih (i / 2) (by omega)
      exact ⟨d + 1, o, by rw [index_succ, ← h]; omega⟩

theorem index_ge (d o : Nat) : 2 ^ d - 1 + o * 2 ^ (d + 1) = Flat.index d o := by
  rw [index_eq, pow_succ2]; omega

/-- an index whose depth is at most 64 (every `u64` below `2^65 − 1`, and everything reached from one by
    walking inside a tree of at most 2^64 leaves) -/
def Canon (i : Nat) : Prop := ∃ d o, i = Flat.index d o ∧ d ≤ 64

theorem canon_of_lt (i : Nat) (h : i < 2 ^ 65 - 1) : Canon i := by
  obtain ⟨d, o, hi⟩ := index_decomp i
  refine ⟨d, o, hi, ?_⟩
  by_contra hd
  have h1 : 2 ^ 65 ≤ 2 ^ d := Nat.pow_le_pow_right (by decide) (by omega)
  have := index_ge d o
  omega

theorem canon_index (d o : Nat) (h : d ≤ 64) : Canon (Flat.index d o) := ⟨d, o, rfl, h⟩

/-- `(d, o)` lies below `(D, O)` -/
def Anc (d o D O : Nat) : Prop := d ≤ D ∧ o / 2 ^ (D - d) = O

theorem contains_anc (D O d o : Nat) (h : (iat D O).contains (Flat.index d o) = true) : Anc d o D O := by
  rw [iat_contains] at h
  simp only [Bool.and_eq_true, decide_eq_true_eq] at h
  obtain ⟨h1, h2⟩ := h
  have hi := index_eq d o
  have hpd := pow_pos' d
  by_cases hle : d ≤ D
  · refine ⟨hle, ?_⟩
    obtain ⟨k, rfl⟩ : ∃ k, D = d + k := ⟨D - d, by omega⟩
    have e0 : d + k - d = k := by omega
    rw [e0]
    have eP : 2 ^ (d + k + 1) = 2 ^ k * (2 * 2 ^ d) := by
      rw [show d + k + 1 = k + (d + 1) by omega, Nat.pow_add, pow_succ2]
    rw [eP, hi] at h1 h2
    have hr : 2 ^ d - 1 < 2 * 2 ^ d := by omega
    generalize 2 ^ d - 1 = r at *
    generalize 2 * 2 ^ d = Q at *
    apply div_eq_of_span
    · have : O * 2 ^ k * Q < (o + 1) * Q := by
        have e : O * (2 ^ k * Q) = O * 2 ^ k * Q := by ring
        have e2 : (o + 1) * Q = o * Q + Q := by ring
        omega
      have := Nat.lt_of_mul_lt_mul_right this
      omega
    · have : o * Q < (O + 1) * 2 ^ k * Q := by
        have e : (O + 1) * (2 ^ k * Q) = (O + 1) * 2 ^ k * Q := by ring
        omega
      exact Nat.lt_of_mul_lt_mul_right this
  · exfalso
    obtain ⟨e, rfl⟩ : ∃ e, d = D + 1 + e := ⟨d - D - 1, by omega⟩
    have eP : 2 ^ (D + 1 + e) = 2 ^ e * 2 ^ (D + 1) := by rw [Nat.add_comm (D + 1) e, Nat.pow_add]
    have hm : Flat.index (D + 1 + e) o + 1 = 2 ^ e * (2 * o + 1) * 2 ^ (D + 1) := by
      rw [hi, eP]
      have hq := pow_pos' e
      have hP := pow_pos' (D + 1)
      have : 0 < 2 ^ e * 2 ^ (D + 1) := Nat.mul_pos hq hP
      have e3 : o * (2 * (2 ^ e * 2 ^ (D + 1))) + 2 ^ e * 2 ^ (D + 1) = 2 ^ e * (2 * o + 1) * 2 ^ (D + 1) := by ring
      omega
    generalize 2 ^ e * (2 * o + 1) = m at hm
    generalize 2 ^ (D + 1) = P at *
    have a1 : O * P < m * P := by omega
    have a2 : m * P < (O + 1) * P := by omega
    have := Nat.lt_of_mul_lt_mul_right a1
    have := Nat.lt_of_mul_lt_mul_right a2
    omega

theorem anc_parent (d o D O : Nat) (h : Anc d o D O) (hne : d ≠ D) : Anc (d + 1) (o / 2) D O := by
  obtain ⟨h1, h2⟩ := h
  refine ⟨by omega, ?_⟩
  obtain ⟨k, rfl⟩ : ∃ k, D = d + 1 + k := ⟨D - d - 1, by omega⟩
  have e1 : d + 1 + k - d = k + 1 := by omega
  have e2 : d + 1 + k - (d + 1) = k := by omega
  rw [e1] at h2
  rw [e2, div_pow_succ]; exact h2

theorem anc_top (d o O : Nat) (h : Anc d o d O) : o = O := by
  obtain ⟨_, h2⟩ := h; simpa using h2

theorem canon_new (i : Nat) (h : Canon i) : ∃ d o, d ≤ 64 ∧ i = Flat.index d o ∧ Iter.new i = iat d o := by
  obtain ⟨d, o, hi, hd⟩ := h
  exact ⟨d, o, hd, hi, by rw [hi]; exact new_index d o hd⟩

theorem iat_sib_parent (d o : Nat) : (iat d o).sibling.parent = iat (d + 1) (o / 2) := by
  rw [iat_sibling, iat_parent, sib_half]

theorem err_notPanic {α : Type} : NotPanic (.error .err : R α) := by simp [NotPanic]
theorem ok_notPanic {α : Type} (a : α) : NotPanic (.ok a : R α) := by simp [NotPanic]
theorem notPanic_cast {α β : Type} {e : Fail} (h : NotPanic (.error e : R α)) : NotPanic (.error e : R β) := by
  cases e <;> simp_all [NotPanic]

/-! ### climbs -/

theorem seekProof_go_total (t : Tree) (f : File) (D O : Nat) :
    ∀ (gap d o fuel : Nat) (acc : List Node), d + gap = D → Anc d o D O → gap < fuel →
      NotPanic (seekProof.go t f (Flat.index D O) fuel (iat d o) acc) := by
  intro gap
  induction gap with
  | zero =>
    intro d o fuel acc hd ha hf
    obtain ⟨fuel, rfl⟩ : ∃ x, fuel = x + 1 := ⟨fuel - 1, by omega⟩
    have : d = D := by omega
    subst this
    have := anc_top d o O ha
    subst this
    have : (iat d o).index = Flat.index d o := rfl
    simp [seekProof.go, this, NotPanic]
  | succ gap ih =>
    intro d o fuel acc hd ha hf
    obtain ⟨fuel, rfl⟩ : ∃ x, fuel = x + 1 := ⟨fuel - 1, by omega⟩
    simp only [seekProof.go]
    split
    · exact ok_notPanic _
    · cases hreq : t.requiredNode f (iat d o).sibling.index with
      | error e =>
        have := requiredNode_notPanic t f (iat d o).sibling.index
        rw [hreq] at this
        exact notPanic_cast this
      | ok n =>
        simp only []
        rw [iat_sib_parent]
        exact ih (d + 1) (o / 2) fuel _ (by omega) (anc_parent d o D O ha (by omega)) (by omega)

/-- `seek_proof` never panics when both indices have depth at most 64 -/
theorem seekProof_total (t : Tree) (f : File) (seekRoot root : Nat) (p : LocalProof) (h1 : Canon seekRoot) (h2 : Canon root) :
    NotPanic (t.seekProof f seekRoot root p) := by
  obtain ⟨d, o, hd, hi, hnew⟩ := canon_new seekRoot h1
  obtain ⟨D, O, hD, hI, hNew⟩ := canon_new root h2
  unfold Tree.seekProof
  rw [hNew, hnew]
  split
  · exact err_notPanic
  · rename_i hc
    have hc' : (iat D O).contains seekRoot = true := by simpa using hc
    rw [hi] at hc'
    have ha := contains_anc D O d o hc'
    cases hreq : t.requiredNode f seekRoot with
    | error e =>
      have := requiredNode_notPanic t f seekRoot
      rw [hreq] at this
      exact notPanic_cast this
    | ok n0 =>
      simp only []
      have hgo := seekProof_go_total t f D O (D - d) d o 80 [n0] (by have := ha.1; omega) ha (by omega)
      rw [← hI] at hgo
      cases hg : seekProof.go t f root 80 (iat d o) [n0] with
      | error e => rw [hg] at hgo; exact notPanic_cast hgo
      | ok ns => exact ok_notPanic _

theorem blockAndSeekProof_go_total (t : Tree) (f : File) (isSeek : Bool) (seekRoot : Nat) (hs : Canon seekRoot) (D O : Nat) (hD : D ≤ 64) :
    ∀ (gap d o fuel : Nat) (acc : List Node) (p : LocalProof), d + gap = D → Anc d o D O → gap < fuel →
      NotPanic (blockAndSeekProof.go t f isSeek seekRoot (Flat.index D O) fuel (iat d o) acc p) := by
  intro gap
  induction gap with
  | zero =>
    intro d o fuel acc p hd ha hf
    obtain ⟨fuel, rfl⟩ : ∃ x, fuel = x + 1 := ⟨fuel - 1, by omega⟩
    have : d = D := by omega
    subst this
    have := anc_top d o O ha
    subst this
    have : (iat d o).index = Flat.index d o := rfl
    simp [blockAndSeekProof.go, this, NotPanic]
  | succ gap ih =>
    intro d o fuel acc p hd ha hf
    obtain ⟨fuel, rfl⟩ : ∃ x, fuel = x + 1 := ⟨fuel - 1, by omega⟩
    simp only [blockAndSeekProof.go]
    split
    · exact ok_notPanic _
    · rw [iat_sib_parent]
      have hnext : ∀ acc p, NotPanic (blockAndSeekProof.go t f isSeek seekRoot (Flat.index D O) fuel (iat (d + 1) (o / 2)) acc p) :=
        fun acc p => ih (d + 1) (o / 2) fuel acc p (by omega) (anc_parent d o D O ha (by omega)) (by omega)
      split
      · have hsp := seekProof_total t f seekRoot (iat d o).sibling.index p hs
          (by rw [iat_sibling]; exact canon_index d (sib o) (by omega))
        cases hq : t.seekProof f seekRoot (iat d o).sibling.index p with
        | error e => rw [hq] at hsp; exact notPanic_cast hsp
        | ok p' => exact hnext _ _
      · cases hreq : t.requiredNode f (iat d o).sibling.index with
        | error e =>
          have := requiredNode_notPanic t f (iat d o).sibling.index
          rw [hreq] at this
          exact notPanic_cast this
        | ok n => exact hnext _ _

/-- `block_and_seek_proof` never panics: the climb is entered only when `root` contains the requested node -/
theorem blockAndSeekProof_total (t : Tree) (f : File) (indexed : Option Indexed) (isSeek : Bool) (seekRoot root : Nat) (p : LocalProof)
    (hix : ∀ ix, indexed = some ix → Canon ix.index) (h1 : Canon seekRoot) (h2 : Canon root) :
    NotPanic (t.blockAndSeekProof f indexed isSeek seekRoot root p) := by
  unfold Tree.blockAndSeekProof
  cases indexed with
  | none => exact seekProof_total t f seekRoot root p h1 h2
  | some ix =>
    simp only []
    obtain ⟨d, o, hd, hi, hnew⟩ := canon_new ix.index (hix ix rfl)
    obtain ⟨D, O, hD, hI, hNew⟩ := canon_new root h2
    rw [hNew, hnew]
    split
    · exact err_notPanic
    · rename_i hc
      have hc' : (iat D O).contains ix.index = true := by simpa using hc
      rw [hi] at hc'
      have ha := contains_anc D O d o hc'
      have hgo : ∀ ns0, NotPanic (blockAndSeekProof.go t f isSeek seekRoot root 80 (iat d o) ns0 p) := by
        intro ns0
        have := blockAndSeekProof_go_total t f isSeek seekRoot h1 D O hD (D - d) d o 80 ns0 p (by have := ha.1; omega) ha (by omega)
        rw [← hI] at this
        exact this
      have hfin : ∀ ns0, NotPanic (match blockAndSeekProof.go t f isSeek seekRoot root 80 (iat d o) ns0 p with
          | .error e => (.error e : R LocalProof)
          | .ok (ns, p') => .ok { p' with nodes := some ns }) := by
        intro ns0
        cases hg : blockAndSeekProof.go t f isSeek seekRoot root 80 (iat d o) ns0 p with
        | error e => have := hgo ns0; rw [hg] at this; exact notPanic_cast this
        | ok r => exact ok_notPanic _
      split
      · rename_i e hst
        -- the start failed: only `required_node` can fail there
        split at hst
        · cases hreq : t.requiredNode f ix.index with
          | error e' =>
            rw [hreq] at hst
            have := requiredNode_notPanic t f ix.index
            rw [hreq] at this
            cases hst
            exact notPanic_cast this
          | ok n => rw [hreq] at hst; cases hst
        · cases hst
      · exact hfin _

theorem connectWalk_total (t : Tree) (f : File) (useSub : Bool) (indexed : Option Indexed) (isSeek : Bool) (subTree : Nat)
    (hix : ∀ ix, indexed = some ix → Canon ix.index) (hsub : Canon subTree) (target D O : Nat) (hD : D ≤ 64) :
    ∀ (gap d o fuel : Nat) (acc : List Node) (p : LocalProof), d + gap = D → Anc d o D O → gap < fuel →
      NotPanic (connectWalk t f useSub indexed isSeek subTree (Flat.index D O) target fuel (iat d o) acc p) := by
  intro gap
  induction gap with
  | zero =>
    intro d o fuel acc p hd ha hf
    obtain ⟨fuel, rfl⟩ : ∃ x, fuel = x + 1 := ⟨fuel - 1, by omega⟩
    have : d = D := by omega
    subst this
    have := anc_top d o O ha
    subst this
    have : (iat d o).index = Flat.index d o := rfl
    simp [connectWalk, this, NotPanic]
  | succ gap ih =>
    intro d o fuel acc p hd ha hf
    obtain ⟨fuel, rfl⟩ : ∃ x, fuel = x + 1 := ⟨fuel - 1, by omega⟩
    simp only [connectWalk]
    split
    · exact ok_notPanic _
    · rw [iat_sib_parent]
      have hnext : ∀ acc p, NotPanic (connectWalk t f useSub indexed isSeek subTree (Flat.index D O) target fuel (iat (d + 1) (o / 2)) acc p) :=
        fun acc p => ih (d + 1) (o / 2) fuel acc p (by omega) (anc_parent d o D O ha (by omega)) (by omega)
      split
      · split
        · have hsp := blockAndSeekProof_total t f indexed isSeek subTree (iat d o).sibling.index p hix hsub
            (by rw [iat_sibling]; exact canon_index d (sib o) (by omega))
          cases hq : t.blockAndSeekProof f indexed isSeek subTree (iat d o).sibling.index p with
          | error e => rw [hq] at hsp; exact notPanic_cast hsp
          | ok p' => exact hnext _ _
        · cases hreq : t.requiredNode f (iat d o).sibling.index with
          | error e =>
            have := requiredNode_notPanic t f (iat d o).sibling.index
            rw [hreq] at this
            exact notPanic_cast this
          | ok n => exact hnext _ _
      · exact hnext _ _

/-! ### the loop over the full roots -/

theorem upgradeLoop_total (t : Tree) (f : File) (useSub : Bool) (indexed : Option Indexed) (isSeek : Bool) (frm T subTree : Nat)
    (hix : ∀ ix, indexed = some ix → Canon ix.index) (hsub : Canon subTree) (hT : T < 2 ^ 64)
    (hfrm : frm % 2 = 0) :
    ∀ (k s fuel : Nat) (hasUp : Bool) (acc : List Node) (p : LocalProof), T - s < 2 ^ k → k < fuel → Align s T →
      (hasUp = false → 2 ≤ frm) →
      NotPanic (upgradeLoop t f useSub indexed isSeek frm (2 * T) subTree fuel (iat 0 s) hasUp acc p) := by
  intro k
  induction k with
  | zero =>
    intro s fuel hasUp acc p hk hf hal _
    obtain ⟨fuel, rfl⟩ : ∃ x, fuel = x + 1 := ⟨fuel - 1, by omega⟩
    have : T ≤ s := by simp at hk; omega
    simp only [upgradeLoop, fullRoot_done s T this, Bool.not_false, ite_true]
    exact ok_notPanic _
  | succ k ih =>
    intro s fuel hasUp acc p hk hf hal hfr
    obtain ⟨fuel, rfl⟩ : ∃ x, fuel = x + 1 := ⟨fuel - 1, by omega⟩
    by_cases hdone : T ≤ s
    · simp only [upgradeLoop, fullRoot_done s T hdone, Bool.not_false, ite_true]
      exact ok_notPanic _
    · obtain ⟨J, hfr', hdvd, hfit, hal', hrem⟩ := fullRoot_canon s T hal (by omega) hT
      have hJ : J ≤ 64 := by
        by_contra hcon
        have : 2 ^ 65 ≤ 2 ^ J := Nat.pow_le_pow_right (by decide) (by omega)
        omega
      have hnt : (iat J (s / 2 ^ J)).nextTree = iat 0 (s + 2 ^ J) := iat_nextTree J s hdvd
      have hk' : T - (s + 2 ^ J) < 2 ^ k := by
        rw [Nat.pow_succ] at hk
        omega
      have hnext : ∀ hu acc p, (hu = false → 2 ≤ frm) →
          NotPanic (upgradeLoop t f useSub indexed isSeek frm (2 * T) subTree fuel (iat 0 (s + 2 ^ J)) hu acc p) :=
        fun hu acc p h => ih (s + 2 ^ J) fuel hu acc p hk' (by omega) hal' h
      have hidx : (iat J (s / 2 ^ J)).index = Flat.index J (s / 2 ^ J) := rfl
      simp only [upgradeLoop, hfr', Bool.not_true, Bool.false_eq_true, ite_false, hnt]
      split
      · exact hnext _ _ _ hfr
      · split
        · rename_i hc
          -- connect the existing tree: climb from leaf `frm - 2` to this root
          have hup : hasUp = false := by
            cases hasUp with
            | false => rfl
            | true => simp at hc
          have h2 := hfr hup
          have hcont : (iat J (s / 2 ^ J)).contains (frm - 2) = true := by
            rw [hup] at hc; simpa using hc
          have hleaf : frm - 2 = Flat.index 0 ((frm - 2) / 2) := by rw [index_zero]; omega
          have hnew : Iter.new (frm - 2) = iat 0 ((frm - 2) / 2) := by
            have : frm - 2 = 2 * ((frm - 2) / 2) := by omega
            rw [this, new_even]
            congr 1; omega
          rw [hleaf] at hcont
          have ha := contains_anc J (s / 2 ^ J) 0 ((frm - 2) / 2) hcont
          have hcw := connectWalk_total t f useSub indexed isSeek subTree hix hsub (frm - 2) J (s / 2 ^ J) hJ J 0 ((frm - 2) / 2) 80 acc p
            (by omega) ha (by omega)
          rw [hidx, hnew]
          cases hq : connectWalk t f useSub indexed isSeek subTree (Flat.index J (s / 2 ^ J)) (frm - 2) 80 (iat 0 ((frm - 2) / 2)) acc p with
          | error e => rw [hq] at hcw; exact notPanic_cast hcw
          | ok r => exact hnext _ _ _ (fun h => by cases h)
        · split
          · have hsp := blockAndSeekProof_total t f indexed isSeek subTree (iat J (s / 2 ^ J)).index p hix hsub (canon_index J _ hJ)
            cases hq : t.blockAndSeekProof f indexed isSeek subTree (iat J (s / 2 ^ J)).index p with
            | error e => rw [hq] at hsp; exact notPanic_cast hsp
            | ok p' => exact hnext _ _ _ (fun h => by cases h)
          · cases hreq : t.requiredNode f (iat J (s / 2 ^ J)).index with
            | error e =>
              have := requiredNode_notPanic t f (iat J (s / 2 ^ J)).index
              rw [hreq] at this
              exact notPanic_cast this
            | ok n => exact hnext _ _ _ (fun h => by cases h)

/-! ### descents -/

theorem iat_index_odd (d o : Nat) : (iat (d + 1) o).index % 2 = 1 := by
  have : (iat (d + 1) o).index = 2 * Flat.index d o + 1 := index_succ d o
  omega

theorem iat_index_even (o : Nat) : (iat 0 o).index % 2 = 0 := by
  have : (iat 0 o).index = 2 * o := index_zero o
  omega

theorem seekTrusted_go_total (t : Tree) (f : File) :
    ∀ (d o fuel bytes : Nat), d < fuel →
      NotPanic (seekTrustedTree.go t f fuel (iat d o) bytes)
      ∧ ∀ r, seekTrustedTree.go t f fuel (iat d o) bytes = .ok r → ∃ d' o', r = Flat.index d' o' ∧ d' ≤ d := by
  intro d
  induction d with
  | zero =>
    intro o fuel bytes hf
    obtain ⟨fuel, rfl⟩ : ∃ x, fuel = x + 1 := ⟨fuel - 1, by omega⟩
    simp only [seekTrustedTree.go, iat_index_even, ite_true]
    exact ⟨ok_notPanic _, fun r hr => ⟨0, o, by cases hr; rfl, Nat.le_refl _⟩⟩
  | succ d ih =>
    intro o fuel bytes hf
    obtain ⟨fuel, rfl⟩ : ∃ x, fuel = x + 1 := ⟨fuel - 1, by omega⟩
    have hodd : ¬ ((iat (d + 1) o).index % 2 = 0) := by have := iat_index_odd d o; omega
    simp only [seekTrustedTree.go, hodd, ite_false, iat_leftChild]
    have hsib : (iat d (2 * o)).sibling = iat d (2 * o + 1) := iat_sibling_even d (2 * o) (by omega)
    cases hn : t.node? f (iat d (2 * o)).index with
    | none =>
      simp only []
      refine ⟨ok_notPanic _, fun r hr => ?_⟩
      cases hr
      rw [iat_parent]
      exact ⟨d + 1, 2 * o / 2, rfl, Nat.le_refl _⟩
    | some n =>
      simp only []
      split
      · exact ⟨ok_notPanic _, fun r hr => ⟨d, 2 * o, by cases hr; rfl, by omega⟩⟩
      · split
        · obtain ⟨h1, h2⟩ := ih (2 * o) fuel bytes (by omega)
          exact ⟨h1, fun r hr => by obtain ⟨d', o', e, hd⟩ := h2 r hr; exact ⟨d', o', e, by omega⟩⟩
        · rw [hsib]
          obtain ⟨h1, h2⟩ := ih (2 * o + 1) fuel (bytes - n.length) (by omega)
          exact ⟨h1, fun r hr => by obtain ⟨d', o', e, hd⟩ := h2 r hr; exact ⟨d', o', e, by omega⟩⟩

theorem seekTrustedTree_total (t : Tree) (f : File) (root bytes : Nat) (h : Canon root) :
    NotPanic (t.seekTrustedTree f root bytes) ∧ ∀ r, t.seekTrustedTree f root bytes = .ok r → Canon r := by
  obtain ⟨d, o, hd, hi, hnew⟩ := canon_new root h
  unfold Tree.seekTrustedTree
  split
  · exact ⟨ok_notPanic _, fun r hr => by cases hr; exact h⟩
  · rw [hnew]
    obtain ⟨h1, h2⟩ := seekTrusted_go_total t f d o 80 bytes (by omega)
    exact ⟨h1, fun r hr => by obtain ⟨d', o', e, hd'⟩ := h2 r hr; exact ⟨d', o', e, by omega⟩⟩

theorem offsetDescend_total (t : Tree) (f : File) (i : Nat) :
    ∀ (d o acc fuel : Nat), o * 2 ^ d ≤ i → i < (o + 1) * 2 ^ d → d < fuel →
      NotPanic (offsetDescend t f (2 * i) fuel (iat d o) acc) := by
  intro d
  induction d with
  | zero =>
    intro o acc fuel h1 h2 hf
    obtain ⟨fuel, rfl⟩ : ∃ k, fuel = k + 1 := ⟨fuel - 1, by omega⟩
    have : o = i := by simp at h1 h2; omega
    subst this
    have : (iat 0 o).index = 2 * o := index_zero o
    simp [offsetDescend, this, NotPanic]
  | succ d ih =>
    intro o acc fuel h1 h2 hf
    obtain ⟨fuel, rfl⟩ : ∃ k, fuel = k + 1 := ⟨fuel - 1, by omega⟩
    have hp := pow_pos' d
    have hidx : (iat (d + 1) o).index = 2 * Flat.index d o + 1 := index_succ d o
    have hidx2 : Flat.index d o = o * (2 * 2 ^ d) + (2 ^ d - 1) := index_eq d o
    have e1 : o * 2 ^ (d + 1) = 2 * o * 2 ^ d := by rw [pow_succ2]; ring
    have e2 : (o + 1) * 2 ^ (d + 1) = (2 * o + 1 + 1) * 2 ^ d := by rw [pow_succ2]; ring
    have e3 : (2 * o + 1) * 2 ^ d = 2 * o * 2 ^ d + 2 ^ d := by ring
    have e4 : (2 * o + 1 + 1) * 2 ^ d = 2 * o * 2 ^ d + 2 * 2 ^ d := by ring
    have e5 : o * (2 * 2 ^ d) = 2 * o * 2 ^ d := by ring
    have hne : ¬ ((iat (d + 1) o).index = 2 * i) := by omega
    simp only [offsetDescend, hne, ite_false, iat_leftChild]
    split
    · rename_i hlt
      exact ih (2 * o) acc fuel (by omega) (by omega) (by omega)
    · rename_i hlt
      cases hreq : t.requiredNode f (iat d (2 * o)).index with
      | error e =>
        have := requiredNode_notPanic t f (iat d (2 * o)).index
        rw [hreq] at this
        exact notPanic_cast this
      | ok n =>
        simp only []
        rw [iat_sibling_even d (2 * o) (by omega)]
        exact ih (2 * o + 1) _ fuel (by omega) (by omega) (by omega)

/-- the tree's roots sit at the positions of a cover of its leaves (true of every reachable tree: the
    positions are the full roots of the length) -/
def RootShape (t : Tree) : Prop :=
  t.length < 2 ^ 64 ∧ ∃ l : List (Nat × Nat), Cover l 0 t.length ∧ t.roots.map (·.index) = l.map (fun p => Flat.index p.1 p.2)

theorem offsetGo_total (t : Tree) (f : File) (i n : Nat) (hn : n < 2 ^ 64) :
    ∀ (l : List (Nat × Nat)) (roots : List Node) (a acc : Nat), Cover l a n → roots.map (·.index) = l.map (fun p => Flat.index p.1 p.2) →
      a ≤ i → NotPanic (byteOffsetFromNodes.go t f (2 * i) roots (2 * a) acc) := by
  intro l
  induction l with
  | nil =>
    intro roots a acc _ hr _
    have : roots = [] := by simpa using hr
    subst this
    simp [byteOffsetFromNodes.go, NotPanic]
  | cons p rest ih =>
    intro roots a acc hc hr ha
    cases roots with
    | nil => simp at hr
    | cons r rs =>
      simp only [List.map_cons, List.cons.injEq] at hr
      obtain ⟨hri, hrs⟩ := hr
      cases hc with
      | cons d o _ _ _ hao hrest =>
        have hp := pow_pos' d
        have hb := hrest.le
        have hidx : r.index = o * (2 * 2 ^ d) + (2 ^ d - 1) := by rw [hri]; exact index_eq d o
        have e5 : o * (2 * 2 ^ d) = 2 * (o * 2 ^ d) := by ring
        have e6 : (o + 1) * 2 ^ d = o * 2 ^ d + 2 ^ d := by ring
        have hhead : 2 * a + 2 * (r.index - 2 * a + 1) = 2 * ((o + 1) * 2 ^ d) := by
          rw [hidx, hao, e5, e6]; omega
        simp only [byteOffsetFromNodes.go, hhead]
        split
        · exact ih rs ((o + 1) * 2 ^ d) _ hrest hrs (by omega)
        · rename_i hge
          have hd : d < 64 := by
            have h4 : 2 ^ d ≤ (o + 1) * 2 ^ d := Nat.le_mul_of_pos_left _ (by omega)
            have h5 : 2 ^ d < 2 ^ 64 := by omega
            exact (Nat.pow_lt_pow_iff_right (by decide)).mp h5
          rw [hri, new_index d o (by omega)]
          exact offsetDescend_total t f i d o acc 70 (by omega) (by omega) (by omega)

theorem leftSpan_even (i : Nat) (h : i % 2 = 1) : ∃ j, leftSpan i = 2 * j := by
  have hd : depth i ≠ 0 := by
    unfold depth depthAux
    simp [h]
  unfold leftSpan
  simp only [hd, ite_false]
  exact ⟨Flat.offset i * 2 ^ depth i, by rw [pow_succ2]; ring⟩

theorem byteOffsetFromNodes_total (t : Tree) (f : File) (hT : RootShape t) (index : Nat) :
    NotPanic (t.byteOffsetFromNodes f index) := by
  obtain ⟨hn, l, hc, hr⟩ := hT
  unfold Tree.byteOffsetFromNodes
  have key : ∀ j, NotPanic (byteOffsetFromNodes.go t f (2 * j) t.roots 0 0) := by
    intro j
    have := offsetGo_total t f j t.length hn l t.roots 0 0 hc hr (Nat.zero_le _)
    simpa using this
  by_cases ho : index % 2 = 1
  · obtain ⟨j, hj⟩ := leftSpan_even index ho
    simp only [ho, ite_true, hj]
    exact key j
  · simp only [ho, ite_false]
    have : index = 2 * (index / 2) := by omega
    rw [this]
    exact key _

/-! ### seeks -/

theorem seekUntrustedTree_total (t : Tree) (f : File) (hT : RootShape t) (root bytes : Nat) (h : Canon root) :
    NotPanic (t.seekUntrustedTree f root bytes) ∧ ∀ r, t.seekUntrustedTree f root bytes = .ok r → Canon r := by
  unfold Tree.seekUntrustedTree
  cases hb : t.byteOffsetFromNodes f root with
  | error e =>
    have := byteOffsetFromNodes_total t f hT root
    rw [hb] at this
    exact ⟨notPanic_cast this, fun r hr => by cases hr⟩
  | ok off =>
    simp only []
    split
    · exact ⟨err_notPanic, fun r hr => by cases hr⟩
    · split
      · exact ⟨ok_notPanic _, fun r hr => by cases hr; exact h⟩
      · cases hreq : t.requiredNode f root with
        | error e =>
          have := requiredNode_notPanic t f root
          rw [hreq] at this
          exact ⟨notPanic_cast this, fun r hr => by cases hr⟩
        | ok n =>
          simp only []
          split
          · exact ⟨err_notPanic, fun r hr => by cases hr⟩
          · exact seekTrustedTree_total t f root _ h

theorem seekFromHead_go_total (t : Tree) (f : File) (head : Nat) (hh : Canon head) :
    ∀ (rs : List Nat) (bytes : Nat), (∀ r ∈ rs, Canon r) →
      NotPanic (seekFromHead.go t f head rs bytes) ∧ ∀ r, seekFromHead.go t f head rs bytes = .ok r → Canon r := by
  intro rs
  induction rs with
  | nil => intro bytes _; exact ⟨ok_notPanic _, fun r hr => by cases hr; exact hh⟩
  | cons r rs ih =>
    intro bytes hrs
    simp only [seekFromHead.go]
    cases hreq : t.requiredNode f r with
    | error e =>
      have := requiredNode_notPanic t f r
      rw [hreq] at this
      exact ⟨notPanic_cast this, fun r hr => by cases hr⟩
    | ok n =>
      simp only []
      split
      · exact ⟨ok_notPanic _, fun x hx => by cases hx; exact hrs r (by simp)⟩
      · split
        · exact ih _ (fun x hx => hrs x (by simp [hx]))
        · exact seekTrustedTree_total t f r bytes (hrs r (by simp))

theorem seekFromHead_total (t : Tree) (f : File) (T bytes : Nat) (hT : T < 2 ^ 64) :
    NotPanic (t.seekFromHead f (2 * T) bytes) ∧ ∀ r, t.seekFromHead f (2 * T) bytes = .ok r → Canon r := by
  unfold Tree.seekFromHead
  apply seekFromHead_go_total t f (2 * T) ⟨0, T, by rw [index_zero], by omega⟩
  intro r hr
  rw [HC.FullRoots.fullRoots_eq T hT] at hr
  obtain ⟨p, hp, rfl⟩ := List.mem_map.mp hr
  have hb := rootsStack_bound T p (List.mem_reverse.mp hp)
  refine canon_index p.1 p.2 ?_
  have h4 : 2 ^ p.1 ≤ (p.2 + 1) * 2 ^ p.1 := Nat.le_mul_of_pos_left _ (by omega)
  have h5 : 2 ^ p.1 < 2 ^ 64 := by omega
  have := (Nat.pow_lt_pow_iff_right (by decide : 1 < 2)).mp h5
  omega

/-! ### `nodes_to_root` stays below depth 65 -/

theorem nodesToRoot_go_canon (head : Nat) (hh : head + 2 ≤ 2 ^ 66) :
    ∀ (fuel n d o : Nat), d ≤ 64 → o * 2 ^ d < 2 ^ 64 →
      NotPanic (nodesToRoot.go head fuel n (iat d o)) ∧ ∀ r, nodesToRoot.go head fuel n (iat d o) = .ok r → Canon r := by
  intro fuel
  induction fuel with
  | zero =>
    intro n d o hd _
    cases n with
    | zero => exact ⟨by simp [nodesToRoot.go, NotPanic], fun r hr => by simp only [nodesToRoot.go] at hr; cases hr; exact canon_index d o hd⟩
    | succ n => exact ⟨by simp [nodesToRoot.go, NotPanic], fun r hr => by simp [nodesToRoot.go] at hr⟩
  | succ fuel ih =>
    intro n d o hd ho
    cases n with
    | zero => exact ⟨by simp [nodesToRoot.go, NotPanic], fun r hr => by simp only [nodesToRoot.go] at hr; cases hr; exact canon_index d o hd⟩
    | succ n =>
      simp only [nodesToRoot.go, iat_parent]
      split
      · exact ⟨err_notPanic, fun r hr => by cases hr⟩
      · rename_i hc
        have hd' : d + 1 ≤ 64 := by
          by_contra hcon
          have hd64 : d = 64 := by omega
          subst hd64
          have ho0 : o = 0 := by
            by_contra hne
            have : 2 ^ 64 ≤ o * 2 ^ 64 := Nat.le_mul_of_pos_left _ (by omega)
            omega
          subst ho0
          apply hc
          rw [iat_contains]
          simp only [Nat.zero_div, Nat.zero_mul, Nat.zero_le, decide_true, Bool.true_and, Nat.zero_add, Nat.one_mul, decide_eq_true_eq]
          exact hh
        have ho' : o / 2 * 2 ^ (d + 1) < 2 ^ 64 := by
          have : o / 2 * 2 ^ (d + 1) ≤ o * 2 ^ d := by
            rw [pow_succ2]
            have : o / 2 * (2 * 2 ^ d) = (o / 2 * 2) * 2 ^ d := by ring
            rw [this]
            exact Nat.mul_le_mul_right _ (Nat.div_mul_le_self o 2)
          omega
        exact ih n (d + 1) (o / 2) hd' ho'

theorem nodesToRoot_total (index nodes head : Nat) (hh : head + 2 ≤ 2 ^ 66) (hi : index < 2 ^ 65 - 1) :
    NotPanic (nodesToRoot index nodes head) ∧ ∀ r, nodesToRoot index nodes head = .ok r → Canon r := by
  obtain ⟨d, o, hd, hidx, hnew⟩ := canon_new index (canon_of_lt index hi)
  unfold nodesToRoot
  rw [hnew]
  apply nodesToRoot_go_canon head hh 80 nodes d o hd
  have h1 := index_eq d o
  have hp := pow_pos' d
  have : o * (2 * 2 ^ d) = 2 * (o * 2 ^ d) := by ring
  omega

/-! ### the whole of `create_valueless_proof`, stage by stage -/

def indexedOf (block hash : Option RequestBlock) : Option Indexed :=
  match block, hash with
  | some b, _ => some ⟨true, b.index * 2, b.nodes, b.index⟩
  | none, some h => some ⟨false, h.index, h.nodes, rightSpan h.index / 2⟩
  | none, none => none

def stage1 (t : Tree) (f : File) (indexed : Option Indexed) (seek : Option RequestSeek) (upgrade : Option RequestUpgrade)
    (frm upto head : Nat) : R (Nat × LocalProof × Bool) :=
  match indexed with
  | none => .ok (head, {}, false)
  | some ix =>
    if seek.isSome && upgrade.isSome && ix.index ≥ frm then .error .err else
    let untrusted := match upgrade with
      | some u => decide (ix.lastIndex < u.start)
      | none => true
    if untrusted then
      match nodesToRoot ix.index ix.nodes upto with
      | .error e => .error e
      | .ok subTree =>
        let seekRoot : R Nat := match seek with
          | some s => t.seekUntrustedTree f subTree s.bytes
          | none => .ok head
        match seekRoot with
        | .error e => .error e
        | .ok sr =>
          match t.blockAndSeekProof f (some ix) seek.isSome sr subTree {} with
          | .error e => .error e
          | .ok p => .ok (subTree, p, true)
    else if upgrade.isSome then .ok (ix.index, {}, false)
    else .ok (head, {}, false)

def stage2 (t : Tree) (f : File) (seek : Option RequestSeek) (upto subTree : Nat) (untrusted : Bool) : R Nat :=
  if !untrusted then
    match seek with
    | some s => t.seekFromHead f upto s.bytes
    | none => .ok subTree
  else .ok subTree

def stage3 (t : Tree) (f : File) (indexed : Option Indexed) (seek : Option RequestSeek) (upgrade : Option RequestUpgrade)
    (frm upto head subTree : Nat) (p : LocalProof) : R LocalProof :=
  if upgrade.isSome then
    match t.upgradeProof f indexed seek.isSome frm upto subTree p with
    | .error e => .error e
    | .ok p1 => if head > upto then t.additionalUpgradeProof f upto head p1 else .ok p1
  else .ok p

def assemble (t : Tree) (block hash : Option RequestBlock) (seek : Option RequestSeek) (upgrade : Option RequestUpgrade)
    (p : LocalProof) : R ValuelessProof :=
  let blk : R (Option DataHash) := match block with
    | some b => (match p.nodes with | some ns => .ok (some ⟨b.index, ns⟩) | none => .error .err)
    | none => .ok none
  let hsh : R (Option DataHash) := match block, hash with
    | none, some h => (match p.nodes with | some ns => .ok (some ⟨h.index, ns⟩) | none => .error .err)
    | _, _ => .ok none
  let sk : Option DataSeek := match seek with
    | some s => p.seek.map fun ns => ⟨s.bytes, ns⟩
    | none => none
  let up : R (Option DataUpgrade) := match upgrade with
    | some u =>
      (match p.upgrade, t.signature with
       | some ns, some sig => .ok (some ⟨u.start, u.length, ns, p.additional.getD [], sig⟩)
       | _, _ => .error .err)
    | none => .ok none
  match blk, hsh, up with
  | .ok b, .ok h, .ok u => .ok ⟨t.fork, b, h, sk, u⟩
  | .error e, _, _ => .error e
  | _, .error e, _ => .error e
  | _, _, .error e => .error e

def staged (t : Tree) (f : File) (block hash : Option RequestBlock) (seek : Option RequestSeek) (upgrade : Option RequestUpgrade)
    (frm upto : Nat) : R ValuelessProof :=
  let head := 2 * t.length
  if frm ≥ upto ∨ upto > head then .error .err else
  match stage1 t f (indexedOf block hash) seek upgrade frm upto head with
  | .error e => .error e
  | .ok (subTree, p, untrusted) =>
    match stage2 t f seek upto subTree untrusted with
    | .error e => .error e
    | .ok subTree =>
      match stage3 t f (indexedOf block hash) seek upgrade frm upto head subTree p with
      | .error e => .error e
      | .ok p => assemble t block hash seek upgrade p

theorem create_eq (t : Tree) (f : File) (block hash : Option RequestBlock) (seek : Option RequestSeek) (upgrade : Option RequestUpgrade) :
    t.createValuelessProof f block hash seek upgrade
      = match upgrade with
        | some u => staged t f block hash seek upgrade (u.start * 2) (u.start * 2 + u.length * 2)
        | none => staged t f block hash seek upgrade 0 (2 * t.length) := by
  cases upgrade <;> rfl

theorem canon_even (n : Nat) (h : n < 2 ^ 64) : Canon (2 * n) := ⟨0, n, by rw [index_zero], by omega⟩

theorem stage1_total (t : Tree) (f : File) (hT : RootShape t) (indexed : Option Indexed) (seek : Option RequestSeek)
    (upgrade : Option RequestUpgrade) (frm upto : Nat) (hix : ∀ ix, indexed = some ix → ix.index < 2 ^ 65 - 1)
    (hup : upto + 2 ≤ 2 ^ 66) :
    NotPanic (stage1 t f indexed seek upgrade frm upto (2 * t.length))
      ∧ ∀ r, stage1 t f indexed seek upgrade frm upto (2 * t.length) = .ok r → Canon r.1 := by
  have hhead : Canon (2 * t.length) := canon_even _ hT.1
  unfold stage1
  cases indexed with
  | none => exact ⟨ok_notPanic _, fun r hr => by cases hr; exact hhead⟩
  | some ix =>
    have hci : Canon ix.index := canon_of_lt _ (hix ix rfl)
    simp only []
    split
    · exact ⟨err_notPanic, fun r hr => by cases hr⟩
    · generalize (match upgrade with | some u => decide (ix.lastIndex < u.start) | none => true) = untrusted
      cases untrusted with
      | false =>
        simp only [Bool.false_eq_true, ite_false]
        split
        · exact ⟨ok_notPanic _, fun r hr => by cases hr; exact hci⟩
        · exact ⟨ok_notPanic _, fun r hr => by cases hr; exact hhead⟩
      | true =>
        simp only [ite_true]
        obtain ⟨n1, n2⟩ := nodesToRoot_total ix.index ix.nodes upto hup (hix ix rfl)
        cases hn : nodesToRoot ix.index ix.nodes upto with
        | error e => rw [hn] at n1; exact ⟨notPanic_cast n1, fun r hr => by cases hr⟩
        | ok subTree =>
          have hcs : Canon subTree := n2 subTree hn
          simp only []
          have hsr : ∀ (sr : R Nat), NotPanic sr → (∀ x, sr = .ok x → Canon x) →
              NotPanic (match sr with
                | .error e => (.error e : R (Nat × LocalProof × Bool))
                | .ok sr => match t.blockAndSeekProof f (some ix) seek.isSome sr subTree {} with
                  | .error e => .error e
                  | .ok p => .ok (subTree, p, true))
              ∧ ∀ r : Nat × LocalProof × Bool, (match sr with
                | .error e => (.error e : R (Nat × LocalProof × Bool))
                | .ok sr => match t.blockAndSeekProof f (some ix) seek.isSome sr subTree {} with
                  | .error e => .error e
                  | .ok p => .ok (subTree, p, true)) = .ok r → Canon r.1 := by
            intro sr h1 h2
            cases sr with
            | error e => exact ⟨notPanic_cast h1, fun r hr => by cases hr⟩
            | ok x =>
              simp only []
              have hb := blockAndSeekProof_total t f (some ix) seek.isSome x subTree {} (fun ix' h => by cases h; exact hci) (h2 x rfl) hcs
              cases hq : t.blockAndSeekProof f (some ix) seek.isSome x subTree {} with
              | error e => rw [hq] at hb; exact ⟨notPanic_cast hb, fun r hr => by cases hr⟩
              | ok p => exact ⟨ok_notPanic _, fun r hr => by cases hr; exact hcs⟩
          cases seek with
          | none => exact hsr (.ok (2 * t.length)) (ok_notPanic _) (fun x hx => by cases hx; exact hhead)
          | some sk =>
            obtain ⟨u1, u2⟩ := seekUntrustedTree_total t f hT subTree sk.bytes hcs
            exact hsr _ u1 u2

theorem stage2_total (t : Tree) (f : File) (seek : Option RequestSeek) (T subTree : Nat) (untrusted : Bool)
    (hT : T < 2 ^ 64) (hs : Canon subTree) :
    NotPanic (stage2 t f seek (2 * T) subTree untrusted) ∧ ∀ r, stage2 t f seek (2 * T) subTree untrusted = .ok r → Canon r := by
  unfold stage2
  split
  · cases seek with
    | none => exact ⟨ok_notPanic _, fun r hr => by cases hr; exact hs⟩
    | some sk => exact seekFromHead_total t f T sk.bytes hT
  · exact ⟨ok_notPanic _, fun r hr => by cases hr; exact hs⟩

theorem upgradeProof_total (t : Tree) (f : File) (indexed : Option Indexed) (isSeek : Bool) (frm T subTree : Nat) (p : LocalProof)
    (hix : ∀ ix, indexed = some ix → Canon ix.index) (hsub : Canon subTree) (hT : T < 2 ^ 64) (hfrm : frm % 2 = 0) :
    NotPanic (t.upgradeProof f indexed isSeek frm (2 * T) subTree p) := by
  unfold Tree.upgradeProof
  have h0 : Iter.new 0 = iat 0 0 := new_even 0
  rw [h0]
  have := upgradeLoop_total t f true indexed isSeek frm T subTree hix hsub hT hfrm 64 0 80 (decide (frm = 0)) [] p
    (by omega) (by omega) (align_zero T) (fun h => by have : frm ≠ 0 := (by simpa using h); omega)
  cases hq : upgradeLoop t f true indexed isSeek frm (2 * T) subTree 80 (iat 0 0) (decide (frm = 0)) [] p with
  | error e => rw [hq] at this; exact notPanic_cast this
  | ok r => exact ok_notPanic _

theorem additionalUpgradeProof_total (t : Tree) (f : File) (frm T : Nat) (p : LocalProof) (hT : T < 2 ^ 64) (hfrm : frm % 2 = 0) :
    NotPanic (t.additionalUpgradeProof f frm (2 * T) p) := by
  unfold Tree.additionalUpgradeProof
  have h0 : Iter.new 0 = iat 0 0 := new_even 0
  rw [h0]
  have := upgradeLoop_total t f false none false frm T 0 (fun ix h => by cases h) ⟨0, 0, rfl, by omega⟩ hT hfrm 64 0 80 (decide (frm = 0)) [] p
    (by omega) (by omega) (align_zero T) (fun h => by have : frm ≠ 0 := (by simpa using h); omega)
  cases hq : upgradeLoop t f false none false frm (2 * T) 0 80 (iat 0 0) (decide (frm = 0)) [] p with
  | error e => rw [hq] at this; exact notPanic_cast this
  | ok r => exact ok_notPanic _

theorem stage3_total (t : Tree) (f : File) (hT : RootShape t) (indexed : Option Indexed) (seek : Option RequestSeek)
    (upgrade : Option RequestUpgrade) (frm T subTree : Nat) (p : LocalProof)
    (hix : ∀ ix, indexed = some ix → Canon ix.index) (hsub : Canon subTree) (hTT : T < 2 ^ 64) (hfrm : frm % 2 = 0) :
    NotPanic (stage3 t f indexed seek upgrade frm (2 * T) (2 * t.length) subTree p) := by
  unfold stage3
  split
  · have h1 := upgradeProof_total t f indexed seek.isSome frm T subTree p hix hsub hTT hfrm
    cases hq : t.upgradeProof f indexed seek.isSome frm (2 * T) subTree p with
    | error e => rw [hq] at h1; exact notPanic_cast h1
    | ok p1 =>
      simp only []
      split
      · exact additionalUpgradeProof_total t f (2 * T) t.length p1 hT.1 (by omega)
      · exact ok_notPanic _
  · exact ok_notPanic _

theorem assemble_total (t : Tree) (block hash : Option RequestBlock) (seek : Option RequestSeek) (upgrade : Option RequestUpgrade)
    (p : LocalProof) : NotPanic (assemble t block hash seek upgrade p) := by
  unfold assemble
  cases block <;> cases hash <;> cases upgrade <;> cases p.nodes <;> cases p.upgrade <;> cases t.signature <;> simp [NotPanic]

theorem staged_total (t : Tree) (f : File) (hT : RootShape t) (block hash : Option RequestBlock) (seek : Option RequestSeek)
    (upgrade : Option RequestUpgrade) (frm T : Nat) (hfrm : frm % 2 = 0)
    (hb : ∀ b, block = some b → b.index < 2 ^ 63) (hh : ∀ h, hash = some h → h.index < 2 ^ 65 - 1) :
    NotPanic (staged t f block hash seek upgrade frm (2 * T)) := by
  unfold staged
  simp only []
  split
  · exact err_notPanic
  · rename_i hg
    have hTT : T < 2 ^ 64 := by have := hT.1; omega
    have hix : ∀ ix, indexedOf block hash = some ix → ix.index < 2 ^ 65 - 1 := by
      intro ix hix
      unfold indexedOf at hix
      cases block with
      | some b => simp only [Option.some.injEq] at hix; subst hix; have := hb b rfl; simp only; omega
      | none =>
        cases hash with
        | some h => simp only [Option.some.injEq] at hix; subst hix; exact hh h rfl
        | none => cases hix
    obtain ⟨s1, s1c⟩ := stage1_total t f hT (indexedOf block hash) seek upgrade frm (2 * T) hix (by omega)
    cases h1 : stage1 t f (indexedOf block hash) seek upgrade frm (2 * T) (2 * t.length) with
    | error e => rw [h1] at s1; exact notPanic_cast s1
    | ok r1 =>
      obtain ⟨subTree, p, untrusted⟩ := r1
      have hc1 : Canon subTree := s1c _ h1
      simp only []
      obtain ⟨s2, s2c⟩ := stage2_total t f seek T subTree untrusted hTT hc1
      cases h2 : stage2 t f seek (2 * T) subTree untrusted with
      | error e => rw [h2] at s2; exact notPanic_cast s2
      | ok subTree2 =>
        have hc2 : Canon subTree2 := s2c _ h2
        simp only []
        have s3 := stage3_total t f hT (indexedOf block hash) seek upgrade frm T subTree2 p
          (fun ix h => canon_of_lt _ (hix ix h)) hc2 hTT hfrm
        cases h3 : stage3 t f (indexedOf block hash) seek upgrade frm (2 * T) (2 * t.length) subTree2 p with
        | error e => rw [h3] at s3; exact notPanic_cast s3
        | ok p3 => exact assemble_total t block hash seek upgrade p3

/-- **`create_valueless_proof` is total** (C09, sending side): for every tree whose roots sit at the root
    positions of its length, every store content and every request whose block / hash index is a `u64`
    (below 2^63 for a block, whose index is doubled; below 2^65 − 1 for a tree node) — any node counts, any
    seek offset, any upgrade window — the answer is a proof or an error, never a panic or a loop that does
    not end. -/
theorem create_total (t : Tree) (f : File) (hT : RootShape t) (block hash : Option RequestBlock) (seek : Option RequestSeek)
    (upgrade : Option RequestUpgrade)
    (hb : ∀ b, block = some b → b.index < 2 ^ 63) (hh : ∀ h, hash = some h → h.index < 2 ^ 65 - 1) :
    NotPanic (t.createValuelessProof f block hash seek upgrade) := by
  rw [create_eq]
  cases upgrade with
  | none => exact staged_total t f hT block hash seek none 0 t.length rfl hb hh
  | some u =>
    have e : u.start * 2 + u.length * 2 = 2 * (u.start + u.length) := by ring
    simp only [e]
    exact staged_total t f hT block hash seek (some u) (u.start * 2) (u.start + u.length) (by omega) hb hh

end HC.CreateTotal
