import HC.Proofs.LiveRefine
import HC.Proofs.FullRoots
import HC.Proofs.BitfieldPages
import HC.Proofs.Touch
/-!
Reopen: replaying the logged entries over the flushed stores re-establishes the representation
invariant `Rep` for the same abstract log.

`EntryStep` says what one logged entry is, relative to the abstract log before and after it (an
append entry carries exactly the reference nodes created by the batch, the upgrade to the new length
and the have-range; a clear entry carries the dropped range).  `replay_ok`: replaying a trace of such
entries from a state that satisfies `RInv` for the log at the last flush reaches a state that satisfies
it for the current log.  `reopen_refines`: hence `Hypercore::new` yields a core satisfying `Rep`.
-/
namespace HC.Reopen
open HC HC.Codec HC.Flat HC.Tree HC.RefTree HC.RefProof HC.Offsets HC.TreeStore HC.LogSpec HC.Core HC.Oplog HC.LiveRefine
  HC.FullRoots HC.BitfieldPages HC.FormatLimits HC.OplogBytes HC.Touch

/-! ### reference roots as a list -/

def refRoots (C : Crypto) (bs : Array Bytes) : List Node := (rootsStack bs.size).reverse.map fun p => nodeAt C bs p.1 p.2

theorem refRoots_index (C : Crypto) (bs : Array Bytes) (hs : bs.size < 2 ^ 64) :
    (refRoots C bs).map (·.index) = fullRoots (2 * bs.size) := by
  rw [fullRoots_eq bs.size hs, refRoots, List.map_map]
  rfl

theorem roots_of_rootsOK (C : Crypto) (bs : Array Bytes) (cs : Changeset) (h : RootsOK C bs cs) : cs.roots = refRoots C bs := by
  have := congrArg List.reverse h.roots
  simpa [refRoots, List.map_reverse] using this

/-- the sizes of the reference roots over a cover add up to the bytes in the covered blocks -/
theorem cover_sum (C : Crypto) (bs : Array Bytes) (l : List (Nat × Nat)) (a b : Nat) (h : Cover l a b) :
    psum bs a + ((l.map fun p => (nodeAt C bs p.1 p.2).length)).sum = psum bs b := by
  induction h with
  | nil a => simp
  | cons d o a b rest ha _ ih =>
    simp only [List.map_cons, List.sum_cons]
    have := node_size C bs d o
    simp only [nodeAt] at ih ⊢
    rw [ha]; omega

theorem refRoots_sum (C : Crypto) (bs : Array Bytes) : ((refRoots C bs).map (·.length)).sum = totalBytes bs := by
  have := cover_sum C bs _ 0 bs.size (cover_roots bs.size)
  rw [← psum_total]
  simp only [refRoots, List.map_map]
  simp only [psum, Nat.zero_add] at this
  exact this

/-- every element is a reference node of `bs` -/
def AllRef (C : Crypto) (bs : Array Bytes) (l : List Node) : Prop := ∀ n ∈ l, ∃ d o, n = nodeAt C bs d o

theorem allRef_refRoots (C : Crypto) (bs : Array Bytes) : AllRef C bs (refRoots C bs) := by
  intro n hn
  simp only [refRoots, List.mem_map] at hn
  obtain ⟨p, _, rfl⟩ := hn
  exact ⟨p.1, p.2, rfl⟩

/-- two lists of reference nodes with the same indices are equal -/
theorem allRef_eq_of_index (C : Crypto) (bs : Array Bytes) (l l' : List Node) (h : AllRef C bs l) (h' : AllRef C bs l')
    (hi : l.map (·.index) = l'.map (·.index)) : l = l' := by
  induction l generalizing l' with
  | nil => cases l' with
    | nil => rfl
    | cons x xs => simp at hi
  | cons x xs ih =>
    cases l' with
    | nil => simp at hi
    | cons y ys =>
      simp only [List.map_cons, List.cons.injEq] at hi
      obtain ⟨d, o, rfl⟩ := h x (by simp)
      obtain ⟨d', o', rfl⟩ := h' y (by simp)
      obtain ⟨rfl, rfl⟩ := index_inj d o d' o' hi.1
      rw [ih ys (fun n hn => h n (by simp [hn])) (fun n hn => h' n (by simp [hn])) hi.2]

/-! ### `truncate` as replay uses it -/

theorem mem_fullRoots (n : Nat) (hn : n < 2 ^ 64) (r : Nat) (hr : r ∈ fullRoots (2 * n)) :
    ∃ d o, r = Flat.index d o ∧ (o + 1) * 2 ^ d ≤ n := by
  rw [fullRoots_eq n hn] at hr
  obtain ⟨p, hp, rfl⟩ := List.mem_map.mp hr
  exact ⟨p.1, p.2, rfl, rootsStack_bound n p (List.mem_reverse.mp hp)⟩

theorem truncate_go_ok (C : Crypto) (bs : Array Bytes) (t : Tree) (f : File) (hN : NodesOK C bs t f) (hs : bs.size < 2 ^ 64) :
    ∀ (rs pre : List Nat) (acc : List Node), fullRoots (2 * bs.size) = pre ++ rs → AllRef C bs acc →
      (acc.take pre.length).map (·.index) = pre →
      ∃ acc', Tree.truncate.go t f rs pre.length acc = .ok acc' ∧ AllRef C bs acc'
        ∧ (acc'.take (pre.length + rs.length)).map (·.index) = pre ++ rs := by
  intro rs
  induction rs with
  | nil => intro pre acc _ ha hp; exact ⟨acc, rfl, ha, by simpa using hp⟩
  | cons r rs ih =>
    intro pre acc hfull ha hp
    have hlen : (acc.take pre.length).length = pre.length := by
      have := congrArg List.length hp; simpa using this
    have hle : pre.length ≤ acc.length := by
      rw [List.length_take] at hlen; omega
    have hfull' : fullRoots (2 * bs.size) = (pre ++ [r]) ++ rs := by rw [hfull]; simp
    have hlen' : (pre ++ [r]).length = pre.length + 1 := by simp
    simp only [Tree.truncate.go]
    by_cases hc : pre.length < acc.length ∧ (acc.getD pre.length default).index = r
    · simp only [hc, and_self, ite_true]
      have htake : (acc.take (pre ++ [r]).length).map (·.index) = pre ++ [r] := by
        rw [hlen', List.take_add_one, List.map_append, hp]
        have hg : acc[pre.length]? = some acc[pre.length] := List.getElem?_eq_getElem hc.1
        have hgd : acc.getD pre.length default = acc[pre.length] := by simp [List.getD_eq_getElem?_getD, hg]
        have h2 := hc.2
        rw [hgd] at h2
        rw [hg]; simp [h2]
      obtain ⟨acc', h1, h2, h3⟩ := ih (pre ++ [r]) acc hfull' ha htake
      rw [hlen'] at h1 h3
      refine ⟨acc', h1, h2, ?_⟩
      have : pre.length + (r :: rs).length = pre.length + 1 + rs.length := by simp; omega
      rw [this, h3]; simp
    · simp only [hc, ite_false]
      obtain ⟨d, o, rfl, hb⟩ := mem_fullRoots bs.size hs r (by rw [hfull]; simp)
      have hreq : t.requiredNode f (Flat.index d o) = .ok (nodeAt C bs d o) := by
        simp [Tree.requiredNode, hN d o hb]
      simp only [hreq]
      have ha' : AllRef C bs (acc.take pre.length ++ [nodeAt C bs d o]) := by
        intro n hn
        rcases List.mem_append.mp hn with hn | hn
        · exact ha n (List.mem_of_mem_take hn)
        · simp at hn; subst hn; exact ⟨d, o, rfl⟩
      have htake : ((acc.take pre.length ++ [nodeAt C bs d o]).take (pre ++ [Flat.index d o]).length).map (·.index)
          = pre ++ [Flat.index d o] := by
        rw [hlen', List.take_of_length_le (by simp [hlen]), List.map_append, hp]
        rfl
      obtain ⟨acc', h1, h2, h3⟩ := ih (pre ++ [Flat.index d o]) _ hfull' ha' htake
      rw [hlen'] at h1 h3
      refine ⟨acc', h1, h2, ?_⟩
      have : pre.length + (Flat.index d o :: rs).length = pre.length + 1 + rs.length := by simp; omega
      rw [this, h3]; simp

/-- `truncate` to the length of `bs`, on a tree whose current roots are reference nodes of `bs` (the
    roots of a prefix) and whose lookup is exact for `bs` -/
theorem truncate_ok (C : Crypto) (bs : Array Bytes) (t : Tree) (f : File) (fork : Nat) (hN : NodesOK C bs t f)
    (hs : bs.size < 2 ^ 64) (hroots : AllRef C bs t.roots) :
    ∃ cs, t.truncate f bs.size fork = .ok cs ∧ cs.roots = refRoots C bs ∧ cs.length = bs.size
      ∧ cs.byteLength = totalBytes bs ∧ cs.upgraded = true ∧ cs.origLength = t.length ∧ cs.origFork = t.fork
      ∧ cs.rnodes = [] ∧ cs.fork = fork := by
  obtain ⟨acc', h1, h2, h3⟩ := truncate_go_ok C bs t f hN hs (fullRoots (2 * bs.size)) [] t.roots (by simp) hroots (by simp)
  simp only [List.length_nil, Nat.zero_add, List.nil_append] at h1 h3
  have hcomm : bs.size * 2 = 2 * bs.size := Nat.mul_comm _ _
  have hroots' : acc'.take (fullRoots (2 * bs.size)).length = refRoots C bs := by
    apply allRef_eq_of_index C bs _ _ (fun n hn => h2 n (List.mem_of_mem_take hn)) (allRef_refRoots C bs)
    rw [h3, refRoots_index C bs hs]
  generalize hbl : ((refRoots C bs).map (·.length)).sum = bl
  have e : t.truncate f bs.size fork = .ok { t.changeset with roots := refRoots C bs, fork := fork, length := bs.size, ancestors := bs.size, byteLength := bl, upgraded := true } := by
    simp only [Tree.truncate, hcomm, h1, hroots', hbl]
  exact ⟨_, e, rfl, rfl, by rw [← hbl]; exact refRoots_sum C bs, rfl, rfl, rfl, rfl, rfl⟩

/-! ### replaying one entry -/

/-- What the replay maintains: `Rep` without the parts that live outside (secret, data store), stated so
    that it tolerates a bitfield store that is *ahead* of the header: `rest` are the entries still to be
    replayed, `N` the final length.  A bit equals the abstract one unless a remaining entry touches it;
    everything below the hint is held unless a remaining entry drops it; the hint is never stuck below a
    held bit. -/
structure RInv (C : Crypto) (t : Tree) (b : Bitfield) (h : Header) (f fb : File) (a : Abs) (rest : List Entry) (N : Nat) : Prop where
  tree : RootsOK C a.blocks t.changeset
  nodes : NodesOK C a.blocks t f
  mapwf : MapWF t.unflushed
  bitsB : ∀ i, (∀ e ∈ rest, ¬ Touches e i) → b.get i = a.held i
  heldLt : ∀ i, a.held i = true → i < a.blocks.size
  contJ : ∀ i, i < h.contiguous → b.get i = true ∨ ∃ e ∈ rest, Clears e i
  contK : a.blocks.size ≤ h.contiguous ∨ b.get h.contiguous = false
  bitsN : ∀ i, b.get i = true → i < N
  contN : h.contiguous ≤ N
  hdrLen : h.tree.length = a.blocks.size
  hdrSig : h.tree.signature = [] ∨ h.tree.signature.length = 64
  shape : HdrShape h
  forkU : U64 t.fork
  dirty : ∀ i, b.get i ≠ (Bitfield.ofFile fb).get i → i / Spec.pageBits ∈ b.dirty

/-- with nothing left to replay the bitfield is exact and the hint is the first missing index -/
theorem rinv_final (C : Crypto) (t : Tree) (b : Bitfield) (h : Header) (f fb : File) (a : Abs) (N : Nat)
    (hinv : RInv C t b h f fb a [] N) : (∀ i, b.get i = a.held i) ∧ FirstMissing b h.contiguous := by
  have hb : ∀ i, b.get i = a.held i := fun i => hinv.bitsB i (fun e he => by cases he)
  refine ⟨hb, fun i hi => ?_, ?_⟩
  · rcases hinv.contJ i hi with h1 | ⟨e, he, _⟩
    · exact h1
    · cases he
  · rcases hinv.contK with h1 | h1
    · cases hc : b.get h.contiguous with
      | false => rfl
      | true =>
        exfalso
        rw [hb] at hc
        have := hinv.heldLt _ hc
        omega
    · exact h1

theorem contig_le_of (b : Bitfield) (c n : Nat) (h : FirstMissing b c) (hlt : ∀ i, b.get i = true → i < n) : c ≤ n := by
  by_cases hle : c ≤ n
  · exact hle
  · exfalso
    have := hlt n (h.1 n (by omega))
    omega

theorem updateContiguous_eq (h : Header) (b : Bitfield) (u : BitfieldUpdate) :
    updateContiguous h b u = { h with contiguous := (updateContiguous h b u).contiguous } := by
  simp only [updateContiguous]
  split <;> (try split) <;> rfl

theorem foldl_addNode (nodes : List Node) (t : Tree) :
    nodes.foldl Tree.addNode t = { t with unflushed := insertAll t.unflushed nodes } := by
  induction nodes generalizing t with
  | nil => rfl
  | cons n ns ih => simp only [List.foldl_cons, ih, Tree.addNode, insertAll]

theorem replayEntry_ok (C : Crypto) (hC : HashWF C) (d : Disk) (ol : Oplog.State) (h : Header) (t : Tree) (b : Bitfield)
    (a a' : Abs) (e : Entry) (rest : List Entry) (N : Nat) (hTw : TreeWF C)
    (hinv : RInv C t b h d.tree d.bitfield a (e :: rest) N) (hstep : EntryStep C a e a')
    (hsmall : Small a') (hok : EntryOK e) (hN : a'.blocks.size ≤ N) (hN64 : N < 2 ^ 64) :
    ∃ h' t' b', Core.replayEntry C d (ol, h, t, b) e = .ok (ol, h', t', b') ∧ RInv C t' b' h' d.tree d.bitfield a' rest N
      ∧ h'.secret = h.secret ∧ h'.publicKey = h.publicKey := by
  cases hstep with
  | clear s e hse =>
    have hge : ¬ s ≥ e := by omega
    have habs : (a.step (.clear s e)).1 = { a with held := fun i => a.held i && !(decide (s ≤ i) && decide (i < e)) } := by
      simp only [Abs.step, hge, ite_false]
    rw [habs] at hN ⊢
    generalize hb' : b.setRange s (e - s) false = b'
    have hget : ∀ i, b'.get i = if s ≤ i ∧ i < e then false else b.get i := by
      intro i
      rw [← hb', Bitfield.get_setRange]
      by_cases hin : s ≤ i ∧ i < s + (e - s)
      · have : s ≤ i ∧ i < e := by omega
        simp [hin, this]
      · have : ¬ (s ≤ i ∧ i < e) := by omega
        simp [hin, this]
    have hnt : ∀ i, ¬ (s ≤ i ∧ i < e) → ¬ Touches { bitfield := some ⟨true, s, e - s⟩ } i := by
      rintro i hni ⟨u, hu1, hu2, hu3⟩
      have : u = ⟨true, s, e - s⟩ := (Option.some.inj hu1).symm
      subst this
      simp only at hu2 hu3
      omega
    have hc' : (updateContiguous h b' ⟨true, s, e - s⟩).contiguous = if h.contiguous > s then s else h.contiguous := by
      simp only [updateContiguous, ite_true]
      split <;> rfl
    have hcN : (updateContiguous h b' ⟨true, s, e - s⟩).contiguous ≤ N := by
      rw [hc']; have := hinv.contN; split <;> omega
    have hcU : U64 (updateContiguous h b' ⟨true, s, e - s⟩).contiguous := by unfold U64; omega
    refine ⟨updateContiguous h b' ⟨true, s, e - s⟩, t, b', ?_, ?_, ?_, ?_⟩
    · simp [Core.replayEntry, Tree.addNode, hb']
    · exact {
        tree := hinv.tree
        nodes := hinv.nodes
        mapwf := hinv.mapwf
        bitsB := by
          intro i hu
          rw [hget]
          by_cases hin : s ≤ i ∧ i < e
          · simp [hin]
          · have := hinv.bitsB i (by
              intro x hx
              rcases List.mem_cons.mp hx with rfl | hx
              · exact hnt i hin
              · exact hu x hx)
            simp only [hin, ite_false, this]
            by_cases h1 : s ≤ i
            · have : ¬ i < e := by omega
              simp [h1, this]
            · simp [h1]
        heldLt := by
          intro i hi
          simp only [Bool.and_eq_true] at hi
          exact hinv.heldLt i hi.1
        contJ := by
          intro i hi
          rw [hc'] at hi
          have hic : i < h.contiguous := by split at hi <;> omega
          have his : i < s := by split at hi <;> omega
          rcases hinv.contJ i hic with h1 | ⟨x, hx, hcl⟩
          · left; rw [hget]
            have : ¬ (s ≤ i ∧ i < e) := by omega
            simp only [this, ite_false]; exact h1
          · rcases List.mem_cons.mp hx with rfl | hx
            · exfalso; exact hnt i (by omega) hcl.touches
            · exact Or.inr ⟨x, hx, hcl⟩
        contK := by
          rw [hc']
          split
          · right; rw [hget]; simp [hse]
          · rcases hinv.contK with h1 | h1
            · exact Or.inl h1
            · right; rw [hget]; split
              · rfl
              · exact h1
        bitsN := by
          intro i hi
          rw [hget] at hi
          split at hi
          · cases hi
          · exact hinv.bitsN i hi
        contN := hcN
        hdrLen := by rw [updateContiguous_eq]; exact hinv.hdrLen
        hdrSig := by rw [updateContiguous_eq]; exact hinv.hdrSig
        shape := by rw [updateContiguous_eq]; exact hdrShape_contig _ hinv.shape _ hcU
        forkU := hinv.forkU
        dirty := by rw [← hb']; exact dirty_setRange _ _ _ _ _ hinv.dirty }
    · simp only [updateContiguous]; split <;> (try split) <;> rfl
    · simp only [updateContiguous]; split <;> (try split) <;> rfl
  | append batch nodes sig fk hne hw hsig sound compl _ =>
    have hemp : batch.isEmpty = false := by cases batch with | nil => exact absurd rfl hne | cons _ _ => rfl
    have hk : 0 < batch.length := List.length_pos_iff.mpr hne
    generalize hheld' : (fun i => a.held i || (decide (a.blocks.size ≤ i) && decide (i < a.blocks.size + batch.length))) = held'
    have habs : (a.step (.append batch)).1 = { a with blocks := a.blocks ++ batch.toArray, held := held' } := by
      simp only [Abs.step, hw, hemp, ← hheld', Bool.true_eq_false, ite_false]; rfl
    rw [habs] at hsmall hN ⊢
    generalize hbs' : a.blocks ++ batch.toArray = bs' at hsmall sound compl hN
    have hsize' : bs'.size = a.blocks.size + batch.length := by rw [← hbs']; simp
    simp only at hN
    rw [hsize'] at hN
    -- the tree with the entry's nodes added
    generalize ht1 : nodes.foldl Tree.addNode t = t1
    have ht1' : t1 = { t with unflushed := insertAll t.unflushed nodes } := by rw [← ht1]; exact foldl_addNode nodes t
    have hN1 : NodesOK C bs' t1 d.tree := by
      rw [← hbs']
      exact nodesOK_insert_gen C hC a.blocks batch t t1 d.tree nodes (by rw [ht1']) (by rw [hbs']; exact sound)
        (by rw [hbs']; exact compl) hinv.nodes
    have hroots1 : AllRef C bs' t1.roots := by
      have hr : t1.roots = refRoots C a.blocks := by rw [ht1']; exact roots_of_rootsOK C a.blocks _ hinv.tree
      rw [hr]
      intro n hn
      simp only [refRoots, List.mem_map] at hn
      obtain ⟨p, hp, rfl⟩ := hn
      refine ⟨p.1, p.2, ?_⟩
      rw [← hbs', nodeAt_append C a.blocks batch p.1 p.2 (rootsStack_bound _ p (List.mem_reverse.mp hp))]
    obtain ⟨cs, htr, r1, r2, r3, r4, r5, r6, r7, r8⟩ := truncate_ok C bs' t1 d.tree fk hN1 hsmall.1 hroots1
    rw [hsize'] at htr
    have hwf1 : MapWF t1.unflushed := by
      rw [ht1']
      apply mapWF_insertAll _ _ hinv.mapwf
      intro x hx
      obtain ⟨dd, o, rfl, hb⟩ := sound x hx
      refine ⟨nodeAt_hash_len C hC _ _ _, ?_⟩
      have h1 := nodeAt_length_le C bs' dd o
      have h2 := psum_mono bs' (show (o + 1) * 2 ^ dd ≤ bs'.size by rw [hsize']; exact hb)
      have h3 := psum_total bs'
      have := hsmall.2
      simp only at this
      omega
    -- the bitfield and the hint
    generalize hb' : b.setRange a.blocks.size batch.length true = b'
    have hget : ∀ i, b'.get i = if a.blocks.size ≤ i ∧ i < a.blocks.size + batch.length then true else b.get i := by
      intro i; rw [← hb', Bitfield.get_setRange]
    have hnt : ∀ i, ¬ (a.blocks.size ≤ i ∧ i < a.blocks.size + batch.length) →
        ¬ Touches { treeNodes := nodes, treeUpgrade := some ⟨fk, a.blocks.size, a.blocks.size + batch.length, sig⟩, bitfield := some ⟨false, a.blocks.size, batch.length⟩ } i := by
      rintro i hni ⟨u, hu1, hu2, hu3⟩
      have : u = ⟨false, a.blocks.size, batch.length⟩ := (Option.some.inj hu1).symm
      subst this
      exact hni ⟨hu2, hu3⟩
    have hncl : ∀ i, ¬ Clears { treeNodes := nodes, treeUpgrade := some ⟨fk, a.blocks.size, a.blocks.size + batch.length, sig⟩, bitfield := some ⟨false, a.blocks.size, batch.length⟩ } i := by
      rintro i ⟨u, hu1, hu2, _⟩
      have : u = ⟨false, a.blocks.size, batch.length⟩ := (Option.some.inj hu1).symm
      subst this
      cases hu2
    have hbitsN' : ∀ i, b'.get i = true → i < N := by
      intro i hi
      rw [hget] at hi
      split at hi
      · omega
      · exact hinv.bitsN i hi
    generalize hh1 : updateContiguous h b' ⟨false, a.blocks.size, batch.length⟩ = h1
    have hcases : (h1.contiguous = h.contiguous ∧ ¬ (h.contiguous ≤ a.blocks.size + batch.length ∧ h.contiguous ≥ a.blocks.size))
        ∨ ((h.contiguous ≤ a.blocks.size + batch.length ∧ h.contiguous ≥ a.blocks.size)
            ∧ (∀ i, a.blocks.size + batch.length ≤ i → i < h1.contiguous → b'.get i = true)
            ∧ b'.get h1.contiguous = false ∧ a.blocks.size + batch.length ≤ h1.contiguous) := by
      rw [← hh1]
      simp only [updateContiguous, Bool.false_eq_true, ite_false]
      split
      · rename_i hin
        exact Or.inr ⟨hin, scan_spec b' _ (a.blocks.size + batch.length) (by omega)⟩
      · rename_i hout
        exact Or.inl ⟨rfl, hout⟩
    have hJ1 : ∀ i, i < h1.contiguous → b'.get i = true ∨ ∃ x ∈ rest, Clears x i := by
      intro i hi
      have hold : i < h.contiguous → b'.get i = true ∨ ∃ x ∈ rest, Clears x i := by
        intro hic
        rcases hinv.contJ i hic with h1' | ⟨x, hx, hcl⟩
        · left; rw [hget]; split
          · rfl
          · exact h1'
        · rcases List.mem_cons.mp hx with rfl | hx
          · exact absurd hcl (hncl i)
          · exact Or.inr ⟨x, hx, hcl⟩
      rcases hcases with ⟨e1, _⟩ | ⟨hin, s1, _, _⟩
      · exact hold (by omega)
      · by_cases h1' : a.blocks.size + batch.length ≤ i
        · exact Or.inl (s1 i h1' hi)
        · by_cases h2 : a.blocks.size ≤ i
          · left; rw [hget]
            have : a.blocks.size ≤ i ∧ i < a.blocks.size + batch.length := by omega
            simp [this]
          · exact hold (by omega)
    have hK1 : a.blocks.size + batch.length ≤ h1.contiguous ∨ b'.get h1.contiguous = false := by
      rcases hcases with ⟨e1, hout⟩ | ⟨_, _, s2, _⟩
      · rw [e1]
        by_cases hgt : a.blocks.size + batch.length ≤ h.contiguous
        · exact Or.inl hgt
        · right
          have hlt : h.contiguous < a.blocks.size := by omega
          rcases hinv.contK with h2 | h2
          · omega
          · rw [hget]
            have : ¬ (a.blocks.size ≤ h.contiguous ∧ h.contiguous < a.blocks.size + batch.length) := by omega
            simp only [this, ite_false]; exact h2
      · exact Or.inr s2
    have hN1c : h1.contiguous ≤ N := by
      rcases hcases with ⟨e1, _⟩ | ⟨_, s1, _, s3⟩
      · rw [e1]; exact hinv.contN
      · by_cases hle : h1.contiguous ≤ N
        · exact hle
        · exfalso
          have := hbitsN' N (s1 N (by omega) (by omega))
          omega
    have hh1s : h1.secret = h.secret ∧ h1.publicKey = h.publicKey := by
      rw [← hh1]; simp only [updateContiguous]; split <;> (try split) <;> exact ⟨rfl, rfl⟩
    -- the commit
    generalize hcs2 : ({ cs with ancestors := a.blocks.size, hash := some (Tree.rootsHash C cs.roots), signature := some sig } : Changeset) = cs2
    have hlen1 : t1.length = a.blocks.size := by rw [ht1']; exact hinv.tree.length
    have hcommit : t1.commit cs2 = .ok { t1 with roots := refRoots C bs', length := bs'.size, byteLength := totalBytes bs', fork := fk, signature := some sig } := by
      have c1 : t1.commitable cs2 = true := by
        rw [← hcs2]; simp [Tree.commitable, r4, r5, r6]
      have c2 : cs2.upgraded = true := by rw [← hcs2]; exact r4
      have c3 : ¬ (cs2.ancestors < cs2.origLength) := by rw [← hcs2]; simp [r5, hlen1]
      have c4 : cs2.nodes = [] := by rw [← hcs2]; simp [Changeset.nodes, r7]
      simp only [Tree.commit, c1, c2, c3, c4, Bool.not_true, Bool.false_eq_true, ite_false, Bool.true_and, decide_false,
        List.foldl_nil, ite_true]
      rw [← hcs2]
      simp [r1, r2, r3, r8]
    generalize het : (entryOf cs2 none h1).2 = h2
    have hh2 : h2.contiguous = h1.contiguous ∧ h2.secret = h1.secret ∧ h2.publicKey = h1.publicKey := by
      rw [← het]; simp only [entryOf]; split <;> exact ⟨rfl, rfl, rfl⟩
    generalize ht2 : ({ t1 with roots := refRoots C bs', length := bs'.size, byteLength := totalBytes bs', fork := fk, signature := some sig } : Tree) = t2 at hcommit
    have t2a : t2.roots = refRoots C bs' ∧ t2.length = bs'.size ∧ t2.byteLength = totalBytes bs' ∧ t2.unflushed = t1.unflushed := by
      rw [← ht2]; exact ⟨rfl, rfl, rfl, rfl⟩
    refine ⟨h2, t2, b', ?_, ?_, by rw [hh2.2.1, hh1s.1], by rw [hh2.2.2, hh1s.2]⟩
    · simp only [Core.replayEntry, ht1, hb', hh1, Bool.not_false, htr, hsig, ne_eq, not_true_eq_false, ite_false, hcs2,
        hcommit, het]
    · have hheldLt' : ∀ i, held' i = true → i < bs'.size := by
        intro i hi
        rw [← hheld'] at hi
        simp only [Bool.or_eq_true, Bool.and_eq_true, decide_eq_true_eq] at hi
        rcases hi with hi | hi
        · have := hinv.heldLt i hi; rw [hsize']; omega
        · rw [hsize']; omega
      have hfkU : U64 fk := by
        have := hok.1.up ⟨fk, a.blocks.size, a.blocks.size + batch.length, sig⟩ rfl
        exact this.1
      have hh2tree : h2.tree = { h1.tree with rootHash := cs2.hash.getD [], signature := cs2.signature.getD [], length := cs2.length } := by
        rw [← het]
        have hup2 : cs2.upgraded = true := by rw [← hcs2]; exact r4
        simp only [entryOf, hup2, ite_true]
      have hh2rest : h2 = { h1 with tree := h2.tree } := by
        rw [← het]
        simp only [entryOf]; split <;> rfl
      have hcs2len : cs2.length = bs'.size := by rw [← hcs2]; exact r2
      have hcs2sig : cs2.signature.getD [] = sig := by rw [← hcs2]; rfl
      have hcs2hash : (cs2.hash.getD []).length ≤ 32 := by
        rw [← hcs2]; simp only [Option.getD_some, Tree.rootsHash]; rw [hTw]
      have hh1eq : h1 = { h with contiguous := h1.contiguous } := by rw [← hh1]; exact updateContiguous_eq _ _ _
      have hc1U : U64 h1.contiguous := by unfold U64; omega
      have hshape1 : HdrShape h1 := by rw [hh1eq]; exact hdrShape_contig _ hinv.shape _ hc1U
      exact {
        tree := ⟨t2a.2.1, by simp [Tree.changeset, t2a.1, refRoots, List.map_reverse], t2a.2.2.1⟩
        nodes := by
          intro dd o hb
          rw [← hN1 dd o hb]
          exact node?_congr t1 t2 d.tree _ (by rw [t2a.2.2.2])
        mapwf := by rw [t2a.2.2.2]; exact hwf1
        bitsB := by
          intro i hu
          rw [hget, ← hheld']
          by_cases hin : a.blocks.size ≤ i ∧ i < a.blocks.size + batch.length
          · simp [hin]
          · have := hinv.bitsB i (by
              intro x hx
              rcases List.mem_cons.mp hx with rfl | hx
              · exact hnt i hin
              · exact hu x hx)
            simp only [hin, ite_false, this]
            by_cases h1' : a.blocks.size ≤ i
            · have : ¬ i < a.blocks.size + batch.length := by omega
              simp [h1', this]
            · simp [h1']
        heldLt := hheldLt'
        contJ := by rw [hh2.1]; exact hJ1
        contK := by rw [hh2.1, hsize']; exact hK1
        bitsN := hbitsN'
        contN := by rw [hh2.1]; exact hN1c
        hdrLen := by rw [hh2tree]; exact hcs2len
        hdrSig := by rw [hh2tree]; exact Or.inr (by rw [hcs2sig]; exact hsig)
        shape := by
          rw [hh2rest, hh2tree]
          have := hdrShape_set h1 hshape1 (cs2.hash.getD []) (cs2.signature.getD []) cs2.length h1.contiguous hcs2hash
            (by rw [hcs2sig, hsig]) (by rw [hcs2len]; have hsz : bs'.size < 2 ^ 64 := hsmall.1; unfold U64; omega) hc1U
          simpa using this
        forkU := by rw [← ht2]; exact hfkU
        dirty := by rw [← hb']; exact dirty_setRange _ _ _ _ _ hinv.dirty }

/-! ### replaying the whole log -/

theorem replay_ok (C : Crypto) (hC : HashWF C) (hTw : TreeWF C) (d : Disk) (ol : Oplog.State) (N : Nat) (hN64 : N < 2 ^ 64)
    (es : List Entry) :
    ∀ (h : Header) (t : Tree) (b : Bitfield) (a a' : Abs), RInv C t b h d.tree d.bitfield a es N → Trace C a es a' →
      (∀ e ∈ es, EntryOK e) → a'.blocks.size ≤ N →
      ∃ h' t' b', Core.openCore.replay C d es (ol, h, t, b) = .ok (ol, h', t', b') ∧ RInv C t' b' h' d.tree d.bitfield a' [] N
        ∧ h'.secret = h.secret ∧ h'.publicKey = h.publicKey := by
  induction es with
  | nil =>
    intro h t b a a' hinv htr _ _
    cases htr
    exact ⟨h, t, b, rfl, hinv, rfl, rfl⟩
  | cons e es ih =>
    intro h t b a a' hinv htr hoks hN
    cases htr with
    | cons _ a1 _ _ _ hstep hsm hrest =>
      have hN1 : a1.blocks.size ≤ N := Nat.le_trans (trace_size_le C a1 a' es hrest) hN
      obtain ⟨h1, t1, b1, r1, r2, r3, r4⟩ := replayEntry_ok C hC d ol h t b a a1 e es N hTw hinv hstep hsm (hoks e (by simp)) hN1 hN64
      obtain ⟨h2, t2, b2, s1, s2, s3, s4⟩ := ih h1 t1 b1 a1 a' r2 hrest (fun x hx => hoks x (by simp [hx])) hN
      refine ⟨h2, t2, b2, ?_, s2, by rw [s3, r3], by rw [s4, r4]⟩
      simp only [Core.openCore.replay, r1, s1]

/-! ### opening the tree from the flushed store -/

theorem node?_empty (f : File) (i : Nat) (n : Node) (h : ({} : Tree).node? f i = some n) :
    ∃ bs, f.read (i * Spec.nodeSize) Spec.nodeSize = some bs ∧ nodeOfBytes i bs = n := by
  simp only [Tree.node?, Std.HashMap.getElem?_empty] at h
  cases hr : f.read (i * Spec.nodeSize) Spec.nodeSize with
  | none => simp [hr] at h
  | some bs =>
    simp only [hr] at h
    split at h
    · cases h
    · exact ⟨bs, rfl, Option.some.inj h⟩

theorem load_ok (C : Crypto) (bs : Array Bytes) (f : File) (hN : NodesOK C bs {} f) :
    ∀ (l : List (Nat × Nat)), (∀ p ∈ l, (p.2 + 1) * 2 ^ p.1 ≤ bs.size) →
      Tree.openTree.load f (l.map fun p => Flat.index p.1 p.2) = .ok (l.map fun p => nodeAt C bs p.1 p.2) := by
  intro l
  induction l with
  | nil => intro _; rfl
  | cons p ps ih =>
    intro hb
    obtain ⟨bytes, hr, hn⟩ := node?_empty f _ _ (hN p.1 p.2 (hb p (by simp)))
    simp only [List.map_cons, Tree.openTree.load, hr, ih (fun q hq => hb q (by simp [hq])), hn]

theorem cover_fold (C : Crypto) (bs : Array Bytes) (l : List (Nat × Nat)) (a b : Nat) (h : Cover l a b) :
    (l.map fun p => nodeAt C bs p.1 p.2).foldl (fun l n => l + 2 * ((n.index - l) + 1)) (2 * a) = 2 * b := by
  induction h with
  | nil a => rfl
  | cons d o a b rest ha _ ih =>
    simp only [List.map_cons, List.foldl_cons]
    have hp := pow_pos' d
    have hidx : (nodeAt C bs d o).index = o * (2 * 2 ^ d) + (2 ^ d - 1) := index_eq d o
    have e5 : o * (2 * 2 ^ d) = 2 * (o * 2 ^ d) := by ring
    have e6 : (o + 1) * 2 ^ d = o * 2 ^ d + 2 ^ d := by ring
    have : 2 * a + 2 * ((nodeAt C bs d o).index - 2 * a + 1) = 2 * ((o + 1) * 2 ^ d) := by
      rw [hidx, ha, e5, e6]; omega
    rw [this]; exact ih

theorem openTree_ok (C : Crypto) (bs : Array Bytes) (ht : HeaderTree) (f : File) (hN : NodesOK C bs {} f)
    (hlen : ht.length = bs.size) (hs : bs.size < 2 ^ 64) (hsig : ht.signature = [] ∨ ht.signature.length = 64) :
    ∃ t, Tree.openTree ht f = .ok t ∧ RootsOK C bs t.changeset ∧ t.unflushed = {} ∧ t.fork = ht.fork := by
  have hidx : fullRoots (ht.length * 2) = (rootsStack bs.size).reverse.map fun p => Flat.index p.1 p.2 := by
    rw [hlen, Nat.mul_comm]; exact fullRoots_eq bs.size hs
  have hload := load_ok C bs f hN (rootsStack bs.size).reverse
    (fun p hp => rootsStack_bound _ p (List.mem_reverse.mp hp))
  have hfold := cover_fold C bs _ 0 bs.size (cover_roots bs.size)
  simp only [Nat.mul_zero] at hfold
  have hsigc : ¬ (!ht.signature.isEmpty && decide (ht.signature.length ≠ 64)) = true := by
    rcases hsig with h | h
    · simp [h]
    · simp [h]
  have hopen : Tree.openTree ht f = .ok { roots := refRoots C bs, length := (2 * bs.size) / 2, byteLength := ((refRoots C bs).map (·.length)).sum, fork := ht.fork, signature := if ht.signature.isEmpty then none else some ht.signature } := by
    simp only [Tree.openTree, hidx, hload]
    simp only [hsigc, Bool.false_eq_true, ite_false, hfold, refRoots]
  refine ⟨_, hopen, ⟨?_, ?_, ?_⟩, rfl, rfl⟩
  · simp only [Tree.changeset]; omega
  · simp [Tree.changeset, refRoots, List.map_reverse]
  · exact refRoots_sum C bs

/-! ### `Hypercore::new` on existing storage -/

/-- If the oplog opens to the header of the last flush and the entries logged since, the tree store holds
    the nodes of that flush, the entries lead from that state to the log `a`, and the bitfield store holds
    the state of that flush **or anything a partial flush of a later state may have left** (a bit no
    entry touches is as at the flush; a bit held at the flush is still set unless an entry drops it; a bit
    missing below the flushed length is clear; no bit at or beyond the final length is set), then opening
    succeeds and the opened state satisfies the replay invariant for `a` — bitfield exact, hint exact. -/
theorem reopen_full (C : Crypto) (hC : HashWF C) (hTw : TreeWF C) (d : Disk) (ost : Oplog.State) (hf : Header) (es : List Entry)
    (a0 a : Abs) (ops : List SOp) (hops : ∀ op ∈ ops, op.store = .oplog)
    (hlog : Oplog.openLog none d.oplog.toList = .ok ⟨ost, hf, ops, es⟩)
    (hlen : hf.tree.length = a0.blocks.size) (hsig : hf.tree.signature = [] ∨ hf.tree.signature.length = 64)
    (hshape : HdrShape hf) (hoks : ∀ e ∈ es, EntryOK e)
    (hN : NodesOK C a0.blocks {} d.tree)
    (hstable : ∀ i, (∀ e ∈ es, ¬ Touches e i) → (Bitfield.ofFile d.bitfield).get i = a0.held i)
    (hkept : ∀ i, a0.held i = true → (Bitfield.ofFile d.bitfield).get i = true ∨ ∃ e ∈ es, Clears e i)
    (hlow : ∀ i, i < a0.blocks.size → a0.held i = false → (Bitfield.ofFile d.bitfield).get i = false)
    (hbN : ∀ i, (Bitfield.ofFile d.bitfield).get i = true → i < a.blocks.size)
    (hlt : ∀ i, a0.held i = true → i < a0.blocks.size)
    (hcontig : (∀ i, i < hf.contiguous → a0.held i = true) ∧ a0.held hf.contiguous = false)
    (hsmall0 : Small a0) (htrace : Trace C a0 es a) :
    ∃ h' t' b', Core.openCore C none d = .ok ({ publicKey := h'.publicKey, secret := h'.secret, oplog := ost, header := h', tree := t', bitfield := b', skipFlush := 0 }, ops)
      ∧ RInv C t' b' h' d.tree d.bitfield a [] a.blocks.size ∧ h'.secret = hf.secret := by
  -- the stores after the operations `Oplog::open` issues (a truncate of the oplog at most)
  have hd1t : (d.applyAll ops).tree = d.tree := tree_of_applyAll _ _ (fun op hop => by rw [hops op hop]; decide)
  have hd1b : (d.applyAll ops).bitfield = d.bitfield := by
    have := Journal.applyAll_other d ops .bitfield (fun op hop => by rw [hops op hop]; decide)
    simpa [Disk.get] using this
  obtain ⟨t0, ht0, hroots0, hunf0, hfork0⟩ := openTree_ok C a0.blocks hf.tree d.tree hN hlen hsmall0.1 hsig
  have hN0 : NodesOK C a0.blocks t0 d.tree := by
    intro dd o hb
    rw [← hN dd o hb]
    exact node?_congr {} t0 d.tree _ (by rw [hunf0])
  have hsz := trace_size_le C a0 a es htrace
  have hsmall := trace_small C a0 a es htrace hsmall0
  have hc0 : hf.contiguous ≤ a0.blocks.size := by
    by_cases hle : hf.contiguous ≤ a0.blocks.size
    · exact hle
    · exfalso
      have := hlt _ (hcontig.1 a0.blocks.size (by omega))
      omega
  have hinv0 : RInv C t0 (Bitfield.ofFile d.bitfield) hf d.tree d.bitfield a0 es a.blocks.size := {
    tree := hroots0
    nodes := hN0
    mapwf := by rw [hunf0]; intro k n hk; simp at hk
    bitsB := hstable
    heldLt := hlt
    contJ := fun i hi => hkept i (hcontig.1 i hi)
    contK := by
      by_cases hlt' : hf.contiguous < a0.blocks.size
      · exact Or.inr (hlow _ hlt' hcontig.2)
      · exact Or.inl (by omega)
    bitsN := hbN
    contN := by omega
    hdrLen := hlen
    hdrSig := hsig
    shape := hshape
    forkU := by rw [hfork0]; exact hshape.fork
    dirty := fun i hne => absurd rfl hne }
  rw [← hd1t, ← hd1b] at hinv0
  obtain ⟨h', t', b', hrep, hinv', hs', _⟩ := replay_ok C hC hTw (d.applyAll ops) ost a.blocks.size hsmall.1 es hf t0
    (Bitfield.ofFile (d.applyAll ops).bitfield) a0 a hinv0 htrace hoks (Nat.le_refl _)
  rw [hd1t, hd1b] at hinv'
  refine ⟨h', t', b', ?_, hinv', hs'⟩
  rw [← hd1t] at ht0
  simp only [Core.openCore, hlog, ht0, hrep]

/-- … hence a core that represents `a`, given that the data store holds `a`'s held blocks -/
theorem reopen_refines (C : Crypto) (hC : HashWF C) (hTw : TreeWF C) (d : Disk) (ost : Oplog.State) (hf : Header) (es : List Entry)
    (a0 a : Abs) (ops : List SOp) (hops : ∀ op ∈ ops, op.store = .oplog)
    (hlog : Oplog.openLog none d.oplog.toList = .ok ⟨ost, hf, ops, es⟩)
    (hlen : hf.tree.length = a0.blocks.size) (hsig : hf.tree.signature = [] ∨ hf.tree.signature.length = 64)
    (hsec : hf.secret.isSome = a.writable) (hshape : HdrShape hf) (hoks : ∀ e ∈ es, EntryOK e)
    (hN : NodesOK C a0.blocks {} d.tree)
    (hstable : ∀ i, (∀ e ∈ es, ¬ Touches e i) → (Bitfield.ofFile d.bitfield).get i = a0.held i)
    (hkept : ∀ i, a0.held i = true → (Bitfield.ofFile d.bitfield).get i = true ∨ ∃ e ∈ es, Clears e i)
    (hlow : ∀ i, i < a0.blocks.size → a0.held i = false → (Bitfield.ofFile d.bitfield).get i = false)
    (hbN : ∀ i, (Bitfield.ofFile d.bitfield).get i = true → i < a.blocks.size)
    (hlt : ∀ i, a0.held i = true → i < a0.blocks.size)
    (hcontig : (∀ i, i < hf.contiguous → a0.held i = true) ∧ a0.held hf.contiguous = false)
    (hsmall0 : Small a0) (htrace : Trace C a0 es a)
    (hdata : ∀ i, a.held i = true → ∀ k, k < sz a.blocks i →
      psum a.blocks i + k < d.data.size ∧ d.data.byte (psum a.blocks i + k) = (a.blocks.getD i []).getD k 0) :
    ∃ c', Core.openCore C none d = .ok (c', ops) ∧ Rep C c' (d.applyAll ops) a := by
  obtain ⟨h', t', b', hopen, hinv', hs'⟩ := reopen_full C hC hTw d ost hf es a0 a ops hops hlog hlen hsig hshape hoks hN hstable hkept hlow
    hbN hlt hcontig hsmall0 htrace
  obtain ⟨hbits, hfm⟩ := rinv_final C t' b' h' d.tree d.bitfield a _ hinv'
  have hd1t : (d.applyAll ops).tree = d.tree := tree_of_applyAll _ _ (fun op hop => by rw [hops op hop]; decide)
  have hd1d : (d.applyAll ops).data = d.data := data_of_applyAll _ _ (fun op hop => by rw [hops op hop]; decide)
  refine ⟨_, hopen, ?_⟩
  exact {
    writer := by show h'.secret.isSome = a.writable; rw [hs']; exact hsec
    tree := hinv'.tree
    nodes := by rw [hd1t]; exact hinv'.nodes
    mapwf := hinv'.mapwf
    bits := hbits
    heldLt := hinv'.heldLt
    contig := hfm
    data := by rw [hd1d]; exact hdata
    small := trace_small C a0 a es htrace hsmall0 }

end HC.Reopen
