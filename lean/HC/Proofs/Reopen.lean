import HC.Proofs.LiveRefine
import HC.Proofs.FullRoots
/-!
Reopen: replaying the logged entries over the flushed stores re-establishes the representation
invariant `Rep` for the same abstract log.

`EntryStep` says what one logged entry is, relative to the abstract log before and after it (an
append entry carries exactly the reference nodes created by the batch, the upgrade to the new length
and the have-range; a clear entry carries the dropped range).  `replay_ok`: replaying a trace of such
entries from a state that satisfies `RInv` for the log at the last flush reaches a state that satisfies
it for the current log.  `reopen_refines`: hence `Hypercore::new` yields a core satisfying `Rep`.
-/
namespace HC.Reopen
open HC HC.Codec HC.Flat HC.Tree HC.RefTree HC.RefProof HC.Offsets HC.TreeStore HC.LogSpec HC.Core HC.Oplog HC.LiveRefine
  HC.FullRoots

/-! ### reference roots as a list -/

def refRoots (C : Crypto) (bs : Array Bytes) : List Node := (rootsStack bs.size).reverse.map fun p => nodeAt C bs p.1 p.2

theorem refRoots_index (C : Crypto) (bs : Array Bytes) (hs : bs.size < 2 ^ 64) :
    (refRoots C bs).map (·.index) = fullRoots (2 * bs.size) := by
  rw [fullRoots_eq bs.size hs, refRoots, List.map_map]
  rfl

theorem roots_of_rootsOK (C : Crypto) (bs : Array Bytes) (cs : Changeset) (h : RootsOK C bs cs) : cs.roots = refRoots C bs := by
  have := congrArg List.reverse h.roots
  simpa [refRoots, List.map_reverse] using this

/-- the sizes of the reference roots over a cover add up to the bytes in the covered blocks -/
theorem cover_sum (C : Crypto) (bs : Array Bytes) (l : List (Nat × Nat)) (a b : Nat) (h : Cover l a b) :
    psum bs a + ((l.map fun p => (nodeAt C bs p.1 p.2).length)).sum = psum bs b := by
  induction h with
  | nil a => simp
  | cons d o a b rest ha _ ih =>
    simp only [List.map_cons, List.sum_cons]
    have := node_size C bs d o
    simp only [nodeAt] at ih ⊢
    rw [ha]; omega

theorem refRoots_sum (C : Crypto) (bs : Array Bytes) : ((refRoots C bs).map (·.length)).sum = totalBytes bs := by
  have := cover_sum C bs _ 0 bs.size (cover_roots bs.size)
  rw [← psum_total]
  simp only [refRoots, List.map_map]
  simp only [psum, Nat.zero_add] at this
  exact this

/-- every element is a reference node of `bs` -/
def AllRef (C : Crypto) (bs : Array Bytes) (l : List Node) : Prop := ∀ n ∈ l, ∃ d o, n = nodeAt C bs d o

theorem allRef_refRoots (C : Crypto) (bs : Array Bytes) : AllRef C bs (refRoots C bs) := by
  intro n hn
  simp only [refRoots, List.mem_map] at hn
  obtain ⟨p, _, rfl⟩ := hn
  exact ⟨p.1, p.2, rfl⟩

/-- two lists of reference nodes with the same indices are equal -/
theorem allRef_eq_of_index (C : Crypto) (bs : Array Bytes) (l l' : List Node) (h : AllRef C bs l) (h' : AllRef C bs l')
    (hi : l.map (·.index) = l'.map (·.index)) : l = l' := by
  induction l generalizing l' with
  | nil => cases l' with
    | nil => rfl
    | cons x xs => simp at hi
  | cons x xs ih =>
    cases l' with
    | nil => simp at hi
    | cons y ys =>
      simp only [List.map_cons, List.cons.injEq] at hi
      obtain ⟨d, o, rfl⟩ := h x (by simp)
      obtain ⟨d', o', rfl⟩ := h' y (by simp)
      obtain ⟨rfl, rfl⟩ := index_inj d o d' o' hi.1
      rw [ih ys (fun n hn => h n (by simp [hn])) (fun n hn => h' n (by simp [hn])) hi.2]

/-! ### `truncate` as replay uses it -/

theorem mem_fullRoots (n : Nat) (hn : n < 2 ^ 64) (r : Nat) (hr : r ∈ fullRoots (2 * n)) :
    ∃ d o, r = Flat.index d o ∧ (o + 1) * 2 ^ d ≤ n := by
  rw [fullRoots_eq n hn] at hr
  obtain ⟨p, hp, rfl⟩ := List.mem_map.mp hr
  exact ⟨p.1, p.2, rfl, rootsStack_bound n p (List.mem_reverse.mp hp)⟩

theorem truncate_go_ok (C : Crypto) (bs : Array Bytes) (t : Tree) (f : File) (hN : NodesOK C bs t f) (hs : bs.size < 2 ^ 64) :
    ∀ (rs pre : List Nat) (acc : List Node), fullRoots (2 * bs.size) = pre ++ rs → AllRef C bs acc →
      (acc.take pre.length).map (·.index) = pre →
      ∃ acc', Tree.truncate.go t f rs pre.length acc = .ok acc' ∧ AllRef C bs acc'
        ∧ (acc'.take (pre.length + rs.length)).map (·.index) = pre ++ rs := by
  intro rs
  induction rs with
  | nil => intro pre acc _ ha hp; exact ⟨acc, rfl, ha, by simpa using hp⟩
  | cons r rs ih =>
    intro pre acc hfull ha hp
    have hlen : (acc.take pre.length).length = pre.length := by
      have := congrArg List.length hp; simpa using this
    have hle : pre.length ≤ acc.length := by
      rw [List.length_take] at hlen; omega
    have hfull' : fullRoots (2 * bs.size) = (pre ++ [r]) ++ rs := by rw [hfull]; simp
    have hlen' : (pre ++ [r]).length = pre.length + 1 := by simp
    simp only [Tree.truncate.go]
    by_cases hc : pre.length < acc.length ∧ (acc.getD pre.length default).index = r
    · simp only [hc, and_self, ite_true]
      have htake : (acc.take (pre ++ [r]).length).map (·.index) = pre ++ [r] := by
        rw [hlen', List.take_add_one, List.map_append, hp]
        have hg : acc[pre.length]? = some acc[pre.length] := List.getElem?_eq_getElem hc.1
        have hgd : acc.getD pre.length default = acc[pre.length] := by simp [List.getD_eq_getElem?_getD, hg]
        have h2 := hc.2
        rw [hgd] at h2
        rw [hg]; simp [h2]
      obtain ⟨acc', h1, h2, h3⟩ := ih (pre ++ [r]) acc hfull' ha htake
      rw [hlen'] at h1 h3
      refine ⟨acc', h1, h2, ?_⟩
      have : pre.length + (r :: rs).length = pre.length + 1 + rs.length := by simp; omega
      rw [this, h3]; simp
    · simp only [hc, ite_false]
      obtain ⟨d, o, rfl, hb⟩ := mem_fullRoots bs.size hs r (by rw [hfull]; simp)
      have hreq : t.requiredNode f (Flat.index d o) = .ok (nodeAt C bs d o) := by
        simp [Tree.requiredNode, hN d o hb]
      simp only [hreq]
      have ha' : AllRef C bs (acc.take pre.length ++ [nodeAt C bs d o]) := by
        intro n hn
        rcases List.mem_append.mp hn with hn | hn
        · exact ha n (List.mem_of_mem_take hn)
        · simp at hn; subst hn; exact ⟨d, o, rfl⟩
      have htake : ((acc.take pre.length ++ [nodeAt C bs d o]).take (pre ++ [Flat.index d o]).length).map (·.index)
          = pre ++ [Flat.index d o] := by
        rw [hlen', List.take_of_length_le (by simp [hlen]), List.map_append, hp]
        rfl
      obtain ⟨acc', h1, h2, h3⟩ := ih (pre ++ [Flat.index d o]) _ hfull' ha' htake
      rw [hlen'] at h1 h3
      refine ⟨acc', h1, h2, ?_⟩
      have : pre.length + (Flat.index d o :: rs).length = pre.length + 1 + rs.length := by simp; omega
      rw [this, h3]; simp

/-- `truncate` to the length of `bs`, on a tree whose current roots are reference nodes of `bs` (the
    roots of a prefix) and whose lookup is exact for `bs` -/
theorem truncate_ok (C : Crypto) (bs : Array Bytes) (t : Tree) (f : File) (fork : Nat) (hN : NodesOK C bs t f)
    (hs : bs.size < 2 ^ 64) (hroots : AllRef C bs t.roots) :
    ∃ cs, t.truncate f bs.size fork = .ok cs ∧ cs.roots = refRoots C bs ∧ cs.length = bs.size
      ∧ cs.byteLength = totalBytes bs ∧ cs.upgraded = true ∧ cs.origLength = t.length ∧ cs.origFork = t.fork
      ∧ cs.rnodes = [] ∧ cs.fork = fork := by
  obtain ⟨acc', h1, h2, h3⟩ := truncate_go_ok C bs t f hN hs (fullRoots (2 * bs.size)) [] t.roots (by simp) hroots (by simp)
  simp only [List.length_nil, Nat.zero_add, List.nil_append] at h1 h3
  have hcomm : bs.size * 2 = 2 * bs.size := Nat.mul_comm _ _
  have hroots' : acc'.take (fullRoots (2 * bs.size)).length = refRoots C bs := by
    apply allRef_eq_of_index C bs _ _ (fun n hn => h2 n (List.mem_of_mem_take hn)) (allRef_refRoots C bs)
    rw [h3, refRoots_index C bs hs]
  generalize hbl : ((refRoots C bs).map (·.length)).sum = bl
  have e : t.truncate f bs.size fork = .ok { t.changeset with roots := refRoots C bs, fork := fork, length := bs.size, ancestors := bs.size, byteLength := bl, upgraded := true } := by
    simp only [Tree.truncate, hcomm, h1, hroots', hbl]
  exact ⟨_, e, rfl, rfl, by rw [← hbl]; exact refRoots_sum C bs, rfl, rfl, rfl, rfl, rfl⟩

end HC.Reopen
