import HC.Model.Codec
import HC.Model.Crypto
import HC.Model.Flat
/-!
The Hypercore-10 Merkle tree as a *specification*: by structural recursion on (depth, offset) over
the block list, independent of `append_root`'s incremental algorithm.
-/
namespace HC.RefTree
open HC.Codec

/-- (size, hash) of the node at depth `d`, offset `o` -/
def node (C : Crypto) (bs : Array Bytes) : Nat → Nat → Nat × Bytes
  | 0, o => let b := bs.getD o []; (b.length, C.leaf b)
  | d+1, o =>
    let l := node C bs d (2 * o)
    let r := node C bs d (2 * o + 1)
    (l.1 + r.1, C.parent (l.1 + r.1) l.2 r.2)

/-- the node at (d, o) as a protocol node with its flat in-order index -/
def nodeAt (C : Crypto) (bs : Array Bytes) (d o : Nat) : Node :=
  let n := node C bs d o
  ⟨Flat.index d o, n.1, n.2⟩

/-- root positions (depth, offset) of a tree with `n` leaves, last (smallest) root first -/
def rootsStack (n : Nat) : List (Nat × Nat) :=
  if h : n = 0 then []
  else if n % 2 = 0 then (rootsStack (n / 2)).map fun (d, o) => (d + 1, o)
  else (0, n - 1) :: (rootsStack (n / 2)).map fun (d, o) => (d + 1, o)
termination_by n
decreasing_by all_goals omega

/-- the roots, left to right (as the crate keeps them) -/
def roots (C : Crypto) (bs : Array Bytes) : List Node :=
  (rootsStack bs.size).reverse.map fun (d, o) => nodeAt C bs d o

/-- all full nodes, by increasing flat index -/
def allNodes (C : Crypto) (bs : Array Bytes) : List Node :=
  let n := bs.size
  let levels := (List.range (Nat.log2 (max n 1) + 1)).flatMap fun d =>
    (List.range (n / 2 ^ d)).map fun o => nodeAt C bs d o
  levels.mergeSort fun a b => a.index ≤ b.index

/-- what is signed for the log `bs` -/
def signableOf (C : Crypto) (bs : Array Bytes) (fork : Nat) : Bytes :=
  signable (C.tree ((roots C bs).map fun n => (n.hash, n.index, n.length))) bs.size fork

end HC.RefTree
