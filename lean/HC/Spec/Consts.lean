/-! Reference constants: the Hypercore-10 protocol / on-disk layout as the model uses them.
    Bridging lemmas (HC/Bridge/*) state that the values extracted from the Rust source agree. -/
namespace HC.Spec

/-- protocol order of the fields of each wire message (hypercore `lib/messages.js`) -/
def msgFields : String → List String
  | "Node" => ["index", "length", "hash"]
  | "RequestBlock" => ["index", "nodes"]
  | "RequestSeek" => ["bytes"]
  | "RequestUpgrade" => ["start", "length"]
  | "DataBlock" => ["index", "value", "nodes"]
  | "DataHash" => ["index", "nodes"]
  | "DataSeek" => ["bytes", "nodes"]
  | "DataUpgrade" => ["start", "length", "nodes", "additional_nodes", "signature"]
  | _ => []

/-! oplog -/
def headerSize : Nat := 4096
def entriesOffset : Nat := 8192
def leaderSize : Nat := 8
def maxEntriesBytes : Nat := 65536
def initialBits : Bool × Bool := (true, false)
/-- entry flag bits: userData, treeNodes, treeUpgrade, bitfield -/
def entryFlags : List Nat := [1, 2, 4, 8]
def headerVersionFlags : List Nat := [1, 6]
/-- next header slot (true = second) and bit, as a function of the two current bits -/
def nextSlot (b0 b1 : Bool) : Bool × Bool := if b0 != b1 then (false, !b0) else (true, !b1)
def currentBit (b0 b1 : Bool) : Bool := b0 != b1

/-! hashing -/
def leafType : Nat := 0
def parentType : Nat := 1
def rootType : Nat := 2
def treeNamespace : List Nat :=
  [0x9F, 0xAC, 0x70, 0xB5, 0x0C, 0xA1, 0x4E, 0xFC, 0x4E, 0x91, 0xC8, 0x33, 0xB2, 0x04, 0xE7, 0x5B,
   0x8B, 0x5A, 0xAD, 0x8B, 0x58, 0x81, 0xBF, 0xC0, 0xAD, 0xB5, 0xEF, 0x38, 0xA3, 0x27, 0x5B, 0x9C]

/-! tree / bitfield files -/
def nodeSize : Nat := 40
def pageBytes : Nat := 4096
def pageBits : Nat := 32768

/-! core -/
def flushEvery : Nat := 4          -- a flush, then three skipped
def maxEventQueue : Nat := 32

end HC.Spec
