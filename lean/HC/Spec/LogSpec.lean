import HC.Model.Core
/-!
The specification C01 refers to: an append-only list of blocks with a set of held indices, and the
observations of the public API on it.  `stepC` is one API call on the model of the crate (memory
state + disk; the disk after the call is the disk before with the call's journal applied — exactly
what the driver does, and what the instrumented backend records of the real crate).
-/
namespace HC.LogSpec
open HC

inductive Op
  | append (batch : List Bytes)
  | clear (start fin : Nat)
  | get (i : Nat)
  | has (i : Nat)
  | info
  | makeReadOnly

inductive Obs
  | appended (length byteLength : Nat)
  | cleared
  | block (b : Option Bytes)
  | has (b : Bool)
  | info (length byteLength contiguous : Nat) (writable : Bool)
  | failed (f : Fail)
  | reopened
  | readOnly (changed : Bool)

/-- the abstract log -/
structure Abs where
  blocks : Array Bytes := #[]
  held : Nat → Bool := fun _ => false
  /-- the core holds the secret key (`make_read_only` drops it for good) -/
  writable : Bool := true

def totalBytes (bs : Array Bytes) : Nat := (bs.toList.map List.length).sum

/-- first index `≥ c` that is not held, looking at most `fuel` indices ahead -/
def firstMissing (held : Nat → Bool) : Nat → Nat → Nat
  | 0, c => c
  | fuel+1, c => if held c then firstMissing held fuel (c + 1) else c

def Abs.step (a : Abs) : Op → Abs × Obs
  | .append batch =>
    if a.writable = false then (a, .failed .err)
    else if batch.isEmpty then (a, .appended a.blocks.size (totalBytes a.blocks))
    else
      let n := a.blocks.size
      let a' : Abs := { a with blocks := a.blocks ++ batch.toArray, held := fun i => a.held i || (decide (n ≤ i) && decide (i < n + batch.length)) }
      (a', .appended a'.blocks.size (totalBytes a'.blocks))
  | .clear s e =>
    if s ≥ e then (a, .cleared)
    else ({ a with held := fun i => a.held i && !(decide (s ≤ i) && decide (i < e)) }, .cleared)
  | .get i => (a, .block (if a.held i then some (a.blocks.getD i []) else none))
  | .has i => (a, .has (a.held i))
  | .info => (a, .info a.blocks.size (totalBytes a.blocks) (firstMissing a.held a.blocks.size 0) a.writable)
  | .makeReadOnly => if a.writable then ({ a with writable := false }, .readOnly true) else (a, .readOnly false)

def obsOf {α : Type} (r : R α) (f : α → Obs) : Obs :=
  match r with
  | .ok v => f v
  | .error e => .failed e

/-- one API call on the model of the crate -/
def stepC (C : Crypto) (s : Core × Disk) : Op → (Core × Disk) × Obs
  | .append batch =>
    let st := s.1.appendBatch C batch
    ((st.core, s.2.applyAll st.journal), obsOf st.result fun o => .appended o.length o.byteLength)
  | .clear a b =>
    let st := s.1.clear s.2 a b
    ((st.core, s.2.applyAll st.journal), obsOf st.result fun _ => .cleared)
  | .get i =>
    let st := s.1.getBlock s.2 i
    ((st.core, s.2.applyAll st.journal), obsOf st.result fun b => .block b)
  | .has i => (s, .has (s.1.has i))
  | .info => (s, .info s.1.info.length s.1.info.byteLength s.1.info.contiguous s.1.info.writeable)
  | .makeReadOnly =>
    let st := s.1.makeReadOnly
    ((st.core, s.2.applyAll st.journal), obsOf st.result fun b => .readOnly b)

/-- the storage operations of one API call, in the order they are issued -/
def journalC (C : Crypto) (s : Core × Disk) : Op → List SOp
  | .append batch => (s.1.appendBatch C batch).journal
  | .clear a b => (s.1.clear s.2 a b).journal
  | .get i => (s.1.getBlock s.2 i).journal
  | .has _ => []
  | .info => []
  | .makeReadOnly => s.1.makeReadOnly.journal

/-- the stores if the process dies after the first `k` storage operations of the call -/
def crashDisk (C : Crypto) (s : Core × Disk) (op : Op) (k : Nat) : Disk := s.2.applyAll ((journalC C s op).take k)

/-- the stores if the process dies *during* storage operation `k` of a journal and that operation is a write of
    which only the first `t` bytes arrive (for any other kind of operation: the stores before it) -/
def tornApply (d : Disk) (j : List SOp) (k t : Nat) : Disk :=
  match j[k]? with
  | some (.write st off bs) => (d.applyAll (j.take k)).apply (.write st off (bs.take t))
  | _ => d.applyAll (j.take k)

def tornDisk (C : Crypto) (s : Core × Disk) (op : Op) (k t : Nat) : Disk := tornApply s.2 (journalC C s op) k t

/-- the calls C01 quantifies over: `clear` with `start < end` is called with `start < length`; sizes
    stay within what the on-disk format can represent -/
def Valid (a : Abs) : Op → Prop
  | .append batch => a.blocks.size + batch.length < 2 ^ 64 ∧ totalBytes (a.blocks ++ batch.toArray) < 2 ^ 64
  | .clear s e => s < e → s < a.blocks.size
  | _ => True

/-- a step of a history: an API call, or dropping the instance and opening the storage again -/
inductive HStep
  | call (op : Op)
  | reopen

def Abs.step' (a : Abs) : HStep → Abs × Obs
  | .call op => a.step op
  | .reopen => (a, .reopened)

/-- `reopen` = `HypercoreBuilder::new(storage).open(true).build()` on the same four stores -/
def stepC' (C : Crypto) (s : Core × Disk) : HStep → (Core × Disk) × Obs
  | .call op => stepC C s op
  | .reopen =>
    match Core.openCore C none s.2 with
    | .ok (c', j) => ((c', s.2.applyAll j), .reopened)
    | .error e => (s, .failed e)

/-! ### histories with crashes -/

/-- a step of a history with crashes: an API call that completes; a clean close and reopen; or a call
    during which the process dies after exactly `k` of its storage operations, followed by a reopen of
    whatever reached the stores -/
inductive XStep
  | call (op : Op)
  | reopen
  | crash (op : Op) (k : Nat)

def stepX (C : Crypto) (s : Core × Disk) : XStep → (Core × Disk) × Obs
  | .call op => stepC C s op
  | .reopen => stepC' C s .reopen
  | .crash op k =>
    match Core.openCore C none (crashDisk C s op k) with
    | .ok (c', j) => ((c', (crashDisk C s op k).applyAll j), .reopened)
    | .error e => (s, .failed e)

def runX (C : Crypto) (s : Core × Disk) : List XStep → (Core × Disk) × List Obs
  | [] => (s, [])
  | st :: rest =>
    let r := stepX C s st
    let rr := runX C r.1 rest
    (rr.1, r.2 :: rr.2)

/-- the abstract log under the same history: a crash step is a successful reopen of the log before the
    interrupted call **or** of the log after it — nothing else — and every later observation is that of
    the log chosen -/
inductive AbsX : Abs → List XStep → List Obs → Prop
  | nil (a : Abs) : AbsX a [] []
  | call (a : Abs) (op : Op) (rest : List XStep) (obs : List Obs) :
      AbsX (a.step op).1 rest obs → AbsX a (.call op :: rest) ((a.step op).2 :: obs)
  | reopen (a : Abs) (rest : List XStep) (obs : List Obs) : AbsX a rest obs → AbsX a (.reopen :: rest) (.reopened :: obs)
  | crashBefore (a : Abs) (op : Op) (k : Nat) (rest : List XStep) (obs : List Obs) :
      AbsX a rest obs → AbsX a (.crash op k :: rest) (.reopened :: obs)
  | crashAfter (a : Abs) (op : Op) (k : Nat) (rest : List XStep) (obs : List Obs) :
      AbsX (a.step op).1 rest obs → AbsX a (.crash op k :: rest) (.reopened :: obs)

end HC.LogSpec
