import HC.Base
/-!
Model of the compact-encoding primitives hypercore uses and of `src/encoding.rs`
(wire messages).  Written from the compact-encoding specification:

* uint: one byte if `< 0xfd`; `0xfd` + 2 LE bytes if `≤ 0xffff`; `0xfe` + 4 LE bytes if
  `≤ 0xffffffff`; `0xff` + 8 LE bytes otherwise.
* buffer: uint length, then the bytes.   * fixed32: 32 raw bytes.
* array: uint count, then the elements.

Decoders are total: `none` is the `Err(EncodingError)` of the Rust code.
-/
namespace HC.Codec

/-! ### primitives -/

def encUint (n : Nat) : Bytes :=
  if n < 0xfd then [UInt8.ofNat n]
  else if n ≤ 0xffff then 0xfd :: leBytes n 2
  else if n ≤ 0xffffffff then 0xfe :: leBytes n 4
  else 0xff :: leBytes n 8

def sizeUint (n : Nat) : Nat :=
  if n < 0xfd then 1 else if n ≤ 0xffff then 3 else if n ≤ 0xffffffff then 5 else 9

def takeN (k : Nat) (bs : Bytes) : Option (Bytes × Bytes) :=
  if bs.length < k then none else some (bs.take k, bs.drop k)

def decUint : Bytes → Option (Nat × Bytes)
  | [] => none
  | b :: rest =>
    if b.toNat < 0xfd then some (b.toNat, rest)
    else if b.toNat = 0xfd then (takeN 2 rest).map fun (x, r) => (leVal x, r)
    else if b.toNat = 0xfe then (takeN 4 rest).map fun (x, r) => (leVal x, r)
    else (takeN 8 rest).map fun (x, r) => (leVal x, r)

def encBuf (b : Bytes) : Bytes := encUint b.length ++ b
def sizeBuf (b : Bytes) : Nat := sizeUint b.length + b.length

def decBuf (bs : Bytes) : Option (Bytes × Bytes) :=
  match decUint bs with
  | none => none
  | some (n, rest) => takeN n rest

/-- decode `n` elements with decoder `d` -/
def decMany {α : Type} (d : Bytes → Option (α × Bytes)) : Nat → Bytes → Option (List α × Bytes)
  | 0, bs => some ([], bs)
  | n+1, bs =>
    match d bs with
    | none => none
    | some (a, rest) =>
      match decMany d n rest with
      | none => none
      | some (as, rest') => some (a :: as, rest')

def encArr {α : Type} (e : α → Bytes) (l : List α) : Bytes :=
  encUint l.length ++ (l.map e).flatten

def decArr {α : Type} (d : Bytes → Option (α × Bytes)) (bs : Bytes) : Option (List α × Bytes) :=
  match decUint bs with
  | none => none
  | some (n, rest) => decMany d n rest

/-! ### protocol types (`src/common/node.rs`, `src/common/peer.rs`) -/

structure Node where
  index : Nat
  length : Nat
  hash : Bytes
deriving DecidableEq, Repr, Inhabited

structure RequestBlock where
  index : Nat
  nodes : Nat
deriving DecidableEq, Repr

structure RequestSeek where
  bytes : Nat
deriving DecidableEq, Repr

structure RequestUpgrade where
  start : Nat
  length : Nat
deriving DecidableEq, Repr

structure DataBlock where
  index : Nat
  value : Bytes
  nodes : List Node
deriving DecidableEq, Repr

structure DataHash where
  index : Nat
  nodes : List Node
deriving DecidableEq, Repr

structure DataSeek where
  bytes : Nat
  nodes : List Node
deriving DecidableEq, Repr

structure DataUpgrade where
  start : Nat
  length : Nat
  nodes : List Node
  additionalNodes : List Node
  signature : Bytes
deriving DecidableEq, Repr

/-! ### encoders: the fields' compact encodings concatenated in protocol order -/

def encNode (n : Node) : Bytes := encUint n.index ++ encUint n.length ++ n.hash
def sizeNode (n : Node) : Nat := sizeUint n.index + sizeUint n.length + 32

def decNode (bs : Bytes) : Option (Node × Bytes) :=
  match decUint bs with
  | none => none
  | some (index, r1) =>
    match decUint r1 with
    | none => none
    | some (length, r2) =>
      match takeN 32 r2 with
      | none => none
      | some (hash, r3) => some (⟨index, length, hash⟩, r3)

def encNodes (l : List Node) : Bytes := encArr encNode l
def decNodes (bs : Bytes) : Option (List Node × Bytes) := decArr decNode bs
def sizeNodes (l : List Node) : Nat := sizeUint l.length + (l.map sizeNode).sum

def encRequestBlock (m : RequestBlock) : Bytes := encUint m.index ++ encUint m.nodes
def sizeRequestBlock (m : RequestBlock) : Nat := sizeUint m.index + sizeUint m.nodes
def decRequestBlock (bs : Bytes) : Option (RequestBlock × Bytes) :=
  match decUint bs with
  | none => none
  | some (index, r1) =>
    match decUint r1 with
    | none => none
    | some (nodes, r2) => some (⟨index, nodes⟩, r2)

def encRequestSeek (m : RequestSeek) : Bytes := encUint m.bytes
def sizeRequestSeek (m : RequestSeek) : Nat := sizeUint m.bytes
def decRequestSeek (bs : Bytes) : Option (RequestSeek × Bytes) :=
  match decUint bs with
  | none => none
  | some (b, r) => some (⟨b⟩, r)

def encRequestUpgrade (m : RequestUpgrade) : Bytes := encUint m.start ++ encUint m.length
def sizeRequestUpgrade (m : RequestUpgrade) : Nat := sizeUint m.start + sizeUint m.length
def decRequestUpgrade (bs : Bytes) : Option (RequestUpgrade × Bytes) :=
  match decUint bs with
  | none => none
  | some (start, r1) =>
    match decUint r1 with
    | none => none
    | some (length, r2) => some (⟨start, length⟩, r2)

def encDataBlock (m : DataBlock) : Bytes := encUint m.index ++ encBuf m.value ++ encNodes m.nodes
def sizeDataBlock (m : DataBlock) : Nat := sizeUint m.index + sizeBuf m.value + sizeNodes m.nodes
def decDataBlock (bs : Bytes) : Option (DataBlock × Bytes) :=
  match decUint bs with
  | none => none
  | some (index, r1) =>
    match decBuf r1 with
    | none => none
    | some (value, r2) =>
      match decNodes r2 with
      | none => none
      | some (nodes, r3) => some (⟨index, value, nodes⟩, r3)

def encDataHash (m : DataHash) : Bytes := encUint m.index ++ encNodes m.nodes
def sizeDataHash (m : DataHash) : Nat := sizeUint m.index + sizeNodes m.nodes
def decDataHash (bs : Bytes) : Option (DataHash × Bytes) :=
  match decUint bs with
  | none => none
  | some (index, r1) =>
    match decNodes r1 with
    | none => none
    | some (nodes, r2) => some (⟨index, nodes⟩, r2)

def encDataSeek (m : DataSeek) : Bytes := encUint m.bytes ++ encNodes m.nodes
def sizeDataSeek (m : DataSeek) : Nat := sizeUint m.bytes + sizeNodes m.nodes
def decDataSeek (bs : Bytes) : Option (DataSeek × Bytes) :=
  match decUint bs with
  | none => none
  | some (b, r1) =>
    match decNodes r1 with
    | none => none
    | some (nodes, r2) => some (⟨b, nodes⟩, r2)

def encDataUpgrade (m : DataUpgrade) : Bytes :=
  encUint m.start ++ encUint m.length ++ encNodes m.nodes ++ encNodes m.additionalNodes ++ encBuf m.signature
def sizeDataUpgrade (m : DataUpgrade) : Nat :=
  sizeUint m.start + sizeUint m.length + sizeNodes m.nodes + sizeNodes m.additionalNodes + sizeBuf m.signature
def decDataUpgrade (bs : Bytes) : Option (DataUpgrade × Bytes) :=
  match decUint bs with
  | none => none
  | some (start, r1) =>
    match decUint r1 with
    | none => none
    | some (length, r2) =>
      match decNodes r2 with
      | none => none
      | some (nodes, r3) =>
        match decNodes r3 with
        | none => none
        | some (add, r4) =>
          match decBuf r4 with
          | none => none
          | some (sig, r5) => some (⟨start, length, nodes, add, sig⟩, r5)

/-! ### well-formedness: what the Rust types can hold -/

def U64 (n : Nat) : Prop := n < 2 ^ 64
instance (n : Nat) : Decidable (U64 n) := by unfold U64; infer_instance

def Node.WF (n : Node) : Prop := U64 n.index ∧ U64 n.length ∧ n.hash.length = 32
instance (n : Node) : Decidable n.WF := by unfold Node.WF; infer_instance

def NodesWF (l : List Node) : Prop := U64 l.length ∧ ∀ n ∈ l, n.WF
instance (l : List Node) : Decidable (NodesWF l) := by unfold NodesWF; infer_instance

def RequestBlock.WF (m : RequestBlock) : Prop := U64 m.index ∧ U64 m.nodes
instance (m : RequestBlock) : Decidable m.WF := by unfold RequestBlock.WF; infer_instance
def RequestSeek.WF (m : RequestSeek) : Prop := U64 m.bytes
instance (m : RequestSeek) : Decidable m.WF := by unfold RequestSeek.WF; infer_instance
def RequestUpgrade.WF (m : RequestUpgrade) : Prop := U64 m.start ∧ U64 m.length
instance (m : RequestUpgrade) : Decidable m.WF := by unfold RequestUpgrade.WF; infer_instance
def DataBlock.WF (m : DataBlock) : Prop := U64 m.index ∧ U64 m.value.length ∧ NodesWF m.nodes
instance (m : DataBlock) : Decidable m.WF := by unfold DataBlock.WF; infer_instance
def DataHash.WF (m : DataHash) : Prop := U64 m.index ∧ NodesWF m.nodes
instance (m : DataHash) : Decidable m.WF := by unfold DataHash.WF; infer_instance
def DataSeek.WF (m : DataSeek) : Prop := U64 m.bytes ∧ NodesWF m.nodes
instance (m : DataSeek) : Decidable m.WF := by unfold DataSeek.WF; infer_instance
def DataUpgrade.WF (m : DataUpgrade) : Prop :=
  U64 m.start ∧ U64 m.length ∧ NodesWF m.nodes ∧ NodesWF m.additionalNodes ∧ U64 m.signature.length
instance (m : DataUpgrade) : Decidable m.WF := by unfold DataUpgrade.WF; infer_instance

end HC.Codec
